(** Concrete instance next to the theorems of [QueryProofs] / [QueryBounds]: their hypotheses are satisfiable
    and the conclusions are not vacuous.  One resource (cpus), worker counter 5; classes: 0 = 2 cpus, 1 = 8 cpus
    (min_time 50), 2 = multi-node, 2 nodes, min_time 50; waiting: two / one / three tasks.
    Queries: 0 = full descriptor, 4 cpus, time limit 100, up to 2 workers, 1 worker per allocation;
             1 = partial descriptor naming nothing, time limit 60, up to 1 worker, 2 workers per allocation;
             2 = full descriptor, 1 cpu, time limit 10: no class fits. *)
From HQ Require Import Base.Prelude Gen.Consts Sched.Model Sched.Query Sched.QueryProofs Sched.QueryBounds.
Open Scope N_scope.

Definition ex_queues (n : nat) (tasks : list (N * N * Z)) : list queue :=
  map (fun rq => fold_left (fun q t => if snd (fst t) =? rq then queue_add q (fst (fst t)) (from_user_priority (snd t)) else q)
                           tasks empty_queue) (seqN 0 n).

Definition ex_st : qstate :=
  {| qs_nres := 1; qs_now := 0;
     qs_classes := [ {| rc_entries := [(0, 20000)]; rc_min_time := 0; rc_all := [] |};
                     {| rc_entries := [(0, 80000)]; rc_min_time := 50; rc_all := [] |};
                     {| rc_entries := []; rc_min_time := 50; rc_all := [] |} ];
     qs_nodes := [0; 0; 2];
     qs_queues := ex_queues 3 [(1, 0, 0%Z); (2, 0, 0%Z); (3, 1, 0%Z); (4, 2, 0%Z); (5, 2, 0%Z); (6, 2, 0%Z)];
     qs_worker_counter := 5; qs_free_real := 0 |}.

Definition ex_q0 := {| wq_partial := false; wq_desc := [(0, 40000)]; wq_time_limit := Some 100; wq_max_sn := 2; wq_max_per_alloc := 1 |}.
Definition ex_q1 := {| wq_partial := true; wq_desc := []; wq_time_limit := Some 60; wq_max_sn := 1; wq_max_per_alloc := 2 |}.
Definition ex_q2 := {| wq_partial := false; wq_desc := [(0, 10000)]; wq_time_limit := Some 10; wq_max_sn := 3; wq_max_per_alloc := 0 |}.
Definition ex_qs := [ex_q0; ex_q1; ex_q2].

(** the solver's answer: both 2-cpu tasks on fake worker 6 (query 0), the 8-cpu task on fake worker 8 (query 1) *)
Definition ex_sol : sol := fun v =>
  match v with
  | VX 6 0 => 2%Z
  | VX 8 1 => 1%Z
  | _ => 0%Z
  end.

Example ex_valid : forallb desc_valid ex_qs = true.
Proof. vm_compute. reflexivity. Qed.

Example ex_sol_ok : query_sol_ok ex_st ex_qs ex_sol = true.
Proof. vm_compute. reflexivity. Qed.

Example ex_response :
  compute_new_worker_query ex_st ex_qs ex_sol
  = Ok {| r_sn := [1; 1; 0]; r_mn := [{| mn_type := 1; mn_per_alloc := 2; mn_max_allocs := 3 |}] |}.
Proof. vm_compute. reflexivity. Qed.

(** hypothesis of [query_no_candidates_no_demand] for query 2, on the finitely many classes *)
Example ex_no_candidates :
  forallb (fun rq => negb (0 <? waiting_of (query_inst ex_st ex_qs) rq) || negb (class_fits (query_inst ex_st ex_qs) ex_q2 rq)) [0; 1; 2] = true
  /\ nth_error ex_qs 2 = Some ex_q2.
Proof. split; vm_compute; reflexivity. Qed.

(** which classes fit which query *)
Example ex_fits :
  map (fun q => map (class_fits (query_inst ex_st ex_qs) q) [0; 1]) ex_qs = [[true; false]; [true; true]; [false; false]].
Proof. vm_compute. reflexivity. Qed.

(** number of waiting single-node tasks: three; the total demand is two *)
Example ex_waiting : sn_waiting ex_st = 3.
Proof. vm_compute. reflexivity. Qed.

(** the wrapper: scheduling flag set and the rounds did not finish -> the empty answer *)
Example ex_wrapper_empty :
  new_worker_query ex_st ex_qs true false ex_sol = Ok (QResp {| r_sn := []; r_mn := [] |}).
Proof. vm_compute. reflexivity. Qed.

(** an invalid descriptor (a full descriptor without cpus) -> error *)
Example ex_wrapper_invalid :
  new_worker_query ex_st [{| wq_partial := false; wq_desc := [(1, 10000)]; wq_time_limit := None; wq_max_sn := 1; wq_max_per_alloc := 1 |}]
    false true ex_sol = Ok QErr.
Proof. vm_compute. reflexivity. Qed.

(** documentation of the repaired defects: on these two states the code BEFORE the repairs panicked
    (corpus/sched/fixed_F32_*.trace, fixed_F33_*.trace) *)
Definition f32_st : qstate :=
  {| qs_nres := 1; qs_now := 0; qs_classes := [ {| rc_entries := []; rc_min_time := 0; rc_all := [] |} ];
     qs_nodes := [2]; qs_queues := ex_queues 1 [(1, 0, 0%Z)]; qs_worker_counter := 2; qs_free_real := 2 |}.
Example F32_prefix_unwrap_on_fake_worker_group :
  prefix_mn_unwrap f32_st [{| wq_partial := false; wq_desc := [(0, 10000)]; wq_time_limit := None; wq_max_sn := 1; wq_max_per_alloc := 2 |}] = true.
Proof. vm_compute. reflexivity. Qed.

Definition f33_st : qstate :=
  {| qs_nres := 1; qs_now := 0; qs_classes := [ {| rc_entries := []; rc_min_time := 0; rc_all := [0] |} ];
     qs_nodes := [0]; qs_queues := ex_queues 1 [(1, 0, 0%Z)]; qs_worker_counter := 0; qs_free_real := 0 |}.
Example F33_prefix_max_coefficient_leaks :
  prefix_highs_rejects f33_st
    [{| wq_partial := true; wq_desc := []; wq_time_limit := None; wq_max_sn := 1; wq_max_per_alloc := 0 |};
     {| wq_partial := false; wq_desc := [(0, 40000)]; wq_time_limit := None; wq_max_sn := 1; wq_max_per_alloc := 0 |}] = true.
Proof. vm_compute. reflexivity. Qed.
