(** C15: semantics of the cut rows, aggregate bound over the zero-gap workers for an UNBOUNDED blocker
    (the blocker class hit its batch limit).  The solver emits that row only for the first cut of the
    batch naming the blocker ([seen] in [cut_items]); since the cut sizes of a batch ascend, the row of
    the first such cut implies the bound for every later one.
    ([C15_cut_semantics]: this closes the case left open in [ProofsCuts].) *)
From HQ Require Import Base.Prelude Gen.Consts Sched.Model Sched.ProofsRows Sched.ProofsCuts Sched.ExactFullMerge.
Require Import ZifyBool ZifyN ZifyNat.
From Coq Require Import Sorting.Sorted.
Open Scope N_scope.

Section ZeroU.
Variables (I : inst) (bs : list batch) (b : batch).

Definition Zspec (zero : list var) (h : N) : Prop :=
  forall s : sol, lhs s (ones zero) = zero_sum I bs s h (b_rq b) (i_workers I).

Lemma existsb_cons_new : forall (h h0 : N) seen, existsb (N.eqb h) seen = false -> existsb (N.eqb h) (h0 :: seen) = true -> h0 = h.
Proof. intros h h0 seen H1 H2. cbn [existsb] in H2. rewrite H1, Bool.orb_false_r in H2. apply N.eqb_eq in H2. congruence. Qed.

Lemma cut_items_zeroU : forall c bl seen its1 seen1, cut_items I bs b c bl seen = Ok (its1, seen1) ->
  forall h, existsb (N.eqb h) seen = false ->
    (In (h, None) bl -> exists zero, Zspec zero h /\ (zero = [] \/ In (IZeroU (b_rq b) h (c_size c) zero) its1))
    /\ (existsb (N.eqb h) seen1 = true -> exists zero, Zspec zero h /\ In (IZeroU (b_rq b) h (c_size c) zero) its1).
Proof.
  intros c. induction bl as [|[h0 bsz0] t IH]; intros seen its1 seen1 H h Hseen.
  - simpl in H. inversion H; subst. split; [intros []|intros E; congruence].
  - simpl in H.
    destruct (blocker_items I bs b c h0 bsz0 _ (i_workers I) []) as [[its0 zero0]| |] eqn:E; simpl in H; try discriminate.
    assert (Hz0 : Zspec zero0 h0).
    { intros s. rewrite (blocker_items_zero I bs s _ _ _ _ _ _ _ _ _ E). simpl. lia. }
    set (zz := match zero0 with [] => _ | _ => _ end) in H. destruct zz as [zitem seen'] eqn:Ezz.
    destruct (cut_items I bs b c t seen') as [[its2 seen2]| |] eqn:E2; simpl in H; try discriminate.
    inversion H; subst its1 seen1. clear H.
    destruct (existsb (N.eqb h) seen') eqn:Es'.
    + (* the head emitted the row of [h] *)
      assert (Hem : h0 = h /\ zitem = [IZeroU (b_rq b) h0 (c_size c) zero0]).
      { unfold zz in Ezz. destruct zero0 as [|v vs]; [inversion Ezz; subst; congruence|].
        destruct bsz0 as [sz|].
        - destruct (match count_vars I bs h0 with [] => false | _ => true end); inversion Ezz; subst; congruence.
        - destruct (existsb (N.eqb h0) seen) eqn:Eh0; inversion Ezz; subst; [congruence|].
          split; [apply (existsb_cons_new h h0 seen Hseen Es')|reflexivity]. }
      destruct Hem as [-> ->].
      assert (Hin : In (IZeroU (b_rq b) h (c_size c) zero0) (its0 ++ [IZeroU (b_rq b) h (c_size c) zero0] ++ its2))
        by (apply in_or_app; right; apply in_or_app; left; left; reflexivity).
      split; intros _; exists zero0; split; auto.
    + destruct (IH seen' its2 seen2 E2 h Es') as [P1 P2]. split.
      * intros [Heq|Hin].
        -- inversion Heq; subst h0 bsz0. exists zero0. split; [exact Hz0|]. left.
           unfold zz in Ezz. destruct zero0 as [|v vs]; [reflexivity|]. rewrite Hseen in Ezz. inversion Ezz; subst.
           cbn [existsb] in Es'. rewrite N.eqb_refl in Es'. discriminate.
        -- destruct (P1 Hin) as (zero & Hz & Hor). exists zero. split; [exact Hz|].
           destruct Hor as [->|Hi]; [left; reflexivity|right]. apply in_or_app. right. apply in_or_app. right. exact Hi.
      * intros Es2. destruct (P2 Es2) as (zero & Hz & Hi). exists zero. split; [exact Hz|].
        apply in_or_app. right. apply in_or_app. right. exact Hi.
Qed.

Lemma cuts_items_zeroU : forall cs seen its, cuts_items I bs b cs seen = Ok its -> StronglySorted le_size cs ->
  forall c h, In c cs -> In (h, None) (c_blockers c) -> existsb (N.eqb h) seen = false ->
  exists zero c', Zspec zero h /\ (zero = [] \/ (In (IZeroU (b_rq b) h (c_size c') zero) its /\ c_size c' <= c_size c)).
Proof.
  induction cs as [|c0 t IH]; intros seen its H Hs c h Hc Hbl Hseen; [contradiction|].
  simpl in H. destruct (cut_items I bs b c0 (c_blockers c0) seen) as [[its1 seen1]| |] eqn:E; simpl in H; try discriminate.
  destruct (cuts_items I bs b t seen1) as [its2| |] eqn:E2; simpl in H; try discriminate.
  inversion H; subst its. clear H. inversion Hs as [|? ? Hs' Hall]; subst.
  destruct (cut_items_zeroU c0 _ _ _ _ E h Hseen) as [P1 P2].
  assert (Hle : c_size c0 <= c_size c).
  { destruct Hc as [->|Hc]; [lia|]. rewrite Forall_forall in Hall. apply (Hall c Hc). }
  destruct (existsb (N.eqb h) seen1) eqn:Es1.
  - destruct (P2 eq_refl) as (zero & Hz & Hi). exists zero, c0. split; [exact Hz|]. right. split; [apply in_or_app; left; exact Hi|exact Hle].
  - destruct Hc as [->|Hc].
    + destruct (P1 Hbl) as (zero & Hz & Hor). exists zero, c. split; [exact Hz|].
      destruct Hor as [->|Hi]; [left; reflexivity|right]. split; [apply in_or_app; left; exact Hi|lia].
    + destruct (IH seen1 its2 E2 Hs' c h Hc Hbl Es1) as (zero & c' & Hz & Hor). exists zero, c'. split; [exact Hz|].
      destruct Hor as [->|[Hi Hl]]; [left; reflexivity|right]. split; [apply in_or_app; right; exact Hi|exact Hl].
Qed.

End ZeroU.

(** * C15: semantics of the cut rows (aggregate over the zero-gap workers, UNBOUNDED blocker) *)
Theorem cut_semantics_zero_unbounded : forall I bs m s b c h,
  milp_of I bs = Ok m -> feasible m s = true ->
  In b bs -> count_vars I bs (b_rq b) <> [] -> StronglySorted le_size (b_cuts b) ->
  In c (b_cuts b) -> In (h, None) (c_blockers c) ->
  (zero_sum I bs s h (b_rq b) (i_workers I) <= Z.of_N (c_size c))%Z.
Proof.
  intros I bs m s b c h Hm Hf Hb Hcv Hs Hc Hbl.
  destruct (milp_items I bs m Hm) as (its & Hits & Hemit).
  unfold all_items in Hits. destruct (collect_res (map (batch_items I bs) bs)) as [l| |] eqn:E; simpl in Hits; try discriminate.
  inversion Hits; subst. destruct (collect_res_in _ _ _ b E Hb) as (bi & Hbi & Hin).
  unfold batch_items in Hbi. destruct (count_vars I bs (b_rq b)) eqn:Ecvb; [congruence|].
  destruct (cuts_items I bs b (b_cuts b) []) as [ci| |] eqn:E3; simpl in Hbi; try discriminate. inversion Hbi; subst.
  destruct (cuts_items_zeroU I bs b _ _ _ E3 Hs c h Hc Hbl eq_refl) as (zero & c' & Hz & Hor).
  rewrite <- (Hz s). destruct Hor as [->|[Hi Hle]]; [simpl; lia|].
  assert (Hitem : In (IZeroU (b_rq b) h (c_size c') zero) (concat l)).
  { apply in_concat. eexists. split; [exact Hin|]. apply in_or_app. right. assumption. }
  pose proof (Hemit _ (emit_row_in I bs _ [] _ Hitem)) as Hrow.
  pose proof (feasible_in m s _ Hf Hrow) as Hr. simpl in Hr. unfold row_ok, row_lhs in Hr. simpl in Hr.
  fold (lhs s (ones zero)) in Hr. unfold z in Hr. lia.
Qed.

Print Assumptions cut_semantics_zero_unbounded.
