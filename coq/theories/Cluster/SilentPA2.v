(** "No phantom task" for every history, part 2: submits (also those with fewer entries than ids),
    open / close / forget, one operation, every history.  See SilentPA1.v. *)
From HQ Require Import Base.Prelude Cluster.Types Cluster.Core Cluster.Reactor Cluster.Worker Cluster.Server Cluster.Sys Cluster.ProofsJob Cluster.ProofsMore Cluster.ProofsTerminal Cluster.ProofsStep Cluster.ProofsFinal Cluster.BijBase Cluster.BijCore Cluster.BijHq Cluster.BijSt Cluster.BijReact Cluster.BijFinal Cluster.SilentPA1.
From Coq Require Import ZArith Lia Sorting.Sorted.
Local Open Scope N_scope.

Arguments N.add : simpl never.
Arguments N.sub : simpl never.

Lemma take_n_incl {A} (l : list A) : forall n x, In x (fst (take_n n l)) -> In x l.
Proof.
  induction l as [|h t IH]; intros n x Hx; [destruct n; cbn in Hx; exact Hx|].
  destruct n as [|k]; [cbn in Hx; destruct Hx|]. cbn [take_n] in Hx. destruct (take_n k t) as [a b] eqn:E. cbn in Hx.
  destruct Hx as [->|Hx]; [left; reflexivity | right; apply (IH k); rewrite E; exact Hx].
Qed.

(** The common tail of both submit handlers: the new core tasks are AMONG the new job tasks. *)
Lemma submit_tail_PA s4 jid ids tasks s' :
  PA s4 ->
  (forall x, In x (map t_id tasks) -> In x (map (fun i => (jid, i)) ids)) -> Forall new_ok tasks ->
  (do j <- hq_get_job s4 jid 222;
   do j' <- attach_ids j ids;
   do s6 <- on_new_tasks (hq_set_job s4 j') tasks;
   submit_ok_resp s6 jid) = Ok s' ->
  PA s'.
Proof.
  intros HC Hsub Hn H. apply bind_ok in H. destruct H as (j & Hj & H). apply bind_ok in H. destruct H as (j' & Ha & H).
  apply bind_ok in H. destruct H as (s6 & H6 & H).
  destruct (jt_get _ _ _ _ Hj) as [Ej Eid]. destruct (attach_ids_find _ _ _ Ha) as [I1 I2].
  destruct (on_new_tasks_grow (hq_set_job s4 j') tasks s6 (pa_s _ HC) (pa_d _ HC) Hn H6) as (G1 & G2 & G3).
  pose proof (on_new_tasks_hq _ _ _ H6) as Q6.
  assert (Hs' : K s' = K s6 /\ hq_of s' = hq_of s6).
  { unfold submit_ok_resp in H. apply bind_ok in H. destruct H as (jx & _ & H). inversion H; subst. split; reflexivity. }
  destruct Hs' as [Ks' Qs'].
  constructor.
  - eapply CS_keys; [exact Ks' | exact G1].
  - rewrite Ks'. exact G2.
  - intros x Hx. rewrite Ks' in Hx. apply G3 in Hx. change (present (K s4) x \/ In x (map t_id tasks)) in Hx.
    apply (proj2 (active_same s6 s' (jt_same _ _ Qs') x)).
    apply (proj2 (active_same (hq_set_job s4 j') s6 (jt_same _ _ Q6) x)).
    assert (Hx' : active s4 x \/ In x (map (fun i => (jid, i)) ids))
      by (destruct Hx as [Hx|Hx]; [left; apply (pa_b _ HC); exact Hx | right; apply Hsub; exact Hx]).
    clear Hx. unfold active in *. rewrite jt_set_job, I1, Eid.
    destruct (N.eqb (fst x) jid) eqn:E1.
    + apply N.eqb_eq in E1. destruct Hx' as [(l & Hl & Hact)|Hin].
      * rewrite E1, Ej in Hl. inversion Hl; subst l. eexists. split; [reflexivity|]. rewrite I2.
        destruct (n_mem (snd x) ids); [left; reflexivity | exact Hact].
      * apply in_map_iff in Hin. destruct Hin as (i & Ex & Hi). subst x. cbn.
        eexists. split; [reflexivity|]. rewrite I2. apply n_mem_in in Hi. rewrite Hi. left; reflexivity.
    + destruct Hx' as [Ha'|Hin]; [exact Ha'|].
      apply in_map_iff in Hin. destruct Hin as (i & Ex & _). subst x. cbn in E1. rewrite N.eqb_refl in E1. discriminate.
Qed.

Lemma PA_hq_only s s' : core_of s' = core_of s -> (forall x, active s' x <-> active s x) -> PA s -> PA s'.
Proof. intros E A. apply PA_frame; [unfold K; rewrite E; reflexivity | exact A]. Qed.

Lemma handle_submit_array_PA s jobsel ids entries rq prio cl tlim mf s' :
  fresh s -> PA s ->
  handle_submit_array s jobsel ids entries rq prio cl tlim mf = Ok s' -> PA s'.
Proof.
  intros F HC H. unfold handle_submit_array in H.
  match type of H with (match ?x with Some _ => _ | None => _ end) = _ => destruct x end;
    [inversion H; subst; eapply PA_same; [| |exact HC]; reflexivity|].
  apply bind_ok in H. destruct H as ([acc s1] & Hr & H).
  destruct acc as [[[jid is_new] ids']|].
  - cbv zeta in H.
    match type of H with context [get_or_create_rq ?sx rq] => set (s3 := sx) in *; destruct (get_or_create_rq s3 rq) as [s4 rqi] eqn:Erq end.
    (* the state before the tail satisfies PA *)
    assert (HC3 : PA s3).
    { destruct jobsel as [j0|].
      - destruct (find_job (hq_jobs s) j0) as [j|] eqn:Ef; [|inversion Hr].
        destruct (negb (j_open j)); [inversion Hr|]. inversion Hr; subst.
        subst s3. eapply PA_same; [| |exact HC]; reflexivity.
      - inversion Hr; subst.
        subst s3. eapply (PA_hq_only s); [reflexivity | | exact HC]. intros x.
        rewrite (new_job_active (emit (hq_with s (hq_jobs s) (hq_counter s + 1)) _) (hq_counter s) mf false).
        + apply active_same. intros id. reflexivity.
        + change (jt s (cnt_of s) = None). apply fresh_absent. exact F. }
    pose proof (get_or_create_rq_K s3 rq) as [K4 Q4]. rewrite Erq in K4, Q4. cbn [fst] in K4, Q4.
    assert (HC4 : PA s4) by (eapply PA_same; [exact K4 | exact Q4 | exact HC3]).
    eapply (submit_tail_PA s4 jid ids'); [exact HC4 | | | exact H].
    + intros x Hx. rewrite map_map in Hx. cbn in Hx. apply in_map_iff in Hx. destruct Hx as (i & <- & Hi).
      apply in_map_iff. exists i. split; [reflexivity|]. destruct entries as [n|]; [eapply take_n_incl; exact Hi | exact Hi].
    + apply Forall_forall. intros t Ht. apply in_map_iff in Ht. destruct Ht as (i & <- & _). split; [reflexivity | intros d []].
  - assert (E1 : K s1 = K s /\ hq_of s1 = hq_of s).
    { destruct jobsel as [jid|]; [|inversion Hr].
      destruct (find_job (hq_jobs s) jid) as [j|]; [|inversion Hr; subst; split; reflexivity].
      destruct (negb (j_open j)); inversion Hr; subst; split; reflexivity. }
    assert (E2 : K s' = K s1 /\ hq_of s' = hq_of s1).
    { destruct jobsel; [match type of H with (match ?x with Some _ => _ | None => _ end) = _ => destruct x end|];
        inversion H; subst; split; reflexivity. }
    destruct E1 as [A1 A2], E2 as [B1 B2]. eapply PA_same; [rewrite B1; exact A1 | rewrite B2; exact A2 | exact HC].
Qed.


Lemma handle_submit_graph_PA s jobsel rqs ts mf s' :
  fresh s -> PA s -> handle_submit_graph s jobsel rqs ts mf = Ok s' -> PA s'.
Proof.
  intros F HC H. unfold handle_submit_graph in H.
  apply bind_ok in H. destruct H as (v1 & _ & H).
  match type of H with (match ?x with Some _ => _ | None => _ end) = _ => destruct x end;
    [inversion H; subst; eapply PA_same; [| |exact HC]; reflexivity|].
  apply bind_ok in H. destruct H as ([acc s1] & Hr & H).
  destruct acc as [[jid is_new]|].
  - cbv zeta in H.
    match type of H with context [fold_left ?f rqs (?sx, [])] => set (s3 := sx) in *; destruct (fold_left f rqs (s3, [])) as [s4 rqis] eqn:Erq end.
    assert (HC3 : PA s3).
    { destruct jobsel as [j0|].
      - destruct (find_job (hq_jobs s) j0) as [j|] eqn:Ef; [|inversion Hr].
        destruct (negb (j_open j)); [inversion Hr|]. inversion Hr; subst.
        subst s3. eapply PA_same; [| |exact HC]; reflexivity.
      - inversion Hr; subst.
        subst s3. eapply (PA_hq_only s); [reflexivity | | exact HC]. intros x.
        rewrite (new_job_active (emit (hq_with s (hq_jobs s) (hq_counter s + 1)) _) (hq_counter s) mf false).
        + apply active_same. intros id. reflexivity.
        + change (jt s (cnt_of s) = None). apply fresh_absent. exact F. }
    destruct (fold_rqs_K _ _ _ _ _ Erq) as [K4 Q4].
    assert (HC4 : PA s4) by (eapply PA_same; [exact K4 | exact Q4 | exact HC3]).
    (* the tail has graph_tasks between attach and on_new_tasks *)
    apply bind_ok in H. destruct H as (j & Hj & H). apply bind_ok in H. destruct H as (j' & Ha & H).
    apply bind_ok in H. destruct H as (tasks & Hg & H).
    destruct (graph_tasks_spec _ _ _ _ Hg) as [G1 G2].
    eapply (submit_tail_PA s4 jid (map gt_id ts) tasks); [exact HC4 | rewrite G1; auto | exact G2|].
    rewrite Hj. cbn [bind]. rewrite Ha. cbn [bind]. exact H.
  - assert (E1 : K s1 = K s /\ hq_of s1 = hq_of s).
    { destruct jobsel as [jid|]; [|inversion Hr].
      destruct (find_job (hq_jobs s) jid) as [j|]; [|inversion Hr; subst; split; reflexivity].
      destruct (negb (j_open j)); inversion Hr; subst; split; reflexivity. }
    inversion H; subst. destruct E1 as [A1 A2]. eapply PA_same; [exact A1 | exact A2 | exact HC].
Qed.

(** * Open, close, forget *)
Lemma handle_open_PA s mf s' : fresh s -> PA s -> handle_open s mf = Ok s' -> PA s'.
Proof.
  intros F HC H. unfold handle_open in H. inversion H; subst.
  eapply (PA_hq_only s); [reflexivity | | exact HC]. intros x.
  rewrite (active_same (hq_with s (set_job (hq_jobs s) (mkJob (hq_counter s) true [] 0 0 0 0 0 false mf)) (hq_counter s + 1))) by (intros; reflexivity).
  unfold active.
  assert (E : forall id, jt (hq_with s (set_job (hq_jobs s) (mkJob (hq_counter s) true [] 0 0 0 0 0 false mf)) (hq_counter s + 1)) id
              = if N.eqb id (hq_counter s) then Some [] else jt s id).
  { intros id. unfold jt, hq_of, hq_with, hq_jobs. cbn. rewrite find_job_set_any. cbn. destruct (N.eqb id (hq_counter s)); reflexivity. }
  rewrite E. destruct (N.eqb (fst x) (hq_counter s)) eqn:E1; [|reflexivity].
  apply N.eqb_eq in E1. rewrite E1. change (jt s (hq_counter s)) with (jt s (cnt_of s)). rewrite (fresh_absent _ F).
  split; [intros (l & Hl & [Ha|Ha]); inversion Hl; subst; discriminate | intros (l & Hl & _); discriminate].
Qed.

Lemma handle_close_PA s jid s' : PA s -> handle_close s jid = Ok s' -> PA s'.
Proof.
  intros HC H. unfold handle_close in H.
  destruct (find_job (hq_jobs s) jid) as [j|] eqn:Ej; [|inversion H; subst; eapply PA_same; [| |exact HC]; reflexivity].
  destruct (j_open j); [|inversion H; subst; eapply PA_same; [| |exact HC]; reflexivity].
  apply bind_ok in H. destruct H as (s1 & H1 & H). inversion H; subst.
  destruct (check_termination_jt _ _ _ H1) as [C1 J1].
  eapply (PA_hq_only s); [exact C1 | | exact HC].
  apply active_same. intros id. rewrite jt_emit, J1, jt_emit, jt_set_job. cbn [j_id j_tasks].
  destruct (N.eqb id (j_id j)) eqn:E; [|reflexivity]. apply N.eqb_eq in E. subst id.
  unfold jt, hq_of. unfold hq_jobs in Ej. rewrite (find_job_id _ _ _ Ej), Ej. reflexivity.
Qed.


Lemma handle_forget_PA s jid s' : HOK (hq_of s) -> PA s -> handle_forget s jid = Ok s' -> PA s'.
Proof.
  intros Hok HC H. unfold handle_forget in H.
  destruct (find_job (hq_jobs s) jid) as [j|] eqn:Ej; [|inversion H; subst; eapply PA_same; [| |exact HC]; reflexivity].
  pose proof (Hok _ (find_job_in _ _ _ Ej)) as Hj.
  rewrite (has_no_active_ok _ Hj) in H. cbn [bind] in H.
  destruct (negb (j_open j) && _) eqn:Eb; [|inversion H; subst; eapply PA_same; [| |exact HC]; reflexivity].
  inversion H; subst. apply andb_true_iff in Eb. destruct Eb as [_ Eb]. apply andb_true_iff in Eb. destruct Eb as [Er Ew].
  apply N.eqb_eq in Er, Ew.
  eapply (PA_hq_only s); [reflexivity | | exact HC]. intros x.
  rewrite (active_same (hq_with s (del_job (hq_jobs s) jid) (hq_counter s))) by (intros; reflexivity).
  unfold active.
  assert (E : forall id, jt (hq_with s (del_job (hq_jobs s) jid) (hq_counter s)) id = if N.eqb id jid then None else jt s id).
  { intros id. unfold jt, hq_of, hq_with, hq_jobs. cbn. destruct (N.eqb id jid) eqn:E.
    - apply N.eqb_eq in E. subst id. rewrite find_job_del_same. reflexivity.
    - apply N.eqb_neq in E. rewrite find_job_del by exact E. reflexivity. }
  rewrite E. destruct (N.eqb (fst x) jid) eqn:E1; [|reflexivity].
  apply N.eqb_eq in E1. split; [intros (l & Hl & _); discriminate|].
  intros (l & Hl & Ha). exfalso. unfold jt, hq_of in Hl. unfold hq_jobs in Ej. rewrite E1, Ej in Hl. inversion Hl; subst l.
  destruct Ha as [Ha|Ha]; [exact (cnt_zero_find _ _ _ Ew Ha) | exact (cnt_zero_find _ _ _ Er Ha)].
Qed.

(** * The whole system *)
Theorem step_PA s o s' outs :
  HOK (s_hq s) -> fresh (s, []) -> PA (s, []) -> step s o = Ok (s', outs) -> PA (s', outs).
Proof.
  intros Hok F HC H. destruct o; cbn [step] in H.
  - eapply PA_same; [| eapply on_new_worker_same; exact H | exact HC].
    unfold on_new_worker in H. inversion H; subst. reflexivity.
  - destruct (find_proc _ w); [|discriminate]. eapply on_remove_worker_PA; [| | exact H]; [exact Hok | exact HC].
  - destruct (bad_submit_lengths _ _); [inversion H; subst; eapply PA_same; [| |exact HC]; reflexivity|]. eapply handle_submit_array_PA; [exact F | exact HC | exact H].
  - destruct (bad_graph_rq _ _); [inversion H; subst; eapply PA_same; [| |exact HC]; reflexivity|]. destruct (dead_dep _ _ _); [inversion H; subst; eapply PA_same; [| |exact HC]; reflexivity|]. eapply handle_submit_graph_PA; eassumption.
  - eapply handle_open_PA; eassumption.
  - eapply handle_close_PA; eassumption.
  - eapply handle_cancel_PA; [| | exact H]; [exact Hok | exact HC].
  - eapply handle_forget_PA; [| | exact H]; [exact Hok | exact HC].
  - destruct (find_proc _ w) as [p|]; [|discriminate]. destruct (p_down p); [discriminate|].
    inv_binds H. inversion H; subst. eapply PA_same; [| |exact HC]; reflexivity.
  - destruct (find_proc _ w) as [p|]; [|discriminate]. destruct (p_up p) as [|m rest]; [discriminate|].
    match type of H with match m with _ => _ end = _ => idtac end.
    destruct m.
    + match type of H with on_task_update ?s1 _ _ = _ =>
        eapply (on_task_update_PA s1); [exact Hok | | exact H] end.
      eapply PA_same; [| |exact HC]; reflexivity.
    + match type of H with on_retract_response ?s1 _ _ = _ =>
        assert (HC1 : PA s1) by (eapply PA_same; [| |exact HC]; reflexivity);
        eapply PA_same; [eapply on_retract_response_K; [exact (pa_s _ HC1) | exact H] | eapply on_retract_response_same; exact H | exact HC1] end.
  - destruct (c_flag (s_core s)); [|discriminate].
    eapply PA_same; [eapply run_scheduling_K; [exact (pa_s _ HC) | exact H] | eapply run_scheduling_same; exact H | exact HC].
  - destruct (find_proc _ w) as [p|]; [|discriminate]. inv_binds H. inversion H; subst. eapply PA_same; [| |exact HC]; reflexivity.
  - destruct (find_proc _ w) as [p|]; [|discriminate]. inversion H; subst. eapply PA_same; [| |exact HC]; reflexivity.
  - inversion H; subst. eapply PA_same; [| |exact HC]; reflexivity.
  - inv_binds H. inversion H; subst. eapply PA_same; [| |exact HC]; reflexivity.
Qed.

Lemma PA_outs s o1 o2 : PA (s, o1) -> PA (s, o2).
Proof. intros [A B C]. constructor; [exact A | exact B | exact C]. Qed.

Theorem run_PA ops : forall s s' outs,
  HOK (s_hq s) -> fresh (s, []) -> PA (s, []) -> run s ops = Ok (s', outs) -> PA (s', outs).
Proof.
  induction ops as [|o r IH]; cbn [run]; intros s s' outs Hok F HC H; [inversion H; subst; exact HC|].
  apply bind_ok in H. destruct H as ([s1 o1] & H1 & H). apply bind_ok in H. destruct H as ([s2 o2] & H2 & H). inversion H; subst.
  pose proof (step_PA _ _ _ _ Hok F HC H1) as HC1.
  pose proof (step_hq_ok _ _ _ _ Hok H1) as Hok1.
  pose proof (G_step _ _ _ _ F H1) as G1.
  assert (F1 : fresh (s1, [])) by (apply (fresh_outs s1 o1); apply (g_fresh _ _ G1); exact F).
  eapply PA_outs. eapply IH; [exact Hok1 | exact F1 | eapply PA_outs; exact HC1 | exact H2].
Qed.


(** "No phantom task", for EVERY history of the system model (no hypothesis): a task the core
    knows is shown as waiting or running by the job layer. *)
Theorem no_phantom ops reserve maxfill s outs :
  run (init_sys reserve maxfill) ops = Ok (s, outs) ->
  forall t, In t (map t_id (c_tasks (s_core s))) ->
            exists j, find_job (h_jobs (s_hq s)) (fst t) = Some j /\
                      (jt_find (j_tasks j) (snd t) = Some JW \/ jt_find (j_tasks j) (snd t) = Some JR).
Proof.
  intros H t Ht.
  assert (HC0 : PA (init_sys reserve maxfill, [])) by (constructor; [constructor | intros id cs x [] | intros x []]).
  assert (Hok0 : HOK (s_hq (init_sys reserve maxfill))) by (intros j []).
  assert (F0 : fresh (init_sys reserve maxfill, [])) by (intros j []).
  pose proof (run_PA _ _ _ _ Hok0 F0 HC0 H) as HC.
  assert (Hp : present (K (s, outs)) t) by (apply present_ids; exact Ht).
  destruct (pa_b _ HC t Hp) as (l & Hl & Ha). unfold jt, hq_of in Hl. cbn [fst] in Hl.
  destruct (find_job (h_jobs (s_hq s)) (fst t)) as [j|]; [|discriminate]. inversion Hl; subst l. exists j. split; [reflexivity | exact Ha].
Qed.

(** The other direction really needs [op_wf]: a submit with two ids and one entry leaves an
    orphan job task (finding F26). *)
Example orphan_without_op_wf : exists s outs,
  handle_submit_array (init_sys 0 2, []) None [0; 1] (Some 1) (mkRq 0 [10000; 0; 0]) 0%Z (CMax 3) false None = Ok (s, outs)
  /\ map t_id (c_tasks (s_core s)) = [(1, 0)] /\ map j_tasks (h_jobs (s_hq s)) = [[(0, JW); (1, JW)]].
Proof. do 2 eexists. split; [vm_compute; reflexivity|]. split; vm_compute; reflexivity. Qed.

Print Assumptions no_phantom.
