(** C05, accounting conjunct, part 6: one step of the system, every history.

    [fits_step s o]: no subtraction from a free counter saturates in step [o] from state [s]:
      - [OpDUp w]: every running / running-prefilled update of the processed message whose task is
        Prefilled or Retracting at the server finds the request within the worker's free counter
        (the contrary is the known finding F23);
      - [OpSched sol]: simulating the round, every [insert_sn_task] of [map_one] finds the request
        within the worker's free counter (the contrary is a solver answer that does not fit; the
        real solver's row system excludes it, Sched [C05_feasible_no_overbook]);
      - true for every other operation.
    [ACC c]: at EVERY index, for every single-node worker, free + sum of the requests of the assigned
    tasks = total (and the free counter has the length of the total). *)
From HQ Require Import Base.Prelude Cluster.Types Cluster.Core Cluster.Reactor Cluster.Worker Cluster.Server Cluster.Sys Cluster.Monitors Cluster.ProofsJob Cluster.ProofsStep Cluster.BijBase Cluster.BijCore Cluster.BijHq Cluster.BijSt Cluster.BijFinal Cluster.RejHyp Cluster.InvWBase Cluster.InvWCore Cluster.InvWX1 Cluster.InvWFinal Cluster.InvQBase Cluster.InvQInv Cluster.InvQStep Cluster.InvAll Cluster.InvBundle Cluster.InvDStep Cluster.NoPanicU0 Cluster.NoPanicU20 Cluster.AcctBase Cluster.AcctReact Cluster.AcctReact2 Cluster.AcctServer Cluster.AcctSubmit.
From Coq Require Import ZArith Lia Sorting.Sorted.
Local Open Scope N_scope.

Arguments N.add : simpl never.
Arguments N.sub : simpl never.

(** * The hypothesis *)
Definition fits_step (s : sys) (o : op) : bool :=
  match o with
  | OpDUp w =>
      match find_proc (s_procs s) w with
      | Some p =>
          match p_up p with
          | UUpdates us :: rest =>
              updates_fit (with_procs s (set_proc (s_procs s) (wp_up p rest)), [OUp w (UUpdates us)]) w us
          | _ => true
          end
      | None => true
      end
  | OpSched sol => sched_fits (s_core s) sol
  | _ => true
  end.

Fixpoint fits_run (s : sys) (ops : list op) : bool :=
  match ops with
  | [] => true
  | o :: r =>
      fits_step s o
      && match step s o with
         | Ok (s1, _) => fits_run s1 r
         | _ => true
         end
  end.

Lemma fits_run_snoc pre : forall s o s1 o1,
  run s pre = Ok (s1, o1) -> fits_run s (pre ++ [o]) = true -> fits_run s pre = true /\ fits_step s1 o = true.
Proof.
  induction pre as [|p r IH]; cbn [run fits_run app]; intros s o s1 o1 H1 Hf.
  - inversion H1; subst. apply andb_true_iff in Hf. split; [reflexivity | apply Hf].
  - apply bind_ok in H1. destruct H1 as ([sa oa] & Ha & H1). apply bind_ok in H1. destruct H1 as ([sb ob] & Hb & H1).
    inversion H1; subst. rewrite Ha in *. apply andb_true_iff in Hf. destruct Hf as [Hf1 Hf2].
    destruct (IH _ _ _ _ Hb Hf2) as [I1 I2]. rewrite Hf1, I1. auto.
Qed.

(** * The invariant *)
Definition ACC (c : core) : Prop := ACCW (request_of c) (c_workers c).

(** The ids of an assigned set are tasks of the core (worker-set invariant). *)
Lemma present_of_WI c : WI c -> forall wk a p f x, In wk (c_workers c) -> w_assign wk = Sn a p f -> In x a ->
  exists t, find_task (c_tasks c) x = Some t.
Proof.
  intros HW wk a p f x Hin Ea Hx. pose proof (WI_worker_sets_ok c HW) as H. rewrite forallb_forall in H.
  specialize (H wk Hin). unfold worker_sets_ok in H. rewrite Ea in H. apply andb_true_iff in H. destruct H as [H _].
  rewrite forallb_forall in H. specialize (H x Hx). destruct (find_task (c_tasks c) x) as [t|]; [eauto | discriminate].
Qed.

Lemma ACC_to_AI c : StronglySorted tlt (map t_id (c_tasks c)) -> ACC c -> AI (request_of c) (c_rqs c) c.
Proof.
  intros Hs HA. split; [exact HA|]. split; [reflexivity|]. intros t Hin.
  rewrite (request_of_lk c (t_id t) t); [reflexivity | apply in_find_task; assumption].
Qed.

Lemma AI_to_ACC rqf rqs c : AI rqf rqs c -> WI c -> ACC c.
Proof.
  intros HA HW wk Hin. apply (accw_ext rqf); [|apply (AI_workers _ _ _ HA); exact Hin].
  intros a p f x Ea Hx. destruct (present_of_WI c HW wk a p f x Hin Ea Hx) as (t & Hf).
  destruct (AI_find _ _ _ _ _ HA Hf) as [E1 E2]. rewrite (request_of_lk _ _ _ Hf), (AI_rqs _ _ _ HA), E1, E2. reflexivity.
Qed.

(** * One step.  [P] is any property of request classes that the operation guarantees of the classes it
    may add ([op_adds P o]); it then holds of the whole table. *)
Definition op_adds (P : rqdef -> Prop) (o : op) : Prop :=
  match o with
  | OpSubmit _ _ _ rq _ _ _ _ => P rq
  | OpSubmitG _ rqs _ _ => Forall P rqs
  | _ => True
  end.

Lemma step_ACC P s o s' outs :
  INV s -> WI (s_core s') -> ACC (s_core s) -> fits_step s o = true -> op_adds P o -> step s o = Ok (s', outs) ->
  ACC (s_core s') /\ (Forall P (c_rqs (s_core s)) -> Forall P (c_rqs (s_core s'))).
Proof.
  intros HI HW' HA HF HP H.
  pose proof (qv_ts _ _ _ _ _ _ (inv_q _ HI)) as Hs.
  pose proof (ACC_to_AI _ Hs HA) as A0.
  set (rqf := request_of (s_core s)) in *. set (rqs := c_rqs (s_core s)) in *.
  assert (Hend : forall s1 : st, AIS rqf rqs s1 -> core_of s1 = s_core s' ->
            ACC (s_core s') /\ (Forall P rqs -> Forall P (c_rqs (s_core s')))).
  { intros s1 A1 E1. unfold AIS in A1. rewrite E1 in A1. split; [eapply AI_to_ACC; eassumption|]. rewrite (AI_rqs _ _ _ A1). auto. }
  assert (Hsame : s_core s' = s_core s -> ACC (s_core s') /\ (Forall P rqs -> Forall P (c_rqs (s_core s')))).
  { intros E. apply (Hend (s, [])); [exact A0 | symmetry; exact E]. }
  assert (Hsub : SUB P (s_core s) (s_core s') -> ACC (s_core s') /\ (Forall P rqs -> Forall P (c_rqs (s_core s')))).
  { intros S. split; [|apply (SUB_rqs P _ _ S)]. eapply (SUB_ACC P); [exact S | | exact HA].
    intros wk a p f x Hin Ea Hx. destruct (present_of_WI _ (inv_w _ HI) wk a p f x Hin Ea Hx) as (t & Hf). exists t. split; [exact Hf|].
    rewrite <- (qv_len _ _ _ _ _ _ (inv_q _ HI)). eapply (qv_rq _ _ _ _ _ _ (inv_q _ HI)). exact Hf. }
  destruct o; cbn [step] in H; cbn [fits_step op_adds] in HF, HP.
  - apply (Hend (s', outs)); [|reflexivity]. eapply (on_new_worker_AI rqf rqs (s, [])); [exact A0 | exact H].
  - destruct (find_proc _ w); [|discriminate]. apply (Hend (s', outs)); [|reflexivity]. eapply (on_remove_worker_AI rqf rqs (s, [])); [exact A0 | exact H].
  - destruct (bad_submit_lengths _ _); [inversion H; subst; apply Hsame; reflexivity|]. apply Hsub. exact (handle_submit_array_SUB P (s, []) _ _ _ _ _ _ _ _ (s', outs) HP H).
  - destruct (bad_graph_rq _ _); [inversion H; subst; apply Hsame; reflexivity|]. destruct (dead_dep _ _ _); [inversion H; subst; apply Hsame; reflexivity|]. apply Hsub. exact (handle_submit_graph_SUB P (s, []) _ _ _ _ (s', outs) HP H).
  - unfold handle_open in H. inversion H; subst. apply Hsame. reflexivity.
  - unfold handle_close in H. cbn in H. destruct (find_job _ j) as [jb|]; [|inversion H; subst; apply Hsame; reflexivity].
    destruct (j_open jb); [|inversion H; subst; apply Hsame; reflexivity].
    apply bind_ok in H. destruct H as (s1 & H1 & H). inversion H; subst.
    destruct (check_termination_jt _ _ _ H1) as [C1 _]. unfold core_same in C1. apply Hsame. exact C1.
  - unfold handle_cancel in H. cbn in H. destruct (find_job _ j) as [jb|]; [|inversion H; subst; apply Hsame; reflexivity].
    destruct (non_finished_task_ids jb) as [|i0 ir] eqn:Eids; [inversion H; subst; apply Hsame; reflexivity|].
    apply bind_ok in H. destruct H as (s1 & H1 & H). apply bind_ok in H. destruct H as (al & _ & H).
    apply bind_ok in H. destruct H as (s2 & H2 & H). inversion H; subst; clear H.
    destruct (set_cancel_state_active _ _ _ _ H2) as [C2 _]. unfold core_same in C2.
    apply (Hend s1); [|symmetry; exact C2]. eapply (on_cancel_tasks_AI rqf rqs (s, [])); [exact A0 | exact H1].
  - unfold handle_forget in H. cbn in H. destruct (find_job _ j) as [jb|]; [|inversion H; subst; apply Hsame; reflexivity].
    apply bind_ok in H. destruct H as (na & _ & H). destruct (negb (j_open jb) && na); inversion H; subst; apply Hsame; reflexivity.
  - destruct (find_proc _ w) as [p|]; [|discriminate]. destruct (p_down p); [discriminate|].
    inv_binds H. inversion H; subst. apply Hsame. reflexivity.
  - destruct (find_proc _ w) as [p|]; [|discriminate]. destruct (p_up p) as [|m rest]; [discriminate|].
    destruct m.
    + apply (Hend (s', outs)); [|reflexivity].
      match type of H with on_task_update ?s1 _ _ = _ => eapply (on_task_update_AI rqf rqs s1); [exact A0 | exact HF | exact H] end.
    + apply (Hend (s', outs)); [|reflexivity].
      match type of H with on_retract_response ?s1 _ _ = _ => eapply (on_retract_response_AI rqf rqs s1); [exact A0 | exact H] end.
  - destruct (c_flag (s_core s)); [|discriminate]. apply (Hend (s', outs)); [|reflexivity].
    eapply (run_scheduling_AI rqf rqs (s, [])); [exact A0 | exact (inv_q _ HI) | exact HF | exact H].
  - destruct (find_proc _ w) as [p|]; [|discriminate]. inv_binds H. inversion H; subst. apply Hsame. reflexivity.
  - destruct (find_proc _ w) as [p|]; [|discriminate]. inversion H; subst. apply Hsame. reflexivity.
  - inversion H; subst. apply Hsame. reflexivity.
  - inv_binds H. inversion H; subst. apply Hsame. reflexivity.
Qed.

(** * Every history *)
Theorem accounting_exact_pointwise P ops : forall r m s outs,
  Forall op_wf ops -> Forall (op_adds P) ops -> ops_ok (init_sys r m) ops = true -> fits_run (init_sys r m) ops = true ->
  run (init_sys r m) ops = Ok (s, outs) ->
  ACC (s_core s) /\ Forall P (c_rqs (s_core s)).
Proof.
  induction ops as [|o pre IH] using rev_ind; intros r m s outs Hwf Hd Hok Hfit H.
  - cbn in H. inversion H; subst. split; [intros wk [] | constructor].
  - apply Forall_app in Hwf. destruct Hwf as [Hwf1 Hwf2]. apply Forall_app in Hd. destruct Hd as [Hd1 Hd2].
    destruct (ops_ok_snoc _ _ _ Hok) as [Hok1 Hok2].
    destruct (run_app _ _ _ _ _ H) as (s1 & o1 & o2 & H1 & H2 & ->). cbn [run] in H2. apply bind_ok in H2. destruct H2 as ([s2 o3] & Hs & H2).
    cbn in H2. inversion H2; subst s2 o2. clear H2.
    destruct (fits_run_snoc _ _ _ _ _ H1 Hfit) as [Hfit1 Hfit2].
    destruct (IH r m s1 o1 Hwf1 Hd1 Hok1 Hfit1 H1) as [A1 D1].
    pose proof (reachable_INV_ops _ _ _ _ _ Hwf1 Hok1 H1) as HI1.
    pose proof (reachable_INV_ops _ _ _ _ _ (Forall_snoc _ _ _ Hwf1 (Forall_inv Hwf2)) Hok H) as HI.
    destruct (step_ACC P _ _ _ _ HI1 (inv_w _ HI) A1 Hfit2 (Forall_inv Hd2) Hs) as [A D]. split; [exact A | exact (D D1)].
Qed.
