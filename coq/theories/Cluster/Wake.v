(** C02, the "runnable work is not forgotten" half: EXECUTABLE DEFINITIONS.

    The server's scheduler sleeps until [ask_for_scheduling] sets the flag [c_flag]
    (comm.rs: [need_scheduling] + [scheduler_wakeup.notify_one()]; scheduler/main.rs
    [scheduler_loop] does nothing while the flag is off) and a scheduling round clears it.  So
    "runnable work is not forgotten" = "while the flag is off, nothing the scheduler would place is
    lying around".  This file says, executably, what "the scheduler would place" means:

    - [sn_fits c rq r w]: a ready task of the single-node class [rq] could be placed on worker [w]
      NOW.  It mirrors the filter under which scheduler/solver.rs creates the placement variable
      of (worker, class, variant 0): worker in single-node mode ([sn_assignment().is_some()]),
      [!is_request_blocked], [have_immediate_resources_for_rq] (free amounts cover the request);
      worker time limits are not part of the cluster model; a stopping worker is excluded.
    - [mn_free c w] = the real [Worker::is_free] AFTER the repair of F28: nothing assigned, nothing
      prefilled, not stopping, and no unresolved retraction ([retracting_tasks == 0], in the model
      the derived [retracting_from] of RetractFree.v).
    - [mn_fits c r]: a multi-node class needing [rq_nodes r] workers: some group has that many
      free workers (solver.rs creates the variables of a multi-node class for the free workers
      and chunks the selected ones group by group).
    - [class_fits c i]: class [i] fits somewhere now.
    - [placeable c]: some class whose ready queue holds a task of the TOP READY PRIORITY
      ([queues_top_priority]) fits now.

    Why the top priority only.  The objective of the MILP maximises placed tasks, so an optimal
    answer never leaves a task unplaced that it may place and that still fits afterwards - but
    the priority cuts of batches.rs / solver.rs forbid placing a LOWER-priority class on a worker
    that a waiting higher-priority class could use (property C15's exception).  This is real:
    /verif/build/wip-progress/wake2.out, second SCHED: HiGHS, optimal, leaves the single-node task
    2.0 (priority 0) unplaced although worker 1 has the free cpu, because the multi-node task 3.0
    (priority 5) waits for that worker.  The first (= top) priority level of every queue gets no
    cut in [create_task_batches] (no batch has a positive size yet when it is processed), its
    size limit [limit] is at least the number of tasks that fit now, and a reservation variable
    'R' weighs less than any placement variable.  Hence the contract HiGHS satisfies when it
    solves to optimality is: after the round no class with a TOP-priority ready task fits.

    - [sched_complete s sol]: that contract for one answer, on the post-state of [OpSched sol]
      (or the flag is set again - it never is, a round ends by clearing it).
    - [busy c]: the core holds a task in flight (assigned / running / being redirected): its
      worker owes the server a message that sets the flag (finished, failed, rejected, lost).
    - [wake_inv s]: flag on, or nothing placeable, or something in flight. *)
From HQ Require Import Base.Prelude Cluster.Types Cluster.Core Cluster.Reactor Cluster.Worker Cluster.Server Cluster.Sys Cluster.RetractFree.
From Coq Require Import ZArith.
Local Open Scope N_scope.

(** * Does a class fit now *)
Definition sn_fits (rq : N) (r : rqdef) (w : sworker) : bool :=
  match w_assign w with
  | Sn _ _ f => negb (w_stopping w) && negb (nn_mem (rq, 0) (w_blocked w)) && res_fits f (rq_res r)
  | Mn _ _ => false
  end.

Definition mn_free (c : core) (w : sworker) : bool :=
  worker_is_free w && negb (retracting_from c (w_id w)).

Definition free_in_group (c : core) (g : N) : N :=
  N.of_nat (length (filter (fun w => N.eqb (w_group w) g && mn_free c w) (c_workers c))).

Definition mn_fits (c : core) (r : rqdef) : bool :=
  existsb (fun w => N.leb (rq_nodes r) (free_in_group c (w_group w))) (c_workers c).

Definition class_fits (c : core) (i : nat) : bool :=
  match nth_error (c_rqs c) i with
  | Some r => if rq_is_mn r then mn_fits c r else existsb (sn_fits (N.of_nat i) r) (c_workers c)
  | None => false
  end.

(** * Is there work the scheduler would place *)
Definition indexed {A} (l : list A) : list (nat * A) := combine (seq 0 (length l)) l.

Definition at_top (top : Z) (q : queue) : bool :=
  match q_top_priority q with Some p => Z.eqb p top | None => false end.

Definition placeable (c : core) : bool :=
  match queues_top_priority (c_queues c) with
  | None => false
  | Some top => existsb (fun iq => at_top top (snd iq) && class_fits c (fst iq)) (indexed (c_queues c))
  end.

(** Any ready class, whatever its priority (NOT what an optimal round guarantees, see above). *)
Definition placeable_any (c : core) : bool :=
  existsb (fun iq => match q_ready (snd iq) with [] => false | _ => class_fits c (fst iq) end) (indexed (c_queues c)).

(** * The solver's completeness contract *)
Definition sched_complete (s : sys) (sol : solution) : bool :=
  match step s (OpSched sol) with
  | Ok (s', _) => negb (placeable (s_core s')) || c_flag (s_core s')
  | _ => true
  end.

Definition op_complete (s : sys) (o : op) : bool :=
  match o with OpSched sol => sched_complete s sol | _ => true end.

Fixpoint ops_complete (s : sys) (ops : list op) : bool :=
  match ops with
  | [] => true
  | o :: r => op_complete s o && match step s o with Ok (s1, _) => ops_complete s1 r | _ => true end
  end.

(** * The wake-up invariant *)
Definition task_busy (c : core) (t : task) : bool :=
  match t_state t with
  | Waiting _ | Prefilled _ | Finished => false
  | Retracting _ => match find_redirect (c_redirects c) (t_id t) with Some _ => true | None => false end
  | Assigned _ _ | Running _ _ | RunningMN _ => true
  end.
Definition busy (c : core) : bool := existsb (task_busy c) (c_tasks c).

Definition wake_inv (s : sys) : bool :=
  c_flag (s_core s) || negb (placeable (s_core s)) || busy (s_core s).

(** The rest predicate of the monitor `task-in-limbo-at-rest`, extended: at rest nothing the
    scheduler would place is left.  ([at_restb] of RestU1.v is the "at rest" part.) *)
Definition rest_no_runnable (c : core) : bool := negb (placeable c).

(** * First facts *)
Lemma sched_complete_post s sol s' outs :
  step s (OpSched sol) = Ok (s', outs) -> sched_complete s sol = true -> wake_inv s' = true.
Proof.
  unfold sched_complete, wake_inv. intros ->. intros H.
  apply orb_true_iff in H. destruct H as [H | H]; rewrite H; [rewrite orb_true_r | ]; reflexivity.
Qed.

Lemma wake_inv_flag s : c_flag (s_core s) = true -> wake_inv s = true.
Proof. unfold wake_inv. intros ->. reflexivity. Qed.

Lemma wake_inv_same_core s s' : s_core s' = s_core s -> wake_inv s = true -> wake_inv s' = true.
Proof. unfold wake_inv. intros ->. exact (fun H => H). Qed.

(** What [wake_inv] says in a state whose flag is off and in which nothing is in flight. *)
Lemma wake_inv_rest s :
  wake_inv s = true -> c_flag (s_core s) = false -> busy (s_core s) = false -> placeable (s_core s) = false.
Proof.
  unfold wake_inv. intros H Hf Hb. rewrite Hf, Hb, orb_false_r in H. cbn [orb] in H. apply negb_true_iff in H. exact H.
Qed.
