(** Worker loss never panics, part 4: [lost_fail_running], [on_remove_worker] and the theorems
    [connect_never_panics] / [worker_loss_never_panics]. *)
From HQ Require Import Base.Prelude Cluster.Types Cluster.Core Cluster.Reactor Cluster.Worker Cluster.Server Cluster.Sys Cluster.Monitors Cluster.RejHyp Cluster.ProofsJob Cluster.ProofsMore Cluster.ProofsTerminal Cluster.ProofsStep Cluster.ProofsFinal Cluster.BijBase Cluster.BijCore Cluster.BijHq Cluster.BijSt Cluster.BijReact Cluster.BijFinal Cluster.FrameGen Cluster.CrashFrame Cluster.InvWBase Cluster.InvWView Cluster.InvWCore Cluster.InvWReact Cluster.InvWReact2 Cluster.InvWReact3 Cluster.InvWServer Cluster.InvWStep Cluster.InvWFinal Cluster.InvQBase Cluster.InvQTake Cluster.InvQInv Cluster.InvQOps Cluster.InvQNoDup Cluster.InvQReact Cluster.InvQReact2 Cluster.InvQReact3 Cluster.InvQServer Cluster.InvQServer2 Cluster.InvQStep Cluster.InvDBase Cluster.InvDSpec Cluster.InvDMap Cluster.InvDRem Cluster.InvDReact Cluster.InvDSched Cluster.InvDStep Cluster.InvAll Cluster.InvBundle Cluster.InvProcsDef Cluster.NoPanicC1 Cluster.NoPanicC2 Cluster.NoPanicC3 Cluster.NoPanicC4 Cluster.InvWX1 Cluster.InvWX2 Cluster.InvWX3 Cluster.NoPanicL0 Cluster.NoPanicL1 Cluster.NoPanicL2 Cluster.NoPanicL3.
From Coq Require Import ZArith Lia Sorting.Sorted.
Local Open Scope N_scope.

Arguments N.add : simpl never.
Arguments N.sub : simpl never.

(** * The invariants that hold between the phases of [on_remove_worker] *)
Record LI (s : st) : Prop := mkLI {
  li_ok : HOK (hq_of s);
  li_cb : CB s;
  li_wi : WI (core_of s);
  li_qi : QI none [] (core_of s);
  li_gd : GD (core_of s);
  li_j : InvWX1.J (core_of s);
  li_pi : PI s
}.

Lemma LI_task_failed s id k s' : LI s -> task_failed s None id k = Ok s' -> LI s'.
Proof.
  intros [Hok HC HW V HG HJ HP] H. constructor.
  - eapply task_failed_ok; eassumption.
  - eapply task_failed_CB; eassumption.
  - eapply task_failed_WI; [exact Hok | exact HC | exact HW | intros X; exfalso; apply X; reflexivity | exact H].
  - eapply task_failed_QI; eassumption.
  - exact (proj1 (task_failed_RL _ _ _ _ _ HG H)).
  - eapply J_R; [exact HJ | eapply InvWX1.task_failed_R; exact H].
  - eapply R_PI; [eapply NoPanicL0.task_failed_R; exact H | exact HP].
Qed.

(** The crash counter of a task is incremented. *)
Lemma LI_crash s id t n : LI s -> find_task (c_tasks (core_of s)) id = Some t ->
  LI (st_core s (upd_task (core_of s) (with_crash t n))).
Proof.
  intros [Hok HC HW V HG HJ HP] Ef. destruct (find_task_some _ _ _ Ef) as [Hin Hid]. constructor.
  - exact Hok.
  - eapply CB_same; [| |exact HC]; [|reflexivity].
    unfold K. cbn. apply (upd_task_frame (core_of s) id t); [exact (cb_s _ HC) | exact Ef | reflexivity | reflexivity].
  - change (WI (upd_task (core_of s) (with_crash t n))). eapply C_same; [exact HW | exact Ef | exact Hid | reflexivity].
  - cbn [core_of st_core with_core s_core fst]. unfold QI in *. cbn [c_tasks c_queues c_redirects c_rqs upd_task with_tasks].
    eapply QV_task0; [exact V | exact Ef | exact Hid | reflexivity | reflexivity | reflexivity | reflexivity | |].
    + intros v Hv. destruct (qv_red _ _ _ _ _ _ V _ _ Hv) as (En & t0 & w & Hf0 & Hw). rewrite Ef in Hf0. inversion Hf0; subst t0. split; [exact En | exists w; exact Hw].
    + intros Hfin. eapply qv_fin; eassumption.
  - apply (RL_scr (core_of s)); [exact HG|]. cbn.
    eapply (scr_upd _ (core_of s) _ id t); [reflexivity | exact Ef | reflexivity | edges | left; reflexivity].
  - eapply J_R; [exact HJ|]. cbn.
    eapply (R_set_same _ _ (with_crash t n) t); [reflexivity | apply Dm_eq; reflexivity | exact Hin | reflexivity | reflexivity].
  - eapply R_PI; [|exact HP]. apply R_core. apply Rc_same. reflexivity.
Qed.

(** * [lost_fail_running] *)
Lemma lost_fail_running_tot l : forall s reason, LI s ->
  (forall id t, In id l -> find_task (c_tasks (core_of s)) id = Some t -> t_state t = Waiting 0) ->
  exists s', lost_fail_running s reason l = Ok s'.
Proof.
  induction l as [|id r IH]; intros s reason HL Hrun; [eexists; reflexivity|]. cbn [lost_fail_running].
  assert (Hrest : forall x tx, In x r -> find_task (c_tasks (core_of s)) x = Some tx -> t_state tx = Waiting 0)
    by (intros x tx Hx; apply Hrun; right; exact Hx).
  destruct (find_task (c_tasks (core_of s)) id) as [t|] eqn:Ef; [|apply IH; assumption].
  pose proof (Hrun id t (or_introl eq_refl) Ef) as Est.
  destruct (find_task_some _ _ _ Ef) as [_ Hid].
  (* a failing task *)
  assert (Hfail : forall s0 t0 k, LI s0 -> find_task (c_tasks (core_of s0)) id = Some t0 -> t_state t0 = Waiting 0 ->
            (forall x tx, In x r -> find_task (c_tasks (core_of s0)) x = Some tx -> t_state tx = Waiting 0) ->
            exists s', (do s1 <- task_failed s0 None id k; lost_fail_running s1 reason r) = Ok s').
  { intros s0 t0 k HL0 Ef0 Est0 Hr0. destruct HL0 as [Hok HC HW V HG HJ HP].
    destruct (task_failed_none_tot s0 id k t0 Hok HC HW V HG HJ HP Ef0 Est0) as (s1 & H1 & S1). rewrite H1. cbn [bind].
    apply IH; [eapply LI_task_failed; [constructor; eassumption | exact H1]|].
    intros x tx Hx Hfx. destruct (S1 _ _ Hfx) as (tx0 & Hfx0 & Hst). rewrite <- Hst. eapply Hr0; eassumption. }
  (* the crash counter *)
  assert (Hcr : forall n, LI (st_core s (upd_task (core_of s) (with_crash t n))) /\
            find_task (c_tasks (core_of (st_core s (upd_task (core_of s) (with_crash t n))))) id = Some (with_crash t n) /\
            (forall x tx, In x r -> find_task (c_tasks (core_of (st_core s (upd_task (core_of s) (with_crash t n))))) x = Some tx -> t_state tx = Waiting 0)).
  { intros n. split; [eapply LI_crash; eassumption|]. cbn [core_of st_core with_core s_core fst upd_task with_tasks c_tasks]. split.
    - rewrite find_set_task. cbn [t_id with_crash]. rewrite Hid, tid_eqb_refl'. reflexivity.
    - intros x tx Hx Hfx. rewrite find_set_task in Hfx. cbn [t_id with_crash] in Hfx. rewrite Hid in Hfx.
      destruct (tid_eqb x id); [inversion Hfx; subst tx; exact Est | eapply Hrest; eassumption]. }
  destruct (t_climit t) eqn:Ecl.
  - eapply Hfail; eassumption.
  - destruct (reason_is_failure reason); [|apply IH; assumption].
    unfold increment_crash_counter. rewrite Ecl. destruct (Hcr (t_crash t + 1)) as (L1 & F1 & R1).
    destruct (N.leb n (t_crash (with_crash t (t_crash t + 1)))); [eapply Hfail; [exact L1 | exact F1 | exact Est | exact R1] | apply IH; assumption].
  - destruct (reason_is_failure reason); [|apply IH; assumption].
    unfold increment_crash_counter. rewrite Ecl. destruct (Hcr (t_crash t + 1)) as (L1 & F1 & R1). apply IH; assumption.
Qed.

(** * [on_remove_worker] *)
Lemma perm_of_set_tasks order ts x : perm_of_set order (map t_id ts) = true -> In x order -> find_task ts x <> None.
Proof.
  intros Hp Hx. pose proof (perm_of_set_mem _ _ _ Hp Hx) as Hm. apply tid_mem_true_in in Hm.
  intros Hn. apply find_task_none in Hn. contradiction.
Qed.

Theorem on_remove_worker_np s w reason a p t :
  LI s -> find_proc (s_procs (fst s)) w <> None -> is_panic (on_remove_worker s w reason a p t) = false.
Proof.
  intros [Hok HC HW V HG HJ HP] Hproc. rewrite on_remove_worker_eq.
  set (c := core_of s) in *.
  destruct HP as [Hws Hpid].
  assert (Hfw : find_worker (c_workers c) w <> None) by (apply (same_ids_find _ _ w Hpid); exact Hproc).
  destruct (find_worker (c_workers c) w) as [wk|] eqn:Hw; [|congruence]. clear Hfw.
  assert (Hmnd : NoPanicL1.MND c) by (apply J_MNE_RWA in HJ; exact (proj2 (proj2 HJ))).
  pose proof (cb_s _ HC) as Hs.
  apply np_bind; [exact (release_np c w wk a p HW V Hmnd Hw)|].
  intros [[c2 running] retracted] Hr.
  destruct (release_post c w wk a p c2 running retracted HW V Hs HJ Hw Hr) as [W2 V2 E2 Ndr Hpf Hrun S2 Jx2 Wk2].
  unfold after_release. destruct (negb (perm_of_set t (map t_id (c_tasks c2)))) eqn:Ep; [reflexivity|]. apply negb_false_iff in Ep.
  set (s0 := (with_procs (fst s) (del_proc (s_procs (fst s)) w), snd s) : st) in *.
  set (s2 := st_core s0 c2) in *.
  assert (Hok2 : HOK (hq_of s2)) by exact Hok.
  assert (HC2 : CB s2) by (eapply CB_same; [exact E2 | reflexivity | exact HC]).
  assert (HG2 : GD c2) by exact (proj1 (RL_scr _ _ HG S2)).
  assert (HP2 : PI s2).
  { split.
    - eapply WS_eq; [exact Wk2|]. unfold WS, wids. cbn. apply del_worker_sorted. exact Hws.
    - transitivity (wids (with_workers c (del_worker (c_workers c) w))); [|symmetry; exact Wk2].
      unfold pids, wids. cbn. apply del_both. exact Hpid. }
  apply np_bind.
  { apply ex_np. apply lost_retracting_tot; [exact W2 | exact HP2|]. intros id Hid. eapply perm_of_set_tasks; eassumption. }
  intros s3 H3.
  pose proof (lost_retracting_WI t s2 w s3 W2 H3) as W3.
  assert (V3 : QI (exL Ready retracted none) [] (core_of s3)) by (eapply lost_retracting_QI; [|exact H3]; exact V2).
  pose proof (lost_retracting_K _ _ _ _ (cb_s _ HC2) H3) as K3. pose proof (lost_retracting_same _ _ _ _ H3) as Q3.
  assert (HC3 : CB s3) by (eapply CB_same; [exact K3 | exact Q3 | exact HC2]).
  assert (HP3 : PI s3) by (eapply R_PI; [eapply lost_retracting_R; exact H3 | exact HP2]).
  assert (J3 : InvWX1.J (core_of s3)).
  { eapply (lost_retracting_J w t); [exact (cb_s _ HC2) | exact Jx2 | | exact H3].
    intros t' Hin' _. unfold perm_of_set in Ep. apply andb_true_iff in Ep. destruct Ep as [_ Ep]. rewrite forallb_forall in Ep.
    apply tid_mem_true_in. apply Ep. apply in_map. exact Hin'. }
  assert (HG3 : GD (core_of s3)) by exact (proj1 (RL_scr _ _ HG2 (lost_retracting_scr _ _ _ _ H3))).
  assert (Hpf3 : forall x, In x retracted -> exists tx wx, find_task (c_tasks (core_of s3)) x = Some tx /\ t_state tx = Prefilled wx).
  { intros x Hx. destruct (Hpf x Hx) as (tx & wx & Hfx & Hsx). exists tx, wx. split; [|exact Hsx].
    eapply lost_retracting_keeps; [exact H3 | exact Hfx | intros w1; rewrite Hsx; discriminate]. }
  assert (Hrun3 : forall x, In x running -> W0 (core_of s3) x).
  { intros x Hx. destruct (Hrun x Hx) as (tx & Hfx & Hsx). exists tx. split; [|exact Hsx].
    eapply lost_retracting_keeps; [exact H3 | exact Hfx | intros w1; rewrite Hsx; discriminate]. }
  apply np_bind.
  { apply ex_np. apply process_retracted_tot; [exact W3 | apply PI_PWc; exact HP3 | exact Ndr | exact Hpf3]. }
  intros s4 H4.
  pose proof (process_retracted_WI _ _ _ W3 H4) as W4.
  pose proof (process_retracted_QI [] _ _ _ V3 H4) as V4.
  pose proof (process_retracted_K _ _ _ (cb_s _ HC3) H4) as K4. pose proof (process_retracted_hq _ _ _ H4) as Q4.
  assert (HC4 : CB s4) by (eapply CB_same; [exact K4 | exact Q4 | exact HC3]).
  assert (HP4 : PI s4) by (eapply R_PI; [eapply NoPanicL0.process_retracted_R; exact H4 | exact HP3]).
  assert (J4 : InvWX1.J (core_of s4)) by (eapply J_R; [exact J3 | eapply InvWX1.process_retracted_R; exact H4]).
  assert (HG4 : GD (core_of s4)) by exact (proj1 (RL_scr _ _ HG3 (process_retracted_scr _ _ _ H4))).
  assert (Hrun4 : forall x, In x running -> W0 (core_of s4) x).
  { intros x Hx. destruct (Hrun3 x Hx) as (tx & Hfx & Hsx). exists tx. split; [|exact Hsx].
    eapply process_retracted_keeps; [exact H4 | exact Hfx | intros w1; rewrite Hsx; discriminate]. }
  assert (Hok4 : HOK (hq_of s4)) by (unfold hq_same in Q3; rewrite Q4, Q3; exact Hok2).
  cbv zeta. set (s5 := broadcast s4 (DLostWorker w)) in *.
  assert (HC5 : CB s5) by (eapply CB_same; [| |exact HC4]; reflexivity).
  assert (HP5 : PI s5) by (eapply R_PI; [apply R_eq; apply broadcast_sids | exact HP4]).
  apply np_bind.
  { apply ex_np. apply process_worker_lost_tot; [exact Hok4|].
    intros x Hx. apply (cb_b _ HC5). apply find_task_present. destruct (Hrun4 x Hx) as (tx & Hfx & _). exists tx. exact Hfx. }
  intros s6 H6.
  destruct (process_worker_lost_active _ _ _ _ _ H6) as [C6 A6]. unfold core_same in C6.
  assert (C6' : core_of s6 = core_of s4) by exact C6.
  assert (HL6 : LI s6).
  { constructor.
    - eapply process_worker_lost_ok; [|exact H6]. exact Hok4.
    - eapply CB_frame; [unfold K; rewrite C6; reflexivity | exact A6 | exact HC5].
    - rewrite C6'. exact W4.
    - rewrite C6'. exact V4.
    - rewrite C6'. exact HG4.
    - rewrite C6'. exact J4.
    - eapply R_PI; [apply R_CP; eapply process_worker_lost_CP; exact H6 | exact HP5]. }
  apply np_bind.
  { apply ex_np. apply lost_fail_running_tot; [exact HL6|].
    intros id tk Hid Hf. rewrite C6' in Hf. destruct (Hrun4 id Hid) as (tx & Hfx & Hsx). rewrite Hf in Hfx. inversion Hfx; subst tx. exact Hsx. }
  intros s7 _. reflexivity.
Qed.

(** * The theorems *)
Theorem connect_never_panics : forall s rs g, INV s -> PW s -> is_panic (step s (OpConnect rs g)) = false.
Proof. intros s rs g _ _. reflexivity. Qed.

(** The state facts of InvWX1.v (true in every reachable state: InvWX3.v) are needed: [MND] for the
    loss of the root of a multi-node task, [MNE] / [RWA] for the cancellation of a job whose failure
    limit is exceeded by a task that was running on the lost worker. *)
Lemma LI_of_INV s outs : INV s -> PW s -> InvWX1.J (s_core s) -> LI (s, outs).
Proof.
  intros [Hok _ HC HW HQ _ HD _] Hpw HJ. constructor.
  - exact Hok.
  - eapply CB_outs. exact HC.
  - exact HW.
  - exact HQ.
  - exact HD.
  - exact HJ.
  - split; [exact (WIX_sw _ _ HW) | exact Hpw].
Qed.

Theorem worker_loss_never_panics_J : forall s w reason a p t,
  INV s -> PW s -> InvWX1.J (s_core s) -> is_panic (step s (OpLost w reason a p t)) = false.
Proof.
  intros s w reason a p t HI Hpw HJ. cbn [step].
  destruct (find_proc (s_procs s) w) as [pr|] eqn:Ef; [|reflexivity].
  apply on_remove_worker_np; [apply LI_of_INV; assumption | cbn; rewrite Ef; discriminate].
Qed.

Theorem worker_loss_never_panics : forall s w reason a p t,
  INV s -> PW s ->
  InvWX1.MNE (s_core s) -> InvWX1.RWA (s_core s) ->
  (forall tk ws, In tk (c_tasks (s_core s)) -> t_state tk = RunningMN ws -> ws <> [] /\ NoDup ws) ->
  is_panic (step s (OpLost w reason a p t)) = false.
Proof.
  intros s w reason a p t HI Hpw H1 H2 H3. apply worker_loss_never_panics_J; [exact HI | exact Hpw|].
  apply J_MNE_RWA. split; [exact H1|]. split; [exact H2|]. intros tk ws Hin Est. exact (proj2 (H3 tk ws Hin Est)).
Qed.

(** For every reachable state. *)
Theorem worker_events_never_panic_reachable ops reserve maxfill s outs :
  Forall op_wf ops -> run_fresh (init_sys reserve maxfill) ops = true -> run (init_sys reserve maxfill) ops = Ok (s, outs) ->
  (forall rs g, is_panic (step s (OpConnect rs g)) = false) /\
  (forall w reason a p t, is_panic (step s (OpLost w reason a p t)) = false).
Proof.
  intros Hwf Hf H. split; [intros; reflexivity|]. intros w reason a p t.
  destruct (reachable_MNE_RWA_MNOK _ _ _ _ _ Hwf Hf H) as (H1 & H2 & H3).
  apply worker_loss_never_panics; [eapply reachable_INV; eassumption | eapply reachable_PW; exact H | exact H1 | exact H2 | exact H3].
Qed.
