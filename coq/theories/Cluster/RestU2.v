(** C02 "at rest", part 2: the server's functions touch a worker process only by appending to its
    down channel - relation [FB] (the pass of ExecU5-7 / ExecU9 for [PR], replayed for the whole
    body of the process; the parameter [A] is kept only so that the same proof scripts apply). *)
From HQ Require Import Base.Prelude Cluster.Types Cluster.Core Cluster.Reactor Cluster.Worker Cluster.Server Cluster.Sys Cluster.Monitors Cluster.RejHyp Cluster.ProofsJob Cluster.ProofsMore Cluster.ProofsTerminal Cluster.ProofsStep Cluster.ProofsFinal Cluster.BijBase Cluster.BijCore Cluster.BijHq Cluster.BijSt Cluster.BijReact Cluster.BijFinal Cluster.ProofsOnce Cluster.InvWBase Cluster.InvWX1 Cluster.InvWX3 Cluster.InvBundle Cluster.NoPanicC1 Cluster.NoPanicL0 Cluster.NoPanicU0 Cluster.NoPanicU1 Cluster.NoPanicU6 Cluster.NoPanicU7 Cluster.NoPanicU8 Cluster.NoPanicU9 Cluster.NoPanicU11 Cluster.NoPanicU12 Cluster.NoPanicU14 Cluster.NoPanicU17 Cluster.ExecU1 Cluster.ExecU2 Cluster.ExecU3 Cluster.ExecU4 Cluster.ExecU5 Cluster.ExecU6 Cluster.ExecU7 Cluster.ExecU9.
From Coq Require Import ZArith Lia Sorting.Sorted.
Local Open Scope N_scope.

Arguments N.add : simpl never.
Arguments N.sub : simpl never.

(** [p'] is [p] with another down channel *)
Definition same_body (p p' : wproc) : Prop := wp_down p (p_down p') = p'.
Lemma same_body_refl p : same_body p p.
Proof. unfold same_body. destruct p; reflexivity. Qed.
Lemma same_body_trans a b c : same_body a b -> same_body b c -> same_body a c.
Proof. unfold same_body. intros <- <-. destruct a; reflexivity. Qed.
Lemma same_body_push p m : same_body p (push_down p m).
Proof. unfold same_body. destruct p; reflexivity. Qed.

Definition FB (A : wid -> dmsg -> Prop) (s s' : st) : Prop :=
  forall w p', find_proc (s_procs (fst s')) w = Some p' -> exists p, find_proc (s_procs (fst s)) w = Some p /\ same_body p p'.

Lemma FB_refl (A : wid -> dmsg -> Prop) s : FB A s s.
Proof. intros w p' H. exists p'. split; [exact H | apply same_body_refl]. Qed.
Lemma FB_trans (A : wid -> dmsg -> Prop) a b c : FB A a b -> FB A b c -> FB A a c.
Proof.
  intros P1 P2 w p3 H3. destruct (P2 w p3 H3) as (p2 & H2 & B2). destruct (P1 w p2 H2) as (p1 & H1 & B1).
  exists p1. split; [exact H1 | eapply same_body_trans; eassumption].
Qed.
Lemma FB_same (A : wid -> dmsg -> Prop) s s' : s_procs (fst s') = s_procs (fst s) -> hq_of s' = hq_of s -> LS s' = LS s -> FB A s s'.
Proof. intros Ep _ _ w p' H. rewrite Ep in H. exists p'. split; [exact H | apply same_body_refl]. Qed.
Lemma FB_core (A : wid -> dmsg -> Prop) s c : FB A s (st_core s c).
Proof. apply (FB_same A); reflexivity. Qed.
Lemma FB_ask (A : wid -> dmsg -> Prop) s : FB A s (ask_scheduling s).
Proof. apply (FB_same A); reflexivity. Qed.
Lemma FB_job (A : wid -> dmsg -> Prop) s s' : CP s' = CP s -> LS s' = LS s -> SM s s' -> FB A s s'.
Proof. intros Ec _ _. inversion Ec as [[E1 E2]]. intros w p' H. rewrite E2 in H. exists p'. split; [exact H | apply same_body_refl]. Qed.
Lemma FB_hq (A : wid -> dmsg -> Prop) s s' : s_procs (fst s') = s_procs (fst s) -> LS s' = LS s -> SM s s' -> FB A s s'.
Proof. intros Ep _ _ w p' H. rewrite Ep in H. exists p'. split; [exact H | apply same_body_refl]. Qed.

Lemma FB_send (A : wid -> dmsg -> Prop) s w m s' : send_worker s w m = Ok s' -> A w m -> FB A s s'.
Proof.
  unfold send_worker. intros H _. destruct (find_proc (s_procs (fst s)) w) as [p|] eqn:Ep; [|discriminate]. inversion H; subst s'.
  destruct (find_proc_some _ _ _ Ep) as [_ Hid].
  intros w' p' H'. cbn [fst with_procs s_procs] in H'. rewrite find_set_proc in H'. cbn [push_down p_id] in H'. rewrite Hid in H'.
  destruct (N.eqb w' w) eqn:E.
  - apply N.eqb_eq in E. subst w'. inversion H'; subst p'. exists p. split; [exact Ep | apply same_body_push].
  - exists p'. split; [exact H' | apply same_body_refl].
Qed.
Lemma FB_broadcast (A : wid -> dmsg -> Prop) s m : (forall w, A w m) -> FB A s (broadcast s m).
Proof.
  intros _ w p' H'. unfold broadcast in H'. cbn [fst with_procs s_procs] in H'. rewrite find_map_push in H'.
  destruct (find_proc (s_procs (fst s)) w) as [p|]; [|discriminate]. inversion H'; subst p'. exists p. split; [reflexivity | apply same_body_push].
Qed.
Lemma FB_send_all (A : wid -> dmsg -> Prop) msgs : forall s s', send_all s msgs = Ok s' -> (forall w m, In (w, m) msgs -> A w m) -> FB A s s'.
Proof.
  induction msgs as [|[w m] r IH]; cbn [send_all]; intros s s' H Ha; [inversion H; subst; apply (FB_refl A)|].
  apply bind_ok in H. destruct H as (s1 & H1 & H). eapply (FB_trans A); [eapply (FB_send A); [exact H1 | apply Ha; left; reflexivity]|].
  eapply IH; [exact H | intros w0 m0 Hin; apply Ha; right; exact Hin].
Qed.
Lemma FB_any (A B : wid -> dmsg -> Prop) s s' : FB A s s' -> FB B s s'.
Proof. intros H. exact H. Qed.
Lemma FB_weaken (A B : wid -> dmsg -> Prop) s s' : (forall w m, A w m -> B w m) -> FB A s s' -> FB B s s'.
Proof. intros _ H. exact H. Qed.

Section Pass.
Variable A : wid -> dmsg -> Prop.
Hypothesis HA : forall w m, quietm m -> A w m.
Notation FB := (FB A).
Notation FB_refl := (FB_refl A).
Notation FB_trans := (FB_trans A).
Notation FB_core := (FB_core A).
Notation FB_ask := (FB_ask A).
Notation FB_same := (FB_same A).

Lemma process_retracted_FB s r s' : process_retracted s r = Ok s' -> FB s s'.
Proof.
  unfold process_retracted. intros H. destruct r; [inversion H; subst; apply FB_refl|].
  apply bind_ok in H. destruct H as ([c' groups] & H1 & H).
  eapply FB_trans; [apply (FB_core s c')|]. eapply FB_send_all; [exact H|].
  intros w m Hin. apply in_map_iff in Hin. destruct Hin as (g & E & _). inversion E; subst. apply HA. exact I.
Qed.

Lemma cancel_release_FB ids : forall s u r s1 u' r', cancel_release s ids u r = Ok (s1, u', r') -> FB s s1.
Proof.
  induction ids as [|id rest IH]; cbn [cancel_release]; intros s u r s1 u' r' H; [inversion H; subst; apply FB_refl|].
  destruct (find_task _ id) as [t|]; [|eapply IH; eassumption].
  dec H; (eapply FB_trans; [|eapply IH; exact H]); apply FB_same; reflexivity.
Qed.

Lemma on_cancel_tasks_FB s ids s' : on_cancel_tasks s ids = Ok s' -> FB s s'.
Proof.
  unfold on_cancel_tasks. intros H.
  apply bind_ok in H. destruct H as ([[s1 u] r] & H1 & H). apply bind_ok in H. destruct H as (c' & H2 & H).
  eapply FB_trans; [eapply cancel_release_FB; exact H1|].
  eapply FB_trans; [apply (FB_core s1 c')|]. eapply FB_send_all; [exact H|].
  intros w m Hin. apply in_map_iff in Hin. destruct Hin as (g & E & _). inversion E; subst. apply HA. exact I.
Qed.

Lemma process_task_failed_FB s t ab k s' ids : process_task_failed s t ab k = Ok (s', ids) -> FB s s'.
Proof.
  intros H. apply FB_job; [eapply process_task_failed_CP; exact H | eapply process_task_failed_LS; exact H|].
  eapply SM_chg. eapply process_task_failed_chg. exact H.
Qed.

Lemma task_failed_FB s w id k s' : task_failed s w id k = Ok s' -> FB s s'.
Proof.
  unfold task_failed. intros H. cbv zeta in H. destruct (find_task _ id) as [t|]; [|inversion H; subst; apply FB_refl].
  apply bind_ok in H. destruct H as (rq & _ & H). apply bind_ok in H. destruct H as (c1 & H1 & H).
  apply bind_ok in H. destruct H as (csm & _ & H). apply bind_ok in H. destruct H as (c2 & H2 & H).
  apply bind_ok in H. destruct H as ([c3 stt] & H3 & H). apply bind_ok in H. destruct H as (u & _ & H).
  apply bind_ok in H. destruct H as ([s1 cids] & H4 & H).
  assert (R4 : FB s s1) by (eapply FB_trans; [apply (FB_core s c3) | eapply process_task_failed_FB; exact H4]).
  destruct cids; [inversion H; subst; exact R4|].
  eapply FB_trans; [exact R4 | eapply on_cancel_tasks_FB; exact H].
Qed.

Lemma task_finished_FB s w id s' b : task_finished s w id = Ok (s', b) -> FB s s'.
Proof.
  unfold task_finished. intros H. cbv zeta in H. destruct (find_task _ id) as [t|]; [|inversion H; subst; apply FB_refl].
  apply bind_ok in H. destruct H as (rq & _ & H). apply bind_ok in H. destruct H as (c1 & H1 & H).
  apply bind_ok in H. destruct H as (s1 & H2 & H). apply bind_ok in H. destruct H as ([c3 ret] & H3 & H).
  apply bind_ok in H. destruct H as (s2 & H4 & H). apply bind_ok in H. destruct H as ([c4 stt] & H5 & H).
  destruct stt; try discriminate. inversion H; subst.
  eapply FB_trans; [apply (FB_core s (upd_task c1 (with_state t Finished)))|].
  eapply FB_trans; [apply FB_job; [eapply process_task_finished_CP; exact H2 | eapply process_task_finished_LS; exact H2
                                  | eapply SM_chg; exact (proj2 (process_task_finished_chg _ _ _ H2))]|].
  eapply FB_trans; [apply (FB_core s1 c3)|].
  eapply FB_trans; [eapply process_retracted_FB; exact H4|]. apply FB_core.
Qed.

Lemma task_running_FB s w id rv s' b : task_running s w id rv = Ok (s', b) -> FB s s'.
Proof.
  unfold task_running. intros H. cbv zeta in H. destruct (find_task _ id) as [t|]; [|inversion H; subst; apply FB_refl].
  apply bind_ok in H. destruct H as (rq & _ & H). apply bind_ok in H. destruct H as ([s1 ws] & H1 & H).
  apply bind_ok in H. destruct H as (s2 & H2 & H). inversion H; subst.
  eapply FB_trans; [|apply FB_job; [eapply process_task_started_CP; exact H2 | eapply process_task_started_LS; exact H2
                                   | eapply SM_chg; exact (proj1 (process_task_started_chg _ _ _ _ _ _ H2))]].
  dec H1; inversion H1; subst; try apply FB_refl; apply FB_same; reflexivity.
Qed.

Lemma requeue_FB s t c1 s' b :
  (do (qs, ret) <- add_ready_task (c_queues c1) (with_state t (Waiting 0));
   do s'' <- process_retracted (st_core s (with_queues (upd_task c1 (with_state t (Waiting 0))) qs)) ret;
   Ok (s'', true)) = Ok (s', b) -> FB s s'.
Proof.
  intros Hx. apply bind_ok in Hx. destruct Hx as ([qs ret] & _ & Hx). apply bind_ok in Hx. destruct Hx as (s2 & H2 & Hx).
  inversion Hx; subst. eapply FB_trans; [|eapply process_retracted_FB; exact H2]. apply FB_core.
Qed.

(** [task_reject]: the compute message of its redirect branch is not sent for a task that is not
    being retracted (the protocol excludes a reject of a task under retraction). *)
Lemma task_reject_FB s w id rv s' b :
  (forall t w1, find_task (c_tasks (core_of s)) id = Some t -> t_state t <> Retracting w1) ->
  task_reject s w id rv = Ok (s', b) -> FB s s'.
Proof.
  unfold task_reject. intros Hst H. cbv zeta in H. destruct (find_task _ id) as [t|] eqn:Ef; [|inversion H; subst; apply FB_refl].
  apply bind_ok in H. destruct H as (wk & Hwk & H). apply bind_ok in H. destruct H as (rq & _ & H).
  apply bind_ok in H. destruct H as ([c1 cont] & Hr & H).
  destruct (t_state t) eqn:Est; try (eapply requeue_FB; eassumption).
  exfalso. exact (Hst t _ eq_refl Est).
Qed.

Lemma request_enabled_FB s w rq rv s' : request_enabled s w rq rv = Ok s' -> FB s s'.
Proof. unfold request_enabled. intros H. dec H. inversion H; subst. apply FB_core. Qed.

Lemma lost_fail_running_FB l : forall s reason s', lost_fail_running s reason l = Ok s' -> FB s s'.
Proof.
  induction l as [|id r IH]; cbn [lost_fail_running]; intros s reason s' H; [inversion H; subst; apply FB_refl|].
  destruct (find_task _ id) as [t|]; [|eapply IH; eassumption].
  destruct (t_climit t).
  - apply bind_ok in H. destruct H as (s1 & H1 & H). eapply FB_trans; [eapply task_failed_FB; exact H1 | eapply IH; exact H].
  - destruct (reason_is_failure reason); [|eapply IH; eassumption].
    destruct (increment_crash_counter t) as [t' limit]. destruct limit.
    + apply bind_ok in H. destruct H as (s1 & H1 & H).
      eapply FB_trans; [|eapply IH; exact H]. eapply FB_trans; [|eapply task_failed_FB; exact H1]. apply FB_core.
    + eapply FB_trans; [|eapply IH; exact H]. apply FB_core.
  - destruct (reason_is_failure reason); [|eapply IH; eassumption].
    destruct (increment_crash_counter t) as [t' limit]. destruct limit.
    + apply bind_ok in H. destruct H as (s1 & H1 & H).
      eapply FB_trans; [|eapply IH; exact H]. eapply FB_trans; [|eapply task_failed_FB; exact H1]. apply FB_core.
    + eapply FB_trans; [|eapply IH; exact H]. apply FB_core.
Qed.

Lemma on_new_tasks_FB s ts s' : on_new_tasks s ts = Ok s' -> FB s s'.
Proof.
  unfold on_new_tasks. intros H. destruct ts; [inversion H; subst; apply FB_refl|].
  apply bind_ok in H. destruct H as ([c' ret] & H1 & H). apply bind_ok in H. destruct H as (s1 & H2 & H). inversion H; subst.
  eapply FB_trans; [apply (FB_core s c')|]. eapply FB_trans; [eapply process_retracted_FB; exact H2 | apply FB_ask].
Qed.
End Pass.

Section Pass6.
Variable A : wid -> dmsg -> Prop.
Hypothesis HA : forall w m, quietm m -> A w m.
Notation FB := (FB A).
Notation FB_refl := (FB_refl A).
Notation FB_trans := (FB_trans A).
Notation FB_core := (FB_core A).
Notation FB_same := (FB_same A).

(** * Client requests *)
Lemma get_or_create_rq_FB s r s' i : get_or_create_rq s r = (s', i) -> FB s s'.
Proof.
  unfold get_or_create_rq. intros H. cbv zeta in H. destruct (rq_index _ r 0); inversion H; subst; [apply FB_refl|].
  eapply FB_trans; [apply (FB_broadcast A s (DNewRq (N.of_nat (length (c_rqs (core_of s)))) r)); intros w; apply HA; exact I | apply FB_core].
Qed.

Lemma fold_rqs_FB rqs : forall s l s' l',
  fold_left (fun acc r => let '(s, l) := acc in let '(s', i) := get_or_create_rq s r in (s', l ++ [i])) rqs (s, l) = (s', l') -> FB s s'.
Proof.
  induction rqs as [|r rest IH]; cbn [fold_left]; intros s l s' l' H; [inversion H; subst; apply FB_refl|].
  destruct (get_or_create_rq s r) as [s1 i] eqn:Eg.
  eapply FB_trans; [eapply get_or_create_rq_FB; exact Eg | eapply IH; exact H].
Qed.

Notation FB_hq := (FB_hq A).

Lemma submit_tail_FB s4 jid ids tasks s' :
  (do j <- hq_get_job s4 jid 222;
   do j' <- attach_ids j ids;
   do s6 <- on_new_tasks (hq_set_job s4 j') tasks;
   submit_ok_resp s6 jid) = Ok s' -> FB s4 s'.
Proof.
  intros H. apply bind_ok in H. destruct H as (j & Hj & H). apply bind_ok in H. destruct H as (j' & Ha & H).
  apply bind_ok in H. destruct H as (s6 & H6 & H).
  assert (Ej : find_job (h_jobs (s_hq (fst s4))) (j_id j) = Some j).
  { unfold hq_get_job in Hj. destruct (find_job (h_jobs (s_hq (fst s4))) jid) as [j0|] eqn:E; [|discriminate]. inversion Hj; subst j0.
    rewrite (find_job_id _ _ _ E). exact E. }
  eapply FB_trans; [apply (FB_hq s4 (hq_set_job s4 j')); [reflexivity | reflexivity|]|].
  { intros x Hx. unfold hq_of, hq_set_job. cbn [fst with_hq s_hq]. eapply seen_attach; [exact Ej | exact Ha | exact Hx]. }
  eapply FB_trans; [eapply on_new_tasks_FB; [exact HA | exact H6]|].
  apply FB_job; [eapply submit_ok_resp_CP; exact H | eapply submit_ok_resp_LS; exact H|].
  intros x Hx. unfold submit_ok_resp in H. apply bind_ok in H. destruct H as (jx & _ & H). inversion H; subst. exact Hx.
Qed.

(** the job chosen / created by a submit *)
Lemma submit_head_FB s (jid : N) (is_new : bool) s1 n mf :
  (is_new = false /\ s1 = s \/ is_new = true /\ jid = hq_counter s /\ s1 = hq_with s (hq_jobs s) (jid + 1)) ->
  let s2 := emit s1 (OEv (EvSubmit jid is_new n)) in
  let s3 := if is_new then hq_with s2 (set_job (hq_jobs s2) (mkJob jid false [] 0 0 0 0 0 false mf)) (hq_counter s2) else s2 in
  FB s s3.
Proof.
  intros [[-> ->]|(-> & -> & ->)]; cbv zeta.
  - apply FB_same; [reflexivity | reflexivity | unfold LS; cbn; rewrite launches_app; cbn; apply app_nil_r].
  - apply FB_hq; [reflexivity | unfold LS; cbn; rewrite launches_app; cbn; apply app_nil_r|].
    intros x Hx. unfold hq_of, hq_with, hq_jobs, hq_counter, emit. cbn [fst snd with_hq s_hq h_jobs h_counter].
    apply (seen_new_job (s_hq (fst s)) x); [reflexivity | exact Hx].
Qed.

Lemma handle_submit_array_FB s jobsel ids entries rq prio cl tlim mf s' :
  handle_submit_array s jobsel ids entries rq prio cl tlim mf = Ok s' -> FB s s'.
Proof.
  unfold handle_submit_array. intros H. cbv zeta in H.
  match type of H with match ?x with _ => _ end = _ => destruct x end; [inversion H; subst; apply FB_same; try reflexivity; apply LS_emit; intros; discriminate|].
  apply bind_ok in H. destruct H as ([o s1] & Hr & H).
  destruct o as [[[jid is_new] ids']|].
  - assert (Hhead : is_new = false /\ s1 = s \/ is_new = true /\ jid = hq_counter s /\ s1 = hq_with s (hq_jobs s) (jid + 1)).
    { destruct jobsel as [j0|].
      - destruct (find_job (hq_jobs s) j0) as [j|]; [|inversion Hr]. destruct (negb (j_open j)); inversion Hr; subst. left. auto.
      - inversion Hr; subst. right. auto. }
    match type of H with (let '(_, _) := ?x in _) = _ => destruct x as [s4 rqi] eqn:Eg end.
    eapply FB_trans; [apply (submit_head_FB s jid is_new s1 (N.of_nat (length ids')) mf Hhead)|]. cbv zeta.
    eapply FB_trans; [eapply get_or_create_rq_FB; exact Eg|]. eapply submit_tail_FB; exact H.
  - assert (E1 : s1 = s \/ exists e, s1 = emit s (OResp e)).
    { destruct jobsel as [jid|]; [|inversion Hr]. destruct (find_job (hq_jobs s) jid) as [j|]; [|inversion Hr; auto].
      destruct (negb (j_open j)); inversion Hr; subst; eauto. }
    assert (P1 : FB s s1) by (destruct E1 as [->|(e & ->)]; [apply FB_refl | apply FB_same; try reflexivity; apply LS_emit; intros; discriminate]).
    eapply FB_trans; [exact P1|]. destruct jobsel; [destruct (find_job _ _)|]; inversion H; subst; try apply FB_refl.
    apply FB_same; try reflexivity. apply LS_emit. intros; discriminate.
Qed.

Lemma handle_submit_graph_FB s jobsel rqs ts mf s' : handle_submit_graph s jobsel rqs ts mf = Ok s' -> FB s s'.
Proof.
  unfold handle_submit_graph. intros H. cbv zeta in H.
  apply bind_ok in H. destruct H as (v1 & _ & H).
  match type of H with match ?x with _ => _ end = _ => destruct x end; [inversion H; subst; apply FB_same; try reflexivity; apply LS_emit; intros; discriminate|].
  apply bind_ok in H. destruct H as ([o s1] & Hr & H).
  destruct o as [[jid is_new]|].
  - assert (Hhead : is_new = false /\ s1 = s \/ is_new = true /\ jid = hq_counter s /\ s1 = hq_with s (hq_jobs s) (jid + 1)).
    { destruct jobsel as [j0|].
      - destruct (find_job (hq_jobs s) j0) as [j|]; [|inversion Hr]. destruct (negb (j_open j)); inversion Hr; subst. left. auto.
      - inversion Hr; subst. right. auto. }
    match type of H with (let '(_, _) := ?x in _) = _ => destruct x as [s4 rqis] eqn:Eg end.
    apply bind_ok in H. destruct H as (j & Hj & H). apply bind_ok in H. destruct H as (j' & Ha & H).
    apply bind_ok in H. destruct H as (tasks & _ & H).
    eapply FB_trans; [apply (submit_head_FB s jid is_new s1 (N.of_nat (length ts)) mf Hhead)|]. cbv zeta.
    eapply FB_trans; [eapply fold_rqs_FB; exact Eg|]. eapply (submit_tail_FB s4 jid (map gt_id ts) tasks).
    rewrite Hj. cbn [bind]. rewrite Ha. cbn [bind]. exact H.
  - inversion H; subst. destruct jobsel as [jid|]; [|inversion Hr]. destruct (find_job (hq_jobs s) jid) as [j|]; [|inversion Hr; subst; apply FB_same; try reflexivity; apply LS_emit; intros; discriminate].
    destruct (negb (j_open j)); inversion Hr; subst. apply FB_same; try reflexivity; apply LS_emit; intros; discriminate.
Qed.

Lemma handle_open_FB s mf s' : handle_open s mf = Ok s' -> FB s s'.
Proof.
  unfold handle_open. intros H. inversion H; subst. apply FB_hq; [reflexivity | unfold LS; cbn; rewrite !launches_app; cbn; rewrite !app_nil_r; reflexivity|].
  intros x Hx. unfold hq_of, hq_with, hq_jobs, hq_counter, emit. cbn [fst snd with_hq s_hq h_jobs h_counter].
  apply (seen_new_job (s_hq (fst s)) x); [reflexivity | exact Hx].
Qed.

Lemma handle_close_FB s jid s' : handle_close s jid = Ok s' -> FB s s'.
Proof.
  unfold handle_close. intros H. destruct (find_job _ jid) as [j|] eqn:Ef; [|inversion H; subst; apply FB_same; try reflexivity; apply LS_emit; intros; discriminate].
  destruct (j_open j); [|inversion H; subst; apply FB_same; try reflexivity; apply LS_emit; intros; discriminate].
  apply bind_ok in H. destruct H as (s1 & H1 & H). inversion H; subst.
  eapply FB_trans; [|apply (FB_same s1 (emit s1 (OResp (RClose 0)))); [reflexivity | reflexivity | apply LS_emit; intros; discriminate]].
  eapply FB_trans; [|apply FB_job; [eapply check_termination_CP; exact H1 | eapply check_termination_LS; exact H1 | eapply SM_chg; eapply check_termination_chg; exact H1]].
  apply FB_hq; [reflexivity | unfold LS, emit, hq_set_job; cbn [snd]; rewrite launches_app; cbn; apply app_nil_r|].
  intros x Hx. unfold hq_of, emit, hq_set_job in *. cbn [fst with_hq s_hq]. unfold seen in *. cbn [h_jobs h_counter].
  apply andb_true_iff in Hx. destruct Hx as [Ha Hb]. rewrite Ha. cbn [andb]. rewrite find_job_set'. cbn [j_id].
  pose proof (find_job_id _ _ _ Ef) as Eid. unfold hq_jobs in Ef.
  destruct (N.eqb (fst x) (j_id j)) eqn:E; [|exact Hb]. apply N.eqb_eq in E. rewrite E, Eid, Ef in Hb. cbn [j_tasks]. exact Hb.
Qed.

Lemma handle_cancel_FB s jid s' : handle_cancel s jid = Ok s' -> FB s s'.
Proof.
  unfold handle_cancel. intros H. destruct (find_job _ jid) as [j|]; [|inversion H; subst; apply FB_same; try reflexivity; apply LS_emit; intros; discriminate].
  cbv zeta in H. destruct (non_finished_task_ids j) as [|i ids]; [inversion H; subst; apply FB_same; try reflexivity; apply LS_emit; intros; discriminate|].
  apply bind_ok in H. destruct H as (s1 & H1 & H). apply bind_ok in H. destruct H as (al & _ & H).
  apply bind_ok in H. destruct H as (s2 & H2 & H). inversion H; subst.
  eapply FB_trans; [eapply on_cancel_tasks_FB; [exact HA | exact H1]|].
  eapply FB_trans; [apply FB_job; [eapply set_cancel_state_CP; exact H2 | eapply set_cancel_state_LS; exact H2 | eapply SM_chg; exact (proj1 (set_cancel_state_chg _ _ _ _ H2))]|].
  apply FB_same; try reflexivity. apply LS_emit. intros; discriminate.
Qed.

Lemma handle_forget_FB s jid s' : handle_forget s jid = Ok s' -> FB s s'.
Proof.
  unfold handle_forget. intros H. destruct (find_job _ jid) as [j|]; [|inversion H; subst; apply FB_same; try reflexivity; apply LS_emit; intros; discriminate].
  apply bind_ok in H. destruct H as (na & _ & H). destruct (negb (j_open j) && na); inversion H; subst; [|apply FB_same; try reflexivity; apply LS_emit; intros; discriminate].
  apply FB_hq; [reflexivity | unfold LS, emit, hq_with; cbn [snd]; rewrite launches_app; cbn; apply app_nil_r|].
  intros x Hx. unfold hq_of, emit, hq_with, hq_jobs, hq_counter. cbn [fst with_hq s_hq]. apply seen_del. exact Hx.
Qed.
End Pass6.

Section Upd.
Variable A : wid -> dmsg -> Prop.
Hypothesis HA : forall w m, quietm m -> A w m.

Lemma apply_one_FB s w u r s' b : SP x0 s (pum_us w (u :: r)) [] -> apply_one s w u = Ok (s', b) -> FB A s s'.
Proof.
  intros HS H. destruct u as [id|id k|id rv|id rv|id rv0|rq rv]; cbn [apply_one] in H.
  - eapply task_finished_FB; [exact HA | exact H].
  - apply bind_ok in H. destruct H as (s2 & H2 & H). inversion H; subst. eapply task_failed_FB; [exact HA | exact H2].
  - eapply task_running_FB; exact H.
  - eapply task_running_FB; exact H.
  - eapply task_reject_FB; [exact HA | | exact H]. intros t w1 Ef Est.
    destruct (pum_us_proc _ _ _ _ _ HS) as (p & Hp).
    pose proof (head_item _ _ _ _ _ _ _ _ _ HS Ef eq_refl Hp) as Hl. cbn [uitem_of] in Hl. rewrite sel_same in Hl. cbn [app] in Hl.
    destruct (LS_rej _ _ _ _ _ Hl) as (rv & Ev & _ & _). apply view_VA in Ev. congruence.
  - apply bind_ok in H. destruct H as (s2 & H2 & H). inversion H; subst. eapply request_enabled_FB; exact H2.
Qed.

Lemma apply_updates_FB us : forall s w need s' need', SP x0 s (pum_us w us) [] -> apply_updates s w us need = Ok (s', need') -> FB A s s'.
Proof.
  induction us as [|u r IH]; intros s w need s' need' HS H; [cbn in H; inversion H; subst; apply FB_refl|].
  rewrite apply_updates_cons in H. apply bind_ok in H. destruct H as ([s1 n1] & H1 & H).
  eapply FB_trans; [eapply apply_one_FB; [exact HS | exact H1]|]. eapply IH; [eapply apply_one_SP; eassumption | exact H].
Qed.

Lemma on_task_update_FB s w us s' : SP x0 s (pum_us w us) [] -> on_task_update s w us = Ok s' -> FB A s s'.
Proof.
  unfold on_task_update. intros HS H. apply bind_ok in H. destruct H as ([s1 need] & H1 & H).
  pose proof (apply_updates_FB _ _ _ _ _ _ HS H1) as R1.
  destruct (need && _); inversion H; subst; [|exact R1]. eapply FB_trans; [exact R1 | apply FB_ask].
Qed.
End Upd.

Lemma send_redirected_FB (T : tid -> Prop) gs : forall s s', send_redirected s gs = Ok s' ->
  (forall tg l ir, In (tg, l) gs -> In ir l -> T (fst ir)) -> FB (AC (core_of s) T) s s'.
Proof.
  induction gs as [|[target ts] r IH]; cbn [send_redirected]; intros s s' H HT; [inversion H; subst; apply FB_refl|].
  apply bind_ok in H. destruct H as (cts & Hc & H). apply bind_ok in H. destruct H as (s1 & H1 & H).
  eapply FB_trans; [eapply FB_send; [exact H1|]|].
  - cbn [AC]. intros ct Hin. destruct (ctasks_of_spec _ _ _ Hc ct Hin) as [Hi Ht]. split; [|exact Ht].
    apply in_map_iff in Hi. destruct Hi as (ir & <- & Hir). eapply HT; [left; reflexivity | exact Hir].
  - rewrite <- (send_worker_core _ _ _ _ H1). eapply IH; [exact H | intros tg l ir Hin Hir; eapply HT; [right; exact Hin | exact Hir]].
Qed.

Lemma on_retract_response_FB s w ids s' : on_retract_response s w ids = Ok s' -> FB (AC (core_of s') (fun x => In x ids)) s s'.
Proof.
  unfold on_retract_response. intros H. destruct (retract_response_states _ w ids []) as [c' groups] eqn:E.
  apply bind_ok in H. destruct H as (s2 & H & H2).
  assert (X2 : FB (AC c' (fun x => In x ids)) s s2).
  { eapply FB_trans; [apply (FB_core _ s c')|]. eapply (send_redirected_FB (fun x => In x ids) groups (st_core s c')); [exact H|].
    intros tg l ir Hin Hir. destruct (rrs_ids _ _ _ _ _ _ E tg l ir Hin Hir) as [X|(l0 & [] & _)]. exact X. }
  pose proof (send_redirected_core _ _ _ H) as Ec. cbn [core_of st_core with_core s_core fst] in Ec.
  destruct (retract_wakes _ _ _ _); inversion H2; subst s'; clear H2.
  - eapply FB_trans; [|apply FB_ask].
    replace (AC (core_of (ask_scheduling s2)) (fun x => In x ids)) with (AC c' (fun x => In x ids)); [exact X2|].
    change (core_of (ask_scheduling s2)) with (with_flag (core_of s2) true). cbn [core_of]. rewrite Ec. reflexivity.
  - cbn [core_of]. rewrite Ec. exact X2.
Qed.

Lemma send_mapping_FB m : forall s s', send_mapping s m = Ok s' -> FB (AC (core_of s) (fun _ => True)) s s'.
Proof.
  induction m as [|u r IH]; cbn [send_mapping]; intros s s' H; [inversion H; subst; apply FB_refl|].
  apply bind_ok in H. destruct H as (s1 & H1 & H). apply bind_ok in H. destruct H as (cts1 & Hc1 & H).
  apply bind_ok in H. destruct H as (cts2 & Hc2 & H). apply bind_ok in H. destruct H as (s2 & H2 & H).
  assert (E1 : core_of s1 = core_of s) by (destruct (wu_retracts u); [inversion H1; reflexivity | eapply send_worker_core; exact H1]).
  assert (E2 : core_of s2 = core_of s) by (rewrite <- E1; destruct (cts1 ++ cts2); [inversion H2; reflexivity | eapply send_worker_core; exact H2]).
  eapply FB_trans; [|rewrite <- E2; eapply IH; exact H].
  eapply FB_trans.
  - destruct (wu_retracts u); [inversion H1; subst; apply FB_refl | eapply FB_send; [exact H1 | exact I]].
  - destruct (cts1 ++ cts2) eqn:Ec; [inversion H2; subst; apply FB_refl|]. eapply FB_send; [exact H2|]. rewrite <- Ec.
    cbn [AC]. intros ct Hin. split; [exact I|]. rewrite E1 in Hc1, Hc2. apply in_app_iff in Hin.
    destruct Hin as [Hin|Hin]; [exact (proj2 (ctasks_prefill_spec _ _ _ Hc1 ct Hin)) | exact (proj2 (ctasks_of_spec _ _ _ Hc2 ct Hin))].
Qed.

Lemma send_mn_FB l : forall s s', send_mn s l = Ok s' -> FB (AC (core_of s) (fun _ => True)) s s'.
Proof.
  induction l as [|id r IH]; cbn [send_mn]; intros s s' H; [inversion H; subst; apply FB_refl|].
  apply bind_ok in H. destruct H as (t & Ht & H). destruct (t_state t); try discriminate. destruct ws; [discriminate|].
  apply bind_ok in H. destruct H as (s1 & H1 & H). apply get_task_find in Ht. destruct (find_task_some _ _ _ Ht) as [_ Hid].
  eapply FB_trans; [eapply FB_send; [exact H1|] | rewrite <- (send_worker_core _ _ _ _ H1); eapply IH; exact H].
  cbn [AC]. intros ct [<-|[]]. split; [exact I|]. cbn [ctask_of ct_id ct_inst]. rewrite Hid. eauto.
Qed.

Lemma run_scheduling_FB s sol s' : run_scheduling s sol = Ok s' -> FB (AC (core_of s') (fun _ => True)) s s'.
Proof.
  unfold run_scheduling. intros H. cbv zeta in H. destruct (negb (perm_of_set _ _)); [discriminate|].
  apply bind_ok in H. destruct H as ([c1 m1] & H1 & H).
  apply bind_ok in H. destruct H as ([c2 mn] & H2 & H).
  apply bind_ok in H. destruct H as ([c3 m3] & H3 & H).
  apply bind_ok in H. destruct H as (s1 & H4 & H).
  apply bind_ok in H. destruct H as (s2 & H5 & H). inversion H; subst.
  eapply FB_trans; [apply (FB_core _ s c3)|].
  eapply FB_trans; [eapply FB_any; exact (send_mapping_FB _ _ _ H4)|].
  eapply FB_trans; [eapply FB_any; exact (send_mn_FB _ _ _ H5)|]. apply FB_same; reflexivity.
Qed.

Lemma lost_retracting_FB l : forall s w s', CS (core_of s) ->
  lost_retracting s w l = Ok s' -> FB (AL (core_of s) (core_of s')) s s'.
Proof.
  induction l as [|id r IH]; cbn [lost_retracting]; intros s w s' Hs H; [inversion H; subst; apply FB_refl|].
  apply bind_ok in H. destruct H as (t & Ht & H). apply get_task_find in Ht.
  destruct (find_task_some _ _ _ Ht) as [Hin Hid].
  destruct (t_state t) as [n|w1 rv1|w1|w1|w1 rv1|wsx|] eqn:Est; try (eapply IH; eassumption).
  destruct (N.eqb w w1); [|eapply IH; eassumption]. cbv zeta in H.
  destruct (find_redirect (c_redirects (core_of s)) id) as [[target rv]|].
  - apply bind_ok in H. destruct H as (s1 & Hs1 & H).
    set (t' := with_state (with_inst t (t_inst t + 1)) (Assigned target rv)) in *.
    set (c0 := with_redirects (core_of s) (del_redirect (c_redirects (core_of s)) id)) in *.
    assert (Ec1 : core_of s1 = upd_task c0 t') by (rewrite (send_worker_core _ _ _ _ Hs1); reflexivity).
    assert (Hs' : CS (core_of s1)).
    { rewrite Ec1. eapply CS_keys; [|exact Hs]. apply (upd_task_frame c0 id t t'); [exact Hs | exact Ht | reflexivity | reflexivity]. }
    pose proof (IH _ _ _ Hs' H) as R2.
    pose proof (lost_retracting_TT NF NF _ _ _ _ H) as T2.
    assert (T1 : TT NF NF (core_of s) (core_of s1)).
    { rewrite Ec1. eapply (TT_set NF NF _ _ t' t); [reflexivity | exact Hin | reflexivity | cbn; lia | cbn; intros E; lia]. }
    eapply FB_trans; [apply (FB_core _ s (upd_task c0 t'))|]. eapply FB_trans.
    + eapply FB_send; [exact Hs1|]. cbn [AL]. intros ct [<-|[]]. cbn [ctask_of ct_id ct_inst t' t_id t_inst with_state with_inst]. split.
      * exists t. split; [exact Hin|]. split; [reflexivity | lia].
      * intros t2 Ht2 Et2. destruct (T2 t2 Ht2) as [(t1 & Ht1 & E1 & Le & _)|[]].
        rewrite Ec1 in Ht1. cbn [c_tasks upd_task with_tasks with_redirects c0] in Ht1.
        assert (t1 = t') by (eapply set_task_in_same; [exact (CS_sorted _ Hs) | exact Ht1 | cbn; congruence]). subst t1. cbn in Le. exact Le.
    + eapply FB_weaken; [|exact R2]. intros w0 m. apply AL_weaken; [exact T1 | apply TT_refl].
  - set (t' := with_state (with_inst t (t_inst t + 1)) (Waiting 0)) in *.
    assert (Hs' : CS (core_of (st_core s (upd_task (core_of s) t')))).
    { eapply CS_keys; [|exact Hs]. apply (upd_task_frame (core_of s) id t t'); [exact Hs | exact Ht | reflexivity | reflexivity]. }
    pose proof (IH _ _ _ Hs' H) as R2.
    assert (T1 : TT NF NF (core_of s) (core_of (st_core s (upd_task (core_of s) t')))).
    { eapply (TT_set NF NF _ _ t' t); [reflexivity | exact Hin | reflexivity | cbn; lia | cbn; intros E; lia]. }
    eapply FB_trans; [apply (FB_core _ s (upd_task (core_of s) t'))|].
    eapply FB_weaken; [|exact R2]. intros w0 m. apply AL_weaken; [exact T1 | apply TT_refl].
Qed.

Lemma process_worker_lost_FB A s w running reason s' : process_worker_lost s w running reason = Ok s' -> FB A s s'.
Proof.
  intros H. apply FB_job; [eapply process_worker_lost_CP; exact H | eapply process_worker_lost_LS; exact H|].
  unfold process_worker_lost in H. apply bind_ok in H. destruct H as (s1 & H1 & H). inversion H; subst.
  destruct (set_waiting_all_spec _ _ _ H1) as (_ & _ & Hc & _). intros x Hx. change (hq_of (emit s1 (OEv (EvWLost w reason)))) with (hq_of s1).
  eapply hq_chg_seen; eassumption.
Qed.

(** * Every operation of the server keeps the futures of the worker processes *)
Lemma same_body_fut p p' : same_body p p' -> p_futures p' = p_futures p /\ p_running p' = p_running p /\ p_backlog p' = p_backlog p /\ p_up p' = p_up p /\ p_id p' = p_id p.
Proof. unfold same_body. intros <-. cbn. auto. Qed.

Lemma on_remove_worker_FB s w reason a p t s' : NoPanicU1.psorted (s_procs (fst s)) -> CB s ->
  on_remove_worker s w reason a p t = Ok s' ->
  forall w' p', find_proc (s_procs (fst s')) w' = Some p' -> exists p0, find_proc (s_procs (fst s)) w' = Some p0 /\ same_body p0 p'.
Proof.
  intros Hps HC H. unfold on_remove_worker in H.
  destruct (find_worker (c_workers (core_of s)) w) as [wk|] eqn:Hw; [|discriminate].
  apply bind_ok in H. destruct H as ([[c2 running] retracted] & Hr & H).
  set (s0 := (with_procs (fst s) (del_proc (s_procs (fst s)) w), snd s) : st) in *.
  destruct (negb (perm_of_set t _)); [discriminate|].
  apply bind_ok in H. destruct H as (s3 & H3 & H). apply bind_ok in H. destruct H as (s4 & H4 & H).
  apply bind_ok in H. destruct H as (s6 & H6 & H). apply bind_ok in H. destruct H as (s7 & H7 & H). inversion H; subst s'. clear H.
  assert (Hs2 : CS c2).
  { assert (Hs0 : CS (with_workers (core_of s) (del_worker (c_workers (core_of s)) w))) by exact (cb_s _ HC).
    destruct (w_assign wk) as [sa sp sf|mt root] eqn:Ea.
    - destruct (negb _); [discriminate|]. apply bind_ok in Hr. destruct Hr as (c1 & Hp & Hr).
      pose proof (lost_prefilled_frame _ _ _ Hs0 Hp) as E1. eapply CS_keys; [|exact Hs0].
      rewrite (lost_assigned_frame _ _ _ _ _ _ _ (CS_keys _ _ E1 Hs0) Hr). exact E1.
    - apply bind_ok in Hr. destruct Hr as (tk & Ht & Hr). apply get_task_find in Ht.
      destruct (t_state tk) as [n|w1 rv1|w1|w1|w1 rv1|ws|] eqn:Est; try discriminate. destruct ws as [|w0 rest] eqn:Ews; [discriminate|].
      destruct (N.eqb w w0) eqn:Ew0.
      + apply bind_ok in Hr. destruct Hr as (c1 & Hc1 & Hr). apply bind_ok in Hr. destruct Hr as ([qs ret] & ?X & Hr). inversion Hr; subst c2 running retracted.
        pose proof (reset_mn_all_tasks _ _ _ Hc1) as T1. pose proof (reset_mn_all_frame _ _ _ Hc1) as E1.
        eapply CS_keys; [|exact Hs0]. change (keys (upd_task c1 (with_inst (with_state tk (Waiting 0)) (t_inst tk + 1))) = keys (with_workers (core_of s) (del_worker (c_workers (core_of s)) w))).
        transitivity (keys c1); [|exact E1]. apply (upd_task_frame c1 mt tk); [eapply CS_keys; [exact E1 | exact Hs0] | rewrite T1; exact Ht | reflexivity | reflexivity].
      + inversion Hr; subst c2 running retracted. eapply CS_keys; [|exact Hs0]. apply (upd_task_frame _ mt tk); [exact Hs0 | exact Ht | reflexivity | reflexivity]. }
  assert (Rall : FB quietA (st_core s0 c2) (ask_scheduling s7)).
  { eapply FB_trans; [eapply FB_any; exact (lost_retracting_FB _ (st_core s0 c2) _ _ Hs2 H3)|].
    eapply FB_trans; [eapply process_retracted_FB; [|exact H4]; intros w0 m Hm; exact Hm|].
    eapply FB_trans; [apply (FB_broadcast quietA s4 (DLostWorker w)); intros w0; exact I|].
    eapply FB_trans; [eapply process_worker_lost_FB; exact H6|].
    eapply FB_trans; [eapply lost_fail_running_FB; [|exact H7]; intros w0 m Hm; exact Hm | apply FB_ask]. }
  intros w' p' Hp'. destruct (Rall w' p' Hp') as (p0 & Hp0 & Hb). cbn [st_core fst with_core s_procs s0 with_procs] in Hp0.
  rewrite find_del_proc in Hp0 by exact Hps. destruct (N.eqb w' w); [discriminate|]. eauto.
Qed.

Theorem step_body s o s' outs :
  match o with OpConnect _ _ | OpDDown _ _ | OpEnd _ _ _ | OpFailNext _ _ | OpTimer => False | _ => True end ->
  INV s -> PROTO s -> step s o = Ok (s', outs) ->
  forall w p', find_proc (s_procs s') w = Some p' ->
    exists p, find_proc (s_procs s) w = Some p /\ p_futures p' = p_futures p /\ p_running p' = p_running p /\ p_backlog p' = p_backlog p /\ p_id p' = p_id p /\
              (forall m, In m (p_up p') -> In m (p_up p)).
Proof.
  intros Ho HI HP H w p' Hp'. pose proof H as H0.
  assert (Hfb : forall A s1 o1, FB A (s1, o1) (s', outs) ->
            (forall w1 p1, find_proc (s_procs s1) w1 = Some p1 -> exists p, find_proc (s_procs s) w1 = Some p /\ p_futures p1 = p_futures p /\ p_running p1 = p_running p /\ p_backlog p1 = p_backlog p /\ p_id p1 = p_id p /\ (forall m, In m (p_up p1) -> In m (p_up p))) ->
            exists p, find_proc (s_procs s) w = Some p /\ p_futures p' = p_futures p /\ p_running p' = p_running p /\ p_backlog p' = p_backlog p /\ p_id p' = p_id p /\ (forall m, In m (p_up p') -> In m (p_up p))).
  { intros A s1 o1 HF Hpop. destruct (HF w p' Hp') as (p1 & Hp1 & Hb). cbn [fst] in Hp1. destruct (same_body_fut _ _ Hb) as (E1 & E2 & E3 & E4 & E5).
    destruct (Hpop w p1 Hp1) as (p & Hp & F1 & F2 & F3 & F4 & F5). exists p. split; [exact Hp|]. repeat split; try congruence. intros m Hm. apply F5. rewrite <- E4. exact Hm. }
  assert (Hsame : forall w1 p1, find_proc (s_procs s) w1 = Some p1 -> exists p, find_proc (s_procs s) w1 = Some p /\ p_futures p1 = p_futures p /\ p_running p1 = p_running p /\ p_backlog p1 = p_backlog p /\ p_id p1 = p_id p /\ (forall m, In m (p_up p1) -> In m (p_up p))).
  { intros w1 p1 H1. exists p1. repeat split; auto. }
  destruct o; try destruct Ho; cbn [step] in H0.
  - (* lost *) destruct (find_proc (s_procs s) w0) as [pw|]; [|discriminate].
    destruct (on_remove_worker_FB (s, []) _ _ _ _ _ (s', outs) (pr_sorted _ HP) (inv_cb _ HI) H0 w p' Hp') as (p0 & Hp0 & Hb). cbn [fst] in Hp0.
    destruct (same_body_fut _ _ Hb) as (E1 & E2 & E3 & E4 & E5). exists p0. split; [exact Hp0|]. repeat split; try assumption. intros m Hm. rewrite <- E4. exact Hm.
  - apply (Hfb quietA s []); [|exact Hsame]. destruct (bad_submit_lengths _ _); [inversion H0; subst; apply FB_same; reflexivity|]. eapply handle_submit_array_FB; [|exact H0]; intros w0 m Hm; exact Hm.
  - apply (Hfb quietA s []); [|exact Hsame]. destruct (bad_graph_rq _ _); [inversion H0; subst; apply FB_same; reflexivity|]. destruct (dead_dep _ _ _); [inversion H0; subst; apply FB_same; reflexivity|]. eapply handle_submit_graph_FB; [|exact H0]. intros w0 m Hm; exact Hm.
  - apply (Hfb quietA s []); [eapply handle_open_FB; exact H0 | exact Hsame].
  - apply (Hfb quietA s []); [eapply handle_close_FB; exact H0 | exact Hsame].
  - apply (Hfb quietA s []); [eapply handle_cancel_FB; [|exact H0]; intros w0 m Hm; exact Hm | exact Hsame].
  - apply (Hfb quietA s []); [eapply handle_forget_FB; exact H0 | exact Hsame].
  - (* dup *) destruct (find_proc (s_procs s) w0) as [p|] eqn:Hp; [|discriminate]. destruct (p_up p) as [|m rest] eqn:Eu; [discriminate|].
    set (s1 := with_procs s (set_proc (s_procs s) (wp_up p rest))) in *.
    assert (Hpop : forall w1 p1, find_proc (s_procs s1) w1 = Some p1 -> exists p0, find_proc (s_procs s) w1 = Some p0 /\ p_futures p1 = p_futures p0 /\ p_running p1 = p_running p0 /\ p_backlog p1 = p_backlog p0 /\ p_id p1 = p_id p0 /\ (forall m0, In m0 (p_up p1) -> In m0 (p_up p0))).
    { intros w1 p1 H1. cbn [s1 s_procs with_procs] in H1. rewrite find_set_proc in H1. cbn [wp_up wp_upd p_id] in H1.
      destruct (NoPanicL0.find_proc_some _ _ _ Hp) as [_ Hid]. rewrite Hid in H1.
      destruct (N.eqb w1 w0) eqn:E; [|exists p1; repeat split; auto]. apply N.eqb_eq in E. subst w1. inversion H1; subst p1. exists p.
      split; [exact Hp|]. cbn. repeat split; auto. intros m0 Hm0. rewrite Eu. right. exact Hm0. }
    pose proof (SP_pop s w0 p m rest [OUp w0 m] HP (INV_UH _ HI) Hp Eu) as S1. fold s1 in S1.
    destruct m as [us|ids].
    + apply (Hfb quietA s1 [OUp w0 (UUpdates us)]); [eapply on_task_update_FB; [intros w1 m Hm; exact Hm | exact S1 | exact H0] | exact Hpop].
    + eapply (Hfb _ s1 [OUp w0 (URetractResponse ids)]); [exact (on_retract_response_FB _ _ _ _ H0) | exact Hpop].
  - destruct (c_flag (s_core s)); [|discriminate]. eapply (Hfb _ s []); [exact (run_scheduling_FB _ _ _ H0) | exact Hsame].
  - (* prune *) apply bind_ok in H0. destruct H0 as (lj & _ & H0). inversion H0; subst. exists p'. repeat split; auto.
Qed.
