(** Bridge, part 6: the client handlers, one step of the system, whole histories. *)
From HQ Require Import Base.Prelude Cluster.Types Cluster.Core Cluster.Reactor Cluster.Worker Cluster.Server Cluster.Sys Cluster.ProofsJob Cluster.ProofsMore Cluster.ProofsStep Cluster.ProofsOnce Cluster.DepOrderBase Cluster.SilentBase.
From HQ Require Journal.Event Journal.Restore Journal.Gen Journal.Maps Journal.RestoreProofs.
From HQ Require Import Cluster.Bridge Cluster.BridgeRel Cluster.BridgeEv Cluster.BridgeJob Cluster.BridgeReact Cluster.BridgeSub.
From Coq Require Import ZArith Lia.
Require Import ZifyBool ZifyN ZifyNat.
Local Open Scope N_scope.
Arguments N.add : simpl never.
Arguments N.sub : simpl never.
Arguments N.ltb : simpl never.
Arguments N.eqb : simpl never.

(** * The common tail of both submit handlers *)
Lemma submit_tail_sim specs s s3 s4 jid closed n ids' j j' tasks s6 s' jt0 mf :
  HOK (hq_of s) ->
  hq_of s4 = hq_of s3 -> snd s4 = snd s ++ [OEv (EvSubmit jid closed n)] ->
  hq_get_job s4 jid 222 = Ok j -> attach_ids j ids' = Ok j' ->
  on_new_tasks (hq_set_job s4 j') tasks = Ok s6 -> submit_ok_resp s6 jid = Ok s' ->
  List.map Event.ts_id specs = ids' ->
  (closed = true -> jid = h_counter (hq_of s) /\ h_counter (hq_of s3) = jid + 1 /\ jt0 = [] /\
     (forall id, find_job (h_jobs (hq_of s3)) id =
                 if N.eqb id jid then Some (mkJob jid false [] 0 0 0 0 0 false mf) else find_job (h_jobs (hq_of s)) id)) ->
  (closed = false -> hq_of s3 = hq_of s /\ exists jb, find_job (h_jobs (hq_of s)) jid = Some jb /\ j_open jb = true /\ jt0 = j_tasks jb) ->
  (forall (m : Event.map Gen.GTask),
      (forall d, Event.mem d m = match jt_find jt0 d with Some _ => true | None => false end) ->
      NoDup ids' -> (forall i, In i ids' -> Event.mem i m = false) -> Restore.validate m specs = true) ->
  SimF specs s s'.
Proof.
  intros H E43 S4 Hg Ha Hn Hr Hids Hnew Hold Hval.
  destruct (hq_get_job_find _ _ _ _ Hg) as (Hfj & Hid). rewrite E43 in Hfj.
  destruct (attach_ids_spec _ _ _ Ha) as (Hnd & Hfresh & Hjt & A1 & A2 & A3).
  pose proof (on_new_tasks_hq _ _ _ Hn) as Q6. pose proof (on_new_tasks_snd _ _ _ Hn) as P6.
  unfold submit_ok_resp in Hr. inv_bind Hr. inversion Hb0; subst s'. clear Hb0.
  eexists. split.
  { unfold emit. cbn [snd fst]. rewrite P6. unfold hq_set_job. cbn [snd]. rewrite S4, <- app_assoc. reflexivity. }
  unfold jevents_of_outs. cbn [flat_map jout jev app]. rewrite emit_hq, Q6.
  assert (Hf' : forall id, find_job (h_jobs (hq_of (hq_set_job s4 j'))) id = if N.eqb id jid then Some j' else find_job (h_jobs (hq_of s3)) id).
  { intros id. destruct (UPD_set s4 j') as [Hu _]. rewrite Hu, A1, Hid, E43. reflexivity. }
  assert (Hcn' : h_counter (hq_of (hq_set_job s4 j')) = h_counter (hq_of s3)) by (destruct (UPD_set s4 j') as [_ Hu]; rewrite Hu, E43; reflexivity).
  assert (Hj0 : j_tasks j = jt0 /\ j_completed j = false).
  { destruct closed.
    - destruct (Hnew eq_refl) as (_ & _ & -> & Hf3). rewrite Hf3, N.eqb_refl in Hfj. inversion Hfj; subst j. split; reflexivity.
    - destruct (Hold eq_refl) as (E3 & jb & Hfb & Hob & ->). rewrite E3, Hfb in Hfj. inversion Hfj; subst j. split; [reflexivity|].
      apply open_not_completed; [apply H; eapply find_job_in; exact Hfb | exact Hob]. }
  destruct Hj0 as [Hjt0 Hc0].
  eapply ev_submit with (jt0 := jt0) (jb' := j').
  - intros ->. destruct (Hnew eq_refl) as (E1 & E2 & E3 & Hf3). rewrite Hf3, N.eqb_refl in Hfj. inversion Hfj; subst j.
    split; [exact E1|]. split; [exact E3|]. split; [rewrite A2; reflexivity|]. rewrite Hcn', E2, E1. reflexivity.
  - intros ->. destruct (Hold eq_refl) as (E3 & jb & Hfb & Hob & E0). exists jb. rewrite E3, Hfb in Hfj. inversion Hfj; subst j.
    split; [exact Hfb|]. split; [apply H; eapply find_job_in; exact Hfb|]. split; [exact Hob|]. split; [exact E0|].
    split; [congruence|]. rewrite Hcn', E3. reflexivity.
  - intros id. rewrite Hf'. destruct (N.eqb id jid) eqn:E; [reflexivity|]. destruct closed.
    + destruct (Hnew eq_refl) as (_ & _ & _ & Hf3). rewrite Hf3, E. reflexivity.
    + destruct (Hold eq_refl) as (E3 & _). rewrite E3. reflexivity.
  - congruence.
  - intros t. rewrite Hjt, Hids, Hjt0. reflexivity.
  - intros m Hm. apply Hval; [exact Hm | exact Hnd|]. intros i Hi. rewrite Hm, <- Hjt0, (Hfresh i Hi). reflexivity.
Qed.

Lemma snd_if_hq_with (b : bool) X Y Z : snd (if b then hq_with X Y Z else X) = snd X.
Proof. destruct b; reflexivity. Qed.

(** * [handle_submit_array] *)
Lemma handle_submit_array_sim s jobsel ids entries rq prio cl tlim mf s' :
  HOK (hq_of s) -> handle_submit_array s jobsel ids entries rq prio cl tlim mf = Ok s' ->
  SimF (List.map (fun i => Event.mkTS i (jcrash cl) []) (array_ids (fst s) jobsel ids entries)) s s'.
Proof.
  intros H Hc. unfold handle_submit_array in Hc.
  match type of Hc with (match ?x with Some _ => _ | None => _ end) = _ => destruct x end;
    [inversion Hc; subst; apply SimF_emit_quiet; reflexivity|].
  apply bind_ok in Hc. destruct Hc as ([acc s1] & Hr & Hc).
  destruct acc as [[[jid is_new] ids']|].
  - cbv zeta in Hc.
    match type of Hc with context [get_or_create_rq ?sx rq] => set (s3 := sx) in *; destruct (get_or_create_rq s3 rq) as [s4 rqi] eqn:Erq end.
    pose proof (get_or_create_rq_snd s3 rq) as S4. rewrite Erq in S4. cbn [fst] in S4.
    pose proof (get_or_create_rq_keeps _ _ _ _ Erq) as E4.
    inv_binds Hc.
    destruct jobsel as [j0|].
    + destruct (find_job (hq_jobs s) j0) as [j|] eqn:Ef; [|inversion Hr].
      destruct (negb (j_open j)) eqn:Eo; [inversion Hr|]. inversion Hr; subst jid is_new ids' s1. clear Hr.
      apply Bool.negb_false_iff in Eo.
      eapply (submit_tail_sim _ s s3 s4 j0 false _ _ _ _ _ _ _ (j_tasks j) mf H E4);
        [rewrite S4; reflexivity | eassumption | eassumption | eassumption | eassumption | | discriminate | |].
      * rewrite map_map. cbn [Event.ts_id]. rewrite map_id. unfold array_ids. change (h_jobs (s_hq (fst s))) with (hq_jobs s). rewrite Ef.
        destruct ids; reflexivity.
      * intros _. split; [reflexivity|]. exists j. split; [exact Ef|]. split; [exact Eo | reflexivity].
      * intros m _ Hnd Hfr. apply validate_array; unfold array_ids; change (h_jobs (s_hq (fst s))) with (hq_jobs s); rewrite Ef;
          destruct ids; assumption.
    + inversion Hr; subst jid is_new ids' s1. clear Hr.
      eapply (submit_tail_sim _ s s3 s4 (hq_counter s) true _ _ _ _ _ _ _ [] mf H E4);
        [rewrite S4; reflexivity | eassumption | eassumption | eassumption | eassumption | | | discriminate |].
      * rewrite map_map. cbn [Event.ts_id]. rewrite map_id. unfold array_ids. destruct ids; reflexivity.
      * intros _. split; [reflexivity|]. split; [reflexivity|]. split; [reflexivity|].
        intros id. subst s3. unfold hq_of, hq_with, hq_jobs, hq_counter, emit. cbn. rewrite find_job_set'. reflexivity.
      * intros m _ Hnd Hfr. apply validate_array; unfold array_ids; destruct ids; assumption.
  - assert (S1 : SimF (List.map (fun i => Event.mkTS i (jcrash cl) []) (array_ids (fst s) jobsel ids entries)) s s1).
    { destruct jobsel as [jid|]; [|inversion Hr].
      destruct (find_job (hq_jobs s) jid) as [j|]; [|inversion Hr; subst; apply SimF_refl].
      destruct (negb (j_open j)); inversion Hr; subst; apply SimF_emit_quiet; reflexivity. }
    eapply SimF_trans; [exact S1|].
    destruct jobsel; [match type of Hc with (match ?x with Some _ => _ | None => _ end) = _ => destruct x end|];
      inversion Hc; subst; try apply SimF_refl; apply SimF_emit_quiet; reflexivity.
Qed.

(** * [handle_submit_graph] *)
Lemma validate_graph_specs (m : Event.map Gen.GTask) jt ts :
  (forall d, Event.mem d m = match jt_find jt d with Some _ => true | None => false end) ->
  Server.validate_graph jt [] ts = None ->
  (forall i, In i (List.map gt_id ts) -> Event.mem i m = false) ->
  Restore.validate m (List.map spec_of_gtask ts) = true.
Proof.
  intros Hm Hv Hfr. unfold Restore.validate. apply andb_true_intro. split; [|eapply validate_graph_sys; eassumption].
  apply forallb_forall. intros x Hx. apply in_map_iff in Hx. destruct Hx as (g & <- & Hg). cbn [spec_of_gtask Event.ts_id].
  rewrite Hfr; [reflexivity|]. apply in_map. exact Hg.
Qed.

Lemma handle_submit_graph_sim s jobsel rqs ts mf s' :
  HOK (hq_of s) -> handle_submit_graph s jobsel rqs ts mf = Ok s' -> SimF (List.map spec_of_gtask ts) s s'.
Proof.
  intros H Hc. unfold handle_submit_graph in Hc. cbv zeta in Hc.
  apply bind_ok in Hc. destruct Hc as (v1 & Hv1 & Hc).
  match type of Hc with (match ?x with Some _ => _ | None => _ end) = _ => destruct x eqn:Ev end;
    [inversion Hc; subst; apply SimF_emit_quiet; reflexivity|].
  assert (Hvg : Server.validate_graph (match (match jobsel with Some j => find_job (hq_jobs s) j | None => None end) with Some j => j_tasks j | None => [] end) [] ts = None)
    by (destruct v1; [discriminate | exact Ev]).
  apply bind_ok in Hc. destruct Hc as ([acc s1] & Hr & Hc).
  destruct acc as [[jid is_new]|].
  - match type of Hc with context [fold_left ?f rqs (?sx, [])] => set (s3 := sx) in *; destruct (fold_left f rqs (s3, [])) as [s4 rqis] eqn:Erq end.
    pose proof (fold_rqs_same _ _ _ _ _ Erq) as E4. pose proof (fold_rqs_snd _ _ _ _ _ Erq) as S4.
    inv_binds Hc.
    assert (Hids : List.map Event.ts_id (List.map spec_of_gtask ts) = List.map gt_id ts) by (rewrite map_map; reflexivity).
    destruct jobsel as [j0|].
    + destruct (find_job (hq_jobs s) j0) as [j|] eqn:Ef; [|inversion Hr].
      destruct (negb (j_open j)) eqn:Eo; [inversion Hr|]. inversion Hr; subst jid is_new s1. clear Hr.
      apply Bool.negb_false_iff in Eo.
      eapply (submit_tail_sim _ s s3 s4 j0 false _ _ _ _ _ _ _ (j_tasks j) mf H E4);
        [rewrite S4; reflexivity | eassumption | eassumption | eassumption | eassumption | exact Hids | discriminate | |].
      * intros _. split; [reflexivity|]. exists j. split; [exact Ef|]. split; [exact Eo | reflexivity].
      * intros m Hm _ Hfr. eapply validate_graph_specs; eassumption.
    + inversion Hr; subst jid is_new s1. clear Hr.
      eapply (submit_tail_sim _ s s3 s4 (hq_counter s) true _ _ _ _ _ _ _ [] mf H E4);
        [rewrite S4; reflexivity | eassumption | eassumption | eassumption | eassumption | exact Hids | | discriminate |].
      * intros _. split; [reflexivity|]. split; [reflexivity|]. split; [reflexivity|].
        intros id. subst s3. unfold hq_of, hq_with, hq_jobs, hq_counter, emit. cbn. rewrite find_job_set'. reflexivity.
      * intros m Hm _ Hfr. eapply validate_graph_specs; eassumption.
  - assert (S1 : SimF (List.map spec_of_gtask ts) s s1).
    { destruct jobsel as [jid|]; [|inversion Hr].
      destruct (find_job (hq_jobs s) jid) as [j|]; [|inversion Hr; subst; apply SimF_emit_quiet; reflexivity].
      destruct (negb (j_open j)); inversion Hr; subst; apply SimF_emit_quiet; reflexivity. }
    inversion Hc; subst. exact S1.
Qed.

(** * [handle_open], [handle_close], [handle_cancel], [handle_forget] *)
Lemma handle_open_sim specs s mf s' : handle_open s mf = Ok s' -> SimF specs s s'.
Proof.
  intros Hc. unfold handle_open in Hc. inversion Hc; subst s'. clear Hc.
  eexists. split; [unfold emit, hq_with; cbn [snd fst]; rewrite <- app_assoc; reflexivity|].
  unfold jevents_of_outs. cbn [flat_map jout jev app]. rewrite !emit_hq.
  change (hq_counter s) with (h_counter (hq_of s)).
  apply ev_open_new with (mf := mf).
  - intros id. unfold hq_of, hq_with, hq_jobs. cbn. apply find_job_set'.
  - reflexivity.
Qed.

Lemma handle_close_sim specs s jid s' : HOK (hq_of s) -> handle_close s jid = Ok s' -> SimF specs s s'.
Proof.
  intros H Hc. unfold handle_close in Hc.
  destruct (find_job (hq_jobs s) jid) as [j|] eqn:Ef; [|inversion Hc; subst; apply SimF_emit_quiet; reflexivity].
  destruct (j_open j) eqn:Eo; [|inversion Hc; subst; apply SimF_emit_quiet; reflexivity].
  inv_bind Hc. inversion Hb0; subst s'. clear Hb0.
  pose proof (find_job_jid _ _ _ Ef) as Hid. assert (Hok : JOK j) by (apply H; eapply find_job_in; exact Ef).
  pose proof (open_not_completed _ Hok Eo) as Hc0.
  match type of Hb with context [hq_set_job s ?j'] => set (jb' := j') in Hb end.
  assert (Hok' : JOK jb').
  { destruct Hok as [Ss R F X C A Cm]. subst jb'. constructor; cbn; auto. rewrite Hc0. discriminate. }
  eapply SimF_trans; [|eapply SimF_trans; [eapply check_termination_sim; [|exact Hb]|apply SimF_emit_quiet; reflexivity]].
  - eapply SimF_step; [reflexivity|]. cbn [jout jev]. rewrite emit_hq. rewrite <- Hid.
    pose proof (UPD_set s jb') as HU. change (j_id jb') with (j_id j) in HU.
    eapply ev_close; [exact Hok | rewrite Hid; exact Ef | exact Eo | exact HU | reflexivity | reflexivity | reflexivity].
  - intros j1 Hj1. rewrite emit_hq in Hj1. destruct (UPD_set s jb') as [Hu _]. rewrite Hu in Hj1. change (j_id jb') with (j_id j) in Hj1.
    rewrite Hid, N.eqb_refl in Hj1. inversion Hj1; subst j1. split; [exact Hok' | exact Hc0].
Qed.

Lemma handle_cancel_sim specs s jid s' : HOK (hq_of s) -> handle_cancel s jid = Ok s' -> SimF specs s s'.
Proof.
  intros H Hc. unfold handle_cancel in Hc.
  destruct (find_job (hq_jobs s) jid) as [j|] eqn:Ef; [|inversion Hc; subst; apply SimF_emit_quiet; reflexivity].
  destruct (non_finished_task_ids j) as [|i0 ir] eqn:En; [inversion Hc; subst; apply SimF_emit_quiet; reflexivity|].
  inv_binds Hc. inversion Hc; subst s'.
  match goal with X : on_cancel_tasks _ _ = Ok ?s1, Y : set_cancel_state ?s1 _ _ = Ok ?s2 |- _ =>
    eapply (SimF_trans _ s s1); [apply SimF_same; [eapply on_cancel_tasks_hq; exact X | eapply on_cancel_tasks_snd; exact X]|];
    eapply (SimF_trans _ s1 s2); [eapply set_cancel_state_sim; [rewrite (on_cancel_tasks_hq _ _ _ X); exact H | exact Y]|] end.
  apply SimF_emit_quiet. reflexivity.
Qed.

Lemma find_job_del' js id k : find_job (del_job js id) k = if N.eqb k id then None else find_job js k.
Proof.
  unfold del_job. induction js as [|h r IH]; cbn [filter find_job]; [destruct (N.eqb k id); reflexivity|].
  destruct (N.eqb id (j_id h)) eqn:E1; cbn [negb find_job].
  - rewrite IH. apply N.eqb_eq in E1. subst id. destruct (N.eqb k (j_id h)); reflexivity.
  - rewrite IH. destruct (N.eqb k (j_id h)) eqn:E2; [|reflexivity].
    apply N.eqb_eq in E2. subst k. rewrite N.eqb_sym, E1. reflexivity.
Qed.

Lemma handle_forget_sim specs s jid s' : HOK (hq_of s) -> handle_forget s jid = Ok s' -> SimF specs s s'.
Proof.
  intros H Hc. unfold handle_forget in Hc.
  destruct (find_job (hq_jobs s) jid) as [j|] eqn:Ef; [|inversion Hc; subst; apply SimF_emit_quiet; reflexivity].
  assert (Hok : JOK j) by (apply H; eapply find_job_in; exact Ef).
  rewrite (has_no_active_ok _ Hok) in Hc. cbn [bind] in Hc.
  destruct (negb (j_open j) && _) eqn:E; [|inversion Hc; subst; apply SimF_emit_quiet; reflexivity].
  inversion Hc; subst s'. clear Hc.
  apply (SimF_step specs s _ (OResp (RForget 1 0))); [reflexivity|]. cbn [jout]. rewrite emit_hq.
  intros g [HJ HM]. cbn [lrun]. split; [|exact HM].
  intros id. unfold hq_of, hq_with, hq_jobs. cbn [fst s_hq with_hq h_jobs]. rewrite find_job_del'.
  destruct (N.eqb id jid) eqn:Ei; [|exact (HJ id)]. apply N.eqb_eq in Ei. subst id.
  specialize (HJ jid). change (h_jobs (hq_of s)) with (hq_jobs s) in HJ. rewrite Ef in HJ.
  destruct (j_completed j); [rewrite HJ; exact I|]. destruct HJ as (gj & Hl & HR). rewrite Hl.
  apply andb_prop in E. destruct E as [E1 E2]. apply Bool.negb_true_iff in E1. apply andb_prop in E2. destruct E2 as [E2 E3].
  eapply JRel_terminated; [exact HR | exact E1 | lia | lia].
Qed.

(** * One step *)
Theorem step_sim s o s' outs :
  HOK (s_hq s) -> step s o = Ok (s', outs) -> SimF (submit_specs s o) (s, []) (s', outs).
Proof.
  intros H Hc. change (HOK (hq_of (s, @nil out))) in H.
  destruct o; cbn [step] in Hc.
  - unfold on_new_worker in Hc. inversion Hc; subst. clear Hc.
    eexists. split; [cbn [snd app]; reflexivity|]. unfold jevents_of_outs. cbn [flat_map jout jev app]. apply ev_wconn.
  - destruct (find_proc _ w); [|discriminate]. eapply on_remove_worker_sim; eassumption.
  - destruct (bad_submit_lengths _ _); [inversion Hc; subst; apply (SimF_emit_quiet _ (s', []) (OResp (RSubmitErr 6 0))); reflexivity|].
    eapply handle_submit_array_sim; eassumption.
  - destruct (bad_graph_rq _ _); [inversion Hc; subst; apply (SimF_emit_quiet _ (s', []) (OResp _)); reflexivity|].
    destruct (dead_dep _ _ _); [inversion Hc; subst; apply (SimF_emit_quiet _ (s', []) (OResp _)); reflexivity|].
    eapply handle_submit_graph_sim; eassumption.
  - eapply handle_open_sim; eassumption.
  - eapply handle_close_sim; eassumption.
  - eapply handle_cancel_sim; eassumption.
  - eapply handle_forget_sim; eassumption.
  - destruct (find_proc _ w) as [p|]; [|discriminate]. destruct (p_down p); [discriminate|].
    inv_binds Hc. inversion Hc; subst.
    eexists. split; [cbn [snd app]; reflexivity|]. unfold jevents_of_outs. cbn [flat_map jout app].
    rewrite flat_map_concat_map, map_map. cbn [jout]. 
    replace (concat (List.map (fun _ : launch => []) _)) with (@nil Event.Event) by (clear; induction l0; cbn; auto).
    apply SimE_nil.
  - destruct (find_proc _ w) as [p|]; [|discriminate]. destruct (p_up p) as [|m rest]; [discriminate|].
    destruct m.
    + match type of Hc with on_task_update ?s1 _ _ = _ => assert (S0 : SimF (submit_specs s (OpDUp w)) (s, []) s1) by (apply (SimF_step _ (s, []) s1 (OUp w (UUpdates us))); [reflexivity | apply SimE_nil]) end.
      eapply SimF_trans; [exact S0|]. eapply on_task_update_sim; [|exact Hc]. exact H.
    + match type of Hc with on_retract_response ?s1 _ _ = _ => assert (S0 : SimF (submit_specs s (OpDUp w)) (s, []) s1) by (apply (SimF_step _ (s, []) s1 (OUp w (URetractResponse ids))); [reflexivity | apply SimE_nil]) end.
      eapply SimF_trans; [exact S0|]. apply SimF_same; [eapply on_retract_response_same; exact Hc|].
      unfold on_retract_response in Hc. destruct (retract_response_states _ w ids []) as [c' groups].
      apply bind_ok in Hc. destruct Hc as (s2 & Hc & H2).
      match goal with |- snd ?r = _ => assert (Es : snd r = snd s2) by (destruct (retract_wakes _ _ _ _); inversion H2; subst; reflexivity) end.
      rewrite Es, (send_redirected_snd _ _ _ Hc). reflexivity.
  - destruct (c_flag (s_core s)); [|discriminate].
    apply SimF_same; [eapply run_scheduling_same; exact Hc | eapply run_scheduling_snd; exact Hc].
  - destruct (find_proc _ w) as [p|]; [|discriminate]. inv_binds Hc. inversion Hc; subst.
    eexists. split; [cbn [snd app]; reflexivity|]. unfold jevents_of_outs.
    rewrite flat_map_concat_map, map_map. cbn [jout].
    match goal with |- SimE _ (concat (List.map _ ?l)) _ => replace (concat (List.map (fun _ : launch => []) l)) with (@nil Event.Event) by (clear; induction l; cbn; auto) end.
    apply SimE_nil.
  - destruct (find_proc _ w) as [p|]; [|discriminate]. inversion Hc; subst. apply SimF_same; reflexivity.
  - inversion Hc; subst. apply SimF_same; reflexivity.
  - inv_binds Hc. inversion Hc; subst. apply (SimF_emit_quiet _ (s', []) (OPrune _ _)). reflexivity.
Qed.
