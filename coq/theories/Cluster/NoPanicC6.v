(** C09 for client requests, part 6: witnesses.  (1) A task graph whose task names a request index
    outside the request list of the message reaches sites 223 / 224 of [handle_submit_graph] (= the
    assertion / the index in the real [validate_submit] / [build_tasks_graph]: finding F27, the real
    server panicked); since the repair the request is refused before that.  The hypothesis [op_ok]
    on arrays cannot be dropped in the model: a duplicate explicit id reaches site 220 (the real
    [IntArray] is a set, no message contains one).  (2) The
    theorem is not vacuous: a reachable state with assigned and prefilled tasks satisfies all its
    hypotheses, and the cancel request is processed there. *)
From HQ Require Import Base.Prelude Cluster.Types Cluster.Core Cluster.Reactor Cluster.Worker Cluster.Server Cluster.Sys Cluster.Monitors Cluster.RejHyp Cluster.BijFinal Cluster.InvProcsDef Cluster.InvBundle Cluster.NoPanicC1 Cluster.NoPanicC5.
From Coq Require Import ZArith.
Local Open Scope N_scope.

Definition rq1 : rqdef := mkRq 0 [1; 0; 0].

(** A graph task with local request index 0 and an empty request list: new job. *)
Example malformed_graph_panics_new_job :
  handle_submit_graph (init_sys 0 2, []) None [] [(0, 0, 0%Z, CUnl, [])] None = Panic 224 /\
  step (init_sys 0 2) (OpSubmitG None [] [(0, 0, 0%Z, CUnl, [])] None) = Ok (init_sys 0 2, [OResp (RSubmitErr 5 0)]).
Proof. split; vm_compute; reflexivity. Qed.

(** ... into an open job: the assertion of [validate_submit]. *)
Example malformed_graph_panics_open_job :
  exists s outs, run (init_sys 0 2) [OpOpen None] = Ok (s, outs) /\
    handle_submit_graph (s, []) (Some 1) [] [(0, 0, 0%Z, CUnl, [])] None = Panic 223 /\
    step s (OpSubmitG (Some 1) [] [(0, 0, 0%Z, CUnl, [])] None) = Ok (s, [OResp (RSubmitErr 5 0)]).
Proof. eexists. eexists. split; [|split]; vm_compute; reflexivity. Qed.

(** A duplicate explicit id. *)
Example duplicate_id_panics :
  step (init_sys 0 2) (OpSubmit None [3; 3] (Some 2) rq1 0%Z CUnl false None) = Panic 220.
Proof. vm_compute. reflexivity. Qed.

(** A worker, three tasks, a scheduling round that assigns two of them and prefills the third. *)
Definition pre_ops : list op :=
  [OpConnect [4; 0; 0] 0;
   OpSubmit None [] (Some 3) rq1 0%Z CUnl false None;
   OpSched (mkSol [(0, 0, [(1, 2)])] [] [1] [])].

Lemma cancel_applies s : INV s -> PW s -> MNE (s_core s) -> RWA (s_core s) ->
  INV s /\ PW s /\ MNE (s_core s) /\ RWA (s_core s) /\ (exists r, step s (OpCancel 1) = Ok r).
Proof.
  intros HI HP HM HR. split; [exact HI|]. split; [exact HP|]. split; [exact HM|]. split; [exact HR|].
  apply client_requests_total; [exact HI | exact HP | split; [exact HM | exact HR] | exact I | exact I].
Qed.

Example client_theorem_applies :
  exists s outs, run (init_sys 0 2) pre_ops = Ok (s, outs) /\
    map t_state (c_tasks (s_core s)) = [Assigned 1 0; Assigned 1 0; Prefilled 1] /\
    INV s /\ PW s /\ MNE (s_core s) /\ RWA (s_core s) /\
    (exists r, step s (OpCancel 1) = Ok r).
Proof.
  destruct (run (init_sys 0 2) pre_ops) as [[s outs]| |] eqn:E; [|vm_compute in E; discriminate | vm_compute in E; discriminate].
  exists s, outs. split; [reflexivity|].
  assert (HI : INV s).
  { eapply (reachable_INV pre_ops 0 2 s outs); [repeat constructor | vm_compute; reflexivity | exact E]. }
  vm_compute in E. inversion E; subst s outs; clear E.
  split; [reflexivity|]. apply cancel_applies.
  - exact HI.
  - reflexivity.
  - intros t Hin. cbn in Hin. destruct Hin as [<-|[<-|[<-|[]]]]; discriminate.
  - intros t w Hin Hst. cbn in Hin. destruct Hin as [<-|[<-|[<-|[]]]]; discriminate.
Qed.
