(** C09 for the scheduling step, part 2: the frame relation [SF] (what a piece of the scheduling
    round may change), the bookkeeping predicates for tasks taken from a queue ([PT]) and for the
    mapping under construction ([MOK]), and the primitive updates. *)
From HQ Require Import Base.Prelude Cluster.Types Cluster.Core Cluster.Reactor Cluster.Worker Cluster.Server Cluster.Sys Cluster.ProofsJob Cluster.ProofsMore Cluster.ProofsStep Cluster.BijBase Cluster.BijCore Cluster.InvWBase Cluster.InvWView Cluster.InvWCore Cluster.InvQBase Cluster.InvQTake Cluster.InvQInv Cluster.NoPanicS1.
From Coq Require Import ZArith Lia Sorting.Sorted.
Local Open Scope N_scope.

Arguments N.add : simpl never.
Arguments N.sub : simpl never.

(** Worker [w] exists and is in single-node mode. *)
Definition snw (c : core) (w : wid) : Prop :=
  exists wk a p f, find_worker (c_workers c) w = Some wk /\ w_assign wk = Sn a p f.
Definition SNP (c c' : core) : Prop := forall y, snw c y -> snw c' y.

Lemma SNP_refl c : SNP c c.
Proof. intros y H. exact H. Qed.
Lemma SNP_trans c c1 c2 : SNP c c1 -> SNP c1 c2 -> SNP c c2.
Proof. intros A B y H. apply B, A, H. Qed.
Lemma SNP_same c c' : c_workers c' = c_workers c -> SNP c c'.
Proof. intros E y H. unfold snw. rewrite E. exact H. Qed.
Lemma SNP_upd_worker c w wk wk' a p f :
  find_worker (c_workers c) w = Some wk -> w_id wk' = w -> w_assign wk' = Sn a p f -> SNP c (upd_worker c wk').
Proof.
  intros Hw Hi Ea y (wy & a0 & p0 & f0 & Hy & Ey). unfold snw. cbn [c_workers upd_worker with_workers].
  rewrite find_set_worker, Hi. destruct (N.eqb y w); [exists wk', a, p, f; auto | exists wy, a0, p0, f0; auto].
Qed.

Lemma with_state_same t : with_state t (t_state t) = t.
Proof. destruct t; reflexivity. Qed.

(** * The frame relation
    [T]: ids of the tasks that may change (only their state), [W]: the workers that may receive
    work (a FREE worker outside [W] stays as it is), [Q]: indices of the queues that may change. *)
Record SF (T : tid -> Prop) (W : wid -> Prop) (Q : nat -> Prop) (c c' : core) : Prop := mkSF {
  sf_rqs : c_rqs c' = c_rqs c;
  sf_res : c_reserve c' = c_reserve c;
  sf_max : c_maxfill c' = c_maxfill c;
  sf_qlen : length (c_queues c') = length (c_queues c);
  sf_q : forall i, ~ Q i -> nth_error (c_queues c') i = nth_error (c_queues c) i;
  sf_tst : forall y t, find_task (c_tasks c) y = Some t -> exists st, find_task (c_tasks c') y = Some (with_state t st);
  sf_tnone : forall y, find_task (c_tasks c) y = None -> find_task (c_tasks c') y = None;
  sf_t : forall y, ~ T y -> find_task (c_tasks c') y = find_task (c_tasks c) y;
  sf_r : forall y, ~ T y -> find_redirect (c_redirects c') y = find_redirect (c_redirects c) y;
  sf_wnone : forall y, find_worker (c_workers c) y = None -> find_worker (c_workers c') y = None;
  sf_wsome : forall y, find_worker (c_workers c) y <> None -> find_worker (c_workers c') y <> None;
  sf_free : forall y wk, ~ W y -> find_worker (c_workers c) y = Some wk -> worker_is_free wk = true ->
            find_worker (c_workers c') y = Some wk
}.

Lemma SF_refl T W Q c : SF T W Q c c.
Proof.
  constructor; auto. intros y t H. exists (t_state t). rewrite with_state_same. exact H.
Qed.

Lemma SF_trans T W Q c c1 c2 : SF T W Q c c1 -> SF T W Q c1 c2 -> SF T W Q c c2.
Proof.
  intros A B. constructor.
  - rewrite (sf_rqs _ _ _ _ _ B). apply A.
  - rewrite (sf_res _ _ _ _ _ B). apply A.
  - rewrite (sf_max _ _ _ _ _ B). apply A.
  - rewrite (sf_qlen _ _ _ _ _ B). apply A.
  - intros i Hi. rewrite (sf_q _ _ _ _ _ B i Hi). apply A. exact Hi.
  - intros y t H. destruct (sf_tst _ _ _ _ _ A y t H) as (s1 & H1). destruct (sf_tst _ _ _ _ _ B y _ H1) as (s2 & H2).
    exists s2. exact H2.
  - intros y H. apply (sf_tnone _ _ _ _ _ B). apply (sf_tnone _ _ _ _ _ A). exact H.
  - intros y Hy. rewrite (sf_t _ _ _ _ _ B y Hy). apply A. exact Hy.
  - intros y Hy. rewrite (sf_r _ _ _ _ _ B y Hy). apply A. exact Hy.
  - intros y H. apply (sf_wnone _ _ _ _ _ B). apply (sf_wnone _ _ _ _ _ A). exact H.
  - intros y H. apply (sf_wsome _ _ _ _ _ B). apply (sf_wsome _ _ _ _ _ A). exact H.
  - intros y wk Hy H F. apply (sf_free _ _ _ _ _ B y wk Hy); [|exact F]. apply (sf_free _ _ _ _ _ A y wk Hy); assumption.
Qed.

Lemma SF_weaken (T T' : tid -> Prop) (W W' : wid -> Prop) (Q Q' : nat -> Prop) c c' :
  (forall y, T y -> T' y) -> (forall y, W y -> W' y) -> (forall i, Q i -> Q' i) -> SF T W Q c c' -> SF T' W' Q' c c'.
Proof.
  intros HT HW HQ A. constructor; try apply A.
  - intros i Hi. apply A. intros X. apply Hi, HQ, X.
  - intros y Hy. apply A. intros X. apply Hy, HT, X.
  - intros y Hy. apply A. intros X. apply Hy, HT, X.
  - intros y wk Hy. apply A. intros X. apply Hy, HW, X.
Qed.

(** What follows from a frame. *)
Lemma SF_find_back T W Q c c' y t' : SF T W Q c c' -> find_task (c_tasks c') y = Some t' ->
  exists t, find_task (c_tasks c) y = Some t /\ t' = with_state t (t_state t').
Proof.
  intros A H. destruct (find_task (c_tasks c) y) as [t|] eqn:E.
  - destruct (sf_tst _ _ _ _ _ A y t E) as (st & H1). rewrite H in H1. inversion H1; subst. exists t. split; reflexivity.
  - rewrite (sf_tnone _ _ _ _ _ A y E) in H. discriminate.
Qed.
Lemma SF_task_some T W Q c c' y : SF T W Q c c' -> find_task (c_tasks c) y <> None -> find_task (c_tasks c') y <> None.
Proof.
  intros A H. destruct (find_task (c_tasks c) y) as [t|] eqn:E; [|congruence].
  destruct (sf_tst _ _ _ _ _ A y t E) as (st & H1). congruence.
Qed.

(** * Primitive updates *)
Lemma SF_upd_worker T (W : wid -> Prop) Q c w wk wk' :
  find_worker (c_workers c) w = Some wk -> w_id wk' = w -> (W w \/ worker_is_free wk = false) -> SF T W Q c (upd_worker c wk').
Proof.
  intros Hw Hi Hf. constructor; cbn [c_rqs c_reserve c_maxfill c_queues c_tasks c_redirects c_workers upd_worker with_workers]; auto.
  - intros y t H. exists (t_state t). rewrite with_state_same. exact H.
  - intros y H. rewrite find_set_worker, Hi. destruct (N.eqb y w) eqn:E; [apply N.eqb_eq in E; subst y; congruence | exact H].
  - intros y H. rewrite find_set_worker, Hi. destruct (N.eqb y w); [discriminate | exact H].
  - intros y wk0 Hy H F. rewrite find_set_worker, Hi. destruct (N.eqb y w) eqn:E; [|exact H].
    apply N.eqb_eq in E. subst y. exfalso. destruct Hf as [Hf|Hf]; [exact (Hy Hf)|]. rewrite Hw in H. inversion H; subst. congruence.
Qed.

Lemma SF_upd_task (T : tid -> Prop) W Q c id t st :
  find_task (c_tasks c) id = Some t -> T id -> SF T W Q c (upd_task c (with_state t st)).
Proof.
  intros Ht HT. destruct (find_task_some _ _ _ Ht) as [_ Hid].
  constructor; cbn [c_rqs c_reserve c_maxfill c_queues c_tasks c_redirects c_workers upd_task with_tasks]; auto.
  - intros y t0 H. rewrite find_set_task. cbn [t_id with_state]. rewrite Hid. destruct (tid_eqb y id) eqn:E.
    + apply tid_eqb_eq in E. subst y. rewrite Ht in H. inversion H; subst. exists st. reflexivity.
    + exists (t_state t0). rewrite with_state_same. exact H.
  - intros y H. rewrite find_set_task. cbn [t_id with_state]. rewrite Hid. destruct (tid_eqb y id) eqn:E; [|exact H].
    apply tid_eqb_eq in E. subst y. congruence.
  - intros y Hy. rewrite find_set_task. cbn [t_id with_state]. rewrite Hid. destruct (tid_eqb y id) eqn:E; [|reflexivity].
    apply tid_eqb_eq in E. subst y. contradiction.
Qed.

Lemma SF_set_redirect (T : tid -> Prop) W Q c id x :
  T id -> SF T W Q c (with_redirects c (set_redirect (c_redirects c) id x)).
Proof.
  intros HT. constructor; cbn [c_rqs c_reserve c_maxfill c_queues c_tasks c_redirects c_workers with_redirects]; auto.
  - intros y t H. exists (t_state t). rewrite with_state_same. exact H.
  - intros y Hy. rewrite find_set_redirect. destruct (tid_eqb y id) eqn:E; [|reflexivity].
    apply tid_eqb_eq in E. subst y. contradiction.
Qed.

Lemma SF_set_queue T W (Q : nat -> Prop) c i q :
  Q i -> SF T W Q c (with_queues c (set_queue (c_queues c) i q)).
Proof.
  intros HQ. constructor; cbn [c_rqs c_reserve c_maxfill c_queues c_tasks c_redirects c_workers with_queues]; auto.
  - apply set_queue_length.
  - intros j Hj. apply nth_set_queue_other. intros ->. contradiction.
  - intros y t H. exists (t_state t). rewrite with_state_same. exact H.
Qed.

(** * Tasks taken from queue [i] that still wait for their worker *)
Definition takeable (c : core) (t : task) : Prop :=
  match t_state t with
  | Waiting _ | Prefilled _ => True
  | Retracting _ => find_redirect (c_redirects c) (t_id t) = None
  | _ => False
  end.
Definition PT (c : core) (i : nat) (l : list tid) : Prop :=
  forall id, In id l -> exists t, find_task (c_tasks c) id = Some t /\ takeable c t /\ N.to_nat (t_rq t) = i.

Lemma PT_SF (T : tid -> Prop) W Q c c' i l : SF T W Q c c' -> (forall y, In y l -> ~ T y) -> PT c i l -> PT c' i l.
Proof.
  intros A Hd H id Hin. destruct (H id Hin) as (t & Ht & Hk & Hr). exists t.
  split; [rewrite (sf_t _ _ _ _ _ A id (Hd id Hin)); exact Ht|]. split; [|exact Hr].
  unfold takeable in *. destruct (t_state t); auto. destruct (find_task_some _ _ _ Ht) as [_ Hid]. rewrite Hid in *.
  rewrite (sf_r _ _ _ _ _ A id (Hd id Hin)). exact Hk.
Qed.
Lemma PT_incl c i l l' : (forall y, In y l' -> In y l) -> PT c i l -> PT c i l'.
Proof. intros Hs H id Hin. apply H, Hs, Hin. Qed.

(** * The mapping under construction names existing workers and tasks *)
Definition MOK (c : core) (m : list wupd) : Prop :=
  forall u, In u m ->
    find_worker (c_workers c) (wu_w u) <> None /\
    (forall a, In a (wu_assigned u) -> find_task (c_tasks c) (fst a) <> None) /\
    (forall id, In id (wu_prefills u) -> find_task (c_tasks c) id <> None).

Lemma MOK_nil c : MOK c [].
Proof. intros u []. Qed.

Lemma MOK_SF T W Q c c' m : SF T W Q c c' -> MOK c m -> MOK c' m.
Proof.
  intros A H u Hu. destruct (H u Hu) as (H1 & H2 & H3). split; [apply (sf_wsome _ _ _ _ _ A); exact H1|].
  split; intros x Hx; eapply SF_task_some; eauto.
Qed.

Lemma wu_set_in m x u : In u (wu_set m x) -> u = x \/ In u m.
Proof.
  induction m as [|h t IH]; cbn [wu_set In]; [intros [H|[]]; auto|].
  destruct (N.eqb (wu_w x) (wu_w h)); cbn [In]; [intros [H|H]; auto|].
  intros [H|H]; [auto|]. destruct (IH H); auto.
Qed.

Lemma wu_get_spec c m w : MOK c m ->
  wu_w (wu_get m w) = w /\
  (forall a, In a (wu_assigned (wu_get m w)) -> find_task (c_tasks c) (fst a) <> None) /\
  (forall id, In id (wu_prefills (wu_get m w)) -> find_task (c_tasks c) id <> None).
Proof.
  induction m as [|h t IH]; cbn [wu_get]; intros H.
  - cbn. split; [reflexivity|]. split; intros x [].
  - destruct (N.eqb w (wu_w h)) eqn:E.
    + apply N.eqb_eq in E. destruct (H h (or_introl eq_refl)) as (_ & H2 & H3). auto.
    + apply IH. intros u Hu. apply H. right. exact Hu.
Qed.

Lemma MOK_set c m x : MOK c m -> find_worker (c_workers c) (wu_w x) <> None ->
  (forall a, In a (wu_assigned x) -> find_task (c_tasks c) (fst a) <> None) ->
  (forall id, In id (wu_prefills x) -> find_task (c_tasks c) id <> None) -> MOK c (wu_set m x).
Proof.
  intros H H1 H2 H3 u Hu. destruct (wu_set_in _ _ _ Hu) as [->|Hin]; [auto | apply H; exact Hin].
Qed.
