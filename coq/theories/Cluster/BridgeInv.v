(** Bridge, part 7: whole histories.

    MAIN RESULT ([sys_journal_first_reject], every history of the system model, no hypothesis):
    run the journal machine [Gen.gstep] over the journal a history writes.  Either every record is
    accepted and the final [G] is related to the final job layer by [RelJ], or the FIRST rejected
    record is a TaskStarted / TaskFinished / WorkerConnected / WorkerLost record.  In other words
    every check of [gstep] on submit, open, close, completed, cancel, failed, canceled and aborted
    records (job and task existence, open flag, validate_submit, "job terminated", "job active",
    non-terminal target states, id high-water mark of jobs) is PROVED to pass on the journals of the
    system model.  The remaining checks (a start hits a waiting task, its workers are connected,
    instance ids increase, a finish hits a running task, worker ids increase, a lost worker is
    connected) depend on the tako core; they are the executable hypothesis [core_records_accepted]
    of [sys_journal_producible_partial] (true on every history evaluated, see [BridgeCor]).
    The full statement is [sys_journal_producible_full]. *)
From HQ Require Import Base.Prelude Cluster.Types Cluster.Core Cluster.Reactor Cluster.Worker Cluster.Server Cluster.Sys Cluster.ProofsJob Cluster.ProofsMore Cluster.ProofsStep.
From HQ Require Journal.Event Journal.Restore Journal.Gen Journal.Maps Journal.RestoreProofs.
From HQ Require Import Cluster.Bridge Cluster.BridgeRel Cluster.BridgeEv Cluster.BridgeJob Cluster.BridgeReact Cluster.BridgeSub Cluster.BridgeStep.
From Coq Require Import ZArith Lia.
Local Open Scope N_scope.

(** [jrun] and [Sys.run] agree: same final state, and the journal is the per-step translation of
    the outputs. *)
Fixpoint jevents_of_run (s : sys) (ops : list op) : list Event.Event :=
  match ops with
  | [] => []
  | o :: r => match step s o with
              | Ok (s1, o1) => jevents_of_step s o o1 ++ jevents_of_run s1 r
              | _ => []
              end
  end.

Lemma jrun_run ops : forall s s' evs, jrun s ops = Ok (s', evs) ->
  exists outs, run s ops = Ok (s', outs) /\ evs = jevents_of_run s ops.
Proof.
  induction ops as [|o r IH]; cbn [jrun run jevents_of_run]; intros s s' evs H.
  - inversion H; subst. eexists; split; reflexivity.
  - apply bind_ok in H. destruct H as ([s1 o1] & H1 & H). apply bind_ok in H. destruct H as ([s2 e2] & H2 & H). inversion H; subst.
    destruct (IH _ _ _ H2) as (outs & Hr & He). rewrite H1. cbn [bind]. rewrite Hr. cbn [bind]. eexists. split; [reflexivity|]. rewrite He. reflexivity.
Qed.

Lemma run_jrun ops : forall s s' outs, run s ops = Ok (s', outs) -> jrun s ops = Ok (s', jevents_of_run s ops).
Proof.
  induction ops as [|o r IH]; cbn [jrun run jevents_of_run]; intros s s' outs H.
  - inversion H; subst. reflexivity.
  - apply bind_ok in H. destruct H as ([s1 o1] & H1 & H). apply bind_ok in H. destruct H as ([s2 o2] & H2 & H). inversion H; subst.
    rewrite H1. cbn [bind]. rewrite (IH _ _ _ H2). reflexivity.
Qed.

Lemma jrun_sim ops : forall s s' evs, HOK (s_hq s) -> jrun s ops = Ok (s', evs) -> SimE (s_hq s) evs (s_hq s').
Proof.
  induction ops as [|o r IH]; cbn [jrun]; intros s s' evs H Hc.
  - inversion Hc; subst. apply SimE_nil.
  - apply bind_ok in Hc. destruct Hc as ([s1 o1] & H1 & Hc). apply bind_ok in Hc. destruct Hc as ([s2 e2] & H2 & Hc). inversion Hc; subst.
    destruct (step_sim _ _ _ _ H H1) as (ext & He & HS). cbn [snd app] in He. subst ext.
    eapply SimE_app; [exact HS|]. eapply IH; [|exact H2]. eapply step_hq_ok; eassumption.
Qed.

Lemma HOK_init reserve maxfill : HOK (s_hq (init_sys reserve maxfill)).
Proof. intros j []. Qed.

Lemma RelJ_init reserve maxfill u :
  exists g1, Gen.gstep Gen.g0 (Event.EServerStart u) = Some g1 /\ RelJ (s_hq (init_sys reserve maxfill)) g1.
Proof. eexists. split; [reflexivity|]. split; [intros j; exact I | reflexivity]. Qed.

(** * The main theorem *)
Theorem sys_journal_first_reject : forall ops reserve maxfill u s evs,
  jrun (init_sys reserve maxfill) ops = Ok (s, evs) ->
  match lrun Gen.g0 (journal_of u evs) with
  | LOk g => RelJ (s_hq s) g
  | LCore => True
  | LBad => False
  end.
Proof.
  intros ops reserve maxfill u s evs H.
  destruct (RelJ_init reserve maxfill u) as (g1 & Hg & HR).
  unfold journal_of. cbn [lrun]. unfold lstep. rewrite Hg.
  exact (jrun_sim _ _ _ _ (HOK_init reserve maxfill) H g1 HR).
Qed.

(** The first rejected record, if any, is a start / finish / worker record (unfolded). *)
Corollary sys_journal_reject_is_core : forall ops reserve maxfill u s evs pre e post g,
  jrun (init_sys reserve maxfill) ops = Ok (s, evs) ->
  journal_of u evs = pre ++ e :: post -> Gen.grun Gen.g0 pre = Some g -> Gen.gstep g e = None ->
  core_event e = true.
Proof.
  intros ops reserve maxfill u s evs pre e post g H E Hp He.
  pose proof (sys_journal_first_reject _ _ _ u _ _ H) as HM. rewrite E, lrun_app in HM.
  apply lrun_grun in Hp. rewrite Hp in HM. cbn [lrun] in HM. unfold lstep in HM. rewrite He in HM.
  destruct (core_event e); [reflexivity | contradiction].
Qed.

(** The executable hypothesis: no start / finish / worker record is rejected. *)
Definition core_records_accepted (u : N) (evs : list Event.Event) : bool :=
  match lrun Gen.g0 (journal_of u evs) with LCore => false | _ => true end.

(** The job-layer part of the bridge relation. *)
Definition bridge_rel_job (s : sys) (g : Gen.G) : Prop := RelJ (s_hq s) g.

Theorem sys_journal_producible_partial : forall ops reserve maxfill u s evs,
  jrun (init_sys reserve maxfill) ops = Ok (s, evs) ->
  core_records_accepted u evs = true ->
  exists g, Gen.grun Gen.g0 (journal_of u evs) = Some g /\ bridge_rel_job s g.
Proof.
  intros ops reserve maxfill u s evs H Hc.
  pose proof (sys_journal_first_reject _ _ _ u _ _ H) as HM. unfold core_records_accepted in Hc.
  destruct (lrun Gen.g0 (journal_of u evs)) as [g| |] eqn:E; [|discriminate | contradiction].
  exists g. split; [apply lrun_grun; exact E | exact HM].
Qed.

(** * The full statement (NOT proved: the start / worker checks need the link to the tako core) *)

(** Executable full relation: job layer exact (waiting / running distinguished), connected
    workers, id counters, and per task of the core: running on the root of the last start with
    its instance id, or waiting with a larger instance id. *)
Definition st_exact_b (v : jstate) (x : Gen.gstate) : bool :=
  match v, x with
  | JW, Gen.GWaiting | JR, Gen.GRunning | JF, Gen.GFinished | JX, Gen.GFailed | JC, Gen.GCanceled | JA, Gen.GAborted => true
  | _, _ => false
  end.
Definition job_exact_b (jb : job) (gj : Gen.GJob) : bool :=
  Bool.eqb (j_open jb) (Gen.gj_open gj)
  && N.eqb (N.of_nat (length (j_tasks jb))) (N.of_nat (length (Gen.gj_tasks gj)))
  && forallb (fun kv => match Event.lookup (fst kv) (Gen.gj_tasks gj) with
                        | Some x => st_exact_b (snd kv) (Gen.gt_state x) | None => false end) (j_tasks jb).
Definition jobs_exact_b (s : sys) (g : Gen.G) : bool :=
  forallb (fun jb => match Event.lookup (j_id jb) (Gen.g_jobs g) with
                     | Some gj => negb (j_completed jb) && job_exact_b jb gj
                     | None => j_completed jb end) (h_jobs (s_hq s))
  && forallb (fun kv => match find_job (h_jobs (s_hq s)) (fst kv) with
                        | Some jb => negb (j_completed jb)
                        | None => Gen.job_terminated (snd kv) end) (Gen.g_jobs g).
Definition workers_exact_b (s : sys) (g : Gen.G) : bool :=
  forallb (fun w => Event.memN (w_id w) (Gen.g_workers g)) (c_workers (s_core s))
  && forallb (fun w => match find_worker (c_workers (s_core s)) w with Some _ => true | None => false end) (Gen.g_workers g).
Definition ids_exact_b (s : sys) (g : Gen.G) : bool :=
  N.eqb (Gen.g_max_job g + 1) (h_counter (s_hq s)) && N.eqb (Gen.g_max_worker g) (c_wcounter (s_core s)).
Definition gtask_of (g : Gen.G) (t : tid) : option Gen.GTask :=
  match Event.lookup (fst t) (Gen.g_jobs g) with
  | Some gj => Event.lookup (snd t) (Gen.gj_tasks gj)
  | None => None
  end.
Definition core_run_b (ct : task) (x : Gen.GTask) : bool :=
  match t_state ct with
  | Running w _ =>
      st_exact_b JR (Gen.gt_state x) && match Gen.gt_ws x with r :: _ => N.eqb r w | [] => false end
      && match Gen.gt_last x with Some l => N.eqb l (t_inst ct) | None => false end
  | RunningMN (w :: _) =>
      match Gen.gt_state x with
      | Gen.GRunning => match Gen.gt_ws x with r :: _ => N.eqb r w | [] => false end
                        && match Gen.gt_last x with Some l => N.eqb l (t_inst ct) | None => false end
      | Gen.GWaiting => Gen.inst_ok (Gen.gt_last x) (t_inst ct)
      | _ => false
      end
  | _ => st_exact_b JW (Gen.gt_state x) && Gen.inst_ok (Gen.gt_last x) (t_inst ct)
  end.
Definition core_exact_b (s : sys) (g : Gen.G) : bool :=
  forallb (fun ct => match gtask_of g (t_id ct) with Some x => core_run_b ct x | None => false end) (c_tasks (s_core s)).
Definition crash_exact_b (s : sys) (g : Gen.G) : bool :=
  forallb (fun ct => match gtask_of g (t_id ct) with Some x => N.eqb (t_crash ct) (Gen.gt_crash x) | None => false end) (c_tasks (s_core s)).

Definition bridge_ok (s : sys) (g : Gen.G) : bool :=
  jobs_exact_b s g && workers_exact_b s g && ids_exact_b s g && core_exact_b s g.

(** OPEN: true on every history evaluated ([BridgeCor]), not proved. *)
Definition sys_journal_producible_full : Prop := forall ops reserve maxfill u s evs,
  jrun (init_sys reserve maxfill) ops = Ok (s, evs) ->
  exists g, Gen.grun Gen.g0 (journal_of u evs) = Some g /\ bridge_ok s g = true.

(** The crash-counter clause of the intended [bridge_rel] ("crash counter of a task in the core =
    [gt_crash]") is FALSE for a multi-node task whose root worker is lost before its start was
    reported: see [BridgeCor.crash_link_refuted]. *)
Definition crash_link_full : Prop := forall ops reserve maxfill u s evs g,
  jrun (init_sys reserve maxfill) ops = Ok (s, evs) -> Gen.grun Gen.g0 (journal_of u evs) = Some g -> crash_exact_b s g = true.

Print Assumptions sys_journal_first_reject.
Print Assumptions sys_journal_producible_partial.
