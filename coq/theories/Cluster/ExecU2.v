(** C06 "instance ids strictly increase", part 2: what the server's functions do to the tasks.
    Relation [TT T N c c'] (technique of InvWX1.v): every task of [c'] is a task of [c] with the same
    id, an instance id that did not decrease and - if it did not grow - a state that is [Waiting]
    only if it was [Waiting] before or the task is in the trigger set [T] (the ids a worker gives
    back in the message being processed); or it is a new task (set [N]).
    This file: the reactor. *)
From HQ Require Import Base.Prelude Cluster.Types Cluster.Core Cluster.Reactor Cluster.Worker Cluster.Server Cluster.Sys Cluster.ProofsJob Cluster.ProofsMore Cluster.ProofsStep Cluster.BijBase Cluster.BijCore Cluster.BijHq Cluster.BijSt Cluster.BijReact Cluster.InvWBase Cluster.InvWX1.
From Coq Require Import ZArith Lia Sorting.Sorted.
Local Open Scope N_scope.

Arguments N.add : simpl never.
Arguments N.sub : simpl never.

Definition TT (T N : tid -> Prop) (c c' : core) : Prop :=
  forall t', In t' (c_tasks c') ->
    (exists t, In t (c_tasks c) /\ t_id t = t_id t' /\ t_inst t <= t_inst t' /\
       (t_inst t' = t_inst t -> is_waiting t' = true -> is_waiting t = true \/ T (t_id t')))
    \/ N (t_id t').

Section Blocks.
Variables T N : tid -> Prop.

Lemma TT_refl c : TT T N c c.
Proof. intros t Hin. left. exists t. repeat split; auto. lia. Qed.

Lemma TT_trans c1 c2 c3 : TT T N c1 c2 -> TT T N c2 c3 -> TT T N c1 c3.
Proof.
  intros A B t3 H3. destruct (B t3 H3) as [(t2 & H2 & Ei & Le & W)|Hn]; [|right; exact Hn].
  destruct (A t2 H2) as [(t1 & H1 & Ei1 & Le1 & W1)|Hn]; [|right; rewrite <- Ei; exact Hn].
  left. exists t1. split; [exact H1|]. split; [congruence|]. split; [lia|].
  intros E Hw. assert (E2 : t_inst t3 = t_inst t2) by lia. assert (E1 : t_inst t2 = t_inst t1) by lia.
  destruct (W E2 Hw) as [Hw2|Ht]; [|right; exact Ht]. destruct (W1 E1 Hw2) as [Hw1|Ht]; [left; exact Hw1 | right; rewrite <- Ei; exact Ht].
Qed.

Lemma TT_tasks c c' : c_tasks c' = c_tasks c -> TT T N c c'.
Proof. intros E t H. left. exists t. rewrite <- E. repeat split; auto. lia. Qed.

Lemma TT_set c c' x t : c_tasks c' = set_task (c_tasks c) x -> In t (c_tasks c) -> t_id x = t_id t -> t_inst t <= t_inst x ->
  (t_inst x = t_inst t -> is_waiting x = true -> is_waiting t = true \/ T (t_id x)) -> TT T N c c'.
Proof.
  intros E Hin Ei Le W t' H. rewrite E in H. destruct (set_task_in _ _ _ H) as [->|Hin'].
  - left. exists t. auto.
  - left. exists t'. repeat split; auto. lia.
Qed.

Lemma TT_new c c' x : c_tasks c' = set_task (c_tasks c) x -> N (t_id x) -> TT T N c c'.
Proof.
  intros E Hn t' H. rewrite E in H. destruct (set_task_in _ _ _ H) as [->|Hin']; [right; exact Hn|].
  left. exists t'. repeat split; auto. lia.
Qed.

(** the tasks of [c'] are tasks of [c] up to consumers / dependencies *)
Lemma TT_sub c c' : (forall t', In t' (c_tasks c') -> exists t, In t (c_tasks c) /\ t_id t = t_id t' /\ t_state t = t_state t' /\ t_inst t = t_inst t') -> TT T N c c'.
Proof.
  intros H t' Hin. destruct (H t' Hin) as (t & H1 & Ei & Es & En). left. exists t. split; [exact H1|]. split; [exact Ei|]. split; [lia|].
  intros _ Hw. left. unfold is_waiting in *. rewrite Es. exact Hw.
Qed.
End Blocks.

Lemma TT_weaken (T N T' N' : tid -> Prop) c c' : (forall x, T x -> T' x) -> (forall x, N x -> N' x) -> TT T N c c' -> TT T' N' c c'.
Proof.
  intros HT HN H t' Hin. destruct (H t' Hin) as [(t & H1 & Ei & Le & W)|Hn]; [|right; auto].
  left. exists t. repeat split; auto. intros E Hw. destruct (W E Hw); auto.
Qed.

(** One task replaced; the old one is found among the hypotheses. *)
Ltac tt_pre := repeat match goal with H : get_task _ _ = Ok _ |- _ => apply get_task_find in H end.
Ltac tt_set :=
  tt_pre;
  match goal with
  | H : find_task _ _ = Some ?t |- TT _ _ _ _ =>
      solve [ eapply (TT_set _ _ _ _ _ t);
              [ reflexivity | exact (find_in _ _ _ H) | reflexivity
              | cbn [t_inst with_state with_inst with_crash with_consumers with_deps]; lia
              | cbn [t_inst t_state t_id is_waiting with_state with_inst with_crash with_consumers with_deps]; intros;
                first [ discriminate | lia | left; assumption | left; unfold is_waiting; match goal with E : t_state _ = _ |- _ => rewrite E; reflexivity end | auto ] ] ]
  end.

Section Pass.
Variables T N : tid -> Prop.
Notation TT_refl := (TT_refl T N).
Notation TT_trans := (TT_trans T N).
Notation TT_tasks := (TT_tasks T N).
(** * Reactor *)
Lemma retract_states_TT ids : forall c acc c' acc', retract_states c ids acc = Ok (c', acc') -> TT T N c c'.
Proof.
  induction ids as [|id r IH]; cbn [retract_states]; intros c acc c' acc' H; [inversion H; subst; apply TT_refl|].
  apply bind_ok in H. destruct H as (t & Ht & H).
  destruct (t_state t) eqn:Est; try discriminate.
  apply bind_ok in H. destruct H as (wk & Hw & H). apply bind_ok in H. destruct H as (wk' & ?X & H).
  eapply TT_trans; [|eapply IH; exact H].
  tt_set.
Qed.

Lemma process_retracted_TT s r s' : process_retracted s r = Ok s' -> TT T N (core_of s) (core_of s').
Proof.
  unfold process_retracted. intros H. destruct r; [inversion H; subst; apply TT_refl|].
  apply bind_ok in H. destruct H as ([c' groups] & H1 & H). rewrite (send_all_core _ _ _ H).
  eapply retract_states_TT; exact H1.
Qed.

Lemma try_remove_redirection_TT c t c' : try_remove_redirection c t = Ok c' -> TT T N c c'.
Proof.
  unfold try_remove_redirection. destruct (find_redirect _ _) as [[w rv]|]; intros H; inv_binds H; inversion H; subst;
    (apply TT_tasks; reflexivity).
Qed.

Lemma reset_mn_workers_TT ws : forall c id c', reset_mn_workers c ws id = Ok c' -> TT T N c c'.
Proof.
  induction ws as [|w r IH]; cbn [reset_mn_workers]; intros c id c' H; [inversion H; subst; apply TT_refl|].
  apply bind_ok in H. destruct H as (wk & ?X & H). destruct (w_assign wk); [discriminate|].
  destruct (tid_eqb t id); [|discriminate]. eapply TT_trans; [|eapply IH; exact H]. apply TT_tasks; reflexivity.
Qed.

Lemma reset_mn_all_TT ws : forall c c', reset_mn_all c ws = Ok c' -> TT T N c c'.
Proof.
  induction ws as [|w r IH]; cbn [reset_mn_all]; intros c c' H; [inversion H; subst; apply TT_refl|].
  apply bind_ok in H. destruct H as (wk & ?X & H). eapply TT_trans; [|eapply IH; exact H]. apply TT_tasks; reflexivity.
Qed.

Lemma cancel_release_TT ids : forall s tu ru s' tu' ru', cancel_release s ids tu ru = Ok (s', tu', ru') -> TT T N (core_of s) (core_of s').
Proof.
  induction ids as [|id r IH]; cbn [cancel_release]; intros s tu ru s' tu' ru' H; [inversion H; subst; apply TT_refl|].
  destruct (find_task (c_tasks (core_of s)) id) as [t|]; [|eapply IH; exact H].
  apply bind_ok in H. destruct H as (csm & ?X & H). apply bind_ok in H. destruct H as (rq & ?X & H).
  destruct (t_state t).
  - eapply TT_trans; [|eapply IH; exact H]. apply TT_tasks; reflexivity.
  - inv_binds H. eapply TT_trans; [|eapply IH; exact H]. apply TT_tasks; reflexivity.
  - inv_binds H. eapply TT_trans; [|eapply IH; exact H]. apply TT_tasks; reflexivity.
  - apply bind_ok in H. destruct H as (c' & Hc' & H). eapply TT_trans; [|eapply IH; exact H].
    eapply TT_trans; [eapply try_remove_redirection_TT; exact Hc'|]. apply TT_tasks; reflexivity.
  - inv_binds H. eapply TT_trans; [|eapply IH; exact H]. apply TT_tasks; reflexivity.
  - apply bind_ok in H. destruct H as (c' & Hc' & H). destruct ws; [discriminate|]. eapply TT_trans; [|eapply IH; exact H].
    eapply TT_trans; [eapply reset_mn_all_TT; exact Hc'|]. apply TT_tasks; reflexivity.
  - discriminate.
Qed.

Lemma remove_consumer_from_T2 deps : forall ts cid ts', remove_consumer_from ts deps cid = Ok ts' ->
  forall t', In t' ts' -> exists t, In t ts /\ t_id t = t_id t' /\ t_state t = t_state t' /\ t_inst t = t_inst t'.
Proof.
  induction deps as [|d r IH]; cbn [remove_consumer_from]; intros ts cid ts' H t' Hin; [inversion H; subst; eauto|].
  destruct (find_task ts d) as [input|] eqn:Ef; [|eapply IH; eassumption].
  destruct (tid_mem cid (t_consumers input)); [|discriminate].
  destruct (IH _ _ _ H t' Hin) as (t1 & H1 & Ei & Es & En).
  destruct (set_task_in _ _ _ H1) as [->|Hin1]; [|eauto].
  exists input. split; [eapply find_in; exact Ef | auto].
Qed.

Lemma remove_task_TT c id c' stt : remove_task c id = Ok (c', stt) -> TT T N c c'.
Proof.
  intros H. unfold remove_task in H. destruct (find_task (c_tasks c) id) as [t|]; [|discriminate].
  assert (R0 : forall c1, c_tasks c1 = del_task (c_tasks c) id -> TT T N c c1).
  { intros c1 E. apply TT_sub. intros t' Hin. rewrite E in Hin. exists t'. split; [eapply del_task_in; exact Hin | auto]. }
  destruct (t_state t); try (inversion H; subst; apply R0; reflexivity).
  apply bind_ok in H. destruct H as (c2 & H2 & H).
  assert (T2 : c_tasks c2 = del_task (c_tasks c) id).
  { destruct (N.eqb unfinished_deps 0); [inv_binds H2|]; inversion H2; subst; auto. }
  destruct (N.ltb 0 unfinished_deps); [|inversion H; subst; apply R0; assumption].
  apply bind_ok in H. destruct H as (ts & Hr & H). inversion H; subst.
  eapply TT_trans; [apply (R0 c2); assumption|].
  apply TT_sub. intros t' Hin. eapply remove_consumer_from_T2; [exact Hr | exact Hin].
Qed.

Lemma remove_tasks_batched_TT ids : forall c c', remove_tasks_batched c ids = Ok c' -> TT T N c c'.
Proof.
  induction ids as [|id r IH]; cbn [remove_tasks_batched]; intros c c' H; [inversion H; subst; apply TT_refl|].
  apply bind_ok in H. destruct H as ([c1 stt] & H1 & H). eapply TT_trans; [eapply remove_task_TT; exact H1 | eapply IH; exact H].
Qed.

Lemma remove_waiting_consumers_TT l : forall c c', remove_waiting_consumers c l = Ok c' -> TT T N c c'.
Proof.
  induction l as [|id r IH]; cbn [remove_waiting_consumers]; intros c c' H; [inversion H; subst; apply TT_refl|].
  apply bind_ok in H. destruct H as ([c1 stt] & H1 & H). destruct stt; try discriminate.
  eapply TT_trans; [eapply remove_task_TT; exact H1 | eapply IH; exact H].
Qed.

Lemma on_cancel_tasks_TT s ids s' : on_cancel_tasks s ids = Ok s' -> TT T N (core_of s) (core_of s').
Proof.
  intros H. unfold on_cancel_tasks in H.
  apply bind_ok in H. destruct H as ([[s1 tu] ru] & H1 & H). apply bind_ok in H. destruct H as (c' & H2 & H).
  rewrite (send_all_core _ _ _ H).
  eapply TT_trans; [eapply cancel_release_TT; exact H1 | eapply remove_tasks_batched_TT; exact H2].
Qed.

Lemma process_task_failed_core' s t ab k s' ids : process_task_failed s t ab k = Ok (s', ids) -> core_of s' = core_of s.
Proof.
  unfold process_task_failed. intros H.
  apply bind_ok in H. destruct H as (s1 & H1 & H).
  assert (C1 : core_of s1 = core_of s).
  { unfold abort_tasks in H1. destruct ab; [inversion H1; reflexivity|]. inv_binds H1.
    match goal with X : check_termination _ _ = Ok s1 |- _ => destruct (check_termination_jt _ _ _ X) as [C _]; unfold core_same in C; rewrite C end. reflexivity. }
  apply bind_ok in H. destruct H as (j & ?X & H). apply bind_ok in H. destruct H as (j1 & ?X & H).
  apply bind_ok in H. destruct H as (s2 & H2 & H).
  assert (C2 : core_of s2 = core_of s1) by (destruct (check_termination_jt _ _ _ H2) as [C _]; exact C).
  apply bind_ok in H. destruct H as (j2 & ?X & H).
  assert (Hd : forall s3, abort_tasks s2 (fst t) (non_finished_task_ids j2) = Ok s3 -> core_of s3 = core_of s2).
  { intros s3 H3. unfold abort_tasks in H3. destruct (non_finished_task_ids j2); [inversion H3; reflexivity|]. inv_binds H3.
    match goal with X : check_termination _ _ = Ok s3 |- _ => destruct (check_termination_jt _ _ _ X) as [C _]; unfold core_same in C; rewrite C end. reflexivity. }
  destruct (j_maxfails j2) as [mf|]; [|inversion H; subst; congruence].
  destruct (N.ltb mf (j_nfail j2)); [|inversion H; subst; congruence].
  apply bind_ok in H. destruct H as (s3 & H3 & H). inversion H; subst. rewrite (Hd _ H3). congruence.
Qed.

Lemma task_failed_TT s w id k s' : task_failed s w id k = Ok s' -> TT T N (core_of s) (core_of s').
Proof.
  intros H. unfold task_failed in H.
  destruct (find_task (c_tasks (core_of s)) id) as [t|]; [|inversion H; subst; apply TT_refl].
  apply bind_ok in H. destruct H as (rq & ?X & H). apply bind_ok in H. destruct H as (c1 & H1 & H).
  assert (R1 : TT T N (core_of s) c1).
  { destruct w as [wkr|].
    - destruct (rq_is_mn rq).
      + destruct (t_state t); try discriminate. destruct ws as [|w0 ws]; [discriminate|].
        destruct (N.eqb w0 wkr); [|discriminate]. eapply reset_mn_workers_TT; exact H1.
      + destruct (t_state t); try (inversion H1; subst; apply TT_refl).
        * destruct (negb (N.eqb wkr w)); [discriminate|]. inv_binds H1. inversion H1; subst. apply TT_tasks; reflexivity.
        * destruct (negb (N.eqb wkr w)); [discriminate|]. inv_binds H1. inversion H1; subst. apply TT_tasks; reflexivity.
        * destruct (negb (N.eqb wkr w)); [discriminate|]. eapply try_remove_redirection_TT; exact H1.
        * destruct (negb (N.eqb wkr w)); [discriminate|]. inv_binds H1. inversion H1; subst. apply TT_tasks; reflexivity.
    - destruct (is_waiting t); inversion H1; subst. apply TT_refl. }
  apply bind_ok in H. destruct H as (csm & ?X & H).
  apply bind_ok in H. destruct H as (c2 & H2 & H).
  apply bind_ok in H. destruct H as ([c3 stt] & H3 & H).
  apply bind_ok in H. destruct H as (u & ?X & H).
  apply bind_ok in H. destruct H as ([s1 cancel_ids] & H4 & H).
  pose proof (process_task_failed_core' _ _ _ _ _ _ H4) as C4. cbn in C4.
  assert (R3 : TT T N (core_of s) (core_of s1)).
  { rewrite C4. eapply TT_trans; [exact R1|]. eapply TT_trans; [eapply remove_waiting_consumers_TT; exact H2 | eapply remove_task_TT; exact H3]. }
  destruct cancel_ids; [inversion H; subst; exact R3|].
  eapply TT_trans; [exact R3 | eapply on_cancel_tasks_TT; exact H].
Qed.

Lemma wake_consumers_TT csm : forall c ret c' ret', wake_consumers c csm ret = Ok (c', ret') -> TT T N c c'.
Proof.
  induction csm as [|x r IH]; cbn [wake_consumers]; intros c ret c' ret' H; [inversion H; subst; apply TT_refl|].
  apply bind_ok in H. destruct H as (t & Ht & H).
  destruct (t_state t) as [n| | | | | |] eqn:Est; try discriminate. destruct (N.eqb n 0); [discriminate|].
  assert (R1 : forall qs, TT T N c (with_queues (upd_task c (with_state t (Waiting (n - 1)))) qs)).
  { intros qs. tt_set. }
  destruct (N.eqb (n - 1) 0).
  - apply bind_ok in H. destruct H as ([qs rt] & ?X & H). eapply TT_trans; [apply (R1 qs) | eapply IH; exact H].
  - eapply TT_trans; [apply (R1 (c_queues c)) | eapply IH; exact H].
Qed.

Lemma task_finished_TT s w id s' b : task_finished s w id = Ok (s', b) -> TT T N (core_of s) (core_of s').
Proof.
  intros H. unfold task_finished in H.
  destruct (find_task (c_tasks (core_of s)) id) as [t|] eqn:Ef; [|inversion H; subst; apply TT_refl].
  apply bind_ok in H. destruct H as (rq & ?X & H). apply bind_ok in H. destruct H as (c1 & H1 & H).
  assert (Et : c_tasks c1 = c_tasks (core_of s)).
  { destruct (t_state t); try discriminate.
    - destruct (negb (N.eqb w0 w)); [discriminate|]. inv_binds H1. inversion H1; reflexivity.
    - destruct (negb (N.eqb w0 w)); [discriminate|]. eapply try_remove_redirection_tasks; exact H1.
    - destruct (negb (N.eqb w0 w)); [discriminate|]. inv_binds H1. inversion H1; reflexivity.
    - destruct ws; [discriminate|]. destruct (N.eqb w0 w); [|discriminate]. eapply reset_mn_workers_tasks; exact H1. }
  cbv zeta in H.
  apply bind_ok in H. destruct H as (s1 & Hf & H).
  destruct (process_task_finished_active _ _ _ Hf) as [C1 _]. unfold core_same in C1. cbn in C1.
  apply bind_ok in H. destruct H as ([c3 retracted] & Hw & H).
  apply bind_ok in H. destruct H as (s2 & Hr & H).
  apply bind_ok in H. destruct H as ([c4 stt] & Hrm & H).
  destruct stt; try discriminate. inversion H; subst.
  change (TT T N (core_of s) c4).
  eapply TT_trans; [apply (TT_tasks (core_of s) c1 Et)|].
  eapply TT_trans; [eapply (TT_set T N c1 (upd_task c1 (with_state t Finished)) (with_state t Finished) t);
    [reflexivity | rewrite Et; exact (find_in _ _ _ Ef) | reflexivity | cbn; lia | cbn; discriminate]|].
  rewrite <- C1. eapply TT_trans; [eapply wake_consumers_TT; exact Hw|].
  eapply TT_trans; [exact (process_retracted_TT (st_core s1 c3) _ _ Hr) | eapply remove_task_TT; exact Hrm].
Qed.
End Pass.
