(** Data types of the cluster model (server core, job layer, worker processes, channels).

    The model follows the Rust code function by function (file / function names are given at each
    definition).  Hash-ordered collections of the implementation are kept here as *sorted* lists;
    wherever the implementation's behaviour depends on its hash-iteration order the operation takes
    that order as an explicit witness argument. *)
From HQ Require Import Base.Prelude.
From Coq Require Import ZArith.

(** Task id = (job id, job task id); ordered lexicographically like [TaskId]. *)
Definition tid := (N * N)%type.
Definition tid_eqb (a b : tid) : bool := N.eqb (fst a) (fst b) && N.eqb (snd a) (snd b).
Definition tid_ltb (a b : tid) : bool :=
  N.ltb (fst a) (fst b) || (N.eqb (fst a) (fst b) && N.ltb (snd a) (snd b)).

Definition wid := N.

(** [TaskRuntimeState] (crates/tako/src/internal/server/task.rs) *)
Inductive tstate :=
| Waiting (unfinished_deps : N)
| Assigned (w : wid) (rv : N)
| Prefilled (w : wid)
| Retracting (w : wid)
| Running (w : wid) (rv : N)
| RunningMN (ws : list wid)
| Finished.

(** [CrashLimit] (crates/tako/src/gateway.rs) *)
Inductive crashlimit := CNever | CMax (n : N) | CUnl.

Record task := mkTask {
  t_id : tid;
  t_state : tstate;
  t_deps : list tid;        (* task_deps, sorted *)
  t_consumers : list tid;   (* consumers, sorted *)
  t_rq : N;                 (* resource_rq_id *)
  t_prio : Z;               (* user priority; Priority::from_user_priority is strictly monotone *)
  t_inst : N;               (* instance_id *)
  t_crash : N;              (* crash_counter *)
  t_climit : crashlimit;
  t_tlim : bool             (* has a time limit *)
}.

(** A resource request with one variant: number of nodes (0 = single node) and the amount of
    each of the three resources of the simulation (cpus, gpus, mem) in fractions. *)
Record rqdef := mkRq { rq_nodes : N; rq_res : list N }.

(** [WorkerAssignment] (crates/tako/src/internal/server/worker.rs) *)
Inductive wassign :=
| Sn (assigned : list tid) (prefilled : list tid) (free : list N)
| Mn (t : tid) (root : bool).

Record sworker := mkSW {
  w_id : wid;
  w_assign : wassign;
  w_res : list N;
  w_blocked : list (N * N);
  w_group : N;
  w_stopping : bool
}.

(** One priority level of [TaskQueue.queue]: [more] distinguishes [OneOrMoreTaskIds::More]. *)
Record qentry := mkQE { qe_prio : Z; qe_more : bool; qe_ids : list tid }.

(** [TaskQueue] (crates/tako/src/internal/scheduler/taskqueue.rs); entries by descending priority. *)
Record queue := mkQ { q_ready : list qentry; q_prefill : option (Z * list tid) }.

(** Messages server -> worker ([ToWorkerMessage]); a compute entry is
    (task, instance, variant (None = prefill), rq, has time limit, node list). *)
Record ctask := mkCT { ct_id : tid; ct_inst : N; ct_rv : option N; ct_rq : N; ct_tlim : bool; ct_nodes : list wid }.
Inductive dmsg :=
| DCompute (ts : list ctask)
| DRetract (ids : list tid)
| DCancel (ids : list tid)
| DNewWorker (w : wid)
| DLostWorker (w : wid)
| DNewRq (rq : N) (def : rqdef)
| DStop.

(** Failure classes of [TaskFailInfo] messages. *)
Inductive failkind := FTimeLimit | FNeverRestart | FCrashLimit | FLaunch | FTask.

(** Messages worker -> server ([FromWorkerMessage]). *)
Inductive wupdate :=
| UFinished (t : tid)
| UFailed (t : tid) (k : failkind)
| URunning (t : tid) (rv : N)
| URunningPrefilled (t : tid) (rv : N)
| UReject (t : tid) (rv : option N)
| UEnable (rq rv : N).
Inductive umsg :=
| UUpdates (us : list wupdate)
| URetractResponse (ids : list tid).

(** The tako server core ([Core] + [CommSender] flags + channels to the workers). *)
Record core := mkCore {
  c_tasks : list task;                    (* sorted by id *)
  c_workers : list sworker;               (* sorted by id *)
  c_queues : list queue;                  (* index = rq id *)
  c_redirects : list (tid * (wid * N));   (* sorted by task id *)
  c_rqs : list rqdef;                     (* index = rq id *)
  c_flag : bool;                          (* need_scheduling *)
  c_wcounter : N;                         (* worker_id_counter *)
  c_reserve : N;                          (* proactive_filling_reserve *)
  c_maxfill : N                           (* proactive_filling_max *)
}.

(** HyperQueue job layer ([State] / [Job]). *)
Inductive jstate := JW | JR | JF | JX | JC | JA.   (* waiting running finished failed canceled aborted *)
Record job := mkJob {
  j_id : N;
  j_open : bool;
  j_tasks : list (N * jstate);   (* sorted by task id *)
  j_nrun : N; j_nfin : N; j_nfail : N; j_ncanc : N; j_nabort : N;
  j_completed : bool;            (* completion_date.is_some() *)
  j_maxfails : option N
}.
Record hq := mkHq { h_jobs : list job; h_counter : N }.

(** Events written to the journal / streamed to clients ([EventPayload]). *)
Inductive event :=
| EvWConn (w : wid)
| EvWLost (w : wid) (reason : N)
| EvSubmit (j : N) (closed : bool) (n : N)
| EvCompleted (j : N)
| EvOpen (j : N)
| EvClose (j : N)
| EvJobCancel (j : N)
| EvStarted (t : tid) (inst : N) (ws : list wid) (rv : N)
| EvFinished (t : tid)
| EvFailed (t : tid) (k : failkind)
| EvCanceled (ts : list tid)
| EvAborted (ts : list tid).

(** A worker process ([WorkerState]) with its launched task futures. *)
Record wtask := mkWT { wt_id : tid; wt_inst : N; wt_rq : N; wt_tlim : bool; wt_nodes : list wid }.
Inductive stopkind := SCancel | STimeout.
Record wproc := mkWP {
  p_id : wid;
  p_backlog : list (N * list wtask);     (* prefilled_tasks: rq -> Vec (popped from the back), sorted by rq *)
  p_running : list (tid * N);            (* running_tasks with their variant, sorted *)
  p_alloc : list (tid * list N);         (* what each running task holds *)
  p_blocked : list (N * N);              (* blocked_requests, sorted *)
  p_total : list N;
  p_free : list N;
  p_futures : list (tid * option stopkind);  (* launched futures not yet ended + stop signal seen, sorted *)
  p_timers : list tid;                   (* running tasks with a time limit whose timer has not fired *)
  p_failnext : list tid;                 (* launches the harness will make fail *)
  p_rqs : list rqdef;                    (* resource_rq_map as announced to this worker *)
  p_down : list dmsg;                    (* channel server -> worker, oldest first *)
  p_up : list umsg                       (* channel worker -> server, oldest first *)
}.

(** Calls of [TaskLauncher::build_task]. *)
Record launch := mkLaunch { l_w : wid; l_t : tid; l_inst : N; l_rv : N; l_nodes : list wid; l_ok : bool; l_alloc : list N }.

(** Client responses. Submit error codes: 0 JobNotOpened, 1 JobNotFound, 2 TaskIdAlreadyExists,
    3 NonUniqueTaskId, 4 InvalidDependencies, 5 undefined resource request (generic Error message).  Close codes: 0 Closed, 1 InvalidJob, 2 AlreadyClosed. *)
Inductive resp :=
| RSubmitOk (job n : N) (ids : list N)
| RSubmitErr (code arg : N)
| ROpen (job : N)
| RClose (code : N)
| RCancelOk (ids : list N) (already : N)
| RCancelInvalid
| RForget (forgotten ignored : N).

(** Observable outputs of one step. *)
Inductive out :=
| OEv (e : event)
| OLaunch (l : launch)
| OResp (r : resp)
| ODown (w : wid) (m : dmsg)
| OUp (w : wid) (m : umsg)
| ONewWorker (w : wid)
| OPrune (jobs workers : list N).   (* the prune request handed to the journal: live jobs, live workers *)

Record sys := mkSys {
  s_core : core;
  s_hq : hq;
  s_procs : list wproc    (* connected worker processes, sorted by id *)
}.
