(** C09 for client requests, closed form: in EVERY reachable state of the system model a well-formed
    client request (open, close, cancel, forget, prune, submit of an array or of a task graph) is
    processed without a panic.  Uses [reachable_INV] (InvBundle.v), [reachable_PW] (NoPanicL0.v) and
    [reachable_MNE_RWA] (InvWX3.v, same definitions of [MNE] / [RWA] as NoPanicC1.v). *)
From HQ Require Import Base.Prelude Cluster.Types Cluster.Core Cluster.Reactor Cluster.Worker Cluster.Server Cluster.Sys Cluster.RejHyp Cluster.BijFinal Cluster.InvProcsDef Cluster.InvBundle Cluster.InvWX3 Cluster.NoPanicL0 Cluster.NoPanicC1 Cluster.NoPanicC5.
From Coq Require Import ZArith.
Local Open Scope N_scope.

Theorem client_requests_never_panic_reachable ops reserve maxfill s outs o :
  Forall op_wf ops -> run_fresh (init_sys reserve maxfill) ops = true -> run (init_sys reserve maxfill) ops = Ok (s, outs) ->
  client_op o -> op_ok s o -> is_panic (step s o) = false.
Proof.
  intros Hwf Hf H Hco Hok.
  eapply reachable_client_requests_never_panic; try eassumption.
  - eapply reachable_PW. exact H.
  - destruct o; try exact I. destruct (reachable_MNE_RWA _ _ _ _ _ Hwf Hf H) as [A B]. split; [exact A | exact B].
Qed.

Theorem client_requests_total_reachable ops reserve maxfill s outs o :
  Forall op_wf ops -> run_fresh (init_sys reserve maxfill) ops = true -> run (init_sys reserve maxfill) ops = Ok (s, outs) ->
  client_op o -> op_ok s o -> exists r, step s o = Ok r.
Proof.
  intros Hwf Hf H Hco Hok.
  eapply client_requests_total; try eassumption.
  - eapply reachable_INV; eassumption.
  - eapply reachable_PW. exact H.
  - destruct o; try exact I. destruct (reachable_MNE_RWA _ _ _ _ _ Hwf Hf H) as [A B]. split; [exact A | exact B].
Qed.
