(** Finding F28 / invariant RSN, part 3: worker loss, client requests (all satisfy [RS] / keep
    [JS]). *)
From HQ Require Import Base.Prelude Cluster.Types Cluster.Core Cluster.Reactor Cluster.Worker Cluster.Server Cluster.Sys Cluster.Monitors Cluster.RejHyp Cluster.ProofsJob Cluster.ProofsMore Cluster.ProofsTerminal Cluster.ProofsStep Cluster.ProofsFinal Cluster.BijBase Cluster.BijCore Cluster.BijHq Cluster.BijSt Cluster.BijReact Cluster.BijFinal Cluster.InvWBase Cluster.InvWCore Cluster.InvWX1 Cluster.InvWX2 Cluster.InvWX3 Cluster.NoPanicU23 Cluster.NoPanicU24.
From Coq Require Import ZArith Lia Sorting.Sorted.
Local Open Scope N_scope.

Arguments N.add : simpl never.
Arguments N.sub : simpl never.

(** * Worker loss *)
Definition JSx (w : wid) (c : core) : Prop := forall t, In t (c_tasks c) -> okS c (t_state t) \/ t_state t = Retracting w.


Lemma JSx_del c w : JS c -> JSx w (with_workers c (del_worker (c_workers c) w)).
Proof.
  intros HJ t Hin. specialize (HJ t Hin). cbn [c_tasks with_workers] in Hin.
  destruct (t_state t) as [n|w1 rv|w1|w1|w1 rv|ws|]; cbn in *; auto.
  destruct (N.eqb w1 w) eqn:E; [apply N.eqb_eq in E; subst; auto|]. left. destruct HJ as (wk0 & Hw0 & Hs0). exists wk0. split; [|exact Hs0]. cbn [c_workers with_workers]. rewrite find_del_worker_other by exact E. exact Hw0.
Qed.

Lemma JSx_RS w c c' : JSx w c -> RS c c' -> JSx w c'.
Proof.
  intros HJ [T D] t Hin. destruct (T t Hin) as [(t0 & H0 & _ & Es)|X]; [|left; exact X].
  rewrite <- Es. destruct (HJ t0 H0) as [X|X]; [left; eapply okS_DS; eassumption | right; exact X].
Qed.


Lemma lost_retracting_JS w l : forall s s',
  CS (core_of s) -> JSx w (core_of s) ->
  (forall t, In t (c_tasks (core_of s)) -> t_state t = Retracting w -> In (t_id t) l) ->
  lost_retracting s w l = Ok s' -> JS (core_of s').
Proof.
  induction l as [|id r IH]; cbn [lost_retracting]; intros s s' Hs HJ Hall H.
  - inversion H; subst. intros t Hin. destruct (HJ t Hin) as [X|X]; [exact X|]. destruct (Hall t Hin X).
  - apply bind_ok in H. destruct H as (t & Ht & H). apply get_task_find in Ht.
    destruct (find_task_some _ _ _ Ht) as [Htin Hid].
    assert (Hskip : t_state t <> Retracting w -> lost_retracting s w r = Ok s' -> JS (core_of s')).
    { intros Hne Hl. eapply IH; [exact Hs | exact HJ | | exact Hl].
      intros t' Hin' Est'. destruct (Hall t' Hin' Est') as [E|E]; [|exact E]. exfalso.
      pose proof (in_find_task _ _ (CS_sorted _ Hs) Hin') as Hf. rewrite <- E, Ht in Hf. inversion Hf; subst. contradiction. }
    destruct (t_state t) as [n|w1 rv1|w1|w1|w1 rv1|wsx|] eqn:Est; try (apply Hskip; [discriminate | exact H]).
    destruct (N.eqb w w1) eqn:Ew; [|apply Hskip; [intros X; inversion X; subst; rewrite N.eqb_refl in Ew; discriminate | exact H]].
    cbv zeta in H.
    assert (Hgen : forall c' x s1, core_of s1 = c' -> c_tasks c' = set_task (c_tasks (core_of s)) x -> c_workers c' = c_workers (core_of s) ->
              keys c' = keys (core_of s) -> t_id x = id -> okS (core_of s) (t_state x) -> (forall w2, t_state x <> Retracting w2) ->
              lost_retracting s1 w r = Ok s' -> JS (core_of s')).
    { intros c' x s1 Ec Et Ewk Ek Ex Ho Hnr Hl. eapply IH; [| | | exact Hl]; rewrite Ec.
      - eapply CS_keys; [exact Ek | exact Hs].
      - eapply JSx_RS; [exact HJ|]. eapply (RS_set_ok _ _ x); [exact Et | apply DS_eq; exact Ewk | exact Ho].
      - intros t' Hin' Est'. rewrite Et in Hin'. destruct (set_task_in _ _ _ Hin') as [->|Hin2]; [exfalso; exact (Hnr _ Est')|].
        destruct (Hall t' Hin2 Est') as [E|E]; [|exact E]. exfalso.
        assert (t' = x) by (eapply set_task_in_same; [apply CS_sorted; exact Hs | exact Hin' | rewrite Ex; symmetry; exact E]).
        subst t'. exact (Hnr _ Est'). }
    destruct (find_redirect (c_redirects (core_of s)) id) as [[target rv]|] eqn:Er.
    + apply bind_ok in H. destruct H as (s1 & Hs1 & H).
      eapply (Hgen _ (with_state (with_inst t (t_inst t + 1)) (Assigned target rv)) s1); [exact (send_worker_core _ _ _ _ Hs1) | reflexivity | reflexivity | | exact Hid | exact I | discriminate | exact H].
      apply (upd_task_frame (with_redirects (core_of s) (del_redirect (c_redirects (core_of s)) id)) id t); [exact Hs | exact Ht | reflexivity | reflexivity].
    + eapply (Hgen _ (with_state (with_inst t (t_inst t + 1)) (Waiting 0)) (st_core s (upd_task (core_of s) (with_state (with_inst t (t_inst t + 1)) (Waiting 0))))); [reflexivity | reflexivity | reflexivity | | exact Hid | exact I | discriminate | exact H].
      apply (upd_task_frame (core_of s) id t); [exact Hs | exact Ht | reflexivity | reflexivity].
Qed.

Lemma on_remove_worker_JS s w reason a p t s' :
  CB s -> JS (core_of s) -> on_remove_worker s w reason a p t = Ok s' -> JS (core_of s').
Proof.
  intros HC HJ H. unfold on_remove_worker in H.
  destruct (find_worker (c_workers (core_of s)) w) as [wk|] eqn:Hw; [|discriminate].
  apply bind_ok in H. destruct H as ([[c2 running] retracted] & Hr & H).
  set (c := core_of s) in *.
  set (c0 := with_workers c (del_worker (c_workers c) w)) in *.
  assert (Hs0 : CS c0) by exact (cb_s _ HC).
  assert (A2 : RS c0 c2 /\ keys c2 = K s).
  { destruct (w_assign wk) as [sa sp sf|mt root] eqn:Ea.
    - destruct (negb _); [discriminate|]. apply bind_ok in Hr. destruct Hr as (c1 & Hp & Hr). split.
      + eapply RS_trans; [eapply lost_prefilled_RS; exact Hp | eapply lost_assigned_RS; exact Hr].
      + pose proof (lost_prefilled_frame _ _ _ Hs0 Hp) as E1.
        rewrite (lost_assigned_frame _ _ _ _ _ _ _ (CS_keys _ _ E1 Hs0) Hr). exact E1.
    - apply bind_ok in Hr. destruct Hr as (tk & Ht & Hr). apply get_task_find in Ht.
      destruct (find_task_some _ _ _ Ht) as [Htin Hid].
      destruct (t_state tk) as [n|w1 rv1|w1|w1|w1 rv1|ws|] eqn:Est; try discriminate. destruct ws as [|w0 rest] eqn:Ews; [discriminate|].
      destruct (N.eqb w w0) eqn:Ew0.
      + apply bind_ok in Hr. destruct Hr as (c1 & Hc1 & Hr). apply bind_ok in Hr. destruct Hr as ([qs ret] & ?X & Hr).
        inversion Hr; subst c2 running retracted. split.
        * eapply RS_trans; [eapply reset_mn_all_RS; exact Hc1|].
          eapply (RS_set_ok _ _ (with_inst (with_state tk (Waiting 0)) (t_inst tk + 1))); [reflexivity | ds | exact I].
        * pose proof (reset_mn_all_frame _ _ _ Hc1) as E1.
          pose proof (reset_mn_all_tasks _ _ _ Hc1) as T1.
          change (keys (upd_task c1 (with_inst (with_state tk (Waiting 0)) (t_inst tk + 1))) = K s).
          transitivity (keys c1); [|exact E1].
          apply (upd_task_frame c1 mt tk); [eapply CS_keys; [exact E1 | exact Hs0] | rewrite T1; exact Ht | reflexivity | reflexivity].
      + inversion Hr; subst c2 running retracted. split.
        * eapply (RS_set_ok _ _ (with_state tk (RunningMN (filter (fun x => negb (N.eqb x w)) (w0 :: rest))))); [reflexivity | ds | exact I].
        * apply (upd_task_frame c0 mt tk); [exact Hs0 | exact Ht | reflexivity | reflexivity]. }
  destruct A2 as [R2 E2].
  destruct (negb (perm_of_set t _)) eqn:Ep; [discriminate|]. apply negb_false_iff in Ep.
  apply bind_ok in H. destruct H as (s3 & H3 & H). apply bind_ok in H. destruct H as (s4 & H4 & H).
  apply bind_ok in H. destruct H as (s6 & H6 & H). apply bind_ok in H. destruct H as (s7 & H7 & H). inversion H; subst s'.
  assert (Hs2 : CS c2) by (eapply CS_keys; [exact E2 | exact (cb_s _ HC)]).
  assert (J3 : JS (core_of s3)).
  { eapply (lost_retracting_JS w t); [| | | exact H3].
    - exact Hs2.
    - eapply JSx_RS; [apply JSx_del; exact HJ | exact R2].
    - intros t' Hin' _. unfold perm_of_set in Ep. apply andb_true_iff in Ep. destruct Ep as [_ Ep]. rewrite forallb_forall in Ep.
      apply tid_mem_true_in. apply Ep. apply in_map. exact Hin'. }
  destruct (process_worker_lost_active _ _ _ _ _ H6) as [C6 _]. unfold core_same in C6.
  eapply JS_RS; [exact J3|].
  eapply RS_trans; [eapply process_retracted_RS; exact H4|].
  eapply RS_trans; [|eapply RS_trans; [eapply lost_fail_running_RS; exact H7 | apply RS_tasks; [reflexivity | ds]]].
  rewrite C6. apply RS_refl.
Qed.

(** * Client requests *)
Lemma handle_cancel_RS s jid s' : handle_cancel s jid = Ok s' -> RS (core_of s) (core_of s').
Proof.
  intros H. unfold handle_cancel in H.
  destruct (find_job (hq_jobs s) jid) as [j|]; [|inversion H; subst; apply RS_refl].
  destruct (non_finished_task_ids j) as [|i0 ir] eqn:En; [inversion H; subst; apply RS_refl|]. rewrite <- En in *. clear En.
  apply bind_ok in H. destruct H as (s1 & H1 & H). apply bind_ok in H. destruct H as (al & ?X & H).
  apply bind_ok in H. destruct H as (s2 & H2 & H). inversion H; subst s'.
  destruct (set_cancel_state_active _ _ _ _ H2) as [C2 _]. unfold core_same in C2.
  change (RS (core_of s) (core_of s2)). rewrite C2. eapply on_cancel_tasks_RS; exact H1.
Qed.

Lemma get_or_create_rq_RS s r : RS (core_of s) (core_of (fst (get_or_create_rq s r))).
Proof. unfold get_or_create_rq. destruct (rq_index _ r 0); [apply RS_refl|]. apply RS_tasks; [reflexivity | ds]. Qed.

Lemma submit_tail_RS s4 jid ids tasks s' :
  (do j <- hq_get_job s4 jid 222;
   do j' <- attach_ids j ids;
   do s6 <- on_new_tasks (hq_set_job s4 j') tasks;
   submit_ok_resp s6 jid) = Ok s' -> RS (core_of s4) (core_of s').
Proof.
  intros H. apply bind_ok in H. destruct H as (j & ?X & H). apply bind_ok in H. destruct H as (j' & ?X & H).
  apply bind_ok in H. destruct H as (s6 & H6 & H).
  pose proof (on_new_tasks_RS (hq_set_job s4 j') _ _ H6) as R6.
  unfold submit_ok_resp in H. apply bind_ok in H. destruct H as (jx & ?X & H). inversion H; subst. exact R6.
Qed.

Lemma handle_submit_array_RS s jobsel ids entries rq prio cl tlim mf s' :
  handle_submit_array s jobsel ids entries rq prio cl tlim mf = Ok s' -> RS (core_of s) (core_of s').
Proof.
  intros H. unfold handle_submit_array in H.
  match type of H with (match ?x with Some _ => _ | None => _ end) = _ => destruct x end; [inversion H; subst; apply RS_refl|].
  apply bind_ok in H. destruct H as ([acc s1] & Hr & H).
  assert (E1 : core_of s1 = core_of s).
  { destruct jobsel as [j0|].
    - destruct (find_job (hq_jobs s) j0) as [j|]; [|inversion Hr; subst; reflexivity].
      destruct (negb (j_open j)); inversion Hr; subst; reflexivity.
    - inversion Hr; subst; reflexivity. }
  destruct acc as [[[jid is_new] ids']|].
  - cbv zeta in H.
    match type of H with context [get_or_create_rq ?sx rq] => set (s3 := sx) in *; destruct (get_or_create_rq s3 rq) as [s4 rqi] eqn:Erq end.
    assert (E3 : core_of s3 = core_of s) by (rewrite <- E1; subst s3; destruct is_new; reflexivity).
    pose proof (get_or_create_rq_RS s3 rq) as R4. rewrite Erq in R4. cbn [fst] in R4. rewrite E3 in R4.
    eapply RS_trans; [exact R4 | eapply (submit_tail_RS s4 jid ids'); exact H].
  - assert (E2 : core_of s' = core_of s1).
    { destruct jobsel; [match type of H with (match ?x with Some _ => _ | None => _ end) = _ => destruct x end|];
        inversion H; subst; reflexivity. }
    rewrite E2, E1. apply RS_refl.
Qed.

Lemma fold_rqs_RS rqs : forall s l s4 rqis,
  fold_left (fun acc r => let '(s, l) := acc in let '(s', i) := get_or_create_rq s r in (s', l ++ [i])) rqs (s, l) = (s4, rqis) ->
  RS (core_of s) (core_of s4).
Proof.
  induction rqs as [|r rest IH]; cbn [fold_left]; intros s l s4 rqis H; [inversion H; subst; apply RS_refl|].
  destruct (get_or_create_rq s r) as [s1 i] eqn:E.
  pose proof (get_or_create_rq_RS s r) as R1. rewrite E in R1. cbn [fst] in R1.
  eapply RS_trans; [exact R1 | eapply IH; exact H].
Qed.

Lemma handle_submit_graph_RS s jobsel rqs ts mf s' :
  handle_submit_graph s jobsel rqs ts mf = Ok s' -> RS (core_of s) (core_of s').
Proof.
  intros H. unfold handle_submit_graph in H.
  apply bind_ok in H. destruct H as (v1 & ?X & H).
  match type of H with (match ?x with Some _ => _ | None => _ end) = _ => destruct x end; [inversion H; subst; apply RS_refl|].
  apply bind_ok in H. destruct H as ([acc s1] & Hr & H).
  assert (E1 : core_of s1 = core_of s).
  { destruct jobsel as [j0|].
    - destruct (find_job (hq_jobs s) j0) as [j|]; [|inversion Hr; subst; reflexivity].
      destruct (negb (j_open j)); inversion Hr; subst; reflexivity.
    - inversion Hr; subst; reflexivity. }
  destruct acc as [[jid is_new]|].
  - cbv zeta in H.
    match type of H with context [fold_left ?f rqs (?sx, [])] => set (s3 := sx) in *; destruct (fold_left f rqs (s3, [])) as [s4 rqis] eqn:Erq end.
    assert (E3 : core_of s3 = core_of s) by (rewrite <- E1; subst s3; destruct is_new; reflexivity).
    pose proof (fold_rqs_RS _ _ _ _ _ Erq) as R4. rewrite E3 in R4.
    apply bind_ok in H. destruct H as (j & Hj & H). apply bind_ok in H. destruct H as (j' & Ha & H).
    apply bind_ok in H. destruct H as (tasks & Hg & H).
    eapply RS_trans; [exact R4|]. eapply (submit_tail_RS s4 jid (map gt_id ts) tasks).
    rewrite Hj. cbn [bind]. rewrite Ha. cbn [bind]. exact H.
  - inversion H; subst. rewrite E1. apply RS_refl.
Qed.

