(** C01, "start before finish": the relation [SF] (StartFinBase.v) through the job layer, the
    reactor, the server and one [step] of the whole system model. *)
From HQ Require Import Base.Prelude Cluster.Types Cluster.Core Cluster.Reactor Cluster.Worker Cluster.Server Cluster.Sys Cluster.Monitors Cluster.ProofsJob Cluster.ProofsMore Cluster.ProofsTerminal Cluster.ProofsStep Cluster.ProofsFinal Cluster.BijBase Cluster.BijHq Cluster.BijFinal Cluster.ProofsOnce Cluster.StartFinBase.
From Coq Require Import ZArith Lia.
Local Open Scope N_scope.

Arguments N.add : simpl never.
Arguments N.sub : simpl never.

(** * Task states after replacing one job *)
Lemma TS_set s j' x :
  task_state (hq_set_job s j') x = if N.eqb (fst x) (j_id j') then jt_find (j_tasks j') (snd x) else task_state s x.
Proof.
  unfold task_state, hq_of, hq_set_job. cbn. rewrite find_job_set_any. destruct (N.eqb (fst x) (j_id j')); reflexivity.
Qed.

Lemma TS_find s jid j x : find_job (h_jobs (hq_of s)) jid = Some j -> fst x = jid -> task_state s x = jt_find (j_tasks j) (snd x).
Proof. intros Hf E. unfold task_state. rewrite E, Hf. reflexivity. Qed.

Lemma hq_get_find' s id site j : hq_get_job s id site = Ok j -> find_job (h_jobs (hq_of s)) id = Some j /\ j_id j = id.
Proof.
  unfold hq_get_job, hq_of. destruct (find_job _ id) as [j0|] eqn:E; [|discriminate]. intros H. inversion H; subst.
  split; [reflexivity | eapply find_job_id; exact E].
Qed.

(** One task of the job gets the state [v]. *)
Lemma TS_set_one s site t j j' v x :
  hq_get_job s (fst t) site = Ok j -> j_id j' = j_id j -> j_tasks j' = jt_set (j_tasks j) (snd t) v ->
  task_state (hq_set_job s j') x = if tid_eqb x t then Some v else task_state s x.
Proof.
  intros Hj Hid Ht. destruct (hq_get_find' _ _ _ _ Hj) as [Hf Eid]. rewrite TS_set, Hid, Eid. unfold tid_eqb.
  destruct (N.eqb (fst x) (fst t)) eqn:E; [|reflexivity]. apply N.eqb_eq in E. cbn [andb].
  rewrite Ht, jt_find_set. destruct (N.eqb (snd x) (snd t)); [reflexivity|]. symmetry. apply (TS_find s (fst t) j x Hf E).
Qed.

Lemma tid_eqb_true a b : tid_eqb a b = true -> a = b.
Proof. apply tid_eqb_eq. Qed.

(** * Job-layer primitives *)
Lemma SF_check_termination s jid s' : check_termination s jid = Ok s' -> SF s s'.
Proof.
  intros H. destruct (check_termination_jt _ _ _ H) as [_ J].
  assert (Hn : nojr s s') by (intros t Ht; rewrite task_state_jt in Ht |- *; rewrite J in Ht; exact Ht).
  unfold check_termination in H. apply bind_ok in H. destruct H as (j & _ & H). apply bind_ok in H. destruct H as (na & _ & H).
  destruct na; [|inversion H; subst; apply SF_refl]. destruct (j_open j); inversion H; subst; [apply SF_refl|].
  eapply (SF_ext _ _ [OEv (EvCompleted jid)]); [reflexivity | reflexivity | exact Hn].
Qed.

Lemma SF_started s t i ws rv s' : process_task_started s t i ws rv = Ok s' -> SF s s'.
Proof.
  intros H. unfold process_task_started in H. apply bind_ok in H. destruct H as (j & Hj & H).
  destruct (jt_find (j_tasks j) (snd t)) as [v|] eqn:Ef; [|discriminate]. inversion H; subst. clear H.
  eapply (SF_emit1 _ _ (OEv (EvStarted t i ws rv))); [reflexivity | intros x Ex; discriminate |].
  intros x Hx. destruct (tid_eqb x t) eqn:Ext; [right; apply tid_eqb_true in Ext; subst x; eauto|]. left.
  split; [|intros []]. change (task_state (emit ?a ?o) x) with (task_state a x) in Hx.
  destruct (hq_get_find' _ _ _ _ Hj) as [Hf Eid].
  destruct v.
  1: { rewrite (TS_set_one s 208 t j _ JR x Hj) in Hx by reflexivity. rewrite Ext in Hx. exact Hx. }
  all: rewrite TS_set, Eid in Hx; destruct (N.eqb (fst x) (fst t)) eqn:E; [|exact Hx];
    apply N.eqb_eq in E; rewrite (TS_find s (fst t) j x Hf E); exact Hx.
Qed.

Lemma SF_finished s t s' : process_task_finished s t = Ok s' -> SF s s'.
Proof.
  intros H. pose proof (finished_only_from_running _ _ _ H) as Hr.
  unfold process_task_finished in H. apply bind_ok in H. destruct H as (j & Hj & H).
  destruct (jt_find (j_tasks j) (snd t)) as [v|] eqn:Ef; [|discriminate]. destruct v; try discriminate.
  apply bind_ok in H. destruct H as (nr & _ & H).
  eapply SF_trans; [|eapply SF_check_termination; exact H].
  eapply (SF_emit1 _ _ (OEv (EvFinished t))); [reflexivity | intros x Ex; inversion Ex; subst; exact Hr |].
  intros x Hx. left. change (task_state (emit ?a ?o) x) with (task_state a x) in Hx.
  rewrite (TS_set_one s 209 t j _ JF x Hj) in Hx by reflexivity.
  destruct (tid_eqb x t) eqn:Ext; [discriminate|]. split; [exact Hx|].
  intros [E|[]]. subst x. rewrite ProofsMore.tid_eqb_refl in Ext. discriminate.
Qed.

Lemma SF_set_waiting s t s' : set_waiting_state s t = Ok s' -> SF s s'.
Proof.
  intros H. unfold set_waiting_state in H. apply bind_ok in H. destruct H as (j & Hj & H).
  destruct (jt_find (j_tasks j) (snd t)) as [v|] eqn:Ef; [|discriminate].
  destruct v; try (inversion H; subst; apply SF_refl).
  apply bind_ok in H. destruct H as (nr & _ & H). inversion H; subst. clear H.
  apply SF_quiet; [reflexivity|]. intros x Hx.
  rewrite (TS_set_one s 210 t j _ JW x Hj) in Hx by reflexivity.
  destruct (tid_eqb x t); [discriminate | exact Hx].
Qed.

Lemma SF_set_waiting_all ts : forall s s', set_waiting_all s ts = Ok s' -> SF s s'.
Proof.
  induction ts as [|t r IH]; cbn [set_waiting_all]; intros s s' H; [inversion H; subst; apply SF_refl|].
  apply bind_ok in H. destruct H as (s0 & H0 & H).
  eapply SF_trans; [eapply SF_set_waiting; exact H0 | eapply IH; exact H].
Qed.

Lemma SF_worker_lost s w running reason s' : process_worker_lost s w running reason = Ok s' -> SF s s'.
Proof.
  intros H. unfold process_worker_lost in H. apply bind_ok in H. destruct H as (s1 & H1 & H). inversion H; subst.
  eapply SF_trans; [eapply SF_set_waiting_all; exact H1 | apply SF_emit_quiet; reflexivity].
Qed.

(** The common shape of [abort_tasks] and [set_cancel_state]: the marked tasks are named by the
    one event emitted together with the new job record. *)
Lemma SF_mark s jid j j1 j2 ids target site o :
  hq_get_job s jid 207 = Ok j -> mark_tasks j ids target site = Ok j1 ->
  j_id j2 = j_id j1 -> j_tasks j2 = j_tasks j1 -> target <> JR ->
  tids_of o = ids -> (forall t, o <> OEv (EvFinished t)) ->
  SF s (emit (hq_set_job s j2) o).
Proof.
  intros Hj Hm Hid Ht Htg Ho Hnf.
  destruct (hq_get_find' _ _ _ _ Hj) as [Hf Eid].
  destruct (mark_tasks_find _ _ _ _ _ Hm) as (M1 & M2 & M3). rewrite Eid in M2.
  eapply (SF_emit1 _ _ o); [reflexivity | intros x Ex; exfalso; exact (Hnf x Ex) |].
  intros x Hx. left. change (task_state (emit ?a ?e) x) with (task_state a x) in Hx.
  rewrite TS_set, Hid, M1, Eid, Ht, M3 in Hx. rewrite Ho.
  destruct (N.eqb (fst x) jid) eqn:E.
  - apply N.eqb_eq in E. destruct (snd_mem (snd x) ids) eqn:Em; [inversion Hx; subst; contradiction|].
    split; [rewrite (TS_find s jid j x Hf E); exact Hx|].
    intros Hin. assert (Hxx : x = (jid, snd x)) by (destruct x; cbn in *; subst; reflexivity).
    rewrite Hxx in Hin. apply (snd_mem_in (snd x) ids jid M2) in Hin. congruence.
  - split; [exact Hx|]. intros Hin. apply M2 in Hin. rewrite Hin, N.eqb_refl in E. discriminate.
Qed.

Lemma SF_abort s jid ids s' : abort_tasks s jid ids = Ok s' -> SF s s'.
Proof.
  intros H. unfold abort_tasks in H.
  destruct ids as [|i0 ir] eqn:Eids; [inversion H; subst; apply SF_refl|]. rewrite <- Eids in *.
  apply bind_ok in H. destruct H as (j & Hj & H). apply bind_ok in H. destruct H as (j1 & Hm & H).
  eapply SF_trans; [|eapply SF_check_termination; exact H].
  eapply (SF_mark s jid j j1 _ ids JA 206); [exact Hj | exact Hm | reflexivity | reflexivity | discriminate | reflexivity | discriminate].
Qed.

Lemma SF_set_cancel s jid ids s' : set_cancel_state s jid ids = Ok s' -> SF s s'.
Proof.
  intros H. unfold set_cancel_state in H.
  destruct ids as [|i0 ir] eqn:Eids; [inversion H; subst; apply SF_refl|]. rewrite <- Eids in *.
  apply bind_ok in H. destruct H as (j & Hj & H). apply bind_ok in H. destruct H as (j1 & Hm & H).
  eapply SF_trans; [|eapply SF_check_termination; exact H].
  eapply SF_trans; [apply (SF_emit_quiet s (OEv (EvJobCancel jid))); reflexivity|].
  match goal with |- SF _ (emit (emit (hq_set_job s ?j2) ?e1) ?e2) =>
    change (SF (emit s e1) (emit (hq_set_job (emit s e1) j2) e2));
    eapply (SF_mark (emit s e1) jid j j1 j2 ids JC 205) end;
    [exact Hj | exact Hm | reflexivity | reflexivity | discriminate | reflexivity | discriminate].
Qed.

Lemma SF_process_task_failed s t aborted k s' ids : process_task_failed s t aborted k = Ok (s', ids) -> SF s s'.
Proof.
  intros Hc. unfold process_task_failed in Hc.
  apply bind_ok in Hc. destruct Hc as (s1 & H1 & Hc).
  apply bind_ok in Hc. destruct Hc as (j & Hj & Hc).
  apply bind_ok in Hc. destruct Hc as (j1 & Hj1 & Hc).
  apply bind_ok in Hc. destruct Hc as (s2 & H2 & Hc).
  assert (SB : SF s1 (emit (hq_set_job s1 j1) (OEv (EvFailed t k)))).
  { destruct (jt_find (j_tasks j) (snd t)) as [v|] eqn:Ef; [|discriminate].
    assert (Hj1' : j_id j1 = j_id j /\ j_tasks j1 = jt_set (j_tasks j) (snd t) JX).
    { destruct v; try discriminate.
      - inversion Hj1; subst. split; reflexivity.
      - apply bind_ok in Hj1. destruct Hj1 as (nr & _ & Hj1). inversion Hj1; subst. split; reflexivity. }
    destruct Hj1' as [I1 T1].
    eapply (SF_emit1 _ _ (OEv (EvFailed t k))); [reflexivity | intros x Ex; discriminate |].
    intros x Hx. left. change (task_state (emit ?a ?o) x) with (task_state a x) in Hx.
    rewrite (TS_set_one s1 207 t j j1 JX x Hj I1 T1) in Hx.
    destruct (tid_eqb x t) eqn:Ext; [discriminate|]. split; [exact Hx|].
    intros [E|[]]. subst x. rewrite ProofsMore.tid_eqb_refl in Ext. discriminate. }
  assert (S12 : SF s s2).
  { eapply SF_trans; [eapply SF_abort; exact H1|]. eapply SF_trans; [exact SB | eapply SF_check_termination; exact H2]. }
  apply bind_ok in Hc. destruct Hc as (j2 & _ & Hc).
  destruct (j_maxfails j2) as [mf|]; [|inversion Hc; subst; exact S12].
  destruct (N.ltb mf (j_nfail j2)); [|inversion Hc; subst; exact S12].
  apply bind_ok in Hc. destruct Hc as (s3 & H3 & Hc). inversion Hc; subst.
  eapply SF_trans; [exact S12 | eapply SF_abort; exact H3].
Qed.

(** * Reactor *)
Lemma SF_task_failed s w id k s' : task_failed s w id k = Ok s' -> SF s s'.
Proof.
  intros Hc. unfold task_failed in Hc.
  destruct (find_task _ id) as [t|]; [|inversion Hc; subst; apply SF_refl].
  inv_binds Hc.
  match goal with X : process_task_failed ?s0 _ _ _ = Ok (?s1, ?ids) |- _ =>
    assert (T1 : SF s s1) by (eapply (SF_trans _ s0); [apply SF_core; reflexivity | eapply SF_process_task_failed; exact X]);
    destruct ids; [inversion Hc; subst; exact T1|] end.
  eapply SF_trans; [exact T1|]. apply SF_core; [eapply on_cancel_tasks_hq; exact Hc | eapply on_cancel_tasks_snd; exact Hc].
Qed.

Lemma SF_task_finished s w id s' b : task_finished s w id = Ok (s', b) -> SF s s'.
Proof.
  intros Hc. unfold task_finished in Hc.
  destruct (find_task _ id) as [t|]; [|inversion Hc; subst; apply SF_refl].
  inv_binds Hc.
  match goal with X : process_task_finished ?s0 _ = Ok ?s1 |- _ =>
    assert (T1 : SF s s1) by (eapply (SF_trans _ s0); [apply SF_core; reflexivity | eapply SF_finished; exact X]) end.
  match goal with X : process_retracted _ _ = Ok _ |- _ =>
    pose proof (process_retracted_hq _ _ _ X) as Q2; pose proof (process_retracted_snd _ _ _ X) as S2 end.
  match type of Hc with match ?st with _ => _ end = _ => destruct st; try discriminate end.
  inversion Hc; subst. eapply SF_trans; [exact T1|]. apply SF_core; [exact Q2 | exact S2].
Qed.

Lemma SF_task_running s w id rv s' b : task_running s w id rv = Ok (s', b) -> SF s s'.
Proof.
  intros Hc. unfold task_running in Hc.
  destruct (find_task _ id) as [t|]; [|inversion Hc; subst; apply SF_refl].
  inv_binds Hc. inversion Hc; subst.
  match goal with X : process_task_started ?s1 _ _ _ _ = Ok _ |- _ =>
    eapply (SF_trans _ s1); [|eapply SF_started; exact X] end.
  match goal with X : match t_state t with _ => _ end = Ok _ |- _ => rename X into Hm end.
  destruct (t_state t); try discriminate.
  - destruct (negb (N.eqb w0 w)); [discriminate|]. destruct (negb (N.eqb rv0 rv)); [discriminate|]. inversion Hm; subst. apply SF_core; reflexivity.
  - destruct (negb (N.eqb w0 w)); [discriminate|]. inv_binds Hm. inversion Hm; subst. apply SF_core; reflexivity.
  - destruct (negb (N.eqb w0 w)); [discriminate|]. inv_binds Hm. inversion Hm; subst. apply SF_core; reflexivity.
  - destruct ws; [discriminate|]. destruct (N.eqb w0 w); [|discriminate]. inversion Hm; subst. apply SF_refl.
Qed.

Lemma SF_apply_updates us : forall s w need s' need', apply_updates s w us need = Ok (s', need') -> SF s s'.
Proof.
  induction us as [|u r IH]; cbn [apply_updates]; intros s w need s' need' H; [inversion H; subst; apply SF_refl|].
  apply bind_ok in H. destruct H as ([s1 n1] & Hu & H).
  assert (S1 : SF s s1).
  { destruct u.
    - eapply SF_task_finished; exact Hu.
    - apply bind_ok in Hu. destruct Hu as (sx & Hf & Hu). inversion Hu; subst. eapply SF_task_failed; exact Hf.
    - eapply SF_task_running; exact Hu.
    - eapply SF_task_running; exact Hu.
    - apply SF_core; [exact (task_reject_same _ _ _ _ _ _ Hu) | eapply task_reject_snd; exact Hu].
    - apply bind_ok in Hu. destruct Hu as (sx & Hf & Hu). inversion Hu; subst.
      apply SF_core; [exact (request_enabled_same _ _ _ _ _ Hf)|].
      unfold request_enabled in Hf. inv_binds Hf. inversion Hf; reflexivity. }
  eapply SF_trans; [exact S1 | eapply IH; exact H].
Qed.

Lemma SF_on_task_update s w us s' : on_task_update s w us = Ok s' -> SF s s'.
Proof.
  intros H. unfold on_task_update in H. apply bind_ok in H. destruct H as ([s1 need] & Hu & H).
  pose proof (SF_apply_updates _ _ _ _ _ _ Hu) as T1.
  destruct (need && _); inversion H; subst; [|exact T1].
  eapply SF_trans; [exact T1 | apply SF_core; reflexivity].
Qed.

Lemma SF_lost_fail_running l : forall s reason s', lost_fail_running s reason l = Ok s' -> SF s s'.
Proof.
  induction l as [|id r IH]; cbn [lost_fail_running]; intros s reason s' H; [inversion H; subst; apply SF_refl|].
  destruct (find_task _ id) as [t|]; [|eapply IH; eassumption].
  assert (Hfail : forall s0 k, hq_of s0 = hq_of s -> snd s0 = snd s ->
            (do s1 <- task_failed s0 None id k; lost_fail_running s1 reason r) = Ok s' -> SF s s').
  { intros s0 k Q0 S0 Hx. apply bind_ok in Hx. destruct Hx as (s1 & Hf & Hx).
    eapply SF_trans; [apply SF_core; [exact Q0 | exact S0]|].
    eapply SF_trans; [eapply SF_task_failed; exact Hf | eapply IH; exact Hx]. }
  destruct (t_climit t).
  - eapply (Hfail s); [reflexivity | reflexivity | exact H].
  - destruct (reason_is_failure reason); [|eapply IH; eassumption].
    destruct (increment_crash_counter t) as [t' limit]. destruct limit.
    + eapply (Hfail (st_core s (upd_task (core_of s) t'))); [reflexivity | reflexivity | exact H].
    + eapply SF_trans; [|eapply IH; exact H]. apply SF_core; reflexivity.
  - destruct (reason_is_failure reason); [|eapply IH; eassumption].
    destruct (increment_crash_counter t) as [t' limit]. destruct limit.
    + eapply (Hfail (st_core s (upd_task (core_of s) t'))); [reflexivity | reflexivity | exact H].
    + eapply SF_trans; [|eapply IH; exact H]. apply SF_core; reflexivity.
Qed.

(** * Server *)
Lemma SF_on_remove_worker s w reason a p t s' : on_remove_worker s w reason a p t = Ok s' -> SF s s'.
Proof.
  intros Hc. unfold on_remove_worker in Hc.
  destruct (find_worker _ w) as [wk|]; [|discriminate].
  apply bind_ok in Hc. destruct Hc as ([[c2 running] retracted] & _ & Hc).
  destruct (negb (perm_of_set t _)); [discriminate|].
  apply bind_ok in Hc. destruct Hc as (s3 & H3 & Hc). apply bind_ok in Hc. destruct Hc as (s4 & H4 & Hc).
  apply bind_ok in Hc. destruct Hc as (s6 & H6 & Hc). apply bind_ok in Hc. destruct Hc as (s7 & H7 & Hc). inversion Hc; subst.
  pose proof (lost_retracting_same _ _ _ _ H3) as Q3. unfold hq_same in Q3. pose proof (lost_retracting_snd _ _ _ _ H3) as S3.
  pose proof (process_retracted_hq _ _ _ H4) as Q4. pose proof (process_retracted_snd _ _ _ H4) as S4.
  set (s5 := broadcast s4 (DLostWorker w)) in *.
  assert (T5 : SF s s5).
  { apply SF_core; [change (hq_of s4 = hq_of s); rewrite Q4, Q3; reflexivity | change (snd s4 = snd s); rewrite S4, S3; reflexivity]. }
  eapply SF_trans; [exact T5|]. eapply SF_trans; [eapply SF_worker_lost; exact H6|].
  eapply SF_trans; [eapply SF_lost_fail_running; exact H7|]. apply SF_core; reflexivity.
Qed.

(** * Client requests *)
Lemma nojr_jobs s s' : h_jobs (hq_of s') = h_jobs (hq_of s) -> nojr s s'.
Proof. intros E x Hx. unfold task_state in *. rewrite E in Hx. exact Hx. Qed.

Lemma nojr_new_job s jid open mf cnt :
  nojr s (hq_with s (set_job (hq_jobs s) (mkJob jid open [] 0 0 0 0 0 false mf)) cnt).
Proof.
  intros x Hx. unfold task_state, hq_of, hq_with, hq_jobs in *. cbn in Hx. rewrite find_job_set_any in Hx. cbn in Hx.
  destruct (N.eqb (fst x) jid); [discriminate | exact Hx].
Qed.

Lemma SF_submit_tail s4 jid ids tasks s' :
  (do j <- hq_get_job s4 jid 222;
   do j' <- attach_ids j ids;
   do s6 <- on_new_tasks (hq_set_job s4 j') tasks;
   submit_ok_resp s6 jid) = Ok s' -> SF s4 s'.
Proof.
  intros H. apply bind_ok in H. destruct H as (j & Hj & H). apply bind_ok in H. destruct H as (j' & Ha & H).
  apply bind_ok in H. destruct H as (s6 & H6 & H).
  destruct (attach_ids_find _ _ _ Ha) as [I1 I2]. destruct (hq_get_find' _ _ _ _ Hj) as [Hf Eid].
  eapply SF_trans; [apply (SF_quiet s4 (hq_set_job s4 j')); [reflexivity|]|].
  - intros x Hx. rewrite TS_set, I1, Eid in Hx. destruct (N.eqb (fst x) jid) eqn:E; [|exact Hx].
    apply N.eqb_eq in E. rewrite I2 in Hx. destruct (n_mem (snd x) ids); [discriminate|].
    rewrite (TS_find s4 jid j x Hf E). exact Hx.
  - eapply SF_trans; [apply SF_core; [eapply on_new_tasks_hq; exact H6 | eapply on_new_tasks_snd; exact H6]|].
    unfold submit_ok_resp in H. apply bind_ok in H. destruct H as (jx & _ & H). inversion H; subst.
    apply SF_emit_quiet. reflexivity.
Qed.

Lemma SF_submit_array s jobsel ids entries rq prio cl tlim mf s' :
  handle_submit_array s jobsel ids entries rq prio cl tlim mf = Ok s' -> SF s s'.
Proof.
  intros H. unfold handle_submit_array in H.
  match type of H with (match ?x with Some _ => _ | None => _ end) = _ => destruct x end;
    [inversion H; subst; apply SF_emit_quiet; reflexivity|].
  apply bind_ok in H. destruct H as ([acc s1] & Hr & H).
  assert (E1 : SF s s1).
  { destruct jobsel as [jid|].
    - destruct (find_job (hq_jobs s) jid) as [j|]; [|inversion Hr; subst; apply SF_refl].
      destruct (negb (j_open j)); inversion Hr; subst; [apply SF_emit_quiet; reflexivity | apply SF_refl].
    - inversion Hr; subst. apply SF_quiet; [reflexivity | apply nojr_jobs; reflexivity]. }
  destruct acc as [[[jid is_new] ids']|].
  - cbv zeta in H.
    match type of H with context [get_or_create_rq ?sx rq] => set (s3 := sx) in *; destruct (get_or_create_rq s3 rq) as [s4 rqi] eqn:Erq end.
    assert (E3 : SF s1 s3).
    { subst s3. eapply SF_trans; [apply (SF_emit_quiet s1 (OEv (EvSubmit jid is_new (N.of_nat (length ids'))))); reflexivity|].
      destruct is_new; [|apply SF_refl]. apply SF_quiet; [reflexivity | apply nojr_new_job]. }
    assert (E4 : SF s3 s4).
    { apply SF_core; [eapply get_or_create_rq_keeps; exact Erq|].
      pose proof (get_or_create_rq_snd s3 rq) as S4. rewrite Erq in S4. exact S4. }
    eapply SF_trans; [exact E1|]. eapply SF_trans; [exact E3|]. eapply SF_trans; [exact E4|].
    eapply SF_submit_tail. exact H.
  - destruct jobsel; [match type of H with (match ?x with Some _ => _ | None => _ end) = _ => destruct x end|];
      injection H as Hx; rewrite <- Hx; try (eapply SF_trans; [exact E1 | apply SF_emit_quiet; reflexivity]); exact E1.
Qed.

Lemma SF_submit_graph s jobsel rqs ts mf s' :
  handle_submit_graph s jobsel rqs ts mf = Ok s' -> SF s s'.
Proof.
  intros H. unfold handle_submit_graph in H.
  apply bind_ok in H. destruct H as (v1 & _ & H).
  match type of H with (match ?x with Some _ => _ | None => _ end) = _ => destruct x end;
    [inversion H; subst; apply SF_emit_quiet; reflexivity|].
  apply bind_ok in H. destruct H as ([acc s1] & Hr & H).
  assert (E1 : SF s s1).
  { destruct jobsel as [jid|].
    - destruct (find_job (hq_jobs s) jid) as [j|]; [|inversion Hr; subst; apply SF_emit_quiet; reflexivity].
      destruct (negb (j_open j)); inversion Hr; subst; [apply SF_emit_quiet; reflexivity | apply SF_refl].
    - inversion Hr; subst. apply SF_quiet; [reflexivity | apply nojr_jobs; reflexivity]. }
  destruct acc as [[jid is_new]|].
  - cbv zeta in H.
    match type of H with context [fold_left ?f rqs (?sx, [])] => set (s3 := sx) in *; destruct (fold_left f rqs (s3, [])) as [s4 rqis] eqn:Erq end.
    assert (E3 : SF s1 s3).
    { subst s3. eapply SF_trans; [apply (SF_emit_quiet s1 (OEv (EvSubmit jid is_new (N.of_nat (length ts))))); reflexivity|].
      destruct is_new; [|apply SF_refl]. apply SF_quiet; [reflexivity | apply nojr_new_job]. }
    assert (E4 : SF s3 s4).
    { apply SF_core; [eapply fold_rqs_same; exact Erq | eapply fold_rqs_snd; exact Erq]. }
    eapply SF_trans; [exact E1|]. eapply SF_trans; [exact E3|]. eapply SF_trans; [exact E4|].
    apply bind_ok in H. destruct H as (j & Hj & H). apply bind_ok in H. destruct H as (j' & Ha & H).
    apply bind_ok in H. destruct H as (tasks & _ & H).
    eapply (SF_submit_tail s4 jid (map gt_id ts) tasks). rewrite Hj. cbn [bind]. rewrite Ha. cbn [bind]. exact H.
  - inversion H; subst. exact E1.
Qed.

Lemma SF_cancel s jid s' : handle_cancel s jid = Ok s' -> SF s s'.
Proof.
  intros H. unfold handle_cancel in H. destruct (find_job _ jid) as [jb|]; [|inversion H; subst; apply SF_emit_quiet; reflexivity].
  destruct (non_finished_task_ids jb) eqn:En; [inversion H; subst; apply SF_emit_quiet; reflexivity|]. rewrite <- En in H.
  apply bind_ok in H. destruct H as (s1 & H1 & H). apply bind_ok in H. destruct H as (al & _ & H).
  apply bind_ok in H. destruct H as (s2 & H2 & H). inversion H; subst.
  eapply SF_trans; [apply SF_core; [eapply on_cancel_tasks_hq; exact H1 | eapply on_cancel_tasks_snd; exact H1]|].
  eapply SF_trans; [eapply SF_set_cancel; exact H2 | apply SF_emit_quiet; reflexivity].
Qed.

Lemma SF_close s jid s' : handle_close s jid = Ok s' -> SF s s'.
Proof.
  intros H. unfold handle_close in H.
  destruct (find_job _ jid) as [jb|] eqn:Ef; [|inversion H; subst; apply SF_emit_quiet; reflexivity].
  destruct (j_open jb); [|inversion H; subst; apply SF_emit_quiet; reflexivity].
  apply bind_ok in H. destruct H as (s1 & H1 & H). inversion H; subst.
  eapply SF_trans; [|apply SF_emit_quiet; reflexivity].
  eapply SF_trans; [|eapply SF_check_termination; exact H1].
  eapply SF_trans; [|apply SF_emit_quiet; reflexivity].
  apply SF_quiet; [reflexivity|]. intros x Hx. rewrite TS_set in Hx. cbn [j_id j_tasks] in Hx.
  rewrite (find_job_id _ _ _ Ef) in Hx.
  destruct (N.eqb (fst x) jid) eqn:E; [|exact Hx]. apply N.eqb_eq in E. rewrite (TS_find s jid jb x Ef E). exact Hx.
Qed.

Lemma SF_forget s jid s' : handle_forget s jid = Ok s' -> SF s s'.
Proof.
  intros H. unfold handle_forget in H. destruct (find_job _ jid) as [jb|]; [|inversion H; subst; apply SF_emit_quiet; reflexivity].
  apply bind_ok in H. destruct H as (na & _ & H).
  destruct (negb (j_open jb) && na); inversion H; subst; [|apply SF_emit_quiet; reflexivity].
  eapply SF_trans; [|apply SF_emit_quiet; reflexivity].
  apply SF_quiet; [reflexivity|]. intros x Hx. unfold task_state, hq_of, hq_with, hq_jobs in *. cbn in Hx.
  destruct (N.eq_dec (fst x) jid) as [E|E].
  - rewrite E, find_job_del_same in Hx. discriminate.
  - rewrite (find_job_del _ _ _ E) in Hx. exact Hx.
Qed.

(** * One step of the whole system, and whole histories *)
Theorem SF_step s o s' outs : step s o = Ok (s', outs) -> SF (s, []) (s', outs).
Proof.
  intros H. destruct o; cbn [step] in H.
  - unfold on_new_worker in H. inversion H; subst.
    eapply (SF_ext _ _ [OEv (EvWConn _); ONewWorker _]); [reflexivity | reflexivity | apply nojr_same; reflexivity].
  - destruct (find_proc _ w); [|discriminate]. eapply SF_on_remove_worker; exact H.
  - destruct (bad_submit_lengths _ _); [inversion H; subst; eapply (SF_ext _ _ [_]); [reflexivity | reflexivity | apply nojr_same; reflexivity]|]. eapply SF_submit_array; exact H.
  - destruct (bad_graph_rq _ _); [inversion H; subst; eapply (SF_ext _ _ [_]); [reflexivity | reflexivity | apply nojr_same; reflexivity]|]. destruct (dead_dep _ _ _); [inversion H; subst; eapply (SF_ext _ _ [_]); [reflexivity | reflexivity | apply nojr_same; reflexivity]|].
    eapply SF_submit_graph; exact H.
  - unfold handle_open in H.
    match type of H with Ok ?x = _ => assert (Hx : (s', outs) = x) by congruence; rewrite Hx; clear Hx H end.
    eapply (SF_trans _ (hq_with (s, []) _ _)); [apply SF_quiet; [reflexivity | apply nojr_new_job]|].
    eapply SF_trans; apply SF_emit_quiet; reflexivity.
  - eapply SF_close; exact H.
  - eapply SF_cancel; exact H.
  - eapply SF_forget; exact H.
  - destruct (find_proc _ w) as [p|]; [|discriminate]. destruct (p_down p); [discriminate|].
    inv_binds H. inversion H; subst.
    eapply (SF_ext _ _ (ODown _ _ :: map OLaunch _)); [reflexivity | unfold terminal_ids; cbn [flat_map tids_of app]; apply tids_launch | apply nojr_same; reflexivity].
  - destruct (find_proc _ w) as [p|]; [|discriminate]. destruct (p_up p) as [|m rest]; [discriminate|].
    destruct m.
    + match type of H with on_task_update ?s1 _ _ = _ =>
        eapply (SF_trans _ s1); [eapply (SF_ext _ _ [_]); [reflexivity | reflexivity | apply nojr_same; reflexivity] | eapply SF_on_task_update; exact H] end.
    + match type of H with on_retract_response ?s1 _ _ = _ =>
        eapply (SF_trans _ s1); [eapply (SF_ext _ _ [_]); [reflexivity | reflexivity | apply nojr_same; reflexivity]|] end.
      apply SF_core; [eapply on_retract_response_same; exact H|].
      unfold on_retract_response in H. destruct (retract_response_states _ w ids []) as [c' groups].
      apply bind_ok in H. destruct H as (s2 & H & H2).
      assert (Es : snd (s', outs) = snd s2) by (destruct (retract_wakes _ _ _ _); inversion H2; subst; reflexivity).
      rewrite Es, (send_redirected_snd _ _ _ H). reflexivity.
  - destruct (c_flag (s_core s)); [|discriminate].
    apply SF_core; [eapply run_scheduling_same; exact H | eapply run_scheduling_snd; exact H].
  - destruct (find_proc _ w) as [p|]; [|discriminate]. inv_binds H. inversion H; subst.
    eapply (SF_ext _ _ (map OLaunch _)); [reflexivity | apply tids_launch | apply nojr_same; reflexivity].
  - destruct (find_proc _ w) as [p|]; [|discriminate]. inversion H; subst. apply SF_core; reflexivity.
  - inversion H; subst. apply SF_core; reflexivity.
  - inv_binds H. inversion H; subst. eapply (SF_ext _ _ [_]); [reflexivity | reflexivity | apply nojr_same; reflexivity].
Qed.

Theorem run_IPs ops : forall s pre s' outs,
  IPs (s, []) pre -> run s ops = Ok (s', outs) -> IPs (s', []) (pre ++ outs).
Proof.
  induction ops as [|o r IH]; cbn [run]; intros s pre s' outs I H.
  - inversion H; subst. rewrite app_nil_r. exact I.
  - apply bind_ok in H. destruct H as ([s1 o1] & H1 & H). apply bind_ok in H. destruct H as ([s2 o2] & H2 & H). inversion H; subst.
    rewrite app_assoc. eapply IH; [|exact H2].
    pose proof (SF_step _ _ _ _ H1 pre I) as I1. unfold IPs in *. cbn [snd] in *. rewrite app_nil_r. exact I1.
Qed.
