(** Bridge, part 1: the job-layer simulation relation between the HQ layer of the system model and
    the abstract journal machine [Gen.G], the three-valued run [lrun] ("accepted" / "first rejected
    record is a start-or-worker record" / "first rejected record is a job-layer record"), and one
    lemma per journal record kind.  Nothing here mentions the tako core. *)
From HQ Require Import Base.Prelude Cluster.Types Cluster.Core Cluster.Reactor Cluster.Worker Cluster.Server Cluster.Sys Cluster.ProofsJob Cluster.ProofsMore.
From HQ Require Journal.Event Journal.Restore Journal.Gen Journal.Maps.
From HQ Require Import Cluster.Bridge.
From Coq Require Import ZArith Lia.
Require Import ZifyBool ZifyN ZifyNat.
Local Open Scope N_scope.
Arguments N.add : simpl never.
Arguments N.ltb : simpl never.
Arguments N.eqb : simpl never.

(** * The relation *)

(** A pending task (waiting or running in the job layer) is pending in [G]; a recorded outcome is
    the same outcome.  (Waiting / running are NOT distinguished here: the job layer puts a task
    back to waiting silently, [G] does it at the [WorkerLost] record of its root worker; that the
    two agree is the core-dependent part, see [BridgeInv].) *)
Definition st_rel (v : jstate) (x : Gen.gstate) : Prop :=
  match v with
  | JW | JR => Gen.g_terminal x = false
  | JF => x = Gen.GFinished
  | JX => x = Gen.GFailed
  | JC => x = Gen.GCanceled
  | JA => x = Gen.GAborted
  end.

Definition task_rel (jt : list (N * jstate)) (gt : Event.map Gen.GTask) : Prop :=
  forall t, match jt_find jt t, Event.lookup t gt with
            | Some v, Some x => st_rel v (Gen.gt_state x)
            | None, None => True
            | _, _ => False
            end.

Definition JRel (jb : job) (gj : Gen.GJob) : Prop :=
  Gen.gj_open gj = j_open jb /\ NoDup (Event.keys (Gen.gj_tasks gj)) /\ task_rel (j_tasks jb) (Gen.gj_tasks gj).

(** Jobs: a job of the job layer without completion date is in [G] with the same open flag and
    tasks; a completed job is not in [G]; a job [G] still has but the job layer has not was
    forgotten while terminated (a closed job that never had a task). *)
Definition RelJ (h : hq) (g : Gen.G) : Prop :=
  (forall j, match find_job (h_jobs h) j with
             | Some jb => if j_completed jb then Event.lookup j (Gen.g_jobs g) = None
                          else exists gj, Event.lookup j (Gen.g_jobs g) = Some gj /\ JRel jb gj
             | None => match Event.lookup j (Gen.g_jobs g) with
                       | Some gj => Gen.job_terminated gj = true
                       | None => True
                       end
             end)
  /\ Gen.g_max_job g + 1 = h_counter h.

(** * The three-valued run *)
Definition core_event (e : Event.Event) : bool :=
  match e with
  | Event.ETaskStarted _ _ _ _ | Event.ETaskFinished _ _ | Event.EWorkerConnected _ _ | Event.EWorkerLost _ _ => true
  | _ => false
  end.

Inductive lres := LOk (g : Gen.G) | LCore | LBad.

Definition lstep (g : Gen.G) (e : Event.Event) : lres :=
  match Gen.gstep g e with
  | Some g' => LOk g'
  | None => if core_event e then LCore else LBad
  end.

Fixpoint lrun (g : Gen.G) (evs : list Event.Event) : lres :=
  match evs with
  | [] => LOk g
  | e :: r => match lstep g e with LOk g' => lrun g' r | x => x end
  end.

Lemma lrun_app a : forall g b, lrun g (a ++ b) = match lrun g a with LOk g1 => lrun g1 b | x => x end.
Proof.
  induction a as [|e r IH]; intros g b; cbn [lrun app]; [reflexivity|].
  destruct (lstep g e); [apply IH | reflexivity | reflexivity].
Qed.

Lemma lrun_grun evs : forall g g', lrun g evs = LOk g' <-> Gen.grun g evs = Some g'.
Proof.
  induction evs as [|e r IH]; intros g g'; cbn [lrun Gen.grun].
  - split; intros H; inversion H; reflexivity.
  - unfold lstep. destruct (Gen.gstep g e) as [g1|]; [apply IH|].
    split; [|discriminate]. destruct (core_event e); discriminate.
Qed.

(** [SimE h evs h']: from any [G] related to [h] the records [evs] are accepted with a result
    related to [h'], unless the first rejected record is a start / finish / worker record. *)
Definition SimE (h : hq) (evs : list Event.Event) (h' : hq) : Prop :=
  forall g, RelJ h g -> match lrun g evs with LOk g' => RelJ h' g' | LCore => True | LBad => False end.

Lemma SimE_nil h : SimE h [] h.
Proof. intros g H. exact H. Qed.

Lemma SimE_app h a h1 b h2 : SimE h a h1 -> SimE h1 b h2 -> SimE h (a ++ b) h2.
Proof.
  intros A B g H. rewrite lrun_app. specialize (A g H). destruct (lrun g a) as [g1| |]; [|exact I | exact A].
  exact (B g1 A).
Qed.

Lemma SimE_one h e h' :
  (forall g, RelJ h g -> match Gen.gstep g e with Some g' => RelJ h' g' | None => core_event e = true end) -> SimE h [e] h'.
Proof.
  intros A g H. specialize (A g H). cbn [lrun]. unfold lstep. destruct (Gen.gstep g e); [exact A|]. rewrite A. exact I.
Qed.

(** * Small facts *)
Lemma g_terminal_st v x : st_rel v x -> Gen.g_terminal x = match v with JW | JR => false | _ => true end.
Proof. destruct v; cbn; intros H; subst; auto. Qed.

Lemma cnt_pos l t v : jt_find l t = Some v -> 0 < cnt l v.
Proof.
  induction l as [|[k x] r IH]; cbn [jt_find cnt]; [discriminate|].
  destruct (N.eqb t k).
  - intros H. inversion H; subst. destruct v; cbn [jst_eqb]; lia.
  - intros H. specialize (IH H). destruct (jst_eqb x v); lia.
Qed.

Lemma completed_no_pending jb t v : JOK jb -> j_completed jb = true -> jt_find (j_tasks jb) t = Some v -> v <> JW /\ v <> JR.
Proof.
  intros [_ _ _ _ _ _ Cm] Hc Hf. destruct (Cm Hc) as (_ & Hw & Hr). pose proof (cnt_pos _ _ _ Hf) as Hp.
  split; intros ->; lia.
Qed.

Lemma RelJ_job h g j jb : RelJ h g -> find_job (h_jobs h) j = Some jb -> j_completed jb = false ->
  exists gj, Event.lookup j (Gen.g_jobs g) = Some gj /\ JRel jb gj.
Proof. intros [H _] Hf Hc. specialize (H j). rewrite Hf, Hc in H. exact H. Qed.

Lemma RelJ_job_inv h g j jb gj : RelJ h g -> find_job (h_jobs h) j = Some jb -> Event.lookup j (Gen.g_jobs g) = Some gj ->
  j_completed jb = false /\ JRel jb gj.
Proof.
  intros [H _] Hf Hl. specialize (H j). rewrite Hf in H. destruct (j_completed jb); [congruence|].
  destruct H as (gj' & Hl' & HR). split; [reflexivity|]. congruence.
Qed.

Lemma task_rel_set jt gt t v x x0 :
  task_rel jt gt -> Event.lookup t gt = Some x0 -> st_rel v (Gen.gt_state x) ->
  task_rel (jt_set jt t v) (Event.insert t x gt).
Proof.
  intros H Hl Hs t'. rewrite Maps.lookup_insert. destruct (N.eqb t' t) eqn:E.
  - apply N.eqb_eq in E. subst t'. rewrite jt_find_set_same. exact Hs.
  - assert (t' <> t) by (intros ->; rewrite N.eqb_refl in E; discriminate).
    rewrite jt_find_set_other by assumption. apply H.
Qed.

Lemma nodup_set_task gj t x : NoDup (Event.keys (Gen.gj_tasks gj)) -> NoDup (Event.keys (Gen.gj_tasks (Gen.gj_set_task gj t x))).
Proof. intros H. cbn. apply Maps.nodup_insert. exact H. Qed.

(** Replace one job on both sides. *)
Lemma RelJ_upd h h' g j jb' gj' :
  RelJ h g ->
  (forall id, find_job (h_jobs h') id = if N.eqb id j then Some jb' else find_job (h_jobs h) id) ->
  h_counter h' = h_counter h ->
  j_completed jb' = false -> JRel jb' gj' ->
  RelJ h' (Gen.g_set_jobs g (Event.insert j gj' (Gen.g_jobs g))).
Proof.
  intros [HJ HM] Hf Hc Hcm HR. split; [|cbn; rewrite Hc; exact HM].
  intros id. rewrite Hf. cbn [Gen.g_set_jobs Gen.g_jobs]. rewrite Maps.lookup_insert.
  destruct (N.eqb id j) eqn:E; [rewrite Hcm; eexists; split; [reflexivity | exact HR]|].
  exact (HJ id).
Qed.

(** Only the job layer changes, without a record: pending tasks stay pending (running -> waiting). *)
Lemma RelJ_quiet h h' g j jb jb' :
  RelJ h g -> find_job (h_jobs h) j = Some jb ->
  (forall id, find_job (h_jobs h') id = if N.eqb id j then Some jb' else find_job (h_jobs h) id) ->
  h_counter h' = h_counter h -> j_completed jb' = j_completed jb -> j_open jb' = j_open jb ->
  (forall gt, task_rel (j_tasks jb) gt -> task_rel (j_tasks jb') gt) ->
  RelJ h' g.
Proof.
  intros [HJ HM] Hfj Hf Hc Hcm Ho HT. split; [|rewrite Hc; exact HM].
  intros id. rewrite Hf. destruct (N.eqb id j) eqn:E; [|exact (HJ id)].
  apply N.eqb_eq in E. subst id. specialize (HJ j). rewrite Hfj in HJ. rewrite Hcm.
  destruct (j_completed jb); [exact HJ|]. destruct HJ as (gj & Hl & Ho' & Hn & Ht).
  exists gj. split; [exact Hl|]. split; [congruence|]. split; [exact Hn | apply HT; exact Ht].
Qed.
