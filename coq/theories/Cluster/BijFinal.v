(** C02 bijection, part 6: submits, open / close / forget, and the theorem for every history. *)
From HQ Require Import Base.Prelude Cluster.Types Cluster.Core Cluster.Reactor Cluster.Worker Cluster.Server Cluster.Sys Cluster.ProofsJob Cluster.ProofsMore Cluster.ProofsTerminal Cluster.ProofsStep Cluster.ProofsFinal Cluster.BijBase Cluster.BijCore Cluster.BijHq Cluster.BijSt Cluster.BijReact.
From Coq Require Import ZArith Lia Sorting.Sorted.
Local Open Scope N_scope.

Arguments N.add : simpl never.
Arguments N.sub : simpl never.

(** * New tasks in the core *)
Lemma on_new_tasks_grow s ts s' :
  CS (core_of s) -> KD (K s) -> Forall new_ok ts -> on_new_tasks s ts = Ok s' ->
  CS (core_of s') /\ KD (K s') /\ (forall x, present (K s') x <-> present (K s) x \/ In x (map t_id ts)).
Proof.
  intros Hs Hd Hn H. unfold on_new_tasks in H.
  destruct ts as [|t0 tr] eqn:Et; [inversion H; subst; split; [exact Hs | split; [exact Hd | intros x; cbn; tauto]]|].
  rewrite <- Et in *. clear Et.
  apply bind_ok in H. destruct H as ([c' retracted] & Ha & H). apply bind_ok in H. destruct H as (s1 & Hr & H). inversion H; subst.
  destruct (add_new_tasks_spec _ _ _ _ _ Hs Hd Hn Ha) as (A1 & A2 & A3).
  pose proof (process_retracted_K (st_core s c') _ _ A1 Hr) as K1.
  change (CS (core_of s1) /\ KD (K s1) /\ (forall x, present (K s1) x <-> present (K s) x \/ In x (map t_id ts))).
  rewrite K1. split; [eapply CS_keys; [exact K1 | exact A1] | split; [exact A2 | exact A3]].
Qed.

(** * New tasks in the job *)
Lemma attach_ids_find ids : forall j j', attach_ids j ids = Ok j' ->
  j_id j' = j_id j /\ forall k, jt_find (j_tasks j') k = if n_mem k ids then Some JW else jt_find (j_tasks j) k.
Proof.
  induction ids as [|i r IH]; cbn [attach_ids n_mem]; intros j j' H; [inversion H; subst; split; reflexivity|].
  destruct (jt_find (j_tasks j) i) eqn:Ef; [discriminate|].
  destruct (IH _ _ H) as [I1 I2]. split; [rewrite I1; reflexivity|].
  intros k. rewrite I2. destruct (n_mem k r); [rewrite orb_true_r; reflexivity|]. rewrite orb_false_r.
  cbn [job_set_task job_upd j_tasks]. rewrite jt_find_set. reflexivity.
Qed.

Lemma n_mem_in k l : n_mem k l = true <-> In k l.
Proof.
  induction l as [|h t IH]; cbn [n_mem In]; [split; [discriminate | intros []]|].
  rewrite orb_true_iff, N.eqb_eq, IH. split; intros [H|H]; auto.
Qed.

(** The common tail of both submit handlers. *)
Lemma submit_tail_CB s4 jid ids tasks s' :
  CB s4 ->
  map t_id tasks = map (fun i => (jid, i)) ids -> Forall new_ok tasks ->
  (do j <- hq_get_job s4 jid 222;
   do j' <- attach_ids j ids;
   do s6 <- on_new_tasks (hq_set_job s4 j') tasks;
   submit_ok_resp s6 jid) = Ok s' ->
  CB s'.
Proof.
  intros HC Hids Hn H. apply bind_ok in H. destruct H as (j & Hj & H). apply bind_ok in H. destruct H as (j' & Ha & H).
  apply bind_ok in H. destruct H as (s6 & H6 & H).
  destruct (jt_get _ _ _ _ Hj) as [Ej Eid]. destruct (attach_ids_find _ _ _ Ha) as [I1 I2].
  destruct (on_new_tasks_grow (hq_set_job s4 j') tasks s6 (cb_s _ HC) (cb_d _ HC) Hn H6) as (G1 & G2 & G3).
  pose proof (on_new_tasks_hq _ _ _ H6) as Q6.
  assert (Hs' : K s' = K s6 /\ hq_of s' = hq_of s6).
  { unfold submit_ok_resp in H. apply bind_ok in H. destruct H as (jx & _ & H). inversion H; subst. split; reflexivity. }
  destruct Hs' as [Ks' Qs'].
  constructor.
  - eapply CS_keys; [exact Ks' | exact G1].
  - rewrite Ks'. exact G2.
  - intros x. rewrite Ks', G3.
    change (present (K s4) x \/ In x (map t_id tasks) <-> active s' x).
    rewrite (active_same s6 s') by (apply jt_same; exact Qs').
    rewrite (active_same (hq_set_job s4 j') s6) by (apply jt_same; exact Q6).
    rewrite (cb_b _ HC), Hids. unfold active. rewrite jt_set_job, I1, Eid.
    destruct (N.eqb (fst x) jid) eqn:E1.
    + apply N.eqb_eq in E1. rewrite E1, Ej. split.
      * intros [(l & Hl & Hact)|Hin].
        -- inversion Hl; subst l. eexists. split; [reflexivity|]. rewrite I2.
           destruct (n_mem (snd x) ids); [left; reflexivity | exact Hact].
        -- apply in_map_iff in Hin. destruct Hin as (i & Ex & Hi). subst x. cbn.
           eexists. split; [reflexivity|]. rewrite I2. apply n_mem_in in Hi. rewrite Hi. left; reflexivity.
      * intros (l & Hl & Hact). inversion Hl; subst l. rewrite I2 in Hact.
        destruct (n_mem (snd x) ids) eqn:Em.
        -- right. apply n_mem_in in Em. apply in_map_iff. exists (snd x). split; [destruct x; cbn in *; subst; reflexivity | exact Em].
        -- left. eauto.
    + split; [intros [Ha'|Hin]; [exact Ha'|] | intros Ha'; left; exact Ha'].
      apply in_map_iff in Hin. destruct Hin as (i & Ex & _). subst x. cbn in E1. rewrite N.eqb_refl in E1. discriminate.
Qed.

(** State right before the tail: the job [jid] exists; a NEW job has no tasks and its id was unused. *)
Lemma fresh_absent s : fresh s -> jt s (cnt_of s) = None.
Proof.
  intros F. unfold jt. destruct (find_job (h_jobs (hq_of s)) (cnt_of s)) as [j|] eqn:E; [|reflexivity].
  pose proof (F _ (find_job_in _ _ _ E)) as Hlt. rewrite (find_job_id _ _ _ E) in Hlt. lia.
Qed.

Lemma new_job_active s jid mf open :
  jt s jid = None ->
  forall x, active (hq_with s (set_job (hq_jobs s) (mkJob jid open [] 0 0 0 0 0 false mf)) (hq_counter s)) x <-> active s x.
Proof.
  intros Hn x. unfold active.
  assert (E : forall id, jt (hq_with s (set_job (hq_jobs s) (mkJob jid open [] 0 0 0 0 0 false mf)) (hq_counter s)) id
              = if N.eqb id jid then Some [] else jt s id).
  { intros id. unfold jt, hq_of, hq_with, hq_jobs. cbn. rewrite find_job_set_any. cbn. destruct (N.eqb id jid); reflexivity. }
  rewrite E. destruct (N.eqb (fst x) jid) eqn:E1; [|reflexivity].
  apply N.eqb_eq in E1. rewrite E1, Hn. split; [intros (l & Hl & [Ha|Ha]); inversion Hl; subst; discriminate | intros (l & Hl & _); discriminate].
Qed.

Lemma get_or_create_rq_K s r : K (fst (get_or_create_rq s r)) = K s /\ hq_of (fst (get_or_create_rq s r)) = hq_of s.
Proof. unfold get_or_create_rq. destruct (rq_index _ r 0); split; reflexivity. Qed.

Lemma take_n_all {A} (l : list A) : forall n, (length l <= n)%nat -> fst (take_n n l) = l.
Proof.
  induction l as [|h t IH]; intros n Hn; [destruct n; reflexivity|].
  destruct n as [|k]; [cbn in Hn; lia|]. cbn [take_n]. destruct (take_n k t) as [a b] eqn:E. cbn.
  f_equal. specialize (IH k). rewrite E in IH. apply IH. cbn in Hn. lia.
Qed.

Lemma range_from_length n : forall start, length (range_from start n) = n.
Proof. induction n as [|k IH]; intros start; cbn [range_from length]; [reflexivity | rewrite IH; reflexivity]. Qed.

(** The client sends as many entries as ids (the server does not check it; see DESIGN.md). *)
Definition op_wf (o : op) : Prop :=
  match o with
  | OpSubmit _ ids (Some n) _ _ _ _ _ => (length ids <= N.to_nat n)%nat
  | _ => True
  end.

Lemma CB_hq_only s s' : core_of s' = core_of s -> (forall x, active s' x <-> active s x) -> CB s -> CB s'.
Proof. intros E A. apply CB_frame; [unfold K; rewrite E; reflexivity | exact A]. Qed.

Lemma handle_submit_array_CB s jobsel ids entries rq prio cl tlim mf s' :
  fresh s -> CB s -> (match entries with Some n => (length ids <= N.to_nat n)%nat | None => True end) ->
  handle_submit_array s jobsel ids entries rq prio cl tlim mf = Ok s' -> CB s'.
Proof.
  intros F HC Hwf H. unfold handle_submit_array in H.
  match type of H with (match ?x with Some _ => _ | None => _ end) = _ => destruct x end;
    [inversion H; subst; eapply CB_same; [| |exact HC]; reflexivity|].
  apply bind_ok in H. destruct H as ([acc s1] & Hr & H).
  destruct acc as [[[jid is_new] ids']|].
  - cbv zeta in H.
    match type of H with context [get_or_create_rq ?sx rq] => set (s3 := sx) in *; destruct (get_or_create_rq s3 rq) as [s4 rqi] eqn:Erq end.
    (* the state before the tail satisfies CB *)
    assert (HC3 : CB s3 /\ (match entries with Some n => (length ids' <= N.to_nat n)%nat | None => True end)).
    { destruct jobsel as [j0|].
      - destruct (find_job (hq_jobs s) j0) as [j|] eqn:Ef; [|inversion Hr].
        destruct (negb (j_open j)); [inversion Hr|]. inversion Hr; subst. split.
        + subst s3. eapply CB_same; [| |exact HC]; reflexivity.
        + destruct ids; [|exact Hwf]. destruct entries as [n|]; [|exact I]. rewrite range_from_length. lia.
      - inversion Hr; subst. split.
        + subst s3. eapply (CB_hq_only s); [reflexivity | | exact HC]. intros x.
          rewrite (new_job_active (emit (hq_with s (hq_jobs s) (hq_counter s + 1)) _) (hq_counter s) mf false).
          * apply active_same. intros id. reflexivity.
          * change (jt s (cnt_of s) = None). apply fresh_absent. exact F.
        + destruct ids; [|exact Hwf]. destruct entries as [n|]; [|exact I]. rewrite range_from_length. lia. }
    destruct HC3 as [HC3 Hwf'].
    pose proof (get_or_create_rq_K s3 rq) as [K4 Q4]. rewrite Erq in K4, Q4. cbn [fst] in K4, Q4.
    assert (HC4 : CB s4) by (eapply CB_same; [exact K4 | exact Q4 | exact HC3]).
    eapply (submit_tail_CB s4 jid ids'); [exact HC4 | | | exact H].
    + rewrite map_map. cbn. destruct entries as [n|]; [rewrite take_n_all; [reflexivity | exact Hwf'] | reflexivity].
    + apply Forall_forall. intros t Ht. apply in_map_iff in Ht. destruct Ht as (i & <- & _). split; [reflexivity | intros d []].
  - assert (E1 : K s1 = K s /\ hq_of s1 = hq_of s).
    { destruct jobsel as [jid|]; [|inversion Hr].
      destruct (find_job (hq_jobs s) jid) as [j|]; [|inversion Hr; subst; split; reflexivity].
      destruct (negb (j_open j)); inversion Hr; subst; split; reflexivity. }
    assert (E2 : K s' = K s1 /\ hq_of s' = hq_of s1).
    { destruct jobsel; [match type of H with (match ?x with Some _ => _ | None => _ end) = _ => destruct x end|];
        inversion H; subst; split; reflexivity. }
    destruct E1 as [A1 A2], E2 as [B1 B2]. eapply CB_same; [rewrite B1; exact A1 | rewrite B2; exact A2 | exact HC].
Qed.

(** Graph submits *)
Lemma dedup_sorted_fst l : forall acc j x, (forall y, In y acc -> fst y = j) -> In x (dedup_sorted l acc j) -> fst x = j.
Proof.
  induction l as [|h t IH]; cbn [dedup_sorted]; intros acc j x Ha Hx; [apply Ha; exact Hx|].
  eapply IH; [|exact Hx]. intros y Hy. destruct (tid_insert_in _ _ _ Hy) as [->|Hy']; [reflexivity | apply Ha; exact Hy'].
Qed.

Lemma graph_tasks_spec jid rqis l : forall tasks, graph_tasks jid rqis l = Ok tasks ->
  map t_id tasks = map (fun i => (jid, i)) (map gt_id l) /\ Forall new_ok tasks.
Proof.
  induction l as [|g r IH]; cbn [graph_tasks]; intros tasks H; [inversion H; subst; split; [reflexivity | constructor]|].
  destruct (nth_error rqis (N.to_nat (gt_rq g))) as [rqi|]; [|discriminate].
  apply bind_ok in H. destruct H as (rest & Hr & H). inversion H; subst. destruct (IH _ Hr) as [I1 I2]. split.
  - cbn [map]. rewrite I1. reflexivity.
  - constructor; [|exact I2]. split; [reflexivity|]. intros d Hd. cbn in Hd |- *.
    eapply dedup_sorted_fst; [|exact Hd]. intros y [].
Qed.

Lemma fold_rqs_K rqs : forall s l s4 rqis,
  fold_left (fun acc r => let '(s, l) := acc in let '(s', i) := get_or_create_rq s r in (s', l ++ [i])) rqs (s, l) = (s4, rqis) ->
  K s4 = K s /\ hq_of s4 = hq_of s.
Proof.
  induction rqs as [|r rest IH]; cbn [fold_left]; intros s l s4 rqis H; [inversion H; split; reflexivity|].
  destruct (get_or_create_rq s r) as [s1 i] eqn:E. destruct (IH _ _ _ _ H) as [I1 I2].
  pose proof (get_or_create_rq_K s r) as [A1 A2]. rewrite E in A1, A2. cbn [fst] in A1, A2.
  split; congruence.
Qed.

Lemma handle_submit_graph_CB s jobsel rqs ts mf s' :
  fresh s -> CB s -> handle_submit_graph s jobsel rqs ts mf = Ok s' -> CB s'.
Proof.
  intros F HC H. unfold handle_submit_graph in H.
  apply bind_ok in H. destruct H as (v1 & _ & H).
  match type of H with (match ?x with Some _ => _ | None => _ end) = _ => destruct x end;
    [inversion H; subst; eapply CB_same; [| |exact HC]; reflexivity|].
  apply bind_ok in H. destruct H as ([acc s1] & Hr & H).
  destruct acc as [[jid is_new]|].
  - cbv zeta in H.
    match type of H with context [fold_left ?f rqs (?sx, [])] => set (s3 := sx) in *; destruct (fold_left f rqs (s3, [])) as [s4 rqis] eqn:Erq end.
    assert (HC3 : CB s3).
    { destruct jobsel as [j0|].
      - destruct (find_job (hq_jobs s) j0) as [j|] eqn:Ef; [|inversion Hr].
        destruct (negb (j_open j)); [inversion Hr|]. inversion Hr; subst.
        subst s3. eapply CB_same; [| |exact HC]; reflexivity.
      - inversion Hr; subst.
        subst s3. eapply (CB_hq_only s); [reflexivity | | exact HC]. intros x.
        rewrite (new_job_active (emit (hq_with s (hq_jobs s) (hq_counter s + 1)) _) (hq_counter s) mf false).
        + apply active_same. intros id. reflexivity.
        + change (jt s (cnt_of s) = None). apply fresh_absent. exact F. }
    destruct (fold_rqs_K _ _ _ _ _ Erq) as [K4 Q4].
    assert (HC4 : CB s4) by (eapply CB_same; [exact K4 | exact Q4 | exact HC3]).
    (* the tail has graph_tasks between attach and on_new_tasks *)
    apply bind_ok in H. destruct H as (j & Hj & H). apply bind_ok in H. destruct H as (j' & Ha & H).
    apply bind_ok in H. destruct H as (tasks & Hg & H).
    destruct (graph_tasks_spec _ _ _ _ Hg) as [G1 G2].
    eapply (submit_tail_CB s4 jid (map gt_id ts) tasks); [exact HC4 | exact G1 | exact G2|].
    rewrite Hj. cbn [bind]. rewrite Ha. cbn [bind]. exact H.
  - assert (E1 : K s1 = K s /\ hq_of s1 = hq_of s).
    { destruct jobsel as [jid|]; [|inversion Hr].
      destruct (find_job (hq_jobs s) jid) as [j|]; [|inversion Hr; subst; split; reflexivity].
      destruct (negb (j_open j)); inversion Hr; subst; split; reflexivity. }
    inversion H; subst. destruct E1 as [A1 A2]. eapply CB_same; [exact A1 | exact A2 | exact HC].
Qed.

(** * Open, close, forget *)
Lemma handle_open_CB s mf s' : fresh s -> CB s -> handle_open s mf = Ok s' -> CB s'.
Proof.
  intros F HC H. unfold handle_open in H. inversion H; subst.
  eapply (CB_hq_only s); [reflexivity | | exact HC]. intros x.
  rewrite (active_same (hq_with s (set_job (hq_jobs s) (mkJob (hq_counter s) true [] 0 0 0 0 0 false mf)) (hq_counter s + 1))) by (intros; reflexivity).
  unfold active.
  assert (E : forall id, jt (hq_with s (set_job (hq_jobs s) (mkJob (hq_counter s) true [] 0 0 0 0 0 false mf)) (hq_counter s + 1)) id
              = if N.eqb id (hq_counter s) then Some [] else jt s id).
  { intros id. unfold jt, hq_of, hq_with, hq_jobs. cbn. rewrite find_job_set_any. cbn. destruct (N.eqb id (hq_counter s)); reflexivity. }
  rewrite E. destruct (N.eqb (fst x) (hq_counter s)) eqn:E1; [|reflexivity].
  apply N.eqb_eq in E1. rewrite E1. change (jt s (hq_counter s)) with (jt s (cnt_of s)). rewrite (fresh_absent _ F).
  split; [intros (l & Hl & [Ha|Ha]); inversion Hl; subst; discriminate | intros (l & Hl & _); discriminate].
Qed.

Lemma handle_close_CB s jid s' : CB s -> handle_close s jid = Ok s' -> CB s'.
Proof.
  intros HC H. unfold handle_close in H.
  destruct (find_job (hq_jobs s) jid) as [j|] eqn:Ej; [|inversion H; subst; eapply CB_same; [| |exact HC]; reflexivity].
  destruct (j_open j); [|inversion H; subst; eapply CB_same; [| |exact HC]; reflexivity].
  apply bind_ok in H. destruct H as (s1 & H1 & H). inversion H; subst.
  destruct (check_termination_jt _ _ _ H1) as [C1 J1].
  eapply (CB_hq_only s); [exact C1 | | exact HC].
  apply active_same. intros id. rewrite jt_emit, J1, jt_emit, jt_set_job. cbn [j_id j_tasks].
  destruct (N.eqb id (j_id j)) eqn:E; [|reflexivity]. apply N.eqb_eq in E. subst id.
  unfold jt, hq_of. unfold hq_jobs in Ej. rewrite (find_job_id _ _ _ Ej), Ej. reflexivity.
Qed.

Lemma cnt_zero_find l v k : cnt l v = 0 -> jt_find l k <> Some v.
Proof.
  intros Hc Hf. apply jt_find_in in Hf. revert Hc Hf. clear. induction l as [|[k0 v0] r IH]; [intros _ []|].
  cbn [cnt snd]. intros Hc [Heq|Hin].
  - inversion Heq; subst. assert (jst_eqb v v = true) by (destruct v; reflexivity).
    match type of Hc with (if ?b then _ else _) + _ = 0 => replace b with true in Hc end. lia.
  - apply IH; [|exact Hin]. destruct (jst_eqb v0 v); lia.
Qed.

Lemma handle_forget_CB s jid s' : HOK (hq_of s) -> CB s -> handle_forget s jid = Ok s' -> CB s'.
Proof.
  intros Hok HC H. unfold handle_forget in H.
  destruct (find_job (hq_jobs s) jid) as [j|] eqn:Ej; [|inversion H; subst; eapply CB_same; [| |exact HC]; reflexivity].
  pose proof (Hok _ (find_job_in _ _ _ Ej)) as Hj.
  rewrite (has_no_active_ok _ Hj) in H. cbn [bind] in H.
  destruct (negb (j_open j) && _) eqn:Eb; [|inversion H; subst; eapply CB_same; [| |exact HC]; reflexivity].
  inversion H; subst. apply andb_true_iff in Eb. destruct Eb as [_ Eb]. apply andb_true_iff in Eb. destruct Eb as [Er Ew].
  apply N.eqb_eq in Er, Ew.
  eapply (CB_hq_only s); [reflexivity | | exact HC]. intros x.
  rewrite (active_same (hq_with s (del_job (hq_jobs s) jid) (hq_counter s))) by (intros; reflexivity).
  unfold active.
  assert (E : forall id, jt (hq_with s (del_job (hq_jobs s) jid) (hq_counter s)) id = if N.eqb id jid then None else jt s id).
  { intros id. unfold jt, hq_of, hq_with, hq_jobs. cbn. destruct (N.eqb id jid) eqn:E.
    - apply N.eqb_eq in E. subst id. rewrite find_job_del_same. reflexivity.
    - apply N.eqb_neq in E. rewrite find_job_del by exact E. reflexivity. }
  rewrite E. destruct (N.eqb (fst x) jid) eqn:E1; [|reflexivity].
  apply N.eqb_eq in E1. split; [intros (l & Hl & _); discriminate|].
  intros (l & Hl & Ha). exfalso. unfold jt, hq_of in Hl. unfold hq_jobs in Ej. rewrite E1, Ej in Hl. inversion Hl; subst l.
  destruct Ha as [Ha|Ha]; [exact (cnt_zero_find _ _ _ Ew Ha) | exact (cnt_zero_find _ _ _ Er Ha)].
Qed.

(** * The whole system *)
Theorem step_CB s o s' outs :
  HOK (s_hq s) -> fresh (s, []) -> op_wf o -> CB (s, []) -> step s o = Ok (s', outs) -> CB (s', outs).
Proof.
  intros Hok F Hwf HC H. destruct o; cbn [step] in H.
  - eapply CB_same; [| eapply on_new_worker_same; exact H | exact HC].
    unfold on_new_worker in H. inversion H; subst. reflexivity.
  - destruct (find_proc _ w); [|discriminate]. eapply on_remove_worker_CB; [| | exact H]; [exact Hok | exact HC].
  - destruct (bad_submit_lengths _ _); [inversion H; subst; eapply CB_same; [| |exact HC]; reflexivity|]. eapply handle_submit_array_CB; [exact F | exact HC | | exact H]. destruct entries; exact Hwf.
  - destruct (bad_graph_rq _ _); [inversion H; subst; eapply CB_same; [| |exact HC]; reflexivity|]. destruct (dead_dep _ _ _); [inversion H; subst; eapply CB_same; [| |exact HC]; reflexivity|]. eapply handle_submit_graph_CB; eassumption.
  - eapply handle_open_CB; eassumption.
  - eapply handle_close_CB; eassumption.
  - eapply handle_cancel_CB; [| | exact H]; [exact Hok | exact HC].
  - eapply handle_forget_CB; [| | exact H]; [exact Hok | exact HC].
  - destruct (find_proc _ w) as [p|]; [|discriminate]. destruct (p_down p); [discriminate|].
    inv_binds H. inversion H; subst. eapply CB_same; [| |exact HC]; reflexivity.
  - destruct (find_proc _ w) as [p|]; [|discriminate]. destruct (p_up p) as [|m rest]; [discriminate|].
    match type of H with match m with _ => _ end = _ => idtac end.
    destruct m.
    + match type of H with on_task_update ?s1 _ _ = _ =>
        eapply (on_task_update_CB s1); [exact Hok | | exact H] end.
      eapply CB_same; [| |exact HC]; reflexivity.
    + match type of H with on_retract_response ?s1 _ _ = _ =>
        assert (HC1 : CB s1) by (eapply CB_same; [| |exact HC]; reflexivity);
        eapply CB_same; [eapply on_retract_response_K; [exact (cb_s _ HC1) | exact H] | eapply on_retract_response_same; exact H | exact HC1] end.
  - destruct (c_flag (s_core s)); [|discriminate].
    eapply CB_same; [eapply run_scheduling_K; [exact (cb_s _ HC) | exact H] | eapply run_scheduling_same; exact H | exact HC].
  - destruct (find_proc _ w) as [p|]; [|discriminate]. inv_binds H. inversion H; subst. eapply CB_same; [| |exact HC]; reflexivity.
  - destruct (find_proc _ w) as [p|]; [|discriminate]. inversion H; subst. eapply CB_same; [| |exact HC]; reflexivity.
  - inversion H; subst. eapply CB_same; [| |exact HC]; reflexivity.
  - inv_binds H. inversion H; subst. eapply CB_same; [| |exact HC]; reflexivity.
Qed.

Lemma CB_outs s o1 o2 : CB (s, o1) -> CB (s, o2).
Proof. intros [A B C]. constructor; [exact A | exact B | exact C]. Qed.

Theorem run_CB ops : forall s s' outs,
  HOK (s_hq s) -> fresh (s, []) -> Forall op_wf ops -> CB (s, []) -> run s ops = Ok (s', outs) -> CB (s', outs).
Proof.
  induction ops as [|o r IH]; cbn [run]; intros s s' outs Hok F Hwf HC H; [inversion H; subst; exact HC|].
  inversion Hwf as [|? ? Hw1 Hw2]; subst.
  apply bind_ok in H. destruct H as ([s1 o1] & H1 & H). apply bind_ok in H. destruct H as ([s2 o2] & H2 & H). inversion H; subst.
  pose proof (step_CB _ _ _ _ Hok F Hw1 HC H1) as HC1.
  pose proof (step_hq_ok _ _ _ _ Hok H1) as Hok1.
  pose proof (G_step _ _ _ _ F H1) as G1.
  assert (F1 : fresh (s1, [])) by (apply (fresh_outs s1 o1); apply (g_fresh _ _ G1); exact F).
  eapply CB_outs. eapply IH; [exact Hok1 | exact F1 | exact Hw2 | eapply CB_outs; exact HC1 | exact H2].
Qed.

(** C02, second sentence, for EVERY history of the system model: the tasks the scheduler knows
    are exactly the tasks the job layer shows as waiting or running - no phantom, no orphan. *)
Theorem no_phantom_no_orphan ops reserve maxfill s outs :
  Forall op_wf ops -> run (init_sys reserve maxfill) ops = Ok (s, outs) ->
  forall t, In t (map t_id (c_tasks (s_core s))) <->
            exists j, find_job (h_jobs (s_hq s)) (fst t) = Some j /\
                      (jt_find (j_tasks j) (snd t) = Some JW \/ jt_find (j_tasks j) (snd t) = Some JR).
Proof.
  intros Hwf H t.
  assert (HC0 : CB (init_sys reserve maxfill, [])).
  { constructor; [constructor | intros id cs x [] | ]. intros x. split; [intros [] | intros (l & Hl & _); discriminate]. }
  assert (Hok0 : HOK (s_hq (init_sys reserve maxfill))) by (intros j []).
  assert (F0 : fresh (init_sys reserve maxfill, [])) by (intros j []).
  pose proof (run_CB _ _ _ _ Hok0 F0 Hwf HC0 H) as HC.
  rewrite <- (present_ids (s_core s)). etransitivity; [exact (cb_b _ HC t)|].
  unfold active, jt, hq_of. cbn [fst]. split.
  - intros (l & Hl & Ha). destruct (find_job (h_jobs (s_hq s)) (fst t)) as [j|]; [|discriminate]. inversion Hl; subst.
    exists j. split; [reflexivity | exact Ha].
  - intros (j & Hj & Ha). rewrite Hj. exists (j_tasks j). split; [reflexivity | exact Ha].
Qed.
