(** Protocol invariant, part 12: the facts [UH] that [PROTO] borrows from the other invariants are
    part of [INV]; the step theorem for the operations covered so far. *)
From HQ Require Import Base.Prelude Cluster.Types Cluster.Core Cluster.Reactor Cluster.Worker Cluster.Server Cluster.Sys Cluster.ProofsJob Cluster.ProofsMore Cluster.ProofsTerminal Cluster.ProofsStep Cluster.ProofsFinal Cluster.BijBase Cluster.BijCore Cluster.BijHq Cluster.BijSt Cluster.BijReact Cluster.RejHyp Cluster.InvBundle Cluster.NoPanicU0 Cluster.NoPanicU1 Cluster.NoPanicU5 Cluster.NoPanicU6 Cluster.NoPanicU11.
From Coq Require Import ZArith Lia Sorting.Sorted.
Local Open Scope N_scope.

Lemma find_job_some' js id j : find_job js id = Some j -> In j js /\ j_id j = id.
Proof.
  induction js as [|h r IH]; cbn [find_job]; [discriminate|]. destruct (N.eqb id (j_id h)) eqn:E.
  - intros H; inversion H; subst. apply N.eqb_eq in E. split; [left; reflexivity | symmetry; exact E].
  - intros H. destruct (IH H). split; [right; assumption | assumption].
Qed.

Lemma INV_UH s : INV s -> UH s.
Proof.
  intros [Hok Hfresh [Hcs _ Hbij] _ _ _ _ _]. split.
  - unfold tsorted. pose proof (CS_sorted _ Hcs) as H. exact H.
  - intros x t Hx.
    assert (Hp : present (K (s, [])) x) by (apply find_task_present; eauto).
    apply Hbij in Hp. destruct Hp as (l & Hl & Ha). unfold jt, hq_of in Hl. cbn [fst] in Hl.
    destruct (find_job (h_jobs (s_hq s)) (fst x)) as [j|] eqn:Ej; [|discriminate]. cbn [option_map] in Hl. injection Hl as El. subst l. split.
    + unfold seen. rewrite Ej. destruct (find_job_some' _ _ _ Ej) as [Hin Hid].
      specialize (Hfresh j Hin). unfold cnt_of, hq_of in Hfresh. cbn [fst] in Hfresh. rewrite Hid in Hfresh. apply N.ltb_lt in Hfresh. rewrite Hfresh. cbn [andb].
      destruct Ha as [E|E]; rewrite E; reflexivity.
    + unfold jv. rewrite Ej. destruct Ha as [E|E]; rewrite E; [left | right]; reflexivity.
Qed.
