(** Bridge, part 8: system-level restart corollaries (C10 over the whole system model), the
    non-vacuity examples, and the witnesses against the restart halves of C06 / C07.

    [sys_restore_partial] composes [BridgeInv.sys_journal_producible_partial] with
    [Journal.RestoreProofs.restore_refines]: for every history of the system model whose start /
    finish / worker records the journal machine accepts (executable hypothesis, true on every
    history evaluated), restoring from the history's journal SUCCEEDS and the restored state is the
    abstraction of a [G] related to the final job layer.  [sys_restore_jobs] spells this out:
    the restored job-id counter is the server's; every job without completion date is restored
    with the same open flag and, task by task, the recorded outcome (pending tasks are waiting). *)
From HQ Require Import Base.Prelude Cluster.Types Cluster.Core Cluster.Reactor Cluster.Worker Cluster.Server Cluster.Sys Cluster.ProofsJob Cluster.ProofsMore Cluster.ProofsStep Cluster.ProofsOnce Cluster.StartFin Cluster.StartFin2 Cluster.NoPanicU0 Cluster.SilentCancel Cluster.DepOrderAll Cluster.AbortCauseAll.
From HQ Require Journal.Event Journal.Restore Journal.Gen Journal.Maps Journal.RestoreProofs.
From HQ Require Import Cluster.Bridge Cluster.BridgeRel Cluster.BridgeEv Cluster.BridgeInv.
From Coq Require Import ZArith Lia.
Local Open Scope N_scope.

(** * System-level C10 *)
Theorem sys_restore_partial : forall ops reserve maxfill u s evs,
  jrun (init_sys reserve maxfill) ops = Ok (s, evs) ->
  core_records_accepted u evs = true ->
  exists r g, Restore.restore (journal_of u evs) = Ok r /\ Gen.view r = Gen.abs g /\ bridge_rel_job s g.
Proof.
  intros ops reserve maxfill u s evs H Hc.
  destruct (sys_journal_producible_partial _ _ _ _ _ _ H Hc) as (g & Hg & HR).
  destruct (RestoreProofs.restore_refines _ _ Hg) as (r & Hr & Hv). exists r, g. auto.
Qed.

(** The restored task state of a job-layer state. *)
Definition rclass (v : jstate) : Restore.tstate :=
  match v with
  | JW | JR => Restore.TWaiting
  | JF => Restore.TFinished
  | JX => Restore.TFailed
  | JC => Restore.TCanceled
  | JA => Restore.TAborted
  end.

Lemma gclass_st v x : st_rel v x -> Gen.gclass x = rclass v.
Proof. destruct v; cbn; intros H; subst; try reflexivity; destruct x; try discriminate; reflexivity. Qed.

Lemma lookup_map_class t (m : Event.map Gen.GTask) :
  Event.lookup t (List.map (fun tv => (fst tv, Gen.gclass (Gen.gt_state (snd tv)))) m)
  = option_map (fun x => Gen.gclass (Gen.gt_state x)) (Event.lookup t m).
Proof. induction m as [|[k v] r IH]; cbn; [reflexivity|]. destruct (N.eqb t k); [reflexivity | exact IH]. Qed.

Theorem sys_restore_jobs : forall ops reserve maxfill u s evs,
  jrun (init_sys reserve maxfill) ops = Ok (s, evs) ->
  core_records_accepted u evs = true ->
  exists r, Restore.restore (journal_of u evs) = Ok r
    /\ Restore.r_job_counter r = h_counter (s_hq s)
    /\ forall j jb, find_job (h_jobs (s_hq s)) j = Some jb -> j_completed jb = false ->
         exists sj, In sj (Restore.r_jobs r) /\ Restore.sj_id sj = j /\ Restore.sj_open sj = j_open jb
           /\ forall t, Event.lookup t (Restore.sj_tasks sj) = option_map rclass (jt_find (j_tasks jb) t).
Proof.
  intros ops reserve maxfill u s evs H Hc.
  destruct (sys_journal_producible_partial _ _ _ _ _ _ H Hc) as (g & Hg & HR).
  destruct (RestoreProofs.restore_refines _ _ Hg) as (r & Hr & Hv). exists r. split; [exact Hr|].
  assert (Hjobs : Restore.r_jobs r = List.map Gen.abs_job (Gen.g_jobs g)) by (apply (f_equal Gen.ar_jobs) in Hv; exact Hv).
  assert (Hcnt : Restore.r_job_counter r = Gen.g_max_job g + 1) by (apply (f_equal Gen.ar_job_counter) in Hv; exact Hv).
  split; [rewrite Hcnt; exact (proj2 HR)|].
  intros j jb Hf Hcm. destruct (RelJ_job _ _ _ _ HR Hf Hcm) as (gj & Hl & (Ho & Hn & Ht)).
  exists (Gen.abs_job (j, gj)). split; [rewrite Hjobs; apply in_map; apply Maps.lookup_in; exact Hl|].
  split; [reflexivity|]. split; [exact Ho|].
  intros t. cbn [Gen.abs_job Restore.sj_tasks]. rewrite lookup_map_class. specialize (Ht t).
  destruct (jt_find (j_tasks jb) t) as [v|], (Event.lookup t (Gen.gj_tasks gj)) as [x|]; cbn [option_map]; try contradiction; [|reflexivity].
  rewrite (gclass_st _ _ Ht). reflexivity.
Qed.

(** * Non-vacuity: the hypotheses hold, and the FULL relation [bridge_ok] holds, on concrete histories *)
Definition full_check (ops : list op) : bool :=
  match jrun (init_sys 0 2) ops with
  | Ok (s, evs) =>
      core_records_accepted 7 evs &&
      match Gen.grun Gen.g0 (journal_of 7 evs) with Some g => bridge_ok s g | None => false end
  | _ => false
  end.

(** A task is started on worker 1, worker 1 is lost, the task is restarted on worker 2 and finishes
    ([StartFin2.restart_ops]); and the histories of other developments (prefill, retract races,
    redirects, multi-node, crash limits, cancel, dependencies, max-fails aborts). *)
Example bridge_examples :
  forallb full_check [StartFin2.restart_ops; NoPanicU0.h_plain; NoPanicU0.h_prefill; NoPanicU0.h_retract_race; NoPanicU0.h_redirect;
                      NoPanicU0.h_misc; NoPanicU0.h_mn; ProofsOnce.once_ops; StartFin.fail_launch_ops; StartFin.fail_crash_ops;
                      StartFin.fail_crash_mn_ops; SilentCancel.cancel_ops; DepOrderAll.dep_ops; AbortCauseAll.ac_lim_ops] = true.
Proof. vm_compute. reflexivity. Qed.

Example sys_restore_example : exists s evs r,
  jrun (init_sys 0 2) StartFin2.restart_ops = Ok (s, evs) /\ core_records_accepted 7 evs = true
  /\ Restore.restore (journal_of 7 evs) = Ok r /\ Restore.r_job_counter r = 2 /\ Restore.r_jobs r = [].
Proof. do 3 eexists. split; [vm_compute; reflexivity|]. split; [vm_compute; reflexivity|]. split; [vm_compute; reflexivity|]. split; reflexivity. Qed.

(** * The restart halves of C07 / C06 do NOT hold in the model (witnesses) *)

(** What the restored server hands to the core for task [t]: (next instance id, crash counter),
    (0, 0) when the journal has no adjustment for it. *)
Definition restored_adjust (r : Restore.Restored) (t : tid) : N * N :=
  match find (fun b => N.eqb (Restore.b_job b) (fst t) && Event.mem (snd t) (Restore.b_adjust b)) (Restore.r_batches r) with
  | Some b => match Event.lookup (snd t) (Restore.b_adjust b) with Some v => v | None => (0, 0) end
  | None => (0, 0)
  end.

(** C07, restart half: "the restored crash counter of a pending task equals the core's". *)
Definition C07_restart_full : Prop := forall ops reserve maxfill u s evs r ct,
  jrun (init_sys reserve maxfill) ops = Ok (s, evs) -> Restore.restore (journal_of u evs) = Ok r ->
  In ct (c_tasks (s_core s)) -> snd (restored_adjust r (t_id ct)) = t_crash ct.

(** A multi-node task is placed on workers 1 and 2; its root worker 1 is lost (connection lost)
    before its "running" message was processed.  The core counts a crash (counter 1, instance 1),
    but the job layer never saw the task running: the journal holds no TaskStarted, restore counts
    nothing (counter 0, instance 0). *)
Definition mn_lost_ops : list op :=
  [OpConnect [20000; 0; 0] 0; OpConnect [20000; 0; 0] 0;
   OpSubmit None [] None (mkRq 2 [0; 0; 0]) 0%Z (CMax 5) false None;
   OpSched (mkSol [] [(0, 0, [[1; 2]])] [1; 2] []);
   OpLost 1 1 [] [] [(1, 0)]].

Theorem C07_restart_refuted : ~ C07_restart_full.
Proof.
  intros HF.
  destruct (jrun (init_sys 0 2) mn_lost_ops) as [[s evs]| |] eqn:E; [|vm_compute in E; discriminate E | vm_compute in E; discriminate E].
  destruct (Restore.restore (journal_of 7 evs)) as [r| |] eqn:Er;
    [|vm_compute in E; inversion E; subst; vm_compute in Er; discriminate Er | vm_compute in E; inversion E; subst; vm_compute in Er; discriminate Er].
  assert (Hs : exists ct, In ct (c_tasks (s_core s)) /\ t_id ct = (1, 0) /\ t_crash ct = 1).
  { vm_compute in E. inversion E; subst. eexists. split; [left; reflexivity|]. split; reflexivity. }
  destruct Hs as (ct & Hin & Hid & Hcr).
  pose proof (HF _ _ _ _ _ _ _ ct E Er Hin) as HX. rewrite Hid, Hcr in HX.
  vm_compute in E. inversion E; subst. vm_compute in Er. inversion Er; subst. vm_compute in HX. discriminate.
Qed.

Theorem crash_link_refuted : ~ crash_link_full.
Proof.
  intros HF.
  destruct (jrun (init_sys 0 2) mn_lost_ops) as [[s evs]| |] eqn:E; [|vm_compute in E; discriminate E | vm_compute in E; discriminate E].
  destruct (Gen.grun Gen.g0 (journal_of 7 evs)) as [g|] eqn:Eg; [|vm_compute in E; inversion E; subst; vm_compute in Eg; discriminate Eg].
  pose proof (HF _ _ _ _ _ _ _ E Eg) as HX.
  vm_compute in E. inversion E; subst. vm_compute in Eg. inversion Eg; subst. vm_compute in HX. discriminate.
Qed.

(** C06, restart half: "the restored next instance id of a pending task exceeds every instance id
    under which the task was launched in the history". *)
Definition C06_restart_full : Prop := forall ops reserve maxfill u s outs evs r l,
  run (init_sys reserve maxfill) ops = Ok (s, outs) -> jrun (init_sys reserve maxfill) ops = Ok (s, evs) ->
  Restore.restore (journal_of u evs) = Ok r ->
  In (OLaunch l) outs -> find_task (c_tasks (s_core s)) (l_t l) <> None ->
  l_inst l < fst (restored_adjust r (l_t l)).

(** The worker launches the task (instance 0); the server stops before it processes the worker's
    "running" message: the journal has no TaskStarted record, the restored server hands the task
    out with instance 0 again. *)
Definition launch_unreported_ops : list op :=
  [OpConnect [20000; 0; 0] 0;
   OpSubmit None [] None once_rq 0%Z CUnl false None;
   OpSched (mkSol [(0, 0, [(1, 1)])] [] [1] []);
   OpDDown 1 []; OpDDown 1 []].

Theorem C06_restart_refuted : ~ C06_restart_full.
Proof.
  intros HF.
  destruct (run (init_sys 0 2) launch_unreported_ops) as [[s outs]| |] eqn:E; [|vm_compute in E; discriminate E | vm_compute in E; discriminate E].
  pose proof (run_jrun _ _ _ _ E) as Ej.
  destruct (Restore.restore (journal_of 7 (jevents_of_run (init_sys 0 2) launch_unreported_ops))) as [r| |] eqn:Er;
    [|vm_compute in Er; discriminate Er | vm_compute in Er; discriminate Er].
  assert (Hl : exists l, In (OLaunch l) outs /\ l_t l = (1, 0) /\ l_inst l = 0 /\ find_task (c_tasks (s_core s)) (l_t l) <> None).
  { vm_compute in E. inversion E; subst. eexists. split; [do 6 right; left; reflexivity|]. cbn. repeat split; discriminate. }
  destruct Hl as (l & Hin & Hid & Hi & Hft).
  pose proof (HF _ _ _ 7 _ _ _ _ l E Ej Er Hin Hft) as HX. rewrite Hid, Hi in HX.
  vm_compute in Er. inversion Er; subst. vm_compute in HX. discriminate.
Qed.

Print Assumptions sys_restore_partial.
Print Assumptions sys_restore_jobs.
Print Assumptions C07_restart_refuted.
Print Assumptions C06_restart_refuted.
Print Assumptions crash_link_refuted.
