(** C01, "finished means it ran": every [EvFinished x] in the event stream of a history of the
    system model is preceded by a SUCCESSFUL LAUNCH of [x] on the worker whose report the server
    is processing when it emits the event.

    Two halves:
    - server side (this file, no hypothesis on the history): [OEv (EvFinished x)] is emitted ONLY
      inside [step s (OpDUp w)] while the head message of worker [w]'s up channel is an update
      batch containing [UFinished x] ([step_report_src], from the shape pass of SilentBase.v);
      in the stream: the last [OUp] output before the event is [OUp w (UUpdates us)] with
      [In (UFinished x) us] ([finished_only_on_report]).  The same holds for [EvFailed x k] with a
      kind the server does not generate itself (k <> FNeverRestart, FCrashLimit) and [UFailed x k].
    - worker side ([ExecU19.reported_means_ran_partial], premises [op_wf], [ops_ok]): a connected
      process with [UFinished x] / [UFailed x FTask] / [UFailed x FTimeLimit] in a pending message
      launched [x] successfully before.
    Together: [finished_means_ran], [failed_means_ran]. *)
From HQ Require Import Base.Prelude Cluster.Types Cluster.Core Cluster.Reactor Cluster.Worker Cluster.Server Cluster.Sys Cluster.Monitors Cluster.ProofsJob Cluster.ProofsOnce Cluster.RejHyp Cluster.BijFinal Cluster.InvDStep Cluster.NoPanicL0 Cluster.NoPanicU0 Cluster.ExecU19 Cluster.SilentBase.
From Coq Require Import ZArith Lia.
Local Open Scope N_scope.

(** The per-task event an update of a worker message makes the server emit (if it accepts it). *)
Definition cause (u : wupdate) : option event :=
  match u with
  | UFinished t => Some (EvFinished t)
  | UFailed t k => Some (EvFailed t k)
  | _ => None
  end.

(** Events that only a worker's report can cause. *)
Definition reported (e : event) : Prop :=
  match e with
  | EvFinished _ => True
  | EvFailed _ k => k <> FNeverRestart /\ k <> FCrashLimit
  | _ => False
  end.

Definition not_up (o : out) : Prop := forall w m, o <> OUp w m.

Lemma not_up_plain o : plain o -> not_up o.
Proof. intros Hp w m E. subst o. exact Hp. Qed.

(** * One operation *)

(** Where the event comes from. *)
Lemma step_report_op s o s' outs e0 :
  reported e0 -> step s o = Ok (s', outs) -> In (OEv e0) outs ->
  exists w p us rest u, o = OpDUp w /\ find_proc (s_procs s) w = Some p /\ p_up p = UUpdates us :: rest /\
    In u us /\ cause u = Some e0.
Proof.
  intros Hr H Hin.
  set (P := exists w p us rest u, o = OpDUp w /\ find_proc (s_procs s) w = Some p /\ p_up p = UUpdates us :: rest /\
              In u us /\ cause u = Some e0).
  set (Q := fun x : out => x = OEv e0 -> P).
  assert (Qp : forall x, plain x -> Q x).
  { intros x Hp E. subst x. exfalso. destruct e0; cbn in Hp, Hr; try contradiction. }
  assert (Qd : forall x, direct x -> Q x) by (intros x Hd E; subst x; destruct Hd).
  assert (Hc : op_cond Q s o).
  { destruct o; cbn [op_cond]; try exact I.
    - intros id. split; intros E; inversion E; subst e0; cbn in Hr; destruct Hr as [A B]; congruence.
    - intros p us rest Hp Eu. apply Forall_forall. intros u Hu.
      assert (HP : forall e, cause u = Some e -> OEv e = OEv e0 -> P).
      { intros e Hc E. inversion E; subst e. exists w, p, us, rest, u. auto. }
      destruct u; cbn [Qu]; try exact I.
      + exact (HP _ eq_refl).
      + exact (HP _ eq_refl).
      + intros i ws E. inversion E; subst e0. destruct Hr.
      + intros i ws E. inversion E; subst e0. destruct Hr. }
  pose proof (step_Q Q Qp _ _ _ _ Qd Hc H) as HF. rewrite Forall_forall in HF. exact (HF _ Hin eq_refl).
Qed.

(** ... and where it sits in the outputs of the operation: after the [OUp] of the message, with no
    other [OUp] in between. *)
Theorem step_report_src s o s' outs e0 a b :
  reported e0 -> step s o = Ok (s', outs) -> outs = a ++ OEv e0 :: b ->
  exists w p us rest u a', o = OpDUp w /\ find_proc (s_procs s) w = Some p /\ p_up p = UUpdates us :: rest /\
    In u us /\ cause u = Some e0 /\ a = OUp w (UUpdates us) :: a' /\ Forall not_up a'.
Proof.
  intros Hr H E.
  assert (Hin : In (OEv e0) outs) by (rewrite E; apply in_or_app; right; left; reflexivity).
  destruct (step_report_op _ _ _ _ _ Hr H Hin) as (w & p & us & rest & u & -> & Hp & Eu & Hu & Hc).
  cbn [step] in H. rewrite Hp, Eu in H.
  assert (Hq : Forall (Qu not_up) us).
  { apply Forall_forall. intros u0 _. destruct u0; cbn [Qu]; try exact I; intros; intros w0 m0 E0; discriminate. }
  destruct (on_task_update_EX not_up not_up_plain _ _ _ _ Hq H) as (ext & E1 & F1). cbn [snd] in E1.
  exists w, p, us, rest, u. rewrite E1 in E. destruct a as [|x a']; [cbn in E; inversion E|].
  cbn [app] in E. inversion E; subst x. exists a'. repeat split; try assumption.
  match goal with X : ext = a' ++ _ |- _ => rewrite X in F1 end.
  apply Forall_app in F1. exact (proj1 F1).
Qed.

(** * Histories: finding the operation that emitted an output *)
Lemma run_split ops : forall s s' outs pre x post,
  run s ops = Ok (s', outs) -> outs = pre ++ x :: post ->
  exists ops1 o ops2 s1 o1 s2 o2 a b,
    ops = ops1 ++ o :: ops2 /\ run s ops1 = Ok (s1, o1) /\ step s1 o = Ok (s2, o2) /\
    o2 = a ++ x :: b /\ pre = o1 ++ a.
Proof.
  induction ops as [|o r IH]; cbn [run]; intros s s' outs pre x post H E.
  - inversion H; subst s' outs. destruct pre; discriminate.
  - apply bind_ok in H. destruct H as ([s1 o1] & H1 & H). apply bind_ok in H. destruct H as ([s2 o2] & H2 & H). injection H as Hs2 Ho. subst s2. rewrite <- Ho in E. clear Ho.
    apply app_eq_app in E. destruct E as (m & [[E1 E2]|[E1 E2]]).
    + destruct m as [|y m'].
      * cbn [app] in E2. rewrite app_nil_r in E1. subst o1.
        destruct (IH _ _ _ [] x post H2 (eq_sym E2)) as (ops1 & o' & ops2 & sa & oa & sb & ob & a & b & Eo & Ha & Hb & Eb & Ep).
        exists (o :: ops1), o', ops2, sa, (pre ++ oa), sb, ob, a, b. repeat split; try assumption.
        -- rewrite Eo. reflexivity.
        -- cbn [run]. rewrite H1. cbn [bind]. rewrite Ha. reflexivity.
        -- rewrite <- app_assoc, <- Ep, app_nil_r. reflexivity.
      * cbn [app] in E2. inversion E2; subst y post.
        exists [], o, r, s, [], s1, o1, pre, m'. repeat split; try assumption; reflexivity.
    + destruct (IH _ _ _ m x post H2 E2) as (ops1 & o' & ops2 & sa & oa & sb & ob & a & b & Eo & Ha & Hb & Eb & Ep).
      exists (o :: ops1), o', ops2, sa, (o1 ++ oa), sb, ob, a, b. repeat split; try assumption.
      * rewrite Eo. reflexivity.
      * cbn [run]. rewrite H1. cbn [bind]. rewrite Ha. reflexivity.
      * rewrite E1, Ep, app_assoc. reflexivity.
Qed.

Lemma ops_ok_app a : forall s b, ops_ok s (a ++ b) = true -> ops_ok s a = true.
Proof.
  induction a as [|o r IH]; cbn [app ops_ok]; intros s b H; [reflexivity|].
  apply andb_true_iff in H. destruct H as [H1 H2]. rewrite H1. cbn [andb].
  destruct (step s o) as [[s1 o1]| |]; [eapply IH; exact H2 | reflexivity | reflexivity].
Qed.

(** * The server half, for every history (no hypothesis) *)
Theorem only_on_report ops reserve maxfill s outs pre e0 post :
  run (init_sys reserve maxfill) ops = Ok (s, outs) ->
  outs = pre ++ OEv e0 :: post -> reported e0 ->
  exists c w us d u, pre = c ++ OUp w (UUpdates us) :: d /\ In u us /\ cause u = Some e0 /\ Forall not_up d.
Proof.
  intros H E Hr.
  destruct (run_split _ _ _ _ _ _ _ H E) as (ops1 & o & ops2 & s1 & o1 & s2 & o2 & a & b & _ & _ & Hs & Eb & Ep).
  destruct (step_report_src _ _ _ _ _ _ _ Hr Hs Eb) as (w & p & us & rest & u & a' & _ & _ & _ & Hu & Hc & Ea & Fa).
  exists o1, w, us, a', u. rewrite Ep, Ea. auto.
Qed.

Corollary finished_only_on_report ops reserve maxfill s outs pre x post :
  run (init_sys reserve maxfill) ops = Ok (s, outs) ->
  outs = pre ++ OEv (EvFinished x) :: post ->
  exists c w us d, pre = c ++ OUp w (UUpdates us) :: d /\ In (UFinished x) us /\ Forall not_up d.
Proof.
  intros H E. destruct (only_on_report _ _ _ _ _ _ _ _ H E I) as (c & w & us & d & u & Ep & Hu & Hc & Fd).
  exists c, w, us, d. destruct u; try discriminate. inversion Hc; subst. auto.
Qed.

Corollary failed_only_on_report ops reserve maxfill s outs pre x k post :
  run (init_sys reserve maxfill) ops = Ok (s, outs) ->
  outs = pre ++ OEv (EvFailed x k) :: post -> k <> FNeverRestart -> k <> FCrashLimit ->
  exists c w us d, pre = c ++ OUp w (UUpdates us) :: d /\ In (UFailed x k) us /\ Forall not_up d.
Proof.
  intros H E K1 K2. destruct (only_on_report _ _ _ _ _ _ _ _ H E (conj K1 K2)) as (c & w & us & d & u & Ep & Hu & Hc & Fd).
  exists c, w, us, d. destruct u; try discriminate. inversion Hc; subst. auto.
Qed.

(** * With the worker half *)
Theorem report_means_ran ops reserve maxfill s outs pre e0 x post :
  Forall op_wf ops -> ops_ok (init_sys reserve maxfill) ops = true ->
  run (init_sys reserve maxfill) ops = Ok (s, outs) ->
  outs = pre ++ OEv e0 :: post ->
  e0 = EvFinished x \/ e0 = EvFailed x FTask \/ e0 = EvFailed x FTimeLimit ->
  exists a l b us d u,
    pre = a ++ OLaunch l :: b ++ OUp (l_w l) (UUpdates us) :: d /\
    l_t l = x /\ l_ok l = true /\ In u us /\ cause u = Some e0 /\ Forall not_up d.
Proof.
  intros Hwf Hok H E He.
  assert (Hr : reported e0) by (destruct He as [-> | [-> | ->]]; cbn; [exact I | split; discriminate | split; discriminate]).
  destruct (run_split _ _ _ _ _ _ _ H E) as (ops1 & o & ops2 & s1 & o1 & s2 & o2 & a & b & Eo & H1 & Hs & Eb & Ep).
  destruct (step_report_src _ _ _ _ _ _ _ Hr Hs Eb) as (w & p & us & rest & u & a' & _ & Hp & Eu & Hu & Hc & Ea & Fa).
  subst ops. apply Forall_app in Hwf. destruct Hwf as [Hwf1 _]. apply ops_ok_app in Hok.
  destruct (find_proc_some _ _ _ Hp) as [Hin Hid].
  assert (Hrep : In (UUpdates us) (p_up p) /\ (In (UFinished x) us \/ In (UFailed x FTask) us \/ In (UFailed x FTimeLimit) us)).
  { split; [rewrite Eu; left; reflexivity|].
    destruct He as [-> | [-> | ->]]; destruct u; try discriminate; inversion Hc; subst; auto. }
  destruct (reported_means_ran_partial _ _ _ _ _ Hwf1 Hok H1 p x us Hin (or_intror Hrep)) as (a0 & l & b0 & E1 & L1 & L2 & L3).
  exists a0, l, (b0), us, a', u. rewrite Ep, Ea, E1, L1, Hid, <- app_assoc. cbn [app]. auto 10.
Qed.

(** C01: every [EvFinished x] is preceded by a successful launch of [x] by the worker whose
    report (the last message consumed before the event, containing [UFinished x]) the server is
    processing. *)
Theorem finished_means_ran ops reserve maxfill s outs pre x post :
  Forall op_wf ops -> ops_ok (init_sys reserve maxfill) ops = true ->
  run (init_sys reserve maxfill) ops = Ok (s, outs) ->
  outs = pre ++ OEv (EvFinished x) :: post ->
  exists a l b us d,
    pre = a ++ OLaunch l :: b ++ OUp (l_w l) (UUpdates us) :: d /\
    l_t l = x /\ l_ok l = true /\ In (UFinished x) us /\ Forall not_up d.
Proof.
  intros Hwf Hok H E.
  destruct (report_means_ran _ _ _ _ _ _ _ x _ Hwf Hok H E (or_introl eq_refl)) as (a & l & b & us & d & u & Ep & L2 & L3 & Hu & Hc & Fd).
  exists a, l, b, us, d. destruct u; try discriminate. inversion Hc; subst. auto 10.
Qed.

(** The same for a failure reported by a worker with kind FTask / FTimeLimit. *)
Theorem failed_means_ran ops reserve maxfill s outs pre x k post :
  Forall op_wf ops -> ops_ok (init_sys reserve maxfill) ops = true ->
  run (init_sys reserve maxfill) ops = Ok (s, outs) ->
  outs = pre ++ OEv (EvFailed x k) :: post -> k = FTask \/ k = FTimeLimit ->
  exists a l b us d,
    pre = a ++ OLaunch l :: b ++ OUp (l_w l) (UUpdates us) :: d /\
    l_t l = x /\ l_ok l = true /\ In (UFailed x k) us /\ Forall not_up d.
Proof.
  intros Hwf Hok H E Hk.
  assert (He : EvFailed x k = EvFinished x \/ EvFailed x k = EvFailed x FTask \/ EvFailed x k = EvFailed x FTimeLimit)
    by (destruct Hk as [-> | ->]; auto).
  destruct (report_means_ran _ _ _ _ _ _ _ x _ Hwf Hok H E He) as (a & l & b & us & d & u & Ep & L2 & L3 & Hu & Hc & Fd).
  exists a, l, b, us, d. destruct u; try discriminate. inversion Hc; subst. auto 10.
Qed.

(** The simple form of the task statement. *)
Corollary finished_means_launched ops reserve maxfill s outs pre x post :
  Forall op_wf ops -> ops_ok (init_sys reserve maxfill) ops = true ->
  run (init_sys reserve maxfill) ops = Ok (s, outs) ->
  outs = pre ++ OEv (EvFinished x) :: post ->
  exists a l b, pre = a ++ OLaunch l :: b /\ l_t l = x /\ l_ok l = true.
Proof.
  intros Hwf Hok H E. destruct (finished_means_ran _ _ _ _ _ _ _ _ Hwf Hok H E) as (a & l & b & us & d & Ep & L2 & L3 & _).
  exists a, l, (b ++ OUp (l_w l) (UUpdates us) :: d). auto.
Qed.

(** * Non-vacuity *)
Example ran_example : Forall op_wf once_ops /\ ops_ok (init_sys 0 2) once_ops = true /\
  exists s outs pre post, run (init_sys 0 2) once_ops = Ok (s, outs) /\ outs = pre ++ OEv (EvFinished (1, 0)) :: post /\
    exists a b d, pre = a ++ OLaunch (mkLaunch 1 (1, 0) 0 0 [] true [10000; 0; 0]) :: b ++ OUp 1 (UUpdates [UFinished (1, 0)]) :: d.
Proof.
  split; [repeat constructor|]. split; [vm_compute; reflexivity|]. eexists. eexists.
  exists [OEv (EvWConn 1); ONewWorker 1; OEv (EvSubmit 1 true 1); OResp (RSubmitOk 1 1 [0]);
          ODown 1 (DNewRq 0 once_rq); ODown 1 (DCompute [mkCT (1, 0) 0 (Some 0) 0 false []]); OLaunch (mkLaunch 1 (1, 0) 0 0 [] true [10000; 0; 0]);
          OUp 1 (UUpdates [URunning (1, 0) 0]); OEv (EvStarted (1, 0) 0 [1] 0); OUp 1 (UUpdates [UFinished (1, 0)])].
  eexists. split; [vm_compute; reflexivity|]. split; [reflexivity|].
  exists [OEv (EvWConn 1); ONewWorker 1; OEv (EvSubmit 1 true 1); OResp (RSubmitOk 1 1 [0]);
          ODown 1 (DNewRq 0 once_rq); ODown 1 (DCompute [mkCT (1, 0) 0 (Some 0) 0 false []])],
         [OUp 1 (UUpdates [URunning (1, 0) 0]); OEv (EvStarted (1, 0) 0 [1] 0)], []. reflexivity.
Qed.

(** The kinds the server generates itself do NOT presuppose a report (nor a launch): see
    [StartFin.failed_needs_start_refuted_crash_mn] (a crash-limit failure of a task that was never
    launched); and a launch FAILURE is reported by the worker with kind FLaunch
    ([StartFin.failed_needs_start_refuted_launch]) - covered by [failed_only_on_report], not by
    [failed_means_ran] (the launch of that task has [l_ok = false]). *)

Print Assumptions finished_only_on_report.
Print Assumptions finished_means_ran.
Print Assumptions failed_means_ran.
