(** C07, "every running task is counted", part 1: the crash-limit loop [lost_fail_running].
    For every task of the list handed to it that is still in the core, the loop increments the
    crash counter, and fails the task when its limit is reached; a task can disappear otherwise only
    by being aborted (another task of its job failed and the job's failure limit was exceeded). *)
From HQ Require Import Base.Prelude Cluster.Types Cluster.Core Cluster.Reactor Cluster.Worker Cluster.Server Cluster.Sys Cluster.ProofsJob Cluster.ProofsMore Cluster.ProofsTerminal Cluster.ProofsStep Cluster.ProofsOnce Cluster.BijBase Cluster.BijCore Cluster.BijHq Cluster.BijSt Cluster.BijReact Cluster.FrameGen Cluster.CrashFrame.
From Coq Require Import ZArith Lia Sorting.Sorted.
Local Open Scope N_scope.

Arguments N.add : simpl never.
Arguments N.sub : simpl never.

(** * What the job layer writes to the event stream *)
Lemma check_termination_out s jid s' : check_termination s jid = Ok s' -> exists E, snd s' = snd s ++ E.
Proof.
  unfold check_termination. intros H. apply bind_ok in H. destruct H as (j & _ & H). apply bind_ok in H. destruct H as (na & _ & H).
  destruct na; [|inversion H; subst; exists []; rewrite app_nil_r; reflexivity].
  destruct (j_open j); inversion H; subst; [exists []; rewrite app_nil_r; reflexivity|].
  eexists. reflexivity.
Qed.

Lemma abort_tasks_out s jid ids s' : abort_tasks s jid ids = Ok s' ->
  exists E, snd s' = snd s ++ E /\ (ids <> [] -> In (OEv (EvAborted ids)) E).
Proof.
  unfold abort_tasks. intros H.
  destruct ids as [|i0 ir] eqn:Eids; [inversion H; subst; exists []; rewrite app_nil_r; split; [reflexivity | congruence]|].
  rewrite <- Eids in *. apply bind_ok in H. destruct H as (j & _ & H). apply bind_ok in H. destruct H as (j1 & _ & H).
  destruct (check_termination_out _ _ _ H) as (E & HE). cbn [emit hq_set_job snd fst] in HE.
  exists ([OEv (EvAborted ids)] ++ E). split; [rewrite HE, app_assoc; reflexivity | intros _; left; reflexivity].
Qed.

Lemma process_task_failed_out s t ab k s' ids : process_task_failed s t ab k = Ok (s', ids) ->
  exists E, snd s' = snd s ++ E /\ In (OEv (EvFailed t k)) E /\
    (ab <> [] -> In (OEv (EvAborted ab)) E) /\ (ids <> [] -> In (OEv (EvAborted ids)) E).
Proof.
  intros Hc. unfold process_task_failed in Hc.
  apply bind_ok in Hc. destruct Hc as (s1 & H1 & Hc). destruct (abort_tasks_out _ _ _ _ H1) as (E1 & HE1 & A1).
  apply bind_ok in Hc. destruct Hc as (j & _ & Hc). apply bind_ok in Hc. destruct Hc as (j1 & _ & Hc).
  apply bind_ok in Hc. destruct Hc as (s2 & H2 & Hc). destruct (check_termination_out _ _ _ H2) as (E2 & HE2).
  cbn [emit hq_set_job snd fst] in HE2.
  assert (Hmid : snd s2 = snd s ++ (E1 ++ [OEv (EvFailed t k)] ++ E2)) by (rewrite HE2, HE1, !app_assoc; reflexivity).
  assert (Hf : In (OEv (EvFailed t k)) (E1 ++ [OEv (EvFailed t k)] ++ E2)) by (apply in_or_app; right; left; reflexivity).
  assert (Ha : ab <> [] -> In (OEv (EvAborted ab)) (E1 ++ [OEv (EvFailed t k)] ++ E2)) by (intros X; apply in_or_app; left; exact (A1 X)).
  apply bind_ok in Hc. destruct Hc as (j2 & _ & Hc).
  assert (Hnone : s' = s2 -> ids = [] -> exists E, snd s' = snd s ++ E /\ In (OEv (EvFailed t k)) E /\
            (ab <> [] -> In (OEv (EvAborted ab)) E) /\ (ids <> [] -> In (OEv (EvAborted ids)) E)).
  { intros -> ->. eexists. split; [exact Hmid|]. split; [exact Hf|]. split; [exact Ha | congruence]. }
  destruct (j_maxfails j2) as [mf|]; [|inversion Hc; subst; apply Hnone; reflexivity].
  destruct (N.ltb mf (j_nfail j2)); [|inversion Hc; subst; apply Hnone; reflexivity].
  apply bind_ok in Hc. destruct Hc as (s3 & H3 & Hc). inversion Hc; subst. clear Hnone.
  destruct (abort_tasks_out _ _ _ _ H3) as (E3 & HE3 & A3).
  exists ((E1 ++ [OEv (EvFailed t k)] ++ E2) ++ E3). split; [rewrite HE3, Hmid; symmetry; apply app_assoc|].
  split; [apply in_or_app; left; exact Hf|]. split; [intros X; apply in_or_app; left; exact (Ha X) | intros X; apply in_or_app; right; exact (A3 X)].
Qed.

(** * [task_failed] for a task whose worker was lost *)
Lemma find_none_csub c c' x : csub c c' -> find_task (c_tasks c) x = None -> find_task (c_tasks c') x = None.
Proof.
  intros [_ A] Hn. destruct (find_task (c_tasks c') x) as [t'|] eqn:E; [|reflexivity]. exfalso.
  assert (X : cget c' x = Some (ci t')) by (unfold cget; rewrite E; reflexivity).
  apply A in X. unfold cget in X. rewrite Hn in X. discriminate.
Qed.

Definition aborted_in (x : tid) (E : list out) : Prop := exists ids, In x ids /\ In (OEv (EvAborted ids)) E.

(** The task is still there with its crash info, or it was aborted. *)
Definition kept (x : tid) (t : task) (c' : core) (E : list out) : Prop :=
  (exists t', find_task (c_tasks c') x = Some t' /\ ci t' = ci t) \/
  (find_task (c_tasks c') x = None /\ aborted_in x E).

Lemma task_failed_facts s id k s' t :
  HOK (hq_of s) -> CB s -> find_task (c_tasks (core_of s)) id = Some t -> task_failed s None id k = Ok s' ->
  HOK (hq_of s') /\ CB s' /\
  exists E, snd s' = snd s ++ E /\ In (OEv (EvFailed id k)) E /\
    find_task (c_tasks (core_of s')) id = None /\
    (forall x tx, x <> id -> find_task (c_tasks (core_of s)) x = Some tx -> kept x tx (core_of s') E) /\
    (forall x, find_task (c_tasks (core_of s)) x = None -> find_task (c_tasks (core_of s')) x = None).
Proof.
  intros Hok HC Ef H.
  pose proof (task_failed_ok _ _ _ _ _ Hok H) as Hok'.
  pose proof (task_failed_CB _ _ _ _ _ Hok HC H) as HC'.
  pose proof (task_failed_csub _ _ _ _ _ (proj2 (TS_CS _) (cb_s _ HC)) H) as Hsub.
  split; [exact Hok'|]. split; [exact HC'|].
  unfold task_failed in H. rewrite Ef in H.
  apply bind_ok in H. destruct H as (rq & _ & H). apply bind_ok in H. destruct H as (c1 & _ & H).
  apply bind_ok in H. destruct H as (csm & _ & H). apply bind_ok in H. destruct H as (c2 & _ & H).
  apply bind_ok in H. destruct H as ([c3 stt] & _ & H). apply bind_ok in H. destruct H as (u & _ & H).
  apply bind_ok in H. destruct H as ([s1 cancel_ids] & H4 & H).
  destruct (process_task_failed_active (st_core s c3) id csm k s1 cancel_ids Hok H4) as (_ & A4 & _ & _).
  destruct (process_task_failed_out _ _ _ _ _ _ H4) as (E & HE & Hfail & Hab & Hcan).
  assert (Hq : hq_of s' = hq_of s1 /\ snd s' = snd s1).
  { destruct cancel_ids; [inversion H; subst; split; reflexivity|]. split; [eapply on_cancel_tasks_hq; exact H | eapply on_cancel_tasks_snd; exact H]. }
  destruct Hq as [Hq Hsnd].
  assert (Act : forall x, BijBase.active s' x <-> BijBase.active s x /\ ~ In x csm /\ x <> id /\ ~ In x cancel_ids).
  { intros x. rewrite (active_same s1 s') by (apply jt_same; exact Hq). rewrite A4.
    rewrite (active_same s (st_core s c3)) by (intros; reflexivity). reflexivity. }
  assert (Hgone : forall x, find_task (c_tasks (core_of s')) x = None -> ~ BijBase.active s' x).
  { intros x Hn Ha. apply (cb_b _ HC') in Ha. apply find_task_present in Ha. destruct Ha as (tx & Hx). unfold K in Hx. congruence. }
  exists E. split; [rewrite Hsnd, HE; reflexivity|]. split; [exact Hfail|]. split; [|split].
  - destruct (find_task (c_tasks (core_of s')) id) as [t'|] eqn:E'; [|reflexivity]. exfalso.
    assert (Ha : BijBase.active s' id) by (apply (cb_b _ HC'); apply find_task_present; exists t'; exact E').
    apply Act in Ha. destruct Ha as (_ & _ & Hne & _). apply Hne. reflexivity.
  - intros x tx Hne Hx. destruct (find_task (c_tasks (core_of s')) x) as [tx'|] eqn:E'.
    + left. exists tx'. split; [exact E'|].
      assert (X : cget (core_of s') x = Some (ci tx')) by (unfold cget; rewrite E'; reflexivity).
      apply (proj2 Hsub) in X. unfold cget in X. rewrite Hx in X. cbn [option_map] in X. congruence.
    + right. split; [exact E'|].
      assert (Ha : BijBase.active s x) by (apply (cb_b _ HC); apply find_task_present; exists tx; exact Hx).
      pose proof (Hgone x E') as Hna. rewrite Act in Hna.
      destruct (in_dec tid_dec x csm) as [I1|N1].
      * exists csm. split; [exact I1|]. apply Hab. intros ->. destruct I1.
      * destruct (in_dec tid_dec x cancel_ids) as [I2|N2]; [|exfalso; apply Hna; auto].
        exists cancel_ids. split; [exact I2|]. apply Hcan. intros ->. destruct I2.
  - intros x Hn. eapply find_none_csub; eassumption.
Qed.

(** * The crash rule for one task *)
Definition limit_hit (t : task) : bool :=
  match t_climit t with CNever => true | CMax n => N.leb n (t_crash t + 1) | CUnl => false end.
Definition fail_kind (t : task) : failkind :=
  match t_climit t with CNever => FNeverRestart | _ => FCrashLimit end.

(** Outcome for a task that was running on the lost worker: counted (+1) and kept, or counted and
    failed because the limit is reached, or aborted. *)
Definition counted (x : tid) (t : task) (c' : core) (E : list out) : Prop :=
  (limit_hit t = false /\ exists t', find_task (c_tasks c') x = Some t' /\ t_crash t' = t_crash t + 1 /\ t_climit t' = t_climit t) \/
  (find_task (c_tasks c') x = None /\
   ((limit_hit t = true /\ In (OEv (EvFailed x (fail_kind t))) E) \/ aborted_in x E)).

Lemma aborted_in_incl x E E' : incl E E' -> aborted_in x E -> aborted_in x E'.
Proof. intros I (ids & A & B). exists ids. split; [exact A | apply I; exact B]. Qed.

Lemma kept_incl x t c E E' : incl E E' -> kept x t c E -> kept x t c E'.
Proof. intros I [H|[H1 H2]]; [left; exact H | right; split; [exact H1 | eapply aborted_in_incl; eassumption]]. Qed.

Lemma counted_incl x t c E E' : incl E E' -> counted x t c E -> counted x t c E'.
Proof.
  intros I [H|[H1 [[H2 H3]|H2]]]; [left; exact H | right; split; [exact H1 | left; split; [exact H2 | apply I; exact H3]] |
                                    right; split; [exact H1 | right; eapply aborted_in_incl; eassumption]].
Qed.

Lemma counted_ci x t1 t c E : ci t1 = ci t -> counted x t1 c E -> counted x t c E.
Proof.
  unfold ci. intros Hc. inversion Hc as [[Hcr Hcl]]. unfold counted, limit_hit, fail_kind. rewrite Hcr, Hcl. auto.
Qed.

Lemma kept_ci x t1 t c E : ci t1 = ci t -> kept x t1 c E -> kept x t c E.
Proof. intros Hc [(t' & A & B)|H]; [left; exists t'; split; [exact A | congruence] | right; exact H]. Qed.

(** One iteration of the loop. *)
Lemma lost_fail_head s reason id t s1 :
  HOK (hq_of s) -> CB s -> reason_is_failure reason = true -> find_task (c_tasks (core_of s)) id = Some t ->
  (match t_climit t with
   | CNever => task_failed s None id FNeverRestart
   | _ => let '(t', limit) := increment_crash_counter t in
          let s0 := st_core s (upd_task (core_of s) t') in
          if limit then task_failed s0 None id FCrashLimit else Ok s0
   end) = Ok s1 ->
  HOK (hq_of s1) /\ CB s1 /\
  exists E, snd s1 = snd s ++ E /\
    ((limit_hit t = true /\ find_task (c_tasks (core_of s1)) id = None /\ In (OEv (EvFailed id (fail_kind t))) E) \/
     (limit_hit t = false /\ exists t1, find_task (c_tasks (core_of s1)) id = Some t1 /\ t_crash t1 = t_crash t + 1 /\ t_climit t1 = t_climit t)) /\
    (forall x tx, x <> id -> find_task (c_tasks (core_of s)) x = Some tx -> kept x tx (core_of s1) E) /\
    (forall x, find_task (c_tasks (core_of s)) x = None -> find_task (c_tasks (core_of s1)) x = None).
Proof.
  intros Hok HC Hrf Ef H.
  destruct (find_task_some _ _ _ Ef) as [_ Hid].
  (* the state with the incremented counter *)
  set (t' := with_crash t (t_crash t + 1)) in *.
  set (s0 := st_core s (upd_task (core_of s) t')) in *.
  assert (HC0 : CB s0).
  { eapply CB_same; [| |exact HC]; [|reflexivity]. unfold K. cbn.
    apply (upd_task_frame (core_of s) id t); [exact (cb_s _ HC) | exact Ef | reflexivity | reflexivity]. }
  assert (Hf0 : forall x, find_task (c_tasks (core_of s0)) x = if tid_eqb x id then Some t' else find_task (c_tasks (core_of s)) x).
  { intros x. unfold s0. cbn. rewrite find_set_task. cbn [t_id t' with_crash]. rewrite Hid. reflexivity. }
  assert (Hkeep0 : forall x tx, x <> id -> find_task (c_tasks (core_of s)) x = Some tx -> kept x tx (core_of s0) []).
  { intros x tx Hne Hx. left. exists tx. split; [|reflexivity]. rewrite Hf0. apply tid_eqb_neq in Hne. rewrite Hne. exact Hx. }
  assert (Hnone0 : forall x, find_task (c_tasks (core_of s)) x = None -> find_task (c_tasks (core_of s0)) x = None).
  { intros x Hx. rewrite Hf0. destruct (tid_eqb x id) eqn:E; [apply tid_eqb_eq in E; subst x; congruence | exact Hx]. }
  (* failing from a state [sa] that agrees with [s] except for the crash counter of [id] *)
  assert (Hfail : forall sa ta k, HOK (hq_of sa) -> CB sa -> snd sa = snd s ->
            find_task (c_tasks (core_of sa)) id = Some ta ->
            (forall x tx, x <> id -> find_task (c_tasks (core_of s)) x = Some tx -> kept x tx (core_of sa) []) ->
            (forall x, find_task (c_tasks (core_of s)) x = None -> find_task (c_tasks (core_of sa)) x = None) ->
            limit_hit t = true -> k = fail_kind t -> task_failed sa None id k = Ok s1 ->
            HOK (hq_of s1) /\ CB s1 /\
            exists E, snd s1 = snd s ++ E /\
              ((limit_hit t = true /\ find_task (c_tasks (core_of s1)) id = None /\ In (OEv (EvFailed id (fail_kind t))) E) \/
               (limit_hit t = false /\ exists t1, find_task (c_tasks (core_of s1)) id = Some t1 /\ t_crash t1 = t_crash t + 1 /\ t_climit t1 = t_climit t)) /\
              (forall x tx, x <> id -> find_task (c_tasks (core_of s)) x = Some tx -> kept x tx (core_of s1) E) /\
              (forall x, find_task (c_tasks (core_of s)) x = None -> find_task (c_tasks (core_of s1)) x = None)).
  { intros sa ta k Hoka HCa Hsa Hfa Hka Hna Hl -> Hf.
    destruct (task_failed_facts _ _ _ _ _ Hoka HCa Hfa Hf) as (O1 & C1 & E & HE & F1 & F2 & F3 & F4).
    split; [exact O1|]. split; [exact C1|]. exists E. split; [rewrite HE, Hsa; reflexivity|].
    split; [left; auto|]. split.
    - intros x tx Hne Hx. destruct (Hka x tx Hne Hx) as [(ta' & A & B)|[_ (ids & _ & [])]].
      eapply kept_ci; [exact B | apply (F3 x ta' Hne A)].
    - intros x Hx. apply F4. apply Hna. exact Hx. }
  assert (Hkeeps : forall x tx, x <> id -> find_task (c_tasks (core_of s)) x = Some tx -> kept x tx (core_of s) []).
  { intros x tx _ Hx. left. exists tx. auto. }
  destruct (t_climit t) eqn:Ecl.
  - eapply (Hfail s t FNeverRestart Hok HC eq_refl Ef Hkeeps); [auto | unfold limit_hit; rewrite Ecl; reflexivity | unfold fail_kind; rewrite Ecl; reflexivity | exact H].
  - unfold increment_crash_counter in H. rewrite Ecl in H. fold t' in H. cbv zeta in H. fold s0 in H. change (t_crash t') with (t_crash t + 1) in H.
    destruct (N.leb n (t_crash t + 1)) eqn:El.
    + eapply (Hfail s0 t' FCrashLimit Hok HC0 eq_refl); [rewrite Hf0, (proj2 (tid_eqb_eq id id) eq_refl); reflexivity | exact Hkeep0 | exact Hnone0 | unfold limit_hit; rewrite Ecl; exact El | unfold fail_kind; rewrite Ecl; reflexivity | exact H].
    + inversion H; subst s1. split; [exact Hok|]. split; [exact HC0|]. exists []. split; [rewrite app_nil_r; reflexivity|].
      split; [|split; [exact Hkeep0 | exact Hnone0]].
      right. split; [unfold limit_hit; rewrite Ecl; exact El|]. exists t'. split; [rewrite Hf0, (proj2 (tid_eqb_eq id id) eq_refl); reflexivity|].
      split; [reflexivity | exact Ecl].
  - unfold increment_crash_counter in H. rewrite Ecl in H. fold t' in H. cbv zeta in H. fold s0 in H.
    inversion H; subst s1. split; [exact Hok|]. split; [exact HC0|]. exists []. split; [rewrite app_nil_r; reflexivity|].
    split; [|split; [exact Hkeep0 | exact Hnone0]].
    right. split; [unfold limit_hit; rewrite Ecl; reflexivity|]. exists t'. split; [rewrite Hf0, (proj2 (tid_eqb_eq id id) eq_refl); reflexivity|].
    split; [reflexivity | exact Ecl].
Qed.

(** * The whole loop *)
Lemma lost_fail_running_counts l : forall s reason s',
  NoDup l -> HOK (hq_of s) -> CB s -> reason_is_failure reason = true -> lost_fail_running s reason l = Ok s' ->
  exists E, snd s' = snd s ++ E /\
    (forall x t, In x l -> find_task (c_tasks (core_of s)) x = Some t -> counted x t (core_of s') E) /\
    (forall x t, ~ In x l -> find_task (c_tasks (core_of s)) x = Some t -> kept x t (core_of s') E) /\
    (forall x, find_task (c_tasks (core_of s)) x = None -> find_task (c_tasks (core_of s')) x = None).
Proof.
  induction l as [|id r IH]; intros s reason s' Hnd Hok HC Hrf H.
  - cbn in H. inversion H; subst. exists []. split; [rewrite app_nil_r; reflexivity|].
    split; [intros x t []|]. split; [intros x t _ Hx; left; exists t; auto | auto].
  - cbn [lost_fail_running] in H. inversion Hnd as [|? ? Hni Hnr]; subst.
    destruct (find_task (c_tasks (core_of s)) id) as [t|] eqn:Ef.
    2:{ destruct (IH _ _ _ Hnr Hok HC Hrf H) as (E & HE & I1 & I2 & I3). exists E. split; [exact HE|]. split; [|split; [|exact I3]].
        - intros x tx [<-|Hx] Hf; [congruence | apply I1; assumption].
        - intros x tx Hx Hf. apply I2; [intros X; apply Hx; right; exact X | exact Hf]. }
    (* bring the head into the shape of [lost_fail_head] *)
    assert (Hhead : exists s1,
              (match t_climit t with
               | CNever => task_failed s None id FNeverRestart
               | _ => let '(t', limit) := increment_crash_counter t in
                      let s0 := st_core s (upd_task (core_of s) t') in
                      if limit then task_failed s0 None id FCrashLimit else Ok s0
               end) = Ok s1 /\ lost_fail_running s1 reason r = Ok s').
    { destruct (t_climit t).
      - apply bind_ok in H. exact H.
      - rewrite Hrf in H. destruct (increment_crash_counter t) as [t' limit]. cbv zeta in *.
        destruct limit; [apply bind_ok in H; exact H | eexists; split; [reflexivity | exact H]].
      - rewrite Hrf in H. destruct (increment_crash_counter t) as [t' limit]. cbv zeta in *.
        destruct limit; [apply bind_ok in H; exact H | eexists; split; [reflexivity | exact H]]. }
    destruct Hhead as (s1 & Hh & Ht). clear H.
    destruct (lost_fail_head _ _ _ _ _ Hok HC Hrf Ef Hh) as (Hok1 & HC1 & E1 & HE1 & Hid & Hoth & Hnone).
    destruct (IH _ _ _ Hnr Hok1 HC1 Hrf Ht) as (E2 & HE2 & I1 & I2 & I3).
    exists (E1 ++ E2). split; [rewrite HE2, HE1, app_assoc; reflexivity|].
    assert (L1 : incl E1 (E1 ++ E2)) by (apply incl_appl, incl_refl).
    assert (L2 : incl E2 (E1 ++ E2)) by (apply incl_appr, incl_refl).
    split; [|split].
    + intros x tx Hin Hx. destruct (tid_dec x id) as [->|Hne].
      * rewrite Ef in Hx. inversion Hx; subst tx.
        destruct Hid as [(Hl & Hn1 & Hev)|(Hl & t1 & Hf1 & Hcr & Hcl)].
        -- right. split; [apply I3; exact Hn1|]. left. split; [exact Hl | apply L1; exact Hev].
        -- destruct (I2 id t1 Hni Hf1) as [(t' & A & B)|[A B]].
           ++ left. split; [exact Hl|]. exists t'. split; [exact A|]. unfold ci in B. inversion B. split; congruence.
           ++ right. split; [exact A|]. right. eapply aborted_in_incl; [exact L2 | exact B].
      * destruct Hin as [->|Hin]; [contradiction|].
        destruct (Hoth x tx Hne Hx) as [(t1 & A & B)|[A B]].
        -- eapply counted_ci; [exact B|]. eapply counted_incl; [exact L2|]. apply I1; assumption.
        -- right. split; [apply I3; exact A|]. right. eapply aborted_in_incl; [exact L1 | exact B].
    + intros x tx Hni' Hx.
      assert (Hne : x <> id) by (intros ->; apply Hni'; left; reflexivity).
      assert (Hnr' : ~ In x r) by (intros X; apply Hni'; right; exact X).
      destruct (Hoth x tx Hne Hx) as [(t1 & A & B)|[A B]].
      * eapply kept_ci; [exact B|]. eapply kept_incl; [exact L2|]. apply I2; assumption.
      * right. split; [apply I3; exact A|]. eapply aborted_in_incl; [exact L1 | exact B].
    + intros x Hx. apply I3. apply Hnone. exact Hx.
Qed.
