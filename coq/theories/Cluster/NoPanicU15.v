(** Protocol invariant, part 15: task submission ([OpSubmit], [OpSubmitG]) preserves [PROTO]:
    a new request class is announced to every worker, new tasks enter the core. *)
From HQ Require Import Base.Prelude Cluster.Types Cluster.Core Cluster.Reactor Cluster.Worker Cluster.Server Cluster.Sys Cluster.ProofsJob Cluster.ProofsMore Cluster.ProofsTerminal Cluster.ProofsStep Cluster.ProofsFinal Cluster.BijBase Cluster.BijCore Cluster.BijHq Cluster.BijSt Cluster.BijReact Cluster.BijFinal Cluster.InvDStep Cluster.NoPanicC1 Cluster.NoPanicU0 Cluster.NoPanicU1 Cluster.NoPanicU2 Cluster.NoPanicU5 Cluster.NoPanicU6 Cluster.NoPanicU7 Cluster.NoPanicU8 Cluster.NoPanicU9 Cluster.NoPanicU10 Cluster.NoPanicU11 Cluster.NoPanicU14.
From Coq Require Import ZArith Lia Sorting.Sorted.
Local Open Scope N_scope.

Notation tid_eqb_eq := NoPanicU1.tid_eqb_eq.
Notation tid_eqb_neq := NoPanicU1.tid_eqb_neq.
Notation tid_eqb_refl := NoPanicU1.tid_eqb_refl.
Notation find_proc_some := NoPanicU1.find_proc_some.
Notation find_set_proc := NoPanicU1.find_set_proc.
Notation find_set_task := NoPanicU6.find_set_task.
Notation jactive := NoPanicU6.jactive.

(** * A new request class *)
Lemma ct_ok_ext rqs r n ct : ct_ok rqs n ct = true -> ct_ok (rqs ++ [r]) n ct = true.
Proof.
  unfold ct_ok. rewrite !andb_true_iff, !orb_true_iff. intros [A [B|B]]; (split; [exact A|]); [left; exact B | right].
  destruct (nth_error rqs (N.to_nat (ct_rq ct))) as [r0|] eqn:E; [|discriminate].
  rewrite nth_error_app1; [rewrite E; exact B | apply nth_error_Some; congruence].
Qed.
Lemma down_ok_ext rqs r d : forall n, down_ok rqs n d = true -> down_ok (rqs ++ [r]) n d = true.
Proof.
  induction d as [|m t IH]; intros n H; [reflexivity|]. destruct m; cbn [down_ok] in *; try (apply IH; exact H).
  - apply andb_true_iff in H. destruct H as [A B]. rewrite (IH _ B), andb_true_r. rewrite forallb_forall in *. intros ct Hct. apply ct_ok_ext. apply A. exact Hct.
  - apply andb_true_iff in H. destruct H as [A B]. rewrite A, (IH _ B). reflexivity.
Qed.
Lemma down_ok_snoc_newrq rqs i r d : forall n, down_ok rqs n (d ++ [DNewRq i r]) = down_ok rqs n d && N.eqb i (n + N.of_nat (length (newrq_defs d))).
Proof.
  induction d as [|m t IH]; intros n; cbn [app].
  - cbn [down_ok newrq_defs flat_map length]. rewrite N.add_0_r, andb_true_r. reflexivity.
  - destruct m; cbn [down_ok]; rewrite ?IH; unfold newrq_defs; cbn [flat_map app length]; fold (newrq_defs t); rewrite ?andb_assoc; try reflexivity.
    f_equal. f_equal. lia.
Qed.

Lemma SP_newrq s r : SP x0 s no_pum [] -> negb (rq_is_mn r) || zero_res r = true ->
  let i := N.of_nat (length (c_rqs (core_of s))) in
  let s1 := broadcast s (DNewRq i r) in
  SP x0 (st_core s1 (with_rqs (core_of s1) (c_rqs (core_of s) ++ [r]) (c_queues (core_of s) ++ [empty_queue]))) no_pum [].
Proof.
  intros [H9 Hcs Hact H1 Hd Ht H3 H4 Hpres Hpum H5 H6 H7 R1 R2] Hr i s1.
  set (f := fun p => push_down p (DNewRq i r)).
  assert (Hf : forall p, p_id (f p) = p_id p) by reflexivity.
  assert (Hfp : forall w q, find_proc (map f (s_procs (fst s))) w = Some q -> exists p, find_proc (s_procs (fst s)) w = Some p /\ q = f p).
  { intros w q Hq. rewrite (find_map_proc f _ _ Hf) in Hq. destruct (find_proc (s_procs (fst s)) w) as [p|]; [|discriminate]. inversion Hq. eauto. }
  constructor; cbn [s1 fst snd core_of hq_of st_core with_core broadcast with_procs s_core s_hq s_procs with_rqs c_tasks c_rqs c_redirects] in *; try assumption.
  - apply map_proc_sorted; assumption.
  - intros w q x t Hq Hx HX. destruct (Hfp _ _ Hq) as (p & Hp & ->). unfold f. cbn [push_down p_up p_down].
    specialize (H1 w p x t Hp Hx HX). rewrite msgs_for_nil, !app_nil_r in *. rewrite ditems_app. cbn [ditems flat_map ditems_msg]. rewrite app_nil_r.
    change (local (push_down p (DNewRq i r)) x) with (local p x). exact H1.
  - intros w q Hq. destruct (Hfp _ _ Hq) as (p & Hp & ->). unfold f. cbn [push_down p_rqs p_down]. rewrite msgs_for_nil, app_nil_r.
    specialize (Hd _ _ Hp). specialize (Ht _ _ Hp). rewrite msgs_for_nil, app_nil_r in Hd, Ht.
    rewrite down_ok_snoc_newrq, (down_ok_ext _ r _ _ Hd). cbn [andb]. apply N.eqb_eq. unfold i. rewrite <- Ht, app_length. lia.
  - intros w q Hq. destruct (Hfp _ _ Hq) as (p & Hp & ->). unfold f. cbn [push_down p_rqs p_down]. rewrite msgs_for_nil, app_nil_r.
    specialize (Ht _ _ Hp). rewrite msgs_for_nil, app_nil_r in Ht. rewrite newrq_app. cbn [newrq_defs flat_map]. rewrite app_nil_r, app_assoc, Ht. reflexivity.
  - intros w q Hq. destruct (Hfp _ _ Hq) as (p & Hp & ->). destruct (H3 _ _ Hp) as [L1 L2 L3 L4 L5]. constructor; assumption.
  - intros w q x Hq Hx. destruct (Hfp _ _ Hq) as (p & Hp & ->). apply (H4 w p x Hp). destruct Hx as [Hx|[[]|[]]]. left.
    unfold proc_tids, f in *. cbn [push_down p_up p_down p_backlog p_running] in Hx. rewrite flat_map_app in Hx. cbn [flat_map dmsg_tids] in Hx. rewrite !app_nil_r in Hx. exact Hx.
  - intros w Hw. exfalso. apply Hw. reflexivity.
  - unfold mn_rqs_ok in *. cbn [with_rqs c_rqs]. rewrite forallb_app. apply andb_true_iff. split; [exact H5 | cbn [forallb]; rewrite Hr; reflexivity].
  - intros x t Hx HX. specialize (H6 _ _ Hx HX). unfold mn_task_ok in *. cbn [with_rqs c_rqs]. change (core_of s) with (s_core (fst s)).
    assert (Hn : forall v, match nth_error (c_rqs (s_core (fst s))) (N.to_nat (t_rq t)) with Some r0 => v r0 | None => false end = true ->
                 match nth_error (c_rqs (s_core (fst s)) ++ [r]) (N.to_nat (t_rq t)) with Some r0 => v r0 | None => false end = true).
    { intros v Hv. destruct (nth_error (c_rqs (s_core (fst s))) (N.to_nat (t_rq t))) as [r0|] eqn:E; [|discriminate Hv].
      rewrite nth_error_app1; [rewrite E; exact Hv | apply nth_error_Some; congruence]. }
    destruct (t_state t); try exact H6; apply Hn; exact H6.
Qed.

Lemma get_or_create_rq_SP s r : SP x0 s no_pum [] -> negb (rq_is_mn r) || zero_res r = true ->
  SP x0 (fst (get_or_create_rq s r)) no_pum [] /\ hq_of (fst (get_or_create_rq s r)) = hq_of s /\
  c_tasks (core_of (fst (get_or_create_rq s r))) = c_tasks (core_of s) /\
  (forall w p', find_proc (s_procs (fst (fst (get_or_create_rq s r)))) w = Some p' ->
     exists p, find_proc (s_procs (fst s)) w = Some p /\ proc_tids p' = proc_tids p).
Proof.
  intros HS Hr. unfold get_or_create_rq. destruct (rq_index (c_rqs (core_of s)) r 0) as [i|].
  - cbn [fst]. split; [exact HS|]. split; [reflexivity|]. split; [reflexivity|]. intros w p' Hp'. eauto.
  - cbn [fst]. split; [apply SP_newrq; assumption|]. split; [reflexivity|]. split; [reflexivity|].
    intros w p' Hp'. cbn [st_core broadcast fst with_core with_procs s_procs] in Hp'.
    rewrite (find_map_proc (fun p => push_down p (DNewRq (N.of_nat (length (c_rqs (core_of s)))) r)) _ _ (fun _ => eq_refl)) in Hp'.
    destruct (find_proc (s_procs (fst s)) w) as [p|]; [|discriminate]. inversion Hp'; subst p'. exists p. split; [reflexivity|].
    unfold proc_tids. cbn [push_down p_up p_down p_backlog p_running]. rewrite flat_map_app. cbn [flat_map dmsg_tids]. rewrite !app_nil_r. reflexivity.
Qed.

(** * New tasks *)
Lemma absent_word p x : ~ In x (proc_tids p) -> uitems x (p_up p) = [] /\ local p x = LNone /\ ditems x (p_down p) = [].
Proof.
  unfold proc_tids. rewrite !in_app_iff. intros Hn. split; [|split].
  - assert (Hu : ~ In x (flat_map umsg_tids (p_up p))) by tauto. clear Hn. induction (p_up p) as [|m r IH]; [reflexivity|].
    cbn [flat_map] in Hu. rewrite in_app_iff in Hu. rewrite uitems_cons, IH by tauto. rewrite app_nil_r.
    assert (Hm : ~ In x (umsg_tids m)) by tauto. clear -Hm. destruct m as [us|ids]; cbn [uitems_msg umsg_tids] in *.
    + induction us as [|u t IH]; [reflexivity|]. cbn [flat_map] in *. rewrite in_app_iff in Hm. rewrite IH by tauto. rewrite app_nil_r.
      destruct u; cbn [uitem_of wupdate_tids] in *; try reflexivity; apply sel_other; intros ->; apply Hm; left; left; reflexivity.
    + induction ids as [|h t IH]; [reflexivity|]. cbn [flat_map In] in *. rewrite sel_other by (intros ->; apply Hm; auto). apply IH. tauto.
  - assert (Hb : ~ In x (bl_tids (p_backlog p))) by (unfold bl_tids; tauto). assert (Hr : ~ In x (map fst (p_running p))) by tauto.
    unfold local. rewrite (proj2 (run_find_none _ _) Hr). destruct (bl_count x (p_backlog p)) eqn:E; [reflexivity|].
    exfalso. apply Hb. apply bl_count_pos. lia.
  - apply ditems_notin. tauto.
Qed.

Lemma register_deps_CF X deps : forall c id kept count c' kept' count',
  register_deps c id deps kept count = (c', kept', count') -> CF X c c'.
Proof.
  induction deps as [|d r IH]; cbn [register_deps]; intros c id kept count c' kept' count' H; [inversion H; subst; apply CF_refl|].
  destruct (find_task (c_tasks c) d) as [dep|] eqn:Ef; [|eapply IH; exact H].
  eapply CF_trans; [|eapply IH; exact H]. destruct (find_task_some _ _ _ Ef) as [_ Eid].
  apply (CF_upd_task X c dep); [cbn [with_consumers t_id]; rewrite Eid; exact Ef | intros _; split; reflexivity].
Qed.

Definition fresh_task_ok (s : st) (x : tid) : Prop :=
  (forall w p, find_proc (s_procs (fst s)) w = Some p -> ~ In x (proc_tids p)) /\
  jv (hq_of s) x = Some (Some JW) /\ seen (hq_of s) x = true.

Lemma add_new_tasks_SP s ts : forall c ret c' ret',
  SP x0 (st_core s c) no_pum [] -> (forall t, In t ts -> fresh_task_ok s (t_id t)) ->
  add_new_tasks c ts ret = Ok (c', ret') -> SP x0 (st_core s c') no_pum [].
Proof.
  induction ts as [|t r IH]; cbn [add_new_tasks]; intros c ret c' ret' HS Hfr H; [inversion H; subst; exact HS|].
  destruct (register_deps c (t_id t) (t_deps t) [] 0) as [[c1 kept] count] eqn:Erd.
  apply bind_ok in H. destruct H as ([c2 ret1] & H2 & H).
  destruct (find_task (c_tasks c2) (t_id t)) as [old|] eqn:Enew; [discriminate|].
  set (t1 := with_state (with_deps t kept) (Waiting count)) in *.
  eapply (IH (upd_task c2 t1)); [| intros t0 H0; apply Hfr; right; exact H0 | exact H].
  assert (F12 : CF x0 c c2).
  { eapply CF_trans; [eapply register_deps_CF; exact Erd|]. destruct (N.eqb count 0).
    - apply bind_ok in H2. destruct H2 as ([qs ret2] & _ & H2). inversion H2; subst. apply CF_tasks_same; auto.
    - inversion H2; subst. apply CF_refl. }
  assert (S2 : SP x0 (st_core s c2) no_pum []).
  { apply (SP_ext _ (st_core (st_core s c) c2)); [|reflexivity|reflexivity|reflexivity]. apply (SP_CF x0 x0); [exact HS | exact F12 | auto]. }
  destruct (Hfr t (or_introl eq_refl)) as (Hocc & Hjv & Hseen).
  change (st_core s (upd_task c2 t1)) with (mkSys (upd_task c2 t1) (hq_of (st_core s c2)) (s_procs (fst (st_core s c2))), snd (st_core s c2)).
  apply (SP_gen2 (fun y => tid_eqb y (t_id t)) x0 x0 (st_core s c2) no_pum [] (upd_task c2 t1) _ _ no_pum [] S2).
  - unfold tsorted. cbn [upd_task with_tasks c_tasks]. apply set_task_sorted. exact (sp_cs _ _ _ _ S2).
  - reflexivity.
  - exact (sp_rvr _ _ _ _ S2).
  - intros y ty E Hy _. rewrite find_upd_task in Hy. cbn [t1 with_state with_deps t_id] in Hy. rewrite E in Hy. exists ty. repeat split; assumption.
  - intros w y _. split; reflexivity.
  - auto.
  - intros y ty Hy. rewrite find_upd_task in Hy. cbn [t1 with_state with_deps t_id] in Hy. destruct (tid_eqb y (t_id t)) eqn:E.
    + apply tid_eqb_eq in E. subst y. right. exact Hseen.
    + left. change (core_of (st_core s c2)) with c2. congruence.
  - intros w p y Hp [[]|[]].
  - intros w p Hp. split; [exact (sp_down _ _ _ _ S2 _ _ Hp) | reflexivity].
  - auto.
  - intros x tx E Hx _. apply tid_eqb_eq in E. subst x. rewrite find_upd_task in Hx. cbn [t1 with_state with_deps t_id] in Hx. rewrite tid_eqb_refl in Hx.
    inversion Hx; subst tx. clear Hx. change (hq_of (st_core s c2)) with (hq_of s).
    split; [left; exact Hjv|]. split; [reflexivity|]. split; [|split].
    + unfold jr_ok. cbn [t1 with_state with_deps t_state t_id]. rewrite job_running_jv, Hjv. reflexivity.
    + intros w rv E. cbn in E. discriminate.
    + intros w p Hp. cbn [t1 with_state t_state view_of no_pum app]. rewrite msgs_for_nil, app_nil_r.
      destruct (absent_word p (t_id t) (Hocc w p Hp)) as (A & B & C). rewrite A, B, C. reflexivity.
Qed.

Lemma on_new_tasks_SP s ts s' :
  SP x0 s no_pum [] -> (forall t, In t ts -> fresh_task_ok s (t_id t)) -> on_new_tasks s ts = Ok s' -> SP x0 s' no_pum [].
Proof.
  intros HS Hfr H. unfold on_new_tasks in H. destruct ts as [|t0 tr] eqn:Ets; [inversion H; subst; exact HS|]. rewrite <- Ets in *.
  apply bind_ok in H. destruct H as ([c' retracted] & H1 & H). apply bind_ok in H. destruct H as (s1 & H2 & H). inversion H; subst s'.
  apply SP_ask. eapply process_retracted_SP; [|exact H2].
  eapply add_new_tasks_SP; [| exact Hfr | exact H1]. eapply SP_ext; [exact HS | | |]; reflexivity.
Qed.

(** * The common tail of the two submit handlers *)
Lemma n_mem_In' x l : n_mem x l = true <-> In x l.
Proof.
  induction l as [|h t IH]; cbn [n_mem In]; [split; [discriminate | intros []]|].
  rewrite orb_true_iff, N.eqb_eq, IH. split; intros [H|H]; auto.
Qed.

Lemma new_tasks_tail s4 jid site j j' ids' ts s6 :
  SP x0 s4 no_pum [] ->
  hq_get_job s4 jid site = Ok j -> attach_ids j ids' = Ok j' ->
  (forall t, In t ts -> fst (t_id t) = jid /\ In (snd (t_id t)) ids') ->
  jid < h_counter (hq_of s4) ->
  (forall i, In i ids' -> forall w p, find_proc (s_procs (fst s4)) w = Some p -> ~ In (jid, i) (proc_tids p)) ->
  on_new_tasks (hq_set_job s4 j') ts = Ok s6 -> SP x0 s6 no_pum [].
Proof.
  intros HS Hj Ha Hts Hlt Hocc H.
  destruct (jt_get _ _ _ _ Hj) as [Ej Eid]. destruct (attach_ids_find _ _ _ Ha) as [Eid' Hfind].
  pose proof (attach_ids_fresh _ _ _ Ha) as Hfresh.
  assert (Hjv : forall y, jv (hq_of (hq_set_job s4 j')) y = if N.eqb (fst y) jid then Some (if n_mem (snd y) ids' then Some JW else jt_find (j_tasks j) (snd y)) else jv (hq_of s4) y).
  { intros y. rewrite !jv_jt, jt_set_job, Eid', Eid. destruct (N.eqb (fst y) jid); [cbn [option_map]; rewrite Hfind; reflexivity | reflexivity]. }
  assert (Hjv4 : forall y, fst y = jid -> jv (hq_of s4) y = Some (jt_find (j_tasks j) (snd y))).
  { intros y E. rewrite jv_jt, E, Ej. reflexivity. }
  assert (S5 : SP x0 (hq_set_job s4 j') no_pum []).
  { apply (SP_ext _ (mkSys (core_of s4) (hq_of (hq_set_job s4 j')) (s_procs (fst s4)), snd s4)); [|reflexivity|reflexivity|reflexivity].
    apply SP_hq; [exact HS | |].
    - intros y t Hy _. rewrite Hjv. destruct (N.eqb (fst y) jid) eqn:E; [|reflexivity]. apply N.eqb_eq in E.
      pose proof (sp_act _ _ _ _ HS _ _ Hy eq_refl) as A. rewrite (Hjv4 y E) in A |- *.
      destruct (n_mem (snd y) ids') eqn:M; [|reflexivity]. apply n_mem_In' in M. rewrite (Hfresh _ M) in A. destruct A as [A|A]; discriminate.
    - intros y Hy. rewrite seen_jv in *. change (h_counter (hq_of (hq_set_job s4 j'))) with (h_counter (hq_of s4)).
      apply andb_true_iff in Hy. destruct Hy as [Y1 Y2]. rewrite Y1. cbn [andb]. rewrite Hjv.
      destruct (N.eqb (fst y) jid) eqn:E; [|exact Y2]. apply N.eqb_eq in E. rewrite (Hjv4 y E) in Y2.
      destruct (n_mem (snd y) ids'); [reflexivity | exact Y2]. }
  eapply on_new_tasks_SP; [exact S5 | | exact H].
  intros t Ht. destruct (Hts t Ht) as [E1 E2]. assert (Ex : t_id t = (jid, snd (t_id t))) by (destruct (t_id t); cbn in *; subst; reflexivity).
  split; [|split].
  - intros w p Hp. rewrite Ex. apply (Hocc _ E2 w p). exact Hp.
  - rewrite Hjv, E1, N.eqb_refl. apply n_mem_In' in E2. rewrite E2. reflexivity.
  - rewrite seen_jv. change (h_counter (hq_of (hq_set_job s4 j'))) with (h_counter (hq_of s4)). rewrite E1. apply N.ltb_lt in Hlt. rewrite Hlt. cbn [andb].
    rewrite Hjv, E1, N.eqb_refl. apply n_mem_In' in E2. rewrite E2. reflexivity.
Qed.

(** * A new job *)
Lemma SP_new_job s o jb :
  PROTO s -> UH s -> j_id jb = h_counter (s_hq s) ->
  SP x0 (mkSys (s_core s) (mkHq (set_job (h_jobs (s_hq s)) jb) (h_counter (s_hq s) + 1)) (s_procs s), o) no_pum [].
Proof.
  intros HP HU Eid. destruct HU as [Hcs Hpa]. pose proof (SP_init s o HP Hcs Hpa) as S0.
  apply (SP_hq x0 (s, o) no_pum [] _ o S0).
  - intros y t Hy _. pose proof (present_lt _ _ _ (conj Hcs Hpa) Hy) as Hlt. change (hq_of (s, o)) with (s_hq s). unfold jv. cbn [h_jobs]. rewrite find_job_set_any, Eid.
    destruct (N.eqb (fst y) (h_counter (s_hq s))) eqn:E; [apply N.eqb_eq in E; rewrite E in Hlt; exfalso; exact (N.lt_irrefl _ Hlt) | reflexivity].
  - intros y Hy. change (hq_of (s, o)) with (s_hq s) in *. unfold seen in *. cbn [h_jobs h_counter] in *. apply andb_true_iff in Hy. destruct Hy as [Ha Hb]. apply N.ltb_lt in Ha.
    rewrite find_job_set_any, Eid. destruct (N.eqb (fst y) (h_counter (s_hq s))) eqn:E; [apply N.eqb_eq in E; rewrite E in Ha; exfalso; exact (N.lt_irrefl _ Ha)|].
    rewrite Hb, andb_true_r. apply N.ltb_lt. apply N.lt_lt_succ_r in Ha. rewrite N.add_1_r. exact Ha.
Qed.

Lemma not_seen_no_occ s x : PROTO s -> seen (s_hq s) x = false -> forall w p, find_proc (s_procs s) w = Some p -> ~ In x (proc_tids p).
Proof. intros HP Hs w p Hp Hin. rewrite (pr_seen _ HP _ _ _ Hp Hin) in Hs. discriminate. Qed.

Lemma take_n_in {A} (l : list A) : forall n x, In x (fst (take_n n l)) -> In x l.
Proof.
  induction l as [|h t IH]; intros n x; destruct n; cbn [take_n fst]; try (intros []).
  destruct (take_n n t) as [a b] eqn:E. cbn [fst]. intros [->|H]; [left; reflexivity|]. right. apply (IH n). rewrite E. exact H.
Qed.

(** * [handle_submit_array] *)
Lemma handle_submit_array_PROTO s jobsel ids entries rq prio cl tlim mf s' :
  PROTO s -> UH s -> (forall jb, In jb (h_jobs (s_hq s)) -> j_id jb < h_counter (s_hq s)) ->
  negb (rq_is_mn rq) || zero_res rq = true ->
  handle_submit_array (s, []) jobsel ids entries rq prio cl tlim mf = Ok s' -> PROTO (fst s').
Proof.
  intros HP HU Hfr Hrq H. unfold handle_submit_array in H.
  match type of H with (match ?x with Some _ => _ | None => _ end) = _ => destruct x end; [inversion H; subst; exact HP|].
  apply bind_ok in H. destruct H as ([acc s1] & Hr & H).
  destruct acc as [[[jid is_new] ids']|].
  - cbv zeta in H.
    match type of H with context [get_or_create_rq ?sx rq] => set (s3 := sx) in *; destruct (get_or_create_rq s3 rq) as [s4 rqi] eqn:Erq end.
    apply bind_ok in H. destruct H as (j & Hj & H). apply bind_ok in H. destruct H as (j' & Ha & H). apply bind_ok in H. destruct H as (s6 & H6 & H).
    assert (E6 : fst s' = fst s6) by (unfold submit_ok_resp in H; apply bind_ok in H; destruct H as (jx & _ & H); inversion H; reflexivity).
    rewrite E6. apply SP_final.
    (* the state before the rq creation *)
    assert (A3 : SP x0 s3 no_pum [] /\ s_procs (fst s3) = s_procs s /\ jid < h_counter (hq_of s3) /\
                 (forall jx, find_job (h_jobs (hq_of s3)) jid = Some jx -> forall i, jt_find (j_tasks jx) i = None -> seen (s_hq s) (jid, i) = false)).
    { destruct jobsel as [j0|].
      - unfold hq_jobs in Hr. cbn [fst] in Hr. destruct (find_job (h_jobs (s_hq s)) j0) as [jb|] eqn:Ef; [|inversion Hr].
        destruct (negb (j_open jb)); [inversion Hr|]. inversion Hr; subst jid is_new ids' s1. clear Hr. subst s3.
        destruct HU as [Hcs Hpa]. split; [apply SP_init; assumption|]. split; [reflexivity|]. split.
        + cbn [emit fst hq_of]. pose proof (Hfr _ (find_job_in _ _ _ Ef)) as Hlt. rewrite (find_job_id _ _ _ Ef) in Hlt. exact Hlt.
        + intros jx Hjx i Hi. unfold hq_of in Hjx. cbn [emit fst] in Hjx. rewrite Ef in Hjx. inversion Hjx; subst jx. unfold seen. cbn [fst snd]. rewrite Ef, Hi. apply andb_false_r.
      - inversion Hr; subst jid is_new ids' s1. clear Hr. subst s3. unfold hq_with, hq_jobs, hq_counter. cbn [emit fst snd with_hq s_core s_hq s_procs h_jobs h_counter].
        split; [eapply SP_ext; [apply (SP_new_job s [] (mkJob (h_counter (s_hq s)) false [] 0 0 0 0 0 false mf) HP HU eq_refl) | reflexivity | reflexivity | reflexivity]|]. split; [reflexivity|]. split; [change (h_counter (s_hq s) < h_counter (s_hq s) + 1); lia|].
        intros jx _ i _. unfold seen. cbn [fst]. rewrite N.ltb_irrefl. reflexivity. }
    destruct A3 as (S3 & Ep3 & Hlt3 & Hns3).
    destruct (get_or_create_rq_SP s3 rq S3 Hrq) as (S4 & Eh4 & _ & Hp4). rewrite Erq in S4, Eh4, Hp4. cbn [fst] in S4, Eh4, Hp4.
    eapply (new_tasks_tail s4 jid 222 j j' ids' _ s6 S4 Hj Ha); [| rewrite Eh4; exact Hlt3 | | exact H6].
    + intros t Ht. apply in_map_iff in Ht. destruct Ht as (i & <- & Hi). cbn [fresh_task t_id fst snd]. split; [reflexivity|].
      destruct entries as [n|]; [eapply take_n_in; exact Hi | exact Hi].
    + intros i Hi w p4 Hp4'. destruct (Hp4 _ _ Hp4') as (p & Hp & ->). rewrite Ep3 in Hp.
      apply (not_seen_no_occ s (jid, i) HP) with (w := w); [|exact Hp].
      unfold hq_get_job in Hj. unfold hq_of in Eh4. destruct (find_job (h_jobs (s_hq (fst s4))) jid) as [jx|] eqn:Ejx; [|discriminate]. inversion Hj; subst jx.
      apply (Hns3 j); [unfold hq_of; rewrite <- Eh4; exact Ejx | eapply attach_ids_fresh; [exact Ha | exact Hi]].
  - assert (E1 : fst s1 = s).
    { destruct jobsel as [jid|]; [|inversion Hr]. unfold hq_jobs in Hr. cbn [fst] in Hr.
      destruct (find_job (h_jobs (s_hq s)) jid) as [jb|]; [|inversion Hr; subst; reflexivity].
      destruct (negb (j_open jb)); inversion Hr; subst; reflexivity. }
    assert (E2 : fst s' = fst s1).
    { destruct jobsel; [match type of H with (match ?x with Some _ => _ | None => _ end) = _ => destruct x end|];
        inversion H; subst; reflexivity. }
    rewrite E2, E1. exact HP.
Qed.

(** * [handle_submit_graph] *)
Lemma fold_rqs_SP rqs : forall s l s4 rqis,
  fold_left (fun acc r => let '(s, l) := acc in let '(s', i) := get_or_create_rq s r in (s', l ++ [i])) rqs (s, l) = (s4, rqis) ->
  SP x0 s no_pum [] -> (forall r, In r rqs -> negb (rq_is_mn r) || zero_res r = true) ->
  SP x0 s4 no_pum [] /\ hq_of s4 = hq_of s /\
  (forall w p', find_proc (s_procs (fst s4)) w = Some p' -> exists p, find_proc (s_procs (fst s)) w = Some p /\ proc_tids p' = proc_tids p).
Proof.
  induction rqs as [|r rest IH]; cbn [fold_left]; intros s l s4 rqis H HS Hok.
  - inversion H; subst. split; [exact HS|]. split; [reflexivity|]. intros w p' Hp'. eauto.
  - destruct (get_or_create_rq s r) as [s1 i] eqn:E.
    destruct (get_or_create_rq_SP s r HS (Hok r (or_introl eq_refl))) as (S1 & E1 & _ & P1). rewrite E in S1, E1, P1. cbn [fst] in S1, E1, P1.
    destruct (IH _ _ _ _ H S1 (fun r0 H0 => Hok r0 (or_intror H0))) as (S4 & E4 & P4).
    split; [exact S4|]. split; [congruence|]. intros w p' Hp'. destruct (P4 _ _ Hp') as (p1 & Hp1 & Et1). destruct (P1 _ _ Hp1) as (p & Hp & Et).
    exists p. split; [exact Hp | congruence].
Qed.

Lemma handle_submit_graph_PROTO s jobsel rqs ts mf s' :
  PROTO s -> UH s -> (forall jb, In jb (h_jobs (s_hq s)) -> j_id jb < h_counter (s_hq s)) ->
  (forall r, In r rqs -> negb (rq_is_mn r) || zero_res r = true) ->
  handle_submit_graph (s, []) jobsel rqs ts mf = Ok s' -> PROTO (fst s').
Proof.
  intros HP HU Hfr Hrq H. unfold handle_submit_graph in H.
  apply bind_ok in H. destruct H as (v1 & _ & H).
  match type of H with (match ?x with Some _ => _ | None => _ end) = _ => destruct x end; [inversion H; subst; exact HP|].
  apply bind_ok in H. destruct H as ([acc s1] & Hr & H).
  destruct acc as [[jid is_new]|].
  - cbv zeta in H.
    match type of H with context [fold_left ?f rqs (?sx, [])] => set (s3 := sx) in *; destruct (fold_left f rqs (s3, [])) as [s4 rqis] eqn:Efold end.
    apply bind_ok in H. destruct H as (j & Hj & H). apply bind_ok in H. destruct H as (j' & Ha & H).
    apply bind_ok in H. destruct H as (tasks & Hgt & H). apply bind_ok in H. destruct H as (s6 & H6 & H).
    assert (E6 : fst s' = fst s6) by (unfold submit_ok_resp in H; apply bind_ok in H; destruct H as (jx & _ & H); inversion H; reflexivity).
    rewrite E6. apply SP_final.
    assert (A3 : SP x0 s3 no_pum [] /\ s_procs (fst s3) = s_procs s /\ jid < h_counter (hq_of s3) /\
                 (forall jx, find_job (h_jobs (hq_of s3)) jid = Some jx -> forall i, jt_find (j_tasks jx) i = None -> seen (s_hq s) (jid, i) = false)).
    { destruct jobsel as [j0|].
      - unfold hq_jobs in Hr. cbn [fst] in Hr. destruct (find_job (h_jobs (s_hq s)) j0) as [jb|] eqn:Ef; [|inversion Hr].
        destruct (negb (j_open jb)); [inversion Hr|]. inversion Hr; subst jid is_new s1. clear Hr. subst s3.
        destruct HU as [Hcs Hpa]. split; [apply SP_init; assumption|]. split; [reflexivity|]. split.
        + cbn [emit fst hq_of]. pose proof (Hfr _ (find_job_in _ _ _ Ef)) as Hlt. rewrite (find_job_id _ _ _ Ef) in Hlt. exact Hlt.
        + intros jx Hjx i Hi. unfold hq_of in Hjx. cbn [emit fst] in Hjx. rewrite Ef in Hjx. inversion Hjx; subst jx. unfold seen. cbn [fst snd]. rewrite Ef, Hi. apply andb_false_r.
      - inversion Hr; subst jid is_new s1. clear Hr. subst s3. unfold hq_with, hq_jobs, hq_counter. cbn [emit fst snd with_hq s_core s_hq s_procs h_jobs h_counter].
        split; [eapply SP_ext; [apply (SP_new_job s [] (mkJob (h_counter (s_hq s)) false [] 0 0 0 0 0 false mf) HP HU eq_refl) | reflexivity | reflexivity | reflexivity]|].
        split; [reflexivity|]. split; [change (h_counter (s_hq s) < h_counter (s_hq s) + 1); lia|].
        intros jx _ i _. unfold seen. cbn [fst]. rewrite N.ltb_irrefl. reflexivity. }
    destruct A3 as (S3 & Ep3 & Hlt3 & Hns3).
    destruct (fold_rqs_SP _ _ _ _ _ Efold S3 Hrq) as (S4 & Eh4 & Hp4).
    destruct (graph_tasks_spec _ _ _ _ Hgt) as [Hids _].
    eapply (new_tasks_tail s4 jid 222 j j' (map gt_id ts) tasks s6 S4 Hj Ha); [| rewrite Eh4; exact Hlt3 | | exact H6].
    + intros t Ht. assert (Hin : In (t_id t) (map t_id tasks)) by (apply in_map; exact Ht). rewrite Hids in Hin.
      apply in_map_iff in Hin. destruct Hin as (i & Ei & Hi). rewrite <- Ei. cbn [fst snd]. auto.
    + intros i Hi w p4 Hp4'. destruct (Hp4 _ _ Hp4') as (p & Hp & ->). rewrite Ep3 in Hp.
      apply (not_seen_no_occ s (jid, i) HP) with (w := w); [|exact Hp].
      unfold hq_get_job in Hj. unfold hq_of in Eh4. destruct (find_job (h_jobs (s_hq (fst s4))) jid) as [jx|] eqn:Ejx; [|discriminate]. inversion Hj; subst jx.
      apply (Hns3 j); [unfold hq_of; rewrite <- Eh4; exact Ejx | eapply attach_ids_fresh; [exact Ha | exact Hi]].
  - assert (E1 : fst s1 = s).
    { destruct jobsel as [jid|]; [|inversion Hr]. unfold hq_jobs in Hr. cbn [fst] in Hr.
      destruct (find_job (h_jobs (s_hq s)) jid) as [jb|]; [|inversion Hr; subst; reflexivity].
      destruct (negb (j_open jb)); inversion Hr; subst; reflexivity. }
    assert (E2 : s' = s1) by (inversion H; reflexivity). rewrite E2, E1. exact HP.
Qed.
