(** C14 / C03, "tasks are aborted only with a cause", part 2: what a piece of the server's
    execution does to the jobs' failure counters.

    [JE s s' ext]: the piece from [s] to [s'] appended the outputs [ext]; it answered no submit
    ([NS]); every job of [s'] is a job of [s] with the same failure limit and the same task ids,
    and its failure counter grew by exactly the number of [EvFailed] events of that job in [ext]
    ([onfailed]); the job-id counter is unchanged; a job that failed a task existed in [s].
    This is a frame property of the code (no invariant needed).  Proved here for the job-layer
    primitives ([JQ]: ... and no [EvAborted] is emitted, [NA]).  The only primitives that emit an
    abort are [abort_tasks] (shape in [abort_tasks_JE]) and [process_task_failed]:
    [process_task_failed_AC] (with the counters exact, [HOK]) - the abort of the dependents is
    IMMEDIATELY followed by the failure (no [EvCompleted] in between: the failing task is still
    active), and the second abort happens only with the limit exceeded. *)
From HQ Require Import Base.Prelude Cluster.Types Cluster.Core Cluster.Reactor Cluster.Worker Cluster.Server Cluster.Sys Cluster.Monitors Cluster.ProofsJob Cluster.ProofsMore Cluster.ProofsTerminal Cluster.ProofsStep Cluster.ProofsFinal Cluster.BijBase Cluster.BijHq Cluster.ProofsOnce Cluster.AbortCauseBase.
From Coq Require Import ZArith Lia.
Local Open Scope N_scope.

Arguments N.add : simpl never.
Arguments N.sub : simpl never.

Definition jobs (s : st) : list job := h_jobs (hq_of s).

(** * Counting failures, and the two kinds of outputs that matter *)
Definition ofailed1 (k : N) (o : out) : N :=
  match o with OEv (EvFailed t _) => if N.eqb (fst t) k then 1 else 0 | _ => 0 end.
Fixpoint onfailed (k : N) (outs : list out) : N :=
  match outs with [] => 0 | o :: r => ofailed1 k o + onfailed k r end.
Lemma onfailed_app k a : forall b, onfailed k (a ++ b) = onfailed k a + onfailed k b.
Proof. induction a as [|o r IH]; intros b; cbn [app onfailed]; [lia | rewrite IH; lia]. Qed.

Definition nsb (o : out) : bool := match o with OResp (RSubmitOk _ _ _) => false | _ => true end.
Definition NS (ext : list out) : Prop := forallb nsb ext = true.
Definition nab (o : out) : bool := match o with OEv (EvAborted _) => false | _ => true end.
Definition NA (ext : list out) : Prop := forallb nab ext = true.
Definition nfb (o : out) : bool := match o with OEv (EvFailed _ _) => false | _ => true end.

Lemma NS_app a b : NS a -> NS b -> NS (a ++ b).
Proof. unfold NS. intros A B. rewrite forallb_app, A, B. reflexivity. Qed.
Lemma NA_app a b : NA a -> NA b -> NA (a ++ b).
Proof. unfold NA. intros A B. rewrite forallb_app, A, B. reflexivity. Qed.
Lemma NS_in ext j n ids : NS ext -> ~ In (OResp (RSubmitOk j n ids)) ext.
Proof. intros H Hin. unfold NS in H. rewrite forallb_forall in H. specialize (H _ Hin). discriminate. Qed.
Lemma NA_in ext ts : NA ext -> ~ In (OEv (EvAborted ts)) ext.
Proof. intros H Hin. unfold NA in H. rewrite forallb_forall in H. specialize (H _ Hin). discriminate. Qed.
Lemma onfailed_nf k ext : forallb nfb ext = true -> onfailed k ext = 0.
Proof.
  induction ext as [|o r IH]; cbn [forallb onfailed]; intros H; [reflexivity|].
  apply andb_true_iff in H. destruct H as [H1 H2]. rewrite (IH H2).
  destruct o as [e| | | | | |]; try reflexivity. destruct e; try reflexivity. discriminate.
Qed.

(** Replacing the state of a task that is there keeps the set of ids. *)
Definition same_ids (l l' : list (N * jstate)) : Prop := forall i, jt_find l' i = None <-> jt_find l i = None.
Lemma same_ids_refl l : same_ids l l.
Proof. intros i. tauto. Qed.
Lemma same_ids_trans a b c : same_ids a b -> same_ids b c -> same_ids a c.
Proof. intros A B i. rewrite (B i). apply A. Qed.
Lemma jt_set_same_ids l t v v' : jt_find l t = Some v -> same_ids l (jt_set l t v').
Proof.
  intros H i. rewrite jt_find_set. destruct (N.eqb i t) eqn:E; [|tauto].
  apply N.eqb_eq in E. subst i. rewrite H. split; discriminate.
Qed.

(** * The relation *)
Record JE (s s' : st) (ext : list out) : Prop := mkJE {
  je_ns : NS ext;
  je_old : forall k j', find_job (jobs s') k = Some j' ->
             exists j, find_job (jobs s) k = Some j /\ j_maxfails j' = j_maxfails j /\
                       same_ids (j_tasks j) (j_tasks j') /\ j_nfail j' = j_nfail j + onfailed k ext;
  je_cnt : cnt_of s' = cnt_of s;
  je_fail : forall k, onfailed k ext <> 0 -> find_job (jobs s) k <> None
}.

Definition JX (s s' : st) : Prop := exists ext, snd s' = snd s ++ ext /\ JE s s' ext.
(** ... and no abort event *)
Definition JQ (s s' : st) : Prop := exists ext, snd s' = snd s ++ ext /\ JE s s' ext /\ NA ext.

Lemma JE_refl s : JE s s [].
Proof.
  constructor; [reflexivity | | reflexivity | intros k H; exfalso; apply H; reflexivity].
  intros k j' H. exists j'. split; [exact H|]. split; [reflexivity|]. split; [apply same_ids_refl|]. cbn [onfailed]. lia.
Qed.

Lemma JE_trans s1 s2 s3 e1 e2 : JE s1 s2 e1 -> JE s2 s3 e2 -> JE s1 s3 (e1 ++ e2).
Proof.
  intros [N1 O1 C1 F1] [N2 O2 C2 F2]. constructor.
  - apply NS_app; assumption.
  - intros k j3 H3. destruct (O2 _ _ H3) as (j2 & H2 & M2 & K2 & X2). destruct (O1 _ _ H2) as (j1 & H1 & M1 & K1 & X1).
    exists j1. split; [exact H1|]. split; [congruence|]. split; [eapply same_ids_trans; eassumption|]. rewrite onfailed_app. lia.
  - congruence.
  - intros k H. rewrite onfailed_app in H.
    destruct (N.eq_dec (onfailed k e1) 0) as [Z|NZ]; [|apply F1; exact NZ].
    assert (NZ2 : onfailed k e2 <> 0) by lia. specialize (F2 _ NZ2).
    destruct (find_job (jobs s2) k) as [j2|] eqn:E2; [|congruence].
    destruct (O1 _ _ E2) as (j1 & H1 & _). congruence.
Qed.

Lemma JX_refl s : JX s s.
Proof. exists []. rewrite app_nil_r. split; [reflexivity | apply JE_refl]. Qed.
Lemma JX_trans s1 s2 s3 : JX s1 s2 -> JX s2 s3 -> JX s1 s3.
Proof.
  intros (e1 & E1 & J1) (e2 & E2 & J2). exists (e1 ++ e2). split; [rewrite E2, E1, app_assoc; reflexivity|].
  eapply JE_trans; eassumption.
Qed.
Lemma JQ_JX s s' : JQ s s' -> JX s s'.
Proof. intros (e & E & J & _). exists e. split; assumption. Qed.
Lemma JQ_refl s : JQ s s.
Proof. exists []. rewrite app_nil_r. split; [reflexivity|]. split; [apply JE_refl | reflexivity]. Qed.
Lemma JQ_trans s1 s2 s3 : JQ s1 s2 -> JQ s2 s3 -> JQ s1 s3.
Proof.
  intros (e1 & E1 & J1 & A1) (e2 & E2 & J2 & A2). exists (e1 ++ e2). split; [rewrite E2, E1, app_assoc; reflexivity|].
  split; [eapply JE_trans; eassumption | apply NA_app; assumption].
Qed.

(** The job layer is untouched. *)
Lemma JE_same s s' : hq_of s' = hq_of s -> JE s s' [].
Proof.
  intros E. constructor; [reflexivity | | unfold cnt_of; rewrite E; reflexivity | intros k H; exfalso; apply H; reflexivity].
  intros k j' H. unfold jobs in *. rewrite E in H. exists j'. split; [exact H|]. split; [reflexivity|]. split; [apply same_ids_refl|]. cbn [onfailed]. lia.
Qed.
Lemma JQ_same s s' : hq_of s' = hq_of s -> snd s' = snd s -> JQ s s'.
Proof. intros E Es. exists []. rewrite app_nil_r. split; [exact Es|]. split; [apply JE_same; exact E | reflexivity]. Qed.

(** One job is replaced; [ext] is what was emitted. *)
Lemma JE_set s j j' ext s' :
  find_job (jobs s) (j_id j') = Some j -> j_maxfails j' = j_maxfails j -> same_ids (j_tasks j) (j_tasks j') ->
  NS ext -> j_nfail j' = j_nfail j + onfailed (j_id j') ext -> (forall k, k <> j_id j' -> onfailed k ext = 0) ->
  hq_of s' = hq_of (hq_set_job s j') -> JE s s' ext.
Proof.
  intros Hf Hm Hk Hn Hx Ho E. constructor.
  - exact Hn.
  - intros k jx H. unfold jobs in H. rewrite E in H. unfold hq_of, hq_set_job in H. cbn [fst s_hq with_hq h_jobs] in H.
    rewrite find_job_set in H. destruct (N.eqb k (j_id j')) eqn:Ek.
    + apply N.eqb_eq in Ek. subst k. inversion H; subst jx. exists j. split; [exact Hf|]. split; [exact Hm|]. split; [exact Hk | exact Hx].
    + apply N.eqb_neq in Ek. exists jx. split; [exact H|]. split; [reflexivity|]. split; [apply same_ids_refl|]. rewrite (Ho _ Ek). lia.
  - unfold cnt_of. rewrite E. reflexivity.
  - intros k H. destruct (N.eq_dec k (j_id j')) as [->|Hne]; [congruence|]. exfalso. apply H. apply Ho. exact Hne.
Qed.

Lemma get_find s id site j : hq_get_job s id site = Ok j -> find_job (jobs s) id = Some j /\ j_id j = id.
Proof.
  unfold hq_get_job, jobs, hq_of. destruct (find_job _ id) as [x|] eqn:E; [|discriminate].
  intros H; inversion H; subst. split; [reflexivity | eapply find_job_id; exact E].
Qed.

Lemma find_set_self s j : find_job (jobs (hq_set_job s j)) (j_id j) = Some j.
Proof. unfold jobs, hq_of, hq_set_job. cbn [fst s_hq with_hq h_jobs]. rewrite find_job_set, N.eqb_refl. reflexivity. Qed.


(** * Job-layer primitives *)
Lemma jobs_emit s o : jobs (emit s o) = jobs s.
Proof. reflexivity. Qed.

Lemma check_termination_JE s jid s' :
  check_termination s jid = Ok s' ->
  exists q, snd s' = snd s ++ q /\ JE s s' q /\ NA q /\
    (q = [] \/ (q = [OEv (EvCompleted jid)] /\ exists j, find_job (jobs s') jid = Some j /\ j_completed j = true)).
Proof.
  unfold check_termination. intros H. apply bind_ok in H. destruct H as (j & Hj & H). apply bind_ok in H. destruct H as (na & _ & H).
  destruct (get_find _ _ _ _ Hj) as [Hf Hid].
  assert (Hnone : s' = s -> exists q, snd s' = snd s ++ q /\ JE s s' q /\ NA q /\
            (q = [] \/ (q = [OEv (EvCompleted jid)] /\ exists j, find_job (jobs s') jid = Some j /\ j_completed j = true))).
  { intros ->. exists []. rewrite app_nil_r. split; [reflexivity|]. split; [apply JE_refl|]. split; [reflexivity | left; reflexivity]. }
  destruct na; [|inversion H; subst; apply Hnone; reflexivity].
  destruct (j_open j); [inversion H; subst; apply Hnone; reflexivity|].
  inversion H; subst s'. clear H Hnone.
  set (j' := job_upd j (j_tasks j) (j_nrun j) (j_nfin j) (j_nfail j) (j_ncanc j) (j_nabort j) true).
  exists [OEv (EvCompleted jid)]. split; [reflexivity|]. split.
  - apply (JE_set s j j'); [cbn [j' j_id job_upd]; rewrite Hid; exact Hf | reflexivity | apply same_ids_refl | reflexivity
                           | cbn [j' j_nfail job_upd onfailed ofailed1]; lia | intros; reflexivity | reflexivity].
  - split; [reflexivity|]. right. split; [reflexivity|]. exists j'. split; [|reflexivity].
    rewrite jobs_emit. pose proof (find_set_self s j') as Hs. cbn [j' j_id job_upd] in Hs. rewrite Hid in Hs. exact Hs.
Qed.

Lemma check_termination_JQ s jid s' : check_termination s jid = Ok s' -> JQ s s'.
Proof. intros H. destruct (check_termination_JE _ _ _ H) as (q & E & J & A & _). exists q. split; [exact E|]. split; assumption. Qed.

Lemma process_task_started_JQ s t i ws rv s' : process_task_started s t i ws rv = Ok s' -> JQ s s'.
Proof.
  unfold process_task_started. intros H. apply bind_ok in H. destruct H as (j & Hj & H).
  destruct (get_find _ _ _ _ Hj) as [Hf Hid].
  destruct (jt_find (j_tasks j) (snd t)) as [v|] eqn:Ef; [|discriminate]. inversion H; subst s'. clear H.
  exists [OEv (EvStarted t i ws rv)]. split; [reflexivity|]. split; [|reflexivity].
  match goal with |- JE s (emit (hq_set_job s ?jx) _) _ => set (j' := jx) end.
  assert (Hid' : j_id j' = j_id j) by (subst j'; destruct v; reflexivity).
  apply (JE_set s j j'); [rewrite Hid', Hid; exact Hf | subst j'; destruct v; reflexivity | | reflexivity
                         | subst j'; destruct v; cbn [j_nfail job_upd onfailed ofailed1]; lia | intros; reflexivity | reflexivity].
  subst j'. destruct v; try apply same_ids_refl. cbn [j_tasks job_upd]. eapply jt_set_same_ids; exact Ef.
Qed.

Lemma JQ_set_then s j j' o s1 s' :
  find_job (jobs s) (j_id j') = Some j -> j_maxfails j' = j_maxfails j -> same_ids (j_tasks j) (j_tasks j') -> j_nfail j' = j_nfail j ->
  nsb o = true -> nab o = true -> nfb o = true ->
  s1 = emit (hq_set_job s j') o -> JQ s1 s' -> JQ s s'.
Proof.
  intros Hf Hm Hk Hn O1 O2 O3 -> Q. eapply JQ_trans; [|exact Q].
  exists [o]. split; [reflexivity|]. split; [|cbn [NA forallb]; unfold NA; cbn [forallb]; rewrite O2; reflexivity].
  apply (JE_set s j j'); [exact Hf | exact Hm | exact Hk | unfold NS; cbn [forallb]; rewrite O1; reflexivity | | | reflexivity].
  - rewrite (onfailed_nf _ [o]); [lia | cbn [forallb]; rewrite O3; reflexivity].
  - intros k _. apply onfailed_nf. cbn [forallb]. rewrite O3. reflexivity.
Qed.

Lemma process_task_finished_JQ s t s' : process_task_finished s t = Ok s' -> JQ s s'.
Proof.
  unfold process_task_finished. intros H. apply bind_ok in H. destruct H as (j & Hj & H).
  destruct (get_find _ _ _ _ Hj) as [Hf Hid].
  destruct (jt_find (j_tasks j) (snd t)) as [v|] eqn:Ef; [|discriminate]. destruct v; try discriminate.
  apply bind_ok in H. destruct H as (nr & _ & H).
  eapply (JQ_set_then s j); [| | | | | | | reflexivity | eapply check_termination_JQ; exact H];
    [cbn [j_id job_upd]; rewrite Hid; exact Hf | reflexivity | cbn [j_tasks job_upd]; eapply jt_set_same_ids; exact Ef | reflexivity | reflexivity | reflexivity | reflexivity].
Qed.

Lemma set_waiting_state_JQ s t s' : set_waiting_state s t = Ok s' -> JQ s s'.
Proof.
  unfold set_waiting_state. intros H. apply bind_ok in H. destruct H as (j & Hj & H).
  destruct (get_find _ _ _ _ Hj) as [Hf Hid].
  destruct (jt_find (j_tasks j) (snd t)) as [v|] eqn:Ef; [|discriminate].
  destruct v; try (inversion H; subst; apply JQ_refl).
  apply bind_ok in H. destruct H as (nr & _ & H). inversion H; subst s'. clear H.
  exists []. rewrite app_nil_r. split; [reflexivity|]. split; [|reflexivity].
  match goal with |- JE s (hq_set_job s ?jx) _ => set (j' := jx) end.
  apply (JE_set s j j'); [cbn [j' j_id job_upd]; rewrite Hid; exact Hf | reflexivity | cbn [j' j_tasks job_upd]; eapply jt_set_same_ids; exact Ef
                         | reflexivity | cbn [j' j_nfail job_upd onfailed]; lia | intros; reflexivity | reflexivity].
Qed.

Lemma set_waiting_all_JQ ts : forall s s', set_waiting_all s ts = Ok s' -> JQ s s'.
Proof.
  induction ts as [|t r IH]; cbn [set_waiting_all]; intros s s' H; [inversion H; subst; apply JQ_refl|].
  apply bind_ok in H. destruct H as (s1 & H1 & H). eapply JQ_trans; [eapply set_waiting_state_JQ; exact H1 | eapply IH; exact H].
Qed.

Lemma JQ_emit s o : nsb o = true -> nab o = true -> nfb o = true -> JQ s (emit s o).
Proof.
  intros O1 O2 O3. exists [o]. split; [reflexivity|]. split; [|unfold NA; cbn [forallb]; rewrite O2; reflexivity].
  constructor.
  - unfold NS; cbn [forallb]; rewrite O1; reflexivity.
  - intros k j' H. exists j'. split; [exact H|]. split; [reflexivity|]. split; [apply same_ids_refl|].
    rewrite (onfailed_nf k [o]); [lia | cbn [forallb]; rewrite O3; reflexivity].
  - reflexivity.
  - intros k H. exfalso. apply H. apply onfailed_nf. cbn [forallb]. rewrite O3. reflexivity.
Qed.

Lemma process_worker_lost_JQ s w running reason s' : process_worker_lost s w running reason = Ok s' -> JQ s s'.
Proof.
  unfold process_worker_lost. intros H. apply bind_ok in H. destruct H as (s1 & H1 & H). inversion H; subst s'.
  eapply JQ_trans; [eapply set_waiting_all_JQ; exact H1 | apply JQ_emit; reflexivity].
Qed.

(** [mark_tasks] touches neither the limit, the ids nor the failure counter. *)
Lemma mark_tasks_frame target site ids : forall j j', mark_tasks j ids target site = Ok j' ->
  j_id j' = j_id j /\ j_maxfails j' = j_maxfails j /\ same_ids (j_tasks j) (j_tasks j') /\ j_nfail j' = j_nfail j.
Proof.
  induction ids as [|x r IH]; cbn [mark_tasks]; intros j j' H.
  - inversion H; subst. split; [reflexivity|]. split; [reflexivity|]. split; [apply same_ids_refl | reflexivity].
  - destruct (negb (N.eqb (fst x) (j_id j))); [discriminate|].
    destruct (jt_find (j_tasks j) (snd x)) as [v|] eqn:Ef; [|discriminate].
    destruct v; try discriminate.
    + destruct (IH _ _ H) as (A & B & C & D). cbn [job_set_task j_id j_maxfails j_tasks j_nfail job_upd] in *.
      split; [exact A|]. split; [exact B|]. split; [|exact D].
      eapply same_ids_trans; [eapply jt_set_same_ids; exact Ef | exact C].
    + apply bind_ok in H. destruct H as (nr & _ & H). destruct (IH _ _ H) as (A & B & C & D).
      cbn [j_id j_maxfails j_tasks j_nfail job_upd] in *.
      split; [exact A|]. split; [exact B|]. split; [|exact D].
      eapply same_ids_trans; [eapply jt_set_same_ids; exact Ef | exact C].
Qed.

(** [abort_tasks]: nothing, or the abort event followed by at most the completion of the job. *)
Lemma abort_tasks_JE s jid ids s' :
  abort_tasks s jid ids = Ok s' ->
  exists ext, snd s' = snd s ++ ext /\ JE s s' ext /\
    ((ids = [] /\ ext = []) \/
     (ids <> [] /\ exists q, ext = OEv (EvAborted ids) :: q /\ NA q /\
        (q = [] \/ (q = [OEv (EvCompleted jid)] /\ exists j, find_job (jobs s') jid = Some j /\ j_completed j = true)))).
Proof.
  unfold abort_tasks. destruct ids as [|i0 ir] eqn:Eids.
  - intros H. inversion H; subst. exists []. rewrite app_nil_r. split; [reflexivity|]. split; [apply JE_refl | left; split; reflexivity].
  - rewrite <- Eids. intros H. apply bind_ok in H. destruct H as (j & Hj & H). apply bind_ok in H. destruct H as (j1 & Hm & H).
    destruct (get_find _ _ _ _ Hj) as [Hf Hid].
    destruct (mark_tasks_frame _ _ _ _ _ Hm) as (M1 & M2 & M3 & M4).
    destruct (check_termination_JE _ _ _ H) as (q & Eq & Jq & Aq & Sq). cbn [snd emit hq_set_job] in Eq.
    match type of H with check_termination (emit (hq_set_job s ?jx) _) _ = _ => set (j2 := jx) in * end.
    exists (OEv (EvAborted ids) :: q). split; [rewrite Eq, <- app_assoc; reflexivity|]. split.
    + change (OEv (EvAborted ids) :: q) with ([OEv (EvAborted ids)] ++ q). eapply JE_trans; [|exact Jq].
      apply (JE_set s j j2); [cbn [j2 j_id job_upd]; rewrite M1, Hid; exact Hf | exact M2 | exact M3 | reflexivity
                             | cbn [j2 j_nfail job_upd onfailed ofailed1]; rewrite M4; lia | intros; reflexivity | reflexivity].
    + right. split; [rewrite Eids; discriminate|]. exists q. split; [reflexivity|]. split; [exact Aq | exact Sq].
Qed.

Lemma set_cancel_state_JQ s jid ids s' : set_cancel_state s jid ids = Ok s' -> JQ s s'.
Proof.
  unfold set_cancel_state. destruct ids as [|i0 ir] eqn:Eids; [intros H; inversion H; subst; apply JQ_refl|].
  rewrite <- Eids. intros H. apply bind_ok in H. destruct H as (j & Hj & H). apply bind_ok in H. destruct H as (j1 & Hm & H).
  destruct (get_find _ _ _ _ Hj) as [Hf Hid].
  destruct (mark_tasks_frame _ _ _ _ _ Hm) as (M1 & M2 & M3 & M4).
  match type of H with check_termination (emit (emit (hq_set_job s ?jx) ?o1) ?o2) _ = _ =>
    eapply (JQ_set_then s j jx o1); [| | | | | | | reflexivity |
      eapply JQ_trans; [apply (JQ_emit _ o2); reflexivity | eapply check_termination_JQ; exact H]] end;
    [cbn [j_id job_upd]; rewrite M1, Hid; exact Hf | exact M2 | exact M3 | exact M4 | reflexivity | reflexivity | reflexivity].
Qed.

(** * [process_task_failed]: the two abort events and their causes *)
Lemma cnt_find_pos l k v : jt_find l k = Some v -> 0 < cnt l v.
Proof.
  induction l as [|[k0 x] r IH]; cbn [jt_find cnt]; [discriminate|].
  destruct (N.eqb k k0); intros H.
  - inversion H; subst. destruct v; cbn [jst_eqb]; lia.
  - specialize (IH H). lia.
Qed.

Lemma non_finished_job j x : In x (non_finished_task_ids j) -> fst x = j_id j.
Proof. unfold non_finished_task_ids. intros H. apply in_map_iff in H. destruct H as (kv & <- & _). reflexivity. Qed.

(** The cause of an abort event inside [ext], relative to the job layer [s] the piece started
    from: it is the abort of [aborted] immediately followed by the failure of [t], or the job's
    limit is exceeded by the failures counted so far. *)
Definition pf_cause (s : st) (t : tid) (k : failkind) (aborted : list tid) (ext : list out) : Prop :=
  forall pre ts post x, ext = pre ++ OEv (EvAborted ts) :: post -> In x ts ->
    (ts = aborted /\ exists post', post = OEv (EvFailed t k) :: post')
    \/ (exists j m, find_job (jobs s) (fst x) = Some j /\ j_maxfails j = Some m /\ m < j_nfail j + onfailed (fst x) pre).

Lemma process_task_failed_AC s t aborted k s' ids :
  HOK (hq_of s) -> process_task_failed s t aborted k = Ok (s', ids) ->
  exists ext, snd s' = snd s ++ ext /\ JE s s' ext /\ pf_cause s t k aborted ext.
Proof.
  intros Hok H. unfold process_task_failed in H.
  apply bind_ok in H. destruct H as (s1 & H1 & H).
  destruct (abort_tasks_JE _ _ _ _ H1) as (e1 & E1 & J1 & S1).
  pose proof (abort_tasks_ok _ _ _ _ Hok H1) as Hok1.
  apply bind_ok in H. destruct H as (j & Hj & H). destruct (get_find _ _ _ _ Hj) as [Hf1 Hid].
  apply bind_ok in H. destruct H as (j1 & Hj1 & H).
  (* the failing task is still active in its job after the dependents' abort *)
  assert (Hact : (jt_find (j_tasks j) (snd t) = Some JW \/ jt_find (j_tasks j) (snd t) = Some JR) /\
                 j_id j1 = j_id j /\ j_maxfails j1 = j_maxfails j /\ same_ids (j_tasks j) (j_tasks j1) /\ j_nfail j1 = j_nfail j + 1).
  { destruct (jt_find (j_tasks j) (snd t)) as [v|] eqn:Ef; [|discriminate]. destruct v; try discriminate.
    - inversion Hj1; subst j1. split; [left; reflexivity|]. cbn [j_id j_maxfails j_tasks j_nfail job_upd].
      split; [reflexivity|]. split; [reflexivity|]. split; [eapply jt_set_same_ids; exact Ef | reflexivity].
    - apply bind_ok in Hj1. destruct Hj1 as (nr & _ & Hj1). inversion Hj1; subst j1. split; [right; reflexivity|].
      cbn [j_id j_maxfails j_tasks j_nfail job_upd].
      split; [reflexivity|]. split; [reflexivity|]. split; [eapply jt_set_same_ids; exact Ef | reflexivity]. }
  destruct Hact as (Hact & I1 & I2 & I3 & I4).
  assert (K1 : e1 = [] \/ e1 = [OEv (EvAborted aborted)]).
  { destruct S1 as [[_ ->]|(_ & q1 & -> & _ & [->|(-> & jc & Hjc & Hcomp)])]; [left; reflexivity | right; reflexivity|].
    exfalso. rewrite Hf1 in Hjc. inversion Hjc; subst jc.
    pose proof (Hok1 _ (find_job_in _ _ _ Hf1)) as Hjok. destruct (jok_completed _ Hjok Hcomp) as (_ & Zw & Zr).
    destruct Hact as [Ha|Ha]; apply cnt_find_pos in Ha; lia. }
  apply bind_ok in H. destruct H as (s2 & H2 & H).
  destruct (check_termination_JE _ _ _ H2) as (q & Eq & Jq & Aq & _). cbn [snd emit hq_set_job] in Eq.
  set (M := OEv (EvFailed t k) :: q).
  assert (JM : JE s1 s2 M).
  { change M with ([OEv (EvFailed t k)] ++ q). eapply JE_trans; [|exact Jq].
    apply (JE_set s1 j j1); [rewrite I1, Hid; exact Hf1 | exact I2 | exact I3 | reflexivity | | | reflexivity].
    - cbn [onfailed ofailed1]. rewrite I1, Hid, N.eqb_refl, I4. lia.
    - intros k0 Hk0. cbn [onfailed ofailed1]. rewrite I1, Hid in Hk0.
      destruct (N.eqb (fst t) k0) eqn:E; [apply N.eqb_eq in E; congruence | reflexivity]. }
  assert (J2 : JE s s2 (e1 ++ M)) by (eapply JE_trans; eassumption).
  assert (E2 : snd s2 = snd s ++ e1 ++ M) by (rewrite Eq, E1, <- !app_assoc; reflexivity).
  assert (AM : forall ts, ~ In (OEv (EvAborted ts)) M).
  { intros ts [Hin|Hin]; [discriminate | exact (NA_in _ _ Aq Hin)]. }
  apply bind_ok in H. destruct H as (j2 & Hj2 & H). destruct (get_find _ _ _ _ Hj2) as [Hf2 Hid2].
  (* the common part: a decomposition that falls into [e1 ++ M] *)
  assert (Hhead : forall e3 pre ts post x, (e1 ++ M) ++ e3 = pre ++ OEv (EvAborted ts) :: post -> In x ts ->
            (ts = aborted /\ exists post', post = OEv (EvFailed t k) :: post') \/
            (exists m2, pre = (e1 ++ M) ++ m2 /\ e3 = m2 ++ OEv (EvAborted ts) :: post)).
  { intros e3 pre ts post x E Hx. rewrite <- app_assoc in E.
    destruct (app_decomp _ _ _ _ _ E) as [(m & Em & Ep)|(m & Em & Ep)].
    - left. destruct K1 as [-> | ->]; [destruct pre; discriminate|].
      destruct pre as [|p pre']; [|destruct pre'; discriminate]. cbn [app] in Em. inversion Em; subst. split; [reflexivity|].
      cbn [app]. eexists. reflexivity.
    - destruct (app_decomp _ _ _ _ _ Ep) as [(m' & Em' & _)|(m2 & Em2 & Ep2)].
      + exfalso. apply (AM ts). rewrite Em'. apply in_elt.
      + right. exists m2. split; [rewrite Em, Em2, app_assoc; reflexivity | exact Ep2]. }
  assert (Hnone : s' = s2 -> exists ext, snd s' = snd s ++ ext /\ JE s s' ext /\ pf_cause s t k aborted ext).
  { intros ->. exists (e1 ++ M). split; [exact E2|]. split; [exact J2|].
    intros pre ts post x E Hx. rewrite <- (app_nil_r (e1 ++ M)) in E.
    destruct (Hhead [] pre ts post x E Hx) as [A|(m2 & _ & Em2)]; [left; exact A | destruct m2; discriminate]. }
  destruct (j_maxfails j2) as [mf|] eqn:Emf; [|inversion H; subst; apply Hnone; reflexivity].
  destruct (N.ltb mf (j_nfail j2)) eqn:Elt; [|inversion H; subst; apply Hnone; reflexivity].
  clear Hnone. apply N.ltb_lt in Elt.
  apply bind_ok in H. destruct H as (s3 & H3 & H). inversion H; subst s' ids. clear H.
  destruct (abort_tasks_JE _ _ _ _ H3) as (e3 & E3 & J3 & S3).
  exists ((e1 ++ M) ++ e3). split; [rewrite E3, E2, <- !app_assoc; reflexivity|]. split; [eapply JE_trans; eassumption|].
  intros pre ts post x E Hx.
  destruct (Hhead e3 pre ts post x E Hx) as [A|(m2 & Epre & Em2)]; [left; exact A|]. right.
  destruct S3 as [[_ ->]|(_ & q3 & -> & Aq3 & _)]; [destruct m2; discriminate|].
  destruct m2 as [|y m2'].
  - cbn [app] in Em2. inversion Em2; subst ts post. rewrite app_nil_r in Epre. subst pre.
    rewrite (non_finished_job _ _ Hx), Hid2.
    destruct (je_old _ _ _ J2 _ _ Hf2) as (j0 & Hf0 & Hm0 & _ & Hn0).
    exists j0, mf. split; [exact Hf0|]. split; [congruence | lia].
  - exfalso. cbn [app] in Em2. inversion Em2. apply (NA_in _ ts Aq3). match goal with X : q3 = _ |- _ => rewrite X end. apply in_elt.
Qed.

Print Assumptions process_task_failed_AC.
