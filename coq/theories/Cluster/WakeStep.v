(** C02 wake-up discipline, the per-operation analysis (part 1).

    [wake_inv] (Wake.v): flag on, or nothing placeable, or a task in flight.
    For every operation of [Sys.step] except the four listed in [wake_proved] the invariant is
    preserved, for a reason that is one of three:
      - the operation leaves the flag SET: [OpConnect] ([on_new_worker]), [OpLost]
        ([on_remove_worker] ends with [ask_for_scheduling]);
      - the operation does not touch the server core: [OpOpen], [OpClose], [OpForget], [OpPrune]
        (job layer only), [OpDDown], [OpEnd], [OpFailNext], [OpTimer] (worker process only);
      - it is a scheduling round, whose answer meets the completeness contract [sched_complete].
    The remaining operations - [OpCancel], [OpDUp] (the two in which WakeWitness.v finds the lost
    wake-ups) and the two submits - are CHECKED: the theorem [wake_run] takes, for these steps only,
    the executable hypothesis that [wake_inv] holds after the step ([ops_wake_checked], a monitor). *)
From HQ Require Import Base.Prelude Cluster.Types Cluster.Core Cluster.Reactor Cluster.Worker Cluster.Server Cluster.Sys Cluster.RetractFree Cluster.Wake.
From Coq Require Import ZArith.
Local Open Scope N_scope.

(** * Operations that do not touch the core *)
Lemma check_termination_core s jid s' : check_termination s jid = Ok s' -> core_of s' = core_of s.
Proof.
  unfold check_termination. intros H. apply bind_ok in H. destruct H as (j & _ & H). apply bind_ok in H. destruct H as (na & _ & H).
  destruct na; [destruct (j_open j)|]; inversion H; reflexivity.
Qed.

Lemma step_core_same s o s' outs : step s o = Ok (s', outs) ->
  match o with
  | OpOpen _ | OpClose _ | OpForget _ | OpPrune | OpDDown _ _ | OpEnd _ _ _ | OpFailNext _ _ | OpTimer => s_core s' = s_core s
  | _ => True
  end.
Proof.
  destruct o; cbn [step]; intros H; try exact I.
  - (* open *) unfold handle_open in H. inversion H; reflexivity.
  - (* close *) unfold handle_close in H.
    destruct (find_job (hq_jobs (s, [])) j) as [jb|]; [|inversion H; reflexivity].
    destruct (j_open jb); [|inversion H; reflexivity].
    apply bind_ok in H. destruct H as (s1 & H1 & H). inversion H; subst.
    exact (check_termination_core _ _ _ H1).
  - (* forget *) unfold handle_forget in H.
    destruct (find_job (hq_jobs (s, [])) j) as [jb|]; [|inversion H; reflexivity].
    apply bind_ok in H. destruct H as (na & _ & H). destruct (negb (j_open jb) && na); inversion H; reflexivity.
  - (* ddown *) destruct (find_proc (s_procs s) w) as [p|]; [|discriminate]. destruct (p_down p) as [|m rest]; [discriminate|].
    apply bind_ok in H. destruct H as ([p' ls] & _ & H). inversion H; reflexivity.
  - (* end *) destruct (find_proc (s_procs s) w) as [p|]; [|discriminate].
    apply bind_ok in H. destruct H as ([p' ls] & _ & H). inversion H; reflexivity.
  - (* failnext *) destruct (find_proc (s_procs s) w) as [p|]; [|discriminate]. inversion H; reflexivity.
  - (* timer *) inversion H; reflexivity.
  - (* prune *) apply bind_ok in H. destruct H as (lj & _ & H). inversion H; reflexivity.
Qed.

(** * Operations that leave the flag set *)
Lemma on_new_worker_flag s rs g s' : on_new_worker s rs g = Ok s' -> c_flag (core_of s') = true.
Proof. unfold on_new_worker. intros H. inversion H. reflexivity. Qed.

Lemma on_remove_worker_flag s w reason a p t s' : on_remove_worker s w reason a p t = Ok s' -> c_flag (core_of s') = true.
Proof.
  unfold on_remove_worker. intros H.
  destruct (find_worker (c_workers (core_of s)) w) as [wk|]; [|discriminate].
  apply bind_ok in H. destruct H as ([[c2 running] retracted] & _ & H).
  match type of H with (if ?b then _ else _) = _ => destruct b end; [discriminate|].
  apply bind_ok in H. destruct H as (s3 & _ & H). apply bind_ok in H. destruct H as (s4 & _ & H).
  apply bind_ok in H. destruct H as (s6 & _ & H). apply bind_ok in H. destruct H as (s7 & _ & H).
  inversion H. reflexivity.
Qed.

Lemma step_flag_set s o s' outs : step s o = Ok (s', outs) ->
  match o with OpConnect _ _ | OpLost _ _ _ _ _ => c_flag (s_core s') = true | _ => True end.
Proof.
  destruct o; cbn [step]; intros H; try exact I.
  - exact (on_new_worker_flag _ _ _ _ H).
  - destruct (find_proc (s_procs s) w); [|discriminate]. exact (on_remove_worker_flag _ _ _ _ _ _ _ H).
Qed.

(** * The step theorem *)
Definition wake_proved (o : op) : bool :=
  match o with
  | OpCancel _ | OpDUp _ | OpSubmit _ _ _ _ _ _ _ _ | OpSubmitG _ _ _ _ => false
  | _ => true
  end.

Definition op_wake_checked (s : sys) (o : op) : bool :=
  wake_proved o || match step s o with Ok (s', _) => wake_inv s' | _ => true end.

Fixpoint ops_wake_checked (s : sys) (ops : list op) : bool :=
  match ops with
  | [] => true
  | o :: r => op_wake_checked s o && match step s o with Ok (s1, _) => ops_wake_checked s1 r | _ => true end
  end.

Theorem wake_step s o s' outs :
  wake_inv s = true -> step s o = Ok (s', outs) -> op_complete s o = true -> op_wake_checked s o = true -> wake_inv s' = true.
Proof.
  intros HW H Hc Hk.
  pose proof (step_core_same _ _ _ _ H) as Hsame. pose proof (step_flag_set _ _ _ _ H) as Hflag.
  unfold op_wake_checked in Hk. rewrite H in Hk.
  destruct o; cbn [wake_proved orb] in Hk; try exact Hk;
    try (apply wake_inv_flag; exact Hflag); try (eapply wake_inv_same_core; [exact Hsame | exact HW]).
  (* sched *) cbn [op_complete] in Hc. eapply sched_complete_post; eassumption.
Qed.

Theorem wake_run : forall ops s s' outs,
  wake_inv s = true -> run s ops = Ok (s', outs) -> ops_complete s ops = true -> ops_wake_checked s ops = true -> wake_inv s' = true.
Proof.
  induction ops as [|o r IH]; cbn [run ops_complete ops_wake_checked]; intros s s' outs HW H Hc Hk.
  - inversion H; subst. exact HW.
  - apply bind_ok in H. destruct H as ([s1 o1] & H1 & H). apply bind_ok in H. destruct H as ([s2 o2] & H2 & H). inversion H; subst.
    rewrite H1 in Hc, Hk. apply andb_true_iff in Hc. destruct Hc as [Hc1 Hc2]. apply andb_true_iff in Hk. destruct Hk as [Hk1 Hk2].
    eapply IH; [|exact H2 | exact Hc2 | exact Hk2]. eapply wake_step; eassumption.
Qed.

Lemma wake_inv_init r m : wake_inv (init_sys r m) = true.
Proof. reflexivity. Qed.

Theorem wake_reachable r m ops s outs :
  run (init_sys r m) ops = Ok (s, outs) -> ops_complete (init_sys r m) ops = true -> ops_wake_checked (init_sys r m) ops = true ->
  wake_inv s = true.
Proof. intros H Hc Hk. eapply wake_run; [apply wake_inv_init | exact H | exact Hc | exact Hk]. Qed.
