(** C01 / C08, "silent after terminal" WITHOUT the hypothesis [op_wf]: the one direction of the
    C02 bijection that the argument needs - a task the core knows is shown as waiting or running
    by the job layer ("no phantom task") - holds for EVERY history, also for submits that send
    fewer entries than ids (finding F26: those create orphan job tasks, the other direction of
    the bijection fails, this one does not).

    [PA s] is [BijReact.CB s] with the equivalence weakened to the implication
    present-in-the-core -> active-in-the-job-layer.  The proofs are those of BijReact.v /
    BijFinal.v, which use the other direction nowhere except in the submit handler.
    This file: reactor, worker loss, cancel. *)
From HQ Require Import Base.Prelude Cluster.Types Cluster.Core Cluster.Reactor Cluster.Worker Cluster.Server Cluster.Sys Cluster.ProofsJob Cluster.ProofsMore Cluster.ProofsTerminal Cluster.ProofsStep Cluster.BijBase Cluster.BijCore Cluster.BijHq Cluster.BijSt Cluster.BijReact.
From Coq Require Import ZArith Lia Sorting.Sorted.
Local Open Scope N_scope.

Arguments N.add : simpl never.
Arguments N.sub : simpl never.

Record PA (s : st) : Prop := mkPA { pa_s : CS (core_of s); pa_d : KD (K s); pa_b : forall t, present (K s) t -> active s t }.

Lemma CB_PA s : CB s -> PA s.
Proof. intros [A B C]. constructor; [exact A | exact B | intros t Ht; apply C; exact Ht]. Qed.

Lemma PA_frame s s' : K s' = K s -> (forall x, active s' x <-> active s x) -> PA s -> PA s'.
Proof.
  intros E A [S D B]. constructor.
  - eapply CS_keys; [exact E | exact S].
  - rewrite E. exact D.
  - intros t. rewrite E, A. apply B.
Qed.

Lemma PA_same s s' : K s' = K s -> hq_of s' = hq_of s -> PA s -> PA s'.
Proof. intros E H. apply PA_frame; [exact E|]. apply active_same. apply jt_same. exact H. Qed.

Lemma PA_remove s s' X Y :
  shrinks (K s) (K s') X -> (forall x, active s' x <-> active s x /\ ~ In x Y) ->
  (forall x, present (K s) x -> (In x X <-> In x Y)) -> PA s -> PA s'.
Proof.
  intros Sh A XY [S D B]. constructor.
  - exact (shr_sorted _ _ _ Sh).
  - eapply shrinks_KD; [exact Sh | exact D].
  - intros t Ht. apply (shr_dom _ _ _ Sh) in Ht. destruct Ht as [P N]. apply A. split; [apply B; exact P|].
    intros Hy. apply N. apply (XY t P). exact Hy.
Qed.

(** * task_finished *)
Lemma task_finished_PA s w id s' b : PA s -> task_finished s w id = Ok (s', b) -> PA s'.
Proof.
  intros HC H. unfold task_finished in H.
  destruct (find_task (c_tasks (core_of s)) id) as [t|] eqn:Ef; [|inversion H; subst; exact HC].
  apply bind_ok in H. destruct H as (rq & _ & H). apply bind_ok in H. destruct H as (c1 & H1 & H).
  assert (Et : c_tasks c1 = c_tasks (core_of s)).
  { destruct (t_state t); try discriminate.
    - destruct (negb (N.eqb w0 w)); [discriminate|]. inv_binds H1. inversion H1; reflexivity.
    - destruct (negb (N.eqb w0 w)); [discriminate|]. eapply try_remove_redirection_tasks; exact H1.
    - destruct (negb (N.eqb w0 w)); [discriminate|]. inv_binds H1. inversion H1; reflexivity.
    - destruct ws; [discriminate|]. destruct (N.eqb w0 w); [|discriminate]. eapply reset_mn_workers_tasks; exact H1. }
  assert (Ek : keys c1 = K s) by (unfold K, keys; rewrite Et; reflexivity).
  assert (Hs1 : CS c1) by (eapply CS_keys; [exact Ek | exact (pa_s _ HC)]).
  cbv zeta in H.
  assert (E2 : keys (upd_task c1 (with_state t Finished)) = K s).
  { rewrite <- Ek. apply (upd_task_frame c1 id t); [exact Hs1 | rewrite Et; exact Ef | reflexivity | reflexivity]. }
  apply bind_ok in H. destruct H as (s1 & Hf & H).
  destruct (process_task_finished_active _ _ _ Hf) as [C1 A1].
  apply bind_ok in H. destruct H as ([c3 retracted] & Hw & H).
  apply bind_ok in H. destruct H as (s2 & Hr & H).
  apply bind_ok in H. destruct H as ([c4 stt] & Hrm & H).
  destruct stt; try discriminate. inversion H; subst.
  assert (Ks1 : K s1 = K s) by (unfold K; rewrite C1; exact E2).
  assert (Hss1 : CS (core_of s1)) by (eapply CS_keys; [exact Ks1 | exact (pa_s _ HC)]).
  pose proof (wake_consumers_frame _ _ _ _ _ Hss1 Hw) as E3.
  assert (Ks2 : K s2 = K s).
  { rewrite (process_retracted_K (st_core s1 c3) _ _ (CS_keys _ _ E3 Hss1) Hr). unfold K in *. change (keys c3 = keys (core_of s)). rewrite E3. exact Ks1. }
  assert (Hss2 : CS (core_of s2)) by (eapply CS_keys; [exact Ks2 | exact (pa_s _ HC)]).
  destruct (remove_task_shrinks _ _ _ _ Hss2 Hrm) as [Sh _].
  pose proof (process_retracted_hq _ _ _ Hr) as Hq.
  eapply (PA_remove s _ [id] [id]); [| | tauto | exact HC].
  - change (shrinks (K s) (keys c4) [id]). rewrite <- Ks2. exact Sh.
  - intros x. rewrite (active_same s1 (st_core s2 c4)) by (apply jt_same; exact Hq).
    rewrite A1. rewrite (active_same s (st_core s (upd_task c1 (with_state t Finished)))) by (intros; reflexivity).
    cbn [In]. split; [intros [A N]; split; [exact A | intros [E|[]]; congruence] | intros [A N]; split; [exact A | intros E; apply N; left; congruence]].
Qed.


(** * task_failed *)
Lemma task_failed_PA s w id k s' : HOK (hq_of s) -> PA s -> task_failed s w id k = Ok s' -> PA s'.
Proof.
  intros Hok HC H. unfold task_failed in H.
  destruct (find_task (c_tasks (core_of s)) id) as [t|] eqn:Ef; [|inversion H; subst; exact HC].
  destruct (find_task_some _ _ _ Ef) as [Hin Hid]. apply tid_eqb_eq in Hid.
  apply bind_ok in H. destruct H as (rq & _ & H). apply bind_ok in H. destruct H as (c1 & H1 & H).
  assert (Et : c_tasks c1 = c_tasks (core_of s)).
  { destruct w as [wkr|].
    - destruct (rq_is_mn rq).
      + destruct (t_state t); try discriminate. destruct ws as [|w0 ws]; [discriminate|].
        destruct (N.eqb w0 wkr); [|discriminate]. eapply reset_mn_workers_tasks; exact H1.
      + destruct (t_state t); try (inversion H1; reflexivity).
        * destruct (negb (N.eqb wkr w)); [discriminate|]. inv_binds H1. inversion H1; reflexivity.
        * destruct (negb (N.eqb wkr w)); [discriminate|]. inv_binds H1. inversion H1; reflexivity.
        * destruct (negb (N.eqb wkr w)); [discriminate|]. eapply try_remove_redirection_tasks; exact H1.
        * destruct (negb (N.eqb wkr w)); [discriminate|]. inv_binds H1. inversion H1; reflexivity.
    - destruct (is_waiting t); inversion H1; reflexivity. }
  assert (Ek : keys c1 = K s) by (unfold K, keys; rewrite Et; reflexivity).
  assert (Hs1 : CS c1) by (eapply CS_keys; [exact Ek | exact (pa_s _ HC)]).
  apply bind_ok in H. destruct H as (csm & Hcs & H).
  assert (Hjob : forall x, In x csm -> fst x = fst id).
  { rewrite <- (proj1 (tid_eqb_eq _ _) Hid). eapply recursive_consumers_job; [| |exact Hcs].
    - change (KD (keys c1)). rewrite Ek. exact (pa_d _ HC).
    - rewrite Et. exact Hin. }
  apply bind_ok in H. destruct H as (c2 & H2 & H).
  destruct (remove_waiting_consumers_shrinks _ _ _ Hs1 H2) as [Sh2 _].
  apply bind_ok in H. destruct H as ([c3 stt] & H3 & H).
  destruct (remove_task_shrinks _ _ _ _ (shr_sorted _ _ _ Sh2) H3) as [Sh3 _].
  apply bind_ok in H. destruct H as (u & _ & H).
  apply bind_ok in H. destruct H as ([s1 cancel_ids] & H4 & H).
  pose proof (shrinks_trans _ _ _ _ _ Sh2 Sh3) as Sh23. rewrite Ek in Sh23.
  destruct (process_task_failed_active (st_core s c3) id csm k s1 cancel_ids Hok H4) as (C4 & A4 & J4 & N4).
  assert (Ks1 : K s1 = keys c3) by (unfold K; rewrite C4; reflexivity).
  assert (A4' : forall x, active s1 x <-> active s x /\ ~ In x (csm ++ [id] ++ cancel_ids)).
  { intros x. rewrite A4. rewrite (active_same s (st_core s c3)) by (intros; reflexivity).
    rewrite !in_app_iff. cbn [In]. split.
    - intros (A & N1 & N2 & N3). split; [exact A|]. intros [X|[[X|[]]|X]]; auto.
    - intros (A & N). split; [exact A|]. split; [auto|]. split; [intros X; apply N; right; left; left; auto | auto]. }
  destruct cancel_ids as [|c0 cr] eqn:Ecid.
  - inversion H; subst. eapply (PA_remove s s' (csm ++ [id]) (csm ++ [id] ++ [])); [rewrite Ks1; exact Sh23 | exact A4' | | exact HC].
    intros x _. rewrite app_nil_r. reflexivity.
  - rewrite <- Ecid in *. clear Ecid.
    assert (Hs3 : CS (core_of s1)) by (unfold CS; fold (K s1); rewrite Ks1; exact (shr_sorted _ _ _ Sh23)).
    assert (Hd3 : KD (K s1)) by (rewrite Ks1; eapply shrinks_KD; [exact Sh23 | exact (pa_d _ HC)]).
    destruct (on_cancel_tasks_spec _ _ _ Hs3 Hd3 H) as (X & ShX & X1 & X2).
    pose proof (on_cancel_tasks_hq _ _ _ H) as Hq.
    rewrite Ks1 in ShX. pose proof (shrinks_trans _ _ _ _ _ Sh23 ShX) as ShAll.
    eapply (PA_remove s s' ((csm ++ [id]) ++ X) (csm ++ [id] ++ cancel_ids)); [exact ShAll | | | exact HC].
    + intros x. rewrite (active_same s1 s') by (apply jt_same; exact Hq). apply A4'.
    + intros x Hp. rewrite !in_app_iff. cbn [In].
      assert (Hcore : ~ In x csm -> x <> id -> (In x X <-> In x cancel_ids)).
      { intros Nc Ni. split.
        - intros Hx. destruct (X2 _ Hx) as (_ & y & Hy & _ & Hf).
          apply N4; [intros E; rewrite E in Hy; destruct Hy | rewrite Hf; apply J4; exact Hy | | exact Nc | exact Ni].
          rewrite (active_same s (st_core s c3)) by (intros; reflexivity). apply (pa_b _ HC). exact Hp.
        - intros Hx. apply X1; [exact Hx|]. rewrite Ks1. apply (shr_dom _ _ _ Sh23). split; [exact Hp|].
          rewrite in_app_iff. cbn [In]. intros [E|[E|[]]]; [auto | apply Ni; auto]. }
      split.
      * intros [[Hx|[Hx|[]]]|Hx]; [left; exact Hx | right; left; left; exact Hx|].
        destruct (in_dec tid_dec x csm) as [Ic|Nc]; [left; exact Ic|].
        destruct (tid_eqb x id) eqn:Ei; [apply tid_eqb_eq in Ei; right; left; left; auto|].
        apply tid_eqb_neq in Ei. right. right. apply Hcore; assumption.
      * intros [Hx|[[Hx|[]]|Hx]]; [left; left; exact Hx | left; right; left; exact Hx|].
        destruct (in_dec tid_dec x csm) as [Ic|Nc]; [left; left; exact Ic|].
        destruct (tid_eqb x id) eqn:Ei; [apply tid_eqb_eq in Ei; left; right; left; auto|].
        apply tid_eqb_neq in Ei. right. apply Hcore; assumption.
Qed.


Lemma apply_updates_PA us : forall s w need s' need',
  HOK (hq_of s) -> PA s -> apply_updates s w us need = Ok (s', need') -> PA s'.
Proof.
  induction us as [|u r IH]; cbn [apply_updates]; intros s w need s' need' Hok HC H; [inversion H; subst; exact HC|].
  apply bind_ok in H. destruct H as ([s1 n1] & Hu & H).
  assert (Hok1 : HOK (hq_of s1) /\ PA s1).
  { destruct u.
    - split; [eapply task_finished_ok; eassumption | eapply task_finished_PA; eassumption].
    - apply bind_ok in Hu. destruct Hu as (sx & Hf & Hu). inversion Hu; subst.
      split; [eapply task_failed_ok; eassumption | eapply task_failed_PA; eassumption].
    - split; [eapply task_running_ok; eassumption|].
      destruct (task_running_spec _ _ _ _ _ _ (pa_s _ HC) Hu) as [E A]. eapply PA_frame; eassumption.
    - split; [eapply task_running_ok; eassumption|].
      destruct (task_running_spec _ _ _ _ _ _ (pa_s _ HC) Hu) as [E A]. eapply PA_frame; eassumption.
    - pose proof (task_reject_same _ _ _ _ _ _ Hu) as Hq. split; [eapply hq_same_ok; eassumption|].
      eapply PA_same; [eapply task_reject_K; [exact (pa_s _ HC) | exact Hu] | exact Hq | exact HC].
    - apply bind_ok in Hu. destruct Hu as (sx & Hf & Hu). inversion Hu; subst.
      pose proof (request_enabled_same _ _ _ _ _ Hf) as Hq. split; [eapply hq_same_ok; eassumption|].
      eapply PA_same; [eapply request_enabled_K; exact Hf | exact Hq | exact HC]. }
  destruct Hok1 as [Hok1 HC1]. eapply IH; eassumption.
Qed.

Lemma on_task_update_PA s w us s' : HOK (hq_of s) -> PA s -> on_task_update s w us = Ok s' -> PA s'.
Proof.
  intros Hok HC H. unfold on_task_update in H. apply bind_ok in H. destruct H as ([s1 need] & Hu & H).
  pose proof (apply_updates_PA _ _ _ _ _ _ Hok HC Hu) as HC1.
  destruct (need && _); inversion H; subst; [|exact HC1].
  eapply PA_same; [| |exact HC1]; reflexivity.
Qed.

(** * Worker loss *)
Lemma lost_fail_running_PA l : forall s reason s',
  HOK (hq_of s) -> PA s -> lost_fail_running s reason l = Ok s' -> PA s'.
Proof.
  induction l as [|id r IH]; cbn [lost_fail_running]; intros s reason s' Hok HC H; [inversion H; subst; exact HC|].
  destruct (find_task (c_tasks (core_of s)) id) as [t|] eqn:Ef; [|eapply IH; eassumption].
  assert (Hcrash : forall t', t_id t' = t_id t -> t_consumers t' = t_consumers t ->
            HOK (hq_of (st_core s (upd_task (core_of s) t'))) /\ PA (st_core s (upd_task (core_of s) t'))).
  { intros t' Hi Hc. split; [exact Hok|]. eapply PA_same; [| |exact HC]; [|reflexivity].
    unfold K. cbn. apply (upd_task_frame (core_of s) id t); [exact (pa_s _ HC) | exact Ef | exact Hi | exact Hc]. }
  destruct (t_climit t).
  - apply bind_ok in H. destruct H as (s1 & Hf & H).
    eapply IH; [eapply task_failed_ok; eassumption | eapply task_failed_PA; eassumption | exact H].
  - destruct (reason_is_failure reason); [|eapply IH; eassumption].
    destruct (increment_crash_counter t) as [t' limit] eqn:Ei.
    assert (Hi : t_id t' = t_id t /\ t_consumers t' = t_consumers t) by (unfold increment_crash_counter in Ei; inversion Ei; subst; split; reflexivity).
    destruct (Hcrash t' (proj1 Hi) (proj2 Hi)) as [Hok1 HC1]. destruct limit.
    + apply bind_ok in H. destruct H as (s1 & Hf & H).
      eapply IH; [eapply task_failed_ok; [exact Hok1 | exact Hf] | eapply task_failed_PA; [exact Hok1 | exact HC1 | exact Hf] | exact H].
    + eapply IH; [exact Hok1 | exact HC1 | exact H].
  - destruct (reason_is_failure reason); [|eapply IH; eassumption].
    destruct (increment_crash_counter t) as [t' limit] eqn:Ei.
    assert (Hi : t_id t' = t_id t /\ t_consumers t' = t_consumers t) by (unfold increment_crash_counter in Ei; inversion Ei; subst; split; reflexivity).
    destruct (Hcrash t' (proj1 Hi) (proj2 Hi)) as [Hok1 HC1]. destruct limit.
    + apply bind_ok in H. destruct H as (s1 & Hf & H).
      eapply IH; [eapply task_failed_ok; [exact Hok1 | exact Hf] | eapply task_failed_PA; [exact Hok1 | exact HC1 | exact Hf] | exact H].
    + eapply IH; [exact Hok1 | exact HC1 | exact H].
Qed.

Lemma on_remove_worker_PA s w reason a p t s' :
  HOK (hq_of s) -> PA s -> on_remove_worker s w reason a p t = Ok s' -> PA s'.
Proof.
  intros Hok HC H. unfold on_remove_worker in H.
  destruct (find_worker _ w) as [wk|]; [|discriminate].
  apply bind_ok in H. destruct H as ([[c2 running] retracted] & Hr & H).
  assert (E2 : keys c2 = K s).
  { set (c0 := with_workers (core_of s) (del_worker (c_workers (core_of s)) w)) in *.
    assert (Hs0 : CS c0) by exact (pa_s _ HC).
    destruct (w_assign wk).
    - destruct (negb _); [discriminate|]. apply bind_ok in Hr. destruct Hr as (c1 & Hp & Hr).
      pose proof (lost_prefilled_frame _ _ _ Hs0 Hp) as E1.
      rewrite (lost_assigned_frame _ _ _ _ _ _ _ (CS_keys _ _ E1 Hs0) Hr). exact E1.
    - apply bind_ok in Hr. destruct Hr as (tk & Ht & Hr).
      destruct (t_state tk); try discriminate. destruct ws as [|w0 rest]; [discriminate|].
      destruct (N.eqb w w0).
      + apply bind_ok in Hr. destruct Hr as (c1 & Hc1 & Hr). apply bind_ok in Hr. destruct Hr as ([qs ret] & _ & Hr).
        inversion Hr; subst.
        pose proof (reset_mn_all_frame _ _ _ Hc1) as E1.
        pose proof (reset_mn_all_tasks _ _ _ Hc1) as T1.
        change (keys (upd_task c1 (with_inst (with_state tk (Waiting 0)) (t_inst tk + 1))) = K s).
        transitivity (keys c1); [|exact E1].
        apply (upd_task_frame c1 t0 tk); [eapply CS_keys; [exact E1 | exact Hs0] | rewrite T1; apply get_task_find; exact Ht | reflexivity | reflexivity].
      + inversion Hr; subst.
        apply (upd_task_frame c0 t0 tk); [exact Hs0 | apply get_task_find; exact Ht | reflexivity | reflexivity]. }
  destruct (negb (perm_of_set t _)); [discriminate|].
  apply bind_ok in H. destruct H as (s3 & H3 & H). apply bind_ok in H. destruct H as (s4 & H4 & H).
  apply bind_ok in H. destruct H as (s6 & H6 & H). apply bind_ok in H. destruct H as (s7 & H7 & H). inversion H; subst.
  match type of H3 with lost_retracting ?sx _ _ = _ => set (s2 := sx) in * end.
  assert (HC2 : PA s2) by (eapply PA_same; [exact E2 | reflexivity | exact HC]).
  pose proof (lost_retracting_K _ _ _ _ (pa_s _ HC2) H3) as K3. pose proof (lost_retracting_same _ _ _ _ H3) as Q3.
  assert (HC3 : PA s3) by (eapply PA_same; [exact K3 | exact Q3 | exact HC2]).
  pose proof (process_retracted_K _ _ _ (pa_s _ HC3) H4) as K4. pose proof (process_retracted_hq _ _ _ H4) as Q4.
  assert (HC4 : PA s4) by (eapply PA_same; [exact K4 | exact Q4 | exact HC3]).
  assert (HC5 : PA (broadcast s4 (DLostWorker w))) by (eapply PA_same; [| |exact HC4]; reflexivity).
  destruct (process_worker_lost_active _ _ _ _ _ H6) as [C6 A6].
  assert (HC6 : PA s6) by (eapply PA_frame; [unfold K; rewrite C6; reflexivity | exact A6 | exact HC5]).
  assert (Hok6 : HOK (hq_of s6)).
  { eapply process_worker_lost_ok; [|exact H6]. change (HOK (hq_of s4)). unfold hq_same in Q3. rewrite Q4, Q3. exact Hok. }
  pose proof (lost_fail_running_PA _ _ _ _ Hok6 HC6 H7) as HC7.
  eapply PA_same; [| |exact HC7]; reflexivity.
Qed.

(** * Cancel *)
Lemma handle_cancel_PA s jid s' : HOK (hq_of s) -> PA s -> handle_cancel s jid = Ok s' -> PA s'.
Proof.
  intros Hok HC H. unfold handle_cancel in H.
  destruct (find_job (hq_jobs s) jid) as [j|] eqn:Ej; [|inversion H; subst; eapply PA_same; [| |exact HC]; reflexivity].
  assert (Hjt : jt s jid = Some (j_tasks j)) by (unfold jt, hq_of; unfold hq_jobs in Ej; rewrite Ej; reflexivity).
  pose proof (find_job_id _ _ _ Ej) as Hid.
  assert (Hin : forall x, In x (non_finished_task_ids j) <-> fst x = jid /\ active s x).
  { intros x. rewrite (non_finished_in _ _ (jok_sorted _ (Hok _ (find_job_in _ _ _ Ej)))), Hid. split.
    - intros [Hf Ha]. split; [exact Hf|]. exists (j_tasks j). rewrite Hf. auto.
    - intros [Hf (l & Hl & Ha)]. split; [exact Hf|]. rewrite Hf, Hjt in Hl. inversion Hl; subst. exact Ha. }
  destruct (non_finished_task_ids j) as [|i0 ir] eqn:En; [inversion H; subst; eapply PA_same; [| |exact HC]; reflexivity|].
  rewrite <- En in *. clear En.
  apply bind_ok in H. destruct H as (s1 & H1 & H). apply bind_ok in H. destruct H as (al & _ & H).
  apply bind_ok in H. destruct H as (s2 & H2 & H). inversion H; subst.
  destruct (on_cancel_tasks_spec _ _ _ (pa_s _ HC) (pa_d _ HC) H1) as (X & Sh & X1 & X2).
  pose proof (on_cancel_tasks_hq _ _ _ H1) as Q1.
  destruct (set_cancel_state_active _ _ _ _ H2) as [C2 A2].
  eapply (PA_remove s _ X (non_finished_task_ids j)); [| | |exact HC].
  - change (shrinks (K s) (K s2) X). unfold K in *. rewrite C2. exact Sh.
  - intros x. rewrite (active_same s2 (emit s2 _)) by (intros; reflexivity). rewrite A2.
    rewrite (active_same s s1) by (apply jt_same; exact Q1). reflexivity.
  - intros x Hp. split.
    + intros Hx. destruct (X2 _ Hx) as (_ & y & Hy & _ & Hf). apply Hin. split.
      * rewrite Hf. apply Hin in Hy. apply Hy.
      * apply (pa_b _ HC). exact Hp.
    + intros Hx. apply X1; assumption.
Qed.
