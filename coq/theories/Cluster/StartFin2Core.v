(** C01, "start before finish" (strengthened): frame lemmas [RKN] (StartFin2Base.v) for everything
    in the core that moves tasks between states - no function of the core takes the root worker
    away from a running task, except a worker loss (tasks recorded as running on the lost worker) and
    the removal of the task. *)
From HQ Require Import Base.Prelude Cluster.Types Cluster.Core Cluster.Reactor Cluster.Worker Cluster.Server Cluster.Sys Cluster.ProofsJob Cluster.ProofsMore Cluster.ProofsTerminal Cluster.ProofsStep Cluster.BijBase Cluster.BijCore Cluster.BijHq Cluster.BijSt Cluster.BijReact Cluster.FrameGen Cluster.CrashFrame Cluster.ProofsOnce Cluster.StartFinBase Cluster.StartFin2Base.
From Coq Require Import ZArith Lia.
Local Open Scope N_scope.

Arguments N.add : simpl never.
Arguments N.sub : simpl never.

(** * Primitives *)
Lemma sf_set_task_in ts x y : In y (set_task ts x) -> y = x \/ In y ts.
Proof.
  induction ts as [|h r IH]; cbn [set_task]; [intros [H|[]]; left; symmetry; exact H|].
  destruct (tid_eqb (t_id x) (t_id h)).
  - intros [H|H]; [left; symmetry; exact H | right; right; exact H].
  - destruct (tid_ltb (t_id x) (t_id h)).
    + intros [H|H]; [left; symmetry; exact H | right; exact H].
    + intros [H|H]; [right; left; exact H|]. destruct (IH H) as [E|Hin]; [left; exact E | right; right; exact Hin].
Qed.

Lemma sf_del_task_in ts id y : In y (del_task ts id) -> In y ts.
Proof.
  induction ts as [|h r IH]; cbn [del_task]; [intros []|].
  destruct (tid_eqb id (t_id h)); [intros H; right; exact H|]. intros [H|H]; [left; exact H | right; exact (IH H)].
Qed.

Lemma RKN_step N c c1 c2 : RKN N c c1 -> c_tasks c2 = c_tasks c1 -> RKN N c c2.
Proof. intros A E. eapply RKN_trans; [exact A | apply RKN_eq; exact E]. Qed.

Lemma RKN_upd N c x t0 : In t0 (c_tasks c) -> t_id t0 = t_id x -> keeps (t_state t0) (t_state x) -> RKN N c (upd_task c x).
Proof.
  intros Hin Hid K tk' H. cbn [upd_task with_tasks c_tasks] in H. apply sf_set_task_in in H. destruct H as [->|H].
  - right. exists t0. split; [exact Hin|]. split; [exact Hid | exact K].
  - right. exists tk'. split; [exact H|]. split; [reflexivity | apply keeps_refl].
Qed.

Lemma RKN_upd_find N c id t0 x :
  find_task (c_tasks c) id = Some t0 -> t_id x = t_id t0 -> keeps (t_state t0) (t_state x) -> RKN N c (upd_task c x).
Proof. intros Hf Hid K. destruct (find_task_some _ _ _ Hf) as [Hin _]. eapply RKN_upd; [exact Hin | symmetry; exact Hid | exact K]. Qed.

Lemma RKN_upd_get N c id t0 x :
  get_task (c_tasks c) id = Ok t0 -> t_id x = t_id t0 -> keeps (t_state t0) (t_state x) -> RKN N c (upd_task c x).
Proof. intros Hg. apply (RKN_upd_find N c id t0 x). apply get_task_find. exact Hg. Qed.

Lemma RKN_upd_N (N : tid -> Prop) c x : N (t_id x) -> RKN N c (upd_task c x).
Proof.
  intros Hn tk' H. cbn [upd_task with_tasks c_tasks] in H. apply sf_set_task_in in H. destruct H as [->|H].
  - left. exact Hn.
  - right. exists tk'. split; [exact H|]. split; [reflexivity | apply keeps_refl].
Qed.

Lemma RKN_upd_gen N c c0 x cx t0 :
  c_tasks c0 = c_tasks c -> In t0 (c_tasks c) -> t_id x = t_id t0 -> keeps (t_state t0) (t_state x) ->
  c_tasks cx = c_tasks (upd_task c0 x) -> RKN N c cx.
Proof.
  intros E0 Hin Hid K Ex. eapply RKN_step; [|exact Ex]. eapply RKN_trans; [apply RKN_eq; exact E0|].
  eapply RKN_upd; [rewrite E0; exact Hin | symmetry; exact Hid | exact K].
Qed.

Lemma RKN_updN_gen (N : tid -> Prop) c c0 x cx :
  c_tasks c0 = c_tasks c -> N (t_id x) -> c_tasks cx = c_tasks (upd_task c0 x) -> RKN N c cx.
Proof.
  intros E0 Hn Ex. eapply RKN_step; [|exact Ex]. eapply RKN_trans; [apply RKN_eq; exact E0|]. apply RKN_upd_N. exact Hn.
Qed.

(** The old state has no root: any new state will do. *)
Ltac nk E := rewrite E; let w0 := fresh "w0" in let HH := fresh "HH" in intros w0 HH; first [exact HH | destruct HH].
(** [RKN N c cx] where [cx] is [c] with one task [x] (an updated [t0], [Hin : In t0 (c_tasks c)]) set. *)
Ltac rk_upd t0 Hin tac :=
  match goal with |- RKN ?N ?c ?cx =>
    match cx with context [upd_task ?c0 ?x] =>
      apply (RKN_upd_gen N c c0 x cx t0); [reflexivity | exact Hin | reflexivity | tac | reflexivity] end end.

(** * Reactor *)
Ltac get_in Ht Hin Hid := destruct (find_task_some _ _ _ (get_task_find _ _ _ Ht)) as [Hin Hid].

Lemma retract_states_RK N ids : forall c acc c' acc', retract_states c ids acc = Ok (c', acc') -> RKN N c c'.
Proof.
  induction ids as [|id r IH]; cbn [retract_states]; intros c acc c' acc' H; [inversion H; subst; apply RKN_refl|].
  apply bind_ok in H. destruct H as (t & Ht & H). get_in Ht Hin Hid.
  destruct (t_state t) eqn:Est; try discriminate.
  apply bind_ok in H. destruct H as (wk & _ & H). apply bind_ok in H. destruct H as (wk' & _ & H).
  eapply RKN_trans; [|eapply IH; exact H]. rk_upd t Hin ltac:(nk Est).
Qed.

Lemma process_retracted_RK N s r s' : process_retracted s r = Ok s' -> RKN N (core_of s) (core_of s').
Proof.
  unfold process_retracted. destruct r; [intros H; inversion H; subst; apply RKN_refl|].
  intros H. apply bind_ok in H. destruct H as ([c' groups] & Hr & H). rewrite (send_all_core _ _ _ H).
  change (RKN N (core_of s) c'). eapply retract_states_RK; exact Hr.
Qed.

Lemma rcf_in deps : forall ts cid ts', remove_consumer_from ts deps cid = Ok ts' ->
  forall y, In y ts' -> exists y0, In y0 ts /\ t_id y0 = t_id y /\ t_state y0 = t_state y.
Proof.
  induction deps as [|d r IH]; cbn [remove_consumer_from]; intros ts cid ts' H y Hy; [inversion H; subst; eauto|].
  destruct (find_task ts d) as [input|] eqn:Ef; [|eapply IH; eassumption].
  destruct (tid_mem cid (t_consumers input)); [|discriminate].
  destruct (IH _ _ _ H y Hy) as (y1 & H1 & I1 & S1). apply sf_set_task_in in H1. destruct H1 as [->|H1].
  - destruct (find_task_some _ _ _ Ef) as [Hin _]. exists input. split; [exact Hin|]. split; [exact I1 | exact S1].
  - exists y1. auto.
Qed.

Lemma remove_task_RK N c id c' stt : remove_task c id = Ok (c', stt) -> RKN N c c'.
Proof.
  intros H. unfold remove_task in H. destruct (find_task (c_tasks c) id) as [t|] eqn:Ef; [|discriminate].
  assert (Hdel : forall c1, c_tasks c1 = del_task (c_tasks c) id -> RKN N c c1).
  { intros c1 E tk' Hin. rewrite E in Hin. apply sf_del_task_in in Hin. right. exists tk'. split; [exact Hin|]. split; [reflexivity | apply keeps_refl]. }
  destruct (t_state t); try (inversion H; subst; apply Hdel; reflexivity).
  apply bind_ok in H. destruct H as (c2 & H2 & H).
  assert (E2 : c_tasks c2 = del_task (c_tasks c) id).
  { destruct (N.eqb unfinished_deps 0); [|inversion H2; reflexivity]. inv_binds H2. inversion H2; reflexivity. }
  destruct (N.ltb 0 unfinished_deps).
  - apply bind_ok in H. destruct H as (ts & Hr & H). inversion H; subst. intros tk' Hin. cbn [c_tasks with_tasks] in Hin.
    destruct (rcf_in _ _ _ _ Hr tk' Hin) as (y0 & H0 & I0 & S0). rewrite E2 in H0. apply sf_del_task_in in H0.
    right. exists y0. split; [exact H0|]. split; [exact I0 | rewrite S0; apply keeps_refl].
  - inversion H; subst. apply Hdel. exact E2.
Qed.

Lemma remove_tasks_batched_RK N l : forall c c', remove_tasks_batched c l = Ok c' -> RKN N c c'.
Proof.
  induction l as [|id r IH]; cbn [remove_tasks_batched]; intros c c' H; [inversion H; subst; apply RKN_refl|].
  apply bind_ok in H. destruct H as ([c1 stt] & H1 & H).
  eapply RKN_trans; [eapply remove_task_RK; exact H1 | eapply IH; exact H].
Qed.

Lemma remove_waiting_consumers_RK N l : forall c c', remove_waiting_consumers c l = Ok c' -> RKN N c c'.
Proof.
  induction l as [|id r IH]; cbn [remove_waiting_consumers]; intros c c' H; [inversion H; subst; apply RKN_refl|].
  apply bind_ok in H. destruct H as ([c1 stt] & H1 & H). destruct stt; try discriminate.
  eapply RKN_trans; [eapply remove_task_RK; exact H1 | eapply IH; exact H].
Qed.

Lemma on_cancel_tasks_RK N s ids s' : on_cancel_tasks s ids = Ok s' -> RKN N (core_of s) (core_of s').
Proof.
  intros H. unfold on_cancel_tasks in H.
  apply bind_ok in H. destruct H as ([[s1 tu] ru] & H1 & H). apply bind_ok in H. destruct H as (c' & H2 & H).
  pose proof (cancel_release_tasks _ _ _ _ _ _ _ H1) as E1.
  rewrite (send_all_core _ _ _ H). change (RKN N (core_of s) c').
  eapply RKN_trans; [apply RKN_eq; exact E1 | eapply remove_tasks_batched_RK; exact H2].
Qed.

Lemma wake_consumers_RK N csm : forall c ret c' ret', wake_consumers c csm ret = Ok (c', ret') -> RKN N c c'.
Proof.
  induction csm as [|x r IH]; cbn [wake_consumers]; intros c ret c' ret' H; [inversion H; subst; apply RKN_refl|].
  apply bind_ok in H. destruct H as (t & Ht & H). get_in Ht Hin Hid.
  destruct (t_state t) as [n| | | | | |] eqn:Est; try discriminate.
  destruct (N.eqb n 0); [discriminate|].
  destruct (N.eqb (n - 1) 0).
  - apply bind_ok in H. destruct H as ([qs rt] & _ & H).
    eapply RKN_trans; [|eapply IH; exact H]. rk_upd t Hin ltac:(nk Est).
  - eapply RKN_trans; [|eapply IH; exact H]. rk_upd t Hin ltac:(nk Est).
Qed.

Lemma requeue_RK N s t c1 s' b :
  In t (c_tasks c1) -> (forall w, ~ rootok (t_state t) w) ->
  (do (qs, ret) <- add_ready_task (c_queues c1) (with_state t (Waiting 0));
   do s'' <- process_retracted (st_core s (with_queues (upd_task c1 (with_state t (Waiting 0))) qs)) ret;
   Ok (s'', true)) = Ok (s', b) -> RKN N c1 (core_of s').
Proof.
  intros Hin Hnr Hx. apply bind_ok in Hx. destruct Hx as ([qs rt] & _ & Hx). apply bind_ok in Hx. destruct Hx as (sx & Hp & Hx). inversion Hx; subst.
  eapply RKN_trans; [|exact (process_retracted_RK N _ _ _ Hp)].
  change (RKN N c1 (with_queues (upd_task c1 (with_state t (Waiting 0))) qs)).
  rk_upd t Hin ltac:(intros w0 HH; exfalso; exact (Hnr w0 HH)).
Qed.

Lemma task_reject_RK N s w id rv s' b : task_reject s w id rv = Ok (s', b) -> RKN N (core_of s) (core_of s').
Proof.
  intros Hc. unfold task_reject in Hc.
  destruct (find_task _ id) as [t|] eqn:Ef; [|inversion Hc; subst; apply RKN_refl].
  destruct (find_task_some _ _ _ Ef) as [Hin _].
  apply bind_ok in Hc. destruct Hc as (wk & _ & Hc). apply bind_ok in Hc. destruct Hc as (rq & _ & Hc).
  apply bind_ok in Hc. destruct Hc as ([c1 cont] & Hr & Hc).
  assert (E1 : c_tasks c1 = c_tasks (core_of s) /\ (forall w0, ~ rootok (t_state t) w0)).
  { destruct (t_state t) eqn:Est; try discriminate.
    - split; [|intros w1 []]. destruct (negb (N.eqb w w0)); [inversion Hr; reflexivity|].
      destruct rv as [v|]; [|inversion Hr; reflexivity]. destruct (N.eqb v rv0); [|inversion Hr; reflexivity].
      inv_binds Hr. inversion Hr; reflexivity.
    - split; [|intros w1 []]. inv_binds Hr. inversion Hr; reflexivity.
    - split; [|intros w1 []]. destruct (negb (N.eqb w w0)); inversion Hr; reflexivity. }
  destruct E1 as [E1 Hnr]. assert (Hin1 : In t (c_tasks c1)) by (rewrite E1; exact Hin).
  assert (Hq : forall sx bx,
    (do (qs, ret) <- add_ready_task (c_queues c1) (with_state t (Waiting 0));
     do s'' <- process_retracted (st_core s (with_queues (upd_task c1 (with_state t (Waiting 0))) qs)) ret;
     Ok (s'', true)) = Ok (sx, bx) -> RKN N (core_of s) (core_of sx)).
  { intros sx bx Hx. eapply RKN_trans; [apply RKN_eq; exact E1 | eapply requeue_RK; [exact Hin1 | exact Hnr | exact Hx]]. }
  destruct (t_state t) eqn:Est; try (eapply Hq; exact Hc).
  destruct cont.
  - destruct (find_redirect (c_redirects c1) id) as [[target rvt]|].
    + apply bind_ok in Hc. destruct Hc as (sx & Hs & Hc). inversion Hc; subst.
      rewrite (send_worker_core _ _ _ _ Hs).
      eapply RKN_trans; [apply RKN_eq; exact E1|].
      change (RKN N c1 (upd_task (with_redirects c1 (del_redirect (c_redirects c1) id)) (with_state t (Assigned target rvt)))).
      rk_upd t Hin1 ltac:(nk Est).
    + eapply Hq; exact Hc.
  - inversion Hc; subst. change (RKN N (core_of s) c1). apply RKN_eq. exact E1.
Qed.

Lemma retract_response_states_RK N ids : forall c w acc c' acc',
  retract_response_states c w ids acc = (c', acc') -> RKN N c c'.
Proof.
  induction ids as [|id r IH]; cbn [retract_response_states]; intros c w acc c' acc' H; [inversion H; subst; apply RKN_refl|].
  destruct (find_task (c_tasks c) id) as [t|] eqn:Ef; [|eapply IH; exact H].
  destruct (find_task_some _ _ _ Ef) as [Hin _].
  destruct (t_state t) eqn:Est; try (eapply IH; exact H).
  destruct (N.eqb w w0); [|eapply IH; exact H].
  destruct (find_redirect _ id) as [[target rv]|].
  - eapply RKN_trans; [|eapply IH; exact H]. rk_upd t Hin ltac:(nk Est).
  - eapply RKN_trans; [|eapply IH; exact H]. rk_upd t Hin ltac:(nk Est).
Qed.

Lemma on_retract_response_RK N s w ids s' : on_retract_response s w ids = Ok s' -> RKN N (core_of s) (core_of s').
Proof.
  unfold on_retract_response. destruct (retract_response_states (core_of s) w ids []) as [c' groups] eqn:E. intros H.
  apply bind_ok in H. destruct H as (s2 & H & H2).
  assert (X2 : RKN N (core_of s) (core_of s2)).
  { rewrite (send_redirected_core _ _ _ H). change (RKN N (core_of s) c'). eapply retract_response_states_RK; exact E. }
  destruct (retract_wakes _ _ _ _); inversion H2; subst s'; clear H2; [|exact X2].
  eapply RKN_step; [exact X2 | reflexivity].
Qed.

(** * Server: what remains of [on_remove_worker] after the lost worker's own sets *)
Lemma lost_retracting_RK N l : forall s w s', lost_retracting s w l = Ok s' -> RKN N (core_of s) (core_of s').
Proof.
  induction l as [|id r IH]; cbn [lost_retracting]; intros s w s' H; [inversion H; subst; apply RKN_refl|].
  apply bind_ok in H. destruct H as (t & Ht & H). get_in Ht Hin Hid.
  destruct (t_state t) eqn:Est; try (eapply IH; exact H).
  destruct (N.eqb w w0); [|eapply IH; exact H].
  destruct (find_redirect _ id) as [[target rv]|].
  - apply bind_ok in H. destruct H as (s1 & H1 & H).
    eapply RKN_trans; [|eapply IH; exact H]. rewrite (send_worker_core _ _ _ _ H1).
    match goal with |- RKN N _ (core_of (st_core s ?cx)) => change (RKN N (core_of s) cx) end.
    rk_upd t Hin ltac:(nk Est).
  - eapply RKN_trans; [|eapply IH; exact H].
    match goal with |- RKN N _ (core_of (st_core s ?cx)) => change (RKN N (core_of s) cx) end.
    rk_upd t Hin ltac:(nk Est).
Qed.

(** * New tasks *)
Lemma register_deps_RK N deps : forall c id kept count c' kept' count',
  register_deps c id deps kept count = (c', kept', count') -> RKN N c c'.
Proof.
  induction deps as [|d r IH]; cbn [register_deps]; intros c id kept count c' kept' count' H; [inversion H; subst; apply RKN_refl|].
  destruct (find_task (c_tasks c) d) as [dep|] eqn:Ef; [|eapply IH; exact H].
  destruct (find_task_some _ _ _ Ef) as [Hin _].
  eapply RKN_trans; [|eapply IH; exact H]. rk_upd dep Hin ltac:(apply keeps_refl).
Qed.

Lemma add_new_tasks_RK (N : tid -> Prop) ts : forall c ret c' ret',
  (forall t, In t ts -> N (t_id t)) -> add_new_tasks c ts ret = Ok (c', ret') -> RKN N c c'.
Proof.
  induction ts as [|t r IH]; cbn [add_new_tasks]; intros c ret c' ret' HN H; [inversion H; subst; apply RKN_refl|].
  destruct (register_deps c (t_id t) (t_deps t) [] 0) as [[c1 kept] count] eqn:Er.
  apply bind_ok in H. destruct H as ([c2 rt] & H2 & H).
  assert (E2 : c_tasks c2 = c_tasks c1).
  { destruct (N.eqb count 0); [|inversion H2; reflexivity]. inv_binds H2. inversion H2; reflexivity. }
  destruct (find_task (c_tasks c2) (t_id t)); [discriminate|].
  eapply RKN_trans; [eapply register_deps_RK; exact Er|].
  eapply RKN_trans; [|eapply IH; [|exact H]]; [|intros t0 Hin; apply HN; right; exact Hin].
  match goal with |- RKN N c1 (upd_task c2 ?x) => apply (RKN_updN_gen N c1 c2 x); [exact E2 | | reflexivity] end.
  cbn. apply HN. left. reflexivity.
Qed.

Lemma on_new_tasks_RK (N : tid -> Prop) s ts s' :
  (forall t, In t ts -> N (t_id t)) -> on_new_tasks s ts = Ok s' -> RKN N (core_of s) (core_of s').
Proof.
  unfold on_new_tasks. intros HN. destruct ts as [|t0 r] eqn:Ets; [intros H; inversion H; subst; apply RKN_refl|]. rewrite <- Ets in *.
  intros H. apply bind_ok in H. destruct H as ([c' rt] & Ha & H). apply bind_ok in H. destruct H as (s1 & H1 & H). inversion H; subst.
  change (RKN N (core_of s) (with_flag (core_of s1) true)).
  eapply RKN_step; [|reflexivity].
  eapply RKN_trans; [eapply add_new_tasks_RK; [exact HN | exact Ha]|].
  exact (process_retracted_RK N _ _ _ H1).
Qed.

(** * Scheduling *)
Lemma map_one_RK N c m id w v rqres c' m' : map_one c m id w v rqres = Ok (c', m') -> RKN N c c'.
Proof.
  intros H. unfold map_one in H.
  apply bind_ok in H. destruct H as (wk & _ & H). apply bind_ok in H. destruct H as (wk' & _ & H).
  apply bind_ok in H. destruct H as (t & Ht & H).
  assert (Hf : find_task (c_tasks c) id = Some t) by (apply get_task_find; exact Ht).
  destruct (find_task_some _ _ _ Hf) as [Hin _].
  destruct (t_state t) eqn:Est; try discriminate.
  - inversion H; subst. rk_upd t Hin ltac:(nk Est).
  - destruct (find_worker _ w0) as [wo|]; [|discriminate]. apply bind_ok in H. destruct H as (wo' & _ & H).
    destruct (find_redirect _ id); [discriminate|]. inversion H; subst. rk_upd t Hin ltac:(nk Est).
  - destruct (find_redirect _ id) as [[ot vo]|].
    + inv_binds H. inversion H; subst. apply RKN_eq. reflexivity.
    + inversion H; subst. apply RKN_eq. reflexivity.
Qed.

Lemma rr_pass_RK N counts : forall c m tasks v rqres c' m' counts' rest,
  rr_pass c m counts tasks v rqres = Ok (c', m', counts', rest) -> RKN N c c'.
Proof.
  induction counts as [|[w n] r IH]; intros c m tasks v rqres c' m' counts' rest H.
  - destruct tasks; cbn [rr_pass] in H; inversion H; subst; apply RKN_refl.
  - destruct tasks as [|id tl]; cbn [rr_pass] in H; [inversion H; subst; apply RKN_refl|].
    destruct (N.ltb 0 n).
    + apply bind_ok in H. destruct H as ([c1 m1] & H1 & H). apply bind_ok in H. destruct H as ([[[c2 m2] r'] tl'] & H2 & H). inversion H; subst.
      eapply RKN_trans; [eapply map_one_RK; exact H1 | eapply IH; exact H2].
    + apply bind_ok in H. destruct H as ([[[c2 m2] r'] tl'] & H2 & H). inversion H; subst. eapply IH; exact H2.
Qed.

Lemma rr_loop_RK N fuel : forall c m counts tasks v rqres c' m',
  rr_loop fuel c m counts tasks v rqres = Ok (c', m') -> RKN N c c'.
Proof.
  induction fuel as [|k IH]; intros c m counts tasks v rqres c' m' H.
  - destruct tasks; cbn [rr_loop] in H; [inversion H; subst; apply RKN_refl | discriminate].
  - destruct tasks as [|id tl] eqn:Et; cbn [rr_loop] in H; [inversion H; subst; apply RKN_refl|].
    apply bind_ok in H. destruct H as ([[[c1 m1] counts1] rest] & H1 & H).
    eapply RKN_trans; [eapply rr_pass_RK; exact H1 | eapply IH; exact H].
Qed.

Lemma map_sn_RK N sol l : forall c m c' m', map_sn c m sol l = Ok (c', m') -> RKN N c c'.
Proof.
  induction l as [|[[rq v] counts] r IH]; cbn [map_sn]; intros c m c' m' H; [inversion H; subst; apply RKN_refl|].
  apply bind_ok in H. destruct H as (rqd & _ & H). apply bind_ok in H. destruct H as (q & _ & H).
  apply bind_ok in H. destruct H as ([tasks q'] & _ & H). apply bind_ok in H. destruct H as ([c2 m2] & H2 & H).
  eapply RKN_trans; [|eapply IH; exact H].
  eapply RKN_trans; [|eapply rr_loop_RK; exact H2]. apply RKN_eq. reflexivity.
Qed.

Lemma set_mn_workers_tasks l : forall c id first c', set_mn_workers c id l first = Ok c' -> c_tasks c' = c_tasks c.
Proof.
  induction l as [|w r IH]; cbn [set_mn_workers]; intros c id first c' H; [inversion H; reflexivity|].
  apply bind_ok in H. destruct H as (wk & _ & H). apply bind_ok in H. destruct H as (wk' & _ & H).
  rewrite (IH _ _ _ _ H). reflexivity.
Qed.

Lemma map_mn_sets_RK N sets : forall c rq mn c' mn', map_mn_sets c rq mn sets = Ok (c', mn') -> RKN N c c'.
Proof.
  induction sets as [|ws rest IH]; cbn [map_mn_sets]; intros c rq mn c' mn' H; [inversion H; subst; apply RKN_refl|].
  apply bind_ok in H. destruct H as (q & _ & H).
  destruct (q_take_one q) as [[id q']|]; [|discriminate].
  apply bind_ok in H. destruct H as (c2 & H2 & H). apply bind_ok in H. destruct H as (t & Ht & H). get_in Ht Hin Hid.
  destruct (t_state t) as [n| | | | | |] eqn:Est; try discriminate. destruct n; [|discriminate].
  eapply RKN_trans; [|eapply IH; exact H].
  pose proof (set_mn_workers_tasks _ _ _ _ _ H2) as E2. cbn [c_tasks with_queues] in E2.
  eapply (RKN_trans _ _ c2); [apply RKN_eq; exact E2|]. rk_upd t Hin ltac:(nk Est).
Qed.

Lemma map_mn_RK N l : forall c mn c' mn', map_mn c mn l = Ok (c', mn') -> RKN N c c'.
Proof.
  induction l as [|[[rq v] sets] r IH]; cbn [map_mn]; intros c mn c' mn' H; [inversion H; subst; apply RKN_refl|].
  apply bind_ok in H. destruct H as ([c1 mn1] & H1 & H).
  eapply RKN_trans; [eapply map_mn_sets_RK; exact H1 | eapply IH; exact H].
Qed.

Lemma prefill_mark_RK N l : forall c w c', prefill_mark c w l = Ok c' -> RKN N c c'.
Proof.
  induction l as [|id r IH]; cbn [prefill_mark]; intros c w c' H; [inversion H; subst; apply RKN_refl|].
  apply bind_ok in H. destruct H as (t & Ht & H). get_in Ht Hin Hid.
  destruct (is_waiting t) eqn:Ew; [|discriminate]. cbn [negb] in H.
  apply bind_ok in H. destruct H as (wk & _ & H). apply bind_ok in H. destruct H as (wk' & _ & H).
  eapply RKN_trans; [|eapply IH; exact H].
  rk_upd t Hin ltac:(unfold is_waiting in Ew; destruct (t_state t); try discriminate; intros w0 []).
Qed.

Lemma prefill_workers_RK N ws : forall c m qi psize c' m', prefill_workers c m qi psize ws = Ok (c', m') -> RKN N c c'.
Proof.
  induction ws as [|w rest IH]; cbn [prefill_workers]; intros c m qi psize c' m' H; [inversion H; subst; apply RKN_refl|].
  apply bind_ok in H. destruct H as (q & _ & H). apply bind_ok in H. destruct H as ([ids q'] & _ & H).
  apply bind_ok in H. destruct H as (c2 & H2 & H).
  eapply RKN_trans; [|eapply IH; exact H].
  eapply RKN_trans; [|eapply prefill_mark_RK; exact H2]. apply RKN_eq. reflexivity.
Qed.

Lemma prefill_queues_RK N n : forall c m worder qi top c' m',
  prefill_queues c m worder qi n top = Ok (c', m') -> RKN N c c'.
Proof.
  induction n as [|k IH]; cbn [prefill_queues]; intros c m worder qi top c' m' H; [inversion H; subst; apply RKN_refl|].
  apply bind_ok in H. destruct H as (q & _ & H).
  destruct (q_top_priority q) as [tp|]; [|eapply IH; exact H].
  destruct (negb (Z.eqb tp top)); [eapply IH; exact H|].
  destruct (N.eqb _ 0); [eapply IH; exact H|].
  destruct (existsb _ (q_top_task_ids q)).
  - destruct (forallb _ (q_top_task_ids q)); [eapply IH; exact H | discriminate].
  - destruct (filter _ worder) eqn:Efl; [eapply IH; exact H|]. rewrite <- Efl in H.
    destruct (N.eqb _ 0); [eapply IH; exact H|].
    apply bind_ok in H. destruct H as ([c1 m1] & H1 & H).
    eapply RKN_trans; [eapply prefill_workers_RK; exact H1 | eapply IH; exact H].
Qed.

Lemma run_scheduling_RK N s sol s' : run_scheduling s sol = Ok s' -> RKN N (core_of s) (core_of s').
Proof.
  unfold run_scheduling. destruct (negb (perm_of_set _ _)); [discriminate|]. intros H.
  apply bind_ok in H. destruct H as ([c1 m1] & H1 & H). apply bind_ok in H. destruct H as ([c2 mn] & H2 & H).
  apply bind_ok in H. destruct H as ([c3 m3] & H3 & H). apply bind_ok in H. destruct H as (s1 & Hs1 & H).
  apply bind_ok in H. destruct H as (s2 & Hs2 & H). inversion H; subst.
  change (RKN N (core_of s) (with_flag (core_of s2) false)). eapply RKN_step; [|reflexivity].
  rewrite (send_mn_core _ _ _ Hs2), (send_mapping_core _ _ _ Hs1). change (RKN N (core_of s) c3).
  eapply RKN_trans; [eapply map_sn_RK; exact H1|]. eapply RKN_trans; [eapply map_mn_RK; exact H2|].
  destruct (queues_top_priority (c_queues c2)); [eapply prefill_queues_RK; exact H3 | inversion H3; subst; apply RKN_refl].
Qed.

(** * The lost worker's own sets: the tasks of the sets are excepted *)
Lemma lost_prefilled_RK (N : tid -> Prop) l : forall c c', (forall id, In id l -> N id) -> lost_prefilled c l = Ok c' -> RKN N c c'.
Proof.
  induction l as [|id r IH]; cbn [lost_prefilled]; intros c c' HN H; [inversion H; subst; apply RKN_refl|].
  apply bind_ok in H. destruct H as (t & Ht & H). apply bind_ok in H. destruct H as (q & _ & H). apply bind_ok in H. destruct H as (q' & _ & H).
  get_in Ht Hin Hid.
  eapply RKN_trans; [|eapply IH; [|exact H]]; [|intros x Hx; apply HN; right; exact Hx].
  match goal with |- RKN N c ?cx => match cx with context [upd_task ?c0 ?x] => apply (RKN_updN_gen N c c0 x cx); [reflexivity | | reflexivity] end end.
  cbn. rewrite Hid. apply HN. left. reflexivity.
Qed.

Lemma lost_assigned_shape c id t running c1 t1 running1 :
  find_task (c_tasks c) id = Some t ->
  match t_state t with
  | Running _ _ => Ok (c, with_state t (Waiting 0), running ++ [id])
  | Retracting _ =>
      match find_redirect (c_redirects c) id with
      | Some _ => Ok (with_redirects c (del_redirect (c_redirects c) id), t, running)
      | None => Panic 185
      end
  | _ => Ok (c, with_state t (Waiting 0), running)
  end = Ok (c1, t1, running1) -> c_tasks c1 = c_tasks c /\ t_id t1 = id.
Proof.
  intros Hf H1. destruct (find_task_some _ _ _ Hf) as [_ Hid].
  destruct (t_state t); try (inversion H1; subst; split; reflexivity).
  destruct (find_redirect (c_redirects c) id); [|discriminate]. inversion H1; subst. split; reflexivity.
Qed.

Lemma lost_assigned_RK (N : tid -> Prop) l : forall c running ret c' running' ret',
  (forall id, In id l -> N id) -> lost_assigned c l running ret = Ok (c', running', ret') -> RKN N c c'.
Proof.
  induction l as [|id r IH]; cbn [lost_assigned]; intros c running ret c' running' ret' HN H; [inversion H; subst; apply RKN_refl|].
  apply bind_ok in H. destruct H as (t & Ht & H). apply bind_ok in H. destruct H as ([[c1 t1] running1] & H1 & H).
  apply bind_ok in H. destruct H as ([qs rt] & _ & H).
  destruct (lost_assigned_shape _ _ _ _ _ _ _ (get_task_find _ _ _ Ht) H1) as [E1 I1].
  eapply RKN_trans; [|eapply IH; [|exact H]]; [|intros x Hx; apply HN; right; exact Hx].
  match goal with |- RKN N c ?cx => match cx with context [upd_task ?c0 ?x] => apply (RKN_updN_gen N c c0 x cx); [exact E1 | | reflexivity] end end.
  cbn. rewrite I1. apply HN. left. reflexivity.
Qed.

(** A task of the assigned set that the core shows Running ends up in the [running] list. *)
Lemma lost_assigned_mono l : forall c running ret c' running' ret',
  lost_assigned c l running ret = Ok (c', running', ret') -> forall x, In x running -> In x running'.
Proof.
  induction l as [|id r IH]; cbn [lost_assigned]; intros c running ret c' running' ret' H x Hx; [inversion H; subst; exact Hx|].
  apply bind_ok in H. destruct H as (t & Ht & H). apply bind_ok in H. destruct H as ([[c1 t1] running1] & H1 & H).
  apply bind_ok in H. destruct H as ([qs rt] & _ & H).
  eapply IH; [exact H|].
  destruct (t_state t); try (inversion H1; subst; exact Hx).
  - destruct (find_redirect _ id); [|discriminate]. inversion H1; subst. exact Hx.
  - inversion H1; subst. apply in_or_app. left. exact Hx.
Qed.

Lemma lost_assigned_running l : forall c running ret c' running' ret' x tk w rv,
  lost_assigned c l running ret = Ok (c', running', ret') ->
  In x l -> find_task (c_tasks c) x = Some tk -> t_state tk = Running w rv -> In x running'.
Proof.
  induction l as [|id r IH]; cbn [lost_assigned]; intros c running ret c' running' ret' x tk w rv H Hx Hf Est; [destruct Hx|].
  apply bind_ok in H. destruct H as (t & Ht & H). apply bind_ok in H. destruct H as ([[c1 t1] running1] & H1 & H).
  apply bind_ok in H. destruct H as ([qs rt] & _ & H).
  destruct (tid_eqb x id) eqn:Ex.
  - apply tid_eqb_eq in Ex. subst x. rewrite (get_task_find _ _ _ Ht) in Hf. inversion Hf; subst tk. rewrite Est in H1. inversion H1; subst.
    eapply lost_assigned_mono; [exact H|]. apply in_or_app. right. left. reflexivity.
  - destruct Hx as [Hx|Hx]; [subst x; rewrite ProofsMore.tid_eqb_refl in Ex; discriminate|].
    eapply (IH _ _ _ _ _ _ x tk w rv H Hx); [|exact Est].
    destruct (lost_assigned_shape _ _ _ _ _ _ _ (get_task_find _ _ _ Ht) H1) as [E1 I1].
    cbn [c_tasks with_queues upd_task with_tasks]. rewrite find_set_task. cbn [t_id with_inst]. rewrite I1, Ex, E1. exact Hf.
Qed.
