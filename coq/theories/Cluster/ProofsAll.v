(** C08 / C14: a cancel and an exceeded failure limit leave NO task of the job without outcome. *)
From HQ Require Import Base.Prelude Cluster.Types Cluster.Core Cluster.Reactor Cluster.Worker Cluster.Server Cluster.Sys Cluster.Monitors Cluster.ProofsJob Cluster.ProofsMore Cluster.ProofsTerminal Cluster.ProofsStep.
From Coq Require Import ZArith Lia.
Require Import ZifyBool ZifyN ZifyNat.
Local Open Scope N_scope.

Arguments N.add : simpl never.
Arguments N.sub : simpl never.

Definition active (l : list (N * jstate)) : N := cnt l JW + cnt l JR.

Lemma non_finished_length j : N.of_nat (length (non_finished_task_ids j)) = active (j_tasks j).
Proof.
  unfold non_finished_task_ids, active. rewrite map_length.
  induction (j_tasks j) as [|[k x] r IH]; [reflexivity|].
  cbn [filter cnt snd]. destruct x; cbn [jst_eqb length]; lia.
Qed.

(** Marking moves every listed task from Waiting / Running to the target state. *)
Lemma mark_tasks_active target site ids : (target = JC \/ target = JA) -> forall j j',
  jsorted (j_tasks j) -> mark_tasks j ids target site = Ok j' ->
  active (j_tasks j') + N.of_nat (length ids) = active (j_tasks j) /\ jsorted (j_tasks j').
Proof.
  intros Ht. induction ids as [|x r IH]; cbn [mark_tasks length]; intros j j' Hs H.
  - inversion H; subst. split; [lia | exact Hs].
  - destruct (negb (N.eqb (fst x) (j_id j))); [discriminate|].
    destruct (jt_find (j_tasks j) (snd x)) as [v|] eqn:Ef; [|discriminate].
    pose proof (fun v => cnt_set_some _ _ _ target v Hs Ef) as HC.
    assert (Hs' : jsorted (j_tasks (job_set_task j (snd x) target))) by (cbn; apply jt_set_sorted; exact Hs).
    destruct v; try discriminate.
    + destruct (IH _ _ Hs' H) as [IA IS]. split; [|exact IS].
      unfold active in *. cbn in IA. pose proof (HC JW) as H1. pose proof (HC JR) as H2.
      destruct Ht; subst target; cbn [jst_eqb] in *; lia.
    + apply bind_ok in H. destruct H as (nr & _ & H).
      match type of H with mark_tasks ?jj _ _ _ = _ => assert (Hs'' : jsorted (j_tasks jj)) by (cbn; apply jt_set_sorted; exact Hs) end.
      destruct (IH _ _ Hs'' H) as [IA IS]. split; [|exact IS].
      unfold active in *. cbn in IA. pose proof (HC JW) as H1. pose proof (HC JR) as H2.
      destruct Ht; subst target; cbn [jst_eqb] in *; lia.
Qed.

Lemma check_termination_find s jid s' :
  check_termination s jid = Ok s' ->
  forall id j, find_job (h_jobs (hq_of s)) id = Some j ->
  exists j', find_job (h_jobs (hq_of s')) id = Some j' /\ j_tasks j' = j_tasks j.
Proof.
  unfold check_termination. intros H id j Hj. inv_binds H.
  match goal with X : hq_get_job _ _ _ = Ok ?j0 |- _ => pose proof (hq_get_find _ _ _ _ X) as Hf end.
  repeat match type of H with (if ?b then _ else _) = _ => destruct b end; inversion H; subst; eauto.
  rewrite emit_hq. unfold hq_of, hq_set_job. cbn. rewrite find_job_set. cbn.
  destruct (N.eqb id (j_id a)) eqn:Eid.
  - apply N.eqb_eq in Eid. subst id. unfold hq_of in *. rewrite Hf in Hj. inversion Hj; subst. eauto.
  - eauto.
Qed.

(** After [abort_tasks] / [set_cancel_state] with the list of ALL non-terminal tasks of the job,
    the job has no task without outcome. *)
Lemma mark_all_none s jid s' (f : st -> N -> list tid -> res st) target site :
  (target = JC \/ target = JA) ->
  (forall s jid ids, f s jid ids =
     match ids with
     | [] => Ok s
     | _ => do j <- hq_get_job s jid 207;
            do j1 <- mark_tasks j ids target site;
            check_termination (if jst_eqb target JA
                               then emit (hq_set_job s (job_upd j1 (j_tasks j1) (j_nrun j1) (j_nfin j1) (j_nfail j1) (j_ncanc j1) (j_nabort j1 + N.of_nat (length ids)) (j_completed j1))) (OEv (EvAborted ids))
                               else emit (emit (hq_set_job s (job_upd j1 (j_tasks j1) (j_nrun j1) (j_nfin j1) (j_nfail j1) (j_ncanc j1 + N.of_nat (length ids)) (j_nabort j1) (j_completed j1))) (OEv (EvJobCancel jid))) (OEv (EvCanceled ids))) jid
     end) ->
  HOK (hq_of s) ->
  forall j, find_job (h_jobs (hq_of s)) jid = Some j ->
  f s jid (non_finished_task_ids j) = Ok s' ->
  exists j', find_job (h_jobs (hq_of s')) jid = Some j' /\ active (j_tasks j') = 0.
Proof.
  intros Ht Hf H j Hj Hc. rewrite Hf in Hc.
  destruct (non_finished_task_ids j) eqn:En.
  - inversion Hc; subst. exists j. split; [exact Hj|]. rewrite <- non_finished_length, En. reflexivity.
  - rewrite <- En in Hc. clear Hf.
    apply bind_ok in Hc. destruct Hc as (j0 & Hg & Hc).
    assert (j0 = j) by (unfold hq_get_job, hq_of in *; rewrite Hj in Hg; inversion Hg; reflexivity). subst j0.
    apply bind_ok in Hc. destruct Hc as (j1 & Hm & Hc).
    destruct (mark_tasks_active _ _ _ Ht _ _ (jok_sorted _ (H _ (find_job_in _ _ _ Hj))) Hm) as [HA _].
    rewrite non_finished_length in HA.
    assert (Hid1 : j_id j1 = jid).
    { destruct (mark_tasks_jpres _ _ _ _ _ Hm) as [Hid _]. rewrite Hid. eapply find_job_id; exact Hj. }
    (* the state handed to check_termination holds j1's tasks under id jid *)
    match type of Hc with check_termination ?sx _ = _ =>
      assert (Hfx : exists jx, find_job (h_jobs (hq_of sx)) jid = Some jx /\ j_tasks jx = j_tasks j1) end.
    { destruct (jst_eqb target JA); rewrite ?emit_hq; unfold hq_of, hq_set_job; cbn; rewrite find_job_set; cbn;
        rewrite Hid1, N.eqb_refl; eexists; split; reflexivity. }
    destruct Hfx as (jx & Hjx & Htx).
    destruct (check_termination_find _ _ _ Hc _ _ Hjx) as (j' & Hj' & Hty).
    exists j'. split; [exact Hj'|]. rewrite Hty, Htx. lia.
Qed.

Lemma abort_tasks_unfold s jid ids :
  abort_tasks s jid ids =
  match ids with
  | [] => Ok s
  | _ => do j <- hq_get_job s jid 207;
         do j1 <- mark_tasks j ids JA 206;
         check_termination (emit (hq_set_job s (job_upd j1 (j_tasks j1) (j_nrun j1) (j_nfin j1) (j_nfail j1) (j_ncanc j1) (j_nabort j1 + N.of_nat (length ids)) (j_completed j1))) (OEv (EvAborted ids))) jid
  end.
Proof. unfold abort_tasks. destruct ids; reflexivity. Qed.

(** C14: when the failure limit is exceeded, every task of the job that had no outcome is aborted:
    afterwards the job has no waiting or running task. *)
Theorem exceed_aborts_all s t aborted k s' ids :
  HOK (hq_of s) -> process_task_failed s t aborted k = Ok (s', ids) -> ids <> [] ->
  exists j', find_job (h_jobs (hq_of s')) (fst t) = Some j' /\ active (j_tasks j') = 0.
Proof.
  intros H Hc Hne. unfold process_task_failed in Hc.
  apply bind_ok in Hc. destruct Hc as (s1 & H1 & Hc).
  pose proof (abort_tasks_ok _ _ _ _ H H1) as Hk1.
  apply bind_ok in Hc. destruct Hc as (j & Hj & Hc).
  apply bind_ok in Hc. destruct Hc as (j1 & Hj1 & Hc).
  apply bind_ok in Hc. destruct Hc as (s2 & H2 & Hc).
  assert (Hk2 : HOK (hq_of s2)).
  { eapply check_termination_ok; [|exact H2]. rewrite emit_hq. apply hq_set_job_ok; [exact Hk1|].
    pose proof (hq_get_job_ok _ _ _ _ Hk1 Hj) as Hjk.
    destruct (jt_find (j_tasks j) (snd t)) as [v|] eqn:Ef; [|discriminate].
    destruct Hjk as [Ss R F X C A Cm].
    pose proof (fun v => cnt_set_some _ _ _ JX v Ss Ef) as HC.
    destruct v; try discriminate.
    - inversion Hj1; subst. constructor; cbn; auto using jt_set_sorted;
        try (match goal with |- _ = cnt _ ?v => specialize (HC v); cbn [jst_eqb] in HC; lia end).
      intros Hcm. destruct (Cm Hcm) as (_ & Hw & _). pose proof (HC JW) as Hx. cbn [jst_eqb] in Hx. lia.
    - apply bind_ok in Hj1. destruct Hj1 as (nr & Hnr & Hj1). unfold csub in Hnr.
      destruct (N.ltb (j_nrun j) 1) eqn:El; [discriminate|]. inversion Hnr; subst. inversion Hj1; subst.
      constructor; cbn; auto using jt_set_sorted;
        try (match goal with |- _ = cnt _ ?v => specialize (HC v); cbn [jst_eqb] in HC; lia end).
      intros Hcm. destruct (Cm Hcm) as (_ & _ & Hr). pose proof (HC JR) as Hx. cbn [jst_eqb] in Hx. lia. }
  apply bind_ok in Hc. destruct Hc as (j2 & Hj2 & Hc).
  destruct (j_maxfails j2) as [mf|]; [|inversion Hc; subst; contradiction].
  destruct (N.ltb mf (j_nfail j2)); [|inversion Hc; subst; contradiction].
  apply bind_ok in Hc. destruct Hc as (s3 & H3 & Hc). inversion Hc; subst.
  pose proof (hq_get_find _ _ _ _ Hj2) as Hf2.
  assert (Hid2 : j_id j2 = fst t).
  { unfold hq_get_job in Hj2. destruct (find_job _ (fst t)) eqn:E; [|discriminate]. inversion Hj2; subst. eapply find_job_id; exact E. }
  rewrite Hid2 in Hf2.
  eapply (mark_all_none s2 (fst t) s' abort_tasks JA 206); [right; reflexivity | | exact Hk2 | exact Hf2 | exact H3].
  intros sx jx idsx. rewrite abort_tasks_unfold. cbn [jst_eqb]. reflexivity.
Qed.

Lemma set_cancel_state_unfold s jid ids :
  set_cancel_state s jid ids =
  match ids with
  | [] => Ok s
  | _ => do j <- hq_get_job s jid 207;
         do j1 <- mark_tasks j ids JC 205;
         check_termination (emit (emit (hq_set_job s (job_upd j1 (j_tasks j1) (j_nrun j1) (j_nfin j1) (j_nfail j1) (j_ncanc j1 + N.of_nat (length ids)) (j_nabort j1) (j_completed j1))) (OEv (EvJobCancel jid))) (OEv (EvCanceled ids))) jid
  end.
Proof. unfold set_cancel_state. destruct ids; reflexivity. Qed.

(** C08: once the cancel of a job is answered, no task of the job is left without outcome. *)
Theorem cancel_leaves_none s jid j s' :
  HOK (hq_of s) -> find_job (hq_jobs s) jid = Some j -> handle_cancel s jid = Ok s' ->
  exists j', find_job (h_jobs (hq_of s')) jid = Some j' /\ active (j_tasks j') = 0.
Proof.
  intros H Hj Hc. unfold handle_cancel in Hc. rewrite Hj in Hc.
  destruct (non_finished_task_ids j) eqn:En.
  - inversion Hc; subst. rewrite emit_hq. exists j. split; [exact Hj|]. rewrite <- non_finished_length, En. reflexivity.
  - rewrite <- En in Hc.
    apply bind_ok in Hc. destruct Hc as (s1 & H1 & Hc).
    apply bind_ok in Hc. destruct Hc as (al & _ & Hc).
    apply bind_ok in Hc. destruct Hc as (s2 & H2 & Hc). inversion Hc; subst. rewrite emit_hq.
    pose proof (on_cancel_tasks_hq _ _ _ H1) as E1.
    eapply (mark_all_none s1 jid s2 set_cancel_state JC 205); [left; reflexivity | | rewrite E1; exact H | rewrite E1; exact Hj | exact H2].
    intros sx jx idsx. rewrite set_cancel_state_unfold. cbn [jst_eqb]. reflexivity.
Qed.
