(** The global transition system of the cluster model: one [step] per harness operation. *)
From HQ Require Import Base.Prelude Cluster.Types Cluster.Core Cluster.Reactor Cluster.Worker Cluster.Server.
From Coq Require Import ZArith.
Local Open Scope N_scope.

Inductive op :=
| OpConnect (rs : list N) (group : N)
| OpLost (w reason : N) (a_order p_order t_order : list tid)
| OpSubmit (job : option N) (ids : list N) (entries : option N) (rq : rqdef) (prio : Z)
           (cl : crashlimit) (tlim : bool) (maxfails : option N)
| OpSubmitG (job : option N) (rqs : list rqdef) (ts : list gtask) (maxfails : option N)
| OpOpen (maxfails : option N)
| OpClose (j : N)
| OpCancel (j : N)
| OpForget (j : N)
| OpDDown (w : wid) (rq_order : list N)
| OpDUp (w : wid)
| OpSched (sol : solution)
| OpEnd (w : wid) (t : tid) (how : endkind)
| OpFailNext (w : wid) (t : tid)
| OpTimer
| OpPrune.

(** [handle_submit] (after fix F27): a task graph naming a resource request it does not define is
    refused with an error before anything else is looked at; the first such task is reported. *)
Fixpoint bad_graph_rq (n_rqs : nat) (ts : list gtask) : option N :=
  match ts with
  | [] => None
  | g :: r => if N.ltb (gt_rq g) (N.of_nat n_rqs) then bad_graph_rq n_rqs r else Some (gt_id g)
  end.

(** [handle_submit] (after fix F26): a task array whose explicit ids do not match its entries in number
    is refused. *)
Definition bad_submit_lengths (ids : list N) (entries : option N) : bool :=
  match ids, entries with
  | _ :: _, Some n => negb (N.eqb (N.of_nat (length ids)) n)
  | _, _ => false
  end.

(** [validate_submit] (after fix F12): a graph submitted into an existing job is refused when a task
    names a dependency on a task of the job that has already failed, been cancelled or aborted
    (first loop of the Graph arm: tasks in order, dependencies in order). *)
Definition js_dead (v : jstate) : bool := match v with JX | JC | JA => true | _ => false end.
Fixpoint dead_dep_in (jt : list (N * jstate)) (ts : list gtask) : option N :=
  match ts with
  | [] => None
  | g :: r =>
      match find (fun d => match jt_find jt d with Some v => js_dead v | None => false end) (gt_deps g) with
      | Some d => Some d
      | None => dead_dep_in jt r
      end
  end.
Definition dead_dep (s : sys) (job : option N) (ts : list gtask) : option N :=
  match job with
  | Some j => match find_job (h_jobs (s_hq s)) j with Some jb => dead_dep_in (j_tasks jb) ts | None => None end
  | None => None
  end.

Definition init_sys (reserve maxfill : N) : sys :=
  mkSys (mkCore [] [] [] [] [] false 0 reserve maxfill) (mkHq [] 1) [].

Definition step (s : sys) (o : op) : res (sys * list out) :=
  let s0 : st := (s, []) in
  match o with
  | OpConnect rs group => on_new_worker s0 rs group
  | OpLost w reason a p t =>
      match find_proc (s_procs s) w with
      | None => Disabled
      | Some _ => on_remove_worker s0 w reason a p t
      end
  | OpSubmit job ids entries rq prio cl tlim mf =>
      if bad_submit_lengths ids entries then Ok (s, [OResp (RSubmitErr 6 0)])
      else handle_submit_array s0 job ids entries rq prio cl tlim mf
  | OpSubmitG job rqs ts mf =>
      match bad_graph_rq (length rqs) ts with
      | Some id => Ok (s, [OResp (RSubmitErr 5 id)])
      | None =>
          match dead_dep s job ts with
          | Some d => Ok (s, [OResp (RSubmitErr 4 d)])
          | None => handle_submit_graph s0 job rqs ts mf
          end
      end
  | OpOpen mf => handle_open s0 mf
  | OpClose j => handle_close s0 j
  | OpCancel j => handle_cancel s0 j
  | OpForget j => handle_forget s0 j
  | OpDDown w rq_order =>
      match find_proc (s_procs s) w with
      | None => Disabled
      | Some p =>
          match p_down p with
          | [] => Disabled
          | m :: rest =>
              do (p', ls) <- process_worker_message (wp_down p rest) m rq_order;
              Ok (with_procs s (set_proc (s_procs s) p'), ODown w m :: map OLaunch ls)
          end
      end
  | OpDUp w =>
      match find_proc (s_procs s) w with
      | None => Disabled
      | Some p =>
          match p_up p with
          | [] => Disabled
          | m :: rest =>
              let s1 : st := (with_procs s (set_proc (s_procs s) (wp_up p rest)), [OUp w m]) in
              match m with
              | UUpdates us => on_task_update s1 w us
              | URetractResponse ids => on_retract_response s1 w ids
              end
          end
      end
  | OpSched sol => if c_flag (s_core s) then run_scheduling s0 sol else Disabled
  | OpEnd w t how =>
      match find_proc (s_procs s) w with
      | None => Disabled
      | Some p =>
          do (p', ls) <- task_end p t how;
          Ok (with_procs s (set_proc (s_procs s) p'), map OLaunch ls)
      end
  | OpFailNext w t =>
      match find_proc (s_procs s) w with
      | None => Disabled
      | Some p => Ok (with_procs s (set_proc (s_procs s) (wp_failnext p (p_failnext p ++ [t]))), [])
      end
  | OpTimer =>
      Ok (with_procs s (map (fun p => fold_left timer_fire (p_timers p) p) (s_procs s)), [])
  | OpPrune =>
      do lj <- live_jobs (h_jobs (s_hq s));
      Ok (s, [OPrune lj (map p_id (s_procs s))])
  end.

(** Run a whole history; a panic or a disabled operation ends it. *)
Fixpoint run (s : sys) (ops : list op) : res (sys * list out) :=
  match ops with
  | [] => Ok (s, [])
  | o :: r =>
      do (s1, o1) <- step s o;
      do (s2, o2) <- run s1 r;
      Ok (s2, o1 ++ o2)
  end.
