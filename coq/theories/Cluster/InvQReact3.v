(** The queue invariant, part 7: [task_failed] (which cancels the rest of the job when the
    max-fails limit is reached: here the bijection with the job layer is needed to know that every
    removed task was dequeued) and [on_task_update]. *)
From HQ Require Import Base.Prelude Cluster.Types Cluster.Core Cluster.Reactor Cluster.Worker Cluster.Server Cluster.Sys Cluster.Monitors Cluster.ProofsJob Cluster.ProofsMore Cluster.ProofsTerminal Cluster.ProofsStep Cluster.BijBase Cluster.BijCore Cluster.BijHq Cluster.BijSt Cluster.BijReact Cluster.FrameGen Cluster.CrashFrame Cluster.InvQBase Cluster.InvQTake Cluster.InvQInv Cluster.InvQOps Cluster.InvQReact Cluster.InvQReact2.
From Coq Require Import ZArith Lia Sorting.Sorted.
Local Open Scope N_scope.

Arguments N.add : simpl never.
Arguments N.sub : simpl never.

Lemma task_failed_QI s w id k s' :
  HOK (hq_of s) -> CB s -> QI none [] (core_of s) -> task_failed s w id k = Ok s' -> QI none [] (core_of s').
Proof.
  intros Hok HC V H. unfold task_failed in H.
  destruct (find_task (c_tasks (core_of s)) id) as [t|] eqn:Ef; [|inversion H; subst; exact V].
  destruct (find_task_some _ _ _ Ef) as [Hin Hid0]. pose proof Hid0 as Hid. apply tid_eqb_eq in Hid.
  apply bind_ok in H. destruct H as (rq & _ & H). apply bind_ok in H. destruct H as (c1 & H1 & H).
  (* the released state *)
  assert (X1 : exists ex1, lax ex1 /\ QI ex1 [] c1 /\ c_tasks c1 = c_tasks (core_of s) /\
                 (is_waiting t = true \/ ex1 id = Some Nowhere) /\ (forall x, x <> id -> ex1 x = None)).
  { assert (Hmark : forall c0, qsame (core_of s) c0 -> nat_place (c_redirects (core_of s)) id (t_state t) = Nowhere -> (forall w0, t_state t <> Retracting w0) ->
              exists ex1, lax ex1 /\ QI ex1 [] c0 /\ c_tasks c0 = c_tasks (core_of s) /\
                 (is_waiting t = true \/ ex1 id = Some Nowhere) /\ (forall x, x <> id -> ex1 x = None)).
    { intros c0 Hs Hn Hnr. exists (exU none id Nowhere). split; [apply lax_exU, lax_none|].
      split; [apply (QI_same _ _ _ _ Hs); eapply QI_mark_nowhere; eassumption|].
      split; [apply Hs | split; [right; apply exU_same | intros x Hne; apply exU_other; exact Hne]]. }
    assert (Hwait : forall c0, qsame (core_of s) c0 -> is_waiting t = true ->
              exists ex1, lax ex1 /\ QI ex1 [] c0 /\ c_tasks c0 = c_tasks (core_of s) /\
                 (is_waiting t = true \/ ex1 id = Some Nowhere) /\ (forall x, x <> id -> ex1 x = None)).
    { intros c0 Hs Hw. exists none. split; [apply lax_none | split; [apply (QI_same _ _ _ _ Hs); exact V | split; [apply Hs | split; [left; exact Hw | reflexivity]]]]. }
    assert (Hrel : forall c0, QI (exU none id Nowhere) [] c0 -> c_tasks c0 = c_tasks (core_of s) ->
              exists ex1, lax ex1 /\ QI ex1 [] c0 /\ c_tasks c0 = c_tasks (core_of s) /\
                 (is_waiting t = true \/ ex1 id = Some Nowhere) /\ (forall x, x <> id -> ex1 x = None)).
    { intros c0 V0 T0. exists (exU none id Nowhere). split; [apply lax_exU, lax_none | split; [exact V0 | split; [exact T0 | split; [right; apply exU_same | intros x Hne; apply exU_other; exact Hne]]]]. }
    destruct w as [wkr|].
    - destruct (rq_is_mn rq).
      + destruct (t_state t) eqn:Est; try discriminate. destruct ws as [|w0 ws]; [discriminate|].
        destruct (N.eqb w0 wkr); [|discriminate].
        apply Hmark; [eapply reset_mn_workers_qsame; exact H1 | reflexivity | intros w1; discriminate].
      + destruct (t_state t) as [n|w1 rv1|w1|w1|w1 rv1|ws|] eqn:Est.
        * inversion H1; subst c1. apply Hwait; [apply qsame_refl | unfold is_waiting; rewrite Est; reflexivity].
        * destruct (negb (N.eqb wkr w1)); [discriminate|]. inv_binds H1. inversion H1; subst c1.
          apply Hmark; [repeat split | reflexivity | intros w0; discriminate].
        * destruct (negb (N.eqb wkr w1)); [discriminate|].
          apply bind_ok in H1. destruct H1 as (q & Hq & H1). apply bind_ok in H1. destruct H1 as (q' & Hq' & H1).
          apply bind_ok in H1. destruct H1 as (wk & _ & H1). apply bind_ok in H1. destruct H1 as (wk' & _ & H1). inversion H1; subst c1.
          apply Hrel; [|reflexivity]. apply nth_queue_ok in Hq. unfold QI. cbn [c_tasks c_queues c_redirects c_rqs upd_worker with_workers with_queues].
          eapply QV_q_remove_prefilled; [exact V | exact Ef | exact Hq | exact Hq'|].
          eapply QV_no_redirect; [exact V | exact Ef | intros w0; congruence].
        * destruct (negb (N.eqb wkr w1)); [discriminate|].
          destruct (trr_QI _ _ _ _ _ _ _ V Ef Est H1) as (V1 & T1 & _ & _). apply Hrel; assumption.
        * destruct (negb (N.eqb wkr w1)); [discriminate|]. inv_binds H1. inversion H1; subst c1.
          apply Hmark; [repeat split | reflexivity | intros w0; discriminate].
        * inversion H1; subst c1. apply Hmark; [apply qsame_refl | reflexivity | intros w0; discriminate].
        * exfalso. exact (qv_fin _ _ _ _ _ _ V _ _ Ef Est).
    - destruct (is_waiting t) eqn:Ew; [|discriminate]. inversion H1; subst c1. apply Hwait; [apply qsame_refl | reflexivity]. }
  destruct X1 as (ex1 & Hlax & V1 & Et & Hrelid & Hex1).
  assert (Ek : keys c1 = K s) by (unfold K, keys; rewrite Et; reflexivity).
  assert (Hs1 : CS c1) by (eapply CS_keys; [exact Ek | exact (cb_s _ HC)]).
  apply bind_ok in H. destruct H as (csm & Hcs & H).
  apply bind_ok in H. destruct H as (c2 & H2 & H).
  destruct (remove_waiting_consumers_shrinks _ _ _ Hs1 H2) as [Sh2 _].
  apply bind_ok in H. destruct H as ([c3 stt] & H3 & H).
  destruct (remove_task_shrinks _ _ _ _ (shr_sorted _ _ _ Sh2) H3) as [Sh3 _].
  apply bind_ok in H. destruct H as (u & _ & H).
  apply bind_ok in H. destruct H as ([s1 cancel_ids] & H4 & H).
  pose proof (shrinks_trans _ _ _ _ _ Sh2 Sh3) as Sh23. rewrite Ek in Sh23.
  destruct (process_task_failed_active (st_core s c3) id csm k s1 cancel_ids Hok H4) as (C4 & A4 & J4 & N4).
  unfold core_same in C4. cbn [core_of st_core with_core s_core fst] in C4.
  (* the invariant through the removals *)
  destruct (remove_waiting_consumers_QI _ _ _ _ _ Hlax V1 H2) as (V2 & S2 & N2 & _ & G2).
  assert (Hpre : forall t2, find_task (c_tasks c2) id = Some t2 -> is_waiting t2 = true \/
            (exp_place ex1 (c_redirects c2) id (t_state t2) = Nowhere /\ find_redirect (c_redirects c2) id = None)).
  { intros t2 Ht2. eapply nowhere_pre; [exact V2 | exact Ht2|].
    destruct (S2 _ _ Ht2) as (t0 & Ht0 & Hst). rewrite Et, Ef in Ht0. inversion Ht0; subst t0.
    destruct Hrelid as [Hw|Hn]; [left; unfold is_waiting in *; rewrite <- Hst; exact Hw | right; exact Hn]. }
  destruct (remove_task_QI ex1 [] [] _ _ _ _ Hlax V2 H3 Hpre) as (V3 & S3 & G3 & N3 & _); [auto|].
  assert (V3' : QI none [] (core_of s1)).
  { rewrite C4. unfold QI in *. eapply QV_ext; [exact V3|]. intros x t0 Hx. symmetry. apply Hex1. intros ->. congruence. }
  destruct cancel_ids as [|c0 cr] eqn:Ecid; [inversion H; subst; exact V3'|].
  rewrite <- Ecid in *. assert (Hne : cancel_ids <> []) by (rewrite Ecid; discriminate). clear Ecid.
  assert (Ks1 : K s1 = keys c3) by (unfold K; rewrite C4; reflexivity).
  assert (Hd3 : KD (K s1)) by (rewrite Ks1; eapply shrinks_KD; [exact Sh23 | exact (cb_d _ HC)]).
  eapply on_cancel_tasks_QI; [exact V3' | exact Hd3 | | exact H].
  intros x t0 y Hx Hy Hf. left. rewrite C4 in Hx.
  apply N4; [exact Hne | rewrite Hf; apply J4; exact Hy | | | ].
  - rewrite (active_same s (st_core s c3)) by (intros; reflexivity). apply (cb_b _ HC). apply find_task_present.
    destruct (S3 _ _ Hx) as (t1 & Hx1 & _). destruct (S2 _ _ Hx1) as (t2 & Hx2 & _). rewrite Et in Hx2. eauto.
  - intros Hc. rewrite (N3 _ (G2 _ Hc)) in Hx. discriminate.
  - intros ->. congruence.
Qed.

(** * [on_task_update] *)
Lemma apply_updates_QI us : forall s w need s' need',
  HOK (hq_of s) -> CB s -> QI none [] (core_of s) -> apply_updates s w us need = Ok (s', need') -> QI none [] (core_of s').
Proof.
  induction us as [|u r IH]; intros s w need s' need' Hok HC V H; [cbn in H; inversion H; subst; exact V|].
  pose proof H as H0. cbn [apply_updates] in H. apply bind_ok in H. destruct H as ([s1 n1] & Hu & H).
  assert (H1 : apply_updates s w [u] need = Ok (s1, need || n1)).
  { cbn [apply_updates]. rewrite Hu. reflexivity. }
  pose proof (apply_updates_ok _ _ _ _ _ _ Hok H1) as Hok1.
  pose proof (apply_updates_CB _ _ _ _ _ _ Hok HC H1) as HC1.
  eapply IH; [exact Hok1 | exact HC1 | | exact H].
  destruct u.
  - eapply (task_finished_QI s); eassumption.
  - apply bind_ok in Hu. destruct Hu as (sx & Hf & Hu). inversion Hu; subst. eapply (task_failed_QI s); eassumption.
  - eapply (task_running_QI s); eassumption.
  - eapply (task_running_QI s); eassumption.
  - eapply (task_reject_QI s); eassumption.
  - apply bind_ok in Hu. destruct Hu as (sx & Hf & Hu). inversion Hu; subst. eapply (request_enabled_QI s); eassumption.
Qed.

Lemma on_task_update_QI s w us s' :
  HOK (hq_of s) -> CB s -> QI none [] (core_of s) -> on_task_update s w us = Ok s' -> QI none [] (core_of s').
Proof.
  intros Hok HC V H. unfold on_task_update in H. apply bind_ok in H. destruct H as ([s1 need] & Hu & H).
  pose proof (apply_updates_QI _ _ _ _ _ _ Hok HC V Hu) as V1.
  destruct (need && _); inversion H; subst; exact V1.
Qed.
