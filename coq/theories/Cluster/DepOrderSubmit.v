(** C03 across a restart, part 4: submits.

    A submit emits no terminal event; what matters is which dependency edges the core keeps for
    the new tasks.  [register_deps] keeps exactly the dependencies that are in the core at that
    moment (a finished or dead dependency is dropped - for a dead one this is finding F12).
    Here: (i) the tasks already in the core keep their dependency lists ([submit_*_fwd]); (ii) a
    new task keeps every raw dependency that is in the core before the submit or is an EARLIER
    task of the same submit ([add_new_tasks_kept]); (iii) what the validation of a task graph
    guarantees about raw dependencies ([validate_graph_ok]); (iv) the accepted graph submit,
    put together ([submit_graph_edges]): every raw dependency of a new task is dead already (its
    job state is terminal) or is an edge the core keeps. *)
From HQ Require Import Base.Prelude Cluster.Types Cluster.Core Cluster.Reactor Cluster.Worker Cluster.Server Cluster.Sys Cluster.Monitors Cluster.ProofsJob Cluster.ProofsMore Cluster.ProofsTerminal Cluster.ProofsStep Cluster.ProofsFinal Cluster.BijBase Cluster.BijCore Cluster.BijHq Cluster.BijSt Cluster.BijReact Cluster.BijFinal Cluster.FrameGen Cluster.CrashFrame Cluster.ProofsOnce Cluster.StartFinBase Cluster.InvDBase Cluster.InvDMap Cluster.InvDSpec Cluster.InvDRem Cluster.InvDReact Cluster.InvDNew Cluster.InvDHq Cluster.InvDStep Cluster.DepOrderBase Cluster.DepOrderReact.
From Coq Require Import ZArith Lia Sorting.Sorted.
Local Open Scope N_scope.

Arguments N.add : simpl never.
Arguments N.sub : simpl never.

(** * Lists *)
Lemma dedup_sorted_in l : forall acc j d0, In d0 l \/ In (j, d0) acc -> In (j, d0) (dedup_sorted l acc j).
Proof.
  induction l as [|h t IH]; cbn [dedup_sorted]; intros acc j d0 H; [destruct H as [[]|H]; exact H|].
  apply IH. destruct H as [[->|H]|H]; [right; apply tid_insert_new | left; exact H | right; apply tid_insert_old; exact H].
Qed.

(** What [validate_graph] accepts: a dependency is never the task itself; it is an earlier task
    of the same submit, or a task the job already has. *)
Lemma validate_graph_ok jtasks ts : forall seen,
  validate_graph jtasks seen ts = None ->
  forall pre g post d0, ts = pre ++ g :: post -> In d0 (gt_deps g) ->
    d0 <> gt_id g /\ (In d0 seen \/ In d0 (map gt_id pre) \/ jt_find jtasks d0 <> None).
Proof.
  induction ts as [|g0 r IH]; intros seen H pre g post d0 E Hd; [destruct pre; discriminate|].
  cbn [validate_graph] in H. destruct (n_mem (gt_id g0) seen); [discriminate|].
  match type of H with (match find ?f ?l with _ => _ end) = _ => destruct (find f l) eqn:Ef; [discriminate|] end.
  destruct pre as [|p pre'].
  - cbn [app] in E. inversion E; subst g0 post. pose proof (find_none _ _ Ef d0 Hd) as Hf. cbn beta in Hf.
    apply orb_false_iff in Hf. destruct Hf as [H1 H2]. apply N.eqb_neq in H1. split; [exact H1|].
    apply andb_false_iff in H2. destruct H2 as [H2|H2].
    + apply negb_false_iff in H2. cbn [n_mem] in H2. apply orb_true_iff in H2. destruct H2 as [H2|H2]; [apply N.eqb_eq in H2; contradiction|].
      left. apply n_mem_in. exact H2.
    + right. right. destruct (jt_find jtasks d0); [discriminate | discriminate].
  - cbn [app] in E. inversion E; subst p r.
    destruct (IH _ H pre' g post d0 eq_refl Hd) as [A B]. split; [exact A|].
    destruct B as [B|[B|B]]; [|right; left; right; exact B | right; right; exact B].
    destruct B as [<-|B]; [right; left; left; reflexivity | left; exact B].
Qed.

Lemma graph_tasks_nth jid rqis pre : forall g post tasks,
  graph_tasks jid rqis (pre ++ g :: post) = Ok tasks ->
  exists tpre t tpost, tasks = tpre ++ t :: tpost /\ t_id t = (jid, gt_id g) /\
    t_deps t = dedup_sorted (gt_deps g) [] jid /\ map t_id tpre = map (fun g0 => (jid, gt_id g0)) pre.
Proof.
  induction pre as [|p pre' IH]; cbn [app graph_tasks]; intros g post tasks H.
  - destruct (nth_error rqis (N.to_nat (gt_rq g))) as [rqi|]; [|discriminate].
    apply bind_ok in H. destruct H as (rest & _ & H). inversion H; subst.
    eexists [], _, rest. split; [reflexivity|]. split; [reflexivity|]. split; reflexivity.
  - destruct (nth_error rqis (N.to_nat (gt_rq p))) as [rqi|]; [|discriminate].
    apply bind_ok in H. destruct H as (rest & Hr & H). inversion H; subst.
    destruct (IH _ _ _ Hr) as (tpre & t & tpost & E & I1 & I2 & I3).
    eexists (_ :: tpre), t, tpost. split; [rewrite E; reflexivity|]. split; [exact I1|]. split; [exact I2|].
    cbn [map]. rewrite I3. reflexivity.
Qed.

(** * [add_new_tasks], one task at a time *)
Lemma add_new_tasks_cons c t r ret c' ret' :
  add_new_tasks c (t :: r) ret = Ok (c', ret') ->
  exists c3 ret3, add_new_tasks c [t] ret = Ok (c3, ret3) /\ add_new_tasks c3 r ret3 = Ok (c', ret').
Proof.
  cbn [add_new_tasks]. intros H.
  destruct (register_deps c (t_id t) (t_deps t) [] 0) as [[c1 kept] count].
  apply bind_ok in H. destruct H as ([c2 rt] & H2 & H). rewrite H2. cbn [bind].
  destruct (find_task (c_tasks c2) (t_id t)); [discriminate|].
  eexists _, _. split; [reflexivity | exact H].
Qed.

Lemma add_one_kept c t ret c3 ret3 :
  GD c -> NoDup (t_deps t) -> add_new_tasks c [t] ret = Ok (c3, ret3) ->
  exists t1, fm c3 (t_id t) = Some t1 /\ (forall d, In d (t_deps t) -> inm (fm c) d = true -> In d (t_deps t1)).
Proof.
  intros [Hs D] Hnd H. cbn [add_new_tasks] in H.
  destruct (register_deps c (t_id t) (t_deps t) [] 0) as [[c1 kept] count] eqn:Er.
  destruct (register_deps_fm _ _ _ _ _ _ _ _ Hnd (fun x tx => dx_nofin _ _ D x tx) Er) as (_ & _ & K1 & _).
  cbn [app] in K1.
  apply bind_ok in H. destruct H as ([c2 rt] & H2 & H).
  destruct (find_task (c_tasks c2) (t_id t)); [discriminate|]. inversion H; subst c3 ret3.
  eexists. split.
  - rewrite fm_upd. unfold mupd. cbn [t_id with_state with_deps]. rewrite tid_eqb_refl'. reflexivity.
  - intros d Hd Hi. cbn [t_deps with_state with_deps]. rewrite K1. apply filter_In. split; assumption.
Qed.

(** Old tasks keep their dependency lists when new ones are added. *)
Lemma grown_fwd ts c c' :
  grown ts (fm c) (fm c') -> (forall t, In t ts -> fm c (t_id t) = None) ->
  (forall x, inm (fm c) x = true -> inm (fm c') x = true) ->
  forall x tx, fm c x = Some tx -> exists tx', fm c' x = Some tx' /\ t_deps tx' = t_deps tx.
Proof.
  intros Gr Hfr Hmono x tx Ex.
  assert (Hi : inm (fm c') x = true) by (apply Hmono; apply inm_true; eauto).
  apply inm_true in Hi. destruct Hi as (tx' & Ex'). exists tx'. split; [exact Ex'|].
  destruct (Gr _ _ Ex') as [(t0 & E0 & Ed)|(t & Hin & -> & _)].
  - rewrite Ex in E0. inversion E0; subst t0. exact Ed.
  - rewrite (Hfr _ Hin) in Ex. discriminate.
Qed.

(** How a submit changes the edges: the old tasks keep their dependency lists; a task of the new map
    is an old one, or all the dependencies it keeps are in the new map. *)
Definition egrow (m m' : tmap) : Prop :=
  (forall x tx, m x = Some tx -> exists tx', m' x = Some tx' /\ t_deps tx' = t_deps tx) /\
  (forall x tx', m' x = Some tx' ->
     (exists tx, m x = Some tx /\ t_deps tx' = t_deps tx) \/ (forall d, In d (t_deps tx') -> m' d <> None)).

Lemma egrow_refl m : egrow m m.
Proof. split; [intros x tx Ex; eauto | intros x tx' Ex; left; eauto]. Qed.

Lemma egrow_tasks c c' : c_tasks c' = c_tasks c -> egrow (fm c) (fm c').
Proof. intros E. unfold fm. rewrite E. apply egrow_refl. Qed.

Definition nodep_on (ts : list task) (c : core) : Prop :=
  forall t x tx, In t ts -> fm c x = Some tx -> ~ In (t_id t) (t_deps tx).

Lemma add_new_tasks_kept ts : forall c ret c' ret',
  GD c -> Forall new_wf ts -> nodep_on ts c ->
  add_new_tasks c ts ret = Ok (c', ret') ->
  forall pre t post, ts = pre ++ t :: post ->
    exists tx', fm c' (t_id t) = Some tx' /\
      forall d, In d (t_deps t) -> (inm (fm c) d = true \/ In d (map t_id pre)) -> In d (t_deps tx').
Proof.
  induction ts as [|t0 r IH]; intros c ret c' ret' G Hwf Hnd H pre t post E; [destruct pre; discriminate|].
  destruct (add_new_tasks_cons _ _ _ _ _ _ H) as (c3 & ret3 & H0 & Hr).
  inversion Hwf as [|? ? Hwf0 Hwfr]; subst.
  assert (Hnd0 : nodep_on [t0] c) by (intros t' x tx [<-|[]] Ex; eapply Hnd; [left; reflexivity | exact Ex]).
  destruct (add_new_tasks_DI [t0] _ _ _ _ G (Forall_cons _ Hwf0 (Forall_nil _)) Hnd0 H0) as [G3 Gr3].
  destruct (add_new_ids_fresh _ _ _ _ _ H0) as [_ Hmono03].
  destruct (add_new_ids_fresh _ _ _ _ _ Hr) as [Hfresh3 Hmono3].
  assert (Hnd3 : nodep_on r c3).
  { intros t' x tx3 Hin Ex Hdep. destruct (Gr3 _ _ Ex) as [(tx & Etx & Ed)|(tn & _ & _ & _ & Hdom)].
    - rewrite Ed in Hdep. eapply Hnd; [right; exact Hin | exact Etx | exact Hdep].
    - apply (Hdom _ Hdep). apply Hfresh3. exact Hin. }
  destruct (add_one_kept _ _ _ _ _ G (proj1 Hwf0) H0) as (t1 & E1 & K1).
  destruct pre as [|p pre'].
  - cbn [app] in E. inversion E; subst t0 post.
    destruct (add_new_tasks_DI r _ _ _ _ G3 Hwfr Hnd3 Hr) as [_ Grr].
    destruct (grown_fwd r c3 c' Grr Hfresh3 Hmono3 _ _ E1) as (tx' & Ex' & Ed').
    exists tx'. split; [exact Ex'|]. intros d Hd [Hi|[]]. rewrite Ed'. apply K1; assumption.
  - cbn [app] in E. inversion E; subst p r.
    destruct (IH _ _ _ _ G3 Hwfr Hnd3 Hr pre' t post eq_refl) as (tx' & Ex' & Hk).
    exists tx'. split; [exact Ex'|]. intros d Hd Hsrc. apply Hk; [exact Hd|].
    destruct Hsrc as [Hi|[<-|Hin]].
    + left. apply Hmono03. exact Hi.
    + left. apply inm_true. eauto.
    + right. exact Hin.
Qed.

(** * The tail of a submit *)
Lemma submit_tail_X s4 jid ids tasks s' :
  PRE s4 -> Forall new_wf tasks -> map t_id tasks = map (fun i => (jid, i)) ids ->
  (do j <- hq_get_job s4 jid 222;
   do j' <- attach_ids j ids;
   do s6 <- on_new_tasks (hq_set_job s4 j') tasks;
   submit_ok_resp s6 jid) = Ok s' ->
  egrow (fm (core_of s4)) (fm (core_of s')) /\
  (forall pre t post, tasks = pre ++ t :: post ->
     exists tx', fm (core_of s') (t_id t) = Some tx' /\
       forall d, In d (t_deps t) -> (inm (fm (core_of s4)) d = true \/ In d (map t_id pre)) -> In d (t_deps tx')) /\
  (exists n ids', snd s' = snd s4 ++ [OResp (RSubmitOk jid n ids')]).
Proof.
  intros [G4 D4] Hwf Hids H.
  apply bind_ok in H. destruct H as (j & Hj & H). apply bind_ok in H. destruct H as (j' & Ha & H).
  apply bind_ok in H. destruct H as (s6 & H6 & H).
  destruct (jt_get _ _ _ _ Hj) as [Ej Eid].
  pose proof (attach_ids_fresh _ _ _ Ha) as Hfr.
  set (s5 := hq_set_job s4 j') in *.
  assert (Hnd : nodep_on tasks (core_of s5)).
  { intros t x tx Hin Ex Hdep. change (fm (core_of s4) x = Some tx) in Ex.
    destruct (D4 _ _ _ Ex Hdep) as [_ (l & Hl & Hk)].
    assert (Hi : In (t_id t) (map (fun i => (jid, i)) ids)) by (rewrite <- Hids; apply in_map; exact Hin).
    apply in_map_iff in Hi. destruct Hi as (i & Ei & Hi). rewrite <- Ei in Hl, Hk. cbn [fst snd] in Hl, Hk.
    rewrite Ej in Hl. inversion Hl; subst l. apply Hk. apply Hfr. exact Hi. }
  assert (Hs' : c_tasks (core_of s') = c_tasks (core_of s6) /\ exists n ids', snd s' = snd s6 ++ [OResp (RSubmitOk jid n ids')]).
  { unfold submit_ok_resp in H. apply bind_ok in H. destruct H as (jx & _ & H). inversion H; subst. split; [reflexivity|]. eexists _, _. reflexivity. }
  destruct Hs' as [Ts' (n & ids' & Ss')].
  assert (Efm : fm (core_of s') = fm (core_of s6)) by (unfold fm; rewrite Ts'; reflexivity).
  rewrite Efm. rewrite (on_new_tasks_snd _ _ _ H6) in Ss'. change (snd s5) with (snd s4) in Ss'.
  split; [|split; [|exists n, ids'; exact Ss']].
  - (* old tasks *)
    unfold on_new_tasks in H6. destruct tasks as [|t0 tr] eqn:Et; [inversion H6; subst; apply egrow_refl|].
    rewrite <- Et in *. clear Et.
    apply bind_ok in H6. destruct H6 as ([c' retracted] & Hadd & H6). apply bind_ok in H6. destruct H6 as (s1 & Hr & H6). inversion H6; subst s6.
    destruct (add_new_tasks_DI _ _ _ _ _ G4 Hwf Hnd Hadd) as [_ Gr].
    destruct (add_new_ids_fresh _ _ _ _ _ Hadd) as [Hfresh Hmono].
    pose proof (process_retracted_scr _ _ _ Hr) as [_ S1]. cbn in S1.
    split.
    + intros x tx Ex. destruct (grown_fwd _ _ _ Gr Hfresh Hmono x tx Ex) as (tx1 & E1 & Ed1).
      destruct (SC_some _ _ _ _ S1 E1) as (tx2 & E2 & (_ & Hd2 & _) & _).
      exists tx2. split; [exact E2 | congruence].
    + intros x tx' Ex. destruct (SC_some' _ _ _ _ S1 Ex) as (tx1 & E1 & (_ & Hd1 & _) & _).
      destruct (Gr _ _ E1) as [(tx & Etx & Ed)|(t & _ & _ & _ & Hdom)].
      * left. exists tx. split; [exact Etx | congruence].
      * right. intros d Hd. rewrite Hd1 in Hd. specialize (Hdom d Hd).
        change (fm (core_of (ask_scheduling s1)) d) with (fm (core_of s1) d).
        pose proof (SC_inm _ _ d S1) as Hi. unfold inm in Hi.
        destruct (fm (core_of s1) d); [discriminate|]. destruct (fm c' d); [discriminate | congruence].
  - (* new tasks *)
    intros pre t post Et.
    unfold on_new_tasks in H6. destruct tasks as [|t0 tr] eqn:Etk; [destruct pre; discriminate|].
    rewrite <- Etk in *. clear Etk.
    apply bind_ok in H6. destruct H6 as ([c' retracted] & Hadd & H6). apply bind_ok in H6. destruct H6 as (s1 & Hr & H6). inversion H6; subst s6.
    destruct (add_new_tasks_kept _ _ _ _ _ G4 Hwf Hnd Hadd pre t post Et) as (tx1 & E1 & K1).
    pose proof (process_retracted_scr _ _ _ Hr) as [_ S1]. cbn in S1.
    destruct (SC_some _ _ _ _ S1 E1) as (tx2 & E2 & (_ & Hd2 & _) & _).
    exists tx2. split; [exact E2|]. intros d Hd Hsrc. rewrite Hd2. apply K1; assumption.
Qed.

Lemma validate_graph_err jtasks ts : forall seen e, validate_graph jtasks seen ts = Some e -> exists a b, e = RSubmitErr a b.
Proof.
  induction ts as [|g r IH]; cbn [validate_graph]; intros seen e H; [discriminate|].
  destruct (n_mem (gt_id g) seen); [inversion H; eauto|].
  match type of H with (match find ?f ?l with _ => _ end) = _ => destruct (find f l) end; [inversion H; eauto|].
  eapply IH; exact H.
Qed.

Lemma graph_ids_fresh_err j n l : forall e, graph_ids_fresh j n l = Ok (Some e) -> exists a b, e = RSubmitErr a b.
Proof.
  induction l as [|g r IH]; cbn [graph_ids_fresh]; intros e H; [discriminate|].
  destruct (jt_find (j_tasks j) (gt_id g)); [inversion H; eauto|].
  destruct (N.ltb (gt_rq g) (N.of_nat n)); [eapply IH; exact H | discriminate].
Qed.

(** * The graph submit *)
Lemma submit_graph_X s jobsel rqs ts mf s' :
  fresh s -> PRE s -> CB s -> handle_submit_graph s jobsel rqs ts mf = Ok s' ->
  egrow (fm (core_of s)) (fm (core_of s')) /\
  exists q, snd s' = snd s ++ q /\
    forall j n ids, In (OResp (RSubmitOk j n ids)) q ->
      forall pre g post d0, ts = pre ++ g :: post -> In d0 (gt_deps g) ->
        d0 <> gt_id g /\
        ((exists v, task_state s (j, d0) = Some v /\ terminal v) \/ cdep (core_of s') (j, gt_id g) (j, d0)).
Proof.
  intros F P HC H. unfold handle_submit_graph in H.
  set (existing := match jobsel with Some j0 => find_job (hq_jobs s) j0 | None => None end) in *.
  set (job_tasks := match existing with Some j0 => j_tasks j0 | None => [] end) in *.
  apply bind_ok in H. destruct H as (v1 & Hv1 & H).
  assert (Hrej : forall a b, s' = emit s (OResp (RSubmitErr a b)) ->
    egrow (fm (core_of s)) (fm (core_of s')) /\
    exists q, snd s' = snd s ++ q /\
      forall j n ids, In (OResp (RSubmitOk j n ids)) q ->
        forall pre g post d0, ts = pre ++ g :: post -> In d0 (gt_deps g) ->
          d0 <> gt_id g /\ ((exists v, task_state s (j, d0) = Some v /\ terminal v) \/ cdep (core_of s') (j, gt_id g) (j, d0))).
  { intros a b ->. split; [apply egrow_refl|]. eexists [_]. split; [reflexivity|]. intros j n ids [Hin|[]]. discriminate. }
  match type of H with (match ?x with Some _ => _ | None => _ end) = _ => destruct x as [e|] eqn:Ev end.
  { inversion H; subst.
    assert (He : exists a b, e = RSubmitErr a b).
    { destruct v1 as [e1|]; [inversion Ev; subst e1|].
      - destruct existing as [j0|]; [|discriminate]. eapply graph_ids_fresh_err; exact Hv1.
      - eapply validate_graph_err; exact Ev. }
    destruct He as (a & b & ->). exact (Hrej a b eq_refl). }
  assert (Hval : validate_graph job_tasks [] ts = None) by (destruct v1; [discriminate | exact Ev]).
  apply bind_ok in H. destruct H as ([acc s1] & Hr & H).
  destruct acc as [[jid is_new]|].
  2:{ assert (E1 : (exists a b, s1 = emit s (OResp (RSubmitErr a b)))).
      { destruct jobsel as [jid|]; [|inversion Hr].
        unfold existing in Hr. destruct (find_job (hq_jobs s) jid) as [j|]; [|inversion Hr; subst; eauto].
        destruct (negb (j_open j)); inversion Hr; subst; eauto. }
      destruct E1 as (a & b & ->). inversion H; subst. exact (Hrej a b eq_refl). }
  clear Hrej. cbv zeta in H.
  match type of H with context [fold_left ?f rqs (?sx, [])] => set (s3 := sx) in *; destruct (fold_left f rqs (s3, [])) as [s4 rqis] eqn:Erq end.
  assert (P3 : PRE s3 /\ c_tasks (core_of s3) = c_tasks (core_of s) /\ snd s3 = snd s ++ [OEv (EvSubmit jid is_new (N.of_nat (length ts)))]
               /\ (forall d0, jt_find job_tasks d0 <> None -> exists j, find_job (hq_jobs s) jid = Some j /\ job_tasks = j_tasks j)).
  { destruct jobsel as [j0|].
    - unfold existing in *. destruct (find_job (hq_jobs s) j0) as [j|] eqn:Ef; [|inversion Hr].
      destruct (negb (j_open j)); [inversion Hr|]. inversion Hr; subst.
      split; [subst s3; eapply PRE_frame; [| |exact P]; [reflexivity | apply KL_same; reflexivity]|].
      split; [reflexivity|]. split; [reflexivity|]. intros d0 _. exists j. split; [exact Ef | reflexivity].
    - inversion Hr; subst. split; [subst s3; apply PRE_new_job; assumption|]. split; [reflexivity|]. split; [reflexivity|].
      intros d0 Hd0. exfalso. apply Hd0. reflexivity. }
  destruct P3 as (P3 & T3 & S3 & Hjob).
  pose proof (fold_rqs_tasks _ _ _ _ _ Erq) as T4. pose proof (fold_rqs_same _ _ _ _ _ Erq) as Q4.
  pose proof (fold_rqs_snd _ _ _ _ _ Erq) as S4.
  assert (P4 : PRE s4) by (eapply PRE_frame; [exact T4 | apply KL_same; exact Q4 | exact P3]).
  apply bind_ok in H. destruct H as (j & Hj & H). apply bind_ok in H. destruct H as (j' & Ha & H).
  apply bind_ok in H. destruct H as (tasks & Hg & H).
  destruct (graph_tasks_spec _ _ _ _ Hg) as [G1 _].
  destruct (submit_tail_X s4 jid (map gt_id ts) tasks s' P4 (graph_tasks_wf _ _ _ _ Hg) G1) as (Xf & Xn & (n & ids' & Xs)).
  { rewrite Hj. cbn [bind]. rewrite Ha. cbn [bind]. exact H. }
  assert (Efm : fm (core_of s4) = fm (core_of s)) by (unfold fm; rewrite T4, T3; reflexivity).
  rewrite Efm in Xf, Xn. split; [exact Xf|].
  eexists [_; _]. split; [rewrite Xs, S4, S3, <- app_assoc; reflexivity|].
  intros j0 n0 ids0 [Hin|[Hin|[]]]; [discriminate|]. inversion Hin; subst j0 n0 ids0.
  intros pre g post d0 Ets Hd0.
  destruct (validate_graph_ok _ _ _ Hval pre g post d0 Ets Hd0) as [Hne Hsrc]. split; [exact Hne|].
  rewrite Ets in Hg. destruct (graph_tasks_nth _ _ _ _ _ _ Hg) as (tpre & t & tpost & Etk & I1 & I2 & I3).
  destruct (Xn tpre t tpost Etk) as (tx' & Ex' & Hk). rewrite I1 in Ex'.
  assert (Hdt : In (jid, d0) (t_deps t)) by (rewrite I2; apply dedup_sorted_in; left; exact Hd0).
  destruct Hsrc as [[]|[Hpre|Hjt]].
  - right. exists tx'. split; [exact Ex'|]. apply Hk; [exact Hdt|]. right. rewrite I3.
    apply in_map_iff in Hpre. destruct Hpre as (g0 & <- & Hg0). apply in_map_iff. exists g0. split; [reflexivity | exact Hg0].
  - destruct (Hjob d0 Hjt) as (jb & Ejb & Etasks). rewrite Etasks in Hjt.
    destruct (jt_find (j_tasks jb) d0) as [v|] eqn:Ev0; [|congruence].
    assert (Hts : task_state s (jid, d0) = Some v).
    { unfold task_state. cbn [fst snd]. unfold hq_jobs in Ejb. unfold hq_of. rewrite Ejb. exact Ev0. }
    assert (Hact : jactive (Some v) -> cdep (core_of s') (jid, gt_id g) (jid, d0)).
    { intros Ha0. exists tx'. split; [exact Ex'|]. apply Hk; [exact Hdt|]. left.
      assert (Hac : active s (jid, d0)).
      { exists (j_tasks jb). cbn [fst snd]. split; [unfold jt, hq_of; unfold hq_jobs in Ejb; rewrite Ejb; reflexivity | rewrite Ev0; exact Ha0]. }
      destruct (active_core_task _ _ HC Hac) as (td & Etd). apply inm_true. exists td. exact Etd. }
    destruct v; try solve [left; eexists; split; [exact Hts | unfold terminal; auto]].
    + right. apply Hact. left; reflexivity.
    + right. apply Hact. right; reflexivity.
Qed.

(** * The array submit: the tasks in the core keep their dependency lists *)
Lemma submit_array_fwd s jobsel ids entries rq prio cl tlim mf s' :
  fresh s -> PRE s -> (match entries with Some n => (length ids <= N.to_nat n)%nat | None => True end) ->
  handle_submit_array s jobsel ids entries rq prio cl tlim mf = Ok s' ->
  egrow (fm (core_of s)) (fm (core_of s')).
Proof.
  intros F P Hwf H. unfold handle_submit_array in H.
  match type of H with (match ?x with Some _ => _ | None => _ end) = _ => destruct x end;
    [inversion H; subst; apply egrow_refl|].
  apply bind_ok in H. destruct H as ([acc s1] & Hr & H).
  destruct acc as [[[jid is_new] ids']|].
  - cbv zeta in H.
    match type of H with context [get_or_create_rq ?sx rq] => set (s3 := sx) in *; destruct (get_or_create_rq s3 rq) as [s4 rqi] eqn:Erq end.
    assert (P3 : PRE s3 /\ c_tasks (core_of s3) = c_tasks (core_of s) /\ (match entries with Some n => (length ids' <= N.to_nat n)%nat | None => True end)).
    { destruct jobsel as [j0|].
      - destruct (find_job (hq_jobs s) j0) as [j|] eqn:Ef; [|inversion Hr].
        destruct (negb (j_open j)); [inversion Hr|]. inversion Hr; subst. split; [|split; [reflexivity|]].
        + subst s3. eapply PRE_frame; [| |exact P]; [reflexivity | apply KL_same; reflexivity].
        + destruct ids; [|exact Hwf]. destruct entries as [n|]; [|exact I]. rewrite range_from_length. lia.
      - inversion Hr; subst. split; [|split; [reflexivity|]].
        + subst s3. apply PRE_new_job; assumption.
        + destruct ids; [|exact Hwf]. destruct entries as [n|]; [|exact I]. rewrite range_from_length. lia. }
    destruct P3 as (P3 & T3 & Hwf').
    pose proof (get_or_create_rq_tasks s3 rq) as T4. rewrite Erq in T4. cbn [fst] in T4.
    pose proof (get_or_create_rq_same s3 rq) as Q4. rewrite Erq in Q4. cbn [fst] in Q4.
    assert (P4 : PRE s4) by (eapply PRE_frame; [exact T4 | apply KL_same; exact Q4 | exact P3]).
    assert (Efm : fm (core_of s4) = fm (core_of s)) by (unfold fm; rewrite T4, T3; reflexivity).
    rewrite <- Efm.
    eapply (submit_tail_X s4 jid ids'); [exact P4 | | | exact H].
    + apply Forall_forall. intros t Ht. apply in_map_iff in Ht. destruct Ht as (i & <- & _). split; [constructor | reflexivity].
    + rewrite map_map. cbn. destruct entries as [n|]; [rewrite take_n_all; [reflexivity | exact Hwf'] | reflexivity].
  - assert (E1 : c_tasks (core_of s1) = c_tasks (core_of s)).
    { destruct jobsel as [jid|]; [|inversion Hr].
      destruct (find_job (hq_jobs s) jid) as [j|]; [|inversion Hr; subst; reflexivity].
      destruct (negb (j_open j)); inversion Hr; subst; reflexivity. }
    assert (E2 : c_tasks (core_of s') = c_tasks (core_of s1)).
    { destruct jobsel; [match type of H with (match ?x with Some _ => _ | None => _ end) = _ => destruct x end|];
        inversion H; subst; reflexivity. }
    apply egrow_tasks. rewrite E2, E1. reflexivity.
Qed.
