(** C01, "start before finish", strengthened: the LAST start of the task before its finish has
    after it no terminal event of the task, no further start of it and NO LOSS OF ITS ROOT WORKER
    (the first worker of the start event).  The job layer emits no per-task event when a task goes
    back to waiting, but it goes back to waiting only in [process_worker_lost], which emits
    [EvWLost w] for the lost worker: the absence of that event for the root worker is the
    observable form of "the task did not go back to waiting in between".

    This file: the stream function [cur] ("root worker of the current start"), the readable
    predicate [FAS2], the executable [fas2_check], the state invariant [IQ] (which links the job
    layer, the stream and the core: a task the job layer shows Running has a current start, and the
    core shows it running on that root), and the generic preservation lemmas. *)
From HQ Require Import Base.Prelude Cluster.Types Cluster.Core Cluster.Reactor Cluster.Worker Cluster.Server Cluster.Sys Cluster.Monitors Cluster.ProofsJob Cluster.ProofsMore Cluster.ProofsTerminal Cluster.ProofsStep Cluster.ProofsFinal Cluster.BijBase Cluster.BijHq Cluster.ProofsOnce Cluster.StartFinBase.
From Coq Require Import ZArith Lia.
Local Open Scope N_scope.

(** * Classification of outputs *)
Inductive okind := KStart (x : tid) (ws : list wid) | KLost (w : wid) | KOther.
Definition kind_of (o : out) : okind :=
  match o with
  | OEv (EvStarted x _ ws _) => KStart x ws
  | OEv (EvWLost w _) => KLost w
  | _ => KOther
  end.

Lemma kind_start o x ws : kind_of o = KStart x ws <-> exists i rv, o = OEv (EvStarted x i ws rv).
Proof.
  split.
  - destruct o as [e| | | | | |]; try discriminate. destruct e; try discriminate. cbn. intros H. inversion H; subst. eauto.
  - intros (i & rv & ->). reflexivity.
Qed.
Lemma kind_lost o w : kind_of o = KLost w <-> exists r, o = OEv (EvWLost w r).
Proof.
  split.
  - destruct o as [e| | | | | |]; try discriminate. destruct e; try discriminate. cbn. intros H. inversion H; subst. eauto.
  - intros (r & ->). reflexivity.
Qed.
Lemma kind_start_tids o x ws : kind_of o = KStart x ws -> tids_of o = [].
Proof. intros H. apply kind_start in H. destruct H as (i & rv & ->). reflexivity. Qed.
Lemma kind_lost_tids o w : kind_of o = KLost w -> tids_of o = [].
Proof. intros H. apply kind_lost in H. destruct H as (r & ->). reflexivity. Qed.

(** * The root worker of the current start of [t] *)
Definition cur_step (t : tid) (c : option wid) (o : out) : option wid :=
  match kind_of o with
  | KStart x ws => if tid_eqb x t then hd_error ws else c
  | KLost w => match c with Some w' => if N.eqb w' w then None else c | None => None end
  | KOther => if tid_mem t (tids_of o) then None else c
  end.
Definition cur (outs : list out) (t : tid) : option wid := fold_left (cur_step t) outs None.

Lemma cur_snoc l o t : cur (l ++ [o]) t = cur_step t (cur l t) o.
Proof. unfold cur. rewrite fold_left_app. reflexivity. Qed.

(** An output that leaves the current start of [t] alone, whatever it is. *)
Definition touches (o : out) (t : tid) : bool :=
  match kind_of o with
  | KStart x _ => tid_eqb x t
  | KLost _ => true
  | KOther => tid_mem t (tids_of o)
  end.
Lemma cur_step_untouched o t c : touches o t = false -> cur_step t c o = c.
Proof. unfold touches, cur_step. destruct (kind_of o); intros H; [rewrite H; reflexivity | discriminate | rewrite H; reflexivity]. Qed.

(** Outputs that concern no task and no worker loss. *)
Definition silent (o : out) : bool :=
  match kind_of o with KOther => match tids_of o with [] => true | _ => false end | _ => false end.
Lemma silent_untouched o t : silent o = true -> touches o t = false.
Proof. unfold silent, touches. destruct (kind_of o); try discriminate. destruct (tids_of o); [reflexivity | discriminate]. Qed.
Lemma silent_not_fin o t : silent o = true -> o <> OEv (EvFinished t).
Proof. intros H E. subst o. discriminate. Qed.

Lemma cur_ext ext : forall l t, forallb silent ext = true -> cur (l ++ ext) t = cur l t.
Proof.
  induction ext as [|x r IH]; intros l t H; [rewrite app_nil_r; reflexivity|].
  cbn [forallb] in H. apply andb_true_iff in H. destruct H as [Hx Hr].
  change (l ++ x :: r) with (l ++ [x] ++ r). rewrite app_assoc, (IH _ _ Hr), cur_snoc.
  apply cur_step_untouched. apply silent_untouched. exact Hx.
Qed.

(** * The stream predicate, in the form used by the proofs *)
Definition FAS2c (outs : list out) : Prop :=
  forall pre t post, outs = pre ++ OEv (EvFinished t) :: post -> cur pre t <> None.

Lemma FAS2c_nil : FAS2c [].
Proof. intros pre t post E. destruct pre; discriminate. Qed.

Lemma FAS2c_snoc l o : FAS2c l -> (forall t, o = OEv (EvFinished t) -> cur l t <> None) -> FAS2c (l ++ [o]).
Proof.
  intros HF Ho pre t post E.
  destruct (list_last_case post) as [->|(p' & x & ->)].
  - apply app_inj_tail in E. destruct E as [<- Eo]. apply Ho. exact Eo.
  - change (pre ++ OEv (EvFinished t) :: p' ++ [x]) with (pre ++ (OEv (EvFinished t) :: p') ++ [x]) in E.
    rewrite app_assoc in E. apply app_inj_tail in E. destruct E as [E _]. eapply HF. exact E.
Qed.

Lemma FAS2c_ext ext : forall l, forallb silent ext = true -> FAS2c l -> FAS2c (l ++ ext).
Proof.
  induction ext as [|x r IH]; intros l H HF; [rewrite app_nil_r; exact HF|].
  cbn [forallb] in H. apply andb_true_iff in H. destruct H as [Hx Hr].
  change (l ++ x :: r) with (l ++ [x] ++ r). rewrite app_assoc. apply IH; [exact Hr|].
  apply FAS2c_snoc; [exact HF|]. intros t Ex. exfalso. exact (silent_not_fin _ _ Hx Ex).
Qed.

(** * The readable form *)

(** [live2 outs t w]: the last start of [t] in [outs] names the root worker [w], and after it
    there is no terminal event of [t] and no loss of [w]. *)
Definition live2 (outs : list out) (t : tid) (w : wid) : Prop :=
  exists a i ws rv b, outs = a ++ OEv (EvStarted t i ws rv) :: b /\ hd_error ws = Some w /\
    (forall i' ws' rv', ~ In (OEv (EvStarted t i' ws' rv')) b) /\
    ~ In t (terminal_ids b) /\
    (forall r, ~ In (OEv (EvWLost w r)) b).

Definition FAS2 (outs : list out) : Prop :=
  forall pre t post, outs = pre ++ OEv (EvFinished t) :: post -> exists w, live2 pre t w.

Lemma terminal_ids_in o l t : In o l -> In t (tids_of o) -> In t (terminal_ids l).
Proof. intros Ho Ht. unfold terminal_ids. apply in_flat_map. exists o. split; assumption. Qed.

Lemma cur_live2 l : forall t w, cur l t = Some w <-> live2 l t w.
Proof.
  induction l as [|o l IH] using rev_ind; intros t w.
  - split; [discriminate | intros (a & i & ws & rv & b & E & _); destruct a; discriminate].
  - rewrite cur_snoc. split.
    + intros H. unfold cur_step in H. destruct (kind_of o) as [x ws|w1|] eqn:Ek.
      * destruct (tid_eqb x t) eqn:Ex.
        -- apply tid_eqb_eq in Ex. subst x. apply kind_start in Ek. destruct Ek as (i & rv & ->).
           exists l, i, ws, rv, []. split; [reflexivity|]. split; [exact H|]. split; [intros ? ? ? []|]. split; [intros [] | intros ? []].
        -- apply IH in H. destruct H as (a & i & ws0 & rv & b & E & Hh & H1 & H2 & H3).
           exists a, i, ws0, rv, (b ++ [o]). split; [rewrite E, <- app_assoc; reflexivity|]. split; [exact Hh|].
           split; [|split].
           ++ intros i' ws' rv' Hin. apply in_app_or in Hin. destruct Hin as [Hin|[Eo|[]]]; [exact (H1 _ _ _ Hin)|].
              subst o. cbn in Ek. inversion Ek; subst. rewrite ProofsMore.tid_eqb_refl in Ex. discriminate.
           ++ rewrite terminal_ids_app. intros Hin. apply in_app_or in Hin. destruct Hin as [Hin|Hin]; [exact (H2 Hin)|].
              unfold terminal_ids in Hin. cbn [flat_map] in Hin. rewrite (kind_start_tids _ _ _ Ek) in Hin. destruct Hin.
           ++ intros r Hin. apply in_app_or in Hin. destruct Hin as [Hin|[Eo|[]]]; [exact (H3 _ Hin)|]. subst o. discriminate.
      * destruct (cur l t) as [w'|] eqn:Ec; [|discriminate]. destruct (N.eqb w' w1) eqn:Ew; [discriminate|]. inversion H; subst w'.
        apply IH in Ec. destruct Ec as (a & i & ws0 & rv & b & E & Hh & H1 & H2 & H3).
        exists a, i, ws0, rv, (b ++ [o]). split; [rewrite E, <- app_assoc; reflexivity|]. split; [exact Hh|].
        split; [|split].
        -- intros i' ws' rv' Hin. apply in_app_or in Hin. destruct Hin as [Hin|[Eo|[]]]; [exact (H1 _ _ _ Hin)|]. subst o. discriminate.
        -- rewrite terminal_ids_app. intros Hin. apply in_app_or in Hin. destruct Hin as [Hin|Hin]; [exact (H2 Hin)|].
           unfold terminal_ids in Hin. cbn [flat_map] in Hin. rewrite (kind_lost_tids _ _ Ek) in Hin. destruct Hin.
        -- intros r Hin. apply in_app_or in Hin. destruct Hin as [Hin|[Eo|[]]]; [exact (H3 _ Hin)|].
           subst o. cbn in Ek. inversion Ek; subst. rewrite N.eqb_refl in Ew. discriminate.
      * destruct (tid_mem t (tids_of o)) eqn:Em; [discriminate|].
        apply IH in H. destruct H as (a & i & ws0 & rv & b & E & Hh & H1 & H2 & H3).
        exists a, i, ws0, rv, (b ++ [o]). split; [rewrite E, <- app_assoc; reflexivity|]. split; [exact Hh|].
        split; [|split].
        -- intros i' ws' rv' Hin. apply in_app_or in Hin. destruct Hin as [Hin|[Eo|[]]]; [exact (H1 _ _ _ Hin)|]. subst o. discriminate.
        -- rewrite terminal_ids_app. intros Hin. apply in_app_or in Hin. destruct Hin as [Hin|Hin]; [exact (H2 Hin)|].
           unfold terminal_ids in Hin. cbn [flat_map] in Hin. rewrite app_nil_r in Hin. apply sf_tid_mem_In in Hin. congruence.
        -- intros r Hin. apply in_app_or in Hin. destruct Hin as [Hin|[Eo|[]]]; [exact (H3 _ Hin)|]. subst o. discriminate.
    + intros (a & i & ws & rv & b & E & Hh & H1 & H2 & H3).
      destruct (list_last_case b) as [->|(b' & x & ->)].
      * apply app_inj_tail in E. destruct E as [_ ->]. unfold cur_step. cbn [kind_of]. rewrite ProofsMore.tid_eqb_refl. exact Hh.
      * change (a ++ OEv (EvStarted t i ws rv) :: b' ++ [x]) with (a ++ (OEv (EvStarted t i ws rv) :: b') ++ [x]) in E.
        rewrite app_assoc in E. apply app_inj_tail in E. destruct E as [El <-].
        assert (Hc : cur l t = Some w).
        { apply IH. exists a, i, ws, rv, b'. split; [exact El|]. split; [exact Hh|]. split; [|split].
          - intros i' ws' rv' Hin. apply (H1 i' ws' rv'). apply in_or_app. left. exact Hin.
          - intros Hin. apply H2. rewrite terminal_ids_app. apply in_or_app. left. exact Hin.
          - intros r Hin. apply (H3 r). apply in_or_app. left. exact Hin. }
        rewrite Hc. unfold cur_step. destruct (kind_of o) as [x ws1|w1|] eqn:Ek.
        -- destruct (tid_eqb x t) eqn:Ex; [|reflexivity]. exfalso. apply tid_eqb_eq in Ex. subst x.
           apply kind_start in Ek. destruct Ek as (i1 & rv1 & ->). apply (H1 i1 ws1 rv1). apply in_or_app. right. left. reflexivity.
        -- destruct (N.eqb w w1) eqn:Ew; [|reflexivity]. exfalso. apply N.eqb_eq in Ew. subst w1.
           apply kind_lost in Ek. destruct Ek as (r & ->). apply (H3 r). apply in_or_app. right. left. reflexivity.
        -- destruct (tid_mem t (tids_of o)) eqn:Em; [|reflexivity]. exfalso. apply H2. apply sf_tid_mem_In in Em.
           eapply terminal_ids_in; [|exact Em]. apply in_or_app. right. left. reflexivity.
Qed.

Lemma FAS2c_FAS2 outs : FAS2c outs <-> FAS2 outs.
Proof.
  unfold FAS2c, FAS2. split; intros H pre t post E.
  - specialize (H pre t post E). destruct (cur pre t) as [w|] eqn:Ec; [|contradiction]. exists w. apply cur_live2. exact Ec.
  - destruct (H pre t post E) as (w & Hw). apply cur_live2 in Hw. congruence.
Qed.

(** * The executable check (quadratic: [cur] is recomputed on the prefix at every finish) *)
Fixpoint fas2_go (seen rest : list out) : bool :=
  match rest with
  | [] => true
  | o :: r =>
      match fin_of o with
      | Some t => match cur seen t with Some _ => true | None => false end
      | None => true
      end && fas2_go (seen ++ [o]) r
  end.
Definition fas2_check (outs : list out) : bool := fas2_go [] outs.

Lemma fas2_go_spec rest : forall seen,
  fas2_go seen rest = true <-> forall pre t post, rest = pre ++ OEv (EvFinished t) :: post -> cur (seen ++ pre) t <> None.
Proof.
  induction rest as [|o r IH]; intros seen; cbn [fas2_go].
  - split; [intros _ pre t post E; destruct pre; discriminate | reflexivity].
  - rewrite andb_true_iff, IH. split.
    + intros [Hfin Hrest] pre t post E. destruct pre as [|o' pre'].
      * cbn [app] in E. inversion E; subst o. cbn [fin_of] in Hfin. rewrite app_nil_r.
        destruct (cur seen t); [discriminate | discriminate].
      * cbn [app] in E. inversion E; subst o' r. specialize (Hrest pre' t post eq_refl).
        rewrite <- app_assoc in Hrest. exact Hrest.
    + intros H. split.
      * destruct (fin_of o) as [t|] eqn:Ef; [|reflexivity]. apply fin_of_spec in Ef. subst o.
        specialize (H [] t r eq_refl). rewrite app_nil_r in H. destruct (cur seen t); [reflexivity | contradiction].
      * intros pre t post E. subst r. specialize (H (o :: pre) t post eq_refl). rewrite <- app_assoc. exact H.
Qed.

Theorem fas2_check_spec outs : fas2_check outs = true <-> FAS2 outs.
Proof. unfold fas2_check. rewrite fas2_go_spec, <- FAS2c_FAS2. unfold FAS2c. cbn [app]. reflexivity. Qed.

(** [FAS2] is stronger than [FAS]. *)
Lemma FAS2_FAS outs : FAS2 outs -> FAS outs.
Proof.
  intros H pre t post E. destruct (H pre t post E) as (w & a & i & ws & rv & b & Ea & _ & _ & Hn & _).
  exists a, i, ws, rv, b. split; assumption.
Qed.

(** * The state invariant *)

(** The core shows the task running with root worker [w] ([Finished] is the transient state inside
    [task_finished], between the core update and the job-layer callback). *)
Definition rootok (st : tstate) (w : wid) : Prop :=
  match st with
  | Running w' _ => w' = w
  | RunningMN (w' :: _) => w' = w
  | Finished => True
  | _ => False
  end.
Definition keeps (st st' : tstate) : Prop := forall w, rootok st w -> rootok st' w.

Lemma keeps_refl st : keeps st st.
Proof. intros w H. exact H. Qed.
Lemma keeps_trans a b c : keeps a b -> keeps b c -> keeps a c.
Proof. intros H1 H2 w H. exact (H2 w (H1 w H)). Qed.

Definition core_root (c : core) (t : tid) (w : wid) : Prop :=
  forall tk, In tk (c_tasks c) -> t_id tk = t -> rootok (t_state tk) w.

Definition IQ (s : st) (pre : list out) : Prop :=
  FAS2c (pre ++ snd s) /\
  forall t, task_state s t = Some JR -> exists w, cur (pre ++ snd s) t = Some w /\ core_root (core_of s) t w.

Definition SQ (s s' : st) : Prop := forall pre, IQ s pre -> IQ s' pre.

Lemma SQ_refl s : SQ s s.
Proof. intros pre H. exact H. Qed.
Lemma SQ_trans s1 s2 s3 : SQ s1 s2 -> SQ s2 s3 -> SQ s1 s3.
Proof. intros A B pre H. exact (B pre (A pre H)). Qed.

(** * Frames on the core: every task of [c'] (outside [N]) comes from a task of [c] with the
    same id whose root, if it had one, is kept. *)
Definition RKN (N : tid -> Prop) (c c' : core) : Prop :=
  forall tk', In tk' (c_tasks c') ->
    N (t_id tk') \/ exists tk, In tk (c_tasks c) /\ t_id tk = t_id tk' /\ keeps (t_state tk) (t_state tk').

Lemma RKN_refl N c : RKN N c c.
Proof. intros tk Hin. right. exists tk. split; [exact Hin|]. split; [reflexivity | apply keeps_refl]. Qed.

Lemma RKN_eq N c c' : c_tasks c' = c_tasks c -> RKN N c c'.
Proof. intros E tk Hin. rewrite E in Hin. right. exists tk. split; [exact Hin|]. split; [reflexivity | apply keeps_refl]. Qed.

Lemma RKN_trans N c1 c2 c3 : RKN N c1 c2 -> RKN N c2 c3 -> RKN N c1 c3.
Proof.
  intros A B tk3 H3. destruct (B tk3 H3) as [Hn|(tk2 & H2 & I2 & K2)]; [left; exact Hn|].
  destruct (A tk2 H2) as [Hn|(tk1 & H1 & I1 & K1)]; [left; rewrite <- I2; exact Hn|].
  right. exists tk1. split; [exact H1|]. split; [congruence | eapply keeps_trans; eassumption].
Qed.

Lemma RKN_weaken (N M : tid -> Prop) c c' : (forall t, N t -> M t) -> RKN N c c' -> RKN M c c'.
Proof. intros Hw A tk Hin. destruct (A tk Hin) as [Hn|H]; [left; apply Hw; exact Hn | right; exact H]. Qed.

Lemma core_root_frame N c c' t w : RKN N c c' -> ~ N t -> core_root c t w -> core_root c' t w.
Proof.
  intros A Hn Hr tk' Hin Hid. destruct (A tk' Hin) as [HN|(tk & Hin0 & Hid0 & K)]; [rewrite Hid in HN; contradiction|].
  apply K. apply Hr; [exact Hin0 | congruence].
Qed.

(** * Generic preservation lemmas *)

(** Only the core changes (tasks in [N] are not Running in the job layer). *)
Lemma SQ_frame (N : tid -> Prop) s s' :
  snd s' = snd s -> nojr s s' -> RKN N (core_of s) (core_of s') ->
  (forall t, N t -> task_state s' t <> Some JR) -> SQ s s'.
Proof.
  intros E Hn Hk HN pre [HF HL]. unfold IQ. rewrite E. split; [exact HF|]. intros t Ht.
  destruct (HL t (Hn t Ht)) as (w & Hc & Hr). exists w. split; [exact Hc|].
  eapply core_root_frame; [exact Hk | intros Hx; exact (HN t Hx Ht) | exact Hr].
Qed.

Lemma SQ_core0 s s' : hq_of s' = hq_of s -> snd s' = snd s -> RKN (fun _ => False) (core_of s) (core_of s') -> SQ s s'.
Proof. intros Hq Hs Hk. apply (SQ_frame (fun _ => False)); [exact Hs | apply nojr_same; exact Hq | exact Hk | intros t []]. Qed.

(** Only processes / flags change. *)
Lemma SQ_same s s' : hq_of s' = hq_of s -> snd s' = snd s -> c_tasks (core_of s') = c_tasks (core_of s) -> SQ s s'.
Proof. intros Hq Hs Hc. apply SQ_core0; [exact Hq | exact Hs | apply RKN_eq; exact Hc]. Qed.

(** The job layer changes without output and without a new Running task. *)
Lemma SQ_quiet s s' : snd s' = snd s -> core_of s' = core_of s -> nojr s s' -> SQ s s'.
Proof.
  intros E Ec Hn. apply (SQ_frame (fun _ => False)); [exact E | exact Hn | rewrite Ec; apply RKN_refl | intros t []].
Qed.

(** One more output. *)
Lemma SQ_emit1 s s' o :
  snd s' = snd s ++ [o] -> core_of s' = core_of s ->
  (forall t, o = OEv (EvFinished t) -> task_state s t = Some JR) ->
  (forall t, task_state s' t = Some JR ->
     (task_state s t = Some JR /\ touches o t = false) \/
     (exists i ws rv w, o = OEv (EvStarted t i ws rv) /\ hd_error ws = Some w /\ core_root (core_of s) t w)) ->
  SQ s s'.
Proof.
  intros E Ec Hfin Hjr pre [HF HL]. unfold IQ. rewrite E, Ec, app_assoc. split.
  - apply FAS2c_snoc; [exact HF|]. intros t Eo. destruct (HL t (Hfin t Eo)) as (w & Hc & _). congruence.
  - intros t Ht. destruct (Hjr t Ht) as [[H1 H2]|(i & ws & rv & w & Eo & Hh & Hr)].
    + destruct (HL t H1) as (w & Hc & Hr). exists w. split; [|exact Hr]. rewrite cur_snoc, (cur_step_untouched _ _ _ H2). exact Hc.
    + exists w. split; [|exact Hr]. rewrite cur_snoc. subst o. unfold cur_step. cbn [kind_of]. rewrite ProofsMore.tid_eqb_refl. exact Hh.
Qed.

(** Any number of silent outputs. *)
Lemma SQ_ext s s' ext :
  snd s' = snd s ++ ext -> forallb silent ext = true -> nojr s s' -> c_tasks (core_of s') = c_tasks (core_of s) -> SQ s s'.
Proof.
  intros E Hs Hn Hc pre [HF HL]. unfold IQ. rewrite E, app_assoc. split.
  - apply FAS2c_ext; assumption.
  - intros t Hjr. destruct (HL t (Hn t Hjr)) as (w & Hcur & Hr). exists w. split; [rewrite (cur_ext _ _ _ Hs); exact Hcur|].
    intros tk Hin Hid. rewrite Hc in Hin. exact (Hr tk Hin Hid).
Qed.

Lemma SQ_emit_silent s o : silent o = true -> SQ s (emit s o).
Proof.
  intros Ho. apply (SQ_ext s (emit s o) [o]); [reflexivity | cbn [forallb]; rewrite Ho; reflexivity | apply nojr_same; apply emit_hq | reflexivity].
Qed.

Lemma silent_launch ls : forallb silent (map OLaunch ls) = true.
Proof. induction ls as [|l r IH]; [reflexivity | exact IH]. Qed.
