(** C09 for client requests, part 5: the submit handlers are total on a state satisfying the
    invariants for a well-formed request, and the theorem for all client requests. *)
From HQ Require Import Base.Prelude Cluster.Types Cluster.Core Cluster.Reactor Cluster.Worker Cluster.Server Cluster.Sys Cluster.Monitors Cluster.ProofsJob Cluster.ProofsMore Cluster.ProofsStep Cluster.ProofsFinal Cluster.BijBase Cluster.BijCore Cluster.BijHq Cluster.BijSt Cluster.BijReact Cluster.BijFinal Cluster.InvWBase Cluster.InvWView Cluster.InvWCore Cluster.InvWReact Cluster.InvWServer Cluster.InvWStep Cluster.InvQBase Cluster.InvQTake Cluster.InvQInv Cluster.InvQOps Cluster.InvQNoDup Cluster.InvQReact Cluster.InvQSubmit Cluster.InvQStep Cluster.InvDRem Cluster.RejHyp Cluster.InvProcsDef Cluster.InvBundle Cluster.NoPanicC1 Cluster.NoPanicC2 Cluster.NoPanicC3 Cluster.NoPanicC4.
From Coq Require Import ZArith Lia Sorting.Sorted.
Local Open Scope N_scope.

Arguments N.add : simpl never.
Arguments N.sub : simpl never.

(** * Creating request classes changes neither tasks, workers nor the set of processes *)
Lemma find_proc_ids ps w : find_proc ps w <> None <-> In w (map p_id ps).
Proof.
  induction ps as [|h r IH]; cbn [find_proc map In]; [tauto|].
  destruct (N.eqb w (p_id h)) eqn:E.
  - apply N.eqb_eq in E. split; [intros _; left; auto | discriminate].
  - apply N.eqb_neq in E. rewrite IH. split; [intros H; right; exact H | intros [H|H]; [congruence | exact H]].
Qed.

Definition sframe (s s' : st) : Prop :=
  c_tasks (core_of s') = c_tasks (core_of s) /\ c_workers (core_of s') = c_workers (core_of s) /\
  map p_id (s_procs (fst s')) = map p_id (s_procs (fst s)) /\ hq_of s' = hq_of s.

Lemma sframe_refl s : sframe s s. Proof. repeat split. Qed.
Lemma sframe_trans a b c : sframe a b -> sframe b c -> sframe a c.
Proof. intros (A1 & A2 & A3 & A4) (B1 & B2 & B3 & B4). repeat split; congruence. Qed.

Lemma sframe_PWc s s' : sframe s s' -> PWc s -> PWc s'.
Proof.
  intros (_ & Ew & Ep & _) H w Hw. unfold has_proc. apply find_proc_ids. rewrite Ep. apply find_proc_ids.
  apply H. rewrite <- Ew. exact Hw.
Qed.

Lemma get_or_create_rq_sframe s r s4 rqi : get_or_create_rq s r = (s4, rqi) -> sframe s s4.
Proof.
  unfold get_or_create_rq. destruct (rq_index _ r 0); intros H; inversion H; subst; [apply sframe_refl|].
  repeat split. cbn. rewrite map_map. apply map_ext. intros p. reflexivity.
Qed.

Lemma fold_rqs_sframe rqs : forall s l s4 rqis,
  fold_left (fun acc r => let '(s, l) := acc in let '(s', i) := get_or_create_rq s r in (s', l ++ [i])) rqs (s, l) = (s4, rqis) ->
  sframe s s4 /\ length rqis = (length l + length rqs)%nat.
Proof.
  induction rqs as [|r rest IH]; cbn [fold_left]; intros s l s4 rqis H.
  - inversion H; subst. split; [apply sframe_refl | cbn; lia].
  - destruct (get_or_create_rq s r) as [s1 i] eqn:E. destruct (IH _ _ _ _ H) as (F & L). split.
    + eapply sframe_trans; [eapply get_or_create_rq_sframe; exact E | exact F].
    + rewrite L, app_length. cbn. lia.
Qed.

(** * The common tail *)
Lemma submit_ok_resp_tot s jid j : find_job (hq_jobs s) jid = Some j -> exists s', submit_ok_resp s jid = Ok s'.
Proof. intros H. unfold submit_ok_resp, hq_get_job. unfold hq_jobs in H. rewrite H. cbn [bind]. eexists; reflexivity. Qed.

Lemma new_tasks_resp_tot s4 jid j' tasks :
  WI (core_of s4) -> QI none [] (core_of s4) -> PWc s4 -> j_id j' = jid ->
  NoDup (map t_id tasks) -> (forall t, In t tasks -> find_task (c_tasks (core_of s4)) (t_id t) = None) ->
  Forall (fun t => (N.to_nat (t_rq t) < length (c_rqs (core_of s4)))%nat) tasks ->
  exists s', (do s6 <- on_new_tasks (hq_set_job s4 j') tasks; submit_ok_resp s6 jid) = Ok s'.
Proof.
  intros HW V Hpw Hid Hnd Hnew Hrq.
  destruct (on_new_tasks_tot (hq_set_job s4 j') tasks HW V Hpw Hnd Hnew Hrq) as (s6 & H6). rewrite H6. cbn [bind].
  apply (submit_ok_resp_tot s6 jid j'). unfold hq_jobs. change (h_jobs (s_hq (fst s6))) with (h_jobs (hq_of s6)).
  rewrite (on_new_tasks_hq _ _ _ H6). change (find_job (hq_jobs (hq_set_job s4 j')) jid = Some j').
  rewrite find_job_hq_set, Hid, N.eqb_refl. reflexivity.
Qed.

Lemma attach_ids_id ids : forall j j', attach_ids j ids = Ok j' -> j_id j' = j_id j.
Proof. intros j j' H. apply (attach_ids_find _ _ _ H). Qed.

(** * Ids of an array *)
Lemma range_from_nodup n : forall a, NoDup (range_from a n).
Proof.
  induction n as [|k IH]; intros a; cbn [range_from]; constructor; [|apply IH].
  intros H. apply range_from_in in H. lia.
Qed.

Lemma max_task_id_ge l : jsorted l -> forall k v, In (k, v) l -> exists m, max_task_id l = Some m /\ k <= m.
Proof.
  induction l as [|[k0 v0] r IH]; intros Hs k v Hin; [destruct Hin|].
  cbn in Hs. destruct Hs as [Hlt Hs]. destruct r as [|[k1 v1] r'].
  - destruct Hin as [Hin|[]]. inversion Hin; subst. exists k. split; [reflexivity | lia].
  - change (max_task_id ((k0, v0) :: (k1, v1) :: r')) with (max_task_id ((k1, v1) :: r')).
    destruct Hin as [Hin|Hin].
    + inversion Hin; subst. destruct (IH Hs k1 v1 (or_introl eq_refl)) as (m & Hm & Hle). exists m. split; [exact Hm|].
      pose proof (Hlt k1 v1 (or_introl eq_refl)). lia.
    + exact (IH Hs k v Hin).
Qed.

Lemma new_id_fresh l i : jsorted l ->
  match max_task_id l with Some m => m + 1 | None => 0 end <= i -> jt_find l i = None.
Proof.
  intros Hs Hle. destruct (jt_find l i) as [v|] eqn:E; [|reflexivity]. exfalso.
  apply jt_find_in in E. destruct (max_task_id_ge l Hs i v E) as (m & Hm & Hi). rewrite Hm in Hle. lia.
Qed.

Lemma take_prefix {A} n (l : list A) : NoDup l -> NoDup (fst (take_n n l)) /\ incl (fst (take_n n l)) l.
Proof.
  intros Hnd. destruct (take_n n l) as [a b] eqn:E. cbn [fst]. pose proof (take_n_app _ _ _ _ E) as ->.
  split; [eapply NoDup_app_l; exact Hnd | intros x Hx; apply in_or_app; left; exact Hx].
Qed.

Lemma find_none_all {A} (p : A -> bool) l : find p l = None -> forall x, In x l -> p x = false.
Proof. intros H x Hx. exact (find_none p l H x Hx). Qed.

(** The part of [handle_submit_array] after the job has been determined. *)
Lemma array_tail_tot s3 jid ids' entries rq prio cl tlim j :
  WI (core_of s3) -> QI none [] (core_of s3) -> PWc s3 ->
  find_job (hq_jobs s3) jid = Some j -> NoDup ids' -> (forall i, In i ids' -> jt_find (j_tasks j) i = None) ->
  (forall i, In i ids' -> find_task (c_tasks (core_of s3)) (jid, i) = None) ->
  exists s',
    (let '(s4, rqi) := get_or_create_rq s3 rq in
     do j <- hq_get_job s4 jid 222;
     do j' <- attach_ids j ids';
     let s5 := hq_set_job s4 j' in
     let tids := match entries with Some n => fst (take_n (N.to_nat n) ids') | None => ids' end in
     do s6 <- on_new_tasks s5 (map (fun i => fresh_task (jid, i) [] rqi prio cl tlim) tids);
     submit_ok_resp s6 jid) = Ok s'.
Proof.
  intros HW V Hpw Ef Hnd Hfr Hnew.
  destruct (get_or_create_rq s3 rq) as [s4 rqi] eqn:Erq.
  destruct (get_or_create_rq_QI _ _ _ _ Erq V) as (V4 & Hrqi & _).
  pose proof (get_or_create_rq_WI s3 rq HW) as HW4. rewrite Erq in HW4. cbn [fst] in HW4.
  pose proof (get_or_create_rq_sframe _ _ _ _ Erq) as F. destruct F as (Et & Ew & Ep & Eh).
  assert (Hpw4 : PWc s4) by (apply (sframe_PWc s3 s4); [repeat split; assumption | exact Hpw]).
  unfold hq_get_job. unfold hq_jobs in Ef. change (h_jobs (s_hq (fst s4))) with (h_jobs (hq_of s4)). rewrite Eh.
  change (h_jobs (hq_of s3)) with (h_jobs (s_hq (fst s3))). rewrite Ef. cbn [bind].
  destruct (attach_ids_tot ids' j Hnd Hfr) as (j' & Hj'). rewrite Hj'. cbn [bind]. cbv zeta.
  set (tids := match entries with Some n => fst (take_n (N.to_nat n) ids') | None => ids' end).
  assert (Htids : NoDup tids /\ incl tids ids').
  { subst tids. destruct entries as [n|]; [apply take_prefix; exact Hnd | split; [exact Hnd | apply incl_refl]]. }
  destruct Htids as [Hnt Hit].
  apply new_tasks_resp_tot; try assumption.
  - rewrite (attach_ids_id _ _ _ Hj'). eapply find_job_id. exact Ef.
  - rewrite map_map. cbn [fresh_task t_id]. clear -Hnt. induction tids as [|a r IH]; cbn [map]; [constructor|].
    inversion Hnt as [|? ? Hn Hr]; subst. constructor; [|apply IH; exact Hr].
    intros Hin. apply in_map_iff in Hin. destruct Hin as (b & E & Hb). inversion E; subst. contradiction.
  - intros t Ht. apply in_map_iff in Ht. destruct Ht as (i & <- & Hi). cbn [fresh_task t_id]. rewrite Et. apply Hnew. apply Hit. exact Hi.
  - apply Forall_forall. intros t Ht. apply in_map_iff in Ht. destruct Ht as (i & <- & Hi). cbn [fresh_task t_rq]. exact Hrqi.
Qed.

(** A task id of a job that does not know it is not in the core. *)
Lemma unknown_not_in_core s jid i :
  CB s -> (forall l, jt s jid = Some l -> jt_find l i = None) -> find_task (c_tasks (core_of s)) (jid, i) = None.
Proof.
  intros HC H. destruct (find_task (c_tasks (core_of s)) (jid, i)) as [t|] eqn:E; [|reflexivity]. exfalso.
  assert (Hp : present (K s) (jid, i)) by (apply find_task_present; eauto).
  apply (cb_b _ HC) in Hp. destruct Hp as (l & Hl & Ha). cbn [fst snd] in *. rewrite (H l Hl) in Ha. destruct Ha; discriminate.
Qed.

Theorem handle_submit_array_tot s jobsel ids entries rq prio cl tlim mf :
  HOK (hq_of s) -> fresh s -> CB s -> WI (core_of s) -> QI none [] (core_of s) -> PWc s -> NoDup ids ->
  exists s', handle_submit_array s jobsel ids entries rq prio cl tlim mf = Ok s'.
Proof.
  intros Hok Hfr HC HW V Hpw Hnd. unfold handle_submit_array.
  destruct jobsel as [jid0|].
  - destruct (find_job (hq_jobs s) jid0) as [j|] eqn:Ef.
    + destruct (find (fun i => match jt_find (j_tasks j) i with Some _ => true | None => false end) ids) as [dup|] eqn:Edup; [eexists; reflexivity|].
      match goal with |- context [Some (jid0, false, ?x)] => set (ids' := x) end.
      destruct (j_open j) eqn:Eo; cbn [negb bind]; [|eexists; reflexivity].
      pose proof (Hok _ (find_job_in _ _ _ Ef)) as Hj.
      assert (Hjt : jt s jid0 = Some (j_tasks j)) by (unfold jt, hq_of; unfold hq_jobs in Ef; rewrite Ef; reflexivity).
      assert (Hids : NoDup ids' /\ forall i, In i ids' -> jt_find (j_tasks j) i = None).
      { subst ids'. destruct ids as [|i0 ir].
        - destruct entries as [n|].
          + split; [apply range_from_nodup|]. intros i Hi. apply range_from_in in Hi. apply new_id_fresh; [exact (jok_sorted _ Hj) | lia].
          + split; [constructor; [intros [] | constructor]|]. intros i [<-|[]]. apply new_id_fresh; [exact (jok_sorted _ Hj) | lia].
        - split; [exact Hnd|]. intros i Hi. pose proof (find_none_all _ _ Edup i Hi) as Hx. cbn beta in Hx.
          destruct (jt_find (j_tasks j) i); [discriminate | reflexivity]. }
      destruct Hids as [Hnd' Hfresh].
      apply (array_tail_tot _ jid0 ids' entries rq prio cl tlim j); try assumption.
      intros i Hi. apply (unknown_not_in_core s jid0 i HC). intros l Hl. rewrite Hjt in Hl. inversion Hl; subst l. apply Hfresh. exact Hi.
    + cbn [bind]. eexists; reflexivity.
  - match goal with |- context [Some (hq_counter s, true, ?x)] => set (ids' := x) end.
    cbn [bind].
    assert (Hnd' : NoDup ids').
    { subst ids'. destruct ids as [|i0 ir]; [|exact Hnd]. destruct entries as [n|]; [apply range_from_nodup | constructor; [intros [] | constructor]]. }
    set (jid := hq_counter s). set (nj := mkJob jid false [] 0 0 0 0 0 false mf).
    cbv iota beta.
    apply (array_tail_tot _ jid ids' entries rq prio cl tlim nj); try assumption.
    + unfold hq_jobs, hq_with, emit. cbn [fst snd with_hq s_hq h_jobs]. rewrite find_job_set_any. cbn [j_id nj]. rewrite N.eqb_refl. reflexivity.
    + intros i _. reflexivity.
    + intros i _. apply (unknown_not_in_core s jid i HC). intros l Hl. exfalso.
      pose proof (fresh_absent s Hfr) as Ha. change (cnt_of s) with jid in Ha. congruence.
Qed.

(** * Task graphs *)
Lemma graph_ids_fresh_tot j n ts : (forall g, In g ts -> gt_rq g < N.of_nat n) ->
  exists v, graph_ids_fresh j n ts = Ok v /\ (v = None -> forall g, In g ts -> jt_find (j_tasks j) (gt_id g) = None).
Proof.
  induction ts as [|g r IH]; intros H; cbn [graph_ids_fresh].
  - exists None. split; [reflexivity|]. intros _ g [].
  - destruct (jt_find (j_tasks j) (gt_id g)) eqn:E.
    + eexists. split; [reflexivity|]. discriminate.
    + assert (Hl : N.ltb (gt_rq g) (N.of_nat n) = true) by (apply N.ltb_lt; apply H; left; reflexivity). rewrite Hl.
      destruct IH as (v & Hv & Hn); [intros g' Hg'; apply H; right; exact Hg'|]. exists v. split; [exact Hv|].
      intros Ev g' [<-|Hg']; [exact E | apply Hn; assumption].
Qed.

Lemma validate_graph_nodup jt0 ts : forall seen, validate_graph jt0 seen ts = None ->
  NoDup (map gt_id ts) /\ forall g, In g ts -> ~ In (gt_id g) seen.
Proof.
  induction ts as [|g r IH]; intros seen H; cbn [validate_graph map] in *.
  - split; [constructor | intros g []].
  - destruct (n_mem (gt_id g) seen) eqn:Em; [discriminate|].
    destruct (find _ (gt_deps g)); [discriminate|].
    destruct (IH _ H) as [Hnd Hseen]. split.
    + constructor; [|exact Hnd]. intros Hin. apply in_map_iff in Hin. destruct Hin as (g' & Eg & Hg').
      apply (Hseen g' Hg'). left. symmetry. exact Eg.
    + intros g' [<-|Hg'].
      * intros Hin. apply n_mem_in in Hin. congruence.
      * intros Hin. apply (Hseen g' Hg'). right. exact Hin.
Qed.

Lemma graph_tasks_tot jid rqis ts : (forall g, In g ts -> (N.to_nat (gt_rq g) < length rqis)%nat) ->
  exists tasks, graph_tasks jid rqis ts = Ok tasks.
Proof.
  induction ts as [|g r IH]; intros H; cbn [graph_tasks]; [eexists; reflexivity|].
  destruct (nth_error_ex rqis _ (H g (or_introl eq_refl))) as (rqi & ->).
  destruct IH as (rest & ->); [intros g' Hg'; apply H; right; exact Hg'|]. cbn [bind]. eexists; reflexivity.
Qed.

Lemma nodup_pair (jid : N) (l : list N) : NoDup l -> NoDup (map (fun i => (jid, i)) l).
Proof.
  induction l as [|a r IH]; cbn [map]; intros H; [constructor|]. inversion H as [|? ? Hn Hr]; subst.
  constructor; [|apply IH; exact Hr]. intros Hin. apply in_map_iff in Hin. destruct Hin as (b & E & Hb). inversion E; subst. contradiction.
Qed.

Lemma graph_tail_tot s3 jid rqs ts j :
  WI (core_of s3) -> QI none [] (core_of s3) -> PWc s3 ->
  find_job (hq_jobs s3) jid = Some j -> NoDup (map gt_id ts) -> (forall g, In g ts -> jt_find (j_tasks j) (gt_id g) = None) ->
  (forall g, In g ts -> find_task (c_tasks (core_of s3)) (jid, gt_id g) = None) ->
  (forall g, In g ts -> gt_rq g < N.of_nat (length rqs)) ->
  exists s',
    (let '(s4, rqis) := fold_left (fun acc r => let '(s, l) := acc in let '(s', i) := get_or_create_rq s r in (s', l ++ [i])) rqs (s3, []) in
     do j <- hq_get_job s4 jid 222;
     do j' <- attach_ids j (map gt_id ts);
     let s5 := hq_set_job s4 j' in
     do tasks <- graph_tasks jid rqis ts;
     do s6 <- on_new_tasks s5 tasks;
     submit_ok_resp s6 jid) = Ok s'.
Proof.
  intros HW V Hpw Ef Hnd Hfr Hnew Hrq.
  destruct (fold_left _ rqs (s3, [])) as [s4 rqis] eqn:Efold.
  destruct (fold_rqs_QI _ _ _ _ _ Efold V (Forall_nil _)) as (V4 & Hrqis).
  pose proof (fold_rqs_WI _ _ _ _ _ Efold HW) as HW4.
  destruct (fold_rqs_sframe _ _ _ _ _ Efold) as ((Et & Ew & Ep & Eh) & Hlen). cbn [length plus] in Hlen.
  assert (Hpw4 : PWc s4) by (apply (sframe_PWc s3 s4); [repeat split; assumption | exact Hpw]).
  unfold hq_get_job. unfold hq_jobs in Ef. change (h_jobs (s_hq (fst s4))) with (h_jobs (hq_of s4)). rewrite Eh.
  change (h_jobs (hq_of s3)) with (h_jobs (s_hq (fst s3))). rewrite Ef. cbn [bind].
  destruct (attach_ids_tot (map gt_id ts) j Hnd) as (j' & Hj').
  { intros i Hi. apply in_map_iff in Hi. destruct Hi as (g & <- & Hg). apply Hfr. exact Hg. }
  rewrite Hj'. cbn [bind]. cbv zeta.
  destruct (graph_tasks_tot jid rqis ts) as (tasks & Htasks).
  { intros g Hg. rewrite Hlen. specialize (Hrq g Hg). lia. }
  rewrite Htasks. cbn [bind].
  destruct (graph_tasks_spec _ _ _ _ Htasks) as (Hids & _). pose proof (graph_tasks_rq _ _ _ _ Htasks) as Hrqs.
  apply new_tasks_resp_tot; try assumption.
  - rewrite (attach_ids_id _ _ _ Hj'). eapply find_job_id. exact Ef.
  - rewrite Hids. apply nodup_pair. exact Hnd.
  - intros t Ht. assert (Hin : In (t_id t) (map t_id tasks)) by (apply in_map; exact Ht). rewrite Hids, map_map in Hin.
    apply in_map_iff in Hin. destruct Hin as (g & E & Hg). rewrite <- E, Et. apply Hnew. exact Hg.
  - rewrite Forall_forall in *. intros t Ht. apply Hrqis. apply Hrqs. exact Ht.
Qed.

Theorem handle_submit_graph_tot s jobsel rqs ts mf :
  HOK (hq_of s) -> fresh s -> CB s -> WI (core_of s) -> QI none [] (core_of s) -> PWc s ->
  (forall g, In g ts -> gt_rq g < N.of_nat (length rqs)) ->
  exists s', handle_submit_graph s jobsel rqs ts mf = Ok s'.
Proof.
  intros Hok Hfr HC HW V Hpw Hrq. unfold handle_submit_graph.
  destruct jobsel as [jid0|].
  - destruct (find_job (hq_jobs s) jid0) as [j|] eqn:Ef.
    + destruct (graph_ids_fresh_tot j (length rqs) ts Hrq) as (v1 & Hv1 & Hfresh). rewrite Hv1. cbn [bind].
      destruct v1 as [e|]; [eexists; reflexivity|].
      destruct (validate_graph (j_tasks j) [] ts) as [e|] eqn:Ev; [eexists; reflexivity|].
      destruct (j_open j) eqn:Eo; cbn [negb bind]; [|eexists; reflexivity].
      assert (Hjt : jt s jid0 = Some (j_tasks j)) by (unfold jt, hq_of; unfold hq_jobs in Ef; rewrite Ef; reflexivity).
      apply (graph_tail_tot _ jid0 rqs ts j); try assumption.
      * exact (proj1 (validate_graph_nodup _ _ _ Ev)).
      * exact (Hfresh eq_refl).
      * intros g Hg. apply (unknown_not_in_core s jid0 (gt_id g) HC). intros l Hl. rewrite Hjt in Hl. inversion Hl; subst l. apply (Hfresh eq_refl). exact Hg.
    + cbn [bind]. destruct (validate_graph [] [] ts); cbn [bind]; eexists; reflexivity.
  - cbn [bind]. destruct (validate_graph [] [] ts) as [e|] eqn:Ev; [eexists; reflexivity|]. cbn [bind].
    set (jid := hq_counter s). set (nj := mkJob jid false [] 0 0 0 0 0 false mf).
    cbv iota beta.
    apply (graph_tail_tot _ jid rqs ts nj); try assumption.
    + unfold hq_jobs, hq_with, emit. cbn [fst snd with_hq s_hq h_jobs]. rewrite find_job_set_any. cbn [j_id nj]. rewrite N.eqb_refl. reflexivity.
    + exact (proj1 (validate_graph_nodup _ _ _ Ev)).
    + intros g _. reflexivity.
    + intros g _. apply (unknown_not_in_core s jid (gt_id g) HC). intros l Hl. exfalso.
      pose proof (fresh_absent s Hfr) as Ha. change (cnt_of s) with jid in Ha. congruence.
Qed.

(** * Close and forget *)
Lemma handle_close_tot s jid : HOK (hq_of s) -> exists s', handle_close s jid = Ok s'.
Proof.
  intros H. unfold handle_close. destruct (find_job (hq_jobs s) jid) as [j|] eqn:Ef; [|eexists; reflexivity].
  destruct (j_open j) eqn:Eo; [|eexists; reflexivity].
  set (j' := mkJob (j_id j) false (j_tasks j) (j_nrun j) (j_nfin j) (j_nfail j) (j_ncanc j) (j_nabort j) (j_completed j) (j_maxfails j)).
  destruct (check_termination_tot (emit (hq_set_job s j') (OEv (EvClose jid))) jid j') as (s1 & ->).
  - rewrite emit_hq. apply hq_set_job_ok; [exact H|].
    pose proof (H _ (find_job_in _ _ _ Ef)) as [Ss R F X C A Cm]. constructor; cbn; auto.
    intros Hcm. destruct (Cm Hcm) as (Ho & _). congruence.
  - change (find_job (hq_jobs (hq_set_job s j')) jid = Some j'). rewrite find_job_hq_set.
    replace (j_id j') with jid by (symmetry; exact (find_job_id _ _ _ Ef)). rewrite N.eqb_refl. reflexivity.
  - cbn [bind]. eexists; reflexivity.
Qed.

Lemma handle_forget_tot s jid : HOK (hq_of s) -> exists s', handle_forget s jid = Ok s'.
Proof.
  intros H. unfold handle_forget. destruct (find_job (hq_jobs s) jid) as [j|] eqn:Ef; [|eexists; reflexivity].
  rewrite (has_no_active_ok _ (H _ (find_job_in _ _ _ Ef))). cbn [bind]. destruct (negb (j_open j) && _); eexists; reflexivity.
Qed.

(** * All client requests *)
Definition client_op (o : op) : Prop :=
  match o with
  | OpOpen _ | OpClose _ | OpCancel _ | OpForget _ | OpPrune => True
  | OpSubmit _ _ _ _ _ _ _ _ | OpSubmitG _ _ _ _ => True
  | _ => False
  end.

(** Well-formedness of a request.  Array: the explicit ids are pairwise distinct (the real [IntArray]
    is a sorted set, so this holds of every message that deserialises).  Graph: nothing - a task
    graph whose task names a request index outside the request list of the message used to panic
    the real server (assertion in [validate_submit] / index in [build_tasks_graph], sites 223 / 224 of
    the model: finding F27); since the repair it is refused with an error before anything else is
    looked at ([Sys.bad_graph_rq]), so sites 223 / 224 are unreachable. *)
Definition op_ok (s : sys) (o : op) : Prop :=
  match o with
  | OpSubmit _ ids _ _ _ _ _ _ => NoDup ids
  | _ => True
  end.

Lemma bad_graph_rq_none n ts : bad_graph_rq n ts = None -> forall g, In g ts -> gt_rq g < N.of_nat n.
Proof.
  induction ts as [|h r IH]; cbn [bad_graph_rq]; intros H g Hin; [destruct Hin|].
  destruct (N.ltb (gt_rq h) (N.of_nat n)) eqn:E; [|discriminate].
  destruct Hin as [<-|Hin]; [apply N.ltb_lt; exact E | exact (IH H g Hin)].
Qed.

(** The two facts about the pre-state that [INV] lacks, needed by the cancel request only. *)
Definition cancel_pre (s : sys) (o : op) : Prop :=
  match o with OpCancel _ => MNE (s_core s) /\ RWA (s_core s) | _ => True end.

Theorem client_requests_never_panic s o :
  INV s -> PW s -> cancel_pre s o -> client_op o -> op_ok s o -> is_panic (step s o) = false.
Proof.
  intros [Hok Hfr HC HW HQ _ HG _] Hpw Hcp Hco Hwf.
  pose proof (PW_PWc s [] Hpw) as Hpwc.
  destruct o; try (destruct Hco; fail); cbn [step].
  - destruct (bad_submit_lengths _ _); [reflexivity|]. apply ex_np. apply handle_submit_array_tot; assumption.
  - destruct (bad_graph_rq _ _) eqn:Eb; [reflexivity|]. destruct (dead_dep _ _ _); [reflexivity|]. apply ex_np. apply handle_submit_graph_tot; try assumption. exact (bad_graph_rq_none _ _ Eb).
  - reflexivity.
  - apply close_total. exact Hok.
  - destruct Hcp as [Hmn Hrw]. apply ex_np. apply handle_cancel_tot; assumption.
  - apply forget_total. exact Hok.
  - destruct (live_jobs_tot (h_jobs (s_hq s)) Hok) as (l & ->). reflexivity.
Qed.

(** Every client request is in fact processed ([Ok], neither [Panic] nor [Disabled]). *)
Theorem client_requests_total s o :
  INV s -> PW s -> cancel_pre s o -> client_op o -> op_ok s o -> exists r, step s o = Ok r.
Proof.
  intros [Hok Hfr HC HW HQ _ HG _] Hpw Hcp Hco Hwf.
  pose proof (PW_PWc s [] Hpw) as Hpwc.
  destruct o; try (destruct Hco; fail); cbn [step].
  - destruct (bad_submit_lengths _ _); [eexists; reflexivity|]. apply handle_submit_array_tot; assumption.
  - destruct (bad_graph_rq _ _) eqn:Eb; [eexists; reflexivity|]. destruct (dead_dep _ _ _); [eexists; reflexivity|]. apply handle_submit_graph_tot; try assumption. exact (bad_graph_rq_none _ _ Eb).
  - eexists; reflexivity.
  - apply handle_close_tot. exact Hok.
  - destruct Hcp as [Hmn Hrw]. apply handle_cancel_tot; assumption.
  - apply handle_forget_tot. exact Hok.
  - destruct (live_jobs_tot (h_jobs (s_hq s)) Hok) as (l & ->). eexists; reflexivity.
Qed.

(** For reachable states ([INV] by [reachable_INV]; [PW], [MNE], [RWA] are proved for reachable states
    by colleagues: NoPanicL0.v [reachable_PW], InvWX*.v [reachable_MNE_RWA]). *)
Corollary reachable_client_requests_never_panic ops reserve maxfill s outs o :
  Forall op_wf ops -> run_fresh (init_sys reserve maxfill) ops = true -> run (init_sys reserve maxfill) ops = Ok (s, outs) ->
  PW s -> cancel_pre s o -> client_op o -> op_ok s o -> is_panic (step s o) = false.
Proof.
  intros Hwf Hf H Hpw Hcp Hco Hok. eapply client_requests_never_panic; try eassumption.
  eapply reachable_INV; eassumption.
Qed.
