(** Protocol invariant, part 6: the server side.  [SP X s pum pd] is [PROTO] generalised to the
    intermediate states of a reactor function:
      [X]   = task ids that are temporarily hidden (their word / job-flag conditions are suspended),
      [pum] = per worker, the messages that are conceptually still at the head of its up channel
              (the message being processed, cut down to what has not been consumed yet),
      [pd]  = the messages the function has decided to send but has not sent yet, in order.
    Generic transitions: sending the first pending message, and a "point" change of the core / the
    job layer / the pending lists that concerns one task. *)
From HQ Require Import Base.Prelude Cluster.Types Cluster.Core Cluster.Reactor Cluster.Worker Cluster.Server Cluster.Sys Cluster.ProofsJob Cluster.ProofsMore Cluster.ProofsWorker Cluster.NoPanicU0 Cluster.NoPanicU1 Cluster.NoPanicU2 Cluster.NoPanicU3 Cluster.NoPanicU4 Cluster.NoPanicU5.
From Coq Require Import ZArith Lia Sorting.Sorted.
Local Open Scope N_scope.

Definition msgs_for (w : wid) (pd : list (wid * dmsg)) : list dmsg := map snd (filter (fun x => N.eqb (fst x) w) pd).

Lemma msgs_for_cons w w0 m pd : msgs_for w ((w0, m) :: pd) = if N.eqb w0 w then m :: msgs_for w pd else msgs_for w pd.
Proof. unfold msgs_for. cbn [filter fst]. destruct (N.eqb w0 w); reflexivity. Qed.
Lemma msgs_for_app w a b : msgs_for w (a ++ b) = msgs_for w a ++ msgs_for w b.
Proof. unfold msgs_for. rewrite filter_app, map_app. reflexivity. Qed.
Lemma msgs_for_nil w : msgs_for w [] = [].
Proof. reflexivity. Qed.

(** The state of a task up to the number of unfinished dependencies. *)
Definition nstate (st : tstate) : tstate := match st with Waiting _ => Waiting 0 | x => x end.
Lemma view_nstate st w jr : view_of (nstate st) w jr = view_of st w jr.
Proof. destruct st; reflexivity. Qed.


(** * The job layer seen from one task *)
Definition jv (h : hq) (t : tid) : option (option jstate) :=
  match find_job (h_jobs h) (fst t) with Some j => Some (jt_find (j_tasks j) (snd t)) | None => None end.
Lemma job_running_jv h t : job_running h t = match jv h t with Some (Some JR) => true | _ => false end.
Proof. unfold job_running, jv. destruct (find_job (h_jobs h) (fst t)); reflexivity. Qed.
Lemma seen_jv h t : seen h t = N.ltb (fst t) (h_counter h) && match jv h t with Some (Some _) => true | Some None => false | None => true end.
Proof. unfold seen, jv. destruct (find_job (h_jobs h) (fst t)); reflexivity. Qed.
Definition jactive (o : option (option jstate)) : Prop := o = Some (Some JW) \/ o = Some (Some JR).

(** [hq_chg P h h']: the job layer changed the state of the tasks in [P] only; no job and no task
    id appeared or disappeared. *)
Definition hq_chg (P : tid -> Prop) (h h' : hq) : Prop :=
  h_counter h' = h_counter h /\
  forall t, (~ P t -> jv h' t = jv h t) /\ (jv h t = None <-> jv h' t = None) /\ (jv h t = Some None <-> jv h' t = Some None).
Lemma hq_chg_refl P h : hq_chg P h h.
Proof. split; [reflexivity|]. intros t. repeat split; auto. Qed.
Lemma hq_chg_trans P h1 h2 h3 : hq_chg P h1 h2 -> hq_chg P h2 h3 -> hq_chg P h1 h3.
Proof.
  intros [C1 H1] [C2 H2]. split; [congruence|]. intros t. destruct (H1 t) as (A1 & B1 & D1). destruct (H2 t) as (A2 & B2 & D2).
  split; [intros N; rewrite (A2 N); apply A1; exact N|]. split; [rewrite B1; exact B2 | rewrite D1; exact D2].
Qed.
Lemma hq_chg_weaken (P Q : tid -> Prop) h h' : (forall t, P t -> Q t) -> hq_chg P h h' -> hq_chg Q h h'.
Proof. intros I [C H]. split; [exact C|]. intros t. destruct (H t) as (A & B & D). split; [intros N; apply A; intros X; apply N, I, X | split; assumption]. Qed.
Lemma hq_chg_seen P h h' t : hq_chg P h h' -> seen h t = true -> seen h' t = true.
Proof.
  intros [C H]. rewrite !seen_jv, C. destruct (H t) as (_ & B & D). intros S. apply andb_true_iff in S. destruct S as [S1 S2]. rewrite S1. cbn [andb].
  destruct (jv h t) as [[v|]|] eqn:E; try discriminate.
  - destruct (jv h' t) as [[v'|]|] eqn:E'; [reflexivity | | reflexivity]. exfalso. assert (X : Some (Some v) = Some None) by (apply D; reflexivity). discriminate.
  - rewrite (proj1 B eq_refl). reflexivity.
Qed.

(** * The task map as a sorted list *)
Definition tsorted (c : core) : Prop := StronglySorted tlt (map t_id (c_tasks c)).
Lemma find_set_task ts x id : find_task (set_task ts x) id = if tid_eqb id (t_id x) then Some x else find_task ts id.
Proof.
  induction ts as [|h r IH]; cbn [set_task find_task]; [reflexivity|].
  destruct (tid_eqb (t_id x) (t_id h)) eqn:E1.
  - apply tid_eqb_eq in E1. cbn [find_task]. rewrite <- E1. destruct (tid_eqb id (t_id x)); reflexivity.
  - destruct (tid_ltb (t_id x) (t_id h)); cbn [find_task]; [reflexivity|].
    destruct (tid_eqb id (t_id h)) eqn:E2.
    + apply tid_eqb_eq in E2. subst id. rewrite tid_eqb_sym, E1. reflexivity.
    + exact IH.
Qed.
Lemma set_task_ids_in ts x y : In y (map t_id (set_task ts x)) -> y = t_id x \/ In y (map t_id ts).
Proof.
  induction ts as [|h r IH]; cbn [set_task map In]; [intros [H|[]]; auto|].
  destruct (tid_eqb (t_id x) (t_id h)); cbn [map In]; [intros [H|H]; auto|].
  destruct (tid_ltb (t_id x) (t_id h)); cbn [map In]; [intros [H|[H|H]]; auto|].
  intros [H|H]; [auto|]. destruct (IH H); auto.
Qed.
Lemma set_task_sorted ts x : StronglySorted tlt (map t_id ts) -> StronglySorted tlt (map t_id (set_task ts x)).
Proof.
  induction ts as [|h r IH]; cbn [set_task map]; intros Hs; [constructor; constructor|].
  inversion Hs as [|? ? Hs' Hall]; subst.
  destruct (tid_eqb (t_id x) (t_id h)) eqn:E1.
  - apply tid_eqb_eq in E1. cbn [map]. rewrite E1. constructor; assumption.
  - destruct (tid_ltb (t_id x) (t_id h)) eqn:E2; cbn [map].
    + constructor; [exact Hs|]. constructor; [exact E2|].
      rewrite Forall_forall in *. intros y Hy. eapply tlt_trans; [exact E2 | apply Hall; exact Hy].
    + constructor; [apply IH; exact Hs'|]. rewrite Forall_forall in *. intros y Hy.
      destruct (set_task_ids_in _ _ _ Hy) as [->|Hy']; [|apply Hall; exact Hy']. apply tlt_total; assumption.
Qed.
Lemma del_task_ids_in ts x y : In y (map t_id (del_task ts x)) -> In y (map t_id ts).
Proof.
  induction ts as [|h r IH]; cbn [del_task map In]; [auto|].
  destruct (tid_eqb x (t_id h)); [intros H; right; exact H|]. cbn [map In]. intros [H|H]; auto.
Qed.
Lemma del_task_sorted ts x : StronglySorted tlt (map t_id ts) -> StronglySorted tlt (map t_id (del_task ts x)).
Proof.
  induction ts as [|h r IH]; cbn [del_task map]; intros Hs; [constructor|].
  inversion Hs as [|? ? Hs' Hall]; subst. destruct (tid_eqb x (t_id h)); [exact Hs'|].
  cbn [map]. constructor; [apply IH; exact Hs'|]. rewrite Forall_forall in *. intros y Hy. apply Hall. eapply del_task_ids_in; exact Hy.
Qed.
Lemma find_task_notin ts x : ~ In x (map t_id ts) -> find_task ts x = None.
Proof.
  induction ts as [|h r IH]; cbn [find_task map In]; [reflexivity|]. intros Hn.
  destruct (tid_eqb x (t_id h)) eqn:E; [apply tid_eqb_eq in E; exfalso; apply Hn; auto | apply IH; intros X; apply Hn; auto].
Qed.
Lemma find_del_task ts x id : StronglySorted tlt (map t_id ts) ->
  find_task (del_task ts x) id = if tid_eqb id x then None else find_task ts id.
Proof.
  induction ts as [|h r IH]; cbn [del_task find_task map]; intros Hs; [destruct (tid_eqb id x); reflexivity|].
  inversion Hs as [|? ? Hs' Hall]; subst.
  destruct (tid_eqb x (t_id h)) eqn:E1.
  - apply tid_eqb_eq in E1. subst x. destruct (tid_eqb id (t_id h)) eqn:E2; [|reflexivity].
    apply tid_eqb_eq in E2. subst id. apply find_task_notin. intros Hin. rewrite Forall_forall in Hall. exact (tlt_irrefl _ (Hall _ Hin)).
  - cbn [find_task]. destruct (tid_eqb id (t_id h)) eqn:E2.
    + apply tid_eqb_eq in E2. subst id. rewrite tid_eqb_sym, E1. reflexivity.
    + apply IH. exact Hs'.
Qed.

Definition no_pum : wid -> list umsg := fun _ => [].

Record SP (X : tid -> bool) (s : st) (pum : wid -> list umsg) (pd : list (wid * dmsg)) : Prop := mkSP {
  sp_sorted : psorted (s_procs (fst s));
  sp_cs : tsorted (core_of s);
  sp_act : forall x t, find_task (c_tasks (core_of s)) x = Some t -> X x = false -> jactive (jv (hq_of s) x);
  sp_words : forall w p x t, find_proc (s_procs (fst s)) w = Some p -> find_task (c_tasks (core_of s)) x = Some t -> X x = false ->
     lang (view_of (t_state t) w (job_running (hq_of s) x)) (uitems x (pum w ++ p_up p)) (local p x)
          (ditems x (p_down p ++ msgs_for w pd)) = true;
  sp_down : forall w p, find_proc (s_procs (fst s)) w = Some p ->
     down_ok (c_rqs (core_of s)) (N.of_nat (length (p_rqs p))) (p_down p ++ msgs_for w pd) = true;
  sp_tab : forall w p, find_proc (s_procs (fst s)) w = Some p ->
     p_rqs p ++ newrq_defs (p_down p ++ msgs_for w pd) = c_rqs (core_of s);
  sp_local : forall w p, find_proc (s_procs (fst s)) w = Some p -> LOK p;
  sp_seen : forall w p x, find_proc (s_procs (fst s)) w = Some p ->
     In x (proc_tids p) \/ In x (flat_map umsg_tids (pum w)) \/ In x (flat_map dmsg_tids (msgs_for w pd)) ->
     seen (hq_of s) x = true;
  sp_pres : forall x t, find_task (c_tasks (core_of s)) x = Some t -> seen (hq_of s) x = true;
  sp_pum : forall w, pum w <> [] -> find_proc (s_procs (fst s)) w <> None;
  sp_mnrq : mn_rqs_ok (core_of s) = true;
  sp_mnt : forall x t, find_task (c_tasks (core_of s)) x = Some t -> X x = false -> mn_task_ok (core_of s) t = true;
  sp_jr : forall x t, find_task (c_tasks (core_of s)) x = Some t -> X x = false -> jr_ok (hq_of s) t = true;
  sp_rvt : forall x t w rv, find_task (c_tasks (core_of s)) x = Some t -> X x = false -> t_state t = Assigned w rv -> rv = 0;
  sp_rvr : forall r, In r (c_redirects (core_of s)) -> snd (snd r) = 0
}.

Definition x0 : tid -> bool := fun _ => false.
Definition xadd (X : tid -> bool) (id : tid) : tid -> bool := fun i => tid_eqb i id || X i.

(** * From and to [PROTO] *)
Lemma SP_init s o : PROTO s -> tsorted (s_core s) ->
  (forall x t, find_task (c_tasks (s_core s)) x = Some t -> seen (s_hq s) x = true /\ jactive (jv (s_hq s) x)) ->
  SP x0 (s, o) no_pum [].
Proof.
  intros [H9 H1 H2 H3 H4 H5 H6 H7 R1 R2] Hcs Hpa.
  assert (Hpres : forall x t, find_task (c_tasks (s_core s)) x = Some t -> seen (s_hq s) x = true) by (intros x t Hx; exact (proj1 (Hpa x t Hx))).
  constructor; cbn [fst core_of hq_of s_core s_hq s_procs no_pum app]; try assumption.
  - intros x t Hx _. exact (proj2 (Hpa x t Hx)).
  - intros w p x t Hp Ht _. rewrite msgs_for_nil, app_nil_r. eapply H1; eassumption.
  - intros w p Hp. rewrite msgs_for_nil, app_nil_r. specialize (H2 _ _ Hp). unfold rqs_ok in H2. apply andb_true_iff in H2. apply H2.
  - intros w p Hp. rewrite msgs_for_nil, app_nil_r. specialize (H2 _ _ Hp). unfold rqs_ok in H2. apply andb_true_iff in H2.
    apply rqs_eqb_eq. apply H2.
  - intros w p Hp. apply local_ok_LOK. eapply H3; eassumption.
  - intros w p x Hp [Hx|[[]|[]]]. eapply H4; eassumption.
  - intros w Hw. exfalso. apply Hw. reflexivity.
  - intros x t Ht _. eapply H6; eassumption.
  - intros x t Ht _. eapply H7; eassumption.
  - intros x t w rv Ht _ E. eapply R1; eassumption.
Qed.

Lemma SP_final s : SP x0 s no_pum [] -> PROTO (fst s).
Proof.
  intros [H9 Hcs Hact H1 Hd Ht H3 H4 Hpres Hpum H5 H6 H7 R1 R2]. constructor; try assumption.
  - intros w p x t Hp Hx. specialize (H1 w p x t Hp Hx eq_refl). cbn [no_pum app] in H1. rewrite msgs_for_nil, app_nil_r in H1. exact H1.
  - intros w p Hp. specialize (Hd _ _ Hp). specialize (Ht _ _ Hp). rewrite msgs_for_nil, app_nil_r in Hd, Ht.
    unfold rqs_ok. change (s_core (fst s)) with (core_of s). rewrite Hd. apply rqs_eqb_eq. exact Ht.
  - intros w p Hp. apply local_ok_LOK. eapply H3; eassumption.
  - intros w p x Hp Hx. eapply H4; [exact Hp | left; exact Hx].
  - intros x t Hx. eapply H6; [exact Hx | reflexivity].
  - intros x t Hx. eapply H7; [exact Hx | reflexivity].
  - intros x t w rv Hx E. eapply R1; [exact Hx | reflexivity | exact E].
Qed.

(** * Sending the first pending message *)
Lemma SP_send X s pum w m pd s' : SP X s pum ((w, m) :: pd) -> send_worker s w m = Ok s' -> SP X s' pum pd.
Proof.
  intros [H9 Hcs Hact H1 Hd Ht H3 H4 Hpres Hpum H5 H6 H7 R1 R2] H. unfold send_worker in H.
  destruct (find_proc (s_procs (fst s)) w) as [p0|] eqn:Hp0; [|discriminate]. inversion H; subst s'. clear H.
  destruct (find_proc_some _ _ _ Hp0) as [_ Hid0].
  assert (Hfp : forall w' p, find_proc (set_proc (s_procs (fst s)) (push_down p0 m)) w' = Some p ->
            exists q, find_proc (s_procs (fst s)) w' = Some q /\ p_up p = p_up q /\ p_rqs p = p_rqs q /\ p_running p = p_running q
                      /\ p_backlog p = p_backlog q /\ p_futures p = p_futures q /\ p_alloc p = p_alloc q
                      /\ p_down p ++ msgs_for w' pd = p_down q ++ msgs_for w' ((w, m) :: pd)).
  { intros w' p Hf. rewrite find_set_proc in Hf. cbn [push_down p_id] in Hf. rewrite Hid0 in Hf. rewrite msgs_for_cons, (N.eqb_sym w w').
    destruct (N.eqb w' w) eqn:E.
    - apply N.eqb_eq in E. subst w'. inversion Hf; subst p. exists p0. cbn [push_down p_up p_rqs p_running p_backlog p_futures p_alloc p_down].
      repeat split; try assumption. rewrite <- app_assoc. reflexivity.
    - exists p. repeat split. exact Hf. }
  constructor; cbn [fst snd core_of hq_of with_procs s_core s_hq s_procs] in *; try assumption.
  - apply set_proc_sorted. exact H9.
  - intros w' p x t Hp Hx HX. destruct (Hfp _ _ Hp) as (q & Hq & E1 & E2 & E3 & E4 & E5 & E6 & E7).
    rewrite E7, E1, (local_eq q p x E3 E4). eapply H1; eassumption.
  - intros w' p Hp. destruct (Hfp _ _ Hp) as (q & Hq & E1 & E2 & E3 & E4 & E5 & E6 & E7). rewrite E7, E2. eapply Hd; eassumption.
  - intros w' p Hp. destruct (Hfp _ _ Hp) as (q & Hq & E1 & E2 & E3 & E4 & E5 & E6 & E7). rewrite E7, E2. eapply Ht; eassumption.
  - intros w' p Hp. destruct (Hfp _ _ Hp) as (q & Hq & E1 & E2 & E3 & E4 & E5 & E6 & E7).
    destruct (H3 _ _ Hq) as [L1 L2 L3 L4 L5]. constructor; rewrite ?E3, ?E4, ?E5, ?E6; assumption.
  - intros w' p x Hp Hx. destruct (Hfp _ _ Hp) as (q & Hq & E1 & E2 & E3 & E4 & E5 & E6 & E7).
    apply (H4 w' q x Hq).
    assert (Hd' : In x (flat_map dmsg_tids (p_down p)) \/ In x (flat_map dmsg_tids (msgs_for w' pd)) ->
                  In x (flat_map dmsg_tids (p_down q)) \/ In x (flat_map dmsg_tids (msgs_for w' ((w, m) :: pd)))).
    { rewrite <- !in_app_iff, <- !flat_map_app, E7. auto. }
    unfold proc_tids in *. rewrite !in_app_iff in *. rewrite E1, E3, E4 in Hx. tauto.
  - intros w' Hw'. specialize (Hpum _ Hw'). rewrite find_set_proc. destruct (N.eqb w' (p_id (push_down p0 m))); [discriminate | exact Hpum].
Qed.

(** * A general change of the core, the job layer, the outputs and the pending lists (the processes
    do not change); the tasks selected by [sp] are treated explicitly, all others keep their view. *)
Lemma SP_gen2 (sp : tid -> bool) X X' s pum pd c' h' o' pum' pd' :
  SP X s pum pd ->
  tsorted c' ->
  c_rqs c' = c_rqs (core_of s) ->
  (forall r, In r (c_redirects c') -> snd (snd r) = 0) ->
  (forall y t', sp y = false -> find_task (c_tasks c') y = Some t' -> X' y = false ->
      exists t, find_task (c_tasks (core_of s)) y = Some t /\ X y = false /\ nstate (t_state t') = nstate (t_state t)
                /\ t_rq t' = t_rq t /\ jv h' y = jv (hq_of s) y) ->
  (forall w y, sp y = false -> uitems y (pum' w) = uitems y (pum w) /\ ditems y (msgs_for w pd') = ditems y (msgs_for w pd)) ->
  (forall y, seen (hq_of s) y = true -> seen h' y = true) ->
  (forall y t', find_task (c_tasks c') y = Some t' -> find_task (c_tasks (core_of s)) y <> None \/ seen h' y = true) ->
  (forall w p y, find_proc (s_procs (fst s)) w = Some p ->
      In y (flat_map umsg_tids (pum' w)) \/ In y (flat_map dmsg_tids (msgs_for w pd')) -> seen (hq_of s) y = true) ->
  (forall w p, find_proc (s_procs (fst s)) w = Some p ->
      down_ok (c_rqs c') (N.of_nat (length (p_rqs p))) (p_down p ++ msgs_for w pd') = true
      /\ newrq_defs (msgs_for w pd') = newrq_defs (msgs_for w pd)) ->
  (forall w, pum' w <> [] -> pum w <> []) ->
  (forall x t', sp x = true -> find_task (c_tasks c') x = Some t' -> X' x = false ->
      jactive (jv h' x) /\ mn_task_ok c' t' = true /\ jr_ok h' t' = true /\ (forall w rv, t_state t' = Assigned w rv -> rv = 0) /\
      forall w p, find_proc (s_procs (fst s)) w = Some p ->
        lang (view_of (t_state t') w (job_running h' x)) (uitems x (pum' w ++ p_up p)) (local p x)
             (ditems x (p_down p ++ msgs_for w pd')) = true) ->
  SP X' (mkSys c' h' (s_procs (fst s)), o') pum' pd'.
Proof.
  intros [H9 Hcs Hact H1 Hd Ht H3 H4 Hpres Hpum H5 H6 H7 R1 R2] Hcs' Erq Hred Hoth Hitems Hseen Hsub Hnew Htab Hpm Hx.
  assert (Hjr : forall y t' (t : task), sp y = false -> find_task (c_tasks c') y = Some t' -> X' y = false -> job_running h' y = job_running (hq_of s) y).
  { intros y t' _ E Hy HX'. destruct (Hoth y t' E Hy HX') as (t & _ & _ & _ & _ & Ej). rewrite !job_running_jv, Ej. reflexivity. }
  constructor; cbn [fst snd core_of hq_of s_core s_hq s_procs]; try assumption.
  - intros y t' Hy HX'. destruct (sp y) eqn:E.
    + exact (proj1 (Hx y t' E Hy HX')).
    + destruct (Hoth y t' E Hy HX') as (t & Hf & HXy & _ & _ & Ej). rewrite Ej. eapply Hact; eassumption.
  - intros w p y t' Hp Hy HX'. destruct (sp y) eqn:E.
    + destruct (Hx y t' E Hy HX') as (_ & _ & _ & _ & Hl). apply Hl. exact Hp.
    + destruct (Hoth y t' E Hy HX') as (t & Hf & HXy & Est & _ & Ejv).
      destruct (Hitems w y E) as [Eu Edd].
      rewrite uitems_app, ditems_app, Eu, Edd, <- uitems_app, <- ditems_app, (Hjr y t' t E Hy HX'), <- view_nstate, Est, view_nstate.
      eapply H1; eassumption.
  - intros w p Hp. exact (proj1 (Htab _ _ Hp)).
  - intros w p Hp. rewrite Erq. unfold newrq_defs. rewrite flat_map_app. fold (newrq_defs (p_down p)). fold (newrq_defs (msgs_for w pd')).
    rewrite (proj2 (Htab _ _ Hp)). specialize (Ht _ _ Hp). unfold newrq_defs in Ht. rewrite flat_map_app in Ht. exact Ht.
  - intros w p y Hp [Hy|Hy]; apply Hseen; [eapply H4; [exact Hp | left; exact Hy] | eapply Hnew; eassumption].
  - intros y t' Hy. destruct (Hsub _ _ Hy) as [Hne|Hsn]; [|exact Hsn]. apply Hseen.
    destruct (find_task (c_tasks (core_of s)) y) as [t|] eqn:Ef; [eapply Hpres; exact Ef | exfalso; exact (Hne eq_refl)].
  - intros w Hw. apply Hpum. apply Hpm. exact Hw.
  - unfold mn_rqs_ok in *. rewrite Erq. exact H5.
  - intros y t' Hy HX'. destruct (sp y) eqn:E.
    + exact (proj1 (proj2 (Hx y t' E Hy HX'))).
    + destruct (Hoth y t' E Hy HX') as (t & Hf & HXy & Est & Er & _).
      specialize (H6 _ _ Hf HXy). unfold mn_task_ok in *. rewrite Erq, Er.
      destruct (t_state t'), (t_state t); cbn [nstate] in Est; try discriminate; try exact H6; reflexivity.
  - intros y t' Hy HX'. destruct (sp y) eqn:E.
    + exact (proj1 (proj2 (proj2 (Hx y t' E Hy HX')))).
    + destruct (Hoth y t' E Hy HX') as (t & Hf & HXy & Est & _ & Ejv).
      specialize (H7 _ _ Hf HXy). unfold jr_ok in *. destruct (find_task_some _ _ _ Hy) as [_ Ey]. destruct (find_task_some _ _ _ Hf) as [_ Ey0].
      rewrite Ey, (Hjr y t' t E Hy HX'). rewrite Ey0 in H7.
      destruct (t_state t'), (t_state t); cbn [nstate] in Est; try discriminate; try exact H7; reflexivity.
  - intros y t' w rv Hy HX' Est'. destruct (sp y) eqn:E.
    + destruct (Hx y t' E Hy HX') as (_ & _ & _ & Hr & _). eapply Hr; exact Est'.
    + destruct (Hoth y t' E Hy HX') as (t & Hf & HXy & Est & _).
      rewrite Est' in Est. cbn [nstate] in Est. destruct (t_state t) eqn:Et; cbn [nstate] in Est; try discriminate. inversion Est; subst.
      eapply R1; eassumption.
Qed.

Lemma SP_gen (sp : tid -> bool) X X' s pum pd c' h' o' pum' pd' :
  SP X s pum pd ->
  tsorted c' ->
  c_rqs c' = c_rqs (core_of s) ->
  (forall r, In r (c_redirects c') -> snd (snd r) = 0) ->
  (forall y t', sp y = false -> find_task (c_tasks c') y = Some t' -> X' y = false ->
      exists t, find_task (c_tasks (core_of s)) y = Some t /\ X y = false /\ nstate (t_state t') = nstate (t_state t)
                /\ t_rq t' = t_rq t /\ jv h' y = jv (hq_of s) y) ->
  (forall w y, sp y = false -> uitems y (pum' w) = uitems y (pum w) /\ ditems y (msgs_for w pd') = ditems y (msgs_for w pd)) ->
  (forall y, seen (hq_of s) y = true -> seen h' y = true) ->
  (forall y t', find_task (c_tasks c') y = Some t' -> find_task (c_tasks (core_of s)) y <> None) ->
  (forall w p y, find_proc (s_procs (fst s)) w = Some p ->
      In y (flat_map umsg_tids (pum' w)) \/ In y (flat_map dmsg_tids (msgs_for w pd')) -> seen (hq_of s) y = true) ->
  (forall w p, find_proc (s_procs (fst s)) w = Some p ->
      down_ok (c_rqs c') (N.of_nat (length (p_rqs p))) (p_down p ++ msgs_for w pd') = true
      /\ newrq_defs (msgs_for w pd') = newrq_defs (msgs_for w pd)) ->
  (forall w, pum' w <> [] -> pum w <> []) ->
  (forall x t', sp x = true -> find_task (c_tasks c') x = Some t' -> X' x = false ->
      jactive (jv h' x) /\ mn_task_ok c' t' = true /\ jr_ok h' t' = true /\ (forall w rv, t_state t' = Assigned w rv -> rv = 0) /\
      forall w p, find_proc (s_procs (fst s)) w = Some p ->
        lang (view_of (t_state t') w (job_running h' x)) (uitems x (pum' w ++ p_up p)) (local p x)
             (ditems x (p_down p ++ msgs_for w pd')) = true) ->
  SP X' (mkSys c' h' (s_procs (fst s)), o') pum' pd'.
Proof.
  intros HS Hcs' Erq Hred Hoth Hitems Hseen Hsub Hnew Htab Hpm Hx.
  apply (SP_gen2 sp X X' s pum pd c' h' o' pum' pd' HS Hcs' Erq Hred Hoth Hitems Hseen); try assumption.
  intros y t' Hy. left. eapply Hsub. exact Hy.
Qed.

(** The core changes, visible tasks keep their view data (or disappear, or get hidden). *)
Lemma SP_core X X' s pum pd c' :
  SP X s pum pd ->
  tsorted c' ->
  c_rqs c' = c_rqs (core_of s) ->
  (forall r, In r (c_redirects c') -> In r (c_redirects (core_of s))) ->
  (forall y t', find_task (c_tasks c') y = Some t' -> X' y = false ->
      exists t, find_task (c_tasks (core_of s)) y = Some t /\ X y = false /\ nstate (t_state t') = nstate (t_state t) /\ t_rq t' = t_rq t) ->
  (forall y t', find_task (c_tasks c') y = Some t' -> find_task (c_tasks (core_of s)) y <> None) ->
  SP X' (st_core s c') pum pd.
Proof.
  intros H Hcs Erq Hred Hoth Hsub. destruct s as [[c h ps] o].
  apply (SP_gen (fun _ => false) X X' ((mkSys c h ps), o) pum pd c' h o pum pd H Hcs Erq).
  - intros r Hr. apply (sp_rvr _ _ _ _ H). apply Hred. exact Hr.
  - intros y t' _ Hy HX'. destruct (Hoth y t' Hy HX') as (t & A & B & C & D). exists t. repeat split; assumption.
  - intros w y _. split; reflexivity.
  - auto.
  - exact Hsub.
  - intros w p y Hp Hy. eapply (sp_seen _ _ _ _ H); [exact Hp | right; exact Hy].
  - intros w p Hp. split; [|reflexivity]. rewrite Erq. eapply (sp_down _ _ _ _ H). exact Hp.
  - auto.
  - intros x t' E. discriminate.
Qed.

(** Only the outputs / the scheduling flag change. *)
Lemma SP_outs X s pum pd o' : SP X s pum pd -> SP X (fst s, o') pum pd.
Proof. intros [H9 Hcs Hact H1 Hd Ht H3 H4 Hpres Hpum H5 H6 H7 R1 R2]. constructor; assumption. Qed.
Lemma SP_emit X s pum pd o : SP X s pum pd -> SP X (emit s o) pum pd.
Proof. apply SP_outs. Qed.
Lemma SP_ask X s pum pd : SP X s pum pd -> SP X (ask_scheduling s) pum pd.
Proof.
  intros H. unfold ask_scheduling. apply (SP_core X X s pum pd); [exact H | exact (sp_cs _ _ _ _ H) | reflexivity | auto | | ].
  - intros y t' Hy HX. exists t'. repeat split; assumption.
  - intros y t' Hy. unfold core_of in *. cbn [with_flag c_tasks] in Hy. congruence.
Qed.

(** The job layer changes; the Running flag of visible tasks and seen ids are kept. *)
Lemma SP_hq X s pum pd h' o' :
  SP X s pum pd ->
  (forall y t, find_task (c_tasks (core_of s)) y = Some t -> X y = false -> jv h' y = jv (hq_of s) y) ->
  (forall y, seen (hq_of s) y = true -> seen h' y = true) ->
  SP X (mkSys (core_of s) h' (s_procs (fst s)), o') pum pd.
Proof.
  intros H Hjr Hseen.
  apply (SP_gen (fun _ => false) X X s pum pd (core_of s) h' o' pum pd H (sp_cs _ _ _ _ H) eq_refl).
  - exact (sp_rvr _ _ _ _ H).
  - intros y t' _ Hy HX'. exists t'. repeat split; try assumption. eapply Hjr; eassumption.
  - intros w y _. split; reflexivity.
  - exact Hseen.
  - intros y t' Hy. congruence.
  - intros w p y Hp Hy. eapply (sp_seen _ _ _ _ H); [exact Hp | right; exact Hy].
  - intros w p Hp. split; [|reflexivity]. eapply (sp_down _ _ _ _ H). exact Hp.
  - auto.
  - intros x t' E. discriminate.
Qed.
