(** MNE / RWA / MND, part 2: the remaining reactor functions, the server side, scheduling. *)
From HQ Require Import Base.Prelude Cluster.Types Cluster.Core Cluster.Reactor Cluster.Worker Cluster.Server Cluster.Sys Cluster.ProofsJob Cluster.ProofsMore Cluster.ProofsStep Cluster.BijBase Cluster.BijCore Cluster.BijHq Cluster.BijSt Cluster.InvWBase Cluster.InvWX1.
From Coq Require Import ZArith Lia Sorting.Sorted.
Local Open Scope N_scope.

Arguments N.add : simpl never.
Arguments N.sub : simpl never.

Ltac dm := first [apply Dm_eq; reflexivity | eapply Dm_set1; reflexivity | eapply Dm_set2; reflexivity].

(** * task_running, task_reject, request_enabled, on_retract_response *)
Lemma task_running_R s w id rv s' b : task_running s w id rv = Ok (s', b) -> R (core_of s) (core_of s').
Proof.
  intros H. unfold task_running in H.
  destruct (find_task (c_tasks (core_of s)) id) as [t|]; [|inversion H; subst; apply Rm_refl].
  apply bind_ok in H. destruct H as (rq & _ & H). apply bind_ok in H. destruct H as ([s1 ws] & H1 & H).
  apply bind_ok in H. destruct H as (s2 & H2 & H). inversion H; subst s' b.
  destruct (process_task_started_active _ _ _ _ _ _ H2) as [C2 _]. unfold core_same in C2. rewrite C2. clear H2 C2 H.
  destruct (t_state t) as [n|w1 rv1|w1|w1|w1 rv1|wsx|]; try discriminate.
  - destruct (negb (N.eqb w1 w)); [discriminate|]. destruct (negb (N.eqb rv1 rv)); [discriminate|]. inversion H1; subst s1 ws.
    eapply (R_set_ok _ _ (with_state t (Running w rv))); [reflexivity | dm | exact I].
  - destruct (negb (N.eqb w1 w)); [discriminate|]. inv_binds H1. inversion H1; subst s1 ws.
    eapply (R_set_ok _ _ (with_state t (Running w rv))); [reflexivity | dm | exact I].
  - destruct (negb (N.eqb w1 w)); [discriminate|].
    apply bind_ok in H1. destruct H1 as (c1 & Hc1 & H1). inv_binds H1. inversion H1; subst s1 ws.
    eapply R_trans; [|eapply R_trans; [eapply try_remove_redirection_R; exact Hc1|]].
    + apply R_tasks; [reflexivity | dm].
    + eapply (R_set_ok _ _ (with_state t (Running w rv))); [reflexivity | dm | exact I].
  - destruct wsx; [discriminate|]. destruct (N.eqb w0 w); [|discriminate]. inversion H1; subst s1 ws. apply Rm_refl.
Qed.

Lemma requeue_R s t c1 s' b :
  (do (qs, ret) <- add_ready_task (c_queues c1) (with_state t (Waiting 0));
   do s'' <- process_retracted (st_core s (with_queues (upd_task c1 (with_state t (Waiting 0))) qs)) ret;
   Ok (s'', true)) = Ok (s', b) -> R c1 (core_of s').
Proof.
  intros H. apply bind_ok in H. destruct H as ([qs ret] & _ & H). apply bind_ok in H. destruct H as (s2 & Hr & H). inversion H; subst.
  eapply R_trans; [|exact (process_retracted_R _ _ _ Hr)].
  eapply (R_set_ok _ _ (with_state t (Waiting 0))); [reflexivity | dm | exact I].
Qed.

Lemma task_reject_R s w id rv s' b : task_reject s w id rv = Ok (s', b) -> R (core_of s) (core_of s').
Proof.
  intros H. unfold task_reject in H. set (c := core_of s) in *.
  destruct (find_task (c_tasks c) id) as [t|]; [|inversion H; subst; apply Rm_refl].
  apply bind_ok in H. destruct H as (wk & _ & H). cbv zeta in H.
  match type of H with context [upd_worker c ?k] => set (wk1 := k) in * end.
  assert (R0 : R c (upd_worker c wk1)) by (apply R_tasks; [reflexivity | dm]).
  apply bind_ok in H. destruct H as (rq & _ & H).
  destruct (t_state t) as [n|w1 rv1|w1|w1|w1 rv1|wsx|];
    try (apply bind_ok in H; destruct H as (r0 & Hr0 & _); discriminate).
  - apply bind_ok in H. destruct H as ([c1 cont] & Hr & H).
    assert (R1 : R (upd_worker c wk1) c1).
    { destruct (negb (N.eqb w w1)); [inversion Hr; subst; apply Rm_refl|].
      destruct rv as [v|]; [|inversion Hr; subst; apply Rm_refl].
      destruct (N.eqb v rv1); [|inversion Hr; subst; apply Rm_refl].
      inv_binds Hr. inversion Hr; subst. apply R_tasks; [reflexivity | dm]. }
    eapply R_trans; [exact R0|]. eapply R_trans; [exact R1|]. eapply requeue_R; exact H.
  - apply bind_ok in H. destruct H as ([c1 cont] & Hr & H).
    assert (R1 : R (upd_worker c wk1) c1) by (inv_binds Hr; inversion Hr; subst; apply R_tasks; [reflexivity | dm]).
    eapply R_trans; [exact R0|]. eapply R_trans; [exact R1|]. eapply requeue_R; exact H.
  - apply bind_ok in H. destruct H as ([c1 cont] & Hr & H).
    assert (E1 : c1 = upd_worker c wk1) by (destruct (negb (N.eqb w w1)); inversion Hr; reflexivity). subst c1.
    eapply R_trans; [exact R0|].
    destruct cont.
    + destruct (find_redirect (c_redirects (upd_worker c wk1)) id) as [[target rvt]|].
      * apply bind_ok in H. destruct H as (s1 & Hs1 & H). inversion H; subst s' b.
        rewrite (send_worker_core _ _ _ _ Hs1).
        eapply (R_set_ok _ _ (with_state t (Assigned target rvt))); [reflexivity | dm | exact I].
      * eapply requeue_R; exact H.
    + inversion H; subst. apply Rm_refl.
Qed.

Lemma request_enabled_R s w rq rv s' : request_enabled s w rq rv = Ok s' -> R (core_of s) (core_of s').
Proof.
  intros H. unfold request_enabled in H. apply bind_ok in H. destruct H as (wk & _ & H). inversion H; subst s'.
  apply R_tasks; [reflexivity | dm].
Qed.

Lemma apply_updates_R us : forall s w need s' need', apply_updates s w us need = Ok (s', need') -> R (core_of s) (core_of s').
Proof.
  induction us as [|u r IH]; cbn [apply_updates]; intros s w need s' need' H; [inversion H; subst; apply Rm_refl|].
  apply bind_ok in H. destruct H as ([s1 n1] & Hu & H).
  eapply R_trans; [|eapply IH; exact H].
  destruct u.
  - eapply task_finished_R; exact Hu.
  - apply bind_ok in Hu. destruct Hu as (sx & Hf & Hu). inversion Hu; subst. eapply task_failed_R; exact Hf.
  - eapply task_running_R; exact Hu.
  - eapply task_running_R; exact Hu.
  - eapply task_reject_R; exact Hu.
  - apply bind_ok in Hu. destruct Hu as (sx & Hf & Hu). inversion Hu; subst. eapply request_enabled_R; exact Hf.
Qed.

Lemma on_task_update_R s w us s' : on_task_update s w us = Ok s' -> R (core_of s) (core_of s').
Proof.
  intros H. unfold on_task_update in H. apply bind_ok in H. destruct H as ([s1 need] & Hu & H).
  pose proof (apply_updates_R _ _ _ _ _ _ Hu) as R1.
  destruct (need && _); inversion H; subst; [|exact R1].
  eapply R_trans; [exact R1|]. apply R_tasks; [reflexivity | dm].
Qed.

Lemma retract_response_states_R ids : forall c w acc c' acc', retract_response_states c w ids acc = (c', acc') -> R c c'.
Proof.
  induction ids as [|id r IH]; cbn [retract_response_states]; intros c w acc c' acc' H; [inversion H; subst; apply Rm_refl|].
  destruct (find_task (c_tasks c) id) as [t|]; [|eapply IH; exact H].
  destruct (t_state t); try (eapply IH; exact H).
  destruct (N.eqb w w0); [|eapply IH; exact H].
  destruct (find_redirect (c_redirects c) id) as [[target rv]|].
  - eapply R_trans; [|eapply IH; exact H]. eapply (R_set_ok _ _ (with_state t (Assigned target rv))); [reflexivity | dm | exact I].
  - eapply R_trans; [|eapply IH; exact H]. eapply (R_set_ok _ _ (with_state t (Waiting 0))); [reflexivity | dm | exact I].
Qed.

Lemma on_retract_response_R s w ids s' : on_retract_response s w ids = Ok s' -> R (core_of s) (core_of s').
Proof.
  unfold on_retract_response. intros H. destruct (retract_response_states _ w ids []) as [c' groups] eqn:E.
  apply bind_ok in H. destruct H as (s2 & H & H2).
  assert (X2 : R (core_of s) (core_of s2)).
  { rewrite (send_redirected_core _ _ _ H). eapply retract_response_states_R; exact E. }
  destruct (retract_wakes _ _ _ _); inversion H2; subst s'; clear H2; [|exact X2].
  eapply R_trans; [exact X2|]. apply R_tasks; [reflexivity | dm].
Qed.

(** * Server: new worker, new tasks *)
Lemma on_new_worker_R s rs g s' : on_new_worker s rs g = Ok s' -> R (core_of s) (core_of s').
Proof. intros H. unfold on_new_worker in H. inversion H; subst s'. apply R_tasks; [reflexivity | dm]. Qed.

Lemma register_deps_R deps : forall c id kept count c' kept' count', register_deps c id deps kept count = (c', kept', count') -> R c c'.
Proof.
  induction deps as [|d r IH]; cbn [register_deps]; intros c id kept count c' kept' count' H; [inversion H; subst; apply Rm_refl|].
  destruct (find_task (c_tasks c) d) as [dep|] eqn:Ef; [|eapply IH; exact H].
  eapply R_trans; [|eapply IH; exact H].
  eapply (R_set_same _ _ (with_consumers dep (tid_insert id (t_consumers dep))) dep); [reflexivity | dm | eapply find_in; exact Ef | reflexivity | reflexivity].
Qed.

Lemma add_new_tasks_R ts : forall c ret c' ret', add_new_tasks c ts ret = Ok (c', ret') -> R c c'.
Proof.
  induction ts as [|t r IH]; cbn [add_new_tasks]; intros c ret c' ret' H; [inversion H; subst; apply Rm_refl|].
  destruct (register_deps c (t_id t) (t_deps t) [] 0) as [[c1 kept] count] eqn:Er.
  pose proof (register_deps_R _ _ _ _ _ _ _ _ Er) as R1.
  apply bind_ok in H. destruct H as ([c2 rt] & H2 & H).
  assert (R2 : R c1 c2).
  { destruct (N.eqb count 0); [|inversion H2; subst; apply Rm_refl].
    apply bind_ok in H2. destruct H2 as ([qs rt'] & _ & H2). inversion H2; subst. apply R_tasks; [reflexivity | dm]. }
  destruct (find_task (c_tasks c2) (t_id t)); [discriminate|].
  eapply R_trans; [exact R1|]. eapply R_trans; [exact R2|]. eapply R_trans; [|eapply IH; exact H].
  eapply (R_set_ok _ _ (with_state (with_deps t kept) (Waiting count))); [reflexivity | dm | exact I].
Qed.

Lemma on_new_tasks_R s ts s' : on_new_tasks s ts = Ok s' -> R (core_of s) (core_of s').
Proof.
  intros H. unfold on_new_tasks in H. destruct ts as [|t0 tr] eqn:Et; [inversion H; subst; apply Rm_refl|]. rewrite <- Et in *. clear Et.
  apply bind_ok in H. destruct H as ([c' retracted] & Ha & H). apply bind_ok in H. destruct H as (s1 & Hr & H). inversion H; subst s'.
  eapply R_trans; [eapply add_new_tasks_R; exact Ha|].
  eapply R_trans; [exact (process_retracted_R (st_core s c') _ _ Hr)|]. apply R_tasks; [reflexivity | dm].
Qed.

(** * Server: the pieces of on_remove_worker that keep all workers *)
Lemma lost_prefilled_R l : forall c c', lost_prefilled c l = Ok c' -> R c c'.
Proof.
  induction l as [|id r IH]; cbn [lost_prefilled]; intros c c' H; [inversion H; subst; apply Rm_refl|].
  apply bind_ok in H. destruct H as (t & _ & H). apply bind_ok in H. destruct H as (q & _ & H). apply bind_ok in H. destruct H as (q' & _ & H).
  eapply R_trans; [|eapply IH; exact H].
  eapply (R_set_ok _ _ (with_state (with_inst t (t_inst t + 1)) (Waiting 0))); [reflexivity | dm | exact I].
Qed.

Lemma lost_assigned_R l : forall c running ret c' running' ret', lost_assigned c l running ret = Ok (c', running', ret') -> R c c'.
Proof.
  induction l as [|id r IH]; cbn [lost_assigned]; intros c running ret c' running' ret' H; [inversion H; subst; apply Rm_refl|].
  apply bind_ok in H. destruct H as (t & Ht & H). apply get_task_find in Ht.
  apply bind_ok in H. destruct H as ([[c1 t1] running1] & Hr1 & H).
  apply bind_ok in H. destruct H as ([qs rt] & _ & H).
  eapply R_trans; [|eapply IH; exact H].
  assert (E1 : c_tasks c1 = c_tasks c /\ c_workers c1 = c_workers c /\ (t1 = t \/ t1 = with_state t (Waiting 0))).
  { destruct (t_state t); try (inversion Hr1; subst; auto; fail).
    destruct (find_redirect _ id); inversion Hr1; subst; auto. }
  destruct E1 as (Et & Ew & [-> | ->]).
  - eapply (R_set_same _ _ (with_inst t (t_inst t + 1)) t); [cbn [c_tasks upd_task with_tasks with_queues]; rewrite Et; reflexivity
      | apply Dm_eq; cbn [c_workers upd_task with_tasks with_queues]; exact Ew | eapply find_in; exact Ht | reflexivity | reflexivity].
  - eapply (R_set_ok _ _ (with_inst (with_state t (Waiting 0)) (t_inst (with_state t (Waiting 0)) + 1)));
      [cbn [c_tasks upd_task with_tasks with_queues]; rewrite Et; reflexivity | apply Dm_eq; cbn [c_workers upd_task with_tasks with_queues]; exact Ew | exact I].
Qed.

Lemma lost_fail_running_R l : forall s reason s', lost_fail_running s reason l = Ok s' -> R (core_of s) (core_of s').
Proof.
  induction l as [|id r IH]; cbn [lost_fail_running]; intros s reason s' H; [inversion H; subst; apply Rm_refl|].
  destruct (find_task (c_tasks (core_of s)) id) as [t|] eqn:Ef; [|eapply IH; exact H].
  assert (Hc : forall t' limit, increment_crash_counter t = (t', limit) -> R (core_of s) (core_of (st_core s (upd_task (core_of s) t')))).
  { intros t' limit Ei. unfold increment_crash_counter in Ei. inversion Ei; subst.
    eapply (R_set_same _ _ (with_crash t (t_crash t + 1)) t); [reflexivity | dm | eapply find_in; exact Ef | reflexivity | reflexivity]. }
  destruct (t_climit t).
  - apply bind_ok in H. destruct H as (s1 & Hf & H). eapply R_trans; [eapply task_failed_R; exact Hf | eapply IH; exact H].
  - destruct (reason_is_failure reason); [|eapply IH; exact H].
    destruct (increment_crash_counter t) as [t' limit] eqn:Ei. specialize (Hc t' limit eq_refl). destruct limit.
    + apply bind_ok in H. destruct H as (s1 & Hf & H).
      eapply R_trans; [exact Hc|]. eapply R_trans; [eapply task_failed_R; exact Hf | eapply IH; exact H].
    + eapply R_trans; [exact Hc | eapply IH; exact H].
  - destruct (reason_is_failure reason); [|eapply IH; exact H].
    destruct (increment_crash_counter t) as [t' limit] eqn:Ei. specialize (Hc t' limit eq_refl). destruct limit.
    + apply bind_ok in H. destruct H as (s1 & Hf & H).
      eapply R_trans; [exact Hc|]. eapply R_trans; [eapply task_failed_R; exact Hf | eapply IH; exact H].
    + eapply R_trans; [exact Hc | eapply IH; exact H].
Qed.

(** * Scheduling *)
Lemma map_one_R c m id w v rqres c' m' : map_one c m id w v rqres = Ok (c', m') -> R c c'.
Proof.
  intros H. unfold map_one in H.
  apply bind_ok in H. destruct H as (wk & _ & H). apply bind_ok in H. destruct H as (wk' & _ & H).
  apply bind_ok in H. destruct H as (t & _ & H).
  destruct (t_state t) as [n|w1 rv1|old|old|w1 rv1|wsx|]; try discriminate.
  - inversion H; subst. eapply (R_set_ok _ _ (with_state t (Assigned w v))); [reflexivity | dm | exact I].
  - destruct (find_worker (c_workers (upd_worker c wk')) old) as [wo|] eqn:Hwo; [|discriminate].
    apply bind_ok in H. destruct H as (wo' & _ & H).
    destruct (find_redirect _ id); [discriminate|]. inversion H; subst.
    eapply R_trans; [apply (R_tasks c (upd_worker c wk')); [reflexivity | dm]|].
    eapply (R_set_ok _ _ (with_state t (Retracting old))); [reflexivity | dm | change (find_worker (c_workers (upd_worker c wk')) old <> None); rewrite Hwo; discriminate].
  - destruct (find_redirect _ id) as [[ot vo]|].
    + inv_binds H. inversion H; subst. apply R_tasks; [reflexivity | dm].
    + inversion H; subst. apply R_tasks; [reflexivity | dm].
Qed.

Lemma rr_pass_R counts : forall c m tasks v rqres c' m' counts' rest,
  rr_pass c m counts tasks v rqres = Ok (c', m', counts', rest) -> R c c'.
Proof.
  induction counts as [|[w n] r IH]; intros c m tasks v rqres c' m' counts' rest H.
  - destruct tasks; cbn [rr_pass] in H; inversion H; subst; apply Rm_refl.
  - destruct tasks as [|id tl]; cbn [rr_pass] in H; [inversion H; subst; apply Rm_refl|].
    destruct (N.ltb 0 n).
    + apply bind_ok in H. destruct H as ([c1 m1] & H1 & H).
      apply bind_ok in H. destruct H as ([[[c2 m2] r'] tl'] & H2 & H). inversion H; subst.
      eapply R_trans; [eapply map_one_R; exact H1 | eapply IH; exact H2].
    + apply bind_ok in H. destruct H as ([[[c2 m2] r'] tl'] & H2 & H). inversion H; subst. eapply IH; exact H2.
Qed.

Lemma rr_loop_R fuel : forall c m counts tasks v rqres c' m', rr_loop fuel c m counts tasks v rqres = Ok (c', m') -> R c c'.
Proof.
  induction fuel as [|k IH]; intros c m counts tasks v rqres c' m' H; destruct tasks as [|id tl]; cbn [rr_loop] in H;
    try (inversion H; subst; apply Rm_refl); try discriminate.
  apply bind_ok in H. destruct H as ([[[c1 m1] counts1] rest] & H1 & H).
  eapply R_trans; [eapply rr_pass_R; exact H1 | eapply IH; exact H].
Qed.

Lemma map_sn_R sol l : forall c m c' m', map_sn c m sol l = Ok (c', m') -> R c c'.
Proof.
  induction l as [|[[rq v] counts] r IH]; cbn [map_sn]; intros c m c' m' H; [inversion H; subst; apply Rm_refl|].
  apply bind_ok in H. destruct H as (rqd & _ & H). apply bind_ok in H. destruct H as (q & _ & H).
  apply bind_ok in H. destruct H as ([tasks q'] & _ & H). apply bind_ok in H. destruct H as ([c2 m2] & H2 & H).
  eapply R_trans; [|eapply IH; exact H]. eapply R_trans; [|eapply rr_loop_R; exact H2]. apply R_tasks; [reflexivity | dm].
Qed.

(** A multi-node placement names distinct workers: the second placement of a worker panics. *)
Lemma set_mn_workers_busy l : forall c id first w wk, find_worker (c_workers c) w = Some wk -> worker_is_free wk = false -> In w l ->
  forall c', set_mn_workers c id l first <> Ok c'.
Proof.
  induction l as [|x r IH]; intros c id first w wk Hw Hnf Hin c' H; [destruct Hin|]. cbn [set_mn_workers] in H.
  apply bind_ok in H. destruct H as (wkx & Hx & H). apply bind_ok in H. destruct H as (wkx' & Hset & H).
  unfold get_worker in Hx. destruct (find_worker (c_workers c) x) as [k|] eqn:Ek; [|discriminate]. inversion Hx; subst k.
  unfold set_mn_task in Hset. destruct (worker_is_free wkx) eqn:Ef; [|discriminate]. inversion Hset; subst wkx'.
  destruct (find_worker_some _ _ _ Ek) as [_ Hxi].
  destruct (N.eqb w x) eqn:E.
  - apply N.eqb_eq in E. subst x. congruence.
  - destruct Hin as [->|Hin]; [rewrite N.eqb_refl in E; discriminate|].
    eapply (IH _ id false w wk); [| exact Hnf | exact Hin | exact H].
    cbn [c_workers upd_worker with_workers]. rewrite find_set_worker. cbn [w_id with_assign]. rewrite Hxi, E. exact Hw.
Qed.

Lemma set_mn_workers_nodup l : forall c id first c', set_mn_workers c id l first = Ok c' -> NoDup l.
Proof.
  induction l as [|x r IH]; intros c id first c' H; [constructor|]. pose proof H as H0. cbn [set_mn_workers] in H.
  apply bind_ok in H. destruct H as (wkx & Hx & H). apply bind_ok in H. destruct H as (wkx' & Hset & H).
  constructor; [|eapply IH; exact H]. intros Hin.
  unfold get_worker in Hx. destruct (find_worker (c_workers c) x) as [k|] eqn:Ek; [|discriminate]. inversion Hx; subst k.
  unfold set_mn_task in Hset. destruct (worker_is_free wkx); [|discriminate]. inversion Hset; subst wkx'.
  destruct (find_worker_some _ _ _ Ek) as [_ Hxi].
  eapply (set_mn_workers_busy r _ id false x (with_assign wkx (Mn id first))); [| reflexivity | exact Hin | exact H].
  cbn [c_workers upd_worker with_workers]. rewrite find_set_worker. cbn [w_id with_assign]. rewrite Hxi, N.eqb_refl. reflexivity.
Qed.

Lemma set_mn_workers_R l : forall c id first c', set_mn_workers c id l first = Ok c' -> R c c'.
Proof.
  induction l as [|w r IH]; cbn [set_mn_workers]; intros c id first c' H; [inversion H; subst; apply Rm_refl|].
  apply bind_ok in H. destruct H as (wk & _ & H). apply bind_ok in H. destruct H as (wk' & _ & H).
  eapply R_trans; [|eapply IH; exact H]. apply R_tasks; [reflexivity | dm].
Qed.

Lemma map_mn_sets_Rm sets : forall c rq mn c' mn', map_mn_sets c rq mn sets = Ok (c', mn') -> Rm c c' mn' /\ incl mn mn'.
Proof.
  induction sets as [|ws r IH]; cbn [map_mn_sets]; intros c rq mn c' mn' H; [inversion H; subst; split; [apply Rm_refl | apply incl_refl]|].
  apply bind_ok in H. destruct H as (q & _ & H). destruct (q_take_one q) as [[id q']|]; [|discriminate].
  apply bind_ok in H. destruct H as (c2 & H2 & H). apply bind_ok in H. destruct H as (t & Ht & H). apply get_task_find in Ht.
  destruct (find_task_some _ _ _ Ht) as [_ Hid].
  destruct (t_state t) as [n| | | | | |]; try discriminate. destruct n; [|discriminate].
  destruct (IH _ _ _ _ _ H) as [R3 I3]. split; [|intros x Hx; apply I3; apply in_app_iff; left; exact Hx].
  pose proof (set_mn_workers_nodup _ _ _ _ _ H2) as Hnd.
  assert (Hidm : In id mn') by (apply I3; apply in_app_iff; right; left; reflexivity).
  eapply (Rm_weaken _ _ ([] ++ [] ++ [id] ++ mn')); [intros x Hx; cbn in Hx; destruct Hx as [<-|Hx]; assumption|].
  eapply Rm_trans; [apply (R_tasks c (with_queues c (set_queue (c_queues c) (N.to_nat rq) q'))); [reflexivity | dm]|].
  eapply Rm_trans; [eapply set_mn_workers_R; exact H2|].
  eapply Rm_trans; [|exact R3].
  split; [|dm]. intros t' Hin. cbn [c_tasks upd_task with_tasks] in Hin. destruct (set_task_in _ _ _ Hin) as [->|Hin'].
  - right. right. cbn [t_id t_state with_state]. split; [left; symmetry; exact Hid | eauto].
  - left. exists t'. auto.
Qed.

Lemma map_mn_Rm l : forall c mn c' mn', map_mn c mn l = Ok (c', mn') -> Rm c c' mn' /\ incl mn mn'.
Proof.
  induction l as [|[[rq v] sets] r IH]; cbn [map_mn]; intros c mn c' mn' H; [inversion H; subst; split; [apply Rm_refl | apply incl_refl]|].
  apply bind_ok in H. destruct H as ([c1 mn1] & H1 & H).
  destruct (map_mn_sets_Rm _ _ _ _ _ _ H1) as [R1 I1]. destruct (IH _ _ _ _ H) as [R2 I2].
  split; [|eapply incl_tran; eassumption].
  eapply (Rm_weaken _ _ (mn1 ++ mn')); [intros x Hx; apply in_app_iff in Hx; destruct Hx as [Hx|Hx]; [apply I2; exact Hx | exact Hx]|].
  eapply Rm_trans; eassumption.
Qed.

Lemma prefill_mark_R l : forall c w c', prefill_mark c w l = Ok c' -> R c c'.
Proof.
  induction l as [|id r IH]; cbn [prefill_mark]; intros c w c' H; [inversion H; subst; apply Rm_refl|].
  apply bind_ok in H. destruct H as (t & _ & H). destruct (negb (is_waiting t)); [discriminate|].
  apply bind_ok in H. destruct H as (wk & _ & H). apply bind_ok in H. destruct H as (wk' & _ & H).
  eapply R_trans; [|eapply IH; exact H].
  eapply (R_set_ok _ _ (with_state t (Prefilled w))); [reflexivity | dm | exact I].
Qed.

Lemma prefill_workers_R ws : forall c m qi psize c' m', prefill_workers c m qi psize ws = Ok (c', m') -> R c c'.
Proof.
  induction ws as [|w r IH]; cbn [prefill_workers]; intros c m qi psize c' m' H; [inversion H; subst; apply Rm_refl|].
  apply bind_ok in H. destruct H as (q & _ & H). apply bind_ok in H. destruct H as ([ids q'] & _ & H).
  apply bind_ok in H. destruct H as (c2 & H2 & H).
  eapply R_trans; [|eapply IH; exact H]. eapply R_trans; [|eapply prefill_mark_R; exact H2]. apply R_tasks; [reflexivity | dm].
Qed.

Lemma prefill_queues_R n : forall c m worder qi top c' m', prefill_queues c m worder qi n top = Ok (c', m') -> R c c'.
Proof.
  induction n as [|k IH]; cbn [prefill_queues]; intros c m worder qi top c' m' H; [inversion H; subst; apply Rm_refl|].
  apply bind_ok in H. destruct H as (q & _ & H).
  destruct (q_top_priority q) as [tp|]; [|eapply IH; exact H].
  destruct (negb (Z.eqb tp top)); [eapply IH; exact H|].
  destruct (N.eqb _ 0); [eapply IH; exact H|].
  destruct (existsb _ (q_top_task_ids q)).
  - destruct (forallb _ (q_top_task_ids q)); [eapply IH; exact H | discriminate].
  - match type of H with match ?ws with [] => _ | _ => _ end = _ => destruct ws eqn:Ews end; [eapply IH; exact H|].
    destruct (N.eqb _ 0); [eapply IH; exact H|].
    apply bind_ok in H. destruct H as ([c1 m1] & H1 & H).
    eapply R_trans; [eapply prefill_workers_R; exact H1 | eapply IH; exact H].
Qed.

Lemma send_mn_states l : forall s s', send_mn s l = Ok s' ->
  forall id, In id l -> exists t w0 ws, find_task (c_tasks (core_of s)) id = Some t /\ t_state t = RunningMN (w0 :: ws).
Proof.
  induction l as [|x r IH]; cbn [send_mn]; intros s s' H id Hin; [destruct Hin|].
  apply bind_ok in H. destruct H as (t & Ht & H). apply get_task_find in Ht.
  destruct (t_state t) eqn:Est; try discriminate. destruct ws as [|w0 ws]; [discriminate|].
  apply bind_ok in H. destruct H as (s1 & H1 & H).
  destruct Hin as [<-|Hin]; [eauto|].
  destruct (IH _ _ H id Hin) as (t1 & w1 & ws1 & Hf & Hs). rewrite (send_worker_core _ _ _ _ H1) in Hf. eauto.
Qed.

Lemma run_scheduling_J s sol s' : CS (core_of s) -> J (core_of s) -> run_scheduling s sol = Ok s' -> J (core_of s').
Proof.
  unfold run_scheduling. intros Hs HJ H. destruct (negb (perm_of_set _ _)); [discriminate|].
  apply bind_ok in H. destruct H as ([c1 m1] & H1 & H).
  apply bind_ok in H. destruct H as ([c2 mn] & H2 & H).
  apply bind_ok in H. destruct H as ([c3 m3] & H3 & H).
  apply bind_ok in H. destruct H as (s1 & H4 & H).
  apply bind_ok in H. destruct H as (s2 & H5 & H). inversion H; subst s'.
  pose proof (map_sn_frame _ _ _ _ _ _ Hs H1) as E1.
  assert (Hs1 : CS c1) by (eapply CS_keys; [exact E1 | exact Hs]).
  pose proof (map_mn_frame _ _ _ _ _ Hs1 H2) as E2.
  assert (Hs2 : CS c2) by (eapply CS_keys; [exact E2 | exact Hs1]).
  assert (A3 : keys c3 = keys c2 /\ R c2 c3).
  { destruct (queues_top_priority (c_queues c2)); [|inversion H3; subst; split; [reflexivity | apply Rm_refl]].
    split; [eapply prefill_queues_frame; [exact Hs2 | exact H3] | eapply prefill_queues_R; exact H3]. }
  destruct A3 as [E3 R3].
  assert (Hs3 : CS c3) by (eapply CS_keys; [exact E3 | exact Hs2]).
  destruct (map_mn_Rm _ _ _ _ _ H2) as [R2 _].
  pose proof (Rm_trans _ _ _ _ _ (Rm_trans _ _ _ _ _ (map_sn_R _ _ _ _ _ _ H1) R2) R3) as Rall.
  assert (Ec : core_of s1 = c3) by (rewrite (send_mapping_core _ _ _ H4); reflexivity).
  assert (J3 : J c3).
  { intros t Hin. destruct (J_Rm _ _ _ HJ Rall t Hin) as [X|[Hl _]]; [exact X|].
    rewrite app_nil_r in Hl. cbn [app] in Hl.
    destruct (send_mn_states _ _ _ H5 _ Hl) as (tk & w0 & ws & Hf & Hst). rewrite Ec in Hf.
    rewrite (in_find_task _ _ (CS_sorted _ Hs3) Hin) in Hf. inversion Hf; subst tk.
    destruct (J_Rm _ _ _ HJ Rall t Hin) as [X|[_ (ws' & Hst' & Hnd)]]; [exact X|].
    rewrite Hst. rewrite Hst in Hst'. inversion Hst'; subst ws'. split; [discriminate | exact Hnd]. }
  eapply J_R; [exact J3|]. apply R_tasks; [cbn; rewrite (send_mn_core _ _ _ H5), Ec; reflexivity | apply Dm_eq; cbn; rewrite (send_mn_core _ _ _ H5), Ec; reflexivity].
Qed.
