(** C02 "at rest", part 9: the invariant "no silent end" ([NB]) - definitions and word lemmas. *)
From HQ Require Import Base.Prelude Cluster.Types Cluster.Core Cluster.Reactor Cluster.Worker Cluster.Server Cluster.Sys Cluster.NoPanicL0 Cluster.NoPanicU0 Cluster.NoPanicU1 Cluster.RestU4 Cluster.RestU5 Cluster.RestU7 Cluster.RestU8.
From Coq Require Import ZArith Lia Sorting.Sorted.
Local Open Scope N_scope.

(** The word of a task the core knows, at one worker process, shows a silent end: nothing is
    running or queued at the worker, and either the server believes the task is running there with
    no report under way, or the only report under way is the running message. *)
Definition badw (v : view) (U : list uitem) (L : litem) : bool :=
  is_lnone L &&
  match U with
  | [] => match v with VR _ | VM true => true | _ => false end
  | [IRun _ _] => true
  | _ => false
  end.

Definition NB (s : sys) : Prop :=
  forall w p x t, find_proc (s_procs s) w = Some p -> find_task (c_tasks (s_core s)) x = Some t ->
    badw (view_of (t_state t) w (job_running (s_hq s) x)) (uitems x (p_up p)) (local p x) = false.

Definition noend (U : list uitem) : bool := forallb (fun it => match it with IFin | IFail _ => false | _ => true end) U.
Definition noirun (U : list uitem) : bool := forallb (fun it => match it with IRun _ _ => false | _ => true end) U.

Ltac crunch H :=
  cbn in H;
  repeat first [ discriminate
               | rewrite andb_false_r in H | rewrite orb_false_r in H | rewrite andb_true_r in H
               | match type of H with context [match ?x with _ => _ end] => is_var x; destruct x; cbn in H end
               | match type of H with context [if ?x then _ else _] => is_var x; destruct x; cbn in H end ].

Lemma lang_len v U L D : lang v U L D = true -> (length U <= 2)%nat.
Proof.
  intros H. destruct U as [|i1 [|i2 [|i3 U]]]; cbn [length]; try lia. exfalso.
  destruct v as [|rv0| | |rv0|[|]]; crunch H.
Qed.

Lemma lang_irun_last v U D : lang v U LNone D = true -> forall hd b rv, U = hd ++ [IRun b rv] -> hd = [].
Proof.
  intros H hd b rv E. pose proof (lang_len _ _ _ _ H) as Hl. subst U. rewrite app_length in Hl. cbn [length] in Hl.
  destruct hd as [|i [|j r]]; [reflexivity | | cbn [length] in Hl; lia]. exfalso. cbn [app] in H.
  destruct v as [|vrv| | |vrv|[|]]; crunch H.
Qed.

(** a good word without end items and without local entry: the view is not "running" unless the
    compute message is still under way *)
Lemma lang_good_noend v U D : lang v U LNone D = true -> badw v U LNone = false -> noend U = true ->
  noirun U = true /\
  match v with VR _ | VM true => False | VM false => exists rv', D = [IDC (Some rv') true] | _ => True end.
Proof.
  intros H Hb He. pose proof (lang_len _ _ _ _ H) as Hl.
  destruct U as [|i1 [|i2 [|i3 U]]]; [| | |cbn [length] in Hl; lia].
  - split; [reflexivity|]. destruct v as [|vrv| | |vrv|[|]]; try exact I; try (cbn in Hb; discriminate).
    cbn in H. rewrite andb_false_r, orb_false_r in H. destruct D as [|[[rv'|] [|]| |] [|d2 D]]; try discriminate. eauto.
  - destruct i1; try (cbn in He; discriminate); try (cbn in Hb; discriminate); (split; [reflexivity|]); destruct v as [|vrv| | |vrv|[|]]; try exact I; crunch H.
  - exfalso. destruct i1; destruct i2; try (cbn in He; discriminate); destruct v as [|vrv| | |vrv|[|]]; crunch H.
Qed.

(** with a compute entry under way the view is not "running and reported" *)
Lemma lang_idc_not_running v U L a b add : lang v U L (IDC a b :: add) = true ->
  match v with VR _ | VM true => False | _ => True end.
Proof. intros H. destruct v as [|vrv| | |vrv|[|]]; try exact I; cbn in H; rewrite ?andb_false_r in H; discriminate. Qed.

(** views and roots *)
Lemma view_running st w jr : match view_of st w jr with VR _ | VM _ => rroot st = Some w | _ => True end.
Proof.
  destruct st as [n|w1 rv1|w1|w1|w1 rv1|[|w0 ws]|]; cbn [view_of rroot]; try exact I;
    try (destruct (N.eqb w1 w) eqn:E; [apply N.eqb_eq in E; subst|]; try exact I; reflexivity).
  destruct (N.eqb w0 w) eqn:E; [apply N.eqb_eq in E; subst; reflexivity | exact I].
Qed.
Lemma root_view st w jr : rroot st = Some w -> (exists rv, view_of st w jr = VR rv) \/ view_of st w jr = VM jr.
Proof.
  destruct st as [n|w1 rv1|w1|w1|w1 rv1|[|w0 ws]|]; cbn [view_of rroot]; try discriminate; intros E; inversion E; subst; rewrite N.eqb_refl; eauto.
Qed.

(** items and updates *)
Lemma runs_irun x us : runs x us -> exists b rv, In (IRun b rv) (flat_map (uitem_of x) us).
Proof.
  intros (rv & [H|H]); [exists false | exists true]; exists rv; apply in_flat_map; eexists; (split; [exact H|]);
    cbn [uitem_of]; unfold sel; rewrite NoPanicU1.tid_eqb_refl; left; reflexivity.
Qed.
Lemma noirun_spec U b rv : noirun U = true -> ~ In (IRun b rv) U.
Proof. unfold noirun. rewrite forallb_forall. intros H Hin. specialize (H _ Hin). discriminate. Qed.

Lemma noend_ends x us : noend (flat_map (uitem_of x) us) = false -> ends x us.
Proof.
  induction us as [|u r IH]; cbn [flat_map]; [discriminate|]. unfold noend in *. rewrite forallb_app. intros H. apply andb_false_iff in H.
  destruct H as [H|H].
  - destruct u; cbn [uitem_of] in H; unfold sel in H; try (destruct (tid_eqb t x) eqn:E; [apply NoPanicU1.tid_eqb_eq in E; subst t|]); cbn in H; try discriminate.
    + left. left. reflexivity.
    + right. exists k. left. reflexivity.
  - destruct (IH H) as [A|(k & A)]; [left; right; exact A | right; exists k; right; exact A].
Qed.
Lemma noend_rr x ids : noend (flat_map (fun y => sel y x IRR) ids) = true.
Proof.
  induction ids as [|y r IH]; [reflexivity|]. cbn [flat_map]. unfold noend in *. rewrite forallb_app, IH. unfold sel. destruct (tid_eqb y x); reflexivity.
Qed.
