(** C09 in full for the system model: NO REACHABLE PANIC.

    For every history of operations - client requests, worker connections and losses, deliveries of
    messages in both directions in any order, scheduler rounds, task ends, launch failures, timers -
    that satisfies the executable well-formedness [run_hyp] below, [run (init_sys r m) ops] is never
    a [Panic]: every operation is handled ([Ok]) or cannot occur in that state ([Disabled]: an
    unknown worker, an empty channel, a witness order that is not a permutation ...).

    [run_hyp] is the conjunction, evaluated along the run, of
      - [NoPanicU0.op_ok]: multi-node request classes carry no resource amounts; a scheduler answer
        uses variant 0, places single-node classes single-node and multi-node classes multi-node;
      - [NoPanicS7.sol_ok] on every scheduler answer (the solver's contract towards the mapping);
      - [RetractFree.sched_retract_ok]: no multi-node placement on a worker a task is being retracted
        from (the repair of finding F28);
      - the explicit ids of an array submit are pairwise distinct (true of every message that
        deserialises: the real [IntArray] is a set);
    plus [op_wf] (as many entries as explicit ids - finding F26 otherwise).  Every conjunct is
    monitored on every step of every explored history of the real implementation; nothing is
    assumed about messages in flight ([run_fresh] is derived: NoFresh.v).

    Parts: NoPanicAll.v (server operations), NoPanicU20.v (worker processes), NoPanicU29.v (worker
    messages at the server). *)
From HQ Require Import Base.Prelude Cluster.Types Cluster.Core Cluster.Reactor Cluster.Worker Cluster.Server Cluster.Sys Cluster.Monitors Cluster.RejHyp Cluster.BijFinal Cluster.InvAll Cluster.RetractFree Cluster.NoPanicS7 Cluster.NoPanicU0 Cluster.NoPanicU5 Cluster.NoPanicU20 Cluster.NoPanicU21 Cluster.NoPanicU26 Cluster.NoPanicU29 Cluster.NoPanicAll Cluster.NoFresh.
From Coq Require Import ZArith Lia.
Local Open Scope N_scope.

Definition ids_nodup (o : op) : bool :=
  match o with OpSubmit _ ids _ _ _ _ _ _ => nodupb N.eqb ids | _ => true end.

Definition hyp (s : sys) (o : op) : bool :=
  op_ok s o && op_sol_ok s o && op_retract_ok s o && ids_nodup o.

Fixpoint run_hyp (s : sys) (ops : list op) : bool :=
  match ops with
  | [] => true
  | o :: r => hyp s o && match step s o with Ok (s1, _) => run_hyp s1 r | _ => true end
  end.

Lemma run_hyp_split ops : forall s, run_hyp s ops = true ->
  ops_ok s ops = true /\ ops_sol_ok s ops = true /\ ops_retract_ok s ops = true.
Proof.
  induction ops as [|o r IH]; intros s H; [repeat split|].
  cbn [run_hyp] in H. apply andb_true_iff in H. destruct H as [Hh H].
  unfold hyp in Hh. repeat (apply andb_true_iff in Hh; destruct Hh as [Hh ?]).
  cbn [ops_ok ops_sol_ok ops_retract_ok].
  destruct (step s o) as [[s1 o1]| |].
  - destruct (IH s1 H) as (A & B & C). repeat split; apply andb_true_iff; split; assumption.
  - repeat split; apply andb_true_iff; split; try assumption; reflexivity.
  - repeat split; apply andb_true_iff; split; try assumption; reflexivity.
Qed.

Lemma run_hyp_snoc pre : forall s o s1 o1, run s pre = Ok (s1, o1) -> run_hyp s pre = true -> hyp s1 o = true ->
  run_hyp s (pre ++ [o]) = true.
Proof.
  induction pre as [|p r IH]; cbn [run run_hyp app]; intros s o s1 o1 Hr Hh Ho.
  - inversion Hr; subst. rewrite Ho. destruct (step s1 o) as [[? ?]| |]; reflexivity.
  - apply bind_ok in Hr. destruct Hr as ([sa oa] & Ha & Hr). apply bind_ok in Hr. destruct Hr as ([sb ob] & Hb & Hr).
    inversion Hr; subst. rewrite Ha in *. apply andb_true_iff in Hh. destruct Hh as [H1 H2]. rewrite H1. cbn [andb].
    exact (IH _ _ _ _ Hb H2 Ho).
Qed.

(** One more operation from a reachable state. *)
Theorem step_never_panics pre reserve maxfill s outs o :
  Forall op_wf pre -> run_hyp (init_sys reserve maxfill) pre = true -> run (init_sys reserve maxfill) pre = Ok (s, outs) ->
  hyp s o = true -> is_panic (step s o) = false.
Proof.
  intros Hwf Hh Hr Ho.
  destruct (run_hyp_split _ _ Hh) as (Hok & Hsol & Hret).
  unfold hyp in Ho. repeat (apply andb_true_iff in Ho; destruct Ho as [Ho ?]).
  pose proof (fresh_of_ops pre reserve maxfill s outs Hwf Hok Hr) as Hf.
  destruct o.
  - apply (server_never_panics pre reserve maxfill s outs); try assumption; exact I.
  - apply (server_never_panics pre reserve maxfill s outs); try assumption; exact I.
  - apply (server_never_panics pre reserve maxfill s outs); try assumption; [exact I|].
    cbn [req_ok]. match goal with X : ids_nodup _ = true |- _ => cbn [ids_nodup] in X; apply (nodupb_NoDup N.eqb); [intros a b; apply N.eqb_eq | exact X] end.
  - apply (server_never_panics pre reserve maxfill s outs); try assumption; exact I.
  - apply (server_never_panics pre reserve maxfill s outs); try assumption; exact I.
  - apply (server_never_panics pre reserve maxfill s outs); try assumption; exact I.
  - apply (server_never_panics pre reserve maxfill s outs); try assumption; exact I.
  - apply (server_never_panics pre reserve maxfill s outs); try assumption; exact I.
  - apply (worker_process_never_panics pre reserve maxfill s outs); try assumption; exact I.
  - apply (worker_messages_never_panic pre reserve maxfill s outs); assumption.
  - apply (server_never_panics pre reserve maxfill s outs); try assumption; exact I.   (* req_ok = op_sol_ok, by conversion *)
  - apply (worker_process_never_panics pre reserve maxfill s outs); try assumption; exact I.
  - apply (worker_process_never_panics pre reserve maxfill s outs); try assumption; exact I.
  - apply (worker_process_never_panics pre reserve maxfill s outs); try assumption; exact I.
  - apply (server_never_panics pre reserve maxfill s outs); try assumption; exact I.
Qed.

Lemma no_panic_from ops reserve maxfill : forall pre s outs,
  Forall op_wf pre -> run_hyp (init_sys reserve maxfill) pre = true -> run (init_sys reserve maxfill) pre = Ok (s, outs) ->
  Forall op_wf ops -> run_hyp s ops = true -> is_panic (run s ops) = false.
Proof.
  induction ops as [|o r IH]; intros pre s outs Hwp Hhp Hrp Hw Hh; [reflexivity|].
  cbn [run_hyp] in Hh. apply andb_true_iff in Hh. destruct Hh as [Ho Hh].
  inversion Hw as [|? ? Hw1 Hw2]; subst.
  pose proof (step_never_panics pre reserve maxfill s outs o Hwp Hhp Hrp Ho) as Hnp.
  cbn [run]. destruct (step s o) as [[s1 o1]| |] eqn:Est; [|reflexivity | discriminate].
  cbn [bind].
  assert (Hnext : is_panic (run s1 r) = false).
  { apply (IH (pre ++ [o]) s1 (outs ++ o1)); [apply Forall_snoc; assumption | | eapply run_snoc; eassumption | exact Hw2 | exact Hh].
    eapply run_hyp_snoc; eassumption. }
  destruct (run s1 r) as [[s2 o2]| |]; [reflexivity | reflexivity | discriminate].
Qed.

(** THE theorem. *)
Theorem no_reachable_panic ops reserve maxfill :
  Forall op_wf ops -> run_hyp (init_sys reserve maxfill) ops = true -> is_panic (run (init_sys reserve maxfill) ops) = false.
Proof.
  intros Hwf Hh. apply (no_panic_from ops reserve maxfill [] (init_sys reserve maxfill) []); [constructor | reflexivity | reflexivity | exact Hwf | exact Hh].
Qed.

Print Assumptions no_reachable_panic.

(** Non-vacuity: the hypotheses hold on histories with prefilling, a worker that starts a prefilled
    task on its own, retraction races, redirects, rejects, cancels, a worker loss, a launch
    failure, timers and multi-node tasks (the example histories of NoPanicU0.v), and the
    theorem's conclusion is not trivial there (the runs are [Ok], dozens of steps). *)
Example no_panic_hypotheses_satisfiable :
  Forall (fun h => run_hyp (init_sys 0 2) h = true /\ is_ok (run (init_sys 0 2) h) = true /\ Forall op_wf h)
         [h_plain; h_prefill; h_retract_race; h_redirect; h_misc; h_mn].
Proof.
  repeat constructor; try (vm_compute; reflexivity); try (cbn; lia).
Qed.

(** ... and the history of finding F28 violates exactly the clause added by its repair. *)
Example f28_history_excluded :
  run_hyp (init_sys 0 2) NoPanicU21.h102 = false /\
  ops_ok (init_sys 0 2) NoPanicU21.h102 = true /\ ops_sol_ok (init_sys 0 2) NoPanicU21.h102 = true /\
  ops_retract_ok (init_sys 0 2) NoPanicU21.h102 = false.
Proof. repeat split; vm_compute; reflexivity. Qed.
