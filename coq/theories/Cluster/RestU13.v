(** C02 "at rest", part 13: the statement in the form of the driver's monitor
    [task-in-limbo-at-rest] (ocaml/cluster/driver.ml), and two corollaries. *)
From HQ Require Import Base.Prelude Cluster.Types Cluster.Core Cluster.Reactor Cluster.Worker Cluster.Server Cluster.Sys Cluster.Monitors Cluster.RejHyp Cluster.BijBase Cluster.BijCore Cluster.BijReact Cluster.BijFinal Cluster.InvWBase Cluster.InvQInv Cluster.InvQStep Cluster.InvBundle Cluster.InvProcsDef Cluster.NoPanicL0 Cluster.NoPanicL1 Cluster.NoPanicU0 Cluster.NoPanicU1 Cluster.NoPanicU2 Cluster.NoPanicU20 Cluster.ExecU10 Cluster.RestU1 Cluster.RestU12.
From Coq Require Import ZArith Lia Sorting.Sorted.
Local Open Scope N_scope.

(** the driver's "at rest": the scheduler flag is off, there is a worker, no message is in flight
    and no future is pending *)
Definition at_rest_mon (s : sys) : bool :=
  negb (c_flag (s_core s)) && negb (is_nilb (s_procs s)) &&
  forallb (fun p => is_nilb (p_down p) && is_nilb (p_up p) && is_nilb (p_futures p)) (s_procs s).

Definition is_waitingb (t : task) : bool := match t_state t with Waiting _ => true | _ => false end.
(** the driver's check *)
Definition all_waiting (s : sys) : bool := forallb is_waitingb (c_tasks (s_core s)).
(** the check that holds without an assumption on the backlogs *)
Definition waiting_or_backlog (s : sys) : bool :=
  forallb (fun t => match t_state t with
                    | Waiting _ => true
                    | Prefilled w => match find_proc (s_procs s) w with
                                     | Some p => Nat.eqb (bl_count (t_id t) (p_backlog p)) 1
                                     | None => false
                                     end
                    | _ => false
                    end) (c_tasks (s_core s)).

Lemma at_rest_mon_rest s : PROTO s -> at_rest_mon s = true -> at_rest s.
Proof.
  intros HP H. unfold at_rest_mon in H. rewrite !andb_true_iff, negb_true_iff, forallb_forall in H. destruct H as [[Hf _] Hq].
  split; [exact Hf|]. intros p Hp. specialize (Hq p Hp). rewrite !andb_true_iff in Hq. destruct Hq as [[A B] C].
  pose proof (proj1 (local_ok_LOK _) (pr_local _ HP _ _ (in_find_proc _ _ (pr_sorted _ HP) Hp))) as HL.
  pose proof (lok_fut _ HL) as Ef.
  unfold quiet_proc. destruct (p_down p), (p_up p), (p_futures p); try discriminate. cbn [map] in Ef. symmetry in Ef. apply map_eq_nil in Ef.
  repeat split; auto.
Qed.

Theorem at_rest_monitor_honest ops reserve maxfill s outs :
  Forall op_wf ops -> ops_ok (init_sys reserve maxfill) ops = true -> run (init_sys reserve maxfill) ops = Ok (s, outs) ->
  at_rest_mon s = true -> waiting_or_backlog s = true.
Proof.
  intros Hwf Hok H Hm. pose proof (proj1 (reachable_PROTO _ _ _ _ _ Hwf Hok H)) as HP. pose proof (at_rest_mon_rest s HP Hm) as Hrest.
  pose proof (reachable_INV_ops _ _ _ _ _ Hwf Hok H) as HI. pose proof (cb_s _ (inv_cb _ HI)) as Hcs. change (core_of (s, [])) with (s_core s) in Hcs.
  unfold waiting_or_backlog. apply forallb_forall. intros t Hin.
  pose proof (in_find_task _ _ (CS_sorted _ Hcs) Hin) as Hf.
  pose proof (at_rest_waiting_or_backlog _ _ _ _ _ Hwf Hok H Hrest _ _ Hf) as X. unfold rest_state in X.
  destruct (t_state t) as [n|w1 rv1|w1|w1|w1 rv1|ws|]; try contradiction; [reflexivity|].
  destruct X as (p & Hp & Hb). rewrite Hp, Hb. reflexivity.
Qed.

Theorem at_rest_monitor ops reserve maxfill s outs :
  Forall op_wf ops -> ops_ok (init_sys reserve maxfill) ops = true -> run (init_sys reserve maxfill) ops = Ok (s, outs) ->
  at_rest_mon s = true -> forallb (fun p => is_nilb (p_backlog p)) (s_procs s) = true -> all_waiting s = true.
Proof.
  intros Hwf Hok H Hm Hb. pose proof (proj1 (reachable_PROTO _ _ _ _ _ Hwf Hok H)) as HP. pose proof (at_rest_mon_rest s HP Hm) as Hrest.
  unfold all_waiting. apply forallb_forall. intros t Hin.
  assert (Hbl : forall p, In p (s_procs s) -> p_backlog p = []).
  { intros p Hp. rewrite forallb_forall in Hb. specialize (Hb p Hp). destruct (p_backlog p); [reflexivity | discriminate]. }
  destruct (at_rest_all_waiting _ _ _ _ _ Hwf Hok H Hrest Hbl t Hin) as (n & E). unfold is_waitingb. rewrite E. reflexivity.
Qed.

(** * At rest there is no redirection and no worker has an assigned task *)
Theorem at_rest_no_redirects ops reserve maxfill s outs :
  Forall op_wf ops -> ops_ok (init_sys reserve maxfill) ops = true -> run (init_sys reserve maxfill) ops = Ok (s, outs) ->
  at_rest s -> c_redirects (s_core s) = [].
Proof.
  intros Hwf Hok H Hrest. pose proof (reachable_INV_ops _ _ _ _ _ Hwf Hok H) as HI.
  destruct (c_redirects (s_core s)) as [|[k v] r] eqn:E; [reflexivity|]. exfalso.
  pose proof (inv_q _ HI) as HQ. unfold QInv, QI in HQ.
  destruct (qv_red _ _ _ _ _ _ HQ k v) as (_ & t & w & Hf & Hst); [rewrite E; cbn [find_redirect]; rewrite NoPanicU1.tid_eqb_refl; reflexivity|].
  pose proof (at_rest_waiting_or_backlog _ _ _ _ _ Hwf Hok H Hrest _ _ Hf) as X. unfold rest_state in X. rewrite Hst in X. exact X.
Qed.

Theorem at_rest_no_assigned ops reserve maxfill s outs :
  Forall op_wf ops -> ops_ok (init_sys reserve maxfill) ops = true -> run (init_sys reserve maxfill) ops = Ok (s, outs) ->
  at_rest s -> forall w wk a p f, find_worker (c_workers (s_core s)) w = Some wk -> w_assign wk = Sn a p f -> a = [].
Proof.
  intros Hwf Hok H Hrest w wk a p f Hw Ea. pose proof (reachable_INV_ops _ _ _ _ _ Hwf Hok H) as HI.
  destruct a as [|id r]; [reflexivity|]. exfalso.
  destruct (WI_inA_task _ _ _ _ _ _ id (inv_w _ HI) Hw Ea) as (t & Hf & Hst); [cbn [tid_mem]; rewrite NoPanicU1.tid_eqb_refl; reflexivity|].
  pose proof (at_rest_waiting_or_backlog _ _ _ _ _ Hwf Hok H Hrest _ _ Hf) as X. unfold rest_state in X.
  destruct Hst as [(rv & E)|[(rv & E)|(w1 & v & E & _)]]; rewrite E in X; exact X.
Qed.
