(** C06 "instance ids strictly increase", part 16: the executable monitor
    [Monitors.instances_increase] accepts the launches of every history. *)
From HQ Require Import Base.Prelude Cluster.Types Cluster.Core Cluster.Reactor Cluster.Worker Cluster.Server Cluster.Sys Cluster.Monitors Cluster.BijFinal Cluster.NoPanicU0 Cluster.NoPanicU1 Cluster.ExecU1 Cluster.ExecU15.
From Coq Require Import ZArith Lia.
Local Open Scope N_scope.

Lemma find_last_filter (x y : tid) (last : list (tid * N)) : y <> x ->
  find (fun e => tid_eqb (fst e) y) (filter (fun e => negb (tid_eqb (fst e) x)) last) = find (fun e => tid_eqb (fst e) y) last.
Proof.
  intros Hne. induction last as [|[k i] r IH]; [reflexivity|]. cbn [filter find fst].
  destruct (tid_eqb k x) eqn:E1; cbn [negb].
  - apply NoPanicU1.tid_eqb_eq in E1. subst k. destruct (tid_eqb x y) eqn:E2; [apply NoPanicU1.tid_eqb_eq in E2; congruence | exact IH].
  - cbn [find fst]. destruct (tid_eqb k y); [reflexivity | exact IH].
Qed.

Lemma monitor_mono ls : forall prev last, mono (prev ++ ls) ->
  (forall x e, find (fun e => tid_eqb (fst e) x) last = Some e -> exists l, In l prev /\ l_t l = x /\ l_inst l = snd e) ->
  Monitors.instances_increase last (map ILaunch ls) = true.
Proof.
  induction ls as [|l r IH]; intros prev last Hm Hlast; [reflexivity|]. cbn [map Monitors.instances_increase].
  apply andb_true_iff. split.
  - destruct (find (fun x => tid_eqb (fst x) (l_t l)) last) as [[k i]|] eqn:Ef; [|reflexivity].
    destruct (Hlast _ _ Ef) as (l0 & Hin & Et & Ei). cbn [snd] in Ei. apply N.ltb_lt. rewrite <- Ei.
    apply in_split in Hin. destruct Hin as (a & b & ->). eapply (Hm a l0 b l r); [rewrite <- app_assoc; reflexivity | exact Et].
  - apply (IH (prev ++ [l])); [rewrite <- app_assoc; exact Hm|].
    intros x e Hf. cbn [find fst] in Hf. destruct (tid_eqb (l_t l) x) eqn:E.
    + apply NoPanicU1.tid_eqb_eq in E. inversion Hf; subst e. exists l. split; [apply in_app_iff; right; left; reflexivity | auto].
    + rewrite find_last_filter in Hf by (intros ->; rewrite NoPanicU1.tid_eqb_refl in E; discriminate).
      destruct (Hlast _ _ Hf) as (l0 & Hin & A & B). exists l0. split; [apply in_app_iff; left; exact Hin | auto].
Qed.

(** The trace predicate of Monitors.v, evaluated on the launches of the history (the other items
    of a trace are skipped by the predicate). *)
Theorem instances_increase_monitor ops reserve maxfill s outs :
  Forall op_wf ops -> ops_ok (init_sys reserve maxfill) ops = true -> run (init_sys reserve maxfill) ops = Ok (s, outs) ->
  Monitors.instances_increase [] (map ILaunch (launches outs)) = true.
Proof.
  intros Hwf Hok H. apply (monitor_mono _ []); [exact (ex_m _ _ (reachable_EX _ _ _ _ _ Hwf Hok H)) | intros x e Hf; discriminate].
Qed.

Print Assumptions instances_increase_monitor.
