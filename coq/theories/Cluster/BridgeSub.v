(** Bridge, part 5: submit records - [validate_submit] of the system model implies the journal's
    [Restore.validate], and the submit record is accepted. *)
From HQ Require Import Base.Prelude Cluster.Types Cluster.Core Cluster.Reactor Cluster.Worker Cluster.Server Cluster.Sys Cluster.ProofsJob Cluster.ProofsMore Cluster.ProofsStep.
From HQ Require Journal.Event Journal.Restore Journal.Gen Journal.Maps Journal.RestoreProofs.
From HQ Require Import Cluster.Bridge Cluster.BridgeRel Cluster.BridgeEv.
From Coq Require Import ZArith Lia.
Require Import ZifyBool ZifyN ZifyNat.
Local Open Scope N_scope.
Arguments N.add : simpl never.
Arguments N.ltb : simpl never.
Arguments N.eqb : simpl never.

Lemma n_mem_memN x l : n_mem x l = Event.memN x l.
Proof. induction l as [|h r IH]; cbn; [reflexivity | rewrite IH; reflexivity]. Qed.

Lemma nodup_attach sub : forall (m : Event.map Gen.GTask), NoDup (Event.keys m) -> NoDup (Event.keys (Gen.g_attach m sub)).
Proof.
  unfold Gen.g_attach. induction sub as [|ts r IH]; cbn [fold_left]; intros m H; [exact H|].
  apply IH. apply Maps.nodup_insert. exact H.
Qed.

Lemma lookup_attach sub m t :
  Event.lookup t (Gen.g_attach m sub) = if Event.memN t (List.map Event.ts_id sub) then Some Gen.fresh_task else Event.lookup t m.
Proof. rewrite RestoreProofs.g_attach_is_gen. apply RestoreProofs.lookup_attach_gen. Qed.

(** [attach_ids] succeeded: the ids are distinct, new, and are now Waiting. *)
Lemma attach_ids_spec ids : forall j j', attach_ids j ids = Ok j' ->
  NoDup ids /\ (forall i, In i ids -> jt_find (j_tasks j) i = None) /\
  (forall t, jt_find (j_tasks j') t = if Event.memN t ids then Some JW else jt_find (j_tasks j) t) /\
  j_id j' = j_id j /\ j_open j' = j_open j /\ j_completed j' = j_completed j.
Proof.
  induction ids as [|i r IH]; cbn [attach_ids]; intros j j' H.
  - inversion H; subst. split; [constructor|]. split; [intros i []|]. split; [intros t; reflexivity|]. auto.
  - destruct (jt_find (j_tasks j) i) eqn:Ef; [discriminate|].
    destruct (IH _ _ H) as (Hn & Hnew & Hf & A1 & A2 & A3). cbn in Hnew, Hf, A1, A2, A3.
    assert (Hi : ~ In i r). { intros Hin. specialize (Hnew i Hin). rewrite jt_find_set_same in Hnew. discriminate. }
    split; [constructor; assumption|]. split; [|split; [|auto]].
    + intros i' [<-|Hin]; [exact Ef|]. specialize (Hnew i' Hin).
      destruct (N.eq_dec i' i) as [->|Hne]; [contradiction|]. rewrite jt_find_set_other in Hnew by exact Hne. exact Hnew.
    + intros t. rewrite Hf. cbn [Event.memN existsb]. fold (Event.memN t r).
      destruct (N.eqb t i) eqn:E.
      * apply N.eqb_eq in E. subst t. cbn [orb]. destruct (Event.memN i r) eqn:Em; [reflexivity|]. apply jt_find_set_same.
      * cbn [orb]. destruct (Event.memN t r); [reflexivity|]. apply jt_find_set_other. intros ->. rewrite N.eqb_refl in E. discriminate.
Qed.

(** Array submits: no dependencies. *)
Lemma validate_graph_array {V} (m : Event.map V) c ids : forall seen,
  NoDup ids -> (forall i, In i ids -> ~ In i seen) ->
  Restore.validate_graph m seen (List.map (fun i => Event.mkTS i c []) ids) = true.
Proof.
  induction ids as [|i r IH]; intros seen Hn Hs; cbn [List.map Restore.validate_graph]; [reflexivity|].
  inversion Hn; subst. cbn [Event.ts_id Event.ts_deps forallb]. rewrite Bool.andb_true_r.
  apply andb_true_intro. split.
  - apply Bool.negb_true_iff. apply Maps.memN_false. apply Hs. left. reflexivity.
  - apply IH; [assumption|]. intros i' Hin [<-|Hin']; [contradiction|]. apply (Hs i'); [right; exact Hin | exact Hin'].
Qed.

Lemma validate_array {V} (m : Event.map V) c ids :
  NoDup ids -> (forall i, In i ids -> Event.mem i m = false) ->
  Restore.validate m (List.map (fun i => Event.mkTS i c []) ids) = true.
Proof.
  intros Hn Hnew. unfold Restore.validate. apply andb_true_intro. split.
  - apply forallb_forall. intros ts Hin. apply in_map_iff in Hin. destruct Hin as (i & <- & Hi). cbn. rewrite (Hnew i Hi). reflexivity.
  - apply validate_graph_array; [exact Hn | intros i _ []].
Qed.

(** Graph submits: the system's [validate_graph] implies the journal's. *)
Lemma validate_graph_sys {V} (m : Event.map V) jt ts : forall seen,
  (forall d, Event.mem d m = match jt_find jt d with Some _ => true | None => false end) ->
  Server.validate_graph jt seen ts = None ->
  Restore.validate_graph m seen (List.map spec_of_gtask ts) = true.
Proof.
  intros seen Hm. revert seen. induction ts as [|g r IH]; intros seen H; cbn [List.map Restore.validate_graph]; [reflexivity|].
  cbn [Server.validate_graph] in H. destruct (n_mem (gt_id g) seen) eqn:Es; [discriminate|].
  destruct (find _ (gt_deps g)) eqn:Ef; [discriminate|].
  cbn [spec_of_gtask Event.ts_id Event.ts_deps]. rewrite <- n_mem_memN, Es. cbn [negb andb].
  apply andb_true_intro. split; [|apply IH; exact H].
  apply forallb_forall. intros d Hd. pose proof (find_none _ _ Ef d Hd) as Hx. cbn beta in Hx.
  apply Bool.orb_false_iff in Hx. destruct Hx as [H1 H2]. rewrite H1. cbn [negb andb].
  apply Bool.andb_false_iff in H2. rewrite Hm. rewrite <- n_mem_memN.
  cbn [n_mem] in H2. rewrite H1 in H2. cbn [orb] in H2.
  destruct H2 as [H2|H2]; [apply Bool.negb_false_iff in H2; rewrite H2; reflexivity|].
  destruct (jt_find jt d); [apply Bool.orb_true_r | discriminate].
Qed.

(** * The submit record *)
Lemma ev_submit h h' jid closed specs jt0 jb' :
  (closed = true -> jid = h_counter h /\ jt0 = [] /\ j_open jb' = false /\ h_counter h' = h_counter h + 1) ->
  (closed = false -> exists jb, find_job (h_jobs h) jid = Some jb /\ JOK jb /\ j_open jb = true /\ jt0 = j_tasks jb
                                /\ j_open jb' = true /\ h_counter h' = h_counter h) ->
  (forall id, find_job (h_jobs h') id = if N.eqb id jid then Some jb' else find_job (h_jobs h) id) ->
  j_completed jb' = false ->
  (forall t, jt_find (j_tasks jb') t = if Event.memN t (List.map Event.ts_id specs) then Some JW else jt_find jt0 t) ->
  (forall (m : Event.map Gen.GTask),
      (forall d, Event.mem d m = match jt_find jt0 d with Some _ => true | None => false end) -> Restore.validate m specs = true) ->
  SimE h [Event.ESubmit jid closed specs] h'.
Proof.
  intros Hnew Hold Hf Hcm Hjt Hval. apply SimE_one. intros g HR. cbn [Gen.gstep]. destruct closed.
  - destruct (Hnew eq_refl) as (-> & -> & Hop & Hcn). destruct HR as [HJ HM].
    replace (Gen.g_max_job g <? h_counter h) with true by lia.
    rewrite (Hval []) by (intros d; reflexivity). cbn [andb].
    split; [|cbn; lia]. intros id. rewrite Hf. cbn [Gen.g_jobs]. rewrite Maps.lookup_insert.
    destruct (N.eqb id (h_counter h)); [|exact (HJ id)]. rewrite Hcm. eexists. split; [reflexivity|].
    split; [cbn; congruence|]. split; [cbn; apply nodup_attach; constructor|].
    intros t. cbn [Gen.gj_tasks]. rewrite Hjt, lookup_attach. destruct (Event.memN t _); cbn; [reflexivity | exact I].
  - destruct (Hold eq_refl) as (jb & Hfj & Hok & Hop & -> & Hop' & Hcn).
    pose proof (open_not_completed _ Hok Hop) as Hc.
    destruct (RelJ_job _ _ _ _ HR Hfj Hc) as (gj & Elj & (Ho & Hn & Ht)). rewrite Elj, Ho, Hop. cbn [andb].
    rewrite (Hval (Gen.gj_tasks gj)).
    2:{ intros d. unfold Event.mem. specialize (Ht d). destruct (jt_find (j_tasks jb) d), (Event.lookup d (Gen.gj_tasks gj)); try reflexivity; contradiction. }
    eapply RelJ_upd1; [exact HR | split; [exact Hf | exact Hcn] | exact Hcm|].
    split; [cbn; congruence|]. split; [cbn; apply nodup_attach; exact Hn|].
    intros t. cbn [Gen.gj_tasks]. rewrite Hjt, lookup_attach. destruct (Event.memN t _); cbn; [reflexivity | apply Ht].
Qed.
