(** C07, "every running task is counted": when a worker is lost for a failure reason, EVERY task
    that was running on it (single-node: state [Running w _]; multi-node: [RunningMN] with root [w])
    gets its crash counter incremented; it is failed exactly when that reaches its crash limit
    (never-restart: always); the only other way it can leave the core in this step is by being aborted
    because another task of its job failed and the job exceeded its failure limit.

    Together with [crash_counter_rule] (CrashFrame.v: a counter changes only by +1, only at a failure
    loss, only for a running task) this is the full crash rule.  The proof needs the worker-set
    invariant [WI]: the lost worker's assigned set contains the task, so [lost_assigned] visits it. *)
From HQ Require Import Base.Prelude Cluster.Types Cluster.Core Cluster.Reactor Cluster.Worker Cluster.Server Cluster.Sys Cluster.Monitors Cluster.ProofsJob Cluster.ProofsMore Cluster.ProofsTerminal Cluster.ProofsStep Cluster.ProofsFinal Cluster.ProofsOnce Cluster.BijBase Cluster.BijCore Cluster.BijHq Cluster.BijSt Cluster.BijReact Cluster.BijFinal Cluster.FrameGen Cluster.CrashFrame Cluster.RejHyp Cluster.InvWBase Cluster.InvWView Cluster.InvWCore Cluster.InvWFinal Cluster.InvAll Cluster.InvBundle Cluster.ReleaseLost0.
From Coq Require Import ZArith Lia Sorting.Sorted.
Local Open Scope N_scope.

Arguments N.add : simpl never.
Arguments N.sub : simpl never.

(** * The lists handed to the crash rule *)
Lemma lost_prefilled_other l : forall c c', lost_prefilled c l = Ok c' ->
  forall id, ~ In id l -> find_task (c_tasks c') id = find_task (c_tasks c) id.
Proof.
  induction l as [|h r IH]; cbn [lost_prefilled]; intros c c' H id Hni; [inversion H; reflexivity|].
  apply bind_ok in H. destruct H as (t & Ht & H). apply get_task_find in Ht. destruct (find_task_some _ _ _ Ht) as [_ Hid].
  apply bind_ok in H. destruct H as (q & _ & H). apply bind_ok in H. destruct H as (q' & _ & H).
  rewrite (IH _ _ H id) by (intros X; apply Hni; right; exact X).
  change (find_task (set_task (c_tasks c) (with_state (with_inst t (t_inst t + 1)) (Waiting 0))) id = find_task (c_tasks c) id).
  rewrite find_set_task. cbn [t_id with_state with_inst]. rewrite Hid.
  destruct (tid_eqb id h) eqn:E; [apply tid_eqb_eq in E; subst; exfalso; apply Hni; left; reflexivity | reflexivity].
Qed.

(** [lost_assigned] remembers every task of its list that is Running. *)
Lemma lost_assigned_collects l : forall c running ret c' running' ret',
  lost_assigned c l running ret = Ok (c', running', ret') ->
  incl running running' /\
  forall id t w rv, In id l -> find_task (c_tasks c) id = Some t -> t_state t = Running w rv -> In id running'.
Proof.
  induction l as [|h r IH]; cbn [lost_assigned]; intros c running ret c' running' ret' H.
  - inversion H; subst. split; [apply incl_refl | intros id t w rv []].
  - apply bind_ok in H. destruct H as (t0 & Ht & H). apply get_task_find in Ht. destruct (find_task_some _ _ _ Ht) as [_ Hid].
    apply bind_ok in H. destruct H as ([[c1 t1] running1] & H1 & H). apply bind_ok in H. destruct H as ([qs rt] & _ & H).
    assert (Hc : c_tasks c1 = c_tasks c /\ t_id t1 = h /\ incl running running1 /\ (forall w rv, t_state t0 = Running w rv -> In h running1)).
    { destruct (t_state t0) eqn:Est;
        try (injection H1 as <- <- <-; split; [reflexivity|]; split; [exact Hid|]; split; [apply incl_refl | intros; discriminate]).
      - destruct (find_redirect (c_redirects c) h); [|discriminate]. injection H1 as <- <- <-.
        split; [reflexivity|]. split; [exact Hid|]. split; [apply incl_refl | intros; discriminate].
      - injection H1 as <- <- <-. split; [reflexivity|]. split; [exact Hid|].
        split; [apply incl_appl, incl_refl | intros; apply in_or_app; right; left; reflexivity]. }
    destruct Hc as (Et & Ei & Hinc & Hrun).
    destruct (IH _ _ _ _ _ _ H) as [I1 I2]. split; [eapply incl_tran; eassumption|].
    intros id t w rv Hin Hf Hst. destruct (tid_dec id h) as [->|Hne].
    + rewrite Ht in Hf. inversion Hf; subst t0. apply I1. eapply Hrun. exact Hst.
    + destruct Hin as [->|Hin]; [contradiction|]. eapply (I2 id t w rv Hin); [|exact Hst].
      change (find_task (set_task (c_tasks c1) (with_inst t1 (t_inst t1 + 1))) id = Some t).
      rewrite find_set_task. cbn [t_id with_inst]. rewrite Ei, Et. apply tid_eqb_neq in Hne. rewrite Hne. exact Hf.
Qed.

Lemma perm_of_set_parts order ts : perm_of_set order ts = true ->
  (forall x, In x order -> tid_mem x ts = true) /\ (forall x, In x ts -> tid_mem x order = true).
Proof.
  unfold perm_of_set. intros H. apply andb_true_iff in H. destruct H as [H H2]. apply andb_true_iff in H. destruct H as [_ H1].
  rewrite forallb_forall in H1, H2. auto.
Qed.

Lemma counted_tasks x t c1 c2 E : c_tasks c2 = c_tasks c1 -> counted x t c1 E -> counted x t c2 E.
Proof. unfold counted. intros ->. auto. Qed.

(** * [on_remove_worker] *)
Lemma on_remove_worker_counts s w reason a p t s' id tk :
  HOK (hq_of s) -> CB s -> WI (core_of s) ->
  on_remove_worker s w reason a p t = Ok s' -> reason_is_failure reason = true ->
  find_task (c_tasks (core_of s)) id = Some tk ->
  ((exists rv, t_state tk = Running w rv) \/ (exists rest, t_state tk = RunningMN (w :: rest))) ->
  exists E0 E, snd s' = snd s ++ E0 ++ E /\ counted id tk (core_of s') E.
Proof.
  intros Hok HC HW H Hrf Hf Hrun.
  destruct HW as (_ & _ & Hv & _).
  unfold on_remove_worker in H.
  destruct (find_worker (c_workers (core_of s)) w) as [wk|] eqn:Ew; [|discriminate].
  apply bind_ok in H. destruct H as ([[c2 running] retracted] & Hr & H).
  set (c0 := with_workers (core_of s) (del_worker (c_workers (core_of s)) w)) in *.
  assert (Hs : TS (core_of s)) by (apply TS_CS; exact (cb_s _ HC)).
  assert (Hs0 : TS c0) by exact Hs.
  assert (Hcs0 : CS c0) by exact (cb_s _ HC).
  pose proof (wi_A _ _ _ Hv w id) as XA. pose proof (wi_P _ _ _ Hv w id) as XP. pose proof (wi_M _ _ _ Hv w id) as XM.
  unfold inA, wantA, hv, x0 in XA. unfold inP, wantP, hv, x0 in XP. unfold inM, wantM, hv, x0 in XM.
  rewrite Ew, (TV_find _ _ _ Hf) in XA, XP, XM. cbn [plo] in XA, XP, XM.
  assert (E2 : keys c2 = K s /\ ckeys c2 = ckeys (core_of s) /\ NoDup running /\ In id running).
  { destruct (w_assign wk) as [a0 p0 f0|mt root] eqn:Ea.
    - destruct (negb (perm_of_set a a0 && perm_of_set p p0)) eqn:Eperm; [discriminate|].
      apply negb_false_iff, andb_true_iff in Eperm. destruct Eperm as [Pa Pp].
      apply bind_ok in Hr. destruct Hr as (c1 & Hp & Hr).
      pose proof (lost_prefilled_frame _ _ _ Hcs0 Hp) as K1.
      pose proof (lost_prefilled_pframe _ ci ci_state ci_inst _ _ _ Hs0 Hp) as E1.
      split; [rewrite (lost_assigned_frame _ _ _ _ _ _ _ (CS_keys _ _ K1 Hcs0) Hr); exact K1|].
      split; [rewrite (lost_assigned_pframe _ ci ci_state ci_inst _ _ _ _ _ _ _ (PS_keys _ ci _ _ E1 Hs0) Hr); exact E1|].
      split.
      + eapply (lost_assigned_running c0 _ c1 [] []); [eapply lost_prefilled_Rinv; [apply Rinv_refl | exact Hp] | constructor | intros x [] | exact Hr].
      + destruct Hrun as [(rv & Est)|(rest & Est)]; rewrite Est in XA, XP, XM; cbn [pl] in XA, XP, XM.
        * rewrite N.eqb_refl in XA.
          destruct (perm_of_set_parts _ _ Pa) as [_ Pa2]. destruct (perm_of_set_parts _ _ Pp) as [Pp1 _].
          assert (Hia : In id a) by (apply tid_mem_true_in; apply Pa2; apply tid_mem_true_in; exact XA).
          assert (Hnp : ~ In id p) by (intros X; apply Pp1 in X; rewrite X in XP; discriminate).
          eapply (proj2 (lost_assigned_collects _ _ _ _ _ _ _ Hr) id tk w rv Hia); [|exact Est].
          rewrite (lost_prefilled_other _ _ _ Hp id Hnp). exact Hf.
        * cbn [n_mem] in XM. rewrite N.eqb_refl in XM. discriminate.
    - destruct Hrun as [(rv & Est)|(rest & Est)]; rewrite Est in XA, XP, XM; cbn [pl] in XA, XP, XM;
        [rewrite N.eqb_refl in XA; discriminate|].
      cbn [n_mem] in XM. rewrite N.eqb_refl in XM. cbn [orb] in XM. apply tid_eqb_eq in XM. subst mt.
      apply bind_ok in Hr. destruct Hr as (tk0 & Ht & Hr). apply get_task_find in Ht.
      change (c_tasks c0) with (c_tasks (core_of s)) in Ht. rewrite Hf in Ht. inversion Ht; subst tk0. clear Ht.
      rewrite Est in Hr. rewrite N.eqb_refl in Hr.
      apply bind_ok in Hr. destruct Hr as (c1 & Hc1 & Hr). apply bind_ok in Hr. destruct Hr as ([qs ret] & _ & Hr).
      inversion Hr; subst. clear Hr.
      pose proof (reset_mn_all_tasks _ _ _ Hc1) as T1.
      split; [|split; [|split; [constructor; [intros [] | constructor] | left; reflexivity]]].
      + change (keys (upd_task c1 (with_inst (with_state tk (Waiting 0)) (t_inst tk + 1))) = K s).
        transitivity (keys c1); [|exact (reset_mn_all_frame _ _ _ Hc1)].
        apply (upd_task_frame c1 id tk); [eapply CS_keys; [exact (reset_mn_all_frame _ _ _ Hc1) | exact Hcs0] | rewrite T1; exact Hf | reflexivity | reflexivity].
      + change (ckeys (upd_task c1 (with_inst (with_state tk (Waiting 0)) (t_inst tk + 1))) = ckeys (core_of s)).
        transitivity (ckeys c1); [|unfold pkeys; rewrite T1; reflexivity].
        apply (upd_task_pframe _ ci c1 id tk); [unfold TS; rewrite T1; exact Hs0 | rewrite T1; exact Hf | reflexivity | reflexivity]. }
  destruct E2 as (K2 & E2 & Hnd & Hin).
  destruct (negb (perm_of_set t _)); [discriminate|].
  apply bind_ok in H. destruct H as (s3 & H3 & H). apply bind_ok in H. destruct H as (s4 & H4 & H).
  apply bind_ok in H. destruct H as (s6 & H6 & H). apply bind_ok in H. destruct H as (s7 & H7 & H). inversion H; subst. clear H.
  match type of H3 with lost_retracting ?sx _ _ = _ => set (s2 := sx) in * end.
  (* the bijection with the job layer up to the crash-limit loop *)
  assert (HC2 : CB s2) by (eapply CB_same; [exact K2 | reflexivity | exact HC]).
  pose proof (lost_retracting_K _ _ _ _ (cb_s _ HC2) H3) as K3. pose proof (lost_retracting_same _ _ _ _ H3) as Q3.
  assert (HC3 : CB s3) by (eapply CB_same; [exact K3 | exact Q3 | exact HC2]).
  pose proof (process_retracted_K _ _ _ (cb_s _ HC3) H4) as K4. pose proof (process_retracted_hq _ _ _ H4) as Q4.
  assert (HC4 : CB s4) by (eapply CB_same; [exact K4 | exact Q4 | exact HC3]).
  assert (HC5 : CB (broadcast s4 (DLostWorker w))) by (eapply CB_same; [| |exact HC4]; reflexivity).
  destruct (process_worker_lost_active _ _ _ _ _ H6) as [C6 A6].
  assert (HC6 : CB s6) by (eapply CB_frame; [unfold K; rewrite C6; reflexivity | exact A6 | exact HC5]).
  assert (Hok6 : HOK (hq_of s6)).
  { eapply process_worker_lost_ok; [|exact H6]. change (HOK (hq_of s4)). unfold hq_same in Q3. rewrite Q4, Q3. exact Hok. }
  (* the crash info up to the loop *)
  assert (Hs2 : TS (core_of s2)) by (eapply PS_keys; [exact E2 | exact Hs]).
  pose proof (lost_retracting_PK _ ci ci_state ci_inst _ _ _ _ Hs2 H3) as P3. unfold PK in P3.
  assert (Hs3 : TS (core_of s3)) by (eapply PS_keys; [exact P3 | exact Hs2]).
  pose proof (process_retracted_PK _ ci ci_state _ _ _ Hs3 H4) as P4. unfold PK in P4.
  unfold core_same in C6.
  assert (K6 : ckeys (core_of s6) = ckeys (core_of s)).
  { rewrite C6. change (ckeys (core_of s4) = ckeys (core_of s)). rewrite P4, P3. exact E2. }
  assert (Hf6 : exists t6, find_task (c_tasks (core_of s6)) id = Some t6 /\ ci t6 = ci tk).
  { pose proof (cframe _ _ K6 id) as X. unfold cget in X. rewrite Hf in X. cbn [option_map] in X.
    destruct (find_task (c_tasks (core_of s6)) id) as [t6|]; [|discriminate]. exists t6. split; [reflexivity|]. cbn [option_map] in X. congruence. }
  destruct Hf6 as (t6 & Hf6 & Hci).
  (* the event stream up to the loop *)
  assert (S6 : exists E0, snd s6 = snd s ++ E0).
  { unfold process_worker_lost in H6. apply bind_ok in H6. destruct H6 as (s5 & H5 & H6). inversion H6; subst s6.
    exists [OEv (EvWLost w reason)]. cbn [emit snd]. f_equal.
    assert (X : forall l sa sb, set_waiting_all sa l = Ok sb -> snd sb = snd sa).
    { clear. induction l as [|x r IH]; cbn [set_waiting_all]; intros sa sb H; [inversion H; reflexivity|].
      apply bind_ok in H. destruct H as (sc & Hc & H). rewrite (IH _ _ H).
      unfold set_waiting_state in Hc. apply bind_ok in Hc. destruct Hc as (j & _ & Hc).
      destruct (jt_find _ _) as [[]|]; try discriminate; try (inversion Hc; reflexivity).
      apply bind_ok in Hc. destruct Hc as (nr & _ & Hc). inversion Hc; reflexivity. }
    rewrite (X _ _ _ H5). change (snd s4 = snd s). rewrite (process_retracted_snd _ _ _ H4), (lost_retracting_snd _ _ _ _ H3). reflexivity. }
  destruct S6 as (E0 & HE0).
  destruct (lost_fail_running_counts _ _ _ _ Hnd Hok6 HC6 Hrf H7) as (E & HE & Hcnt & _ & _).
  exists E0, E. split; [cbn [ask_scheduling st_core snd]; rewrite HE, HE0, app_assoc; reflexivity|].
  eapply (counted_tasks _ _ (core_of s7)); [reflexivity|].
  eapply counted_ci; [exact Hci|]. apply Hcnt; [exact Hin | exact Hf6].
Qed.

(** * The theorem, for every reachable state *)
Theorem lost_running_all_counted ops reserve maxfill s outs w reason a p t s' outs' id tk :
  Forall op_wf ops -> run_fresh (init_sys reserve maxfill) ops = true -> run (init_sys reserve maxfill) ops = Ok (s, outs) ->
  step s (OpLost w reason a p t) = Ok (s', outs') -> reason_is_failure reason = true ->
  find_task (c_tasks (s_core s)) id = Some tk ->
  ((exists rv, t_state tk = Running w rv) \/ (exists rest, t_state tk = RunningMN (w :: rest))) ->
  (* counted and kept *)
  (limit_hit tk = false /\
   exists tk', find_task (c_tasks (s_core s')) id = Some tk' /\ t_crash tk' = t_crash tk + 1 /\ t_climit tk' = t_climit tk) \/
  (* gone: failed at the limit, or aborted with its job *)
  (find_task (c_tasks (s_core s')) id = None /\
   ((limit_hit tk = true /\ In (OEv (EvFailed id (fail_kind tk))) outs') \/
    exists ids, In id ids /\ In (OEv (EvAborted ids)) outs')).
Proof.
  intros Hwf Hf Hr Hst Hrf Hft Hrun.
  pose proof (reachable_INV _ _ _ _ _ Hwf Hf Hr) as HI.
  cbn [step] in Hst. destruct (find_proc (s_procs s) w); [|discriminate].
  destruct (on_remove_worker_counts (s, []) w reason a p t (s', outs') id tk (inv_hok _ HI) (inv_cb _ HI) (inv_w _ HI) Hst Hrf Hft Hrun)
    as (E0 & E & HE & Hc).
  cbn [snd app] in HE. eapply counted_incl in Hc; [exact Hc|]. rewrite HE. apply incl_appr, incl_refl.
Qed.

(** Non-vacuity 1 (CrashFrame.v's history): a task with limit 3 running on worker 1, which is lost
    by a connection failure: counter 0 -> 1, the task stays. *)
Example lost_counted_example_kept :
  Forall op_wf crash_ops /\ run_fresh (init_sys 0 2) crash_ops = true /\
  exists s outs s' outs' tk tk',
    run (init_sys 0 2) crash_ops = Ok (s, outs) /\ step s crash_last = Ok (s', outs') /\
    find_task (c_tasks (s_core s)) (1, 0) = Some tk /\ t_state tk = Running 1 0 /\ limit_hit tk = false /\
    find_task (c_tasks (s_core s')) (1, 0) = Some tk' /\ t_crash tk' = t_crash tk + 1.
Proof.
  split; [repeat constructor|]. split; [vm_compute; reflexivity|].
  do 6 eexists. split; [vm_compute; reflexivity|]. split; [vm_compute; reflexivity|].
  split; [vm_compute; reflexivity|]. split; [reflexivity|]. split; [reflexivity|]. split; [vm_compute; reflexivity|]. reflexivity.
Qed.

(** Non-vacuity 2: the same with crash limit 1: the task is failed with [FCrashLimit]. *)
Definition crash1_ops : list op :=
  [OpConnect [20000; 0; 0] 0;
   OpSubmit None [] None crash_rq 0%Z (CMax 1) false None;
   OpSched (mkSol [(0, 0, [(1, 1)])] [] [1] []);
   OpDDown 1 []; OpDDown 1 []; OpDUp 1].

Example lost_counted_example_failed :
  Forall op_wf crash1_ops /\ run_fresh (init_sys 0 2) crash1_ops = true /\
  exists s outs s' outs' tk,
    run (init_sys 0 2) crash1_ops = Ok (s, outs) /\ step s crash_last = Ok (s', outs') /\
    find_task (c_tasks (s_core s)) (1, 0) = Some tk /\ t_state tk = Running 1 0 /\ limit_hit tk = true /\
    find_task (c_tasks (s_core s')) (1, 0) = None /\ In (OEv (EvFailed (1, 0) FCrashLimit)) outs'.
Proof.
  split; [repeat constructor|]. split; [vm_compute; reflexivity|].
  do 5 eexists. split; [vm_compute; reflexivity|]. split; [vm_compute; reflexivity|].
  split; [vm_compute; reflexivity|]. split; [reflexivity|]. split; [reflexivity|]. split; [vm_compute; reflexivity|].
  vm_compute. auto.
Qed.

(** Non-vacuity 3 - the third alternative cannot be dropped: two running tasks of a job with
    max-fails 0; (1,0) has crash limit 1, (1,1) limit 5.  The loss fails (1,0) at its limit, the job
    exceeds its failure limit and (1,1) - whose own limit is NOT reached - is aborted, not kept. *)
Definition crash2_ops : list op :=
  [OpConnect [20000; 0; 0] 0;
   OpSubmitG None [crash_rq] [(0, 0, 0%Z, CMax 1, []); (1, 0, 0%Z, CMax 5, [])] (Some 0);
   OpSched (mkSol [(0, 0, [(1, 2)])] [] [1] []);
   OpDDown 1 []; OpDDown 1 []; OpDUp 1].
Definition crash2_last : op := OpLost 1 1 [(1, 0); (1, 1)] [] [(1, 0); (1, 1)].

Example lost_counted_example_aborted :
  Forall op_wf crash2_ops /\ run_fresh (init_sys 0 2) crash2_ops = true /\
  exists s outs s' outs' tk,
    run (init_sys 0 2) crash2_ops = Ok (s, outs) /\ step s crash2_last = Ok (s', outs') /\
    find_task (c_tasks (s_core s)) (1, 1) = Some tk /\ t_state tk = Running 1 0 /\ limit_hit tk = false /\
    find_task (c_tasks (s_core s')) (1, 1) = None /\
    outs' = [OEv (EvWLost 1 1); OEv (EvFailed (1, 0) FCrashLimit); OEv (EvAborted [(1, 1)]); OEv (EvCompleted 1)].
Proof.
  split; [repeat constructor|]. split; [vm_compute; reflexivity|].
  do 5 eexists. split; [vm_compute; reflexivity|]. split; [vm_compute; reflexivity|].
  split; [vm_compute; reflexivity|]. split; [reflexivity|]. split; [reflexivity|]. split; vm_compute; reflexivity.
Qed.

Print Assumptions lost_running_all_counted.
