(** Protocol invariant, part 8: grouped pending messages, [process_retracted] as a transition of
    [SP], and the simple reactor functions ([task_running], [task_reject], [request_enabled]). *)
From HQ Require Import Base.Prelude Cluster.Types Cluster.Core Cluster.Reactor Cluster.Worker Cluster.Server Cluster.Sys Cluster.ProofsJob Cluster.ProofsMore Cluster.ProofsTerminal Cluster.ProofsStep Cluster.BijBase Cluster.BijHq Cluster.NoPanicU0 Cluster.NoPanicU1 Cluster.NoPanicU2 Cluster.NoPanicU6 Cluster.NoPanicU7.
From Coq Require Import ZArith Lia Sorting.Sorted.
Local Open Scope N_scope.

Notation tid_eqb_eq := NoPanicU1.tid_eqb_eq.
Notation tid_eqb_neq := NoPanicU1.tid_eqb_neq.
Notation tid_eqb_refl := NoPanicU1.tid_eqb_refl.
Notation find_set_task := NoPanicU6.find_set_task.

(** * Grouped messages *)
Section Groups.
Context {A : Type}.
Variable mk : list A -> dmsg.

Definition pg (acc : list (wid * list A)) : list (wid * dmsg) := map (fun g => (fst g, mk (snd g))) acc.

Fixpoint glook (w : wid) (acc : list (wid * list A)) : option (list A) :=
  match acc with [] => None | (k, v) :: r => if N.eqb k w then Some v else glook w r end.

Lemma glook_none w acc : ~ In w (map fst acc) -> glook w acc = None.
Proof.
  induction acc as [|[k v] r IH]; cbn [glook map fst In]; [reflexivity|]. intros Hn.
  destruct (N.eqb k w) eqn:E; [apply N.eqb_eq in E; exfalso; apply Hn; auto | apply IH; intros X; apply Hn; auto].
Qed.

Lemma msgs_for_pg w acc : NoDup (map fst acc) ->
  msgs_for w (pg acc) = match glook w acc with Some l => [mk l] | None => [] end.
Proof.
  induction acc as [|[k v] r IH]; cbn [pg map fst glook]; intros Hn; [reflexivity|].
  inversion Hn as [|? ? Hni Hn']; subst. rewrite msgs_for_cons. cbn [fst snd]. fold (pg r).
  destruct (N.eqb k w) eqn:E.
  - apply N.eqb_eq in E. subst k. rewrite (IH Hn'), (glook_none _ _ Hni). reflexivity.
  - apply IH. exact Hn'.
Qed.

Lemma group_add_keys w (x : A) acc : map fst (group_add w x acc) = if in_dec N.eq_dec w (map fst acc) then map fst acc else map fst acc ++ [w].
Proof.
  induction acc as [|[k v] r IH]; cbn [group_add map fst]; [reflexivity|].
  destruct (N.eqb k w) eqn:E.
  - apply N.eqb_eq in E. subst k. cbn [map fst]. destruct (in_dec N.eq_dec w (w :: map fst r)) as [_|Hn]; [reflexivity | exfalso; apply Hn; left; reflexivity].
  - apply N.eqb_neq in E. cbn [map fst]. rewrite IH.
    destruct (in_dec N.eq_dec w (map fst r)) as [Hi|Hn]; destruct (in_dec N.eq_dec w (k :: map fst r)) as [Hi'|Hn']; try reflexivity.
    + exfalso. apply Hn'. right. exact Hi.
    + exfalso. destruct Hi' as [->|Hi']; [congruence | contradiction].
Qed.
Lemma group_add_nodup w (x : A) acc : NoDup (map fst acc) -> NoDup (map fst (group_add w x acc)).
Proof.
  intros Hn. rewrite group_add_keys. destruct (in_dec N.eq_dec w (map fst acc)) as [_|Hni]; [exact Hn|].
  clear -Hn Hni. induction (map fst acc) as [|h t IH]; cbn [app]; [constructor; [intros [] | constructor]|].
  inversion Hn as [|? ? Hh Ht]; subst. constructor.
  - rewrite in_app_iff. intros [H|[H|[]]]; [contradiction | subst; apply Hni; left; reflexivity].
  - apply IH; [exact Ht | intros H; apply Hni; right; exact H].
Qed.
Lemma glook_group_add w (x : A) acc w' :
  glook w' (group_add w x acc) = if N.eqb w w' then Some (match glook w acc with Some l => l | None => [] end ++ [x]) else glook w' acc.
Proof.
  induction acc as [|[k v] r IH]; cbn [group_add glook].
  - destruct (N.eqb w w'); reflexivity.
  - destruct (N.eqb k w) eqn:E1.
    + apply N.eqb_eq in E1. subst k. cbn [glook]. destruct (N.eqb w w'); reflexivity.
    + cbn [glook]. destruct (N.eqb k w') eqn:E2.
      * apply N.eqb_eq in E2. subst k. rewrite (N.eqb_sym w w'), E1. reflexivity.
      * exact IH.
Qed.
End Groups.

(** * Pending RetractTasks *)
Definition pdr (acc : list (wid * list tid)) : list (wid * dmsg) := pg DRetract acc.

Lemma dret_snoc y l x : ditems_msg y (DRetract (l ++ [x])) = ditems_msg y (DRetract l) ++ sel x y IDRet.
Proof. cbn [ditems_msg]. rewrite flat_map_app. cbn [flat_map]. rewrite app_nil_r. reflexivity. Qed.

Lemma pdr_add_items acc w x w' y : NoDup (map fst acc) ->
  ditems y (msgs_for w' (pdr (group_add w x acc))) = ditems y (msgs_for w' (pdr acc)) ++ (if N.eqb w' w then sel x y IDRet else []).
Proof.
  intros Hn. unfold pdr. rewrite (msgs_for_pg DRetract w' _ (group_add_nodup w x acc Hn)), (msgs_for_pg DRetract w' _ Hn), glook_group_add.
  rewrite (N.eqb_sym w w'). destruct (N.eqb w' w) eqn:E; [|rewrite app_nil_r; reflexivity].
  apply N.eqb_eq in E. subst w'. destruct (glook w acc) as [l|]; cbn [ditems flat_map]; rewrite ?app_nil_r.
  - apply dret_snoc.
  - cbn [app ditems_msg flat_map]. rewrite app_nil_r. reflexivity.
Qed.

Lemma pdr_add_tids acc w x w' y : NoDup (map fst acc) ->
  In y (flat_map dmsg_tids (msgs_for w' (pdr (group_add w x acc)))) -> In y (flat_map dmsg_tids (msgs_for w' (pdr acc))) \/ y = x.
Proof.
  intros Hn. unfold pdr. rewrite (msgs_for_pg DRetract w' _ (group_add_nodup w x acc Hn)), (msgs_for_pg DRetract w' _ Hn), glook_group_add.
  destruct (N.eqb w w') eqn:E; [|auto]. apply N.eqb_eq in E. subst w'.
  destruct (glook w acc) as [l|]; cbn [flat_map dmsg_tids]; rewrite ?app_nil_r.
  - rewrite in_app_iff. cbn [In]. intros [H|[H|[]]]; auto.
  - cbn [app In]. intros [H|[]]; auto.
Qed.

Definition plain (m : dmsg) : Prop := match m with DRetract _ | DCancel _ => True | _ => False end.
Lemma down_ok_plain rqs ms : (forall m, In m ms -> plain m) -> forall d n, down_ok rqs n (d ++ ms) = down_ok rqs n d.
Proof.
  intros Hp. induction d as [|m r IH]; intros n; cbn [app].
  - induction ms as [|m r IH]; [reflexivity|]. pose proof (Hp m (or_introl eq_refl)) as Hm.
    destruct m; try destruct Hm; cbn [down_ok]; apply IH; intros m0 H0; apply Hp; right; exact H0.
  - destruct m; cbn [down_ok]; rewrite ?IH; reflexivity.
Qed.
Lemma newrq_plain ms : (forall m, In m ms -> plain m) -> newrq_defs ms = [].
Proof.
  induction ms as [|m r IH]; intros Hp; [reflexivity|]. pose proof (Hp m (or_introl eq_refl)) as Hm.
  unfold newrq_defs in *. cbn [flat_map]. destruct m; try destruct Hm; cbn [app]; apply IH; intros m0 H0; apply Hp; right; exact H0.
Qed.
Lemma pg_plain {A} (mk : list A -> dmsg) w acc : (forall l, plain (mk l)) -> forall m, In m (msgs_for w (pg mk acc)) -> plain m.
Proof.
  intros Hmk m Hm. unfold msgs_for, pg in Hm. apply in_map_iff in Hm. destruct Hm as ([k m0] & <- & Hin). apply filter_In in Hin.
  destruct Hin as [Hin _]. apply in_map_iff in Hin. destruct Hin as (g & Eg & _). inversion Eg; subst. apply Hmk.
Qed.

Lemma newrq_app a b : newrq_defs (a ++ b) = newrq_defs a ++ newrq_defs b.
Proof. unfold newrq_defs. apply flat_map_app. Qed.

(** * [retract_states] / [process_retracted] *)
Lemma retract_states_SP X s pum ids : forall c acc c' acc',
  SP X (st_core s c) pum (pdr acc) -> NoDup (map fst acc) -> retract_states c ids acc = Ok (c', acc') ->
  SP X (st_core s c') pum (pdr acc') /\ NoDup (map fst acc').
Proof.
  induction ids as [|id r IH]; cbn [retract_states]; intros c acc c' acc' HS Hn H; [inversion H; subst; auto|].
  apply bind_ok in H. destruct H as (t & Ht & H). unfold get_task in Ht.
  destruct (find_task (c_tasks c) id) as [t0|] eqn:Ef; [|discriminate]. inversion Ht; subst t0. clear Ht.
  destruct (find_task_some _ _ _ Ef) as [_ Eid].
  destruct (t_state t) as [| |w| | | |] eqn:Est; try discriminate.
  apply bind_ok in H. destruct H as (wk & _ & H). apply bind_ok in H. destruct H as (wk' & _ & H).
  set (t' := with_state t (Retracting w)) in *.
  set (c1 := upd_worker (upd_task c t') wk') in *.
  apply (IH c1 (group_add w id acc) c' acc'); [|apply group_add_nodup; exact Hn | exact H].
  change (st_core s c1) with (mkSys c1 (hq_of (st_core s c)) (s_procs (fst (st_core s c))), snd (st_core s c)).
  apply (SP_gen (fun y => tid_eqb y id) X X (st_core s c) pum (pdr acc) c1 _ _ pum (pdr (group_add w id acc)) HS).
  - unfold tsorted. cbn [c1 upd_worker upd_task with_workers with_tasks c_tasks]. apply set_task_sorted. exact (sp_cs _ _ _ _ HS).
  - reflexivity.
  - exact (sp_rvr _ _ _ _ HS).
  - intros y ty E Hy HX. cbn [c1 upd_worker upd_task with_workers with_tasks c_tasks] in Hy. rewrite find_set_task in Hy.
    cbn [t' with_state t_id] in Hy. rewrite Eid, E in Hy. exists ty. repeat split; assumption.
  - intros w' y E. split; [reflexivity|]. rewrite (pdr_add_items _ _ _ _ _ Hn). apply tid_eqb_neq in E.
    destruct (N.eqb w' w); rewrite ?sel_other by congruence; rewrite app_nil_r; reflexivity.
  - auto.
  - intros y ty Hy. cbn [c1 upd_worker upd_task with_workers with_tasks c_tasks] in Hy. rewrite find_set_task in Hy.
    cbn [t' with_state t_id] in Hy. rewrite Eid in Hy. destruct (tid_eqb y id) eqn:E; [apply tid_eqb_eq in E; subst y|];
      change (core_of (st_core s c)) with c; congruence.
  - intros w' p y Hp [Hy|Hy].
    + eapply (sp_seen _ _ _ _ HS); [exact Hp | right; left; exact Hy].
    + destruct (pdr_add_tids _ _ _ _ _ Hn Hy) as [Hy'| ->]; [eapply (sp_seen _ _ _ _ HS); [exact Hp | right; right; exact Hy']|].
      eapply (sp_pres _ _ _ _ HS). exact Ef.
  - intros w' p Hp. pose proof (sp_down _ _ _ _ HS _ _ Hp) as Hd.
    assert (P1 : forall m, In m (msgs_for w' (pdr (group_add w id acc))) -> plain m) by (apply pg_plain; intros; exact I).
    assert (P0 : forall m, In m (msgs_for w' (pdr acc)) -> plain m) by (apply pg_plain; intros; exact I).
    rewrite (down_ok_plain _ _ P0) in Hd. rewrite (down_ok_plain _ _ P1), (newrq_plain _ P1), (newrq_plain _ P0). split; [exact Hd | reflexivity].
  - auto.
  - intros x tx E Hx HX. apply tid_eqb_eq in E. subst x.
    cbn [c1 upd_worker upd_task with_workers with_tasks c_tasks] in Hx. rewrite find_set_task in Hx. cbn [t' with_state t_id] in Hx.
    rewrite Eid, tid_eqb_refl in Hx. inversion Hx; subst tx. clear Hx.
    change (core_of (st_core s c)) with c in *. change (hq_of (st_core s c)) with (hq_of s) in *.
    split; [exact (sp_act _ _ _ _ HS _ _ Ef HX)|]. split; [|split; [|split]].
    + pose proof (sp_mnt _ _ _ _ HS _ _ Ef HX) as M. unfold mn_task_ok in *. cbn [t' with_state t_state t_rq c1 upd_worker upd_task with_workers with_tasks c_rqs]. rewrite Est in M. exact M.
    + pose proof (sp_jr _ _ _ _ HS _ _ Ef HX) as J. unfold jr_ok in *. cbn [t' with_state t_state t_id]. rewrite Est in J. exact J.
    + intros w0 rv0 E0. cbn in E0. discriminate.
    + intros w' p Hp. pose proof (sp_words _ _ _ _ HS w' p id t Hp Ef HX) as Hl. rewrite Est in Hl.
      cbn [t' with_state t_state view_of] in Hl |- *. rewrite ditems_app, (pdr_add_items _ _ _ _ _ Hn), sel_same.
      rewrite (N.eqb_sym w' w). destruct (N.eqb w w') eqn:E.
      * rewrite app_assoc, <- ditems_app. apply LA_ret. exact Hl.
      * rewrite app_nil_r, <- ditems_app. exact Hl.
Qed.

(** [SP] looks at the core, the job layer and the processes only. *)
Lemma SP_ext X s s' pum pd : SP X s pum pd -> core_of s' = core_of s -> hq_of s' = hq_of s -> s_procs (fst s') = s_procs (fst s) ->
  SP X s' pum pd.
Proof.
  intros [H9 Hcs Hact H1 Hd Ht H3 H4 Hpres Hpum H5 H6 H7 R1 R2] Ec Eh Ep.
  constructor; rewrite ?Ec, ?Eh, ?Ep; assumption.
Qed.

Lemma send_all_SP X pum msgs : forall s s', SP X s pum msgs -> send_all s msgs = Ok s' -> SP X s' pum [].
Proof.
  induction msgs as [|[w m] r IH]; cbn [send_all]; intros s s' HS H; [inversion H; subst; exact HS|].
  apply bind_ok in H. destruct H as (s1 & H1 & H). eapply IH; [|exact H]. eapply SP_send; eassumption.
Qed.

Lemma process_retracted_SP X s pum ret s' : SP X s pum [] -> process_retracted s ret = Ok s' -> SP X s' pum [].
Proof.
  intros HS H. unfold process_retracted in H. destruct ret as [|r0 rr] eqn:Er; [inversion H; subst; exact HS|]. rewrite <- Er in H.
  apply bind_ok in H. destruct H as ([c' groups] & H1 & H).
  destruct (retract_states_SP X s pum ret (core_of s) [] c' groups) as [S1 _]; [|constructor | exact H1|].
  - eapply SP_ext; [exact HS | | |]; reflexivity.
  - eapply send_all_SP; [exact S1 | exact H].
Qed.

(** * A message [UUpdates us] from worker [w0] being processed *)
Definition pum_us (w0 : wid) (us : list wupdate) : wid -> list umsg := fun w => if N.eqb w w0 then [UUpdates us] else [].

Lemma pum_us_items w0 u r w y : uitems y (pum_us w0 (u :: r) w) = (if N.eqb w w0 then uitem_of y u else []) ++ uitems y (pum_us w0 r w).
Proof. unfold pum_us. destruct (N.eqb w w0); [|reflexivity]. cbn [uitems flat_map uitems_msg]. rewrite !app_nil_r. reflexivity. Qed.
Lemma pum_us_tids w0 u r w y : In y (flat_map umsg_tids (pum_us w0 r w)) -> In y (flat_map umsg_tids (pum_us w0 (u :: r) w)).
Proof. unfold pum_us. destruct (N.eqb w w0); [|auto]. cbn [flat_map umsg_tids]. rewrite !app_nil_r, in_app_iff. auto. Qed.

(** Hide a task and change the pending up messages for it. *)
Lemma SP_hide_pum X s pum pd pum' x :
  SP X s pum pd ->
  (forall w y, y <> x -> uitems y (pum' w) = uitems y (pum w)) ->
  (forall w y, In y (flat_map umsg_tids (pum' w)) -> In y (flat_map umsg_tids (pum w))) ->
  (forall w, pum' w <> [] -> pum w <> []) ->
  SP (xadd X x) s pum' pd.
Proof.
  intros HS Hi Ht Hpm.
  apply (SP_ext _ (mkSys (core_of s) (hq_of s) (s_procs (fst s)), snd s) s); [|reflexivity|reflexivity|reflexivity].
  apply (SP_gen (fun y => tid_eqb y x) X (xadd X x) s pum pd (core_of s) (hq_of s) (snd s) pum' pd HS (sp_cs _ _ _ _ HS) eq_refl (sp_rvr _ _ _ _ HS)).
  - intros y t' E Hy HX. unfold xadd in HX. rewrite E in HX. exists t'. repeat split; assumption.
  - intros w y E. split; [apply Hi; apply tid_eqb_neq; exact E | reflexivity].
  - auto.
  - intros y t' Hy. congruence.
  - intros w p y Hp [Hy|Hy]; eapply (sp_seen _ _ _ _ HS); [exact Hp | right; left; apply Ht; exact Hy | exact Hp | right; right; exact Hy].
  - intros w p Hp. split; [exact (sp_down _ _ _ _ HS _ _ Hp) | reflexivity].
  - exact Hpm.
  - intros y t' E Hy HX. unfold xadd in HX. rewrite E in HX. discriminate.
Qed.

(** Show a hidden task again (or forget a hidden task that has left the core). *)
Lemma SP_show X s pum pd x :
  SP (xadd X x) s pum pd -> X x = false ->
  (forall t, find_task (c_tasks (core_of s)) x = Some t ->
      jactive (jv (hq_of s) x) /\ mn_task_ok (core_of s) t = true /\ jr_ok (hq_of s) t = true /\ (forall w rv, t_state t = Assigned w rv -> rv = 0) /\
      forall w p, find_proc (s_procs (fst s)) w = Some p ->
        lang (view_of (t_state t) w (job_running (hq_of s) x)) (uitems x (pum w ++ p_up p)) (local p x) (ditems x (p_down p ++ msgs_for w pd)) = true) ->
  SP X s pum pd.
Proof.
  intros HS HX Hx.
  apply (SP_ext _ (mkSys (core_of s) (hq_of s) (s_procs (fst s)), snd s) s); [|reflexivity|reflexivity|reflexivity].
  apply (SP_gen (fun y => tid_eqb y x) (xadd X x) X s pum pd (core_of s) (hq_of s) (snd s) pum pd HS (sp_cs _ _ _ _ HS) eq_refl (sp_rvr _ _ _ _ HS)).
  - intros y t' E Hy HXy. exists t'. unfold xadd. rewrite E. repeat split; assumption.
  - intros w y E. split; reflexivity.
  - auto.
  - intros y t' Hy. congruence.
  - intros w p y Hp Hy. eapply (sp_seen _ _ _ _ HS); [exact Hp | right; exact Hy].
  - intros w p Hp. split; [exact (sp_down _ _ _ _ HS _ _ Hp) | reflexivity].
  - auto.
  - intros y t' E Hy _. apply tid_eqb_eq in E. subst y. apply Hx. exact Hy.
Qed.

Lemma SP_show_absent X s pum pd x : SP (xadd X x) s pum pd -> X x = false -> find_task (c_tasks (core_of s)) x = None -> SP X s pum pd.
Proof. intros HS HX Hn. apply (SP_show X s pum pd x HS HX). intros t Ht. congruence. Qed.

(** The head update concerns a task that is absent (or concerns no task). *)
Lemma SP_drop_absent w0 u r s x :
  SP x0 s (pum_us w0 (u :: r)) [] -> (forall y, y <> x -> uitem_of y u = []) -> find_task (c_tasks (core_of s)) x = None ->
  SP x0 s (pum_us w0 r) [].
Proof.
  intros HS Hu Hn. apply (SP_show_absent x0 s _ _ x); [|reflexivity | exact Hn].
  apply (SP_hide_pum x0 s (pum_us w0 (u :: r)) [] _ x HS).
  - intros w y Hy. rewrite pum_us_items, (Hu y Hy). destruct (N.eqb w w0); reflexivity.
  - intros w y. apply pum_us_tids.
  - intros w. unfold pum_us. destruct (N.eqb w w0); [discriminate | auto].
Qed.

(** * [task_running] *)
Lemma process_task_started_frame s t i ws rv s' : process_task_started s t i ws rv = Ok s' ->
  core_of s' = core_of s /\ s_procs (fst s') = s_procs (fst s).
Proof.
  unfold process_task_started. intros H. apply bind_ok in H. destruct H as (j & _ & H).
  destruct (jt_find (j_tasks j) (snd t)); [|discriminate]. inversion H; subst. split; reflexivity.
Qed.

Lemma running_SP s w id rv b u r t s1 s2 st' inst ws :
  SP x0 s (pum_us w (u :: r)) [] ->
  (forall y, uitem_of y u = sel id y (IRun b rv)) ->
  find_task (c_tasks (core_of s)) id = Some t ->
  hq_of s1 = hq_of s -> s_procs (fst s1) = s_procs (fst s) ->
  (forall y, find_task (c_tasks (core_of s1)) y = if tid_eqb y id then Some (with_state t st') else find_task (c_tasks (core_of s)) y) ->
  tsorted (core_of s1) -> c_rqs (core_of s1) = c_rqs (core_of s) ->
  (forall r0, In r0 (c_redirects (core_of s1)) -> In r0 (c_redirects (core_of s))) ->
  process_task_started s1 id inst ws rv = Ok s2 ->
  ((st' = Running w rv /\ (t_state t = Assigned w rv \/ t_state t = Prefilled w \/ t_state t = Retracting w)) \/
   (st' = t_state t /\ exists ws0, t_state t = RunningMN (w :: ws0))) ->
  SP x0 s2 (pum_us w r) [].
Proof.
  intros HS Hu Ef Eh Ep Hfind Hcs Erq Hred Hst Hcase.
  destruct (process_task_started_frame _ _ _ _ _ _ Hst) as [Ec2 Ep2].
  destruct (process_task_started_chg _ _ _ _ _ _ Hst) as [Hchg Hjr]. rewrite Eh in Hchg, Hjr.
  destruct (find_task_some _ _ _ Ef) as [_ Eid].
  pose proof (sp_act _ _ _ _ HS _ _ Ef eq_refl) as Hact.
  assert (Hjr2 : jv (hq_of s2) id = Some (Some JR)) by (apply Hjr; exact Hact).
  assert (Hrun2 : job_running (hq_of s2) id = true) by (rewrite job_running_jv, Hjr2; reflexivity).
  apply (SP_ext _ (mkSys (core_of s1) (hq_of s2) (s_procs (fst s)), snd s2) s2); [|rewrite Ec2; reflexivity | reflexivity | rewrite Ep2, Ep; reflexivity].
  apply (SP_gen (fun y => tid_eqb y id) x0 x0 s (pum_us w (u :: r)) [] (core_of s1) (hq_of s2) (snd s2) (pum_us w r) [] HS Hcs Erq).
  - intros r0 Hr0. apply (sp_rvr _ _ _ _ HS). apply Hred. exact Hr0.
  - intros y t' E Hy _. rewrite Hfind, E in Hy. exists t'. repeat split; try assumption; try reflexivity.
    destruct Hchg as [_ Hc]. apply (proj1 (Hc y)). intros <-. rewrite tid_eqb_refl in E. discriminate.
  - intros w' y E. split; [|reflexivity]. rewrite pum_us_items, Hu. apply tid_eqb_neq in E. rewrite sel_other by congruence.
    destruct (N.eqb w' w); reflexivity.
  - intros y. apply (hq_chg_seen _ _ _ _ Hchg).
  - intros y t' Hy. rewrite Hfind in Hy. destruct (tid_eqb y id) eqn:E; [apply tid_eqb_eq in E; subst y|]; congruence.
  - intros w' p y Hp [Hy|[]]. eapply (sp_seen _ _ _ _ HS); [exact Hp | right; left; apply pum_us_tids; exact Hy].
  - intros w' p Hp. split; [rewrite Erq; exact (sp_down _ _ _ _ HS _ _ Hp) | reflexivity].
  - intros w'. unfold pum_us. destruct (N.eqb w' w); [discriminate | auto].
  - intros x t' E Hx _. apply tid_eqb_eq in E. subst x. rewrite Hfind, tid_eqb_refl in Hx. inversion Hx; subst t'. clear Hx.
    pose proof (sp_mnt _ _ _ _ HS _ _ Ef eq_refl) as Hm. pose proof (sp_jr _ _ _ _ HS _ _ Ef eq_refl) as Hj.
    split; [right; exact Hjr2|]. split; [|split; [|split]].
    + unfold mn_task_ok in *. cbn [with_state t_state t_rq]. rewrite Erq.
      destruct Hcase as [[-> [E|[E|E]]]|[-> _]]; try exact Hm; rewrite E in Hm; exact Hm.
    + unfold jr_ok. cbn [with_state t_state t_id]. rewrite Eid, Hrun2.
      destruct Hcase as [[-> _]|[-> (ws0 & ->)]]; reflexivity.
    + intros w1 rv1 E1. cbn [with_state t_state] in E1. destruct Hcase as [[-> _]|[-> (ws0 & E)]]; [discriminate | rewrite E in E1; discriminate].
    + intros w' p Hp. pose proof (sp_words _ _ _ _ HS w' p id t Hp Ef eq_refl) as Hl.
      rewrite uitems_app, pum_us_items, Hu, sel_same in Hl. rewrite uitems_app, Hrun2. cbn [with_state t_state].
      rewrite msgs_for_nil in *.
      destruct (N.eqb w' w) eqn:Ew.
      * apply N.eqb_eq in Ew. subst w'. cbn [app] in Hl. destruct (LS_run _ _ _ _ _ _ Hl) as [Hv Hl2].
        destruct Hcase as [[-> [E|[E|E]]]|[-> (ws0 & E)]]; rewrite E in Hl2; cbn [view_of] in Hl2 |- *; rewrite ?E; cbn [view_of]; rewrite N.eqb_refl in *; exact Hl2.
      * cbn [app] in Hl.
        assert (Ew' : N.eqb w w' = false) by (rewrite N.eqb_sym; exact Ew).
        destruct Hcase as [[-> [E|[E|E]]]|[-> (ws0 & E)]]; rewrite E in Hl; cbn [view_of] in Hl |- *; rewrite ?E; cbn [view_of]; rewrite Ew' in *; exact Hl.
Qed.

Lemma find_upd_task c t' y : find_task (c_tasks (upd_task c t')) y = if tid_eqb y (t_id t') then Some t' else find_task (c_tasks c) y.
Proof. cbn [upd_task with_tasks c_tasks]. apply find_set_task. Qed.

Lemma task_running_SP s w id rv u r s' b0 :
  SP x0 s (pum_us w (u :: r)) [] -> (u = URunning id rv \/ u = URunningPrefilled id rv) ->
  task_running s w id rv = Ok (s', b0) -> SP x0 s' (pum_us w r) [].
Proof.
  intros HS Hu H. unfold task_running in H. cbv zeta in H.
  assert (Hit : exists b, forall y, uitem_of y u = sel id y (IRun b rv)) by (destruct Hu as [->| ->]; eexists; intros y; reflexivity).
  destruct Hit as (b & Hit).
  destruct (find_task (c_tasks (core_of s)) id) as [t|] eqn:Ef.
  2:{ inversion H; subst. eapply (SP_drop_absent w u r s' id); [exact HS | | exact Ef]. intros y Hy. rewrite Hit. apply sel_other. congruence. }
  destruct (find_task_some _ _ _ Ef) as [_ Eid].
  apply bind_ok in H. destruct H as (rq & _ & H). apply bind_ok in H. destruct H as ([s1 ws] & H1 & H).
  apply bind_ok in H. destruct H as (s2 & H2 & H). inversion H; subst s' b0. clear H.
  pose proof (sp_cs _ _ _ _ HS) as Hcs.
  destruct (t_state t) as [n|w1 rv1|w1|w1|w1 rv1|ws0|] eqn:Est; try discriminate.
  - (* Assigned *)
    destruct (negb (N.eqb w1 w)) eqn:E1; [discriminate|]. apply negb_false_iff, N.eqb_eq in E1. subst w1.
    destruct (negb (N.eqb rv1 rv)) eqn:E2; [discriminate|]. apply negb_false_iff, N.eqb_eq in E2. subst rv1.
    inversion H1; subst s1 ws. clear H1.
    eapply (running_SP s w id rv b u r t (st_core s (upd_task (core_of s) (with_state t (Running w rv)))) s2 (Running w rv)); try eassumption; try reflexivity.
    + intros y. cbn [core_of st_core with_core s_core fst]. rewrite find_upd_task. cbn [with_state t_id]. rewrite Eid. reflexivity.
    + unfold tsorted. cbn [core_of st_core with_core s_core fst upd_task with_tasks c_tasks]. apply set_task_sorted. exact Hcs.
    + auto.
    + left. split; [reflexivity | left; exact Est].
  - (* Prefilled *)
    destruct (negb (N.eqb w1 w)) eqn:E1; [discriminate|]. apply negb_false_iff, N.eqb_eq in E1. subst w1.
    apply bind_ok in H1. destruct H1 as (wk & _ & H1). apply bind_ok in H1. destruct H1 as (wk' & _ & H1).
    apply bind_ok in H1. destruct H1 as (q & _ & H1). apply bind_ok in H1. destruct H1 as (q' & _ & H1). inversion H1; subst s1 ws. clear H1.
    match type of H2 with process_task_started ?sx _ _ _ _ = _ =>
      eapply (running_SP s w id rv b u r t sx s2 (Running w rv)); try eassumption; try reflexivity end.
    + intros y. cbn [core_of st_core with_core s_core fst upd_worker with_workers with_queues c_tasks]. rewrite find_upd_task. cbn [with_state t_id]. rewrite Eid. reflexivity.
    + unfold tsorted. cbn [core_of st_core with_core s_core fst upd_worker with_workers with_queues upd_task with_tasks c_tasks]. apply set_task_sorted. exact Hcs.
    + auto.
    + left. split; [reflexivity | right; left; exact Est].
  - (* Retracting *)
    destruct (negb (N.eqb w1 w)) eqn:E1; [discriminate|]. apply negb_false_iff, N.eqb_eq in E1. subst w1.
    apply bind_ok in H1. destruct H1 as (c1 & Hr & H1). apply bind_ok in H1. destruct H1 as (wk & _ & H1). apply bind_ok in H1. destruct H1 as (wk' & _ & H1).
    inversion H1; subst s1 ws. clear H1.
    pose proof (try_remove_redirection_CF x0 _ _ _ Hr) as [_ F2 F3 _ _].
    assert (Et : c_tasks c1 = c_tasks (core_of s)).
    { unfold try_remove_redirection in Hr. destruct (find_redirect _ _) as [[w2 rv2]|].
      - apply bind_ok in Hr. destruct Hr as (a1 & _ & Hr). apply bind_ok in Hr. destruct Hr as (a2 & _ & Hr). apply bind_ok in Hr. destruct Hr as (a3 & _ & Hr). inversion Hr; subst; reflexivity.
      - apply bind_ok in Hr. destruct Hr as (a1 & _ & Hr). apply bind_ok in Hr. destruct Hr as (a2 & _ & Hr). inversion Hr; subst; reflexivity. }
    match type of H2 with process_task_started ?sx _ _ _ _ = _ => set (s1 := sx) in * end.
    assert (A1 : forall y, find_task (c_tasks (core_of s1)) y = if tid_eqb y id then Some (with_state t (Running w rv)) else find_task (c_tasks (core_of s)) y).
    { intros y. cbn [s1 core_of st_core with_core s_core fst upd_worker with_workers c_tasks]. rewrite find_upd_task. cbn [with_state t_id]. rewrite Eid, Et. reflexivity. }
    assert (A2 : tsorted (core_of s1)).
    { unfold tsorted. cbn [s1 core_of st_core with_core s_core fst upd_worker with_workers upd_task with_tasks c_tasks]. apply set_task_sorted. rewrite Et. exact Hcs. }
    assert (A3 : c_rqs (core_of s1) = c_rqs (core_of s)) by exact F2.
    assert (A4 : forall r0, In r0 (c_redirects (core_of s1)) -> In r0 (c_redirects (core_of s))) by exact F3.
    refine (running_SP s w id rv b u r t s1 s2 (Running w rv) _ _ HS Hit Ef eq_refl eq_refl A1 A2 A3 A4 H2 _).
    left. split; [reflexivity | right; right; exact Est].
  - (* RunningMN *)
    destruct ws0 as [|w0 ws0]; [discriminate|]. destruct (N.eqb w0 w) eqn:E1; [|discriminate]. apply N.eqb_eq in E1. subst w0.
    inversion H1; subst s1 ws. clear H1.
    eapply (running_SP s w id rv b u r t s s2 (RunningMN (w :: ws0))); try eassumption; try reflexivity.
    + intros y. destruct (tid_eqb y id) eqn:E; [|reflexivity]. apply tid_eqb_eq in E. subst y. rewrite Ef. f_equal.
      destruct t; cbn in *; subst; reflexivity.
    + auto.
    + right. split; [symmetry; exact Est | eexists; exact Est].
Qed.

(** * [request_enabled] *)
Lemma SP_drop_none w0 u r s : SP x0 s (pum_us w0 (u :: r)) [] -> (forall y, uitem_of y u = []) -> SP x0 s (pum_us w0 r) [].
Proof.
  intros HS Hu.
  apply (SP_ext _ (mkSys (core_of s) (hq_of s) (s_procs (fst s)), snd s) s); [|reflexivity|reflexivity|reflexivity].
  apply (SP_gen (fun _ => false) x0 x0 s (pum_us w0 (u :: r)) [] (core_of s) (hq_of s) (snd s) (pum_us w0 r) [] HS (sp_cs _ _ _ _ HS) eq_refl (sp_rvr _ _ _ _ HS)).
  - intros y t' _ Hy HX. exists t'. repeat split; assumption.
  - intros w y _. split; [|reflexivity]. rewrite pum_us_items, Hu. destruct (N.eqb w w0); reflexivity.
  - auto.
  - intros y t' Hy. congruence.
  - intros w p y Hp [Hy|[]]. eapply (sp_seen _ _ _ _ HS); [exact Hp | right; left; apply pum_us_tids; exact Hy].
  - intros w p Hp. split; [exact (sp_down _ _ _ _ HS _ _ Hp) | reflexivity].
  - intros w. unfold pum_us. destruct (N.eqb w w0); [discriminate | auto].
  - intros x t' E. discriminate.
Qed.

Lemma request_enabled_SP s w rq rv r s' : SP x0 s (pum_us w (UEnable rq rv :: r)) [] -> request_enabled s w rq rv = Ok s' -> SP x0 s' (pum_us w r) [].
Proof.
  intros HS H. unfold request_enabled in H. apply bind_ok in H. destruct H as (wk & _ & H). inversion H; subst s'.
  apply (SP_CF x0 x0); [|apply CF_tasks_same; auto | auto].
  apply (SP_drop_none w (UEnable rq rv) r s HS). intros y. reflexivity.
Qed.

(** * [task_reject] *)
Lemma pum_us_proc X s w us pd : SP X s (pum_us w us) pd -> exists p, find_proc (s_procs (fst s)) w = Some p.
Proof.
  intros HS. pose proof (sp_pum _ _ _ _ HS w) as H. unfold pum_us in H. rewrite N.eqb_refl in H.
  destruct (find_proc (s_procs (fst s)) w) as [p|]; [eauto | exfalso; apply H; [discriminate | reflexivity]].
Qed.

Lemma head_item X s w u r pd id t p :
  SP X s (pum_us w (u :: r)) pd -> find_task (c_tasks (core_of s)) id = Some t -> X id = false ->
  find_proc (s_procs (fst s)) w = Some p ->
  lang (view_of (t_state t) w (job_running (hq_of s) id)) (uitem_of id u ++ uitems id (pum_us w r w ++ p_up p)) (local p id)
       (ditems id (p_down p ++ msgs_for w pd)) = true.
Proof.
  intros HS Ef HX Hp. pose proof (sp_words _ _ _ _ HS w p id t Hp Ef HX) as Hl.
  rewrite uitems_app, pum_us_items, N.eqb_refl, <- app_assoc, <- uitems_app in Hl. exact Hl.
Qed.

Lemma view_VA st w jr rv : view_of st w jr = VA rv -> st = Assigned w rv.
Proof.
  destruct st as [n|w1 rv1|w1|w1|w1 rv1|[|w1 ws]|]; cbn [view_of]; try discriminate;
    destruct (N.eqb w1 w) eqn:E; try discriminate. intros H; inversion H; subst. apply N.eqb_eq in E. subst. reflexivity.
Qed.
Lemma view_VT st w jr : view_of st w jr = VT -> st = Retracting w.
Proof.
  destruct st as [n|w1 rv1|w1|w1|w1 rv1|[|w1 ws]|]; cbn [view_of]; try discriminate;
    destruct (N.eqb w1 w) eqn:E; try discriminate. intros _. apply N.eqb_eq in E. subst. reflexivity.
Qed.

Lemma task_reject_SP s w id rv0 r s' b0 :
  SP x0 s (pum_us w (UReject id rv0 :: r)) [] -> task_reject s w id rv0 = Ok (s', b0) -> SP x0 s' (pum_us w r) [].
Proof.
  intros HS H. unfold task_reject in H. cbv zeta in H.
  destruct (find_task (c_tasks (core_of s)) id) as [t|] eqn:Ef.
  2:{ inversion H; subst. eapply (SP_drop_absent w _ r s' id); [exact HS | | exact Ef]. intros y Hy. cbn [uitem_of]. apply sel_other. congruence. }
  destruct (find_task_some _ _ _ Ef) as [_ Eid].
  destruct (pum_us_proc _ _ _ _ _ HS) as (p & Hp).
  pose proof (head_item _ _ _ _ _ _ _ _ _ HS Ef eq_refl Hp) as Hl. cbn [uitem_of] in Hl. rewrite sel_same in Hl. cbn [app] in Hl.
  destruct (LS_rej _ _ _ _ _ Hl) as (rv & Ev & -> & Hl2). apply view_VA in Ev.
  apply bind_ok in H. destruct H as (wk & _ & H). apply bind_ok in H. destruct H as (rq & _ & H). apply bind_ok in H. destruct H as ([c1 cont] & Hr & H).
  rewrite Ev in Hr, H. rewrite N.eqb_refl in Hr. cbn [negb] in Hr. rewrite N.eqb_refl in Hr.
  apply bind_ok in Hr. destruct Hr as (wk' & _ & Hr). inversion Hr; subst c1 cont. clear Hr.
  apply bind_ok in H. destruct H as ([qs ret] & _ & H). apply bind_ok in H. destruct H as (s2 & Hpr & H). inversion H; subst s' b0. clear H.
  eapply process_retracted_SP; [|exact Hpr].
  set (t' := with_state t (Waiting 0)) in *.
  match type of Hpr with process_retracted (st_core s ?cx) _ = _ => set (c2 := cx) in * end.
  assert (Hfind : forall y, find_task (c_tasks c2) y = if tid_eqb y id then Some t' else find_task (c_tasks (core_of s)) y).
  { intros y. cbn [c2 with_queues upd_worker with_workers c_tasks]. rewrite find_upd_task. cbn [t' with_state t_id]. rewrite Eid. reflexivity. }
  change (st_core s c2) with (mkSys c2 (hq_of s) (s_procs (fst s)), snd s).
  apply (SP_gen (fun y => tid_eqb y id) x0 x0 s (pum_us w (UReject id (Some rv) :: r)) [] c2 (hq_of s) (snd s) (pum_us w r) [] HS).
  - unfold tsorted. cbn [c2 with_queues upd_worker with_workers upd_task with_tasks c_tasks]. apply set_task_sorted. exact (sp_cs _ _ _ _ HS).
  - reflexivity.
  - exact (sp_rvr _ _ _ _ HS).
  - intros y ty E Hy _. rewrite Hfind, E in Hy. exists ty. repeat split; assumption.
  - intros w' y E. split; [|reflexivity]. rewrite pum_us_items. cbn [uitem_of]. apply tid_eqb_neq in E. rewrite sel_other by congruence.
    destruct (N.eqb w' w); reflexivity.
  - auto.
  - intros y ty Hy. rewrite Hfind in Hy. destruct (tid_eqb y id) eqn:E; [apply tid_eqb_eq in E; subst y|]; congruence.
  - intros w' p' y Hp' [Hy|[]]. eapply (sp_seen _ _ _ _ HS); [exact Hp' | right; left; apply pum_us_tids; exact Hy].
  - intros w' p' Hp'. split; [exact (sp_down _ _ _ _ HS _ _ Hp') | reflexivity].
  - intros w'. unfold pum_us. destruct (N.eqb w' w); [discriminate | auto].
  - intros x tx E Hx _. apply tid_eqb_eq in E. subst x. rewrite Hfind, tid_eqb_refl in Hx. inversion Hx; subst tx. clear Hx.
    split; [exact (sp_act _ _ _ _ HS _ _ Ef eq_refl)|]. split; [reflexivity|]. split; [|split].
    + pose proof (sp_jr _ _ _ _ HS _ _ Ef eq_refl) as J. unfold jr_ok in *. rewrite Ev in J. cbn [t' with_state t_state t_id]. exact J.
    + intros w1 rv1 E1. cbn in E1. discriminate.
    + intros w' p' Hp'. cbn [t' with_state t_state view_of]. rewrite msgs_for_nil.
      pose proof (sp_words _ _ _ _ HS w' p' id t Hp' Ef eq_refl) as Hw. rewrite Ev, msgs_for_nil in Hw. cbn [view_of] in Hw.
      rewrite uitems_app, pum_us_items in Hw. cbn [uitem_of] in Hw. rewrite sel_same in Hw. rewrite uitems_app.
      destruct (N.eqb w' w) eqn:Ew.
      * apply N.eqb_eq in Ew. subst w'. rewrite N.eqb_refl in Hw. cbn [app] in Hw.
        destruct (LS_rej _ _ _ _ _ Hw) as (rv1 & _ & _ & Hw2). exact Hw2.
      * rewrite (N.eqb_sym w w'), Ew in Hw. cbn [app] in Hw. exact Hw.
Qed.
