(** C01, "reported once": along ANY history of the system model every task gets at most one
    terminal event (finished / failed / canceled / aborted) in the stream of events the server
    emits, and when it got one, the job layer shows a terminal outcome for it (or its whole job has
    been forgotten, and that job id is never used again). *)
From HQ Require Import Base.Prelude Cluster.Types Cluster.Core Cluster.Reactor Cluster.Worker Cluster.Server Cluster.Sys Cluster.Monitors Cluster.ProofsJob Cluster.ProofsMore Cluster.ProofsTerminal Cluster.ProofsStep Cluster.ProofsFinal Cluster.BijBase Cluster.BijHq.
From Coq Require Import ZArith Lia.
Require Import ZifyBool ZifyN.
Local Open Scope N_scope.

Arguments N.add : simpl never.
Arguments N.sub : simpl never.

(** Task ids named by the terminal events of an output stream. *)
Definition tids_of (o : out) : list tid :=
  match o with
  | OEv (EvFinished t) => [t]
  | OEv (EvFailed t _) => [t]
  | OEv (EvCanceled ts) => ts
  | OEv (EvAborted ts) => ts
  | _ => []
  end.
Definition terminal_ids (outs : list out) : list tid := flat_map tids_of outs.
Definition tcount (outs : list out) (t : tid) : nat := count_occ tid_dec (terminal_ids outs) t.

Lemma terminal_ids_app a b : terminal_ids (a ++ b) = terminal_ids a ++ terminal_ids b.
Proof. unfold terminal_ids. apply flat_map_app. Qed.
Lemma tcount_app a b t : tcount (a ++ b) t = (tcount a t + tcount b t)%nat.
Proof. unfold tcount. rewrite terminal_ids_app. apply count_occ_app. Qed.

(** The job layer has recorded an outcome for the task, or its job is gone for good. *)
Definition dead (s : st) (t : tid) : Prop :=
  (exists v, task_state s t = Some v /\ terminal v) \/ (absent s (fst t) /\ fst t < cnt_of s).

Lemma G_dead s s' t : fresh s -> G s s' -> dead s t -> dead s' t.
Proof.
  intros F [T A C _] [(v & Hv & Ht)|[Ha Hl]].
  - destruct (T t v Hv Ht) as [H|H]; [left; eauto|]. right. split; [exact H|].
    destruct (task_state_job _ _ _ Hv) as (j & Hj).
    pose proof (F _ (find_job_in _ _ _ Hj)) as Hlt. rewrite (find_job_id _ _ _ Hj) in Hlt. unfold cnt_of in *. lia.
  - right. split; [apply A; assumption | unfold cnt_of in *; lia].
Qed.

Lemma task_state_jt s t : task_state s t = match jt s (fst t) with Some l => jt_find l (snd t) | None => None end.
Proof. unfold task_state, jt. destruct (find_job _ (fst t)); reflexivity. Qed.

Lemma active_not_dead s t : active s t -> ~ dead s t.
Proof.
  intros (l & Hl & Ha) [(v & Hv & Ht)|[Hab _]].
  - rewrite task_state_jt, Hl in Hv. destruct Ha as [Ha|Ha]; rewrite Ha in Hv; inversion Hv; subst;
      destruct Ht as [X|[X|[X|X]]]; discriminate.
  - unfold absent in Hab. unfold jt in Hl. rewrite Hab in Hl. discriminate.
Qed.

(** [TE s s']: what a piece of the server's execution does to the event stream. *)
Definition TE (s s' : st) : Prop :=
  forall t, (dead s t -> dead s' t /\ tcount (snd s') t = tcount (snd s) t) /\
            (tcount (snd s') t = tcount (snd s) t \/ (tcount (snd s') t = S (tcount (snd s) t) /\ dead s' t)).

Lemma TE_trans s1 s2 s3 : TE s1 s2 -> TE s2 s3 -> TE s1 s3.
Proof.
  intros A B t. destruct (A t) as [A1 A2], (B t) as [B1 B2]. split.
  - intros D. destruct (A1 D) as [D2 E2]. destruct (B1 D2) as [D3 E3]. split; [exact D3 | congruence].
  - destruct A2 as [A2|[A2 D2]].
    + destruct B2 as [B2|[B2 D3]]; [left; congruence | right; split; [congruence | exact D3]].
    + destruct (B1 D2) as [D3 E3]. right. split; [congruence | exact D3].
Qed.

Lemma TE_same s s' : hq_of s' = hq_of s -> terminal_ids (snd s') = terminal_ids (snd s) -> TE s s'.
Proof.
  intros Hq He t. unfold tcount. rewrite He. split; [|left; reflexivity].
  intros D. split; [|reflexivity]. unfold dead, task_state, absent, cnt_of in *. rewrite Hq. exact D.
Qed.

(** The general base case: the stream grows by the ids [N], each of them active before and with a
    terminal state afterwards, none of them twice. *)
Lemma TE_base s s' N :
  fresh s -> G s s' ->
  terminal_ids (snd s') = terminal_ids (snd s) ++ N -> NoDup N ->
  (forall t, In t N -> active s t /\ exists v, task_state s' t = Some v /\ terminal v) -> TE s s'.
Proof.
  intros F Gs He Hn HN t. unfold tcount. rewrite He, count_occ_app. split.
  - intros D. split; [eapply G_dead; eassumption|].
    destruct (in_dec tid_dec t N) as [Hin|Hni]; [exfalso; exact (active_not_dead _ _ (proj1 (HN _ Hin)) D)|].
    rewrite (proj1 (count_occ_not_In tid_dec N t) Hni). lia.
  - destruct (in_dec tid_dec t N) as [Hin|Hni].
    + right. split; [|left; exact (proj2 (HN _ Hin))].
      rewrite (proj1 (NoDup_count_occ' tid_dec N) Hn t Hin). lia.
    + left. rewrite (proj1 (count_occ_not_In tid_dec N t) Hni). lia.
Qed.

(** * Job-layer primitives *)
Lemma tids_emit s o : terminal_ids (snd (emit s o)) = terminal_ids (snd s) ++ tids_of o.
Proof. unfold emit. cbn [snd]. rewrite terminal_ids_app. unfold terminal_ids at 2. cbn. rewrite app_nil_r. reflexivity. Qed.

Lemma check_termination_tids s jid s' : check_termination s jid = Ok s' -> terminal_ids (snd s') = terminal_ids (snd s).
Proof.
  unfold check_termination. intros H. apply bind_ok in H. destruct H as (j & _ & H). apply bind_ok in H. destruct H as (na & _ & H).
  destruct na; [|inversion H; reflexivity]. destruct (j_open j); inversion H; subst; [reflexivity|].
  rewrite tids_emit. cbn. rewrite app_nil_r. reflexivity.
Qed.

Lemma G_check_termination s jid s' : check_termination s jid = Ok s' -> G s s'.
Proof.
  intros H. apply G_of; [|eapply check_termination_cnt; exact H].
  intros t. destruct (check_termination_tpres _ _ _ t H) as [T K]. split; [exact T | exact K].
Qed.

Lemma TE_check_termination s jid s' : fresh s -> check_termination s jid = Ok s' -> TE s s'.
Proof.
  intros F H. eapply (TE_base s s' []); [exact F | eapply G_check_termination; exact H | | constructor | intros t []].
  rewrite app_nil_r. eapply check_termination_tids; exact H.
Qed.

Lemma TE_started s t i ws rv s' : fresh s -> process_task_started s t i ws rv = Ok s' -> TE s s'.
Proof.
  intros F H. eapply (TE_base s s' []); [exact F | eapply G_started; exact H | | constructor | intros x []].
  rewrite app_nil_r. unfold process_task_started in H. apply bind_ok in H. destruct H as (j & _ & H).
  destruct (jt_find _ _); [|discriminate]. inversion H; subst. rewrite tids_emit. cbn. rewrite app_nil_r. reflexivity.
Qed.

(** One task gets a terminal state through [hq_set_job] + emit. *)
Lemma task_state_set_one s s' t l v' :
  jt s (fst t) = Some l ->
  (forall id, jt s' id = if N.eqb id (fst t) then Some (jt_set l (snd t) v') else jt s id) ->
  task_state s' t = Some v'.
Proof. intros Hl E. rewrite task_state_jt, E, N.eqb_refl, jt_find_set, N.eqb_refl. reflexivity. Qed.

Lemma TE_finished s t s' : fresh s -> process_task_finished s t = Ok s' -> TE s s'.
Proof.
  intros F H. pose proof (G_finished _ _ _ H) as Gs.
  unfold process_task_finished in H. apply bind_ok in H. destruct H as (j & Hj & H).
  destruct (jt_get _ _ _ _ Hj) as [Ej Eid].
  destruct (jt_find (j_tasks j) (snd t)) as [v|] eqn:Ef; [|discriminate]. destruct v; try discriminate.
  apply bind_ok in H. destruct H as (nr & _ & H).
  destruct (check_termination_jt _ _ _ H) as [_ J1].
  eapply (TE_base s s' [t]); [exact F | exact Gs | | constructor; [intros [] | constructor] | ].
  - rewrite (check_termination_tids _ _ _ H), tids_emit. reflexivity.
  - intros x [<-|[]]. split; [exists (j_tasks j); split; [exact Ej | right; exact Ef]|].
    exists JF. split; [|left; reflexivity].
    eapply (task_state_set_one s s' t _ JF Ej). intros id. rewrite J1, jt_emit, jt_set_job. cbn [j_id job_upd j_tasks]. rewrite Eid. reflexivity.
Qed.

(** * Marking a list of tasks *)
Lemma mark_tasks_nodup target site ids : ~ jactive (Some target) -> forall j j',
  mark_tasks j ids target site = Ok j' ->
  NoDup ids /\ forall t, In t ids -> fst t = j_id j /\ jactive (jt_find (j_tasks j) (snd t)).
Proof.
  intros Hna. induction ids as [|t r IH]; cbn [mark_tasks]; intros j j' H.
  - split; [constructor | intros t []].
  - destruct (negb (N.eqb (fst t) (j_id j))) eqn:Ej; [discriminate|].
    apply negb_false_iff in Ej. apply N.eqb_eq in Ej.
    destruct (jt_find (j_tasks j) (snd t)) as [v|] eqn:Ef; [|discriminate].
    assert (Hstep : forall j1, j_id j1 = j_id j -> j_tasks j1 = jt_set (j_tasks j) (snd t) target -> jactive (Some v) ->
              mark_tasks j1 r target site = Ok j' ->
              NoDup (t :: r) /\ forall x, In x (t :: r) -> fst x = j_id j /\ jactive (jt_find (j_tasks j) (snd x))).
    { intros j1 Hid Ht Hv H1. destruct (IH _ _ H1) as [In1 Ia1].
      assert (Hnot : ~ In t r).
      { intros Hin. destruct (Ia1 _ Hin) as [_ Ha]. rewrite Ht, jt_find_set, N.eqb_refl in Ha. exact (Hna Ha). }
      split; [constructor; assumption|].
      intros x [<-|Hx]; [split; [exact Ej | rewrite Ef; exact Hv]|].
      destruct (Ia1 _ Hx) as [Hf Ha]. split; [congruence|].
      rewrite Ht, jt_find_set in Ha. destruct (N.eqb (snd x) (snd t)) eqn:E; [exfalso; exact (Hna Ha) | exact Ha]. }
    destruct v; try discriminate.
    + eapply Hstep; [| | left; reflexivity | exact H]; reflexivity.
    + apply bind_ok in H. destruct H as (nr & _ & H). eapply Hstep; [| | right; reflexivity | exact H]; reflexivity.
Qed.

Lemma G_abort s jid ids s' : abort_tasks s jid ids = Ok s' -> G s s'.
Proof. intros H. apply G_of; [intros x; eapply abort_tasks_tpres; exact H | eapply abort_tasks_cnt; exact H]. Qed.

(** The common shape of [abort_tasks] and [set_cancel_state]: TE with N = ids. *)
Lemma TE_mark s jid j j1 j2 ids target site s2 :
  fresh s -> G s s2 -> ~ jactive (Some target) -> terminal target ->
  hq_get_job s jid 207 = Ok j -> mark_tasks j ids target site = Ok j1 ->
  j_id j2 = j_id j1 -> j_tasks j2 = j_tasks j1 ->
  (forall id, jt s2 id = jt (hq_set_job s j2) id) ->
  terminal_ids (snd s2) = terminal_ids (snd s) ++ ids -> TE s s2.
Proof.
  intros F Gs Hna Hterm Hj Hm Hid Ht E He.
  destruct (jt_get _ _ _ _ Hj) as [Ej Eid].
  destruct (mark_tasks_nodup _ _ _ Hna _ _ Hm) as [Hn Ha].
  destruct (mark_tasks_find _ _ _ _ _ Hm) as (M1 & M2 & M3).
  eapply (TE_base s s2 ids); [exact F | exact Gs | exact He | exact Hn|].
  intros t Hin. destruct (Ha _ Hin) as [Hf Hact]. rewrite Eid in Hf. split.
  - exists (j_tasks j). rewrite Hf. split; [exact Ej | exact Hact].
  - exists target. split; [|exact Hterm].
    rewrite task_state_jt, E, jt_set_job, Hid, M1, Eid, Hf, N.eqb_refl, Ht, M3.
    rewrite Eid in M2. pose proof (snd_mem_in (snd t) ids jid M2) as Hmem.
    assert (Hx : t = (jid, snd t)) by (destruct t; cbn in *; subst; reflexivity).
    replace (snd_mem (snd t) ids) with true; [reflexivity|]. symmetry. apply Hmem. rewrite <- Hx. exact Hin.
Qed.

Lemma TE_abort s jid ids s' : fresh s -> abort_tasks s jid ids = Ok s' -> TE s s'.
Proof.
  intros F H. pose proof (G_abort _ _ _ _ H) as Gs. unfold abort_tasks in H.
  destruct ids as [|i0 ir] eqn:Eids; [inversion H; subst; apply TE_same; reflexivity|]. rewrite <- Eids in *.
  apply bind_ok in H. destruct H as (j & Hj & H). apply bind_ok in H. destruct H as (j1 & Hm & H).
  destruct (check_termination_jt _ _ _ H) as [_ J1].
  match type of H with check_termination (emit (hq_set_job s ?j2) _) _ = _ =>
    eapply (TE_mark s jid j j1 j2 ids JA 206 s' F Gs not_active_A) end;
    [right; right; right; reflexivity | exact Hj | exact Hm | reflexivity | reflexivity | intros id; rewrite J1, jt_emit; reflexivity|].
  rewrite (check_termination_tids _ _ _ H), tids_emit. reflexivity.
Qed.

Lemma TE_set_cancel s jid ids s' : fresh s -> set_cancel_state s jid ids = Ok s' -> TE s s'.
Proof.
  intros F H. pose proof (G_set_cancel _ _ _ _ H) as Gs. unfold set_cancel_state in H.
  destruct ids as [|i0 ir] eqn:Eids; [inversion H; subst; apply TE_same; reflexivity|]. rewrite <- Eids in *.
  apply bind_ok in H. destruct H as (j & Hj & H). apply bind_ok in H. destruct H as (j1 & Hm & H).
  destruct (check_termination_jt _ _ _ H) as [_ J1].
  match type of H with check_termination (emit (emit (hq_set_job s ?j2) _) _) _ = _ =>
    eapply (TE_mark s jid j j1 j2 ids JC 205 s' F Gs not_active_C) end;
    [right; right; left; reflexivity | exact Hj | exact Hm | reflexivity | reflexivity | intros id; rewrite J1, !jt_emit; reflexivity|].
  rewrite (check_termination_tids _ _ _ H), !tids_emit. cbn. rewrite app_nil_r. reflexivity.
Qed.

Lemma TE_worker_lost s w running reason s' : fresh s -> process_worker_lost s w running reason = Ok s' -> TE s s'.
Proof.
  intros F H. pose proof (G_worker_lost _ _ _ _ _ H) as Gs.
  eapply (TE_base s s' []); [exact F | exact Gs | | constructor | intros t []].
  rewrite app_nil_r. unfold process_worker_lost in H. apply bind_ok in H. destruct H as (s1 & H1 & H). inversion H; subst.
  rewrite tids_emit. cbn. rewrite app_nil_r.
  clear -H1. revert s s1 H1. induction running as [|t r IH]; cbn [set_waiting_all]; intros s s1 H; [inversion H; reflexivity|].
  apply bind_ok in H. destruct H as (s0 & H0 & H). rewrite (IH _ _ H).
  unfold set_waiting_state in H0. apply bind_ok in H0. destruct H0 as (j & _ & H0).
  destruct (jt_find _ _) as [[]|]; try discriminate; try (inversion H0; reflexivity).
  apply bind_ok in H0. destruct H0 as (nr & _ & H0). inversion H0; reflexivity.
Qed.

(** * process_task_failed *)
Lemma TE_process_task_failed s t aborted k s' ids : fresh s -> process_task_failed s t aborted k = Ok (s', ids) -> TE s s'.
Proof.
  intros F Hc. unfold process_task_failed in Hc.
  apply bind_ok in Hc. destruct Hc as (s1 & H1 & Hc).
  pose proof (TE_abort _ _ _ _ F H1) as T1. pose proof (g_fresh _ _ (G_abort _ _ _ _ H1) F) as F1.
  apply bind_ok in Hc. destruct Hc as (j & Hj & Hc).
  apply bind_ok in Hc. destruct Hc as (j1 & Hj1 & Hc).
  apply bind_ok in Hc. destruct Hc as (s2 & H2 & Hc).
  destruct (jt_get _ _ _ _ Hj) as [Ej Eid]. pose proof (hq_get_find _ _ _ _ Hj) as Hf.
  (* the failed task itself *)
  set (sB := emit (hq_set_job s1 j1) (OEv (EvFailed t k))) in *.
  assert (TB : TE s1 sB /\ fresh sB).
  { destruct (jt_find (j_tasks j) (snd t)) as [v|] eqn:Ef; [|discriminate].
    assert (Hj1' : j_id j1 = j_id j /\ j_tasks j1 = jt_set (j_tasks j) (snd t) JX /\ jactive (Some v) /\ jpres j j1).
    { destruct v; try discriminate.
      - inversion Hj1; subst. split; [reflexivity|]. split; [reflexivity|]. split; [left; reflexivity|].
        apply (jpres_set_nonterminal j (snd t) JW JX Ef not_terminal_W).
      - apply bind_ok in Hj1. destruct Hj1 as (nr & _ & Hj1). inversion Hj1; subst.
        split; [reflexivity|]. split; [reflexivity|]. split; [right; reflexivity|].
        apply (jpres_set_nonterminal j (snd t) JR JX Ef not_terminal_R). }
    destruct Hj1' as (I1 & T1' & Hv & Pj).
    assert (GB : G s1 sB).
    { apply G_of; [|reflexivity]. intros x. split.
      - apply tpres_emit. eapply tpres_set_job; [exact Hf | exact Pj].
      - intros id Hn. subst sB. rewrite emit_hq. eapply set_job_keeps_absent; [exact Hf | exact I1 | exact Hn]. }
    split; [|exact (g_fresh _ _ GB F1)].
    eapply (TE_base s1 sB [t]); [exact F1 | exact GB | subst sB; rewrite tids_emit; reflexivity | constructor; [intros [] | constructor] |].
    intros x [<-|[]]. split; [exists (j_tasks j); split; [exact Ej | rewrite Ef; exact Hv]|].
    exists JX. split; [|right; left; reflexivity].
    eapply (task_state_set_one s1 sB t _ JX Ej). intros id. subst sB. rewrite jt_emit, jt_set_job, I1, Eid, T1'. reflexivity. }
  destruct TB as [TB FB].
  pose proof (TE_check_termination _ _ _ FB H2) as T2. pose proof (g_fresh _ _ (G_check_termination _ _ _ H2) FB) as F2.
  pose proof (TE_trans _ _ _ T1 (TE_trans _ _ _ TB T2)) as T12.
  apply bind_ok in Hc. destruct Hc as (j2 & _ & Hc).
  destruct (j_maxfails j2) as [mf|]; [|inversion Hc; subst; exact T12].
  destruct (N.ltb mf (j_nfail j2)); [|inversion Hc; subst; exact T12].
  apply bind_ok in Hc. destruct Hc as (s3 & H3 & Hc). inversion Hc; subst.
  eapply TE_trans; [exact T12 | eapply TE_abort; [exact F2 | exact H3]].
Qed.

(** * Core-only functions leave the event stream alone *)
Lemma send_worker_snd s w m s' : send_worker s w m = Ok s' -> snd s' = snd s.
Proof. unfold send_worker. destruct (find_proc _ w); [|discriminate]. intros H; inversion H; reflexivity. Qed.
Lemma send_all_snd msgs : forall s s', send_all s msgs = Ok s' -> snd s' = snd s.
Proof.
  induction msgs as [|[w m] r IH]; cbn [send_all]; intros s s' H; [inversion H; reflexivity|].
  apply bind_ok in H. destruct H as (s1 & H1 & H). rewrite (IH _ _ H). eapply send_worker_snd; exact H1.
Qed.
Lemma process_retracted_snd s r s' : process_retracted s r = Ok s' -> snd s' = snd s.
Proof.
  unfold process_retracted. destruct r; [intros H; inversion H; reflexivity|].
  intros H. apply bind_ok in H. destruct H as ([c' groups] & _ & H). apply send_all_snd in H. exact H.
Qed.
Lemma cancel_release_snd ids : forall s tu ru s' tu' ru', cancel_release s ids tu ru = Ok (s', tu', ru') -> snd s' = snd s.
Proof.
  induction ids as [|id r IH]; cbn [cancel_release]; intros s tu ru s' tu' ru' H; [inversion H; reflexivity|].
  destruct (find_task _ id) as [t|]; [|eapply IH; exact H].
  apply bind_ok in H. destruct H as (csm & _ & H). apply bind_ok in H. destruct H as (rq & _ & H).
  destruct (t_state t); try discriminate.
  - rewrite (IH _ _ _ _ _ _ H). reflexivity.
  - inv_binds H. rewrite (IH _ _ _ _ _ _ H). reflexivity.
  - inv_binds H. rewrite (IH _ _ _ _ _ _ H). reflexivity.
  - apply bind_ok in H. destruct H as (c' & _ & H). rewrite (IH _ _ _ _ _ _ H). reflexivity.
  - inv_binds H. rewrite (IH _ _ _ _ _ _ H). reflexivity.
  - apply bind_ok in H. destruct H as (c' & _ & H). destruct ws; [discriminate|]. rewrite (IH _ _ _ _ _ _ H). reflexivity.
Qed.
Lemma on_cancel_tasks_snd s ids s' : on_cancel_tasks s ids = Ok s' -> snd s' = snd s.
Proof.
  unfold on_cancel_tasks. intros H. apply bind_ok in H. destruct H as ([[s1 tu] ru] & H1 & H).
  apply bind_ok in H. destruct H as (c' & _ & H). rewrite (send_all_snd _ _ _ H). cbn. eapply cancel_release_snd; exact H1.
Qed.
Lemma on_new_tasks_snd s ts s' : on_new_tasks s ts = Ok s' -> snd s' = snd s.
Proof.
  unfold on_new_tasks. destruct ts; [intros H; inversion H; reflexivity|].
  intros H. apply bind_ok in H. destruct H as ([c' r] & _ & H). apply bind_ok in H. destruct H as (s1 & H1 & H). inversion H; subst.
  cbn. rewrite (process_retracted_snd _ _ _ H1). reflexivity.
Qed.

Lemma TE_core s s' : hq_of s' = hq_of s -> snd s' = snd s -> TE s s'.
Proof. intros Hq Hs. apply TE_same; [exact Hq | rewrite Hs; reflexivity]. Qed.

(** * Reactor *)
Lemma TE_task_failed s w id k s' : fresh s -> task_failed s w id k = Ok s' -> TE s s'.
Proof.
  intros F Hc. unfold task_failed in Hc.
  destruct (find_task _ id) as [t|]; [|inversion Hc; subst; apply TE_same; reflexivity].
  inv_binds Hc.
  match goal with X : process_task_failed ?s0 _ _ _ = Ok (?s1, ?ids) |- _ =>
    assert (T1 : TE s0 s1) by (eapply TE_process_task_failed; [exact F | exact X]);
    assert (F1 : fresh s1) by (apply (g_fresh _ _ (G_failed _ _ _ _ _ _ X)); exact F);
    destruct ids; [inversion Hc; subst; exact T1|] end.
  eapply TE_trans; [exact T1|]. apply TE_core; [eapply on_cancel_tasks_hq; exact Hc | eapply on_cancel_tasks_snd; exact Hc].
Qed.

Lemma TE_task_finished s w id s' b : fresh s -> task_finished s w id = Ok (s', b) -> TE s s'.
Proof.
  intros F Hc. unfold task_finished in Hc.
  destruct (find_task _ id) as [t|]; [|inversion Hc; subst; apply TE_same; reflexivity].
  inv_binds Hc.
  match goal with X : process_task_finished ?s0 _ = Ok ?s1 |- _ =>
    assert (T1 : TE s0 s1) by (eapply TE_finished; [exact F | exact X]) end.
  match goal with X : process_retracted _ _ = Ok _ |- _ =>
    pose proof (process_retracted_hq _ _ _ X) as Q2; pose proof (process_retracted_snd _ _ _ X) as S2 end.
  match type of Hc with match ?st with _ => _ end = _ => destruct st; try discriminate end.
  inversion Hc; subst. eapply TE_trans; [exact T1|]. apply TE_core; [exact Q2 | exact S2].
Qed.

Lemma TE_task_running s w id rv s' b : fresh s -> task_running s w id rv = Ok (s', b) -> TE s s'.
Proof.
  intros F Hc. unfold task_running in Hc.
  destruct (find_task _ id) as [t|]; [|inversion Hc; subst; apply TE_same; reflexivity].
  inv_binds Hc. inversion Hc; subst.
  match goal with X : process_task_started ?s1 _ _ _ _ = Ok _ |- _ =>
    eapply (TE_trans _ s1); [|eapply TE_started; [|exact X]] end.
  - match goal with X : match t_state t with _ => _ end = Ok _ |- _ => rename X into Hm end.
    destruct (t_state t); try discriminate.
    + destruct (negb (N.eqb w0 w)); [discriminate|]. destruct (negb (N.eqb rv0 rv)); [discriminate|]. inversion Hm; subst. apply TE_same; reflexivity.
    + destruct (negb (N.eqb w0 w)); [discriminate|]. inv_binds Hm. inversion Hm; subst. apply TE_same; reflexivity.
    + destruct (negb (N.eqb w0 w)); [discriminate|]. inv_binds Hm. inversion Hm; subst. apply TE_same; reflexivity.
    + destruct ws; [discriminate|]. destruct (N.eqb w0 w); [|discriminate]. inversion Hm; subst. apply TE_same; reflexivity.
  - match goal with X : match t_state t with _ => _ end = Ok _ |- _ => rename X into Hm end.
    destruct (t_state t); try discriminate.
    + destruct (negb (N.eqb w0 w)); [discriminate|]. destruct (negb (N.eqb rv0 rv)); [discriminate|]. inversion Hm; subst. exact F.
    + destruct (negb (N.eqb w0 w)); [discriminate|]. inv_binds Hm. inversion Hm; subst. exact F.
    + destruct (negb (N.eqb w0 w)); [discriminate|]. inv_binds Hm. inversion Hm; subst. exact F.
    + destruct ws; [discriminate|]. destruct (N.eqb w0 w); [|discriminate]. inversion Hm; subst. exact F.
Qed.

Lemma requeue_snd s t c1 s' b :
  (do (qs, ret) <- add_ready_task (c_queues c1) (with_state t (Waiting 0));
   do s'' <- process_retracted (st_core s (with_queues (upd_task c1 (with_state t (Waiting 0))) qs)) ret;
   Ok (s'', true)) = Ok (s', b) -> snd s' = snd s.
Proof.
  intros Hx. inv_binds Hx. inversion Hx; subst.
  match goal with X : process_retracted _ _ = Ok _ |- _ => rewrite (process_retracted_snd _ _ _ X) end. reflexivity.
Qed.

Lemma task_reject_snd s w id rv s' b : task_reject s w id rv = Ok (s', b) -> snd s' = snd s.
Proof.
  intros Hc. unfold task_reject in Hc.
  destruct (find_task _ id) as [t|]; [|inversion Hc; subst; reflexivity].
  inv_binds Hc.
  destruct (t_state t) eqn:Est; try (eapply requeue_snd; exact Hc).
  match type of Hc with (match ?cont with true => _ | false => _ end) = _ => destruct cont end.
  - match type of Hc with (match ?x with Some _ => _ | None => _ end) = _ => destruct x as [[target rvt]|] end.
    + inv_binds Hc. inversion Hc; subst.
      match goal with X : send_worker _ _ _ = Ok _ |- _ => rewrite (send_worker_snd _ _ _ _ X) end. reflexivity.
    + eapply requeue_snd; exact Hc.
  - inversion Hc; subst. reflexivity.
Qed.

Lemma TE_apply_updates us : forall s w need s' need',
  fresh s -> apply_updates s w us need = Ok (s', need') -> TE s s' /\ fresh s'.
Proof.
  induction us as [|u r IH]; cbn [apply_updates]; intros s w need s' need' F H; [inversion H; subst; split; [apply TE_same; reflexivity | exact F]|].
  apply bind_ok in H. destruct H as ([s1 n1] & Hu & H).
  assert (S1 : TE s s1 /\ fresh s1).
  { destruct u.
    - split; [eapply TE_task_finished; eassumption | exact (g_fresh _ _ (G_task_finished _ _ _ _ _ F Hu) F)].
    - apply bind_ok in Hu. destruct Hu as (sx & Hf & Hu). inversion Hu; subst.
      split; [eapply TE_task_failed; eassumption | exact (g_fresh _ _ (G_task_failed _ _ _ _ _ F Hf) F)].
    - split; [eapply TE_task_running; eassumption | exact (g_fresh _ _ (G_task_running _ _ _ _ _ _ F Hu) F)].
    - split; [eapply TE_task_running; eassumption | exact (g_fresh _ _ (G_task_running _ _ _ _ _ _ F Hu) F)].
    - pose proof (task_reject_same _ _ _ _ _ _ Hu) as Hq.
      split; [apply TE_core; [exact Hq | eapply task_reject_snd; exact Hu] | eapply fresh_same; [exact Hq | exact F]].
    - apply bind_ok in Hu. destruct Hu as (sx & Hf & Hu). inversion Hu; subst.
      pose proof (request_enabled_same _ _ _ _ _ Hf) as Hq.
      split; [|eapply fresh_same; [exact Hq | exact F]].
      apply TE_core; [exact Hq|]. unfold request_enabled in Hf. inv_binds Hf. inversion Hf; reflexivity. }
  destruct S1 as [T1 F1]. destruct (IH _ _ _ _ _ F1 H) as [T2 F2]. split; [eapply TE_trans; eassumption | exact F2].
Qed.

Lemma TE_on_task_update s w us s' : fresh s -> on_task_update s w us = Ok s' -> TE s s'.
Proof.
  intros F H. unfold on_task_update in H. apply bind_ok in H. destruct H as ([s1 need] & Hu & H).
  destruct (TE_apply_updates _ _ _ _ _ _ F Hu) as [T1 _].
  destruct (need && _); inversion H; subst; [|exact T1].
  eapply TE_trans; [exact T1 | apply TE_same; reflexivity].
Qed.

Lemma TE_lost_fail_running l : forall s reason s', fresh s -> lost_fail_running s reason l = Ok s' -> TE s s'.
Proof.
  induction l as [|id r IH]; cbn [lost_fail_running]; intros s reason s' F H; [inversion H; subst; apply TE_same; reflexivity|].
  destruct (find_task _ id) as [t|]; [|eapply IH; eassumption].
  assert (Hfail : forall s0 k, fresh s0 -> hq_of s0 = hq_of s -> snd s0 = snd s ->
            (do s1 <- task_failed s0 None id k; lost_fail_running s1 reason r) = Ok s' -> TE s s').
  { intros s0 k F0 Q0 S0 Hx. apply bind_ok in Hx. destruct Hx as (s1 & Hf & Hx).
    eapply TE_trans; [apply TE_core; [exact Q0 | exact S0]|].
    eapply TE_trans; [eapply TE_task_failed; [exact F0 | exact Hf]|].
    eapply IH; [exact (g_fresh _ _ (G_task_failed _ _ _ _ _ F0 Hf) F0) | exact Hx]. }
  destruct (t_climit t).
  - eapply (Hfail s); [exact F | reflexivity | reflexivity | exact H].
  - destruct (reason_is_failure reason); [|eapply IH; eassumption].
    destruct (increment_crash_counter t) as [t' limit]. destruct limit.
    + eapply (Hfail (st_core s (upd_task (core_of s) t'))); [exact F | reflexivity | reflexivity | exact H].
    + eapply TE_trans; [|eapply IH; [|exact H]]; [apply TE_same; reflexivity | exact F].
  - destruct (reason_is_failure reason); [|eapply IH; eassumption].
    destruct (increment_crash_counter t) as [t' limit]. destruct limit.
    + eapply (Hfail (st_core s (upd_task (core_of s) t'))); [exact F | reflexivity | reflexivity | exact H].
    + eapply TE_trans; [|eapply IH; [|exact H]]; [apply TE_same; reflexivity | exact F].
Qed.

(** * Server *)
Lemma lost_retracting_snd l : forall s w s', lost_retracting s w l = Ok s' -> snd s' = snd s.
Proof.
  induction l as [|id r IH]; cbn [lost_retracting]; intros s w s' H; [inversion H; reflexivity|].
  apply bind_ok in H. destruct H as (t & _ & H).
  destruct (t_state t); try (eapply IH; exact H).
  destruct (N.eqb w w0); [|eapply IH; exact H].
  destruct (find_redirect _ id) as [[target rv]|].
  - apply bind_ok in H. destruct H as (s1 & H1 & H). rewrite (IH _ _ _ H). rewrite (send_worker_snd _ _ _ _ H1). reflexivity.
  - rewrite (IH _ _ _ H). reflexivity.
Qed.

Lemma TE_on_remove_worker s w reason a p t s' : fresh s -> on_remove_worker s w reason a p t = Ok s' -> TE s s'.
Proof.
  intros F Hc. unfold on_remove_worker in Hc.
  destruct (find_worker _ w) as [wk|]; [|discriminate].
  apply bind_ok in Hc. destruct Hc as ([[c2 running] retracted] & _ & Hc).
  destruct (negb (perm_of_set t _)); [discriminate|].
  apply bind_ok in Hc. destruct Hc as (s3 & H3 & Hc). apply bind_ok in Hc. destruct Hc as (s4 & H4 & Hc).
  apply bind_ok in Hc. destruct Hc as (s6 & H6 & Hc). apply bind_ok in Hc. destruct Hc as (s7 & H7 & Hc). inversion Hc; subst.
  pose proof (lost_retracting_same _ _ _ _ H3) as Q3. unfold hq_same in Q3. pose proof (lost_retracting_snd _ _ _ _ H3) as S3.
  pose proof (process_retracted_hq _ _ _ H4) as Q4. pose proof (process_retracted_snd _ _ _ H4) as S4.
  set (s5 := broadcast s4 (DLostWorker w)) in *.
  assert (T5 : TE s s5).
  { apply TE_core; [change (hq_of s4 = hq_of s); rewrite Q4, Q3; reflexivity | change (snd s4 = snd s); rewrite S4, S3; reflexivity]. }
  assert (F5 : fresh s5) by (eapply fresh_same; [|exact F]; change (hq_of s4 = hq_of s); rewrite Q4, Q3; reflexivity).
  pose proof (TE_worker_lost _ _ _ _ _ F5 H6) as T6. pose proof (g_fresh _ _ (G_worker_lost _ _ _ _ _ H6) F5) as F6.
  pose proof (TE_lost_fail_running _ _ _ _ F6 H7) as T7.
  eapply TE_trans; [exact T5|]. eapply TE_trans; [exact T6|]. eapply TE_trans; [exact T7|]. apply TE_same; reflexivity.
Qed.

Lemma send_redirected_snd gs : forall s s', send_redirected s gs = Ok s' -> snd s' = snd s.
Proof.
  induction gs as [|[target ts] r IH]; cbn [send_redirected]; intros s s' H; [inversion H; reflexivity|].
  apply bind_ok in H. destruct H as (cts & _ & H). apply bind_ok in H. destruct H as (s1 & H1 & H).
  rewrite (IH _ _ H). eapply send_worker_snd; exact H1.
Qed.
Lemma send_mapping_snd m : forall s s', send_mapping s m = Ok s' -> snd s' = snd s.
Proof.
  induction m as [|u r IH]; cbn [send_mapping]; intros s s' H; [inversion H; reflexivity|].
  apply bind_ok in H. destruct H as (s1 & H1 & H).
  apply bind_ok in H. destruct H as (cts1 & _ & H).
  apply bind_ok in H. destruct H as (cts2 & _ & H).
  apply bind_ok in H. destruct H as (s2 & H2 & H).
  rewrite (IH _ _ H).
  assert (E2 : snd s2 = snd s1) by (destruct (cts1 ++ cts2); [inversion H2; reflexivity | eapply send_worker_snd; exact H2]).
  assert (E1 : snd s1 = snd s) by (destruct (wu_retracts u); [inversion H1; reflexivity | eapply send_worker_snd; exact H1]).
  congruence.
Qed.
Lemma send_mn_snd l : forall s s', send_mn s l = Ok s' -> snd s' = snd s.
Proof.
  induction l as [|id r IH]; cbn [send_mn]; intros s s' H; [inversion H; reflexivity|].
  apply bind_ok in H. destruct H as (t & _ & H).
  destruct (t_state t); try discriminate. destruct ws; [discriminate|].
  apply bind_ok in H. destruct H as (s1 & H1 & H).
  rewrite (IH _ _ H). eapply send_worker_snd; exact H1.
Qed.
Lemma run_scheduling_snd s sol s' : run_scheduling s sol = Ok s' -> snd s' = snd s.
Proof.
  unfold run_scheduling. destruct (negb (perm_of_set _ _)); [discriminate|].
  intros H. inv_binds H. inversion H; subst.
  match goal with X : send_mapping _ _ = Ok _ |- _ => apply send_mapping_snd in X; rename X into R1 end.
  match goal with X : send_mn _ _ = Ok _ |- _ => apply send_mn_snd in X; rename X into R2 end.
  cbn in *. congruence.
Qed.

(** * Client requests: none of them emits a terminal event except cancel *)
Lemma TE_nil s s' : fresh s -> G s s' -> terminal_ids (snd s') = terminal_ids (snd s) -> TE s s'.
Proof. intros F Gs He. eapply (TE_base s s' []); [exact F | exact Gs | rewrite app_nil_r; exact He | constructor | intros t []]. Qed.

Lemma submit_ok_resp_tids s jid s' : submit_ok_resp s jid = Ok s' -> terminal_ids (snd s') = terminal_ids (snd s).
Proof. unfold submit_ok_resp. intros H. inv_binds H. inversion H; subst. rewrite tids_emit. cbn. rewrite app_nil_r. reflexivity. Qed.

Lemma get_or_create_rq_snd s r : snd (fst (get_or_create_rq s r)) = snd s.
Proof. unfold get_or_create_rq. destruct (rq_index _ r 0); reflexivity. Qed.

Lemma handle_submit_array_tids s jobsel ids entries rq prio cl tlim mf s' :
  handle_submit_array s jobsel ids entries rq prio cl tlim mf = Ok s' -> terminal_ids (snd s') = terminal_ids (snd s).
Proof.
  intros H. unfold handle_submit_array in H.
  match type of H with (match ?x with Some _ => _ | None => _ end) = _ => destruct x end;
    [inversion H; subst; rewrite tids_emit; cbn; rewrite app_nil_r; reflexivity|].
  apply bind_ok in H. destruct H as ([acc s1] & Hr & H).
  assert (E1 : terminal_ids (snd s1) = terminal_ids (snd s)).
  { destruct jobsel as [jid|]; [|inversion Hr; reflexivity].
    destruct (find_job (hq_jobs s) jid) as [j|]; [|inversion Hr; subst; reflexivity].
    destruct (negb (j_open j)); inversion Hr; subst; [rewrite tids_emit; cbn; rewrite app_nil_r|]; reflexivity. }
  destruct acc as [[[jid is_new] ids']|].
  - cbv zeta in H.
    match type of H with context [get_or_create_rq ?sx rq] => set (s3 := sx) in *; destruct (get_or_create_rq s3 rq) as [s4 rqi] eqn:Erq end.
    pose proof (get_or_create_rq_snd s3 rq) as S4. rewrite Erq in S4. cbn [fst] in S4.
    assert (E3 : terminal_ids (snd s3) = terminal_ids (snd s)).
    { subst s3. assert (Hb : forall (b : bool) X Y Z, snd (if b then hq_with X Y Z else X) = snd X) by (intros [] ? ? ?; reflexivity).
      rewrite Hb, tids_emit. cbn. rewrite app_nil_r. exact E1. }
    apply bind_ok in H. destruct H as (j & _ & H). apply bind_ok in H. destruct H as (j' & _ & H).
    apply bind_ok in H. destruct H as (s6 & H6 & H).
    rewrite (submit_ok_resp_tids _ _ _ H), (on_new_tasks_snd _ _ _ H6). cbn [snd hq_set_job]. rewrite S4. exact E3.
  - destruct jobsel; [match type of H with (match ?x with Some _ => _ | None => _ end) = _ => destruct x end|];
      injection H as Hx; rewrite <- Hx; try (rewrite tids_emit; cbn; rewrite app_nil_r); exact E1.
Qed.

Lemma fold_rqs_snd rqs : forall s l s4 rqis,
  fold_left (fun acc r => let '(s, l) := acc in let '(s', i) := get_or_create_rq s r in (s', l ++ [i])) rqs (s, l) = (s4, rqis) ->
  snd s4 = snd s.
Proof.
  induction rqs as [|r rest IH]; cbn [fold_left]; intros s l s4 rqis H; [inversion H; reflexivity|].
  destruct (get_or_create_rq s r) as [s1 i] eqn:E. rewrite (IH _ _ _ _ H).
  pose proof (get_or_create_rq_snd s r) as T. rewrite E in T. exact T.
Qed.

Lemma handle_submit_graph_tids s jobsel rqs ts mf s' :
  handle_submit_graph s jobsel rqs ts mf = Ok s' -> terminal_ids (snd s') = terminal_ids (snd s).
Proof.
  intros H. unfold handle_submit_graph in H.
  apply bind_ok in H. destruct H as (v1 & _ & H).
  match type of H with (match ?x with Some _ => _ | None => _ end) = _ => destruct x end;
    [inversion H; subst; rewrite tids_emit; cbn; rewrite app_nil_r; reflexivity|].
  apply bind_ok in H. destruct H as ([acc s1] & Hr & H).
  assert (E1 : terminal_ids (snd s1) = terminal_ids (snd s)).
  { destruct jobsel as [jid|]; [|inversion Hr; reflexivity].
    destruct (find_job (hq_jobs s) jid) as [j|]; [|inversion Hr; subst; rewrite tids_emit; cbn; rewrite app_nil_r; reflexivity].
    destruct (negb (j_open j)); inversion Hr; subst; [rewrite tids_emit; cbn; rewrite app_nil_r|]; reflexivity. }
  destruct acc as [[jid is_new]|].
  - cbv zeta in H.
    match type of H with context [fold_left ?f rqs (?sx, [])] => set (s3 := sx) in *; destruct (fold_left f rqs (s3, [])) as [s4 rqis] eqn:Erq end.
    pose proof (fold_rqs_snd _ _ _ _ _ Erq) as S4.
    assert (E3 : terminal_ids (snd s3) = terminal_ids (snd s)).
    { subst s3. assert (Hb : forall (b : bool) X Y Z, snd (if b then hq_with X Y Z else X) = snd X) by (intros [] ? ? ?; reflexivity).
      rewrite Hb, tids_emit. cbn. rewrite app_nil_r. exact E1. }
    apply bind_ok in H. destruct H as (j & _ & H). apply bind_ok in H. destruct H as (j' & _ & H).
    apply bind_ok in H. destruct H as (tasks & _ & H). apply bind_ok in H. destruct H as (s6 & H6 & H).
    rewrite (submit_ok_resp_tids _ _ _ H), (on_new_tasks_snd _ _ _ H6). cbn [snd hq_set_job]. rewrite S4. exact E3.
  - inversion H; subst. exact E1.
Qed.

Lemma tids_launch ls : flat_map tids_of (map OLaunch ls) = [].
Proof. induction ls as [|l r IH]; [reflexivity | exact IH]. Qed.

(** * One step of the whole system *)
Theorem TE_step s o s' outs : fresh (s, []) -> step s o = Ok (s', outs) -> TE (s, []) (s', outs).
Proof.
  intros F H. pose proof (G_step _ _ _ _ F H) as Gs. destruct o; cbn [step] in H.
  - apply (TE_nil _ _ F Gs). unfold on_new_worker in H. inversion H; subst. reflexivity.
  - destruct (find_proc _ w); [|discriminate]. eapply TE_on_remove_worker; eassumption.
  - destruct (bad_submit_lengths _ _); [inversion H; subst; apply TE_same; reflexivity|]. apply (TE_nil _ _ F Gs). eapply handle_submit_array_tids; exact H.
  - destruct (bad_graph_rq _ _); [inversion H; subst; apply TE_same; reflexivity|]. destruct (dead_dep _ _ _); [inversion H; subst; apply TE_same; reflexivity|]. apply (TE_nil _ _ F Gs). eapply handle_submit_graph_tids; exact H.
  - apply (TE_nil _ _ F Gs). unfold handle_open in H. inversion H; subst. reflexivity.
  - apply (TE_nil _ _ F Gs). unfold handle_close in H.
    destruct (find_job _ j) as [jb|]; [|inversion H; subst; reflexivity].
    destruct (j_open jb); [|inversion H; subst; reflexivity].
    apply bind_ok in H. destruct H as (s1 & H1 & H).
    assert (Hx : (s', outs) = emit s1 (OResp (RClose 0))) by congruence. rewrite Hx.
    rewrite tids_emit. cbn. rewrite app_nil_r. rewrite (check_termination_tids _ _ _ H1). reflexivity.
  - unfold handle_cancel in H. destruct (find_job _ j) as [jb|]; [|inversion H; subst; apply TE_same; reflexivity].
    destruct (non_finished_task_ids jb) eqn:En; [inversion H; subst; apply TE_same; reflexivity|]. rewrite <- En in H.
    apply bind_ok in H. destruct H as (s1 & H1 & H). apply bind_ok in H. destruct H as (al & _ & H).
    apply bind_ok in H. destruct H as (s2 & H2 & H).
    match type of H with Ok ?x = _ => assert (Hx : (s', outs) = x) by congruence; rewrite Hx; clear Hx H end.
    pose proof (on_cancel_tasks_hq _ _ _ H1) as Q1. pose proof (on_cancel_tasks_snd _ _ _ H1) as S1.
    eapply TE_trans; [apply TE_core; [exact Q1 | exact S1]|].
    eapply TE_trans; [eapply TE_set_cancel; [eapply fresh_same; [exact Q1 | exact F] | exact H2]|].
    apply TE_same; [reflexivity|]. rewrite tids_emit. cbn. rewrite app_nil_r. reflexivity.
  - apply (TE_nil _ _ F Gs). unfold handle_forget in H. destruct (find_job _ j) as [jb|]; [|inversion H; subst; reflexivity].
    apply bind_ok in H. destruct H as (na & _ & H). destruct (negb (j_open jb) && na); inversion H; subst; reflexivity.
  - destruct (find_proc _ w) as [p|]; [|discriminate]. destruct (p_down p); [discriminate|].
    inv_binds H. inversion H; subst. apply TE_same; [reflexivity|].
    unfold terminal_ids. cbn. apply tids_launch.
  - destruct (find_proc _ w) as [p|]; [|discriminate]. destruct (p_up p) as [|m rest]; [discriminate|].
    destruct m.
    + match type of H with on_task_update ?s1 _ _ = _ =>
        eapply (TE_trans _ s1); [apply TE_same; reflexivity | eapply TE_on_task_update; [|exact H]] end.
      eapply fresh_same; [|exact F]. reflexivity.
    + match type of H with on_retract_response ?s1 _ _ = _ =>
        eapply (TE_trans _ s1); [apply TE_same; reflexivity|] end.
      apply TE_core; [eapply on_retract_response_same; exact H|].
      unfold on_retract_response in H. destruct (retract_response_states _ w ids []) as [c' groups].
      apply bind_ok in H. destruct H as (s2 & H & H2).
      assert (Es : snd (s', outs) = snd s2) by (destruct (retract_wakes _ _ _ _); inversion H2; subst; reflexivity).
      rewrite Es, (send_redirected_snd _ _ _ H). reflexivity.
  - destruct (c_flag (s_core s)); [|discriminate].
    apply TE_core; [eapply run_scheduling_same; exact H | eapply run_scheduling_snd; exact H].
  - destruct (find_proc _ w) as [p|]; [|discriminate]. inv_binds H. inversion H; subst. apply TE_same; [reflexivity|].
    unfold terminal_ids. cbn. apply tids_launch.
  - destruct (find_proc _ w) as [p|]; [|discriminate]. inversion H; subst. apply TE_same; reflexivity.
  - inversion H; subst. apply TE_same; reflexivity.
  - inv_binds H. inversion H; subst. apply TE_same; reflexivity.
Qed.

(** The invariant over the event stream: at most one terminal event per task, and a task that got
    one is [dead]. *)
Definition ONCE (s : st) : Prop := forall t, (tcount (snd s) t <= 1)%nat /\ (tcount (snd s) t = 1%nat -> dead s t).

Lemma TE_ONCE s s' : TE s s' -> ONCE s -> ONCE s'.
Proof.
  intros T O t. destruct (T t) as [T1 T2], (O t) as [O1 O2].
  destruct T2 as [E|[E D]].
  - rewrite E. split; [exact O1|]. intros H1. destruct (T1 (O2 H1)) as [D _]. exact D.
  - assert (tcount (snd s) t = 0%nat) as Z.
    { destruct (Nat.eq_dec (tcount (snd s) t) 1) as [H1|H1]; [|lia].
      destruct (T1 (O2 H1)) as [_ E']. lia. }
    rewrite E, Z. split; [lia | intros _; exact D].
Qed.

(** Shifting the stream: a step starts with an empty output list, [run] concatenates. *)
Lemma TE_shift s s' pre outs : TE (s, []) (s', outs) -> TE (s, pre) (s', pre ++ outs).
Proof.
  intros T t. destruct (T t) as [T1 T2]. cbn [snd] in *.
  assert (Z : tcount [] t = 0%nat) by reflexivity. rewrite Z in T1, T2. rewrite tcount_app.
  split.
  - intros D. destruct (T1 D) as [D' E]. split; [exact D' | lia].
  - destruct T2 as [E|[E D]]; [left; lia | right; split; [lia | exact D]].
Qed.

Theorem run_ONCE ops : forall s pre s' outs,
  fresh (s, []) -> ONCE (s, pre) -> run s ops = Ok (s', outs) -> ONCE (s', pre ++ outs).
Proof.
  induction ops as [|o r IH]; cbn [run]; intros s pre s' outs F O H; [inversion H; subst; rewrite app_nil_r; exact O|].
  apply bind_ok in H. destruct H as ([s1 o1] & H1 & H). apply bind_ok in H. destruct H as ([s2 o2] & H2 & H). inversion H; subst.
  pose proof (TE_step _ _ _ _ F H1) as T1.
  pose proof (G_step _ _ _ _ F H1) as G1.
  assert (F1 : fresh (s1, [])) by (apply (fresh_outs s1 o1); apply (g_fresh _ _ G1); exact F).
  rewrite app_assoc. eapply IH; [exact F1 | | exact H2].
  eapply TE_ONCE; [apply TE_shift; exact T1 | exact O].
Qed.

(** C01, "reported once": in the events of ANY history of the system, every task is named by at
    most one terminal event, and then the job layer records an outcome for it (or its job has been
    forgotten and its id retired). *)
Theorem terminal_event_once ops reserve maxfill s outs t :
  run (init_sys reserve maxfill) ops = Ok (s, outs) ->
  (count_occ tid_dec (terminal_ids outs) t <= 1)%nat /\
  (count_occ tid_dec (terminal_ids outs) t = 1%nat ->
     (exists v, task_state (s, []) t = Some v /\ terminal v) \/ find_job (h_jobs (s_hq s)) (fst t) = None).
Proof.
  intros H.
  assert (F0 : fresh (init_sys reserve maxfill, [])) by (intros j []).
  assert (O0 : ONCE (init_sys reserve maxfill, [])) by (intros x; split; [cbn; lia | cbn; discriminate]).
  pose proof (run_ONCE _ _ _ _ _ F0 O0 H) as O. cbn [app] in O. destruct (O t) as [O1 O2]. split; [exact O1|].
  intros E. destruct (O2 E) as [D|[D _]]; [left; exact D | right; exact D].
Qed.

(** Non-vacuity: a history in which a task finishes. *)
Definition once_rq : rqdef := mkRq 0 [10000; 0; 0].
Definition once_ops : list op :=
  [OpConnect [20000; 0; 0] 0;
   OpSubmit None [] None once_rq 0%Z (CMax 3) false None;
   OpSched (mkSol [(0, 0, [(1, 1)])] [] [1] []);
   OpDDown 1 []; OpDDown 1 []; OpDUp 1; OpEnd 1 (1, 0) EndOk; OpDUp 1].

Lemma once_example : exists s outs, run (init_sys 0 2) once_ops = Ok (s, outs)
  /\ terminal_ids outs = [(1, 0)] /\ task_state (s, []) (1, 0) = Some JF.
Proof. do 2 eexists. split; [vm_compute; reflexivity|]. split; vm_compute; reflexivity. Qed.
