(** Worker-set invariant, part 7: worker registration and loss, new tasks (server side). *)
From HQ Require Import Base.Prelude Cluster.Types Cluster.Core Cluster.Reactor Cluster.Worker Cluster.Server Cluster.Sys Cluster.ProofsJob Cluster.ProofsMore Cluster.ProofsTerminal Cluster.ProofsStep Cluster.BijBase Cluster.BijCore Cluster.BijHq Cluster.BijSt Cluster.BijReact Cluster.InvWBase Cluster.InvWView Cluster.InvWCore Cluster.InvWReact Cluster.InvWReact2 Cluster.InvWReact3.
From Coq Require Import ZArith Lia Sorting.Sorted.
Local Open Scope N_scope.

Arguments N.add : simpl never.
Arguments N.sub : simpl never.

(** * Transfer along views that agree on the assignments *)
Lemma WIv_ext_a tv wv rv tv' wv' rv' :
  (forall id, plo (tv' id) = plo (tv id)) -> (forall w, option_map w_assign (wv' w) = option_map w_assign (wv w)) ->
  (forall id, rv' id = rv id) -> WIv tv wv rv -> WIv tv' wv' rv'.
Proof.
  intros Et Ew Er [S A P M R].
  assert (Hin : forall w id, inA wv' w id = inA wv w id /\ inP wv' w id = inP wv w id /\ inM wv' w id = inM wv w id).
  { intros w id. unfold inA, inP, inM. specialize (Ew w). destruct (wv' w), (wv w); cbn in Ew; try discriminate; [|auto].
    inversion Ew as [E]. rewrite E. auto. }
  constructor.
  - intros w wk a p f E Ea. specialize (Ew w). rewrite E in Ew. destruct (wv w) as [wk0|] eqn:E0; cbn in Ew; [|discriminate].
    inversion Ew as [E1]. eapply (S w wk0); [exact E0 | rewrite <- E1; exact Ea].
  - intros w id. rewrite (proj1 (Hin w id)). unfold wantA. rewrite Et, Er. apply A.
  - intros w id. rewrite (proj1 (proj2 (Hin w id))). unfold wantP. rewrite Et. apply P.
  - intros w id. rewrite (proj2 (proj2 (Hin w id))). unfold wantM. rewrite Et. apply M.
  - intros id. rewrite Er, Et. apply R.
Qed.

Lemma WIX_views_a X c c' : WIX X c -> wsorted (c_workers c') -> rsorted (c_redirects c') -> c_wcounter c' = c_wcounter c ->
  (forall i, TV (c_tasks c') i = TV (c_tasks c) i) ->
  (forall x, option_map w_assign (find_worker (c_workers c') x) = option_map w_assign (find_worker (c_workers c) x)) ->
  (forall i, find_redirect (c_redirects c') i = find_redirect (c_redirects c) i) -> WIX X c'.
Proof.
  intros (Sw & Sr & H & Hb) Sw' Sr' Ec Et Ew Er. split; [exact Sw'|]. split; [exact Sr'|]. split.
  - eapply WIv_ext_a; [| exact Ew | exact Er | exact H]. intros i. unfold hv. rewrite Et. reflexivity.
  - intros x Hx. rewrite Ec. apply Hb. specialize (Ew x). destruct (find_worker (c_workers c) x); [discriminate|].
    destruct (find_worker (c_workers c') x); [discriminate | congruence].
Qed.

(** Members of a worker's sets. *)
Lemma WI_member_P c w wk a p f id t :
  WI c -> find_worker (c_workers c) w = Some wk -> w_assign wk = Sn a p f -> tid_mem id p = true ->
  find_task (c_tasks c) id = Some t -> pl (t_state t) = PP w.
Proof.
  intros (_ & _ & H & _) Hw Ea Hm Hf.
  pose proof (wi_P _ _ _ H w id) as X. unfold inP, wantP, hv, x0 in X. rewrite Hw, Ea, Hm, (TV_find _ _ _ Hf) in X. cbn [plo] in X.
  destruct (pl (t_state t)); try discriminate. symmetry in X. apply N.eqb_eq in X. subst. reflexivity.
Qed.

Lemma WI_member_A c w wk a p f id t :
  WI c -> find_worker (c_workers c) w = Some wk -> w_assign wk = Sn a p f -> tid_mem id a = true ->
  find_task (c_tasks c) id = Some t ->
  pl (t_state t) = PA w \/ (pl (t_state t) = PR /\ exists v, find_redirect (c_redirects c) id = Some (w, v)).
Proof.
  intros (_ & _ & H & _) Hw Ea Hm Hf.
  pose proof (wi_A _ _ _ H w id) as X. unfold inA, wantA, hv, x0 in X. rewrite Hw, Ea, Hm, (TV_find _ _ _ Hf) in X. cbn [plo] in X.
  destruct (pl (t_state t)); try discriminate.
  - symmetry in X. apply N.eqb_eq in X. subst. left. reflexivity.
  - right. split; [reflexivity|]. destruct (find_redirect (c_redirects c) id) as [[tg v]|]; [|discriminate].
    symmetry in X. apply N.eqb_eq in X. subst. eauto.
Qed.

Lemma WI_absent_member c w wk a p f id :
  WI c -> find_worker (c_workers c) w = Some wk -> w_assign wk = Sn a p f -> find_task (c_tasks c) id = None ->
  tid_mem id a = false /\ tid_mem id p = false.
Proof.
  intros (_ & _ & H & _) Hw Ea Hf.
  pose proof (wi_A _ _ _ H w id) as X. pose proof (wi_P _ _ _ H w id) as Y.
  unfold inA, wantA, inP, wantP, hv, x0, TV in X, Y. rewrite Hw, Ea, Hf in X, Y. cbn in X, Y. auto.
Qed.

(** * on_new_worker *)
Lemma on_new_worker_WI s rs g s' : WI (core_of s) -> on_new_worker s rs g = Ok s' -> WI (core_of s').
Proof.
  intros HW H. unfold on_new_worker in H. inversion H; subst s'. clear H.
  set (c := core_of s) in *. set (w := c_wcounter c + 1).
  change (WI (upd_worker (with_flag (with_wcounter c w) true) (mkSW w (Sn [] [] rs) rs [] g false))).
  assert (W1 : WI (with_flag (with_wcounter c w) true)).
  { refine (WIX_frame _ (with_wcounter c w) _ eq_refl eq_refl eq_refl eq_refl _). apply WIX_wcounter; [unfold w; lia | exact HW]. }
  eapply (C_wempty _ _ W1 w); [| cbn; lia | reflexivity | reflexivity].
  apply wfree_none. cbn [c_workers with_flag with_wcounter].
  destruct (find_worker (c_workers c) w) eqn:E; [|reflexivity]. exfalso.
  destruct HW as (_ & _ & _ & Hb). assert (w <= c_wcounter c) by (apply Hb; rewrite E; discriminate). unfold w in *. lia.
Qed.

(** * The witnesses of a hash-iteration order *)
Lemma tsorted_nodup l : tsorted l -> NoDup l.
Proof.
  unfold tsorted. induction l as [|h t IH]; intros Hs; [constructor|]. inversion Hs as [|? ? Hs' Hall]; subst.
  constructor; [|apply IH; exact Hs']. intros Hin. rewrite Forall_forall in Hall. exact (tlt_irrefl _ (Hall _ Hin)).
Qed.

Lemma perm_of_set_spec order ts : perm_of_set order ts = true -> tsorted ts ->
  NoDup order /\ forall x, In x order <-> tid_mem x ts = true.
Proof.
  unfold perm_of_set. intros Hp Hs. apply andb_true_iff in Hp. destruct Hp as [Hp H3]. apply andb_true_iff in Hp. destruct Hp as [H1 H2].
  apply N.eqb_eq in H1. apply Nat2N.inj in H1. rewrite forallb_forall in H2, H3.
  assert (I1 : incl ts order) by (intros x Hx; apply tid_mem_true_in; apply H3; exact Hx).
  split.
  - eapply NoDup_incl_NoDup; [apply tsorted_nodup; exact Hs | rewrite H1; apply le_n | exact I1].
  - intros x. split; [apply H2 | intros Hm; apply I1; apply tid_mem_true_in; exact Hm].
Qed.

(** * on_remove_worker: the sets of the lost worker are emptied while the worker is already gone
      from the map; the invariant is kept for the core with a VIRTUAL copy of the worker. *)
Definition vcore (c : core) (wkv : sworker) : core := upd_worker c wkv.

Lemma vcore_find c wkv : find_worker (c_workers (vcore c wkv)) (w_id wkv) = Some wkv.
Proof. cbn [vcore c_workers upd_worker with_workers]. rewrite find_set_worker, N.eqb_refl. reflexivity. Qed.

(** Move the invariant from a core derived from [vcore c wkv] to [vcore c' wkv']. *)
Lemma vcore_transfer cl c' wkv wkv' :
  WI cl -> wsorted (c_workers c') -> w_id wkv' = w_id wkv ->
  c_tasks cl = c_tasks c' -> c_redirects cl = c_redirects c' -> c_wcounter cl = c_wcounter c' ->
  (forall x, find_worker (c_workers cl) x = if N.eqb x (w_id wkv) then Some wkv' else find_worker (c_workers c') x) ->
  WI (vcore c' wkv').
Proof.
  intros H Sw Hi Et Er Ec Ew. eapply (WIX_views _ _ _ H).
  - apply set_worker_sorted. exact Sw.
  - cbn [vcore c_redirects upd_worker with_workers]. rewrite <- Er. exact (WIX_sr _ _ H).
  - cbn [vcore c_wcounter upd_worker with_workers]. symmetry. exact Ec.
  - intros i. cbn [vcore c_tasks upd_worker with_workers]. rewrite Et. reflexivity.
  - intros x. cbn [vcore c_workers upd_worker with_workers]. rewrite find_set_worker, Hi, Ew. reflexivity.
  - intros i. cbn [vcore c_redirects upd_worker with_workers]. rewrite Er. reflexivity.
Qed.

Lemma lost_prefilled_V l : forall c wkv a p f c',
  wsorted (c_workers c) -> WI (vcore c wkv) -> w_assign wkv = Sn a p f -> NoDup l -> (forall i, In i l -> tid_mem i p = true) ->
  lost_prefilled c l = Ok c' ->
  c_workers c' = c_workers c /\
  exists wkv' p', w_id wkv' = w_id wkv /\ w_assign wkv' = Sn a p' f /\
    (forall i, tid_mem i p' = tid_mem i p && negb (tid_mem i l)) /\ WI (vcore c' wkv').
Proof.
  induction l as [|id r IH]; cbn [lost_prefilled]; intros c wkv a p f c' Sw HW Ea Hnd Hm H.
  - inversion H; subst. split; [reflexivity|]. exists wkv, p. split; [reflexivity|]. split; [exact Ea|]. split; [|exact HW].
    intros i. cbn [tid_mem negb]. rewrite andb_true_r. reflexivity.
  - inversion Hnd as [|? ? Hni Hnd']; subst.
    apply bind_ok in H. destruct H as (t & Ht & H). apply get_task_find in Ht.
    apply bind_ok in H. destruct H as (q & _ & H). apply bind_ok in H. destruct H as (q' & _ & H).
    destruct (find_task_some _ _ _ Ht) as [_ Hid].
    pose proof (vcore_find c wkv) as Hw.
    assert (Hmid : tid_mem id p = true) by (apply Hm; left; reflexivity).
    assert (Hp : pl (t_state t) = PP (w_id wkv)) by (eapply (WI_member_P (vcore c wkv)); [exact HW | exact Hw | exact Ea | exact Hmid | exact Ht]).
    set (wkv1 := with_assign wkv (Sn a (tid_remove id p) f)).
    assert (Hrm : remove_prefill_task wkv id = Ok wkv1) by (unfold remove_prefill_task; rewrite Ea, Hmid; reflexivity).
    pose proof (C_relP x0 _ HW id t (w_id wkv) wkv wkv1 eq_refl Ht Hp Hw Hrm) as W1.
    set (t' := with_state (with_inst t (t_inst t + 1)) (Waiting 0)) in *.
    pose proof (C_show _ _ W1 x0 id t' ltac:(xs) ltac:(xs) Hid (or_introl eq_refl)) as W2.
    match type of H with lost_prefilled ?cc r = _ => set (c1 := cc) in * end.
    assert (W3 : WI (vcore c1 wkv1)).
    { eapply (vcore_transfer _ c1 wkv wkv1 W2); [exact Sw | reflexivity | reflexivity | reflexivity | reflexivity |].
      intros x. cbn [vcore c_workers upd_task upd_worker with_tasks with_workers with_queues c1]. rewrite !find_set_worker. cbn [w_id wkv1 with_assign].
      destruct (N.eqb x (w_id wkv)); reflexivity. }
    destruct (wi_sets _ _ _ (proj1 (proj2 (proj2 HW))) (w_id wkv) wkv a p f Hw Ea) as [_ Sp].
    destruct (IH c1 wkv1 a (tid_remove id p) f c' Sw W3 eq_refl Hnd') as (Ew & wkv' & p' & Hi' & Ea' & Hm' & W').
    + intros i Hi. rewrite tid_mem_remove_other; [apply Hm; right; exact Hi|].
      apply tid_eqb_neq. intros E. subst i. contradiction.
    + exact H.
    + split; [exact Ew|]. exists wkv', p'. split; [exact Hi'|]. split; [exact Ea'|]. split; [|exact W'].
      intros i. rewrite Hm', (tid_mem_remove _ _ _ Sp). cbn [tid_mem]. destruct (tid_eqb i id), (tid_mem i p), (tid_mem i r); reflexivity.
Qed.

Lemma lost_assigned_V l : forall c wkv a p f running ret c' running' ret',
  wsorted (c_workers c) -> WI (vcore c wkv) -> w_assign wkv = Sn a p f -> NoDup l -> (forall i, In i l -> tid_mem i a = true) ->
  lost_assigned c l running ret = Ok (c', running', ret') ->
  c_workers c' = c_workers c /\
  exists wkv' a' f', w_id wkv' = w_id wkv /\ w_assign wkv' = Sn a' p f' /\
    (forall i, tid_mem i a' = tid_mem i a && negb (tid_mem i l)) /\ WI (vcore c' wkv').
Proof.
  induction l as [|id r IH]; cbn [lost_assigned]; intros c wkv a p f running ret c' running' ret' Sw HW Ea Hnd Hm H.
  - inversion H; subst. split; [reflexivity|]. exists wkv, a, f. split; [reflexivity|]. split; [exact Ea|]. split; [|exact HW].
    intros i. cbn [tid_mem negb]. rewrite andb_true_r. reflexivity.
  - inversion Hnd as [|? ? Hni Hnd']; subst.
    apply bind_ok in H. destruct H as (t & Ht & H). apply get_task_find in Ht.
    apply bind_ok in H. destruct H as ([[c1 t1] running1] & Hr1 & H).
    apply bind_ok in H. destruct H as ([qs rt] & _ & H).
    destruct (find_task_some _ _ _ Ht) as [_ Hid].
    pose proof (vcore_find c wkv) as Hw.
    assert (Hmid : tid_mem id a = true) by (apply Hm; left; reflexivity).
    set (wkv1 := with_assign wkv (Sn (tid_remove id a) p (res_add_cap f [] (w_res wkv)))).
    assert (Hrm : remove_sn_task wkv id [] = Ok wkv1) by (unfold remove_sn_task; rewrite Ea, Hmid; reflexivity).
    destruct (wi_sets _ _ _ (proj1 (proj2 (proj2 HW))) (w_id wkv) wkv a p f Hw Ea) as [Sa _].
    match type of H with lost_assigned ?cc r _ _ = _ => set (c2 := cc) in * end.
    assert (W3 : WI (vcore c2 wkv1) /\ c_workers c2 = c_workers c).
    { destruct (WI_member_A (vcore c wkv) _ _ _ _ _ id t HW Hw Ea Hmid Ht) as [Hp|[Hp (v & Hrd)]].
      - (* Assigned / Running on the lost worker *)
        pose proof (C_relA x0 _ HW id t (w_id wkv) wkv wkv1 [] eq_refl Ht Hp Hw Hrm) as W1.
        assert (E1 : c1 = c /\ t1 = with_state t (Waiting 0)).
        { destruct (t_state t); try discriminate; inversion Hr1; subst; auto. }
        destruct E1 as [-> ->].
        pose proof (C_show _ _ W1 x0 id (with_inst (with_state t (Waiting 0)) (t_inst (with_state t (Waiting 0)) + 1)) ltac:(xs) ltac:(xs) Hid (or_introl eq_refl)) as W2.
        split; [|reflexivity].
        eapply (vcore_transfer _ c2 wkv wkv1 W2); [exact Sw | reflexivity | reflexivity | reflexivity | reflexivity |].
        intros x. cbn [vcore c_workers upd_task upd_worker with_tasks with_workers with_queues c2]. rewrite !find_set_worker. cbn [w_id wkv1 with_assign].
        destruct (N.eqb x (w_id wkv)); reflexivity.
      - (* Retracting, redirected to the lost worker *)
        cbn [vcore c_redirects upd_worker with_workers] in Hrd.
        assert (E1 : c1 = with_redirects c (del_redirect (c_redirects c) id) /\ t1 = t).
        { destruct (t_state t); try discriminate. rewrite Hrd in Hr1. inversion Hr1; subst; auto. }
        destruct E1 as [-> ->].
        pose proof (C_relR x0 _ HW id (w_id wkv) v wkv wkv1 [] Hrd Hw Hrm) as W1.
        assert (W2 : WI (upd_task (upd_worker (with_redirects (vcore c wkv) (del_redirect (c_redirects (vcore c wkv)) id)) wkv1) (with_inst t (t_inst t + 1)))).
        { eapply C_same; [exact W1 | exact Ht | exact Hid | reflexivity]. }
        split; [|reflexivity].
        eapply (vcore_transfer _ c2 wkv wkv1 W2); [exact Sw | reflexivity | reflexivity | reflexivity | reflexivity |].
        intros x. cbn [vcore c_workers upd_task upd_worker with_tasks with_workers with_queues with_redirects c2]. rewrite !find_set_worker. cbn [w_id wkv1 with_assign].
        destruct (N.eqb x (w_id wkv)); reflexivity. }
    destruct W3 as [W3 Ew2].
    assert (Sw2 : wsorted (c_workers c2)) by (rewrite Ew2; exact Sw).
    destruct (IH c2 wkv1 (tid_remove id a) p (res_add_cap f [] (w_res wkv)) running1 (ret ++ rt) c' running' ret' Sw2 W3 eq_refl Hnd') as (Ew & wkv' & a' & f' & Hi' & Ea' & Hm' & W').
    + intros i Hi. rewrite tid_mem_remove_other; [apply Hm; right; exact Hi|].
      apply tid_eqb_neq. intros E. subst i. contradiction.
    + exact H.
    + split; [rewrite Ew; exact Ew2|]. exists wkv', a', f'. split; [exact Hi'|]. split; [exact Ea'|]. split; [|exact W'].
      intros i. rewrite Hm', (tid_mem_remove _ _ _ Sa). cbn [tid_mem]. destruct (tid_eqb i id), (tid_mem i a), (tid_mem i r); reflexivity.
Qed.

(** Every task still being retracted from the lost worker. *)
Lemma lost_retracting_WI l : forall s w s', WI (core_of s) -> lost_retracting s w l = Ok s' -> WI (core_of s').
Proof.
  induction l as [|id r IH]; cbn [lost_retracting]; intros s w s' HW H; [inversion H; subst; exact HW|].
  apply bind_ok in H. destruct H as (t & Ht & H). apply get_task_find in Ht.
  destruct (find_task_some _ _ _ Ht) as [_ Hid].
  destruct (t_state t) as [n|w1 rv1|w1|w1|w1 rv1|wsx|] eqn:Est; try (eapply IH; eassumption).
  destruct (N.eqb w w1); [|eapply IH; eassumption].
  cbv zeta in H.
  destruct (find_redirect (c_redirects (core_of s)) id) as [[target rv]|] eqn:Er.
  - apply bind_ok in H. destruct H as (s1 & Hs1 & H). eapply IH; [|exact H].
    rewrite (send_worker_core _ _ _ _ Hs1).
    change (WI (upd_task (with_redirects (core_of s) (del_redirect (c_redirects (core_of s)) id)) (with_state (with_inst t (t_inst t + 1)) (Assigned target rv)))).
    eapply C_redirect_done; [exact HW | exact Er | exact Hid | reflexivity].
  - eapply IH; [|exact H].
    change (WI (upd_task (core_of s) (with_state (with_inst t (t_inst t + 1)) (Waiting 0)))).
    eapply C_neutral; [exact HW | exact Ht | exact Hid | right; split; [rewrite Est; reflexivity | exact Er] | left; reflexivity].
Qed.

(** * New tasks *)
Lemma register_deps_WI deps : forall c id kept count c' kept' count',
  WI c -> register_deps c id deps kept count = (c', kept', count') -> WI c'.
Proof.
  induction deps as [|d r IH]; cbn [register_deps]; intros c id kept count c' kept' count' HW H; [inversion H; subst; exact HW|].
  destruct (find_task (c_tasks c) d) as [dep|] eqn:Ef; [|eapply IH; eassumption].
  destruct (find_task_some _ _ _ Ef) as [_ Hid].
  eapply IH; [|exact H]. eapply C_same; [exact HW | exact Ef | exact Hid | reflexivity].
Qed.

Lemma add_new_tasks_WI ts : forall c ret c' ret', WI c -> add_new_tasks c ts ret = Ok (c', ret') -> WI c'.
Proof.
  induction ts as [|t r IH]; cbn [add_new_tasks]; intros c ret c' ret' HW H; [inversion H; subst; exact HW|].
  destruct (register_deps c (t_id t) (t_deps t) [] 0) as [[c1 kept] count] eqn:Er.
  pose proof (register_deps_WI _ _ _ _ _ _ _ _ HW Er) as W1.
  apply bind_ok in H. destruct H as ([c2 rt] & H2 & H).
  assert (W2 : WI c2).
  { destruct (N.eqb count 0); [|inversion H2; subst; exact W1].
    apply bind_ok in H2. destruct H2 as ([qs rt'] & _ & H2). inversion H2; subst. exact W1. }
  destruct (find_task (c_tasks c2) (t_id t)) eqn:Ef; [discriminate|].
  eapply IH; [|exact H]. eapply C_new; [exact W2 | exact Ef | reflexivity | reflexivity].
Qed.

Lemma on_new_tasks_WI s ts s' : WI (core_of s) -> on_new_tasks s ts = Ok s' -> WI (core_of s').
Proof.
  intros HW H. unfold on_new_tasks in H. destruct ts as [|t0 tr] eqn:Et; [inversion H; subst; exact HW|]. rewrite <- Et in *. clear Et.
  apply bind_ok in H. destruct H as ([c' retracted] & Ha & H). apply bind_ok in H. destruct H as (s1 & Hr & H). inversion H; subst s'.
  pose proof (add_new_tasks_WI _ _ _ _ _ HW Ha) as W1.
  pose proof (process_retracted_WI (st_core s c') _ _ W1 Hr) as W2.
  refine (WIX_frame _ (core_of s1) _ eq_refl eq_refl eq_refl eq_refl _). exact W2.
Qed.
