(** Protocol invariant, part 16: the messages a scheduling round has decided to send (the
    per-worker updates [wupd] and the multi-node tasks) as pending messages, and their items. *)
From HQ Require Import Base.Prelude Cluster.Types Cluster.Core Cluster.Reactor Cluster.Worker Cluster.Server Cluster.Sys Cluster.ProofsJob Cluster.NoPanicU0 Cluster.NoPanicU1 Cluster.NoPanicU2 Cluster.NoPanicU4 Cluster.NoPanicU6 Cluster.NoPanicU7 Cluster.NoPanicU8 Cluster.NoPanicU9.
From Coq Require Import ZArith Lia Sorting.Sorted.
Local Open Scope N_scope.

Notation tid_eqb_eq := NoPanicU1.tid_eqb_eq.
Notation tid_eqb_neq := NoPanicU1.tid_eqb_neq.
Notation tid_eqb_refl := NoPanicU1.tid_eqb_refl.

(** * The update map *)
Fixpoint wfind (m : list wupd) (w : wid) : option wupd :=
  match m with [] => None | h :: t => if N.eqb w (wu_w h) then Some h else wfind t w end.

Lemma wu_get_wfind m w : wu_get m w = match wfind m w with Some u => u | None => mkWU w [] [] [] end.
Proof. induction m as [|h t IH]; cbn [wu_get wfind]; [reflexivity|]. destruct (N.eqb w (wu_w h)); [reflexivity | exact IH]. Qed.
Lemma wfind_key m w u : wfind m w = Some u -> wu_w u = w.
Proof.
  induction m as [|h t IH]; cbn [wfind]; [discriminate|]. destruct (N.eqb w (wu_w h)) eqn:E; [|exact IH].
  intros H; inversion H; subst. apply N.eqb_eq in E. symmetry. exact E.
Qed.
Lemma wu_get_key m w : wu_w (wu_get m w) = w.
Proof. rewrite wu_get_wfind. destruct (wfind m w) as [u|] eqn:E; [eapply wfind_key; exact E | reflexivity]. Qed.
Lemma wfind_set m x w : wfind (wu_set m x) w = if N.eqb w (wu_w x) then Some x else wfind m w.
Proof.
  induction m as [|h t IH]; cbn [wu_set wfind]; [reflexivity|].
  destruct (N.eqb (wu_w x) (wu_w h)) eqn:E1.
  - apply N.eqb_eq in E1. cbn [wfind]. rewrite <- E1. destruct (N.eqb w (wu_w x)); reflexivity.
  - cbn [wfind]. destruct (N.eqb w (wu_w h)) eqn:E2; [|exact IH].
    apply N.eqb_eq in E2. subst w. rewrite N.eqb_sym, E1. reflexivity.
Qed.
Lemma wu_set_keys m x : map wu_w (wu_set m x) = if in_dec N.eq_dec (wu_w x) (map wu_w m) then map wu_w m else map wu_w m ++ [wu_w x].
Proof.
  induction m as [|h t IH]; cbn [wu_set map]; [reflexivity|].
  destruct (N.eqb (wu_w x) (wu_w h)) eqn:E.
  - apply N.eqb_eq in E. cbn [map]. rewrite E. destruct (in_dec N.eq_dec (wu_w h) (wu_w h :: map wu_w t)) as [_|Hn]; [reflexivity | exfalso; apply Hn; left; reflexivity].
  - apply N.eqb_neq in E. cbn [map]. rewrite IH.
    destruct (in_dec N.eq_dec (wu_w x) (map wu_w t)) as [Hi|Hn]; destruct (in_dec N.eq_dec (wu_w x) (wu_w h :: map wu_w t)) as [Hi'|Hn']; try reflexivity.
    + exfalso. apply Hn'. right. exact Hi.
    + exfalso. destruct Hi' as [Hi'|Hi']; [congruence | contradiction].
Qed.
Lemma wu_set_nodup m x : NoDup (map wu_w m) -> NoDup (map wu_w (wu_set m x)).
Proof.
  intros Hn. rewrite wu_set_keys. destruct (in_dec N.eq_dec (wu_w x) (map wu_w m)) as [_|Hni]; [exact Hn|].
  clear -Hn Hni. induction (map wu_w m) as [|h t IH]; cbn [app]; [constructor; [intros [] | constructor]|].
  inversion Hn as [|? ? Hh Ht]; subst. constructor.
  - rewrite in_app_iff. intros [H|[H|[]]]; [contradiction | subst; apply Hni; left; reflexivity].
  - apply IH; [exact Ht | intros H; apply Hni; right; exact H].
Qed.
Lemma wfind_none m w : ~ In w (map wu_w m) -> wfind m w = None.
Proof.
  induction m as [|h t IH]; cbn [wfind map In]; [reflexivity|]. intros Hn.
  destruct (N.eqb w (wu_w h)) eqn:E; [apply N.eqb_eq in E; exfalso; apply Hn; auto | apply IH; intros X; apply Hn; auto].
Qed.
Lemma wfind_in m w u : wfind m w = Some u -> In u m.
Proof.
  induction m as [|h t IH]; cbn [wfind]; [discriminate|]. destruct (N.eqb w (wu_w h)); [intros H; inversion H; left; reflexivity | intros H; right; apply IH; exact H].
Qed.
Lemma in_wfind m u : NoDup (map wu_w m) -> In u m -> wfind m (wu_w u) = Some u.
Proof.
  induction m as [|h t IH]; cbn [wfind map]; intros Hn Hin; [destruct Hin|]. inversion Hn as [|? ? Hh Ht]; subst.
  destruct Hin as [->|Hin]; [rewrite N.eqb_refl; reflexivity|].
  destruct (N.eqb (wu_w u) (wu_w h)) eqn:E; [|apply IH; assumption]. apply N.eqb_eq in E. exfalso. apply Hh. rewrite <- E. apply in_map. exact Hin.
Qed.

(** * The pending messages of a round *)
Definition ctp (c : core) (id : tid) : ctask :=
  match find_task (c_tasks c) id with Some t => ctask_of t None [] | None => mkCT id 0 None 0 false [] end.
Definition umsgs (c : core) (u : wupd) : list (wid * dmsg) :=
  (match wu_retracts u with [] => [] | ids => [(wu_w u, DRetract ids)] end) ++
  (match map (ctp c) (wu_prefills u) ++ map (ctk c) (wu_assigned u) with [] => [] | cts => [(wu_w u, DCompute cts)] end).
Definition mnmsg (c : core) (id : tid) : wid * dmsg :=
  match find_task (c_tasks c) id with
  | Some t => match t_state t with RunningMN (w0 :: ws) => (w0, DCompute [ctask_of t (Some 0) (w0 :: ws)]) | _ => (0, DStop) end
  | None => (0, DStop)
  end.
Definition pdM (c : core) (m : list wupd) (mn : list tid) : list (wid * dmsg) := flat_map (umsgs c) m ++ map (mnmsg c) mn.

Definition pit (y : tid) (l : list tid) : list ditem := flat_map (fun id => sel id y (IDC None false)) l.
Definition uit (y : tid) (u : wupd) : list ditem := dret y (wu_retracts u) ++ pit y (wu_prefills u) ++ cit y (wu_assigned u).

Lemma ctp_id c id : ct_id (ctp c id) = id.
Proof. unfold ctp. destruct (find_task (c_tasks c) id) as [t|] eqn:E; [|reflexivity]. cbn. exact (proj2 (find_task_some _ _ _ E)). Qed.
Lemma ctp_rv c id : ct_rv (ctp c id) = None.
Proof. unfold ctp. destruct (find_task (c_tasks c) id); reflexivity. Qed.
Lemma ctp_nodes c id : ct_nodes (ctp c id) = [].
Proof. unfold ctp. destruct (find_task (c_tasks c) id); reflexivity. Qed.

Lemma compute_items c y pre asg :
  flat_map (fun ct => sel (ct_id ct) y (IDC (ct_rv ct) (negb (is_nil (ct_nodes ct))))) (map (ctp c) pre ++ map (ctk c) asg) = pit y pre ++ cit y asg.
Proof.
  rewrite flat_map_app. f_equal.
  - unfold pit. induction pre as [|h t IH]; [reflexivity|]. cbn [map flat_map]. rewrite ctp_id, ctp_rv, ctp_nodes, IH. reflexivity.
  - change (ditems_msg y (DCompute (map (ctk c) asg)) = cit y asg). apply ctk_items.
Qed.

Lemma umsgs_items c u w y : ditems y (msgs_for w (umsgs c u)) = if N.eqb (wu_w u) w then uit y u else [].
Proof.
  unfold umsgs, uit. rewrite msgs_for_app, ditems_app.
  assert (A : ditems y (msgs_for w (match wu_retracts u with [] => [] | ids => [(wu_w u, DRetract ids)] end)) = if N.eqb (wu_w u) w then dret y (wu_retracts u) else []).
  { destruct (wu_retracts u) as [|i0 ir] eqn:E; [destruct (N.eqb (wu_w u) w); reflexivity|].
    rewrite msgs_for_cons, msgs_for_nil. destruct (N.eqb (wu_w u) w); [|reflexivity]. cbn [ditems flat_map ditems_msg]. rewrite app_nil_r. reflexivity. }
  assert (B : ditems y (msgs_for w (match map (ctp c) (wu_prefills u) ++ map (ctk c) (wu_assigned u) with [] => [] | cts => [(wu_w u, DCompute cts)] end))
              = if N.eqb (wu_w u) w then pit y (wu_prefills u) ++ cit y (wu_assigned u) else []).
  { rewrite <- (compute_items c y). destruct (map (ctp c) (wu_prefills u) ++ map (ctk c) (wu_assigned u)) as [|c0 cr] eqn:E; [destruct (N.eqb (wu_w u) w); reflexivity|].
    rewrite msgs_for_cons, msgs_for_nil. destruct (N.eqb (wu_w u) w); [|reflexivity]. cbn [ditems flat_map ditems_msg]. rewrite app_nil_r. reflexivity. }
  rewrite A, B. destruct (N.eqb (wu_w u) w); reflexivity.
Qed.

Lemma flat_umsgs_items c m w y : NoDup (map wu_w m) ->
  ditems y (msgs_for w (flat_map (umsgs c) m)) = match wfind m w with Some u => uit y u | None => [] end.
Proof.
  induction m as [|h t IH]; cbn [flat_map wfind map]; intros Hn; [reflexivity|]. inversion Hn as [|? ? Hh Ht]; subst.
  rewrite msgs_for_app, ditems_app, umsgs_items, (IH Ht). rewrite (N.eqb_sym (wu_w h) w).
  destruct (N.eqb w (wu_w h)) eqn:E; [|reflexivity]. apply N.eqb_eq in E. subst w. rewrite (wfind_none _ _ Hh), app_nil_r. reflexivity.
Qed.

Definition mit (c : core) (mn : list tid) (w : wid) (y : tid) : list ditem := ditems y (msgs_for w (map (mnmsg c) mn)).

Lemma pdM_items c m mn w y : NoDup (map wu_w m) ->
  ditems y (msgs_for w (pdM c m mn)) = match wfind m w with Some u => uit y u | None => [] end ++ mit c mn w y.
Proof. intros Hn. unfold pdM, mit. rewrite msgs_for_app, ditems_app, (flat_umsgs_items c m w y Hn). reflexivity. Qed.

Lemma mit_snoc c mn id w y : mit c (mn ++ [id]) w y = mit c mn w y ++ ditems y (msgs_for w [mnmsg c id]).
Proof. unfold mit. rewrite map_app, msgs_for_app, ditems_app. reflexivity. Qed.

(** frames: the entries only read id / instance / request / time-limit flag (and, for the
    multi-node tasks, the state) *)
Definition tdata (t : task) := (t_id t, t_inst t, t_rq t, t_tlim t).
Lemma ctp_frame c c' : (forall y, option_map tdata (find_task (c_tasks c') y) = option_map tdata (find_task (c_tasks c) y)) -> forall id, ctp c' id = ctp c id.
Proof.
  intros H id. unfold ctp. specialize (H id). destruct (find_task (c_tasks c') id) as [t'|], (find_task (c_tasks c) id) as [t|]; cbn in H; try discriminate; [|reflexivity].
  unfold tdata in H. inversion H. unfold ctask_of. congruence.
Qed.
Lemma ctk_frame' c c' : (forall y, option_map tdata (find_task (c_tasks c') y) = option_map tdata (find_task (c_tasks c) y)) -> forall ir, ctk c' ir = ctk c ir.
Proof. intros H. apply ctk_frame. exact H. Qed.
Lemma umsgs_frame c c' u : (forall y, option_map tdata (find_task (c_tasks c') y) = option_map tdata (find_task (c_tasks c) y)) -> umsgs c' u = umsgs c u.
Proof.
  intros H. unfold umsgs. rewrite (map_ext _ _ (ctp_frame c c' H)), (map_ext _ _ (ctk_frame' c c' H)). reflexivity.
Qed.

(** * Tables and seen ids of the pending messages *)
Definition cmsg_ok (rqs : list rqdef) (n : N) (m : dmsg) : Prop :=
  match m with DCompute cts => forallb (ct_ok rqs n) cts = true | DNewRq _ _ => False | _ => True end.

Lemma down_ok_pending rqs ms : forall d n, down_ok rqs n d = true ->
  (forall m, In m ms -> cmsg_ok rqs (n + N.of_nat (length (newrq_defs d))) m) ->
  down_ok rqs n (d ++ ms) = true /\ newrq_defs ms = [].
Proof.
  induction d as [|m0 r IH]; intros n Hd Hm; cbn [app].
  - cbn [newrq_defs flat_map length] in Hm. rewrite N.add_0_r in Hm. clear Hd. induction ms as [|m t IHm]; [split; reflexivity|].
    pose proof (Hm m (or_introl eq_refl)) as H0. destruct (IHm (fun m1 H1 => Hm m1 (or_intror H1))) as [A B].
    destruct m; cbn [cmsg_ok] in H0; cbn [down_ok]; unfold newrq_defs in *; cbn [flat_map app]; try (split; assumption); [|destruct H0].
    rewrite H0, A. split; [reflexivity | exact B].
  - destruct m0; cbn [down_ok] in *; try (apply IH; [exact Hd | intros m1 H1; apply Hm; exact H1]).
    + apply andb_true_iff in Hd. destruct Hd as [A B]. rewrite A. apply IH; [exact B | intros m1 H1; apply Hm; exact H1].
    + apply andb_true_iff in Hd. destruct Hd as [A B]. rewrite A. cbn [andb]. apply IH; [exact B|].
      intros m1 H1. specialize (Hm m1 H1). unfold newrq_defs in Hm. cbn [flat_map app length] in Hm. fold (newrq_defs r) in Hm.
      replace (n + 1 + N.of_nat (length (newrq_defs r))) with (n + N.of_nat (Datatypes.S (length (newrq_defs r)))) by lia. exact Hm.
Qed.

Lemma tab_pending2 X s pum pd w p ms :
  SP X s pum pd -> find_proc (s_procs (fst s)) w = Some p -> newrq_defs (msgs_for w pd) = [] ->
  (forall m, In m ms -> cmsg_ok (c_rqs (core_of s)) (N.of_nat (length (c_rqs (core_of s)))) m) ->
  down_ok (c_rqs (core_of s)) (N.of_nat (length (p_rqs p))) (p_down p ++ ms) = true /\ newrq_defs ms = [].
Proof.
  intros HS Hp Hn Hm. pose proof (down_ok_prefix _ _ _ _ (sp_down _ _ _ _ HS _ _ Hp)) as Hd.
  pose proof (sp_tab _ _ _ _ HS _ _ Hp) as Ht. rewrite newrq_app, Hn, app_nil_r in Ht.
  apply down_ok_pending; [exact Hd|]. intros m Hin.
  replace (N.of_nat (length (p_rqs p)) + N.of_nat (length (newrq_defs (p_down p)))) with (N.of_nat (length (c_rqs (core_of s)))); [apply Hm; exact Hin|].
  rewrite <- Ht, app_length. lia.
Qed.

(** the entries of the round are sendable *)
Definition POK (c : core) (m : list wupd) (mn : list tid) : Prop :=
  (forall u y v, In u m -> In (y, v) (wu_assigned u) ->
     v = 0 /\ exists t, find_task (c_tasks c) y = Some t /\ (N.to_nat (t_rq t) < length (c_rqs c))%nat) /\
  (forall id t w0 ws, In id mn -> find_task (c_tasks c) id = Some t -> t_state t = RunningMN (w0 :: ws) ->
     exists r, nth_error (c_rqs c) (N.to_nat (t_rq t)) = Some r /\ zero_res r = true).

Lemma umsgs_ok c u : (forall y v, In (y, v) (wu_assigned u) -> v = 0 /\ exists t, find_task (c_tasks c) y = Some t /\ (N.to_nat (t_rq t) < length (c_rqs c))%nat) ->
  forall w m, In (w, m) (umsgs c u) -> cmsg_ok (c_rqs c) (N.of_nat (length (c_rqs c))) m.
Proof.
  intros Ha w m Hin. unfold umsgs in Hin. apply in_app_iff in Hin. destruct Hin as [Hin|Hin].
  - destruct (wu_retracts u); [destruct Hin|]. destruct Hin as [E|[]]. inversion E; subst. exact I.
  - destruct (map (ctp c) (wu_prefills u) ++ map (ctk c) (wu_assigned u)) as [|c0 cr] eqn:E; [destruct Hin|]. destruct Hin as [E1|[]]. inversion E1; subst.
    cbn [cmsg_ok]. rewrite <- E. rewrite forallb_app. apply andb_true_iff. split; apply forallb_forall; intros ct Hct; apply in_map_iff in Hct; destruct Hct as (z & <- & Hz).
    + unfold ct_ok. rewrite ctp_rv, ctp_nodes. reflexivity.
    + destruct z as [y v]. destruct (Ha y v Hz) as [Hv Ht]. apply ctk_ok; assumption.
Qed.

Lemma pdM_ok c m mn : POK c m mn -> forall w msg, In msg (msgs_for w (pdM c m mn)) -> cmsg_ok (c_rqs c) (N.of_nat (length (c_rqs c))) msg.
Proof.
  intros [Ha Hmn] w msg Hin. unfold msgs_for in Hin. apply in_map_iff in Hin. destruct Hin as ([w0 m0] & E & Hin). cbn in E. subst m0.
  apply filter_In in Hin. destruct Hin as [Hin _]. unfold pdM in Hin. apply in_app_iff in Hin. destruct Hin as [Hin|Hin].
  - apply in_flat_map in Hin. destruct Hin as (u & Hu & Hin). eapply (umsgs_ok c u); [|exact Hin]. intros y v Hyv. eapply Ha; eassumption.
  - apply in_map_iff in Hin. destruct Hin as (id & E & Hid). unfold mnmsg in E.
    destruct (find_task (c_tasks c) id) as [t|] eqn:Ef; [|inversion E; subst; exact I].
    destruct (t_state t) as [n1|w2 r2|w2|w2|w2 r2|[|w1 ws]|] eqn:Est; inversion E; subst; try exact I.
    destruct (Hmn id t w0 ws Hid Ef Est) as (r & Hr & Hz). cbn [cmsg_ok forallb]. rewrite andb_true_r.
    unfold ct_ok. cbn [ctask_of ct_rv ct_rq ct_nodes is_nil orb]. rewrite Hr, Hz, N.eqb_refl. cbn [andb]. rewrite andb_true_r.
    apply N.ltb_lt. assert ((N.to_nat (t_rq t) < length (c_rqs c))%nat) by (apply nth_error_Some; congruence). lia.
Qed.

Lemma pdM_newrq c m mn w : POK c m mn -> newrq_defs (msgs_for w (pdM c m mn)) = [].
Proof.
  intros HP. pose proof (pdM_ok c m mn HP w) as H. induction (msgs_for w (pdM c m mn)) as [|msg r IH]; [reflexivity|].
  pose proof (H msg (or_introl eq_refl)) as H0. unfold newrq_defs in *. cbn [flat_map]. destruct msg; cbn [cmsg_ok] in H0; try destruct H0; cbn [app]; apply IH; intros m1 H1; apply H; right; exact H1.
Qed.

(** the ids mentioned by the round *)
Definition ment (m : list wupd) (mn : list tid) (y : tid) : Prop :=
  (exists u, In u m /\ (In y (wu_retracts u) \/ In y (wu_prefills u) \/ In y (map fst (wu_assigned u)))) \/ In y mn.

Lemma pdM_tids c m mn w y : In y (flat_map dmsg_tids (msgs_for w (pdM c m mn))) -> ment m mn y.
Proof.
  intros H. apply in_flat_map in H. destruct H as (msg & Hmsg & Hy). unfold msgs_for in Hmsg. apply in_map_iff in Hmsg. destruct Hmsg as ([w0 m0] & E & Hin). cbn in E. subst m0.
  apply filter_In in Hin. destruct Hin as [Hin _]. unfold pdM in Hin. apply in_app_iff in Hin. destruct Hin as [Hin|Hin].
  - apply in_flat_map in Hin. destruct Hin as (u & Hu & Hin). left. exists u. split; [exact Hu|]. unfold umsgs in Hin. apply in_app_iff in Hin. destruct Hin as [Hin|Hin].
    + destruct (wu_retracts u) as [|i0 ir] eqn:E; [destruct Hin|]. destruct Hin as [E1|[]]. inversion E1; subst. left. exact Hy.
    + destruct (map (ctp c) (wu_prefills u) ++ map (ctk c) (wu_assigned u)) as [|c0 cr] eqn:E; [destruct Hin|]. destruct Hin as [E1|[]]. inversion E1; subst.
      cbn [dmsg_tids] in Hy. rewrite <- E, map_app, in_app_iff in Hy. destruct Hy as [Hy|Hy].
      * right. left. rewrite map_map in Hy. apply in_map_iff in Hy. destruct Hy as (z & <- & Hz). rewrite ctp_id. exact Hz.
      * right. right. rewrite map_map in Hy. apply in_map_iff in Hy. destruct Hy as (z & <- & Hz). rewrite ctk_id. apply in_map. exact Hz.
  - apply in_map_iff in Hin. destruct Hin as (id & E & Hid). right. unfold mnmsg in E.
    destruct (find_task (c_tasks c) id) as [t|] eqn:Ef; [|inversion E; subst; destruct Hy].
    destruct (t_state t) as [n1|w2 r2|w2|w2|w2 r2|[|w1 ws]|]; inversion E; subst; cbn in Hy; try (exfalso; exact Hy). destruct Hy as [<-|[]].
    rewrite (proj2 (find_task_some _ _ _ Ef)). exact Hid.
Qed.
