(** C06 "instance ids strictly increase", part 5: what the server's functions do to the worker
    processes, the launches in the output and the ids known to the job layer.
    Relation [PR A s s'] (chained like NoPanicL0.R): the output has the same launches; every process
    of [s'] is a process of [s] with the same backlog, running set and up channel, and a down channel
    extended by messages satisfying [A]; an id seen by the job layer stays seen. *)
From HQ Require Import Base.Prelude Cluster.Types Cluster.Core Cluster.Reactor Cluster.Worker Cluster.Server Cluster.Sys Cluster.Monitors Cluster.ProofsJob Cluster.ProofsMore Cluster.ProofsTerminal Cluster.ProofsStep Cluster.ProofsFinal Cluster.BijBase Cluster.BijCore Cluster.BijHq Cluster.BijSt Cluster.BijReact Cluster.ProofsOnce Cluster.InvWBase Cluster.NoPanicC1 Cluster.NoPanicL0 Cluster.NoPanicU0 Cluster.NoPanicU1 Cluster.NoPanicU6 Cluster.NoPanicU7 Cluster.NoPanicU14 Cluster.NoPanicU17 Cluster.ExecU1.
From Coq Require Import ZArith Lia Sorting.Sorted.
Local Open Scope N_scope.

Arguments N.add : simpl never.
Arguments N.sub : simpl never.

Definition LS (s : st) : list launch := launches (snd s).
Definition SM (s s' : st) : Prop := forall x, seen (hq_of s) x = true -> seen (hq_of s') x = true.

Lemma LS_emit s o : (forall l, o <> OLaunch l) -> LS (emit s o) = LS s.
Proof. intros H. unfold LS, emit. cbn [snd]. rewrite launches_app. destruct o; cbn; try apply app_nil_r. exfalso. eapply H. reflexivity. Qed.
Lemma LS_snd s s' : snd s' = snd s -> LS s' = LS s.
Proof. unfold LS. intros ->. reflexivity. Qed.

Ltac lsn := repeat (rewrite LS_emit by (intros; discriminate)); try reflexivity.

(** * The job layer: launches *)
Lemma check_termination_LS s jid s' : check_termination s jid = Ok s' -> LS s' = LS s.
Proof. unfold check_termination. intros H. decs; lsn. Qed.
Lemma process_task_started_LS s t i ws rv s' : process_task_started s t i ws rv = Ok s' -> LS s' = LS s.
Proof. unfold process_task_started. intros H. decs; lsn. Qed.
Lemma process_task_finished_LS s t s' : process_task_finished s t = Ok s' -> LS s' = LS s.
Proof. unfold process_task_finished. intros H. dec H; try discriminate. rewrite (check_termination_LS _ _ _ H). lsn. Qed.
Lemma abort_tasks_LS s jid ids s' : abort_tasks s jid ids = Ok s' -> LS s' = LS s.
Proof. unfold abort_tasks. intros H. destruct ids; [inversion H; reflexivity|]. dec H. rewrite (check_termination_LS _ _ _ H). lsn. Qed.
Lemma set_cancel_state_LS s jid ids s' : set_cancel_state s jid ids = Ok s' -> LS s' = LS s.
Proof. unfold set_cancel_state. intros H. destruct ids; [inversion H; reflexivity|]. dec H. rewrite (check_termination_LS _ _ _ H). lsn. Qed.
Lemma process_task_failed_LS s t ab k s' ids : process_task_failed s t ab k = Ok (s', ids) -> LS s' = LS s.
Proof.
  unfold process_task_failed. intros H.
  apply bind_ok in H. destruct H as (s1 & H1 & H). apply bind_ok in H. destruct H as (j & _ & H).
  apply bind_ok in H. destruct H as (j1 & _ & H). apply bind_ok in H. destruct H as (s2 & H2 & H).
  apply bind_ok in H. destruct H as (j2 & _ & H).
  assert (E2 : LS s2 = LS s) by (rewrite (check_termination_LS _ _ _ H2); lsn; exact (abort_tasks_LS _ _ _ _ H1)).
  dec H; inversion H; subst; try exact E2.
  match goal with X : abort_tasks _ _ _ = Ok _ |- _ => rewrite (abort_tasks_LS _ _ _ _ X) end. exact E2.
Qed.
Lemma set_waiting_all_LS ts : forall s s', set_waiting_all s ts = Ok s' -> LS s' = LS s.
Proof.
  induction ts as [|t r IH]; cbn [set_waiting_all]; intros s s' H; [inversion H; reflexivity|].
  apply bind_ok in H. destruct H as (s1 & H1 & H). rewrite (IH _ _ H). unfold set_waiting_state in H1. decs; reflexivity.
Qed.
Lemma process_worker_lost_LS s w running reason s' : process_worker_lost s w running reason = Ok s' -> LS s' = LS s.
Proof. unfold process_worker_lost. intros H. dec H. inversion H; subst. lsn. eapply set_waiting_all_LS; eassumption. Qed.
Lemma submit_ok_resp_LS s jid s' : submit_ok_resp s jid = Ok s' -> LS s' = LS s.
Proof. unfold submit_ok_resp. intros H. decs; lsn. Qed.

(** * The relation *)
Section Rel.
Variable A : wid -> dmsg -> Prop.

Definition PF (s s' : st) : Prop :=
  forall w p', find_proc (s_procs (fst s')) w = Some p' ->
    exists p add, find_proc (s_procs (fst s)) w = Some p /\ p_backlog p' = p_backlog p /\ p_running p' = p_running p /\
                  p_up p' = p_up p /\ p_down p' = p_down p ++ add /\ Forall (A w) add.
Definition PR (s s' : st) : Prop := LS s' = LS s /\ PF s s' /\ SM s s'.

Lemma PR_refl s : PR s s.
Proof.
  split; [reflexivity|]. split; [|intros x H; exact H]. intros w p' H. exists p', []. rewrite app_nil_r. repeat split; auto.
Qed.
Lemma PR_trans a b c : PR a b -> PR b c -> PR a c.
Proof.
  intros (L1 & P1 & S1) (L2 & P2 & S2). split; [congruence|]. split; [|intros x H; apply S2, S1, H].
  intros w p3 H3. destruct (P2 w p3 H3) as (p2 & add2 & H2 & B2 & R2 & U2 & D2 & F2).
  destruct (P1 w p2 H2) as (p1 & add1 & H1 & B1 & R1 & U1 & D1 & F1).
  exists p1, (add1 ++ add2). split; [exact H1|]. split; [congruence|]. split; [congruence|]. split; [congruence|].
  split; [rewrite D2, D1, app_assoc; reflexivity | apply Forall_app; auto].
Qed.

(** nothing but the core / the output (without launches) changed *)
Lemma PR_same s s' : s_procs (fst s') = s_procs (fst s) -> hq_of s' = hq_of s -> LS s' = LS s -> PR s s'.
Proof.
  intros Ep Eh El. split; [exact El|]. split; [|intros x H; rewrite Eh; exact H].
  intros w p' H. rewrite Ep in H. exists p', []. rewrite app_nil_r. repeat split; auto.
Qed.
Lemma PR_core s c : PR s (st_core s c).
Proof. apply PR_same; reflexivity. Qed.
Lemma PR_ask s : PR s (ask_scheduling s).
Proof. apply PR_same; reflexivity. Qed.
(** the job layer changed *)
Lemma PR_job s s' : CP s' = CP s -> LS s' = LS s -> SM s s' -> PR s s'.
Proof.
  intros Ec El Es. split; [exact El|]. split; [|exact Es]. inversion Ec as [[E1 E2]].
  intros w p' H. rewrite E2 in H. exists p', []. rewrite app_nil_r. repeat split; auto.
Qed.
Lemma SM_chg P s s' : hq_chg P (hq_of s) (hq_of s') -> SM s s'.
Proof. intros H x Hx. eapply hq_chg_seen; eassumption. Qed.

Lemma PR_send s w m s' : send_worker s w m = Ok s' -> A w m -> PR s s'.
Proof.
  unfold send_worker. intros H Ha. destruct (find_proc (s_procs (fst s)) w) as [p|] eqn:Ep; [|discriminate]. inversion H; subst s'.
  split; [reflexivity|]. split; [|intros x Hx; exact Hx]. destruct (find_proc_some _ _ _ Ep) as [_ Hid].
  intros w' p' H'. cbn [fst with_procs s_procs] in H'. rewrite find_set_proc in H'. cbn [push_down p_id] in H'. rewrite Hid in H'.
  destruct (N.eqb w' w) eqn:E.
  - apply N.eqb_eq in E. subst w'. inversion H'; subst p'. exists p, [m]. cbn. repeat split; auto.
  - exists p', []. rewrite app_nil_r. repeat split; auto.
Qed.

Lemma find_map_push ps m w : find_proc (map (fun p => push_down p m) ps) w = option_map (fun p => push_down p m) (find_proc ps w).
Proof. induction ps as [|h r IH]; [reflexivity|]. cbn [map find_proc push_down p_id]. destruct (N.eqb w (p_id h)); [reflexivity | exact IH]. Qed.

Lemma PR_broadcast s m : (forall w, A w m) -> PR s (broadcast s m).
Proof.
  intros Ha. split; [reflexivity|]. split; [|intros x Hx; exact Hx].
  intros w p' H'. unfold broadcast in H'. cbn [fst with_procs s_procs] in H'. rewrite find_map_push in H'.
  destruct (find_proc (s_procs (fst s)) w) as [p|]; [|discriminate]. inversion H'; subst p'. exists p, [m]. cbn. repeat split; auto.
Qed.

Lemma PR_send_all msgs : forall s s', send_all s msgs = Ok s' -> (forall w m, In (w, m) msgs -> A w m) -> PR s s'.
Proof.
  induction msgs as [|[w m] r IH]; cbn [send_all]; intros s s' H Ha; [inversion H; subst; apply PR_refl|].
  apply bind_ok in H. destruct H as (s1 & H1 & H). eapply PR_trans; [eapply PR_send; [exact H1 | apply Ha; left; reflexivity]|].
  eapply IH; [exact H | intros w0 m0 Hin; apply Ha; right; exact Hin].
Qed.
End Rel.

(** * The pass: functions that send no compute message *)
Definition quietm (m : dmsg) : Prop := match m with DCompute _ => False | _ => True end.

Section Pass.
Variable A : wid -> dmsg -> Prop.
Hypothesis HA : forall w m, quietm m -> A w m.
Notation PR := (PR A).
Notation PR_refl := (PR_refl A).
Notation PR_trans := (PR_trans A).
Notation PR_core := (PR_core A).
Notation PR_ask := (PR_ask A).
Notation PR_same := (PR_same A).

Lemma process_retracted_PR s r s' : process_retracted s r = Ok s' -> PR s s'.
Proof.
  unfold process_retracted. intros H. destruct r; [inversion H; subst; apply PR_refl|].
  apply bind_ok in H. destruct H as ([c' groups] & H1 & H).
  eapply PR_trans; [apply (PR_core s c')|]. eapply PR_send_all; [exact H|].
  intros w m Hin. apply in_map_iff in Hin. destruct Hin as (g & E & _). inversion E; subst. apply HA. exact I.
Qed.

Lemma cancel_release_PR ids : forall s u r s1 u' r', cancel_release s ids u r = Ok (s1, u', r') -> PR s s1.
Proof.
  induction ids as [|id rest IH]; cbn [cancel_release]; intros s u r s1 u' r' H; [inversion H; subst; apply PR_refl|].
  destruct (find_task _ id) as [t|]; [|eapply IH; eassumption].
  dec H; (eapply PR_trans; [|eapply IH; exact H]); apply PR_same; reflexivity.
Qed.

Lemma on_cancel_tasks_PR s ids s' : on_cancel_tasks s ids = Ok s' -> PR s s'.
Proof.
  unfold on_cancel_tasks. intros H.
  apply bind_ok in H. destruct H as ([[s1 u] r] & H1 & H). apply bind_ok in H. destruct H as (c' & H2 & H).
  eapply PR_trans; [eapply cancel_release_PR; exact H1|].
  eapply PR_trans; [apply (PR_core s1 c')|]. eapply PR_send_all; [exact H|].
  intros w m Hin. apply in_map_iff in Hin. destruct Hin as (g & E & _). inversion E; subst. apply HA. exact I.
Qed.

Lemma process_task_failed_PR s t ab k s' ids : process_task_failed s t ab k = Ok (s', ids) -> PR s s'.
Proof.
  intros H. apply PR_job; [eapply process_task_failed_CP; exact H | eapply process_task_failed_LS; exact H|].
  eapply SM_chg. eapply process_task_failed_chg. exact H.
Qed.

Lemma task_failed_PR s w id k s' : task_failed s w id k = Ok s' -> PR s s'.
Proof.
  unfold task_failed. intros H. cbv zeta in H. destruct (find_task _ id) as [t|]; [|inversion H; subst; apply PR_refl].
  apply bind_ok in H. destruct H as (rq & _ & H). apply bind_ok in H. destruct H as (c1 & H1 & H).
  apply bind_ok in H. destruct H as (csm & _ & H). apply bind_ok in H. destruct H as (c2 & H2 & H).
  apply bind_ok in H. destruct H as ([c3 stt] & H3 & H). apply bind_ok in H. destruct H as (u & _ & H).
  apply bind_ok in H. destruct H as ([s1 cids] & H4 & H).
  assert (R4 : PR s s1) by (eapply PR_trans; [apply (PR_core s c3) | eapply process_task_failed_PR; exact H4]).
  destruct cids; [inversion H; subst; exact R4|].
  eapply PR_trans; [exact R4 | eapply on_cancel_tasks_PR; exact H].
Qed.

Lemma task_finished_PR s w id s' b : task_finished s w id = Ok (s', b) -> PR s s'.
Proof.
  unfold task_finished. intros H. cbv zeta in H. destruct (find_task _ id) as [t|]; [|inversion H; subst; apply PR_refl].
  apply bind_ok in H. destruct H as (rq & _ & H). apply bind_ok in H. destruct H as (c1 & H1 & H).
  apply bind_ok in H. destruct H as (s1 & H2 & H). apply bind_ok in H. destruct H as ([c3 ret] & H3 & H).
  apply bind_ok in H. destruct H as (s2 & H4 & H). apply bind_ok in H. destruct H as ([c4 stt] & H5 & H).
  destruct stt; try discriminate. inversion H; subst.
  eapply PR_trans; [apply (PR_core s (upd_task c1 (with_state t Finished)))|].
  eapply PR_trans; [apply PR_job; [eapply process_task_finished_CP; exact H2 | eapply process_task_finished_LS; exact H2
                                  | eapply SM_chg; exact (proj2 (process_task_finished_chg _ _ _ H2))]|].
  eapply PR_trans; [apply (PR_core s1 c3)|].
  eapply PR_trans; [eapply process_retracted_PR; exact H4|]. apply PR_core.
Qed.

Lemma task_running_PR s w id rv s' b : task_running s w id rv = Ok (s', b) -> PR s s'.
Proof.
  unfold task_running. intros H. cbv zeta in H. destruct (find_task _ id) as [t|]; [|inversion H; subst; apply PR_refl].
  apply bind_ok in H. destruct H as (rq & _ & H). apply bind_ok in H. destruct H as ([s1 ws] & H1 & H).
  apply bind_ok in H. destruct H as (s2 & H2 & H). inversion H; subst.
  eapply PR_trans; [|apply PR_job; [eapply process_task_started_CP; exact H2 | eapply process_task_started_LS; exact H2
                                   | eapply SM_chg; exact (proj1 (process_task_started_chg _ _ _ _ _ _ H2))]].
  dec H1; inversion H1; subst; try apply PR_refl; apply PR_same; reflexivity.
Qed.

Lemma requeue_PR s t c1 s' b :
  (do (qs, ret) <- add_ready_task (c_queues c1) (with_state t (Waiting 0));
   do s'' <- process_retracted (st_core s (with_queues (upd_task c1 (with_state t (Waiting 0))) qs)) ret;
   Ok (s'', true)) = Ok (s', b) -> PR s s'.
Proof.
  intros Hx. apply bind_ok in Hx. destruct Hx as ([qs ret] & _ & Hx). apply bind_ok in Hx. destruct Hx as (s2 & H2 & Hx).
  inversion Hx; subst. eapply PR_trans; [|eapply process_retracted_PR; exact H2]. apply PR_core.
Qed.

(** [task_reject]: the compute message of its redirect branch is not sent for a task that is not
    being retracted (the protocol excludes a reject of a task under retraction). *)
Lemma task_reject_PR s w id rv s' b :
  (forall t w1, find_task (c_tasks (core_of s)) id = Some t -> t_state t <> Retracting w1) ->
  task_reject s w id rv = Ok (s', b) -> PR s s'.
Proof.
  unfold task_reject. intros Hst H. cbv zeta in H. destruct (find_task _ id) as [t|] eqn:Ef; [|inversion H; subst; apply PR_refl].
  apply bind_ok in H. destruct H as (wk & Hwk & H). apply bind_ok in H. destruct H as (rq & _ & H).
  apply bind_ok in H. destruct H as ([c1 cont] & Hr & H).
  destruct (t_state t) eqn:Est; try (eapply requeue_PR; eassumption).
  exfalso. exact (Hst t _ eq_refl Est).
Qed.

Lemma request_enabled_PR s w rq rv s' : request_enabled s w rq rv = Ok s' -> PR s s'.
Proof. unfold request_enabled. intros H. dec H. inversion H; subst. apply PR_core. Qed.

Lemma lost_fail_running_PR l : forall s reason s', lost_fail_running s reason l = Ok s' -> PR s s'.
Proof.
  induction l as [|id r IH]; cbn [lost_fail_running]; intros s reason s' H; [inversion H; subst; apply PR_refl|].
  destruct (find_task _ id) as [t|]; [|eapply IH; eassumption].
  destruct (t_climit t).
  - apply bind_ok in H. destruct H as (s1 & H1 & H). eapply PR_trans; [eapply task_failed_PR; exact H1 | eapply IH; exact H].
  - destruct (reason_is_failure reason); [|eapply IH; eassumption].
    destruct (increment_crash_counter t) as [t' limit]. destruct limit.
    + apply bind_ok in H. destruct H as (s1 & H1 & H).
      eapply PR_trans; [|eapply IH; exact H]. eapply PR_trans; [|eapply task_failed_PR; exact H1]. apply PR_core.
    + eapply PR_trans; [|eapply IH; exact H]. apply PR_core.
  - destruct (reason_is_failure reason); [|eapply IH; eassumption].
    destruct (increment_crash_counter t) as [t' limit]. destruct limit.
    + apply bind_ok in H. destruct H as (s1 & H1 & H).
      eapply PR_trans; [|eapply IH; exact H]. eapply PR_trans; [|eapply task_failed_PR; exact H1]. apply PR_core.
    + eapply PR_trans; [|eapply IH; exact H]. apply PR_core.
Qed.

Lemma on_new_tasks_PR s ts s' : on_new_tasks s ts = Ok s' -> PR s s'.
Proof.
  unfold on_new_tasks. intros H. destruct ts; [inversion H; subst; apply PR_refl|].
  apply bind_ok in H. destruct H as ([c' ret] & H1 & H). apply bind_ok in H. destruct H as (s1 & H2 & H). inversion H; subst.
  eapply PR_trans; [apply (PR_core s c')|]. eapply PR_trans; [eapply process_retracted_PR; exact H2 | apply PR_ask].
Qed.
End Pass.
