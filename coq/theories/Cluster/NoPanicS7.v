(** C09 for the scheduling step, part 7: the executable contract [sol_ok] of the solver's answer
    and the theorem [scheduling_never_panics]. *)
From HQ Require Import Base.Prelude Cluster.Types Cluster.Core Cluster.Reactor Cluster.Worker Cluster.Server Cluster.Sys Cluster.ProofsJob Cluster.ProofsMore Cluster.ProofsStep Cluster.BijBase Cluster.BijCore Cluster.InvWBase Cluster.InvWView Cluster.InvWCore Cluster.InvQBase Cluster.InvQTake Cluster.InvQInv Cluster.InvQNoDup Cluster.InvQStep Cluster.InvProcsDef Cluster.InvBundle Cluster.NoPanicS1 Cluster.NoPanicS2 Cluster.NoPanicS3 Cluster.NoPanicS4 Cluster.NoPanicS5 Cluster.NoPanicS6.
From Coq Require Import ZArith Lia Sorting.Sorted.
Local Open Scope N_scope.

Arguments N.add : simpl never.
Arguments N.sub : simpl never.

(** * The contract, executable
    [sol_sn sol] = classes [(rq, variant, [(worker, count)])], [sol_mn sol] = classes
    [(rq, variant, [worker set])].  All conditions are evaluated on the core the scheduler runs on. *)
Fixpoint nodupb {A} (eqb : A -> A -> bool) (l : list A) : bool :=
  match l with [] => true | h :: t => negb (existsb (eqb h) t) && nodupb eqb t end.

(** a worker with a positive count exists and is in single-node mode ([insert_sn_task], sites 120 / 102) *)
Definition sn_w_ok (c : core) (wn : wid * N) : bool :=
  N.eqb (snd wn) 0 ||
  match find_worker (c_workers c) (fst wn) with
  | Some wk => match w_assign wk with Sn _ _ _ => true | Mn _ _ => false end
  | None => false
  end.
(** a single-node class: valid request index (141 / 140), not more tasks than the queue holds
    ([take_tasks]: 135 / 137), its workers *)
Definition sn_class_okb (c : core) (x : N * N * list (wid * N)) : bool :=
  Nat.ltb (cidx x) (length (c_rqs c)) &&
  match nth_error (c_queues c) (cidx x) with Some q => N.leb (sum_counts (snd x)) (qsize q) | None => true end &&
  forallb (sn_w_ok c) (snd x).
(** no task of request [i] is under retraction *)
Definition no_retract (c : core) (i : nat) : bool :=
  forallb (fun t => negb (Nat.eqb (N.to_nat (t_rq t)) i) || match t_state t with Retracting _ => false | _ => true end) (c_tasks c).
(** a multi-node class: valid request index (140), one ready task per worker set ([take_one]: 182),
    which is not under retraction (183), no empty worker set (166) *)
Definition mn_class_okb (c : core) (x : N * N * list (list wid)) : bool :=
  Nat.ltb (cidx x) (length (c_rqs c)) &&
  match nth_error (c_queues c) (cidx x) with Some q => take_ones (length (snd x)) q | None => true end &&
  no_retract c (cidx x) &&
  forallb (fun ws => match ws with [] => false | _ :: _ => true end) (snd x).
(** a worker of a multi-node set exists, is free (120 / 112) and gets no single-node task in this round *)
Definition mn_w_ok (c : core) (sol : solution) (w : wid) : bool :=
  match find_worker (c_workers c) w with Some wk => worker_is_free wk | None => false end &&
  forallb (fun x : N * N * list (wid * N) => forallb (fun wn : wid * N => negb (N.eqb (fst wn) w) || N.eqb (snd wn) 0) (snd x)) (sol_sn sol).

Definition sol_ok (c : core) (sol : solution) : bool :=
  (* every request occurs in one class at most *)
  nodupb Nat.eqb (map cidx (sol_sn sol) ++ map cidx (sol_mn sol)) &&
  forallb (sn_class_okb c) (sol_sn sol) &&
  forallb (mn_class_okb c) (sol_mn sol) &&
  (* the worker sets are disjoint and have distinct members *)
  nodupb N.eqb (mn_workers (sol_mn sol)) &&
  forallb (mn_w_ok c sol) (mn_workers (sol_mn sol)).

(** * From the executable to the semantic form *)
Lemma nodupb_NoDup {A} (eqb : A -> A -> bool) l :
  (forall a b, eqb a b = true <-> a = b) -> nodupb eqb l = true -> NoDup l.
Proof.
  intros Heq. induction l as [|h t IH]; cbn [nodupb]; intros H; [constructor|].
  apply andb_true_iff in H. destruct H as [H1 H2]. constructor; [|apply IH; exact H2].
  intros Hin. apply negb_true_iff in H1.
  assert (X : existsb (eqb h) t = true) by (apply existsb_exists; exists h; split; [exact Hin | apply Heq; reflexivity]). congruence.
Qed.

Lemma sn_w_ok_snw c counts y : forallb (sn_w_ok c) counts = true -> Wc counts y -> snw c y.
Proof.
  intros H (n & Hin & Hn). rewrite forallb_forall in H. specialize (H _ Hin). unfold sn_w_ok in H. cbn [fst snd] in H.
  apply orb_true_iff in H. destruct H as [H|H]; [apply N.eqb_eq in H; lia|].
  destruct (find_worker (c_workers c) y) as [wk|] eqn:E; [|discriminate].
  destruct (w_assign wk) as [a p f|] eqn:Ea; [|discriminate]. exists wk, a, p, f. auto.
Qed.

Lemma no_retract_NR c i : no_retract c i = true -> NR c i.
Proof.
  intros H id t w Hf Hr Est. unfold no_retract in H. rewrite forallb_forall in H.
  specialize (H t (proj1 (find_task_some _ _ _ Hf))). rewrite Hr, Nat.eqb_refl, Est in H. discriminate.
Qed.

Theorem sol_ok_SolOK c sol : sol_ok c sol = true -> SolOK c sol.
Proof.
  unfold sol_ok. intros H.
  apply andb_true_iff in H. destruct H as [H H5]. apply andb_true_iff in H. destruct H as [H H4].
  apply andb_true_iff in H. destruct H as [H H3]. apply andb_true_iff in H. destruct H as [H1 H2].
  assert (ND : NoDup (map cidx (sol_sn sol) ++ map cidx (sol_mn sol))) by (eapply nodupb_NoDup; [apply Nat.eqb_eq | exact H1]).
  assert (NW : NoDup (mn_workers (sol_mn sol))) by (eapply nodupb_NoDup; [apply N.eqb_eq | exact H4]).
  rewrite forallb_forall in H2, H3, H5.
  split; [|split; [|split]].
  - split; [exact (NoDup_app_l _ _ ND)|]. apply Forall_forall. intros x Hx. specialize (H2 x Hx). unfold sn_class_okb in H2.
    apply andb_true_iff in H2. destruct H2 as [H2 Hc]. apply andb_true_iff in H2. destruct H2 as [Ha Hb].
    split; [apply Nat.ltb_lt; exact Ha|]. split.
    + intros q Hq. rewrite Hq in Hb. apply N.leb_le. exact Hb.
    + intros y Hy. eapply sn_w_ok_snw; eassumption.
  - split; [exact (NoDup_app_r _ _ ND)|]. split; [|split; [exact NW|]].
    + apply Forall_forall. intros x Hx. specialize (H3 x Hx). unfold mn_class_okb in H3.
      apply andb_true_iff in H3. destruct H3 as [H3 Hd]. apply andb_true_iff in H3. destruct H3 as [H3 Hc].
      apply andb_true_iff in H3. destruct H3 as [Ha Hb].
      split; [apply Nat.ltb_lt; exact Ha|]. split; [|split; [apply no_retract_NR; exact Hc|]].
      * intros q Hq. rewrite Hq in Hb. exact Hb.
      * apply Forall_forall. intros ws Hws. rewrite forallb_forall in Hd. specialize (Hd ws Hws). destruct ws; [discriminate | discriminate].
    + intros w Hw. specialize (H5 w Hw). unfold mn_w_ok in H5. apply andb_true_iff in H5. destruct H5 as [H5 _].
      destruct (find_worker (c_workers c) w) as [wk|] eqn:E; [|discriminate]. exists wk. auto.
  - intros i Hs Hm. exact (NoDup_app_disj _ _ _ ND Hs Hm).
  - intros w x Hw Hx (n & Hin & Hn). specialize (H5 w Hw). unfold mn_w_ok in H5. apply andb_true_iff in H5. destruct H5 as [_ H5].
    rewrite forallb_forall in H5. specialize (H5 x Hx). rewrite forallb_forall in H5. specialize (H5 _ Hin). cbn [fst snd] in H5.
    rewrite N.eqb_refl in H5. cbn in H5. apply N.eqb_eq in H5. lia.
Qed.

(** * The theorem *)
Theorem scheduling_never_panics : forall s sol,
  INV s -> PW s -> sol_ok (s_core s) sol = true -> is_panic (step s (OpSched sol)) = false.
Proof.
  intros s sol HI HP Hok. cbn [step]. destruct (c_flag (s_core s)); [|reflexivity].
  apply (run_scheduling_np (s, []) sol).
  - exact (inv_w _ HI).
  - exact (inv_q _ HI).
  - apply PW_PWC. exact HP.
  - apply sol_ok_SolOK. exact Hok.
Qed.
