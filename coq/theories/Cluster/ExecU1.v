(** C06 "instance ids strictly increase", part 1: copies of a task in the system, the invariant
    [EX], and what one event of a worker process does to the copies it holds.

    A COPY of task [x] is an entry of a ComputeTasks message in a down channel, or an entry of a
    worker's backlog; it carries the instance id the server gave it.  A worker launches a task only
    by consuming a copy; the server creates copies.  The invariant [EX] (on a state and the output
    so far):
      U   at most one copy of a task exists in the whole system;
      H   every launch of [x] so far has an instance id below that of an existing copy of [x];
      H2  a copy of a task the server still knows carries at most the server's instance id;
      S1  every launch of a task the server knows has at most the server's instance id;
      S2  if the CURRENT instance of a task has been launched, the task is not waiting, no copy of
          it exists, and no worker's up channel gives it back (reject / retract response) - so the
          server cannot send it out again without a new instance id;
      L   launched tasks are known to the job layer (their ids cannot be submitted again);
      M   the launches so far of one task have strictly increasing instance ids. *)
From HQ Require Import Base.Prelude Cluster.Types Cluster.Core Cluster.Reactor Cluster.Worker Cluster.Server Cluster.Sys Cluster.ProofsWorker Cluster.NoPanicU0 Cluster.NoPanicU1 Cluster.NoPanicU2 Cluster.NoPanicU3 Cluster.NoPanicU4.
From Coq Require Import ZArith Lia Sorting.Sorted.
Local Open Scope N_scope.

Notation tid_eqb_eq := NoPanicU1.tid_eqb_eq.
Notation tid_eqb_refl := NoPanicU1.tid_eqb_refl.

(** * Launches in the output *)
Definition launches (o : list out) : list launch := flat_map (fun x => match x with OLaunch l => [l] | _ => [] end) o.
Lemma launches_app a b : launches (a ++ b) = launches a ++ launches b.
Proof. unfold launches. apply flat_map_app. Qed.
Lemma launches_map ls : launches (map OLaunch ls) = ls.
Proof. induction ls as [|h t IH]; [reflexivity|]. cbn. f_equal. exact IH. Qed.

Definition LT (ls : list launch) (x : tid) (j : N) : Prop := forall l, In l ls -> l_t l = x -> l_inst l < j.
Definition LE (ls : list launch) (x : tid) (j : N) : Prop := forall l, In l ls -> l_t l = x -> l_inst l <= j.
Definition LC (ls : list launch) (x : tid) (j : N) : Prop := exists l, In l ls /\ l_t l = x /\ l_inst l = j.

(** strictly increasing instance ids per task *)
Definition mono (ls : list launch) : Prop :=
  forall a l1 b l2 c, ls = a ++ l1 :: b ++ l2 :: c -> l_t l1 = l_t l2 -> l_inst l1 < l_inst l2.

Lemma mono_nil : mono [].
Proof. intros a l1 b l2 c E. destruct a; discriminate. Qed.

Lemma mono_snoc ls l : mono ls -> LT ls (l_t l) (l_inst l) -> mono (ls ++ [l]).
Proof.
  intros Hm Hl a l1 b l2 c E Et.
  destruct c as [|c0 c] using rev_ind.
  - (* l2 is the last *)
    assert (E' : ls ++ [l] = (a ++ l1 :: b) ++ [l2]) by (rewrite E, <- app_assoc; reflexivity).
    apply app_inj_tail in E'. destruct E' as [E1 E2]. subst l2 ls. apply Hl; [|exact Et].
    apply in_app_iff. right. left. reflexivity.
  - clear IHc. assert (E' : ls ++ [l] = (a ++ l1 :: b ++ l2 :: c) ++ [c0]).
    { rewrite E. rewrite <- !app_assoc. cbn. f_equal. f_equal. rewrite <- app_assoc. reflexivity. }
    apply app_inj_tail in E'. destruct E' as [E1 _]. eapply Hm; [exact E1 | exact Et].
Qed.

(** * Copies *)
Definition ctag (ct : ctask) : tid * N := (ct_id ct, ct_inst ct).
Definition wtag (t : wtask) : tid * N := (wt_id t, wt_inst t).
Definition ltag (l : launch) : tid * N := (l_t l, l_inst l).

Definition dcts (d : list dmsg) : list ctask := flat_map (fun m => match m with DCompute ts => ts | _ => [] end) d.
Definition ccnt (x : tid) (l : list ctask) : nat := length (filter (fun ct => tid_eqb (ct_id ct) x) l).
Definition dc (x : tid) (d : list dmsg) : nat := ccnt x (dcts d).
Definition bts (b : list (N * list wtask)) : list wtask := flat_map snd b.

(** number of copies of [x] held by a process, and their tags *)
Definition pc (x : tid) (p : wproc) : nat := (dc x (p_down p) + bl_count x (p_backlog p))%nat.
Definition ptags (p : wproc) : list (tid * N) := map ctag (dcts (p_down p)) ++ map wtag (bts (p_backlog p)).
Fixpoint cc (x : tid) (ps : list wproc) : nat := match ps with [] => O | p :: r => (pc x p + cc x r)%nat end.
Definition tags (ps : list wproc) : list (tid * N) := flat_map ptags ps.

Lemma dcts_app a b : dcts (a ++ b) = dcts a ++ dcts b.
Proof. unfold dcts. apply flat_map_app. Qed.
Lemma ccnt_app x a b : ccnt x (a ++ b) = (ccnt x a + ccnt x b)%nat.
Proof. unfold ccnt. rewrite filter_app, app_length. reflexivity. Qed.
Lemma dc_app x a b : dc x (a ++ b) = (dc x a + dc x b)%nat.
Proof. unfold dc. rewrite dcts_app, ccnt_app. reflexivity. Qed.
Lemma ccnt_pos x l : (0 < ccnt x l)%nat <-> exists ct, In ct l /\ ct_id ct = x.
Proof.
  unfold ccnt. induction l as [|h t IH]; cbn [filter length In]; [split; [lia | intros (y & [] & _)]|].
  destruct (tid_eqb (ct_id h) x) eqn:E.
  - apply tid_eqb_eq in E. cbn [length]. split; [intros _; exists h; auto | lia].
  - rewrite IH. split; [intros (y & Hy & Hi); exists y; auto|]. intros (y & [->|Hy] & Hi); [subst; rewrite tid_eqb_refl in E; discriminate | eauto].
Qed.
Lemma bl_count_bts x b : bl_count x b = NoPanicU2.cnt x (bts b).
Proof.
  induction b as [|[k v] r IH]; [reflexivity|]. rewrite bl_count_cons. unfold bts in *. cbn [flat_map snd]. rewrite NoPanicU2.cnt_app, IH. reflexivity.
Qed.
Lemma bl_count_in x b : (0 < bl_count x b)%nat <-> exists y, In y (bts b) /\ wt_id y = x.
Proof. rewrite bl_count_bts. apply NoPanicU2.cnt_pos. Qed.

(** a tagged copy is counted *)
Lemma ptags_pc p x j : In (x, j) (ptags p) -> (0 < pc x p)%nat.
Proof.
  unfold ptags, pc. intros H. apply in_app_iff in H. destruct H as [H|H]; apply in_map_iff in H; destruct H as (y & E & Hy); inversion E; subst.
  - assert (0 < dc (ct_id y) (p_down p))%nat by (apply ccnt_pos; eauto). lia.
  - assert (0 < bl_count (wt_id y) (p_backlog p))%nat by (apply bl_count_in; eauto). lia.
Qed.
Lemma tags_cc ps x j : In (x, j) (tags ps) -> (0 < cc x ps)%nat.
Proof.
  unfold tags. rewrite in_flat_map. intros (p & Hp & Hin). induction ps as [|h r IH]; [destruct Hp|]. cbn [cc].
  destruct Hp as [->|Hp]; [pose proof (ptags_pc _ _ _ Hin); lia | specialize (IH Hp); lia].
Qed.
Lemma cc_in ps x p : In p ps -> (pc x p <= cc x ps)%nat.
Proof. induction ps as [|h r IH]; [intros []|]. cbn [cc]. intros [->|H]; [lia | specialize (IH H); lia]. Qed.

(** task ids given back to the server in an up channel *)
Definition ugives (us : list wupdate) : list tid := flat_map (fun u => match u with UReject x _ => [x] | _ => [] end) us.
Definition gives (up : list umsg) : list tid :=
  flat_map (fun m => match m with URetractResponse ids => ids | UUpdates us => ugives us end) up.
Lemma gives_app a b : gives (a ++ b) = gives a ++ gives b.
Proof. unfold gives. apply flat_map_app. Qed.
Lemma ugives_app a b : ugives (a ++ b) = ugives a ++ ugives b.
Proof. unfold ugives. apply flat_map_app. Qed.
Definition tcnt (x : tid) (l : list tid) : nat := length (filter (fun y => tid_eqb y x) l).
Lemma tcnt_app x a b : tcnt x (a ++ b) = (tcnt x a + tcnt x b)%nat.
Proof. unfold tcnt. rewrite filter_app, app_length. reflexivity. Qed.
Lemma tcnt_pos x l : (0 < tcnt x l)%nat <-> In x l.
Proof.
  unfold tcnt. induction l as [|h t IH]; cbn [filter length In]; [split; [lia | intros []]|].
  destruct (tid_eqb h x) eqn:E.
  - apply tid_eqb_eq in E. cbn [length]. split; [auto | lia].
  - rewrite IH. split; [auto|]. intros [->|H]; [rewrite tid_eqb_refl in E; discriminate | exact H].
Qed.
Definition lcnt (x : tid) (ls : list launch) : nat := length (filter (fun l => tid_eqb (l_t l) x) ls).
Lemma lcnt_app x a b : lcnt x (a ++ b) = (lcnt x a + lcnt x b)%nat.
Proof. unfold lcnt. rewrite filter_app, app_length. reflexivity. Qed.
Lemma lcnt_pos x l : (0 < lcnt x l)%nat <-> exists y, In y l /\ l_t y = x.
Proof.
  unfold lcnt. induction l as [|h t IH]; cbn [filter length In]; [split; [lia | intros (y & [] & _)]|].
  destruct (tid_eqb (l_t h) x) eqn:E.
  - apply tid_eqb_eq in E. cbn [length]. split; [intros _; exists h; auto | lia].
  - rewrite IH. split; [intros (y & Hy & Hi); exists y; auto|]. intros (y & [->|Hy] & Hi); [subst; rewrite tid_eqb_refl in E; discriminate | eauto].
Qed.

(** * The invariant *)
Record EX (s : sys) (outs : list out) : Prop := mkEX {
  ex_u : forall x, (cc x (s_procs s) <= 1)%nat;
  ex_h : forall x j, In (x, j) (tags (s_procs s)) -> LT (launches outs) x j;
  ex_h2 : forall x j t, In (x, j) (tags (s_procs s)) -> find_task (c_tasks (s_core s)) x = Some t -> j <= t_inst t;
  ex_s1 : forall x t, find_task (c_tasks (s_core s)) x = Some t -> LE (launches outs) x (t_inst t);
  ex_s2 : forall x t, find_task (c_tasks (s_core s)) x = Some t -> LC (launches outs) x (t_inst t) ->
          is_waiting t = false /\ cc x (s_procs s) = O /\ forall p, In p (s_procs s) -> ~ In x (gives (p_up p));
  ex_l : forall l, In l (launches outs) -> seen (s_hq s) (l_t l) = true;
  ex_m : mono (launches outs)
}.

(** * One event of a worker process *)
(** [before]: number of copies of [x] it held; afterwards every copy has been launched, given back,
    kept or dropped, and nothing else was launched, given back or is held. *)
Definition weff (btags : list (tid * N)) (bcnt : tid -> nat) (p' : wproc) (ls : list launch) (newg : list tid) : Prop :=
  (forall x, (lcnt x ls + tcnt x newg + pc x p' <= bcnt x)%nat) /\
  (forall l, In l ls -> In (ltag l) btags) /\ (forall c, In c (ptags p') -> In c btags).

(** replacing the list of one request class: the tags *)
Lemma bts_set_in b rq v y : In y (bts (bl_set b rq v)) -> In y v \/ In y (bts b).
Proof.
  unfold bts. induction b as [|[k v0] r IH]; cbn [bl_set flat_map snd]; [rewrite app_nil_r; auto|].
  destruct (N.eqb rq k); [cbn [flat_map snd]; rewrite !in_app_iff; tauto|].
  destruct (N.ltb rq k); cbn [flat_map snd]; rewrite !in_app_iff; [tauto|]. intros [H|H]; [tauto|]. destruct (IH H); tauto.
Qed.
Lemma bl_get_bts b rq y : In y (bl_get b rq) -> In y (bts b).
Proof.
  unfold bts. induction b as [|[k v] r IH]; cbn [bl_get flat_map snd]; [intros []|]. rewrite in_app_iff.
  destruct (N.eqb rq k); [auto | intros H; right; apply IH; exact H].
Qed.

(** [try_start_task] *)
Lemma try_start_tags q t rv pre alloc q1 u l st : try_start_task q t rv pre alloc = (q1, u, l, st) ->
  p_down q1 = p_down q /\ p_backlog q1 = p_backlog q /\ p_up q1 = p_up q /\ ugives u = [] /\
  exists la, l = [la] /\ ltag la = wtag t.
Proof.
  unfold try_start_task. destruct (tid_mem (wt_id t) (p_failnext q)); intros H; inversion H; subst; cbn;
    repeat split; try (destruct pre; reflexivity); eexists; split; reflexivity.
Qed.

(** [prefill_loop] *)
Lemma prefill_loop_eff fuel : forall q rq rv alloc ups ls q' ups' ls' used,
  prefill_loop fuel q rq rv alloc ups ls = (q', ups', ls', used) -> StronglySorted N.lt (map fst (p_backlog q)) ->
  p_down q' = p_down q /\ p_up q' = p_up q /\ ugives ups' = ugives ups /\ StronglySorted N.lt (map fst (p_backlog q')) /\
  exists lnew, ls' = ls ++ lnew /\
    (forall x, (lcnt x lnew + bl_count x (p_backlog q') = bl_count x (p_backlog q))%nat) /\
    (forall l, In l lnew -> exists y, In y (bts (p_backlog q)) /\ ltag l = wtag y) /\
    (forall y, In y (bts (p_backlog q')) -> In y (bts (p_backlog q))).
Proof.
  induction fuel as [|k IH]; intros q rq rv alloc ups ls q' ups' ls' used H Hs.
  - cbn [prefill_loop] in H. inversion H; subst. cbn. repeat split; try assumption. exists []. rewrite app_nil_r. repeat split; auto. intros l [].
  - cbn [prefill_loop] in H.
    assert (Hstop : (wp_free q (res_add (p_free q) alloc), ups, ls, false) = (q', ups', ls', used) ->
              p_down q' = p_down q /\ p_up q' = p_up q /\ ugives ups' = ugives ups /\ StronglySorted N.lt (map fst (p_backlog q')) /\
              exists lnew, ls' = ls ++ lnew /\
                (forall x, (lcnt x lnew + bl_count x (p_backlog q') = bl_count x (p_backlog q))%nat) /\
                (forall l, In l lnew -> exists y, In y (bts (p_backlog q)) /\ ltag l = wtag y) /\
                (forall y, In y (bts (p_backlog q')) -> In y (bts (p_backlog q)))).
    { intros E. inversion E; subst. cbn. repeat split; try assumption. exists []. rewrite app_nil_r. repeat split; auto. intros l []. }
    destruct (pop_last (bl_get (p_backlog q) rq)) as [[t rest]|] eqn:Ep; [|apply Hstop; exact H].
    destruct (bl_has (p_backlog q) rq) eqn:Eh; [|apply Hstop; exact H].
    set (q0 := wp_backlog q (bl_set (p_backlog q) rq rest)) in *.
    destruct (try_start_task q0 t rv true alloc) as [[[q1 u] l] started] eqn:Et.
    destruct (try_start_tags _ _ _ _ _ _ _ _ _ Et) as (D1 & B1 & U1 & G1 & la & -> & Ela).
    pose proof (pop_last_snoc _ _ _ Ep) as Esn.
    assert (Hcnt : forall x, (lcnt x [la] + bl_count x (p_backlog q1) = bl_count x (p_backlog q))%nat).
    { intros x. rewrite B1. cbn [q0 p_backlog wp_backlog wp_upd]. pose proof (bl_count_set x (p_backlog q) rq rest Hs) as Hc.
      rewrite Esn, NoPanicU2.cnt_app, NoPanicU2.cnt_one in Hc. unfold lcnt. cbn [filter].
      assert (E1 : l_t la = wt_id t) by (unfold ltag, wtag in Ela; inversion Ela; reflexivity). rewrite E1.
      destruct (tid_eqb (wt_id t) x); cbn [length]; lia. }
    assert (Hsrc : In t (bts (p_backlog q))) by (eapply bl_get_bts; rewrite Esn; apply in_app_iff; right; left; reflexivity).
    assert (Hsub : forall y, In y (bts (p_backlog q1)) -> In y (bts (p_backlog q))).
    { intros y Hy. rewrite B1 in Hy. cbn [q0 p_backlog wp_backlog wp_upd] in Hy. destruct (bts_set_in _ _ _ _ Hy) as [Hr|Hr]; [|exact Hr].
      eapply bl_get_bts. rewrite Esn. apply in_app_iff. left. exact Hr. }
    assert (Hs1 : StronglySorted N.lt (map fst (p_backlog q1))) by (rewrite B1; cbn [q0 p_backlog wp_backlog wp_upd]; apply bl_set_sorted; exact Hs).
    destruct started.
    + inversion H; subst. split; [rewrite D1; reflexivity|]. split; [rewrite U1; reflexivity|]. split; [rewrite ugives_app, G1, app_nil_r; reflexivity|].
      split; [exact Hs1|]. exists [la]. split; [reflexivity|]. split; [exact Hcnt|]. split; [|exact Hsub].
      intros l [<-|[]]. exists t. auto.
    + destruct (IH _ _ _ _ _ _ _ _ _ _ H Hs1) as (D2 & U2 & G2 & S2 & lnew & E2 & C2 & L2 & B2).
      split; [rewrite D2, D1; reflexivity|]. split; [rewrite U2, U1; reflexivity|]. split; [rewrite G2, ugives_app, G1, app_nil_r; reflexivity|].
      split; [exact S2|]. exists (la :: lnew). split; [rewrite E2, <- app_assoc; reflexivity|]. split.
      * intros x. specialize (C2 x). specialize (Hcnt x). change (la :: lnew) with ([la] ++ lnew). rewrite lcnt_app. lia.
      * split; [|intros y Hy; apply Hsub, B2; exact Hy]. intros l [<-|Hl]; [exists t; auto|]. destruct (L2 l Hl) as (y & Hy & Ey). exists y. split; [apply Hsub; exact Hy | exact Ey].
Qed.

(** [compute_loop] *)
Lemma ccnt_cons x ct r : ccnt x (ct :: r) = ((if tid_eqb (ct_id ct) x then 1 else 0) + ccnt x r)%nat.
Proof. unfold ccnt. cbn [filter]. destruct (tid_eqb (ct_id ct) x); reflexivity. Qed.
Lemma lcnt_one x la : lcnt x [la] = if tid_eqb (l_t la) x then 1%nat else O.
Proof. unfold lcnt. cbn [filter]. destruct (tid_eqb (l_t la) x); reflexivity. Qed.
Lemma tcnt_one x y : tcnt x [y] = if tid_eqb y x then 1%nat else O.
Proof. unfold tcnt. cbn [filter]. destruct (tid_eqb y x); reflexivity. Qed.

Lemma compute_loop_eff ts : forall q ups ls q' ups' ls',
  compute_loop q ts ups ls = Ok (q', ups', ls') -> StronglySorted N.lt (map fst (p_backlog q)) ->
  p_down q' = p_down q /\ p_up q' = p_up q /\ StronglySorted N.lt (map fst (p_backlog q')) /\
  exists lnew gnew, ls' = ls ++ lnew /\ ugives ups' = ugives ups ++ gnew /\
    (forall x, (lcnt x lnew + tcnt x gnew + bl_count x (p_backlog q') = ccnt x ts + bl_count x (p_backlog q))%nat) /\
    (forall l, In l lnew -> In (ltag l) (map ctag ts ++ map wtag (bts (p_backlog q)))) /\
    (forall y, In y (bts (p_backlog q')) -> In (wtag y) (map ctag ts ++ map wtag (bts (p_backlog q)))).
Proof.
  induction ts as [|ct r IH]; intros q ups ls q' ups' ls' H Hs.
  - cbn [compute_loop] in H. inversion H; subst. repeat split; try assumption. exists [], []. rewrite !app_nil_r. repeat split; auto.
    + intros l [].
    + intros y Hy. cbn [map app]. apply in_map. exact Hy.
  - cbn [compute_loop] in H.
    set (t := mkWT (ct_id ct) (ct_inst ct) (ct_rq ct) (ct_tlim ct) (ct_nodes ct)) in *.
    assert (Etag : wtag t = ctag ct) by reflexivity.
    (* the common continuation *)
    assert (Hcont : forall q1 ups1 ls1 l1 g1,
              compute_loop q1 r ups1 ls1 = Ok (q', ups', ls') ->
              p_down q1 = p_down q -> p_up q1 = p_up q -> StronglySorted N.lt (map fst (p_backlog q1)) ->
              ls1 = ls ++ l1 -> ugives ups1 = ugives ups ++ g1 ->
              (forall x, (lcnt x l1 + tcnt x g1 + bl_count x (p_backlog q1) = (if tid_eqb (ct_id ct) x then 1 else 0) + bl_count x (p_backlog q))%nat) ->
              (forall l, In l l1 -> In (ltag l) (ctag ct :: map wtag (bts (p_backlog q)))) ->
              (forall y, In y (bts (p_backlog q1)) -> In (wtag y) (ctag ct :: map wtag (bts (p_backlog q)))) ->
              p_down q' = p_down q /\ p_up q' = p_up q /\ StronglySorted N.lt (map fst (p_backlog q')) /\
              exists lnew gnew, ls' = ls ++ lnew /\ ugives ups' = ugives ups ++ gnew /\
                (forall x, (lcnt x lnew + tcnt x gnew + bl_count x (p_backlog q') = ccnt x (ct :: r) + bl_count x (p_backlog q))%nat) /\
                (forall l, In l lnew -> In (ltag l) (map ctag (ct :: r) ++ map wtag (bts (p_backlog q)))) /\
                (forall y, In y (bts (p_backlog q')) -> In (wtag y) (map ctag (ct :: r) ++ map wtag (bts (p_backlog q))))).
    { intros q1 ups1 ls1 l1 g1 H1 D1 U1 S1 El Eg C1 L1 B1.
      destruct (IH _ _ _ _ _ _ H1 S1) as (D2 & U2 & S2 & lnew & gnew & E2 & G2 & C2 & L2 & B2).
      split; [congruence|]. split; [congruence|]. split; [exact S2|].
      exists (l1 ++ lnew), (g1 ++ gnew). split; [rewrite E2, El, app_assoc; reflexivity|]. split; [rewrite G2, Eg, app_assoc; reflexivity|].
      assert (Hmv : forall c, In c (map ctag r ++ map wtag (bts (p_backlog q1))) -> In c (map ctag (ct :: r) ++ map wtag (bts (p_backlog q)))).
      { intros c Hc. cbn [map app]. apply in_app_iff in Hc. destruct Hc as [Hc|Hc]; [right; apply in_app_iff; left; exact Hc|].
        apply in_map_iff in Hc. destruct Hc as (y & <- & Hy). destruct (B1 y Hy) as [E|Hin]; [left; exact E | right; apply in_app_iff; right; exact Hin]. }
      split; [|split].
      - intros x. specialize (C1 x). specialize (C2 x). rewrite lcnt_app, tcnt_app, ccnt_cons. lia.
      - intros l Hl. apply in_app_iff in Hl. destruct Hl as [Hl|Hl]; [|apply Hmv, L2; exact Hl].
        cbn [map app]. destruct (L1 l Hl) as [E|Hin]; [left; exact E | right; apply in_app_iff; right; exact Hin].
      - intros y Hy. apply Hmv, B2. exact Hy. }
    destruct (ct_rv ct) as [rv|] eqn:Erv.
    + apply bind_ok in H. destruct H as (rq & _ & H).
      destruct (negb (N.eqb rv 0)); [discriminate|].
      destruct (res_fits (p_free q) (rq_res rq)).
      * set (p0 := wp_free q (res_sub (p_free q) (rq_res rq))) in *.
        destruct (try_start_task p0 t rv false (rq_res rq)) as [[[q1 u] l] started] eqn:Et.
        destruct (try_start_tags _ _ _ _ _ _ _ _ _ Et) as (D1 & B1 & U1 & G1 & la & -> & Ela).
        assert (E1 : l_t la = ct_id ct) by (unfold ltag in Ela; rewrite Etag in Ela; inversion Ela; reflexivity).
        destruct started.
        -- eapply (Hcont q1 (ups ++ u) (ls ++ [la]) [la] []); [exact H | rewrite D1; reflexivity | rewrite U1; reflexivity | rewrite B1; exact Hs | reflexivity
             | rewrite ugives_app, G1; reflexivity | | |].
           ++ intros x. rewrite B1, lcnt_one, E1. cbn [p0 p_backlog wp_free wp_upd tcnt filter length]. lia.
           ++ intros l0 [<-|[]]. left. rewrite Ela. exact Etag.
           ++ intros y Hy. rewrite B1 in Hy. right. apply in_map. exact Hy.
        -- destruct (prefill_loop (S (backlog_size q1)) q1 (ct_rq ct) rv (rq_res rq) (ups ++ u) (ls ++ [la])) as [[[q2 u2] l2] used] eqn:Ep.
           assert (Hs1 : StronglySorted N.lt (map fst (p_backlog q1))) by (rewrite B1; exact Hs).
           destruct (prefill_loop_eff _ _ _ _ _ _ _ _ _ _ _ Ep Hs1) as (D2 & U2 & G2 & S2 & lnew & E2 & C2 & L2 & B2).
           eapply (Hcont q2 u2 l2 (la :: lnew) []); [exact H | rewrite D2, D1; reflexivity | rewrite U2, U1; reflexivity | exact S2
             | rewrite E2, <- app_assoc; reflexivity | rewrite G2, ugives_app, G1; reflexivity | | |].
           ++ intros x. specialize (C2 x). rewrite B1 in C2. cbn [p0 p_backlog wp_free wp_upd] in C2.
              change (la :: lnew) with ([la] ++ lnew). rewrite lcnt_app, lcnt_one, E1. cbn [tcnt filter length]. lia.
           ++ intros l0 [<-|Hl]; [left; rewrite Ela; exact Etag|]. destruct (L2 l0 Hl) as (y & Hy & Ey). right. rewrite Ey. apply in_map. rewrite B1 in Hy. exact Hy.
           ++ intros y Hy. right. apply in_map. apply B2 in Hy. rewrite B1 in Hy. exact Hy.
      * eapply (Hcont _ (ups ++ [UReject (ct_id ct) (Some rv)]) ls [] [ct_id ct]); [exact H | reflexivity | reflexivity | exact Hs | rewrite app_nil_r; reflexivity
          | rewrite ugives_app; reflexivity | | |].
        -- intros x. cbn [wp_blocked p_backlog wp_upd lcnt filter length]. rewrite tcnt_one. lia.
        -- intros l0 [].
        -- intros y Hy. right. apply in_map. exact Hy.
    + eapply (Hcont _ ups ls [] []); [exact H | reflexivity | reflexivity | cbn [wp_backlog p_backlog wp_upd]; apply bl_set_sorted; exact Hs | rewrite app_nil_r; reflexivity
        | rewrite app_nil_r; reflexivity | | |].
      * intros x. cbn [wp_backlog p_backlog wp_upd lcnt tcnt filter length].
        pose proof (bl_count_set x (p_backlog q) (ct_rq ct) (bl_get (p_backlog q) (ct_rq ct) ++ [t]) Hs) as Hc.
        rewrite NoPanicU2.cnt_app, NoPanicU2.cnt_one in Hc. change (wt_id t) with (ct_id ct) in Hc. lia.
      * intros l0 [].
      * intros y Hy. cbn [wp_backlog p_backlog wp_upd] in Hy. destruct (bts_set_in _ _ _ _ Hy) as [Hr|Hr]; [|right; apply in_map; exact Hr].
        apply in_app_iff in Hr. destruct Hr as [Hr|[<-|[]]]; [right; apply in_map; eapply bl_get_bts; exact Hr | left; exact Etag].
Qed.

(** [retract_from], [cancel_task] *)
Lemma rr_len x out : length (rr x out) = tcnt x out.
Proof.
  unfold rr, tcnt. induction out as [|h t IH]; [reflexivity|]. cbn [flat_map filter]. rewrite app_length, IH. unfold sel.
  destruct (tid_eqb h x); reflexivity.
Qed.

Lemma retract_from_bts order : forall b ids out b' out', retract_from b order ids out = (b', out') ->
  forall y, In y (bts b') -> In y (bts b).
Proof.
  induction order as [|rq r IH]; cbn [retract_from]; intros b ids out b' out' H y Hy; [inversion H; subst; exact Hy|].
  specialize (IH _ _ _ _ _ H y Hy). destruct (bl_has b rq); [|exact IH].
  destruct (bts_set_in _ _ _ _ IH) as [Hf|Hb]; [|exact Hb]. apply filter_In in Hf. eapply bl_get_bts. exact (proj1 Hf).
Qed.

Lemma cancel_fold_eff ids : forall q, StronglySorted N.lt (map fst (p_backlog q)) ->
  let q' := fold_left cancel_task ids q in
  p_down q' = p_down q /\ p_up q' = p_up q /\ (forall x, (bl_count x (p_backlog q') <= bl_count x (p_backlog q))%nat) /\
  (forall y, In y (bts (p_backlog q')) -> In y (bts (p_backlog q))).
Proof.
  induction ids as [|i r IH]; intros q Hs; cbn [fold_left]; [repeat split; auto|].
  destruct (cancel_task_eff q i) as (U1 & D1 & _ & _ & _ & _ & C1 & _).
  assert (Hb : forall y, In y (bts (p_backlog (cancel_task q i))) -> In y (bts (p_backlog q))).
  { unfold cancel_task. destruct (run_find (p_running q) i); [destruct (fu_find (p_futures q) i) as [[|]|]; auto|].
    cbn [p_backlog wp_backlog wp_upd]. intros y Hy. unfold bts in *. rewrite in_flat_map in *. destruct Hy as ([k v] & Hin & Hy).
    apply in_map_iff in Hin. destruct Hin as (kv0 & E & Hin). inversion E; subst. cbn in Hy. apply filter_In in Hy. exists kv0. split; [exact Hin | exact (proj1 Hy)]. }
  assert (Hs1 : StronglySorted N.lt (map fst (p_backlog (cancel_task q i)))).
  { unfold cancel_task. destruct (run_find (p_running q) i); [destruct (fu_find (p_futures q) i) as [[|]|]; exact Hs|].
    cbn [p_backlog wp_backlog wp_upd]. rewrite map_map. cbn. exact Hs. }
  destruct (IH (cancel_task q i) Hs1) as (D2 & U2 & C2 & B2). cbv zeta in *.
  split; [congruence|]. split; [congruence|]. split.
  - intros x. specialize (C2 x). destruct (C1 x) as [E|[_ E]]; lia.
  - intros y Hy. apply Hb, B2. exact Hy.
Qed.

(** * [process_worker_message]: the head message [m] has been taken off the down channel of [p] *)
Lemma pwm_eff p m order p' ls : process_worker_message p m order = Ok (p', ls) ->
  StronglySorted N.lt (map fst (p_backlog p)) ->
  exists newg, gives (p_up p') = gives (p_up p) ++ newg /\ StronglySorted N.lt (map fst (p_backlog p')) /\
    weff (map ctag (dcts [m]) ++ ptags p) (fun x => (dc x [m] + pc x p)%nat) p' ls newg.
Proof.
  intros H Hs. unfold weff, pc, ptags.
  destruct m as [ts|ids|ids|w0|w0|rq def|]; cbn [process_worker_message] in H.
  - (* compute *)
    apply bind_ok in H. destruct H as ([[p1 ups] ls1] & H1 & H).
    destruct (compute_loop_eff _ _ _ _ _ _ _ H1 Hs) as (D1 & U1 & S1 & lnew & gnew & El & Eg & C1 & L1 & B1).
    cbn [app ugives flat_map] in El, Eg. subst ls1.
    assert (Hres : p_down p' = p_down p1 /\ p_backlog p' = p_backlog p1 /\ gives (p_up p') = gives (p_up p) ++ gnew /\ ls = lnew).
    { destruct ups as [|u0 ur].
      - inversion H; subst. rewrite U1, app_nil_r. auto.
      - inversion H; subst. unfold send_up. cbn [p_down p_backlog p_up wp_up wp_upd]. rewrite gives_app, U1. cbn [gives flat_map]. rewrite app_nil_r. auto. }
    destruct Hres as (Ed & Eb & Egv & ->). exists gnew. split; [exact Egv|]. split; [rewrite Eb; exact S1|].
    unfold dc. cbn [dcts flat_map]. rewrite !app_nil_r. split; [|split].
    + intros x. specialize (C1 x). rewrite Ed, D1, Eb. fold (dc x (p_down p)). lia.
    + intros l Hl. specialize (L1 l Hl). apply in_app_iff in L1. destruct L1 as [A|A]; apply in_app_iff; [left; exact A | right; apply in_app_iff; right; exact A].
    + intros c Hc. rewrite Ed, D1, Eb in Hc. apply in_app_iff in Hc. destruct Hc as [A|A]; [apply in_app_iff; right; apply in_app_iff; left; exact A|].
      apply in_map_iff in A. destruct A as (y & <- & Hy). specialize (B1 y Hy). apply in_app_iff in B1.
      destruct B1 as [A|A]; apply in_app_iff; [left; exact A | right; apply in_app_iff; right; exact A].
  - (* retract *)
    destruct (negb (n_perm order (map fst (p_backlog p)))); [discriminate|].
    destruct (retract_from (p_backlog p) order ids []) as [b out] eqn:Er.
    pose proof (retract_from_cons _ _ _ _ _ _ Er Hs) as Hc. pose proof (retract_from_bts _ _ _ _ _ _ Er) as Hb.
    destruct (retract_from_sorted _ _ _ _ _ _ Er Hs) as [Sb _].
    assert (Hres : p_down p' = p_down p /\ p_backlog p' = b /\ ls = [] /\ gives (p_up p') = gives (p_up p) ++ (match ids with [] => [] | _ => out end)).
    { destruct ids as [|i0 ir]; inversion H; subst; cbn [p_down p_backlog p_up wp_backlog wp_upd send_up wp_up]; repeat split.
      - rewrite app_nil_r. reflexivity.
      - rewrite gives_app. cbn [gives flat_map]. rewrite app_nil_r. reflexivity. }
    destruct Hres as (Ed & Eb & -> & Egv). eexists. split; [exact Egv|]. split; [rewrite Eb; exact Sb|].
    unfold dc. cbn [dcts flat_map ccnt filter length map app lcnt]. split; [|split].
    + intros x. destruct (Hc x) as [I1 _]. rewrite !rr_len in I1. cbn [tcnt filter length] in I1. rewrite Ed, Eb. fold (dc x (p_down p)).
      destruct ids; [cbn [tcnt filter length]; lia | lia].
    + intros l [].
    + intros c Hc'. rewrite Ed, Eb in Hc'. apply in_app_iff in Hc'. destruct Hc' as [A|A]; apply in_app_iff; [left; exact A | right].
      apply in_map_iff in A. destruct A as (y & <- & Hy). apply in_map. apply Hb. exact Hy.
  - (* cancel *)
    inversion H; subst. destruct (cancel_fold_eff ids p Hs) as (D1 & U1 & C1 & B1). cbv zeta in *.
    exists []. rewrite app_nil_r. split; [rewrite U1; reflexivity|]. split.
    { clear -Hs. revert p Hs. induction ids as [|i r IH]; intros p Hs; [exact Hs|]. cbn [fold_left]. apply IH.
      unfold cancel_task. destruct (run_find (p_running p) i); [destruct (fu_find (p_futures p) i) as [[|]|]; exact Hs|].
      cbn [p_backlog wp_backlog wp_upd]. rewrite map_map. cbn. exact Hs. }
    unfold dc. cbn [dcts flat_map ccnt filter length map app lcnt tcnt]. split; [|split].
    + intros x. specialize (C1 x). rewrite D1. fold (dc x (p_down p)). lia.
    + intros l [].
    + intros c Hc. rewrite D1 in Hc. apply in_app_iff in Hc. destruct Hc as [A|A]; apply in_app_iff; [left; exact A | right].
      apply in_map_iff in A. destruct A as (y & <- & Hy). apply in_map. apply B1. exact Hy.
  - inversion H; subst. exists []. rewrite app_nil_r. split; [reflexivity|]. split; [exact Hs|].
    split; [intros x; cbn [lcnt tcnt filter length]; lia | split; [intros l [] | intros c Hc; apply in_app_iff; right; exact Hc]].
  - inversion H; subst. exists []. rewrite app_nil_r. split; [reflexivity|]. split; [exact Hs|].
    split; [intros x; cbn [lcnt tcnt filter length]; lia | split; [intros l [] | intros c Hc; apply in_app_iff; right; exact Hc]].
  - destruct (N.eqb rq (N.of_nat (length (p_rqs p)))); [|discriminate]. inversion H; subst. exists []. rewrite app_nil_r. split; [reflexivity|]. split; [exact Hs|].
    cbn [p_down p_backlog wp_rqs wp_upd].
    split; [intros x; cbn [lcnt tcnt filter length]; lia | split; [intros l [] | intros c Hc; apply in_app_iff; right; exact Hc]].
  - inversion H; subst. exists []. rewrite app_nil_r. split; [reflexivity|]. split; [exact Hs|].
    split; [intros x; cbn [lcnt tcnt filter length]; lia | split; [intros l [] | intros c Hc; apply in_app_iff; right; exact Hc]].
Qed.

(** * [task_end] *)
Lemma ugives_enable l : ugives (map (fun b : N * N => UEnable (fst b) (snd b)) l) = [].
Proof. induction l as [|h t IH]; [reflexivity | exact IH]. Qed.

Lemma task_end_eff p t how p' ls : task_end p t how = Ok (p', ls) -> StronglySorted N.lt (map fst (p_backlog p)) ->
  gives (p_up p') = gives (p_up p) /\ StronglySorted N.lt (map fst (p_backlog p')) /\
  weff (ptags p) (fun x => pc x p) p' ls [].
Proof.
  intros H Hs. unfold task_end in H. destruct (fu_find (p_futures p) t) as [stop|]; [|discriminate].
  destruct (run_find (p_running p) t) as [rv|]; [|discriminate]. destruct (al_find (p_alloc p) t) as [[|rq alloc]|]; try discriminate.
  match type of H with context [prefill_loop ?f ?q0 ?a ?b ?c ?u0 []] => destruct (prefill_loop f q0 a b c u0 []) as [[[p1 ups1] ls1] usd] eqn:Ep end.
  match type of Ep with prefill_loop _ ?q0 _ _ _ ?u0 [] = _ => set (p0 := q0) in *; set (ups0 := u0) in * end.
  assert (Hg0 : ugives ups0 = []) by (subst ups0; destruct how; [reflexivity | reflexivity | destruct stop as [[|]|]; reflexivity]).
  destruct (prefill_loop_eff _ _ _ _ _ _ _ _ _ _ _ Ep Hs) as (D1 & U1 & G1 & S1 & lnew & El & C1 & L1 & B1). cbn [app] in El. subst ls1.
  match type of H with (let '(_, _) := ?e in _) = _ => destruct e as [p2 ups2] eqn:E2 end.
  assert (A2 : p_down p2 = p_down p1 /\ p_backlog p2 = p_backlog p1 /\ p_up p2 = p_up p1 /\ ugives ups2 = []).
  { destruct (negb usd); inversion E2; subst; cbn [p_down p_backlog p_up wp_blocked wp_upd]; repeat split; try (rewrite G1; exact Hg0).
    rewrite ugives_app, ugives_enable, G1, Hg0. reflexivity. }
  destruct A2 as (Ed2 & Eb2 & Eu2 & Eg2).
  assert (A3 : p_down p' = p_down p /\ p_backlog p' = p_backlog p1 /\ gives (p_up p') = gives (p_up p) /\ ls = lnew).
  { destruct ups2 as [|u0 ur]; inversion H; subst.
    - rewrite Ed2, D1, Eb2, Eu2, U1. auto.
    - unfold send_up. cbn [p_down p_backlog p_up wp_up wp_upd]. rewrite Ed2, D1, Eb2, gives_app, Eu2, U1. cbn [gives flat_map]. rewrite Eg2, !app_nil_r. auto. }
  destruct A3 as (Ed & Eb & Eg & ->).
  split; [exact Eg|]. split; [rewrite Eb; exact S1|]. unfold weff, pc, ptags. split; [|split].
  - intros x. specialize (C1 x). rewrite Ed, Eb. cbn [p0 p_backlog wp_upd] in C1. cbn [tcnt filter length]. lia.
  - intros l Hl. destruct (L1 l Hl) as (y & Hy & Ey). apply in_app_iff. right. rewrite Ey. apply in_map. exact Hy.
  - intros c Hc. rewrite Ed, Eb in Hc. apply in_app_iff in Hc. destruct Hc as [A|A]; apply in_app_iff; [left; exact A | right].
    apply in_map_iff in A. destruct A as (y & <- & Hy). apply in_map. exact (B1 y Hy).
Qed.
