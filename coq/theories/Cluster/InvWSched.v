(** Worker-set invariant, part 8: one scheduling round (map_sn / map_mn / proactive filling). *)
From HQ Require Import Base.Prelude Cluster.Types Cluster.Core Cluster.Reactor Cluster.Worker Cluster.Server Cluster.Sys Cluster.ProofsJob Cluster.ProofsMore Cluster.ProofsTerminal Cluster.ProofsStep Cluster.BijBase Cluster.BijCore Cluster.BijHq Cluster.BijSt Cluster.BijReact Cluster.InvWBase Cluster.InvWView Cluster.InvWCore Cluster.InvWReact Cluster.InvWReact2 Cluster.InvWReact3 Cluster.InvWServer.
From Coq Require Import ZArith Lia Sorting.Sorted.
Local Open Scope N_scope.

Arguments N.add : simpl never.
Arguments N.sub : simpl never.

Lemma insert_sn_exact wk id rq wk' : insert_sn_task wk id rq = Ok wk' ->
  exists a p f, w_assign wk = Sn a p f /\ tid_mem id a = false /\ wk' = with_assign wk (Sn (tid_insert id a) p (res_sub f rq)).
Proof.
  unfold insert_sn_task. destruct (w_assign wk) as [a p f|] eqn:E; [|discriminate].
  destruct (tid_mem id a) eqn:Em; [discriminate|]. intros H; inversion H; subst. exists a, p, f. auto.
Qed.
Lemma remove_prefill_exact wk id wk' : remove_prefill_task wk id = Ok wk' ->
  exists a p f, w_assign wk = Sn a p f /\ tid_mem id p = true /\ wk' = with_assign wk (Sn a (tid_remove id p) f).
Proof.
  unfold remove_prefill_task. destruct (w_assign wk) as [a p f|] eqn:E; [|discriminate].
  destruct (tid_mem id p) eqn:Em; [|discriminate]. intros H; inversion H; subst. exists a, p, f. auto.
Qed.

Lemma find_set_task_same ts x : find_task (set_task ts x) (t_id x) = Some x.
Proof. rewrite find_set_task, tid_eqb_refl'. reflexivity. Qed.

(** * map_one *)
Lemma map_one_WI c m id w v rqres c' m' : WI c -> map_one c m id w v rqres = Ok (c', m') -> WI c'.
Proof.
  intros HW H. unfold map_one in H.
  apply bind_ok in H. destruct H as (wk & Hw & H). apply get_worker_find in Hw.
  apply bind_ok in H. destruct H as (wk' & Hins & H).
  apply bind_ok in H. destruct H as (t & Ht & H). apply get_task_find in Ht. cbn [c_tasks upd_worker with_workers] in Ht.
  destruct (find_task_some _ _ _ Ht) as [_ Hid].
  destruct (find_worker_some _ _ _ Hw) as [_ Hwi].
  destruct (insert_sn_task_spec _ _ _ _ Hins) as (Hwi' & _).
  pose proof (WIX_sw _ _ HW) as Sw. pose proof (WIX_sr _ _ HW) as Sr.
  destruct (t_state t) as [n|w1 rv1|old|old|w1 rv1|wsx|] eqn:Est; try discriminate.
  - (* Waiting *)
    inversion H; subst c' m'.
    assert (W1 : WIX (xadd x0 id) c) by (eapply C_hide; [exact HW | exact Ht | left; rewrite Est; reflexivity]).
    exact (C_putA _ _ W1 x0 id (with_state t (Assigned w v)) w wk wk' rqres ltac:(xs) ltac:(xs) Hid eq_refl Hw Hins).
  - (* Prefilled on [old] *)
    cbn [c_workers upd_worker with_workers] in H.
    destruct (find_worker (set_worker (c_workers c) wk') old) as [wo|] eqn:Hwo; [|discriminate].
    apply bind_ok in H. destruct H as (wo' & Hrm & H).
    cbn [c_redirects upd_worker with_workers] in H.
    destruct (find_redirect (c_redirects c) id) eqn:Er; [discriminate|]. inversion H; subst c' m'. clear H.
    set (x := with_state t (Retracting old)).
    assert (Hpp : pl (t_state t) = PP old) by (rewrite Est; reflexivity).
    destruct (insert_sn_exact _ _ _ _ Hins) as (a & p & f & Ea & Hna & Ewk').
    destruct (remove_prefill_exact _ _ _ Hrm) as (a2 & p2 & f2 & Ea2 & Hm2 & Ewo').
    rewrite find_set_worker, Hwi' , Hwi in Hwo.
    destruct (N.eqb old w) eqn:Eow.
    + (* the same worker *)
      apply N.eqb_eq in Eow. subst old. inversion Hwo; subst wo. clear Hwo.
      rewrite Ewk' in Ea2. cbn [w_assign with_assign] in Ea2. inversion Ea2; subst a2 p2 f2. clear Ea2.
      set (woc' := with_assign wk (Sn a (tid_remove id p) f)).
      assert (Hrmc : remove_prefill_task wk id = Ok woc') by (unfold remove_prefill_task; rewrite Ea, Hm2; reflexivity).
      pose proof (C_relP x0 c HW id t w wk woc' eq_refl Ht Hpp Hw Hrmc) as W1.
      pose proof (C_show _ _ W1 x0 id x ltac:(xs) ltac:(xs) Hid (or_intror eq_refl)) as W2.
      set (wkB' := with_assign woc' (Sn (tid_insert id a) (tid_remove id p) (res_sub f rqres))).
      assert (HinsB : insert_sn_task woc' id rqres = Ok wkB') by (unfold insert_sn_task; cbn [w_assign woc' with_assign]; rewrite Hna; reflexivity).
      assert (HwB : find_worker (c_workers (upd_task (upd_worker c woc') x)) w = Some woc').
      { cbn [c_workers upd_task upd_worker with_tasks with_workers]. rewrite find_set_worker. cbn [w_id woc' with_assign]. rewrite Hwi, N.eqb_refl. reflexivity. }
      assert (HtB : find_task (c_tasks (upd_task (upd_worker c woc') x)) id = Some x).
      { cbn [c_tasks upd_task upd_worker with_tasks with_workers]. rewrite <- Hid. apply (find_set_task_same (c_tasks c) x). }
      pose proof (C_putR x0 _ W2 id x w v woc' wkB' rqres eq_refl HtB eq_refl Er HwB HinsB) as W3.
      eapply (WIX_views_a _ _ _ W3).
      * cbn [c_workers upd_task upd_worker with_tasks with_workers with_redirects]. apply set_worker_sorted, set_worker_sorted. exact Sw.
      * cbn [c_redirects upd_task upd_worker with_tasks with_workers with_redirects]. apply set_redirect_sorted. exact Sr.
      * reflexivity.
      * intros i. reflexivity.
      * intros y. cbn [c_workers upd_task upd_worker with_tasks with_workers with_redirects]. rewrite !find_set_worker.
        rewrite Ewo', Ewk'. cbn [w_id with_assign wkB' woc']. destruct (N.eqb y (w_id wk)); reflexivity.
      * intros i. reflexivity.
    + (* another worker *)
      pose proof (C_relP x0 c HW id t old wo wo' eq_refl Ht Hpp Hwo Hrm) as W1.
      pose proof (C_show _ _ W1 x0 id x ltac:(xs) ltac:(xs) Hid (or_intror eq_refl)) as W2.
      destruct (find_worker_some _ _ _ Hwo) as [_ Hwoi]. destruct (remove_prefill_task_spec _ _ _ Hrm) as (Hwoi' & _).
      assert (HwB : find_worker (c_workers (upd_task (upd_worker c wo') x)) w = Some wk).
      { cbn [c_workers upd_task upd_worker with_tasks with_workers]. rewrite find_set_worker, Hwoi', Hwoi, N.eqb_sym, Eow. exact Hw. }
      assert (HtB : find_task (c_tasks (upd_task (upd_worker c wo') x)) id = Some x).
      { cbn [c_tasks upd_task upd_worker with_tasks with_workers]. rewrite <- Hid. apply (find_set_task_same (c_tasks c) x). }
      pose proof (C_putR x0 _ W2 id x w v wk wk' rqres eq_refl HtB eq_refl Er HwB Hins) as W3.
      eapply (WIX_views _ _ _ W3).
      * cbn [c_workers upd_task upd_worker with_tasks with_workers with_redirects]. apply set_worker_sorted, set_worker_sorted. exact Sw.
      * cbn [c_redirects upd_task upd_worker with_tasks with_workers with_redirects]. apply set_redirect_sorted. exact Sr.
      * reflexivity.
      * intros i. reflexivity.
      * intros y. cbn [c_workers upd_task upd_worker with_tasks with_workers with_redirects]. rewrite !find_set_worker, Hwoi', Hwoi, Hwi', Hwi.
        destruct (N.eqb y old) eqn:E1, (N.eqb y w) eqn:E2; try reflexivity.
        apply N.eqb_eq in E1, E2. rewrite E1 in E2. rewrite E2, N.eqb_refl in Eow. discriminate.
      * intros i. reflexivity.
  - (* Retracting *)
    cbn [c_redirects upd_worker with_workers] in H.
    assert (Hpr : pl (t_state t) = PR) by (rewrite Est; reflexivity).
    destruct (find_redirect (c_redirects c) id) as [[ot v_old]|] eqn:Er.
    + apply bind_ok in H. destruct H as (wo & Hwo & H). apply get_worker_find in Hwo.
      apply bind_ok in H. destruct H as (rq & _ & H). apply bind_ok in H. destruct H as (wo' & Hrm & H). inversion H; subst c' m'. clear H.
      cbn [c_workers upd_worker with_workers with_redirects] in Hwo.
      destruct (insert_sn_exact _ _ _ _ Hins) as (a & p & f & Ea & Hna & _).
      (* the old target is another worker *)
      assert (Eow : N.eqb ot w = false).
      { destruct HW as (_ & _ & Hv & _). pose proof (wi_A _ _ _ Hv w id) as X.
        unfold inA, wantA, hv, x0 in X. rewrite Hw, Ea, Hna, (TV_find _ _ _ Ht) in X. cbn [plo] in X. rewrite Hpr, Er in X. symmetry. exact X. }
      rewrite find_set_worker, Hwi', Hwi, Eow in Hwo.
      destruct (find_worker_some _ _ _ Hwo) as [_ Hwoi]. destruct (remove_sn_task_spec _ _ _ _ Hrm) as (Hwoi' & _).
      pose proof (C_relR x0 c HW id ot v_old wo wo' (rq_res rq) Er Hwo Hrm) as W1.
      set (cA := upd_worker (with_redirects c (del_redirect (c_redirects c) id)) wo') in *.
      assert (HwA : find_worker (c_workers cA) w = Some wk).
      { cbn [cA c_workers upd_worker with_workers with_redirects]. rewrite find_set_worker, Hwoi', Hwoi, N.eqb_sym, Eow. exact Hw. }
      assert (ErA : find_redirect (c_redirects cA) id = None).
      { cbn [cA c_redirects upd_worker with_workers with_redirects]. rewrite find_del_redirect by exact Sr. rewrite tid_eqb_refl'. reflexivity. }
      pose proof (C_putR x0 cA W1 id t w v wk wk' rqres eq_refl Ht Hpr ErA HwA Hins) as W2.
      eapply (WIX_views _ _ _ W2).
      * cbn [c_workers upd_worker with_workers with_redirects]. apply set_worker_sorted, set_worker_sorted. exact Sw.
      * cbn [c_redirects upd_worker with_workers with_redirects]. apply set_redirect_sorted. exact Sr.
      * reflexivity.
      * intros i. reflexivity.
      * intros y. cbn [cA c_workers upd_worker with_workers with_redirects]. rewrite !find_set_worker, Hwoi', Hwoi, Hwi', Hwi.
        destruct (N.eqb y ot) eqn:E1, (N.eqb y w) eqn:E2; try reflexivity.
        apply N.eqb_eq in E1, E2. rewrite E1 in E2. rewrite E2, N.eqb_refl in Eow. discriminate.
      * intros i. cbn [cA c_redirects upd_worker with_workers with_redirects]. rewrite !find_set_redirect, find_del_redirect by exact Sr.
        destruct (tid_eqb i id); reflexivity.
    + inversion H; subst c' m'.
      exact (C_putR x0 c HW id t w v wk wk' rqres eq_refl Ht Hpr Er Hw Hins).
Qed.

Lemma rr_pass_WI counts : forall c m tasks v rqres c' m' counts' rest,
  WI c -> rr_pass c m counts tasks v rqres = Ok (c', m', counts', rest) -> WI c'.
Proof.
  induction counts as [|[w n] r IH]; intros c m tasks v rqres c' m' counts' rest HW H.
  - destruct tasks; cbn [rr_pass] in H; inversion H; subst; exact HW.
  - destruct tasks as [|id tl]; cbn [rr_pass] in H; [inversion H; subst; exact HW|].
    destruct (N.ltb 0 n).
    + apply bind_ok in H. destruct H as ([c1 m1] & H1 & H).
      apply bind_ok in H. destruct H as ([[[c2 m2] r'] tl'] & H2 & H). inversion H; subst.
      eapply IH; [eapply map_one_WI; [exact HW | exact H1] | exact H2].
    + apply bind_ok in H. destruct H as ([[[c2 m2] r'] tl'] & H2 & H). inversion H; subst.
      eapply IH; eassumption.
Qed.

Lemma rr_loop_WI fuel : forall c m counts tasks v rqres c' m',
  WI c -> rr_loop fuel c m counts tasks v rqres = Ok (c', m') -> WI c'.
Proof.
  induction fuel as [|k IH]; intros c m counts tasks v rqres c' m' HW H; destruct tasks as [|id tl]; cbn [rr_loop] in H;
    try (inversion H; subst; exact HW); try discriminate.
  apply bind_ok in H. destruct H as ([[[c1 m1] counts1] rest] & H1 & H).
  eapply IH; [eapply rr_pass_WI; [exact HW | exact H1] | exact H].
Qed.

Lemma map_sn_WI sol l : forall c m c' m', WI c -> map_sn c m sol l = Ok (c', m') -> WI c'.
Proof.
  induction l as [|[[rq v] counts] r IH]; cbn [map_sn]; intros c m c' m' HW H; [inversion H; subst; exact HW|].
  apply bind_ok in H. destruct H as (rqd & _ & H). apply bind_ok in H. destruct H as (q & _ & H).
  apply bind_ok in H. destruct H as ([tasks q'] & _ & H). apply bind_ok in H. destruct H as ([c2 m2] & H2 & H).
  eapply IH; [|exact H]. eapply rr_loop_WI; [|exact H2]. exact HW.
Qed.

(** * map_mn *)
Lemma map_mn_sets_WI sets : forall c rq mn c' mn', WI c -> map_mn_sets c rq mn sets = Ok (c', mn') -> WI c'.
Proof.
  induction sets as [|ws r IH]; cbn [map_mn_sets]; intros c rq mn c' mn' HW H; [inversion H; subst; exact HW|].
  apply bind_ok in H. destruct H as (q & _ & H). destruct (q_take_one q) as [[id q']|]; [|discriminate].
  apply bind_ok in H. destruct H as (c2 & H2 & H). apply bind_ok in H. destruct H as (t & Ht & H). apply get_task_find in Ht.
  destruct (t_state t) as [n| | | | | |] eqn:Est; try discriminate. destruct n; [|discriminate].
  destruct (set_mn_workers_spec _ _ _ _ _ H2) as (T2 & R2 & C2 & S2 & F1 & F2 & F3).
  cbn [c_tasks c_redirects c_wcounter c_workers with_queues] in T2, R2, C2, S2, F1, F2, F3.
  rewrite T2 in Ht. destruct (find_task_some _ _ _ Ht) as [_ Hid].
  eapply IH; [|exact H].
  assert (W1 : WIX (xadd x0 id) c) by (eapply C_hide; [exact HW | exact Ht | left; rewrite Est; reflexivity]).
  eapply (C_putM _ _ W1 x0 id (with_state t (RunningMN ws)) ws c2); [xs | xs | exact Hid | reflexivity | exact T2 | exact R2 | exact C2
    | apply S2; exact (WIX_sw _ _ HW) | exact F1 | exact F2 | exact F3].
Qed.

Lemma map_mn_WI l : forall c mn c' mn', WI c -> map_mn c mn l = Ok (c', mn') -> WI c'.
Proof.
  induction l as [|[[rq v] sets] r IH]; cbn [map_mn]; intros c mn c' mn' HW H; [inversion H; subst; exact HW|].
  apply bind_ok in H. destruct H as ([c1 mn1] & H1 & H).
  eapply IH; [eapply map_mn_sets_WI; [exact HW | exact H1] | exact H].
Qed.

(** * Proactive filling *)
Lemma prefill_mark_WI l : forall c w c', WI c -> prefill_mark c w l = Ok c' -> WI c'.
Proof.
  induction l as [|id r IH]; cbn [prefill_mark]; intros c w c' HW H; [inversion H; subst; exact HW|].
  apply bind_ok in H. destruct H as (t & Ht & H). apply get_task_find in Ht.
  destruct (find_task_some _ _ _ Ht) as [_ Hid].
  destruct (negb (is_waiting t)) eqn:Ew; [discriminate|]. apply negb_false_iff in Ew.
  apply bind_ok in H. destruct H as (wk & Hw & H). apply get_worker_find in Hw.
  apply bind_ok in H. destruct H as (wk' & Hins & H).
  eapply IH; [|exact H].
  assert (Hp : pl (t_state t) = PN) by (unfold is_waiting in Ew; destruct (t_state t); try discriminate; reflexivity).
  assert (W1 : WIX (xadd x0 id) c) by (eapply C_hide; [exact HW | exact Ht | left; exact Hp]).
  exact (C_putP _ _ W1 x0 id (with_state t (Prefilled w)) w wk wk' ltac:(xs) ltac:(xs) Hid eq_refl Hw Hins).
Qed.

Lemma prefill_workers_WI ws : forall c m qi psize c' m', WI c -> prefill_workers c m qi psize ws = Ok (c', m') -> WI c'.
Proof.
  induction ws as [|w r IH]; cbn [prefill_workers]; intros c m qi psize c' m' HW H; [inversion H; subst; exact HW|].
  apply bind_ok in H. destruct H as (q & _ & H). apply bind_ok in H. destruct H as ([ids q'] & _ & H).
  apply bind_ok in H. destruct H as (c2 & H2 & H).
  eapply IH; [|exact H]. eapply prefill_mark_WI; [|exact H2]. exact HW.
Qed.

Lemma prefill_queues_WI n : forall c m worder qi top c' m',
  WI c -> prefill_queues c m worder qi n top = Ok (c', m') -> WI c'.
Proof.
  induction n as [|k IH]; cbn [prefill_queues]; intros c m worder qi top c' m' HW H; [inversion H; subst; exact HW|].
  apply bind_ok in H. destruct H as (q & _ & H).
  destruct (q_top_priority q) as [tp|]; [|eapply IH; eassumption].
  destruct (negb (Z.eqb tp top)); [eapply IH; eassumption|].
  destruct (N.eqb _ 0); [eapply IH; eassumption|].
  destruct (existsb _ (q_top_task_ids q)).
  - destruct (forallb _ (q_top_task_ids q)); [eapply IH; eassumption | discriminate].
  - match type of H with match ?ws with [] => _ | _ => _ end = _ => destruct ws eqn:Ews end; [eapply IH; eassumption|].
    destruct (N.eqb _ 0); [eapply IH; eassumption|].
    apply bind_ok in H. destruct H as ([c1 m1] & H1 & H).
    eapply IH; [eapply prefill_workers_WI; [exact HW | exact H1] | exact H].
Qed.

Lemma run_scheduling_WI s sol s' : WI (core_of s) -> run_scheduling s sol = Ok s' -> WI (core_of s').
Proof.
  unfold run_scheduling. intros HW H. destruct (negb (perm_of_set _ _)); [discriminate|].
  apply bind_ok in H. destruct H as ([c1 m1] & H1 & H).
  apply bind_ok in H. destruct H as ([c2 mn] & H2 & H).
  apply bind_ok in H. destruct H as ([c3 m3] & H3 & H).
  apply bind_ok in H. destruct H as (s1 & H4 & H).
  apply bind_ok in H. destruct H as (s2 & H5 & H). inversion H; subst.
  pose proof (map_sn_WI _ _ _ _ _ _ HW H1) as W1.
  pose proof (map_mn_WI _ _ _ _ _ W1 H2) as W2.
  assert (W3 : WI c3).
  { destruct (queues_top_priority (c_queues c2)); [|inversion H3; subst; exact W2].
    eapply prefill_queues_WI; [exact W2 | exact H3]. }
  refine (WIX_frame _ (core_of s2) _ eq_refl eq_refl eq_refl eq_refl _).
  rewrite (send_mn_core _ _ _ H5), (send_mapping_core _ _ _ H4). exact W3.
Qed.
