(** The connected worker processes are exactly the workers the core knows (same ids, same order). *)
From HQ Require Import Base.Prelude Cluster.Types Cluster.Core Cluster.Reactor Cluster.Worker Cluster.Server Cluster.Sys.
Definition PW (s : sys) : Prop := map p_id (s_procs s) = map w_id (c_workers (s_core s)).
