(** C06 "instance ids strictly increase", part 12: the invariant [EX] across one event of a worker
    process (the launches happen here). *)
From HQ Require Import Base.Prelude Cluster.Types Cluster.Core Cluster.Reactor Cluster.Worker Cluster.Server Cluster.Sys Cluster.Monitors Cluster.InvWBase Cluster.NoPanicL0 Cluster.NoPanicU0 Cluster.NoPanicU1 Cluster.NoPanicU2 Cluster.ExecU1 Cluster.ExecU9 Cluster.ExecU10 Cluster.ExecU11.
From Coq Require Import ZArith Lia Sorting.Sorted.
Local Open Scope N_scope.

Lemma mono_app a : forall b, mono a -> (forall l, In l b -> LT a (l_t l) (l_inst l)) -> (forall x, (lcnt x b <= 1)%nat) -> mono (a ++ b).
Proof.
  intros b. induction b as [|l r IH] using rev_ind; intros Hm Hl Hc; [rewrite app_nil_r; exact Hm|].
  rewrite app_assoc. apply mono_snoc.
  - apply IH; [exact Hm | intros l0 Hin; apply Hl; apply in_app_iff; left; exact Hin|].
    intros x. specialize (Hc x). rewrite lcnt_app in Hc. lia.
  - intros l0 Hin Et. apply in_app_iff in Hin. destruct Hin as [Hin|Hin]; [apply (Hl l); [apply in_app_iff; right; left; reflexivity | exact Hin | exact Et]|].
    exfalso. specialize (Hc (l_t l)). rewrite lcnt_app, lcnt_one, NoPanicU1.tid_eqb_refl in Hc.
    assert (0 < lcnt (l_t l) r)%nat by (apply lcnt_pos; eauto). lia.
Qed.

Section Worker.
Variables (s : sys) (pre outs : list out) (w : wid) (p p' : wproc) (ls : list launch) (newg : list tid).
Hypothesis HE : EX s pre.
Hypothesis HP : PROTO s.
Hypothesis Hp : find_proc (s_procs s) w = Some p.
Hypothesis Hid : p_id p' = w.
Hypothesis Hl : launches outs = ls.
Hypothesis HW : weff (ptags p) (fun x => pc x p) p' ls newg.
Hypothesis Hgv : gives (p_up p') = gives (p_up p) ++ newg.

Let s' := with_procs s (set_proc (s_procs s) p').
Let Hps := pr_sorted _ HP.
Let Hinp : In p (s_procs s) := proj1 (NoPanicL0.find_proc_some _ _ _ Hp).

Lemma wk_cc x : (cc x (s_procs s') + pc x p = cc x (s_procs s) + pc x p')%nat.
Proof. exact (cc_set_proc x _ w p p' Hps Hp Hid). Qed.

Lemma wk_tags c : In c (tags (s_procs s')) -> In c (tags (s_procs s)).
Proof.
  intros Hc. destruct (tags_set_proc _ _ _ Hc) as [A|A]; [|exact A]. destruct HW as (_ & _ & W3). eapply tags_of; [exact Hinp | exact (W3 c A)].
Qed.

Lemma wk_launch_copy l : In l ls -> In (ltag l) (tags (s_procs s)) /\ (0 < pc (l_t l) p)%nat.
Proof.
  intros Hin. destruct HW as (_ & W2 & _). pose proof (W2 l Hin) as Hc. split; [eapply tags_of; [exact Hinp | exact Hc]|].
  exact (ptags_pc _ _ _ Hc).
Qed.

(** a task launched in this event has no copy left, is launched once and is not given back *)
Lemma wk_launched x : (0 < lcnt x ls)%nat -> cc x (s_procs s') = O /\ lcnt x ls = 1%nat /\ tcnt x newg = O /\ pc x p = 1%nat.
Proof.
  intros Hpos. destruct HW as (W1 & _ & _). specialize (W1 x). pose proof (ex_u _ _ HE x) as HU. pose proof (cc_in _ x p Hinp) as Hle.
  pose proof (wk_cc x). lia.
Qed.

Lemma wk_gives q : In q (s_procs s') -> forall x, In x (gives (p_up q)) -> (exists q0, In q0 (s_procs s) /\ In x (gives (p_up q0))) \/ In x newg.
Proof.
  intros Hq x Hx. unfold s' in Hq. cbn [s_procs with_procs] in Hq.
  assert (Hq' : q = p' \/ In q (s_procs s)).
  { clear -Hq. induction (s_procs s) as [|h r IH]; cbn [set_proc] in Hq; [destruct Hq as [<-|[]]; auto|].
    destruct (N.eqb (p_id p') (p_id h)); [destruct Hq as [<-|Hq]; [auto | right; right; exact Hq]|].
    destruct (N.ltb (p_id p') (p_id h)); [destruct Hq as [<-|Hq]; [auto | right; exact Hq]|].
    destruct Hq as [<-|Hq]; [right; left; reflexivity|]. destruct (IH Hq); [auto | right; right; assumption]. }
  destruct Hq' as [->|Hq']; [|left; eauto]. rewrite Hgv in Hx. apply in_app_iff in Hx. destruct Hx as [Hx|Hx]; [left; eauto | right; exact Hx].
Qed.

Theorem EX_worker : EX s' (pre ++ outs).
Proof.
  destruct HE as [EU EH EH2 ES1 ES2 EL EM]. destruct HW as (W1 & W2 & W3).
  assert (Els : launches (pre ++ outs) = launches pre ++ ls) by (rewrite launches_app, Hl; reflexivity).
  constructor; rewrite ?Els.
  - (* U *) intros x. pose proof (wk_cc x). specialize (W1 x). specialize (EU x). pose proof (cc_in _ x p Hinp). lia.
  - (* H *) intros x j Hc l Hin Hlt. apply in_app_iff in Hin. destruct Hin as [Hin|Hin]; [exact (EH x j (wk_tags _ Hc) l Hin Hlt)|].
    exfalso. assert (Hpos : (0 < lcnt x ls)%nat) by (apply lcnt_pos; eauto). destruct (wk_launched x Hpos) as (Hz & _).
    pose proof (tags_cc _ _ _ Hc). lia.
  - (* H2 *) intros x j t Hc Hf. exact (EH2 x j t (wk_tags _ Hc) Hf).
  - (* S1 *) intros x t Hf l Hin Hlt. apply in_app_iff in Hin. destruct Hin as [Hin|Hin]; [exact (ES1 x t Hf l Hin Hlt)|].
    destruct (wk_launch_copy l Hin) as [Hc _]. unfold ltag in Hc. rewrite Hlt in Hc. exact (EH2 _ _ _ Hc Hf).
  - (* S2 *) intros x t Hf (l & Hin & Hlt & Hli). apply in_app_iff in Hin. destruct Hin as [Hin|Hin].
    + destruct (ES2 x t Hf (ex_intro _ l (conj Hin (conj Hlt Hli)))) as (Hw & Hc0 & Hng). split; [exact Hw|].
      pose proof (wk_cc x) as Hcc. specialize (W1 x). pose proof (cc_in _ x p Hinp) as Hle. split; [lia|].
      intros q Hq Hx. destruct (wk_gives q Hq x Hx) as [(q0 & Hq0 & Hx0)|Hn]; [exact (Hng q0 Hq0 Hx0)|].
      assert (0 < tcnt x newg)%nat by (apply tcnt_pos; exact Hn). lia.
    + assert (Hpos : (0 < lcnt x ls)%nat) by (apply lcnt_pos; eauto). destruct (wk_launched x Hpos) as (Hz & _ & Hg0 & Hp1).
      destruct (known_pc s HP x t Hf w p Hp) as (_ & _ & K3 & _). destruct (K3 ltac:(lia)) as [Kg Kw].
      split; [exact Kw|]. split; [exact Hz|].
      intros q Hq Hx. destruct (wk_gives q Hq x Hx) as [(q0 & Hq0 & Hx0)|Hn].
      * pose proof (known_given s HP x t Hf q0 Hq0 Hx0) as Hc0. pose proof (cc_in _ x p Hinp). lia.
      * assert (0 < tcnt x newg)%nat by (apply tcnt_pos; exact Hn). lia.
  - (* L *) intros l Hin. apply in_app_iff in Hin. destruct Hin as [Hin|Hin]; [exact (EL l Hin)|].
    destruct (wk_launch_copy l Hin) as [Hc _]. exact (copy_seen s HP _ _ Hc).
  - (* M *) apply mono_app; [exact EM | |].
    + intros l Hin. destruct (wk_launch_copy l Hin) as [Hc _]. exact (EH _ _ Hc).
    + intros x. specialize (W1 x). pose proof (cc_in _ x p Hinp). specialize (EU x). lia.
Qed.
End Worker.
