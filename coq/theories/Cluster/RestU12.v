(** C02 "at rest", part 12: [NB] is kept by the worker side, hence by every operation; it holds
    in every reachable state; and the theorems on states at rest.

    [NB s] ("no silent end for a task the core knows"): for every connected worker process [p]
    and every task [x] of the core, the word of [x] at [p] is not "silently ended", i.e. NOT
    ([x] is neither running nor queued at [p], and (the up channel of [p] holds no item for [x]
    while the server believes [x] runs on [p] and the job layer has been told, or the only item
    for [x] in the up channel is a running message)).

    [at_rest_waiting_or_backlog]: in a reachable state at rest every task of the core is
    [Waiting _], or [Prefilled w] with exactly one entry in the backlog of the process of [w].
    [at_rest_all_waiting]: if moreover the backlogs are empty, every task is [Waiting _]. *)
From HQ Require Import Base.Prelude Cluster.Types Cluster.Core Cluster.Reactor Cluster.Worker Cluster.Server Cluster.Sys Cluster.Monitors Cluster.RejHyp Cluster.ProofsStep Cluster.ProofsFinal Cluster.BijBase Cluster.BijCore Cluster.BijSt Cluster.BijReact Cluster.BijFinal Cluster.InvWBase Cluster.InvWX3 Cluster.InvDStep Cluster.InvBundle Cluster.InvProcsDef Cluster.NoPanicC1 Cluster.NoPanicL0 Cluster.NoPanicU0 Cluster.NoPanicU1 Cluster.NoPanicU2 Cluster.NoPanicU3 Cluster.NoPanicU4 Cluster.NoPanicU19 Cluster.NoPanicU20 Cluster.ExecU10 Cluster.ExecU11 Cluster.ExecU13 Cluster.RestU1 Cluster.RestU3 Cluster.RestU8 Cluster.RestU9 Cluster.RestU11.
From Coq Require Import ZArith Lia Sorting.Sorted.
Local Open Scope N_scope.

Lemma local_none_nrun p x : local p x = LNone -> nrun p x.
Proof. unfold local, nrun. destruct (run_find (p_running p) x); [destruct (bl_count x (p_backlog p)); discriminate | reflexivity]. Qed.
Lemma nrun_local p x rv : nrun p x -> local p x <> LRun rv.
Proof. unfold local, nrun. intros ->. destruct (bl_count x (p_backlog p)) as [|[|n]]; discriminate. Qed.

Lemma noirun_of U : no_irun U -> noirun U = true.
Proof. intros H. unfold noirun. apply forallb_forall. intros it Hin. destruct it; try reflexivity. exfalso. exact (H _ _ Hin). Qed.

(** appending reports that contain no running message, the task not being in the running set *)
Lemma bad_append v U L D N0 : lang v U L D = true -> (forall rv, L <> LRun rv) -> badw v U L = false -> noirun N0 = true ->
  badw v (U ++ N0) LNone = false.
Proof.
  intros Hl HL Hg Hn. destruct (badw v (U ++ N0) LNone) eqn:Hb; [exfalso | reflexivity]. cbn [badw is_lnone andb] in Hb.
  destruct U as [|i1 [|i2 U]]; cbn [app] in Hb.
  - destruct N0 as [|j1 [|j2 N0]]; [| |destruct j1; discriminate].
    + destruct L; try (exfalso; exact (HL _ eq_refl)); destruct v as [|vrv| | |vrv|[|]]; try discriminate; crunch Hl; cbn in Hg; discriminate.
    + destruct j1; first [discriminate | cbn in Hn; discriminate].
  - destruct N0 as [|j1 N0]; [|destruct i1; discriminate]. destruct i1; try discriminate.
    destruct L; try (exfalso; exact (HL _ eq_refl)); try (cbn in Hg; discriminate); destruct v as [|vrv| | |vrv|[|]]; crunch Hl.
  - destruct i1; discriminate.
Qed.
Lemma bad_append_ne v U N0 : N0 <> [] -> noirun N0 = true -> badw v (U ++ N0) LNone = false.
Proof.
  intros Hne Hn. destruct N0 as [|j1 N0]; [congruence|]. destruct U as [|i1 [|i2 U]]; cbn [app badw is_lnone andb].
  - destruct j1; cbn in Hn; try discriminate; destruct N0; reflexivity.
  - destruct i1; reflexivity.
  - destruct i1; reflexivity.
Qed.

Lemma timer_fold_body ts : forall p, let p' := fold_left timer_fire ts p in p_running p' = p_running p /\ p_id p' = p_id p.
Proof.
  induction ts as [|t r IH]; intros p; cbn [fold_left]; [auto|]. destruct (IH (timer_fire p t)) as (A & B). cbv zeta in *.
  rewrite A, B. unfold timer_fire. cbn. destruct (fu_find _ t) as [[|]|]; auto.
Qed.

Theorem NB_worker s o s' outs : ~ server_op o -> INV s -> RWA (s_core s) -> PROTO s -> SCN s -> NB s -> step s o = Ok (s', outs) -> NB s'.
Proof.
  intros Ho HI HR HP HS HN H. pose proof (pr_sorted _ HP) as Hps.
  (* one process replaced, core and job layer unchanged *)
  assert (Hset : forall w p p', find_proc (s_procs s) w = Some p -> p_id p' = w -> s' = with_procs s (set_proc (s_procs s) p') ->
            (forall x t, find_task (c_tasks (s_core s)) x = Some t ->
               badw (view_of (t_state t) w (job_running (s_hq s) x)) (uitems x (p_up p)) (local p x) = false ->
               lang (view_of (t_state t) w (job_running (s_hq s) x)) (uitems x (p_up p)) (local p x) (ditems x (p_down p)) = true ->
               badw (view_of (t_state t) w (job_running (s_hq s) x)) (uitems x (p_up p')) (local p' x) = false) -> NB s').
  { intros w p p' Hp Hid -> Hstep w' q x t Hq Hf. cbn [s_procs with_procs s_core s_hq] in *. rewrite find_set_proc, Hid in Hq.
    destruct (N.eqb w' w) eqn:E; [|exact (HN w' q x t Hq Hf)]. apply N.eqb_eq in E. subst w'. injection Hq as <-.
    apply Hstep; [exact Hf | exact (HN w p x t Hp Hf) | exact (pr_words _ HP w p x t Hp Hf)]. }
  destruct o; try (exfalso; apply Ho; exact I); clear Ho.
  - (* connect *) cbn [step] in H. unfold on_new_worker in H. cbv zeta in H. inversion H; subst s' outs. clear H.
    change (core_of (s, [])) with (s_core s). set (wn := c_wcounter (s_core s) + 1) in *.
    intros w q x t Hq Hf. cbn [fst snd emit ask_scheduling st_core with_core with_procs broadcast core_of s_core s_hq s_procs upd_worker with_workers with_flag with_wcounter c_tasks] in Hq, Hf |- *.
    rewrite find_set_proc in Hq. cbn [new_proc p_id] in Hq. destruct (N.eqb w wn) eqn:E.
    + apply N.eqb_eq in E. subst w. injection Hq as <-. rewrite (new_worker_view s x t _ HI HR Hf). reflexivity.
    + rewrite (find_map_proc (fun p => push_down p (DNewWorker wn))) in Hq by reflexivity.
      destruct (find_proc (s_procs s) w) as [p|] eqn:Hp; [|discriminate]. injection Hq as <-.
      change (local (push_down p (DNewWorker wn)) x) with (local p x). cbn [push_down p_up]. exact (HN w p x t Hp Hf).
  - (* ddown *) cbn [step] in H. destruct (find_proc (s_procs s) w) as [p|] eqn:Hp; [|discriminate].
    destruct (p_down p) as [|m rest] eqn:Ed; [discriminate|]. apply bind_ok in H. destruct H as ([p' ls] & Hm & H). inversion H; subst s' outs. clear H.
    destruct (NoPanicL0.find_proc_some _ _ _ Hp) as [_ Hid].
    assert (Hbs : StronglySorted N.lt (map fst (p_backlog (wp_down p rest)))) by exact (backlog_sorted s w p HP Hp).
    apply (Hset w p p' Hp); [destruct (pwm_nrun _ _ _ _ _ (1, 1) Hbs Hm) as (nm & _ & Ei & _); rewrite Ei; exact Hid | reflexivity|].
    intros x t Hf Hg Hl. destruct (pwm_nrun _ _ _ _ _ x Hbs Hm) as (nm & Eu & Ei & Hn). cbn [wp_down wp_upd p_up] in Eu.
    destruct (local p' x) eqn:EL; try reflexivity. rewrite Eu, uitems_app.
    destruct (Hn (local_none_nrun _ _ EL)) as [A B].
    apply (bad_append _ _ _ _ _ Hl); [intros rv; apply nrun_local; exact A | exact Hg | apply noirun_of; exact B].
  - (* end *) cbn [step] in H. destruct (find_proc (s_procs s) w) as [p|] eqn:Hp; [|discriminate].
    apply bind_ok in H. destruct H as ([p' ls] & Hm & H). inversion H; subst s' outs. clear H.
    destruct (NoPanicL0.find_proc_some _ _ _ Hp) as [Hin Hid].
    pose proof (backlog_sorted s w p HP Hp) as Hbs.
    pose proof (proj1 (local_ok_LOK _) (pr_local _ HP _ _ Hp)) as HL.
    assert (Hrs : StronglySorted tlt (map fst (p_running p))) by exact (lok_sorted _ HL).
    apply (Hset w p p' Hp); [destruct (task_end_nrun _ _ _ _ _ (1, 1) Hrs Hbs Hm) as (nm & _ & Ei & _); rewrite Ei; exact Hid | reflexivity|].
    intros x tk Hf Hg Hl. destruct (task_end_nrun _ _ _ _ _ x Hrs Hbs Hm) as (nm & Eu & Ei & Hn).
    destruct (local p' x) eqn:EL; try reflexivity. rewrite Eu, uitems_app.
    destruct (Hn (local_none_nrun _ _ EL)) as [B [A|[Ex A]]].
    + apply (bad_append _ _ _ _ _ Hl); [intros rv; apply nrun_local; exact A | exact Hg | apply noirun_of; exact B].
    + destruct (uitems x nm) as [|i1 r1] eqn:En.
      * rewrite (HS p x Hin (A eq_refl)) in Hf. discriminate.
      * apply bad_append_ne; [discriminate | apply noirun_of; exact B].
  - (* failnext *) cbn [step] in H. destruct (find_proc (s_procs s) w) as [p|] eqn:Hp; [|discriminate]. inversion H; subst s' outs.
    destruct (NoPanicL0.find_proc_some _ _ _ Hp) as [_ Hid].
    apply (Hset w p (wp_failnext p (p_failnext p ++ [t])) Hp); [exact Hid | reflexivity|]. intros x tk Hf Hg Hl. exact Hg.
  - (* timer *) cbn [step] in H. inversion H; subst s' outs. intros w q x t Hq Hf. cbn [s_procs with_procs s_core s_hq] in *.
    rewrite (find_map_proc (fun p => fold_left timer_fire (p_timers p) p)) in Hq by (intros p; exact (proj2 (timer_fold_body _ p))).
    destruct (find_proc (s_procs s) w) as [p|] eqn:Hp; [|discriminate]. injection Hq as <-.
    destruct (timer_fold_frame (p_timers p) p) as (_ & B & C). destruct (timer_fold_body (p_timers p) p) as (A & _). cbv zeta in *.
    unfold local. rewrite A, B, C. exact (HN w p x t Hp Hf).
Qed.

Theorem step_NB s o s' outs : INV s -> INV s' -> RWA (s_core s) -> PROTO s -> PROTO s' -> SCN s -> NB s -> step s o = Ok (s', outs) -> NB s'.
Proof.
  intros HI HI' HR HP HP' HS HN H.
  destruct o; match type of H with step _ ?o0 = _ =>
    first [ exact (NB_server s o0 s' outs I HI HI' HP HP' HN H)
          | exact (NB_worker s o0 s' outs (fun X : False => X) HI HR HP HS HN H) ] end.
Qed.

Theorem reachable_NB ops : forall reserve maxfill s outs,
  Forall op_wf ops -> ops_ok (init_sys reserve maxfill) ops = true -> run (init_sys reserve maxfill) ops = Ok (s, outs) -> NB s.
Proof.
  induction ops as [|o pre IH] using rev_ind; intros reserve maxfill s outs Hwf Hok H.
  - cbn in H. inversion H; subst. intros w p x t Hp. cbn in Hp. discriminate.
  - pose proof (proj1 (reachable_PROTO _ _ _ _ _ Hwf Hok H)) as HP'. pose proof (reachable_INV_ops _ _ _ _ _ Hwf Hok H) as HI'.
    apply Forall_app in Hwf. destruct Hwf as [Hwf1 Hwf2]. destruct (ops_ok_snoc _ _ _ Hok) as [Hok1 _].
    destruct (run_app _ _ _ _ _ H) as (s1 & o1 & o2 & H1 & H2 & ->). cbn [run] in H2. apply bind_ok in H2. destruct H2 as ([s2 o3] & Hs & H2). cbn in H2. inversion H2; subst s2 o2. clear H2.
    destruct (reachable_PROTO _ _ _ _ _ Hwf1 Hok1 H1) as [HP1 Hfr1].
    eapply step_NB; [exact (reachable_INV_ops _ _ _ _ _ Hwf1 Hok1 H1) | exact HI' | exact (proj2 (reachable_MNE_RWA _ _ _ _ _ Hwf1 Hfr1 H1)) | exact HP1 | exact HP'
                    | exact (reachable_SCN _ _ _ _ _ Hwf1 Hok1 H1) | exact (IH _ _ _ _ Hwf1 Hok1 H1) | exact Hs].
Qed.

(** * At rest *)
Definition rest_state (s : sys) (x : tid) (t : task) : Prop :=
  match t_state t with
  | Waiting _ => True
  | Prefilled w => exists p, find_proc (s_procs s) w = Some p /\ bl_count x (p_backlog p) = 1%nat
  | _ => False
  end.

Theorem at_rest_states s : INV s -> PW s -> RWA (s_core s) -> MNE (s_core s) -> PROTO s -> NB s -> at_rest s ->
  forall x t, find_task (c_tasks (s_core s)) x = Some t -> rest_state s x t.
Proof.
  intros HI HPW HR HM HP HN Hrest x t Hf. pose proof (at_rest_states_PROTO s HI HPW HR HM HP Hrest x t Hf) as H.
  assert (Hbad : forall w p, find_proc (s_procs s) w = Some p -> bl_count x (p_backlog p) = O ->
            match view_of (t_state t) w (job_running (s_hq s) x) with VR _ | VM _ => False | _ => True end).
  { intros w p Hp Hb. destruct Hrest as [_ Hq]. destruct (quiet_word p x (Hq p (proj1 (NoPanicL0.find_proc_some _ _ _ Hp)))) as (EU & ED & EL).
    rewrite Hb in EL. pose proof (HN w p x t Hp Hf) as Hg. pose proof (pr_words _ HP w p x t Hp Hf) as Hl. rewrite EU, EL in Hg, Hl. rewrite ED in Hl.
    destruct (view_of (t_state t) w (job_running (s_hq s) x)) as [|vrv| | |vrv|[|]]; try exact I; cbn in Hg, Hl; discriminate. }
  unfold rest_state. destruct (t_state t) as [n|w1 rv1|w1|w1|w1 rv1|[|w0 ws]|] eqn:Est; try exact H; try contradiction.
  - destruct H as (p & Hp & Hb). specialize (Hbad w1 p Hp Hb). cbn [view_of] in Hbad. rewrite N.eqb_refl in Hbad. exact Hbad.
  - destruct H as (p & Hp & Hb). specialize (Hbad w0 p Hp Hb). cbn [view_of] in Hbad. rewrite N.eqb_refl in Hbad. exact Hbad.
Qed.

(** the honest form: every task the core knows is waiting, or prefilled on a worker whose backlog
    still holds it *)
Theorem at_rest_waiting_or_backlog ops reserve maxfill s outs :
  Forall op_wf ops -> ops_ok (init_sys reserve maxfill) ops = true -> run (init_sys reserve maxfill) ops = Ok (s, outs) ->
  at_rest s -> forall x t, find_task (c_tasks (s_core s)) x = Some t -> rest_state s x t.
Proof.
  intros Hwf Hok H. destruct (reachable_PROTO _ _ _ _ _ Hwf Hok H) as [HP Hfr]. destruct (reachable_MNE_RWA _ _ _ _ _ Hwf Hfr H) as [HM HR].
  exact (at_rest_states s (reachable_INV_ops _ _ _ _ _ Hwf Hok H) (reachable_PW _ _ _ _ _ H) HR HM HP (reachable_NB _ _ _ _ _ Hwf Hok H)).
Qed.

(** empty backlogs: all waiting *)
Theorem at_rest_all_waiting ops reserve maxfill s outs :
  Forall op_wf ops -> ops_ok (init_sys reserve maxfill) ops = true -> run (init_sys reserve maxfill) ops = Ok (s, outs) ->
  at_rest s -> (forall p, In p (s_procs s) -> p_backlog p = []) ->
  forall t, In t (c_tasks (s_core s)) -> exists n, t_state t = Waiting n.
Proof.
  intros Hwf Hok H Hrest Hbl t Hin.
  pose proof (reachable_INV_ops _ _ _ _ _ Hwf Hok H) as HI. pose proof (cb_s _ (inv_cb _ HI)) as Hcs. change (core_of (s, [])) with (s_core s) in Hcs.
  pose proof (in_find_task _ _ (CS_sorted _ Hcs) Hin) as Hf.
  pose proof (at_rest_waiting_or_backlog _ _ _ _ _ Hwf Hok H Hrest _ _ Hf) as X. unfold rest_state in X.
  destruct (t_state t) as [n|w1 rv1|w1|w1|w1 rv1|ws|]; try contradiction; [eauto|].
  destruct X as (p & Hp & Hb). rewrite (Hbl p (proj1 (NoPanicL0.find_proc_some _ _ _ Hp))) in Hb. discriminate.
Qed.
