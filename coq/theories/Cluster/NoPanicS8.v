(** C09 for the scheduling step, part 8: the theorem for reachable states, witnesses that the
    contract [sol_ok] is satisfiable in non-trivial reachable states, and witnesses that each of its
    conjuncts is needed (a reachable state + an answer violating only that conjunct = a panic). *)
From HQ Require Import Base.Prelude Cluster.Types Cluster.Core Cluster.Reactor Cluster.Worker Cluster.Server Cluster.Sys Cluster.RejHyp Cluster.BijFinal Cluster.InvQBase Cluster.InvQTake Cluster.InvProcsDef Cluster.InvBundle Cluster.NoPanicS1 Cluster.NoPanicS3 Cluster.NoPanicS4 Cluster.NoPanicS7.
From Coq Require Import ZArith Lia.
Local Open Scope N_scope.

Arguments N.add : simpl never.

(** * Every reachable state *)
Corollary scheduling_never_panics_reachable ops reserve maxfill s outs sol :
  Forall op_wf ops -> run_fresh (init_sys reserve maxfill) ops = true -> run (init_sys reserve maxfill) ops = Ok (s, outs) ->
  PW s -> sol_ok (s_core s) sol = true -> is_panic (step s (OpSched sol)) = false.
Proof.
  intros Hwf Hf H HP Hok. apply scheduling_never_panics; [eapply reachable_INV; eassumption | exact HP | exact Hok].
Qed.

(** * Reading of the [take_ones] conjunct: with well-formed non-empty entries it says
    "at most as many worker sets as ready tasks in the class's queue". *)
Lemma q_take_one_some q : WFQ q -> q_ready q <> [] -> Forall (fun e => qe_ids e <> []) (q_ready q) ->
  exists x q', q_take_one q = Some (x, q') /\ esize (q_ready q') + 1 = esize (q_ready q) /\ Forall (fun e => qe_ids e <> []) (q_ready q').
Proof.
  intros [W _] Hne F. unfold q_take_one. destruct (q_ready q) as [|e t]; [congruence|]. inversion F as [|? ? He Ft]; subst.
  destruct (WFE_inv _ _ W) as ((_ & Hone) & _).
  destruct (qe_ids e) as [|x rest] eqn:Ei; [congruence|].
  assert (E1 : esize (e :: t) = 1 + nlen rest + esize t) by (cbn [esize]; rewrite Ei, nlen_cons; lia).
  destruct (qe_more e) eqn:Em.
  - destruct rest as [|r0 rr].
    + eexists _, _. split; [reflexivity|]. cbn [q_ready]. split; [rewrite E1, nlen_nil; lia | exact Ft].
    + eexists _, _. split; [reflexivity|]. cbn [q_ready]. split; [rewrite E1; cbn [esize qe_ids]; lia | constructor; [cbn; discriminate | exact Ft]].
  - destruct (Hone eq_refl) as (y & Ey). inversion Ey; subst.
    eexists _, _. split; [reflexivity|]. cbn [q_ready]. split; [rewrite E1, nlen_nil; lia | exact Ft].
Qed.

Lemma take_ones_esize n : forall q, WFQ q -> Forall (fun e => qe_ids e <> []) (q_ready q) ->
  N.of_nat n <= esize (q_ready q) -> take_ones n q = true.
Proof.
  induction n as [|k IH]; intros q W F Hle; cbn [take_ones]; [reflexivity|].
  assert (Hne : q_ready q <> []) by (intros E; rewrite E in Hle; cbn in Hle; lia).
  destruct (q_take_one_some q W Hne F) as (x & q' & E & Hs & F'). rewrite E.
  apply IH; [exact (tk_wf _ _ _ (q_take_one_spec _ _ _ W E)) | exact F' | lia].
Qed.

(** * The contract is satisfiable in non-trivial reachable states *)
(** three workers, six single-node tasks (request 0), one two-node task (request 1) *)
Definition sch_ops1 : list op :=
  [OpConnect [4;0;0] 0; OpConnect [4;0;0] 0; OpConnect [4;0;0] 0;
   OpSubmit None [] (Some 6) (mkRq 0 [1;0;0]) 0%Z CUnl false None;
   OpSubmit None [] None (mkRq 2 [0;0;0]) 0%Z CUnl false None].
(** two tasks for worker 1, the two-node task on workers 2 and 3 (proactive filling then prefills two
    more tasks to worker 1) *)
Definition sch_sol1 : solution := mkSol [(0, 0, [(1, 2)])] [(1, 0, [[2; 3]])] [1;2;3] [].
(** ... then a fourth worker connects *)
Definition sch_ops2 : list op := sch_ops1 ++ [OpSched sch_sol1; OpConnect [4;0;0] 0].
(** three tasks for worker 4: two ready ones and one of the tasks prefilled to worker 1 (which is retracted) *)
Definition sch_sol2 : solution := mkSol [(0, 0, [(4, 3)])] [] [1;2;3;4] [(0, [(1,2);(1,3)])].
(** ... or a task of higher priority arrives (the prefilled tasks go back to the queue, under
    retraction) and two more workers connect *)
Definition sch_ops3 : list op :=
  sch_ops1 ++ [OpSched sch_sol1; OpSubmit None [] None (mkRq 0 [1;0;0]) 5%Z CUnl false None; OpConnect [4;0;0] 0; OpConnect [4;0;0] 0].
Definition sch_sol3 : solution := mkSol [(0, 0, [(4, 2); (5, 3)])] [] [1;2;3;4;5] [].

Definition sched_try (ops : list op) (sol : solution) : option (bool * res unit) :=
  match run (init_sys 0 2) ops with
  | Ok (s, _) => Some (sol_ok (s_core s) sol, match step s (OpSched sol) with Ok _ => Ok tt | Disabled => Disabled | Panic n => Panic n end)
  | _ => None
  end.

Lemma sch_ops_wf : Forall op_wf sch_ops1 /\ Forall op_wf sch_ops2 /\ Forall op_wf sch_ops3.
Proof. repeat split; repeat constructor. Qed.

Example sol_ok_satisfiable :
  run_fresh (init_sys 0 2) sch_ops1 = true /\ sched_try sch_ops1 sch_sol1 = Some (true, Ok tt) /\
  run_fresh (init_sys 0 2) sch_ops2 = true /\ sched_try sch_ops2 sch_sol2 = Some (true, Ok tt) /\
  run_fresh (init_sys 0 2) sch_ops3 = true /\ sched_try sch_ops3 sch_sol3 = Some (true, Ok tt).
Proof. repeat split; vm_compute; reflexivity. Qed.

(** the state the second round starts from: assigned, prefilled, ready and multi-node tasks *)
Example sch_state2 : exists s outs, run (init_sys 0 2) sch_ops2 = Ok (s, outs) /\
  map (fun t => (t_id t, t_state t)) (c_tasks (s_core s)) =
    [((1, 0), Assigned 1 0); ((1, 1), Assigned 1 0); ((1, 2), Prefilled 1); ((1, 3), Prefilled 1);
     ((1, 4), Waiting 0); ((1, 5), Waiting 0); ((2, 0), RunningMN [2; 3])].
Proof. eexists. eexists. split; vm_compute; reflexivity. Qed.

(** * Each conjunct is needed: reachable states (all hypotheses of [reachable_INV] hold), answers
    rejected by [sol_ok], and the panic site they reach *)
Example sol_ok_needed :
  (* more tasks than the queue holds: [take_tasks] unwraps an empty queue *)
  sched_try sch_ops1 (mkSol [(0, 0, [(1, 7)])] [] [1;2;3] []) = Some (false, Panic 135) /\
  (* a single-node task for a worker reserved for a multi-node task *)
  sched_try sch_ops2 (mkSol [(0, 0, [(2, 1)])] [] [1;2;3;4] [(0, [(1,2);(1,3)])]) = Some (false, Panic 102) /\
  (* a multi-node set naming a worker that holds tasks *)
  sched_try sch_ops2 (mkSol [] [(0, 0, [[1]])] [1;2;3;4] []) = Some (false, Panic 112) /\
  (* more worker sets than ready tasks *)
  sched_try sch_ops2 (mkSol [] [(1, 0, [[4]])] [1;2;3;4] []) = Some (false, Panic 182) /\
  (* an empty worker set *)
  sched_try sch_ops2 (mkSol [] [(0, 0, [[]])] [1;2;3;4] []) = Some (false, Panic 166) /\
  (* a multi-node placement for a queue holding tasks under retraction *)
  sched_try sch_ops3 (mkSol [] [(0, 0, [[4]; [5]])] [1;2;3;4;5] []) = Some (false, Panic 183).
Proof. repeat split; vm_compute; reflexivity. Qed.
