(** Bridge between the cluster system model ([HQ.Cluster.Sys]) and the journal model
    ([HQ.Journal]): the journal a history of the system model writes.

    The [OEv e] outputs of [Sys.step] ARE the records the real server appends to its journal
    ([EventStreamer] -> [JournalWriter]).  [EvSubmit] carries only a task count, so the translation
    works per step, from the pair (operation, outputs): the task specs of a submit record (ids -
    explicit or auto-assigned -, dependencies, crash limit) are recomputed from the operation and
    the state BEFORE the step, exactly as [Server.handle_submit_array] / [handle_submit_graph] do.

    Definitions only (all executable); the theorems are in [BridgeInv*.v] / [BridgeCor.v].
    The journal modules are required but NOT imported (they redefine [map], [tstate], [CNever]..). *)
From HQ Require Import Base.Prelude Cluster.Types Cluster.Core Cluster.Reactor Cluster.Worker Cluster.Server Cluster.Sys.
From HQ Require Journal.Event Journal.Restore Journal.Gen.
From Coq Require Import ZArith.
Local Open Scope N_scope.

(** [CrashLimit] as the submit record stores it. *)
Definition jcrash (c : crashlimit) : Event.crash :=
  match c with CNever => Event.CNever | CMax n => Event.CMax n | CUnl => Event.CUnlimited end.

(** [LostWorkerReason] by its index in the trace vocabulary (harness [reason_idx], journal driver
    [reason_of_int]): 0 Stopped, 1 ConnectionLost, 2 HeartbeatLost, 3 IdleTimeout, 4 TimeLimitReached. *)
Definition jreason (r : N) : Event.reason :=
  match r with
  | 0 => Event.RStopped | 1 => Event.RConnLost | 2 => Event.RHbLost | 3 => Event.RIdle | _ => Event.RTimeLimit
  end.

(** The task ids an array submit creates ([Server.handle_submit_array], [ids']). *)
Definition array_ids (s : sys) (job : option N) (ids : list N) (entries : option N) : list N :=
  match ids with
  | _ :: _ => ids
  | [] =>
      let start := match job with
                   | Some j => match find_job (h_jobs (s_hq s)) j with
                               | Some jb => match max_task_id (j_tasks jb) with Some m => m + 1 | None => 0 end
                               | None => 0
                               end
                   | None => 0
                   end in
      match entries with Some n => range_from start (N.to_nat n) | None => [start] end
  end.

Definition spec_of_gtask (g : gtask) : Event.TaskSpec := Event.mkTS (gt_id g) (jcrash (gt_cl g)) (gt_deps g).

(** The content of the submit record a step writes (if it writes one). *)
Definition submit_specs (s : sys) (o : op) : list Event.TaskSpec :=
  match o with
  | OpSubmit job ids entries _ _ cl _ _ => map (fun i => Event.mkTS i (jcrash cl) []) (array_ids s job ids entries)
  | OpSubmitG _ _ ts _ => map spec_of_gtask ts
  | _ => []
  end.

(** One journal record per event. *)
Definition jev (specs : list Event.TaskSpec) (e : event) : Event.Event :=
  match e with
  | EvWConn w => Event.EWorkerConnected w None
  | EvWLost w r => Event.EWorkerLost w (jreason r)
  | EvSubmit j closed _ => Event.ESubmit j closed specs
  | EvCompleted j => Event.EJobCompleted j
  | EvOpen j => Event.EJobOpen j
  | EvClose j => Event.EJobClose j
  | EvJobCancel j => Event.EJobCancel j
  | EvStarted t inst ws _ => Event.ETaskStarted (fst t) (snd t) inst ws
  | EvFinished t => Event.ETaskFinished (fst t) (snd t)
  | EvFailed t _ => Event.ETaskFailed (fst t) (snd t)
  | EvCanceled ts => Event.ETasksCanceled ts
  | EvAborted ts => Event.ETasksAborted ts
  end.

Definition jout (specs : list Event.TaskSpec) (o : out) : list Event.Event :=
  match o with OEv e => [jev specs e] | _ => [] end.

Definition jevents_of_outs (specs : list Event.TaskSpec) (outs : list out) : list Event.Event :=
  flat_map (jout specs) outs.

(** The journal records of one step: state before the step, operation, outputs of the step. *)
Definition jevents_of_step (s : sys) (o : op) (outs : list out) : list Event.Event :=
  jevents_of_outs (submit_specs s o) outs.

(** [Sys.run] with the journal instead of the outputs. *)
Fixpoint jrun (s : sys) (ops : list op) : res (sys * list Event.Event) :=
  match ops with
  | [] => Ok (s, [])
  | o :: r =>
      do (s1, o1) <- step s o;
      do (s2, e2) <- jrun s1 r;
      Ok (s2, jevents_of_step s o o1 ++ e2)
  end.

(** The journal file of a history: it starts with the [ServerStart uid] record. *)
Definition journal_of (u : N) (evs : list Event.Event) : list Event.Event := Event.EServerStart u :: evs.

(** * Executable monitors *)

(** "This journal is one the server can write" ([Gen.producible], decided). *)
Definition journal_producible_ok (evs : list Event.Event) : bool :=
  match Gen.grun Gen.g0 evs with Some _ => true | None => false end.

(** Index (0-based, in the journal including the ServerStart record) of the first record the journal
    machine rejects, for the monitor's message. *)
Fixpoint first_rejected (g : Gen.G) (evs : list Event.Event) (i : N) : option N :=
  match evs with
  | [] => None
  | e :: r => match Gen.gstep g e with Some g' => first_rejected g' r (i + 1) | None => Some i end
  end.

(** The same on a history of the system model (None = the history panics / is disabled). *)
Definition sys_journal_ok (u : N) (s : sys) (ops : list op) : option bool :=
  match jrun s ops with
  | Ok (_, evs) => Some (journal_producible_ok (journal_of u evs))
  | _ => None
  end.

(** The restored state of a history's journal. *)
Definition sys_restore (u : N) (s : sys) (ops : list op) : res Restore.Restored :=
  match jrun s ops with
  | Ok (_, evs) => Restore.restore (journal_of u evs)
  | Disabled => Disabled
  | Panic p => Panic p
  end.
