(** C02 wake-up discipline, per-operation analysis (part 3): [OpCancel].

    [on_cancel_tasks] asks for scheduling in every arm except the Prefilled one (witness W3 of
    WakeWitness.v).  So a cancel leaves the flag SET as soon as one task it finds in the core is
    not Prefilled; the only cancels that can leave the flag off are the QUIET ones
    ([cancel_quiet]: every live task of the job that the core knows is Prefilled - or none is
    known).  The check of [OpCancel] is needed for quiet cancels only. *)
From HQ Require Import Base.Prelude Cluster.Types Cluster.Core Cluster.Reactor Cluster.Worker Cluster.Server Cluster.Sys Cluster.RejHyp Cluster.BijSt Cluster.BijFinal Cluster.InvQStep Cluster.InvBundle Cluster.NoPanicU0 Cluster.NoFresh Cluster.StartFin2 Cluster.RestU1 Cluster.Wake Cluster.WakeStep Cluster.WakeRest Cluster.WakeSubmit.
From Coq Require Import ZArith Lia.
Local Open Scope N_scope.

Definition is_prefilled_or_absent (c : core) (id : tid) : bool :=
  match find_task (c_tasks c) id with
  | Some t => match t_state t with Prefilled _ => true | _ => false end
  | None => true
  end.

(** * the flag is never cleared on the way *)
Lemma remove_task_flag c id c' st : remove_task c id = Ok (c', st) -> c_flag c' = c_flag c.
Proof.
  unfold remove_task. destruct (find_task (c_tasks c) id) as [t|]; [|discriminate].
  destruct (t_state t) as [n| | | | | |]; intros H; try (inversion H; reflexivity).
  apply bind_ok in H. destruct H as (c2 & H2 & H).
  assert (F2 : c_flag c2 = c_flag c).
  { destruct (N.eqb n 0); [|inversion H2; reflexivity].
    apply bind_ok in H2. destruct H2 as (q & _ & H2). apply bind_ok in H2. destruct H2 as (q' & _ & H2). inversion H2; reflexivity. }
  destruct (N.ltb 0 n).
  - apply bind_ok in H. destruct H as (ts & _ & H). inversion H; subst. exact F2.
  - inversion H; subst. exact F2.
Qed.

Lemma remove_tasks_batched_flag ids : forall c c', remove_tasks_batched c ids = Ok c' -> c_flag c' = c_flag c.
Proof.
  induction ids as [|id r IH]; cbn [remove_tasks_batched]; intros c c' H; [inversion H; reflexivity|].
  apply bind_ok in H. destruct H as ([c1 st] & H1 & H). rewrite (IH _ _ H). exact (remove_task_flag _ _ _ _ H1).
Qed.

Lemma try_remove_redirection_frame c t c' : try_remove_redirection c t = Ok c' -> c_tasks c' = c_tasks c /\ c_flag c' = c_flag c.
Proof.
  unfold try_remove_redirection. destruct (find_redirect (c_redirects c) (t_id t)) as [[w rv]|]; intros H.
  - apply bind_ok in H. destruct H as (wk & _ & H). apply bind_ok in H. destruct H as (rq & _ & H). apply bind_ok in H. destruct H as (wk' & _ & H).
    inversion H. split; reflexivity.
  - apply bind_ok in H. destruct H as (q & _ & H). apply bind_ok in H. destruct H as (q' & _ & H). inversion H. split; reflexivity.
Qed.

Lemma reset_mn_all_frame l : forall c c', reset_mn_all c l = Ok c' -> c_tasks c' = c_tasks c /\ c_flag c' = c_flag c.
Proof.
  induction l as [|w r IH]; cbn [reset_mn_all]; intros c c' H; [inversion H; split; reflexivity|].
  apply bind_ok in H. destruct H as (wk & _ & H). destruct (IH _ _ H) as [A B]. rewrite A, B. split; reflexivity.
Qed.

Lemma is_pa_tasks c c' id : c_tasks c' = c_tasks c -> is_prefilled_or_absent c' id = is_prefilled_or_absent c id.
Proof. unfold is_prefilled_or_absent. intros ->. reflexivity. Qed.

Lemma existsb_pa_tasks c c' ids : c_tasks c' = c_tasks c ->
  existsb (fun id => negb (is_prefilled_or_absent c' id)) ids = existsb (fun id => negb (is_prefilled_or_absent c id)) ids.
Proof. intros E. induction ids as [|h t IH]; cbn [existsb]; [reflexivity|]. rewrite IH, (is_pa_tasks _ _ _ E). reflexivity. Qed.

Lemma cancel_release_flag ids : forall s u r s1 u1 r1,
  cancel_release s ids u r = Ok (s1, u1, r1) ->
  c_tasks (core_of s1) = c_tasks (core_of s) /\
  (c_flag (core_of s) = true -> c_flag (core_of s1) = true) /\
  (existsb (fun id => negb (is_prefilled_or_absent (core_of s) id)) ids = true -> c_flag (core_of s1) = true).
Proof.
  induction ids as [|id r IH]; cbn [cancel_release existsb]; intros s u rn s1 u1 r1 H.
  - inversion H; subst. split; [reflexivity|]. split; [auto | discriminate].
  - unfold is_prefilled_or_absent at 1.
    destruct (find_task (c_tasks (core_of s)) id) as [t|] eqn:Ef.
    2:{ cbn [negb orb]. exact (IH _ _ _ _ _ _ H). }
    apply bind_ok in H. destruct H as (csm & _ & H). apply bind_ok in H. destruct H as (rq & _ & H).
    (* a continuation whose flag is set and whose tasks are those of [s] *)
    assert (SET : forall sn rn', c_tasks (core_of sn) = c_tasks (core_of s) -> c_flag (core_of sn) = true ->
              cancel_release sn r (tid_insert_all csm (tid_insert id u)) rn' = Ok (s1, u1, r1) ->
              c_tasks (core_of s1) = c_tasks (core_of s) /\ (c_flag (core_of s) = true -> c_flag (core_of s1) = true) /\
              (negb match t_state t with Prefilled _ => true | _ => false end
               || existsb (fun id0 => negb (is_prefilled_or_absent (core_of s) id0)) r = true -> c_flag (core_of s1) = true)).
    { intros sn rn' Et Fl Hn. destruct (IH _ _ _ _ _ _ Hn) as (A & B & _). split; [congruence|]. split; intros _; exact (B Fl). }
    destruct (t_state t) as [n|w rv|w|w|w rv|ws|] eqn:Est.
    + eapply SET; [| |exact H]; reflexivity.
    + apply bind_ok in H. destruct H as (wk & _ & H). apply bind_ok in H. destruct H as (wk' & _ & H). eapply SET; [| |exact H]; reflexivity.
    + (* prefilled *)
      apply bind_ok in H. destruct H as (q & _ & H). apply bind_ok in H. destruct H as (q' & _ & H).
      apply bind_ok in H. destruct H as (wk & _ & H). apply bind_ok in H. destruct H as (wk' & _ & H).
      destruct (IH _ _ _ _ _ _ H) as (A & B & C). cbn [negb orb].
      split; [exact A|]. split; [exact B|]. intros Hx. apply C. rewrite <- Hx. apply existsb_pa_tasks. reflexivity.
    + apply bind_ok in H. destruct H as (c' & Hc & H). destruct (try_remove_redirection_frame _ _ _ Hc) as [T F].
      eapply SET; [| |exact H]; [exact T | reflexivity].
    + apply bind_ok in H. destruct H as (wk & _ & H). apply bind_ok in H. destruct H as (wk' & _ & H). eapply SET; [| |exact H]; reflexivity.
    + apply bind_ok in H. destruct H as (c' & Hc & H). destruct (reset_mn_all_frame _ _ _ Hc) as [T F].
      destruct ws as [|w0 wr]; [discriminate|]. eapply SET; [| |exact H]; [exact T | reflexivity].
    + discriminate.
Qed.

Lemma on_cancel_tasks_flag s ids s' : on_cancel_tasks s ids = Ok s' ->
  existsb (fun id => negb (is_prefilled_or_absent (core_of s) id)) ids = true -> c_flag (core_of s') = true.
Proof.
  unfold on_cancel_tasks. intros H Hex.
  apply bind_ok in H. destruct H as ([[s1 to_unreg] running] & H1 & H). apply bind_ok in H. destruct H as (c' & Hc & H).
  rewrite (send_all_core _ _ _ H). cbn [core_of st_core with_core s_core fst].
  rewrite (remove_tasks_batched_flag _ _ _ Hc). exact (proj2 (proj2 (cancel_release_flag _ _ _ _ _ _ _ H1)) Hex).
Qed.

Lemma set_cancel_state_core s jid ids s' : set_cancel_state s jid ids = Ok s' -> core_of s' = core_of s.
Proof.
  unfold set_cancel_state. destruct ids as [|i0 ir]; intros H; [inversion H; reflexivity|].
  apply bind_ok in H. destruct H as (j & _ & H). apply bind_ok in H. destruct H as (j1 & _ & H).
  rewrite (check_termination_core _ _ _ H). reflexivity.
Qed.

(** A cancel is QUIET if every live task of the job that the core knows is Prefilled. *)
Definition cancel_quiet (s : sys) (j : N) : bool :=
  match find_job (h_jobs (s_hq s)) j with
  | None => true
  | Some jb => forallb (is_prefilled_or_absent (s_core s)) (non_finished_task_ids jb)
  end.

Lemma forallb_false_existsb {A} (f : A -> bool) l : forallb f l = false -> existsb (fun x => negb (f x)) l = true.
Proof.
  induction l as [|h t IH]; cbn [forallb existsb]; intros H; [discriminate|].
  destruct (f h); cbn [negb andb orb] in *; [exact (IH H) | reflexivity].
Qed.

Lemma step_cancel_flag s j s' outs : step s (OpCancel j) = Ok (s', outs) -> cancel_quiet s j = false -> c_flag (s_core s') = true.
Proof.
  cbn [step]. unfold handle_cancel, cancel_quiet, hq_jobs. cbn [fst]. intros H Hq.
  destruct (find_job (h_jobs (s_hq s)) j) as [jb|]; [|discriminate].
  apply forallb_false_existsb in Hq.
  destruct (non_finished_task_ids jb) as [|i0 ir] eqn:En; [discriminate|]. rewrite <- En in *. clear En.
  apply bind_ok in H. destruct H as (s1 & H1 & H). apply bind_ok in H. destruct H as (al & _ & H). apply bind_ok in H. destruct H as (s2 & H2 & H).
  inversion H; subst. change (c_flag (core_of (emit s2 (OResp (RCancelOk (map snd (non_finished_task_ids jb)) al)))) = true).
  change (core_of (emit s2 (OResp (RCancelOk (map snd (non_finished_task_ids jb)) al)))) with (core_of s2).
  rewrite (set_cancel_state_core _ _ _ _ H2). exact (on_cancel_tasks_flag _ _ _ H1 Hq).
Qed.

(** * Step and run theorems: checked are [OpDUp] and the QUIET cancels only *)
Definition op_wake_checked_q (s : sys) (o : op) : bool :=
  match o with
  | OpCancel j => negb (cancel_quiet s j) || op_wake_checked_cd s o
  | _ => op_wake_checked_cd s o
  end.
Fixpoint ops_wake_checked_q (s : sys) (ops : list op) : bool :=
  match ops with
  | [] => true
  | o :: r => op_wake_checked_q s o && match step s o with Ok (s1, _) => ops_wake_checked_q s1 r | _ => true end
  end.

Theorem wake_step_q s o s' outs : INV s ->
  wake_inv s = true -> step s o = Ok (s', outs) -> op_complete s o = true -> op_wake_checked_q s o = true -> wake_inv s' = true.
Proof.
  intros HI HW H Hc Hk.
  destruct o; try (eapply wake_step_cd; eassumption).
  cbn [op_wake_checked_q] in Hk. apply orb_true_iff in Hk. destruct Hk as [Hk|Hk]; [|eapply wake_step_cd; eassumption].
  apply wake_inv_flag. eapply step_cancel_flag; [exact H|]. apply negb_true_iff. exact Hk.
Qed.

Theorem wake_run_q : forall ops s s' outs, along INV s ops ->
  wake_inv s = true -> run s ops = Ok (s', outs) -> ops_complete s ops = true -> ops_wake_checked_q s ops = true -> wake_inv s' = true.
Proof.
  induction ops as [|o r IH]; cbn [run ops_complete ops_wake_checked_q along]; intros s s' outs [HI Hal] HW H Hc Hk.
  - inversion H; subst. exact HW.
  - apply bind_ok in H. destruct H as ([s1 o1] & H1 & H). apply bind_ok in H. destruct H as ([s2 o2] & H2 & H). inversion H; subst.
    rewrite H1 in Hc, Hk, Hal. apply andb_true_iff in Hc. destruct Hc as [Hc1 Hc2]. apply andb_true_iff in Hk. destruct Hk as [Hk1 Hk2].
    eapply IH; [exact Hal | | exact H2 | exact Hc2 | exact Hk2]. eapply wake_step_q; eassumption.
Qed.

Theorem wake_reachable_q r m ops s outs :
  Forall op_wf ops -> ops_ok (init_sys r m) ops = true -> ops_complete (init_sys r m) ops = true -> ops_wake_checked_q (init_sys r m) ops = true ->
  run (init_sys r m) ops = Ok (s, outs) -> wake_inv s = true.
Proof.
  intros Hwf Hok Hc Hk H.
  eapply wake_run_q; [| apply wake_inv_init | exact H | exact Hc | exact Hk].
  apply along_INV; [exact Hwf | eapply fresh_of_ops; eassumption].
Qed.

Theorem rest_no_runnable_work_q ops r m s outs :
  Forall op_wf ops -> ops_ok (init_sys r m) ops = true -> ops_complete (init_sys r m) ops = true -> ops_wake_checked_q (init_sys r m) ops = true ->
  run (init_sys r m) ops = Ok (s, outs) -> at_rest s ->
  forall j jb i, find_job (h_jobs (s_hq s)) j = Some jb -> (jt_find (j_tasks jb) i = Some JW \/ jt_find (j_tasks jb) i = Some JR) ->
  exists t, find_task (c_tasks (s_core s)) (j, i) = Some t /\ task_at_rest_ok s (j, i) t.
Proof.
  intros Hwf Hok Hc Hk H Hrest. eapply rest_no_runnable_work_inv; try eassumption. eapply wake_reachable_q; eassumption.
Qed.

(** the example history of WakeRest.v meets the smallest check too (its hypotheses are satisfiable) *)
Lemma ex_ops_checked_q : ops_wake_checked_q (init_sys 0 2) ex_ops = true.
Proof. vm_compute. reflexivity. Qed.

Print Assumptions wake_reachable_q.
Print Assumptions rest_no_runnable_work_q.
