(** C01, "start before finish" (strengthened): the relation [SQ] (StartFin2Base.v) through the job
    layer, the reactor and the client requests.  The worker loss and the step theorem are in
    StartFin2Step.v. *)
From HQ Require Import Base.Prelude Cluster.Types Cluster.Core Cluster.Reactor Cluster.Worker Cluster.Server Cluster.Sys Cluster.Monitors Cluster.ProofsJob Cluster.ProofsMore Cluster.ProofsTerminal Cluster.ProofsStep Cluster.ProofsFinal Cluster.BijBase Cluster.BijCore Cluster.BijHq Cluster.BijSt Cluster.BijReact Cluster.BijFinal Cluster.FrameGen Cluster.CrashFrame Cluster.InvWBase Cluster.ProofsOnce Cluster.StartFinBase Cluster.StartFinJob Cluster.StartFin2Base Cluster.StartFin2Core.
From Coq Require Import ZArith Lia Sorting.Sorted.
Local Open Scope N_scope.

Arguments N.add : simpl never.
Arguments N.sub : simpl never.

Notation NoN := (fun _ : tid => False).

(** * Job-layer primitives *)
Lemma SQ_check_termination s jid s' : check_termination s jid = Ok s' -> SQ s s'.
Proof.
  intros H. destruct (check_termination_jt _ _ _ H) as [C J].
  assert (Hn : nojr s s') by (intros t Ht; rewrite task_state_jt in Ht |- *; rewrite J in Ht; exact Ht).
  unfold check_termination in H. apply bind_ok in H. destruct H as (j & _ & H). apply bind_ok in H. destruct H as (na & _ & H).
  destruct na; [|inversion H; subst; apply SQ_refl]. destruct (j_open j); inversion H; subst; [apply SQ_refl|].
  eapply (SQ_ext _ _ [OEv (EvCompleted jid)]); [reflexivity | reflexivity | exact Hn | reflexivity].
Qed.

Lemma SQ_started s t i ws rv w s' :
  process_task_started s t i ws rv = Ok s' -> hd_error ws = Some w -> core_root (core_of s) t w -> SQ s s'.
Proof.
  intros H Hh Hr. unfold process_task_started in H. apply bind_ok in H. destruct H as (j & Hj & H).
  destruct (jt_find (j_tasks j) (snd t)) as [v|] eqn:Ef; [|discriminate]. inversion H; subst. clear H.
  eapply (SQ_emit1 _ _ (OEv (EvStarted t i ws rv))); [reflexivity | reflexivity | intros x Ex; discriminate |].
  intros x Hx. destruct (tid_eqb x t) eqn:Ext; [right; apply tid_eqb_true in Ext; subst x; exists i, ws, rv, w; auto|]. left.
  split; [|unfold touches; cbn [kind_of]; rewrite tid_eqb_sym; exact Ext].
  change (task_state (emit ?a ?o) x) with (task_state a x) in Hx.
  destruct (hq_get_find' _ _ _ _ Hj) as [Hf Eid].
  destruct v.
  1: { rewrite (TS_set_one s 208 t j _ JR x Hj) in Hx by reflexivity. rewrite Ext in Hx. exact Hx. }
  all: rewrite TS_set, Eid in Hx; destruct (N.eqb (fst x) (fst t)) eqn:E; [|exact Hx];
    apply N.eqb_eq in E; rewrite (TS_find s (fst t) j x Hf E); exact Hx.
Qed.

Lemma touches_one o t x : kind_of o = KOther -> tids_of o = [t] -> tid_eqb x t = false -> touches o x = false.
Proof. intros Hk Ht Hx. unfold touches. rewrite Hk, Ht. cbn [tid_mem]. rewrite Hx. reflexivity. Qed.

Lemma SQ_finished s t s' : process_task_finished s t = Ok s' -> SQ s s'.
Proof.
  intros H. pose proof (finished_only_from_running _ _ _ H) as Hr.
  unfold process_task_finished in H. apply bind_ok in H. destruct H as (j & Hj & H).
  destruct (jt_find (j_tasks j) (snd t)) as [v|] eqn:Ef; [|discriminate]. destruct v; try discriminate.
  apply bind_ok in H. destruct H as (nr & _ & H).
  eapply SQ_trans; [|eapply SQ_check_termination; exact H].
  eapply (SQ_emit1 _ _ (OEv (EvFinished t))); [reflexivity | reflexivity | intros x Ex; inversion Ex; subst; exact Hr |].
  intros x Hx. left. change (task_state (emit ?a ?o) x) with (task_state a x) in Hx.
  rewrite (TS_set_one s 209 t j _ JF x Hj) in Hx by reflexivity.
  destruct (tid_eqb x t) eqn:Ext; [discriminate|]. split; [exact Hx|].
  apply (touches_one _ t); [reflexivity | reflexivity | exact Ext].
Qed.

(** [set_waiting_state]: the task is no longer Running, nobody becomes Running. *)
Lemma set_waiting_spec s t s' : set_waiting_state s t = Ok s' ->
  core_of s' = core_of s /\ snd s' = snd s /\ forall x, task_state s' x = Some JR -> task_state s x = Some JR /\ x <> t.
Proof.
  intros H. unfold set_waiting_state in H. apply bind_ok in H. destruct H as (j & Hj & H).
  destruct (hq_get_find' _ _ _ _ Hj) as [Hf Eid].
  destruct (jt_find (j_tasks j) (snd t)) as [v|] eqn:Ef; [|discriminate].
  assert (Hsame : s' = s -> v <> JR -> core_of s' = core_of s /\ snd s' = snd s /\ forall x, task_state s' x = Some JR -> task_state s x = Some JR /\ x <> t).
  { intros -> Hv. split; [reflexivity|]. split; [reflexivity|]. intros x Hx. split; [exact Hx|]. intros ->.
    rewrite (TS_find s (fst t) j t Hf eq_refl), Ef in Hx. inversion Hx. contradiction. }
  destruct v; try (apply Hsame; [inversion H; reflexivity | discriminate]).
  apply bind_ok in H. destruct H as (nr & _ & H). inversion H; subst. clear H.
  split; [reflexivity|]. split; [reflexivity|]. intros x Hx.
  rewrite (TS_set_one s 210 t j _ JW x Hj) in Hx by reflexivity.
  destruct (tid_eqb x t) eqn:E; [discriminate|]. split; [exact Hx|]. intros ->. rewrite ProofsMore.tid_eqb_refl in E. discriminate.
Qed.

Lemma set_waiting_all_spec ts : forall s s', set_waiting_all s ts = Ok s' ->
  core_of s' = core_of s /\ snd s' = snd s /\ forall x, task_state s' x = Some JR -> task_state s x = Some JR /\ ~ In x ts.
Proof.
  induction ts as [|t r IH]; cbn [set_waiting_all]; intros s s' H.
  - inversion H; subst. split; [reflexivity|]. split; [reflexivity|]. intros x Hx. split; [exact Hx | intros []].
  - apply bind_ok in H. destruct H as (s0 & H0 & H).
    destruct (set_waiting_spec _ _ _ H0) as (C0 & S0 & J0). destruct (IH _ _ H) as (C1 & S1 & J1).
    split; [congruence|]. split; [congruence|]. intros x Hx. destruct (J1 x Hx) as [Hx0 Hn]. destruct (J0 x Hx0) as [Hxs Hne].
    split; [exact Hxs|]. intros [E|Hin]; [exact (Hne (eq_sym E)) | exact (Hn Hin)].
Qed.

(** The common shape of [abort_tasks] and [set_cancel_state]. *)
Lemma SQ_mark s jid j j1 j2 ids target site o :
  hq_get_job s jid 207 = Ok j -> mark_tasks j ids target site = Ok j1 ->
  j_id j2 = j_id j1 -> j_tasks j2 = j_tasks j1 -> target <> JR ->
  kind_of o = KOther -> tids_of o = ids -> (forall t, o <> OEv (EvFinished t)) ->
  SQ s (emit (hq_set_job s j2) o).
Proof.
  intros Hj Hm Hid Ht Htg Hk Ho Hnf.
  destruct (hq_get_find' _ _ _ _ Hj) as [Hf Eid].
  destruct (mark_tasks_find _ _ _ _ _ Hm) as (M1 & M2 & M3). rewrite Eid in M2.
  eapply (SQ_emit1 _ _ o); [reflexivity | reflexivity | intros x Ex; exfalso; exact (Hnf x Ex) |].
  intros x Hx. left. change (task_state (emit ?a ?e) x) with (task_state a x) in Hx.
  rewrite TS_set, Hid, M1, Eid, Ht, M3 in Hx.
  assert (Hgoal : task_state s x = Some JR /\ ~ In x ids).
  { destruct (N.eqb (fst x) jid) eqn:E.
    - apply N.eqb_eq in E. destruct (snd_mem (snd x) ids) eqn:Em; [inversion Hx; subst; contradiction|].
      split; [rewrite (TS_find s jid j x Hf E); exact Hx|].
      intros Hin. assert (Hxx : x = (jid, snd x)) by (destruct x; cbn in *; subst; reflexivity).
      rewrite Hxx in Hin. apply (snd_mem_in (snd x) ids jid M2) in Hin. congruence.
    - split; [exact Hx|]. intros Hin. apply M2 in Hin. rewrite Hin, N.eqb_refl in E. discriminate. }
  destruct Hgoal as [G1 G2]. split; [exact G1|]. unfold touches. rewrite Hk, Ho.
  destruct (tid_mem x ids) eqn:Em; [|reflexivity]. apply sf_tid_mem_In in Em. contradiction.
Qed.

Lemma SQ_abort s jid ids s' : abort_tasks s jid ids = Ok s' -> SQ s s'.
Proof.
  intros H. unfold abort_tasks in H.
  destruct ids as [|i0 ir] eqn:Eids; [inversion H; subst; apply SQ_refl|]. rewrite <- Eids in *.
  apply bind_ok in H. destruct H as (j & Hj & H). apply bind_ok in H. destruct H as (j1 & Hm & H).
  eapply SQ_trans; [|eapply SQ_check_termination; exact H].
  eapply (SQ_mark s jid j j1 _ ids JA 206); [exact Hj | exact Hm | reflexivity | reflexivity | discriminate | reflexivity | reflexivity | discriminate].
Qed.

Lemma SQ_set_cancel s jid ids s' : set_cancel_state s jid ids = Ok s' -> SQ s s'.
Proof.
  intros H. unfold set_cancel_state in H.
  destruct ids as [|i0 ir] eqn:Eids; [inversion H; subst; apply SQ_refl|]. rewrite <- Eids in *.
  apply bind_ok in H. destruct H as (j & Hj & H). apply bind_ok in H. destruct H as (j1 & Hm & H).
  eapply SQ_trans; [|eapply SQ_check_termination; exact H].
  eapply SQ_trans; [apply (SQ_emit_silent s (OEv (EvJobCancel jid))); reflexivity|].
  match goal with |- SQ _ (emit (emit (hq_set_job s ?j2) ?e1) ?e2) =>
    change (SQ (emit s e1) (emit (hq_set_job (emit s e1) j2) e2));
    eapply (SQ_mark (emit s e1) jid j j1 j2 ids JC 205) end;
    [exact Hj | exact Hm | reflexivity | reflexivity | discriminate | reflexivity | reflexivity | discriminate].
Qed.

Lemma SQ_process_task_failed s t aborted k s' ids : process_task_failed s t aborted k = Ok (s', ids) -> SQ s s'.
Proof.
  intros Hc. unfold process_task_failed in Hc.
  apply bind_ok in Hc. destruct Hc as (s1 & H1 & Hc).
  apply bind_ok in Hc. destruct Hc as (j & Hj & Hc).
  apply bind_ok in Hc. destruct Hc as (j1 & Hj1 & Hc).
  apply bind_ok in Hc. destruct Hc as (s2 & H2 & Hc).
  assert (SB : SQ s1 (emit (hq_set_job s1 j1) (OEv (EvFailed t k)))).
  { destruct (jt_find (j_tasks j) (snd t)) as [v|] eqn:Ef; [|discriminate].
    assert (Hj1' : j_id j1 = j_id j /\ j_tasks j1 = jt_set (j_tasks j) (snd t) JX).
    { destruct v; try discriminate.
      - inversion Hj1; subst. split; reflexivity.
      - apply bind_ok in Hj1. destruct Hj1 as (nr & _ & Hj1). inversion Hj1; subst. split; reflexivity. }
    destruct Hj1' as [I1 T1].
    eapply (SQ_emit1 _ _ (OEv (EvFailed t k))); [reflexivity | reflexivity | intros x Ex; discriminate |].
    intros x Hx. left. change (task_state (emit ?a ?o) x) with (task_state a x) in Hx.
    rewrite (TS_set_one s1 207 t j j1 JX x Hj I1 T1) in Hx.
    destruct (tid_eqb x t) eqn:Ext; [discriminate|]. split; [exact Hx|].
    apply (touches_one _ t); [reflexivity | reflexivity | exact Ext]. }
  assert (S12 : SQ s s2).
  { eapply SQ_trans; [eapply SQ_abort; exact H1|]. eapply SQ_trans; [exact SB | eapply SQ_check_termination; exact H2]. }
  apply bind_ok in Hc. destruct Hc as (j2 & _ & Hc).
  destruct (j_maxfails j2) as [mf|]; [|inversion Hc; subst; exact S12].
  destruct (N.ltb mf (j_nfail j2)); [|inversion Hc; subst; exact S12].
  apply bind_ok in Hc. destruct Hc as (s3 & H3 & Hc). inversion Hc; subst.
  eapply SQ_trans; [exact S12 | eapply SQ_abort; exact H3].
Qed.

(** * Reactor *)
Lemma SQ_core_only s c1 : RKN NoN (core_of s) c1 -> SQ s (st_core s c1).
Proof. intros R. apply SQ_core0; [reflexivity | reflexivity | exact R]. Qed.

Lemma SQ_task_failed s w id k s' : task_failed s w id k = Ok s' -> SQ s s'.
Proof.
  intros H. unfold task_failed in H.
  destruct (find_task (c_tasks (core_of s)) id) as [t|] eqn:Ef; [|inversion H; subst; apply SQ_refl].
  apply bind_ok in H. destruct H as (rq & _ & H). apply bind_ok in H. destruct H as (c1 & H1 & H).
  assert (Et : c_tasks c1 = c_tasks (core_of s)).
  { destruct w as [wkr|].
    - destruct (rq_is_mn rq).
      + destruct (t_state t); try discriminate. destruct ws as [|w0 ws]; [discriminate|].
        destruct (N.eqb w0 wkr); [|discriminate]. eapply reset_mn_workers_tasks; exact H1.
      + destruct (t_state t); try (inversion H1; reflexivity).
        * destruct (negb (N.eqb wkr w)); [discriminate|]. inv_binds H1. inversion H1; reflexivity.
        * destruct (negb (N.eqb wkr w)); [discriminate|]. inv_binds H1. inversion H1; reflexivity.
        * destruct (negb (N.eqb wkr w)); [discriminate|]. eapply try_remove_redirection_tasks; exact H1.
        * destruct (negb (N.eqb wkr w)); [discriminate|]. inv_binds H1. inversion H1; reflexivity.
    - destruct (is_waiting t); inversion H1; reflexivity. }
  apply bind_ok in H. destruct H as (csm & _ & H).
  apply bind_ok in H. destruct H as (c2 & H2 & H).
  apply bind_ok in H. destruct H as ([c3 stt] & H3 & H).
  apply bind_ok in H. destruct H as (u & _ & H).
  apply bind_ok in H. destruct H as ([s1 cancel_ids] & H4 & H).
  assert (S1 : SQ s s1).
  { eapply (SQ_trans _ (st_core s c3)); [|eapply SQ_process_task_failed; exact H4].
    apply SQ_core_only. eapply RKN_trans; [apply RKN_eq; exact Et|].
    eapply RKN_trans; [eapply remove_waiting_consumers_RK; exact H2 | eapply remove_task_RK; exact H3]. }
  destruct cancel_ids; [inversion H; subst; exact S1|].
  eapply SQ_trans; [exact S1|].
  apply SQ_core0; [eapply on_cancel_tasks_hq; exact H | eapply on_cancel_tasks_snd; exact H | eapply on_cancel_tasks_RK; exact H].
Qed.

Lemma SQ_task_finished s w id s' b : task_finished s w id = Ok (s', b) -> SQ s s'.
Proof.
  intros H. unfold task_finished in H.
  destruct (find_task (c_tasks (core_of s)) id) as [t|] eqn:Ef; [|inversion H; subst; apply SQ_refl].
  destruct (find_task_some _ _ _ Ef) as [Hin _].
  apply bind_ok in H. destruct H as (rq & _ & H). apply bind_ok in H. destruct H as (c1 & H1 & H).
  assert (Et : c_tasks c1 = c_tasks (core_of s)).
  { destruct (t_state t); try discriminate.
    - destruct (negb (N.eqb w0 w)); [discriminate|]. inv_binds H1. inversion H1; reflexivity.
    - destruct (negb (N.eqb w0 w)); [discriminate|]. eapply try_remove_redirection_tasks; exact H1.
    - destruct (negb (N.eqb w0 w)); [discriminate|]. inv_binds H1. inversion H1; reflexivity.
    - destruct ws; [discriminate|]. destruct (N.eqb w0 w); [|discriminate]. eapply reset_mn_workers_tasks; exact H1. }
  cbv zeta in H.
  apply bind_ok in H. destruct H as (s1 & Hf & H).
  apply bind_ok in H. destruct H as ([c3 retracted] & Hw & H).
  apply bind_ok in H. destruct H as (s2 & Hr & H).
  apply bind_ok in H. destruct H as ([c4 stt] & Hrm & H).
  destruct stt; try discriminate. inversion H; subst.
  eapply (SQ_trans _ (st_core s (upd_task c1 (with_state t Finished)))).
  { apply SQ_core_only. eapply RKN_trans; [apply RKN_eq; exact Et|].
    eapply (RKN_upd NoN c1 _ t); [rewrite Et; exact Hin | reflexivity | intros w1 _; exact I]. }
  eapply SQ_trans; [eapply SQ_finished; exact Hf|].
  eapply (SQ_trans _ (st_core s1 c3)); [apply SQ_core_only; eapply wake_consumers_RK; exact Hw|].
  eapply SQ_trans; [apply SQ_core0; [exact (process_retracted_hq _ _ _ Hr) | exact (process_retracted_snd _ _ _ Hr) | exact (process_retracted_RK NoN _ _ _ Hr)]|].
  apply SQ_core_only. eapply remove_task_RK; exact Hrm.
Qed.

(** In a sorted task map a task is found by its id, and [set_task] leaves one task per id. *)
Lemma sf_set_task_in_same ts x t : StronglySorted tlt (map t_id ts) -> In t (set_task ts x) -> t_id t = t_id x -> t = x.
Proof.
  induction ts as [|h r IH]; cbn [set_task map]; intros Hs Hin Ei; [destruct Hin as [H|[]]; auto|].
  inversion Hs as [|? ? Hs' Hall]; subst. rewrite Forall_forall in Hall.
  destruct (tid_eqb (t_id x) (t_id h)) eqn:E.
  - apply tid_eqb_eq in E. destruct Hin as [H|H]; [auto|]. exfalso.
    specialize (Hall _ (in_map t_id _ _ H)). rewrite Ei, E in Hall. exact (tlt_irrefl _ Hall).
  - destruct (tid_ltb (t_id x) (t_id h)) eqn:L.
    + destruct Hin as [H|[H|H]]; [auto | |]; exfalso.
      * subst t. rewrite Ei in L. exact (tlt_irrefl _ L).
      * specialize (Hall _ (in_map t_id _ _ H)). rewrite Ei in Hall. exact (tlt_irrefl _ (tlt_trans _ _ _ L Hall)).
    + destruct Hin as [H|H]; [|apply IH; assumption]. exfalso. subst t. rewrite Ei, ProofsMore.tid_eqb_refl in E. discriminate.
Qed.

Lemma core_root_upd c c1 x w :
  TS c1 -> c_tasks c = c_tasks (upd_task c1 x) -> rootok (t_state x) w -> core_root c (t_id x) w.
Proof.
  intros Hs Ec Hr tk Hin Hid. rewrite Ec in Hin. cbn [upd_task with_tasks c_tasks] in Hin.
  rewrite (sf_set_task_in_same _ _ _ Hs Hin Hid). exact Hr.
Qed.

Lemma core_root_found c id t w : TS c -> find_task (c_tasks c) id = Some t -> rootok (t_state t) w -> core_root c id w.
Proof.
  intros Hs Hf Hr tk Hin Hid. pose proof (in_find_task _ _ Hs Hin) as Hf'. rewrite Hid, Hf in Hf'. inversion Hf'; subst. exact Hr.
Qed.

Lemma SQ_task_running s w id rv s' b : TS (core_of s) -> task_running s w id rv = Ok (s', b) -> SQ s s'.
Proof.
  intros Hs H. unfold task_running in H.
  destruct (find_task (c_tasks (core_of s)) id) as [t|] eqn:Ef; [|inversion H; subst; apply SQ_refl].
  destruct (find_task_some _ _ _ Ef) as [Hin _].
  apply bind_ok in H. destruct H as (rq & _ & H). apply bind_ok in H. destruct H as ([s1 ws] & H1 & H).
  apply bind_ok in H. destruct H as (s2 & H2 & H). inversion H; subst.
  assert (Hcore : SQ s s1 /\ exists w0, hd_error ws = Some w0 /\ core_root (core_of s1) id w0).
  { destruct (t_state t) eqn:Est; try discriminate.
    - destruct (negb (N.eqb w0 w)); [discriminate|]. destruct (negb (N.eqb rv0 rv)); [discriminate|]. inversion H1; subst.
      split; [apply SQ_core_only; rk_upd t Hin ltac:(nk Est)|].
      exists w. split; [reflexivity|]. rewrite <- (proj2 (find_task_some _ _ _ Ef)).
      apply (core_root_upd _ (core_of s) (with_state t (Running w rv))); [exact Hs | reflexivity | reflexivity].
    - destruct (negb (N.eqb w0 w)); [discriminate|].
      apply bind_ok in H1. destruct H1 as (wk & _ & H1). apply bind_ok in H1. destruct H1 as (wk' & _ & H1).
      apply bind_ok in H1. destruct H1 as (q & _ & H1). apply bind_ok in H1. destruct H1 as (q' & _ & H1). inversion H1; subst.
      split; [apply SQ_core_only; rk_upd t Hin ltac:(nk Est)|].
      exists w. split; [reflexivity|]. rewrite <- (proj2 (find_task_some _ _ _ Ef)).
      apply (core_root_upd _ (core_of s) (with_state t (Running w rv))); [exact Hs | reflexivity | reflexivity].
    - destruct (negb (N.eqb w0 w)); [discriminate|].
      apply bind_ok in H1. destruct H1 as (c1 & Hc1 & H1). apply bind_ok in H1. destruct H1 as (wk & _ & H1).
      apply bind_ok in H1. destruct H1 as (wk' & _ & H1). inversion H1; subst.
      pose proof (try_remove_redirection_tasks _ _ _ Hc1) as E1. cbn in E1.
      split.
      + apply SQ_core0; [reflexivity | reflexivity|].
        match goal with |- RKN _ _ (core_of (st_core _ ?cx)) => change (RKN NoN (core_of s) cx) end.
        apply (RKN_upd_gen NoN (core_of s) c1 (with_state t (Running w rv)) _ t); [exact E1 | exact Hin | reflexivity | nk Est | reflexivity].
      + exists w. split; [reflexivity|]. rewrite <- (proj2 (find_task_some _ _ _ Ef)).
        apply (core_root_upd _ c1 (with_state t (Running w rv))); [unfold TS; rewrite E1; exact Hs | reflexivity | reflexivity].
    - destruct ws0 as [|w0 wr]; [discriminate|]. destruct (N.eqb w0 w) eqn:Ew; [|discriminate]. inversion H1; subst.
      split; [apply SQ_refl|]. exists w0. split; [reflexivity|].
      eapply core_root_found; [exact Hs | exact Ef | rewrite Est; reflexivity]. }
  destruct Hcore as [S1 (w0 & Hh & Hr)].
  eapply SQ_trans; [exact S1 | eapply SQ_started; [exact H2 | exact Hh | exact Hr]].
Qed.

Lemma SQ_apply_updates us : forall s w need s' need',
  TS (core_of s) -> apply_updates s w us need = Ok (s', need') -> SQ s s'.
Proof.
  induction us as [|u r IH]; intros s w need s' need' Hs H; [cbn [apply_updates] in H; inversion H; subst; apply SQ_refl|].
  pose proof H as H0. cbn [apply_updates] in H. apply bind_ok in H. destruct H as ([s1 n1] & Hu & H).
  assert (Hone : apply_updates s w [u] need = Ok (s1, need || n1)) by (cbn [apply_updates]; rewrite Hu; reflexivity).
  pose proof (proj1 (apply_updates_csub _ _ _ _ _ _ Hs Hone)) as Hs1.
  assert (S1 : SQ s s1).
  { destruct u.
    - eapply SQ_task_finished; exact Hu.
    - apply bind_ok in Hu. destruct Hu as (sx & Hf & Hu). inversion Hu; subst. eapply SQ_task_failed; exact Hf.
    - eapply SQ_task_running; [exact Hs | exact Hu].
    - eapply SQ_task_running; [exact Hs | exact Hu].
    - apply SQ_core0; [exact (task_reject_same _ _ _ _ _ _ Hu) | eapply task_reject_snd; exact Hu | eapply task_reject_RK; exact Hu].
    - apply bind_ok in Hu. destruct Hu as (sx & Hf & Hu). inversion Hu; subst.
      unfold request_enabled in Hf. inv_binds Hf. inversion Hf; subst. apply SQ_same; reflexivity. }
  eapply SQ_trans; [exact S1 | eapply IH; [exact Hs1 | exact H]].
Qed.

Lemma SQ_on_task_update s w us s' : TS (core_of s) -> on_task_update s w us = Ok s' -> SQ s s'.
Proof.
  intros Hs H. unfold on_task_update in H. apply bind_ok in H. destruct H as ([s1 need] & Hu & H).
  pose proof (SQ_apply_updates _ _ _ _ _ _ Hs Hu) as T1.
  destruct (need && _); inversion H; subst; [|exact T1].
  eapply SQ_trans; [exact T1 | apply SQ_same; reflexivity].
Qed.

Lemma SQ_lost_fail_running l : forall s reason s', lost_fail_running s reason l = Ok s' -> SQ s s'.
Proof.
  induction l as [|id r IH]; cbn [lost_fail_running]; intros s reason s' H; [inversion H; subst; apply SQ_refl|].
  destruct (find_task _ id) as [t|] eqn:Ef; [|eapply IH; eassumption].
  destruct (find_task_some _ _ _ Ef) as [Hin _].
  assert (Hupd : forall t', t_id t' = t_id t -> t_state t' = t_state t -> SQ s (st_core s (upd_task (core_of s) t'))).
  { intros t' Hi Hst. apply SQ_core_only. eapply (RKN_upd NoN _ _ t); [exact Hin | symmetry; exact Hi | rewrite Hst; apply keeps_refl]. }
  assert (Hfail : forall s0 k, SQ s s0 ->
            (do s1 <- task_failed s0 None id k; lost_fail_running s1 reason r) = Ok s' -> SQ s s').
  { intros s0 k S0 Hx. apply bind_ok in Hx. destruct Hx as (s1 & Hf & Hx).
    eapply SQ_trans; [exact S0|]. eapply SQ_trans; [eapply SQ_task_failed; exact Hf | eapply IH; exact Hx]. }
  destruct (t_climit t).
  - eapply (Hfail s); [apply SQ_refl | exact H].
  - destruct (reason_is_failure reason); [|eapply IH; eassumption].
    destruct (increment_crash_counter t) as [t' limit] eqn:Ei.
    assert (Et' : t' = with_crash t (t_crash t + 1)) by (unfold increment_crash_counter in Ei; inversion Ei; reflexivity).
    destruct limit.
    + eapply (Hfail (st_core s (upd_task (core_of s) t'))); [subst t'; apply Hupd; reflexivity | exact H].
    + eapply SQ_trans; [|eapply IH; exact H]. subst t'. apply Hupd; reflexivity.
  - destruct (reason_is_failure reason); [|eapply IH; eassumption].
    destruct (increment_crash_counter t) as [t' limit] eqn:Ei.
    assert (Et' : t' = with_crash t (t_crash t + 1)) by (unfold increment_crash_counter in Ei; inversion Ei; reflexivity).
    destruct limit.
    + eapply (Hfail (st_core s (upd_task (core_of s) t'))); [subst t'; apply Hupd; reflexivity | exact H].
    + eapply SQ_trans; [|eapply IH; exact H]. subst t'. apply Hupd; reflexivity.
Qed.

(** * Client requests *)
Lemma take_n_in {A} n : forall (l : list A) x, In x (fst (take_n n l)) -> In x l.
Proof.
  induction n as [|k IH]; intros l x H; [destruct l; destruct H|].
  destruct l as [|h t]; [destruct H|]. cbn [take_n] in H. destruct (take_n k t) as [a b] eqn:E. cbn [fst] in H.
  destruct H as [->|H]; [left; reflexivity|]. right. apply IH. rewrite E. exact H.
Qed.

Lemma SQ_submit_tail s4 jid ids tasks s' :
  (forall t, In t tasks -> fst (t_id t) = jid /\ In (snd (t_id t)) ids) ->
  (do j <- hq_get_job s4 jid 222;
   do j' <- attach_ids j ids;
   do s6 <- on_new_tasks (hq_set_job s4 j') tasks;
   submit_ok_resp s6 jid) = Ok s' -> SQ s4 s'.
Proof.
  intros Hids H. apply bind_ok in H. destruct H as (j & Hj & H). apply bind_ok in H. destruct H as (j' & Ha & H).
  apply bind_ok in H. destruct H as (s6 & H6 & H).
  destruct (attach_ids_find _ _ _ Ha) as [I1 I2]. destruct (hq_get_find' _ _ _ _ Hj) as [Hf Eid].
  eapply SQ_trans; [apply (SQ_quiet s4 (hq_set_job s4 j')); [reflexivity | reflexivity|]|].
  - intros x Hx. rewrite TS_set, I1, Eid in Hx. destruct (N.eqb (fst x) jid) eqn:E; [|exact Hx].
    apply N.eqb_eq in E. rewrite I2 in Hx. destruct (n_mem (snd x) ids); [discriminate|].
    rewrite (TS_find s4 jid j x Hf E). exact Hx.
  - eapply SQ_trans.
    + apply (SQ_frame (fun x => fst x = jid /\ In (snd x) ids) (hq_set_job s4 j') s6);
        [eapply on_new_tasks_snd; exact H6 | apply nojr_same; eapply on_new_tasks_hq; exact H6 | | ].
      * eapply on_new_tasks_RK; [|exact H6]. exact Hids.
      * intros x [Ex Hin] Hx. rewrite (task_state_same _ _ _ (on_new_tasks_hq _ _ _ H6)), TS_set, I1, Eid in Hx.
        rewrite Ex, N.eqb_refl, I2 in Hx. apply n_mem_in in Hin. rewrite Hin in Hx. discriminate.
    + unfold submit_ok_resp in H. apply bind_ok in H. destruct H as (jx & _ & H). inversion H; subst.
      apply SQ_emit_silent. reflexivity.
Qed.

Lemma SQ_jobs_only s s' : snd s' = snd s -> core_of s' = core_of s -> nojr s s' -> SQ s s'.
Proof. apply SQ_quiet. Qed.

Lemma SQ_submit_array s jobsel ids entries rq prio cl tlim mf s' :
  handle_submit_array s jobsel ids entries rq prio cl tlim mf = Ok s' -> SQ s s'.
Proof.
  intros H. unfold handle_submit_array in H.
  match type of H with (match ?x with Some _ => _ | None => _ end) = _ => destruct x end;
    [inversion H; subst; apply SQ_emit_silent; reflexivity|].
  apply bind_ok in H. destruct H as ([acc s1] & Hr & H).
  assert (E1 : SQ s s1).
  { destruct jobsel as [jid|].
    - destruct (find_job (hq_jobs s) jid) as [j|]; [|inversion Hr; subst; apply SQ_refl].
      destruct (negb (j_open j)); inversion Hr; subst; [apply SQ_emit_silent; reflexivity | apply SQ_refl].
    - inversion Hr; subst. apply SQ_quiet; [reflexivity | reflexivity | apply nojr_jobs; reflexivity]. }
  destruct acc as [[[jid is_new] ids']|].
  - cbv zeta in H.
    match type of H with context [get_or_create_rq ?sx rq] => set (s3 := sx) in *; destruct (get_or_create_rq s3 rq) as [s4 rqi] eqn:Erq end.
    assert (E3 : SQ s1 s3).
    { subst s3. eapply SQ_trans; [apply (SQ_emit_silent s1 (OEv (EvSubmit jid is_new (N.of_nat (length ids'))))); reflexivity|].
      destruct is_new; [|apply SQ_refl]. apply SQ_quiet; [reflexivity | reflexivity | apply nojr_new_job]. }
    assert (E4 : SQ s3 s4).
    { apply SQ_same; [eapply get_or_create_rq_keeps; exact Erq | | ].
      - pose proof (get_or_create_rq_snd s3 rq) as S4. rewrite Erq in S4. exact S4.
      - pose proof (get_or_create_rq_tasks s3 rq) as T4. rewrite Erq in T4. exact T4. }
    eapply SQ_trans; [exact E1|]. eapply SQ_trans; [exact E3|]. eapply SQ_trans; [exact E4|].
    eapply SQ_submit_tail; [|exact H].
    intros t Hin. apply in_map_iff in Hin. destruct Hin as (i & <- & Hi). cbn. split; [reflexivity|].
    destruct entries; [eapply take_n_in; exact Hi | exact Hi].
  - destruct jobsel; [match type of H with (match ?x with Some _ => _ | None => _ end) = _ => destruct x end|];
      injection H as Hx; rewrite <- Hx; try (eapply SQ_trans; [exact E1 | apply SQ_emit_silent; reflexivity]); exact E1.
Qed.

Lemma SQ_submit_graph s jobsel rqs ts mf s' :
  handle_submit_graph s jobsel rqs ts mf = Ok s' -> SQ s s'.
Proof.
  intros H. unfold handle_submit_graph in H.
  apply bind_ok in H. destruct H as (v1 & _ & H).
  match type of H with (match ?x with Some _ => _ | None => _ end) = _ => destruct x end;
    [inversion H; subst; apply SQ_emit_silent; reflexivity|].
  apply bind_ok in H. destruct H as ([acc s1] & Hr & H).
  assert (E1 : SQ s s1).
  { destruct jobsel as [jid|].
    - destruct (find_job (hq_jobs s) jid) as [j|]; [|inversion Hr; subst; apply SQ_emit_silent; reflexivity].
      destruct (negb (j_open j)); inversion Hr; subst; [apply SQ_emit_silent; reflexivity | apply SQ_refl].
    - inversion Hr; subst. apply SQ_quiet; [reflexivity | reflexivity | apply nojr_jobs; reflexivity]. }
  destruct acc as [[jid is_new]|].
  - cbv zeta in H.
    match type of H with context [fold_left ?f rqs (?sx, [])] => set (s3 := sx) in *; destruct (fold_left f rqs (s3, [])) as [s4 rqis] eqn:Erq end.
    assert (E3 : SQ s1 s3).
    { subst s3. eapply SQ_trans; [apply (SQ_emit_silent s1 (OEv (EvSubmit jid is_new (N.of_nat (length ts))))); reflexivity|].
      destruct is_new; [|apply SQ_refl]. apply SQ_quiet; [reflexivity | reflexivity | apply nojr_new_job]. }
    assert (E4 : SQ s3 s4).
    { apply SQ_same; [eapply fold_rqs_same; exact Erq | eapply fold_rqs_snd; exact Erq | eapply fold_rqs_tasks; exact Erq]. }
    eapply SQ_trans; [exact E1|]. eapply SQ_trans; [exact E3|]. eapply SQ_trans; [exact E4|].
    apply bind_ok in H. destruct H as (j & Hj & H). apply bind_ok in H. destruct H as (j' & Ha & H).
    apply bind_ok in H. destruct H as (tasks & Hg & H).
    eapply (SQ_submit_tail s4 jid (map gt_id ts) tasks); [|rewrite Hj; cbn [bind]; rewrite Ha; cbn [bind]; exact H].
    destruct (graph_tasks_spec _ _ _ _ Hg) as [Hm _].
    intros t Hin. assert (Hi : In (t_id t) (map t_id tasks)) by (apply in_map; exact Hin).
    rewrite Hm in Hi. apply in_map_iff in Hi. destruct Hi as (i & Ei & Hi). rewrite <- Ei. cbn. split; [reflexivity | exact Hi].
  - inversion H; subst. exact E1.
Qed.

Lemma SQ_cancel s jid s' : handle_cancel s jid = Ok s' -> SQ s s'.
Proof.
  intros H. unfold handle_cancel in H. destruct (find_job _ jid) as [jb|]; [|inversion H; subst; apply SQ_emit_silent; reflexivity].
  destruct (non_finished_task_ids jb) eqn:En; [inversion H; subst; apply SQ_emit_silent; reflexivity|]. rewrite <- En in H.
  apply bind_ok in H. destruct H as (s1 & H1 & H). apply bind_ok in H. destruct H as (al & _ & H).
  apply bind_ok in H. destruct H as (s2 & H2 & H). inversion H; subst.
  eapply SQ_trans; [apply SQ_core0; [eapply on_cancel_tasks_hq; exact H1 | eapply on_cancel_tasks_snd; exact H1 | eapply on_cancel_tasks_RK; exact H1]|].
  eapply SQ_trans; [eapply SQ_set_cancel; exact H2 | apply SQ_emit_silent; reflexivity].
Qed.

Lemma SQ_close s jid s' : handle_close s jid = Ok s' -> SQ s s'.
Proof.
  intros H. unfold handle_close in H.
  destruct (find_job _ jid) as [jb|] eqn:Ef; [|inversion H; subst; apply SQ_emit_silent; reflexivity].
  destruct (j_open jb); [|inversion H; subst; apply SQ_emit_silent; reflexivity].
  apply bind_ok in H. destruct H as (s1 & H1 & H). inversion H; subst.
  eapply SQ_trans; [|apply SQ_emit_silent; reflexivity].
  eapply SQ_trans; [|eapply SQ_check_termination; exact H1].
  eapply SQ_trans; [|apply SQ_emit_silent; reflexivity].
  apply SQ_quiet; [reflexivity | reflexivity|]. intros x Hx. rewrite TS_set in Hx. cbn [j_id j_tasks] in Hx.
  rewrite (find_job_id _ _ _ Ef) in Hx.
  destruct (N.eqb (fst x) jid) eqn:E; [|exact Hx]. apply N.eqb_eq in E. rewrite (TS_find s jid jb x Ef E). exact Hx.
Qed.

Lemma SQ_forget s jid s' : handle_forget s jid = Ok s' -> SQ s s'.
Proof.
  intros H. unfold handle_forget in H. destruct (find_job _ jid) as [jb|]; [|inversion H; subst; apply SQ_emit_silent; reflexivity].
  apply bind_ok in H. destruct H as (na & _ & H).
  destruct (negb (j_open jb) && na); inversion H; subst; [|apply SQ_emit_silent; reflexivity].
  eapply SQ_trans; [|apply SQ_emit_silent; reflexivity].
  apply SQ_quiet; [reflexivity | reflexivity|]. intros x Hx. unfold task_state, hq_of, hq_with, hq_jobs in *. cbn in Hx.
  destruct (N.eq_dec (fst x) jid) as [E|E].
  - rewrite E, find_job_del_same in Hx. discriminate.
  - rewrite (find_job_del _ _ _ E) in Hx. exact Hx.
Qed.
