(** Protocol invariant, part 13 (Stage 3, consistency assertions): when the server processes a
    message of a worker in a state satisfying [PROTO], none of the assertions that compare the
    message with the server's view of the task can fire:
      165 166 167 170 (task_failed), 172 173 (task_finished), 175 176 177 178 (task_running),
      179 (task_reject), 202 (the job layer: finished task not shown Running). *)
From HQ Require Import Base.Prelude Cluster.Types Cluster.Core Cluster.Reactor Cluster.Worker Cluster.Server Cluster.Sys Cluster.ProofsJob Cluster.ProofsMore Cluster.ProofsTerminal Cluster.ProofsStep Cluster.BijBase Cluster.BijCore Cluster.BijHq Cluster.BijSt Cluster.BijReact Cluster.RejHyp Cluster.NoPanicU0 Cluster.NoPanicU1 Cluster.NoPanicU2 Cluster.NoPanicU6 Cluster.NoPanicU7 Cluster.NoPanicU8 Cluster.NoPanicU9 Cluster.NoPanicU10 Cluster.NoPanicU11.
From Coq Require Import ZArith Lia Sorting.Sorted.
Local Open Scope N_scope.

Notation tid_eqb_eq := NoPanicU1.tid_eqb_eq.
Notation tid_eqb_refl := NoPanicU1.tid_eqb_refl.

Definition cons_sites : list N := [165; 166; 167; 170; 172; 173; 175; 176; 177; 178; 179; 202].
Definition nocons (n : N) : Prop := n_mem n cons_sites = false.

(** Decompose [H : <computation> = Panic n] along binds and case distinctions; the sub-calls that
    panicked are left as hypotheses [_ = Panic _] for the site lemmas, leaves are decided. *)
Ltac pstep H :=
  match type of H with
  | bind ?r _ = Panic _ =>
      let E := fresh "E" in destruct r eqn:E; cbn [bind] in H; [ | discriminate H | inversion H; subst; clear H ]
  | Ok _ = Panic _ => discriminate H
  | Disabled = Panic _ => discriminate H
  | Panic _ = Panic _ => inversion H; subst; clear H
  | (let '(_, _) := ?x in _) = Panic _ => destruct x
  | (if ?b then _ else _) = Panic _ => destruct b eqn:?
  | match ?x with _ => _ end = Panic _ => destruct x eqn:?
  end.
Ltac psteps H :=
  repeat (pstep H);
  repeat match goal with
         | X : bind _ _ = Panic _ |- _ => pstep X
         | X : Ok _ = Panic _ |- _ => discriminate X
         | X : Disabled = Panic _ |- _ => discriminate X
         | X : Panic _ = Panic _ |- _ => inversion X; subst; clear X
         | X : (let '(_, _) := _ in _) = Panic _ |- _ => pstep X
         | X : (if _ then _ else _) = Panic _ |- _ => pstep X
         | X : match _ with _ => _ end = Panic _ |- _ => pstep X
         end.
Ltac nc := solve [ reflexivity | eauto ].

Lemma csub_nc a b site n : csub a b site = Panic n -> n = site.
Proof. unfold csub. destruct (N.ltb a b); intros H; inversion H; reflexivity. Qed.
Lemma get_rq_nc rqs rq n : get_rq rqs rq = Panic n -> nocons n.
Proof. unfold get_rq. intros H. psteps H. nc. Qed.
Lemma get_worker_nc ws w n : get_worker ws w = Panic n -> nocons n.
Proof. unfold get_worker. intros H. psteps H. nc. Qed.
Lemma get_task_nc ts x n : get_task ts x = Panic n -> nocons n.
Proof. unfold get_task. intros H. psteps H. nc. Qed.
Lemma remove_sn_task_nc wk id rq n : remove_sn_task wk id rq = Panic n -> nocons n.
Proof. unfold remove_sn_task. intros H. psteps H; nc. Qed.
Lemma insert_sn_task_nc wk id rq n : insert_sn_task wk id rq = Panic n -> nocons n.
Proof. unfold insert_sn_task. intros H. psteps H; nc. Qed.
Lemma remove_prefill_task_nc wk id n : remove_prefill_task wk id = Panic n -> nocons n.
Proof. unfold remove_prefill_task. intros H. psteps H; nc. Qed.
Lemma tfpts_nc wk id rq n : task_from_prefilled_to_started wk id rq = Panic n -> nocons n.
Proof. unfold task_from_prefilled_to_started. intros H. psteps H; nc. Qed.
Lemma nth_queue_nc qs : forall i n, nth_queue qs i = Panic n -> nocons n.
Proof. induction qs as [|q r IH]; intros i n H; cbn [nth_queue] in H; [inversion H; nc|]. destruct i; [discriminate | eapply IH; exact H]. Qed.
Lemma qe_remove_nc es id p : forall n, qe_remove es id p = Panic n -> nocons n.
Proof.
  induction es as [|e r IH]; intros n H; cbn [qe_remove] in H; [discriminate|].
  destruct (Z.eqb (qe_prio e) p).
  - destruct (qe_more e); [destruct (tid_remove id (qe_ids e)); discriminate|]. destruct (tid_mem id (qe_ids e)); [discriminate | inversion H; nc].
  - destruct (qe_remove r id p) eqn:E; cbn [bind] in H; [discriminate | discriminate | inversion H; subst; eapply IH; reflexivity].
Qed.
Lemma q_remove_nc q id p n : q_remove q id p = Panic n -> nocons n.
Proof.
  unfold q_remove. intros H. destruct (q_prefill q) as [[pp ts]|].
  - destruct (Z.eqb p pp && tid_mem id ts); [discriminate|]. destruct (qe_remove (q_ready q) id p) eqn:E; cbn [bind] in H; try discriminate. inversion H; subst. eapply qe_remove_nc; exact E.
  - destruct (qe_remove (q_ready q) id p) eqn:E; cbn [bind] in H; try discriminate. inversion H; subst. eapply qe_remove_nc; exact E.
Qed.
Lemma q_remove_prefilled_nc q id n : q_remove_prefilled q id = Panic n -> nocons n.
Proof. unfold q_remove_prefilled. intros H. psteps H; nc. Qed.
Lemma add_ready_task_nc qs t n : add_ready_task qs t = Panic n -> nocons n.
Proof. unfold add_ready_task. intros H. destruct (dispose_all qs (t_prio t)) as [qs1 ret]. psteps H. eapply nth_queue_nc; eassumption. Qed.

Lemma try_remove_redirection_nc c t n : try_remove_redirection c t = Panic n -> nocons n.
Proof.
  unfold try_remove_redirection. intros H. psteps H;
    first [ eapply get_worker_nc; eassumption | eapply get_rq_nc; eassumption | eapply remove_sn_task_nc; eassumption
          | eapply nth_queue_nc; eassumption | eapply q_remove_nc; eassumption ].
Qed.
Lemma reset_mn_workers_nc ws : forall c id n, reset_mn_workers c ws id = Panic n -> nocons n.
Proof.
  induction ws as [|w r IH]; intros c id n H; cbn [reset_mn_workers] in H; [discriminate|].
  psteps H; first [ eapply get_worker_nc; eassumption | nc | eapply IH; eassumption ].
Qed.
Lemma reset_mn_all_nc ws : forall c n, reset_mn_all c ws = Panic n -> nocons n.
Proof.
  induction ws as [|w r IH]; intros c n H; cbn [reset_mn_all] in H; [discriminate|].
  psteps H; first [ eapply get_worker_nc; eassumption | eapply IH; eassumption ].
Qed.

Lemma send_worker_nc s w m n : send_worker s w m = Panic n -> nocons n.
Proof. unfold send_worker. intros H. psteps H. nc. Qed.
Lemma send_all_nc msgs : forall s n, send_all s msgs = Panic n -> nocons n.
Proof.
  induction msgs as [|[w m] r IH]; intros s n H; cbn [send_all] in H; [discriminate|].
  psteps H; first [ eapply send_worker_nc; eassumption | eapply IH; eassumption ].
Qed.
Lemma retract_states_nc ids : forall c acc n, retract_states c ids acc = Panic n -> nocons n.
Proof.
  induction ids as [|id r IH]; intros c acc n H; cbn [retract_states] in H; [discriminate|].
  psteps H; first [ eapply get_task_nc; eassumption | eapply get_worker_nc; eassumption | eapply remove_prefill_task_nc; eassumption
                  | nc | eapply IH; eassumption ].
Qed.
Lemma process_retracted_nc s ret n : process_retracted s ret = Panic n -> nocons n.
Proof.
  unfold process_retracted. intros H. destruct ret; [discriminate|].
  psteps H; first [ eapply retract_states_nc; eassumption | eapply send_all_nc; eassumption ].
Qed.

Lemma n_waiting_nc j n : n_waiting j = Panic n -> nocons n.
Proof. unfold n_waiting. intros H. psteps H; match goal with X : csub _ _ _ = Panic _ |- _ => apply csub_nc in X; subst; nc end. Qed.
Lemma check_termination_nc s jid n : check_termination s jid = Panic n -> nocons n.
Proof.
  unfold check_termination, hq_get_job, has_no_active_tasks. intros H.
  psteps H; first [ nc | eapply n_waiting_nc; eassumption ].
Qed.
Lemma process_task_started_nc s t i ws rv n : process_task_started s t i ws rv = Panic n -> nocons n.
Proof. unfold process_task_started, hq_get_job. intros H. psteps H; nc. Qed.

Lemma rcf_nc deps : forall ts cid n, remove_consumer_from ts deps cid = Panic n -> nocons n.
Proof.
  induction deps as [|d r IH]; intros ts cid n H; cbn [remove_consumer_from] in H; [discriminate|].
  psteps H; first [ nc | eapply IH; eassumption ].
Qed.
Lemma remove_task_nc c id n : remove_task c id = Panic n -> nocons n.
Proof.
  unfold remove_task. intros H.
  psteps H; first [ nc | eapply nth_queue_nc; eassumption | eapply q_remove_nc; eassumption | eapply rcf_nc; eassumption ].
Qed.
Lemma wake_consumers_nc csm : forall c ret n, wake_consumers c csm ret = Panic n -> nocons n.
Proof.
  induction csm as [|x r IH]; intros c ret n H; cbn [wake_consumers] in H; [discriminate|].
  psteps H; first [ nc | eapply get_task_nc; eassumption | eapply add_ready_task_nc; eassumption | eapply IH; eassumption ].
Qed.
Lemma collect_consumers_nc fuel : forall ts fr acc n, collect_consumers fuel ts fr acc = Panic n -> nocons n.
Proof.
  induction fuel as [|k IH]; intros ts fr acc n H; destruct fr as [|id rest]; cbn [collect_consumers] in H; try discriminate.
  psteps H; first [ eapply get_task_nc; eassumption | eapply IH; eassumption ].
Qed.
Lemma recursive_consumers_nc ts t n : recursive_consumers ts t = Panic n -> nocons n.
Proof. unfold recursive_consumers. apply collect_consumers_nc. Qed.
Lemma remove_waiting_consumers_nc l : forall c n, remove_waiting_consumers c l = Panic n -> nocons n.
Proof.
  induction l as [|x r IH]; intros c n H; cbn [remove_waiting_consumers] in H; [discriminate|].
  psteps H; first [ nc | eapply remove_task_nc; eassumption | eapply IH; eassumption ].
Qed.
Lemma remove_tasks_batched_nc l : forall c n, remove_tasks_batched c l = Panic n -> nocons n.
Proof.
  induction l as [|x r IH]; intros c n H; cbn [remove_tasks_batched] in H; [discriminate|].
  psteps H; first [ eapply remove_task_nc; eassumption | eapply IH; eassumption ].
Qed.
Lemma mark_tasks_nc target site (Hs : nocons site) ids : forall j n, mark_tasks j ids target site = Panic n -> nocons n.
Proof.
  induction ids as [|t r IH]; intros j n H; cbn [mark_tasks] in H; [discriminate|].
  psteps H; first [ nc | match goal with X : csub _ _ _ = Panic _ |- _ => apply csub_nc in X; subst; nc end | eapply IH; eassumption ].
Qed.
Lemma abort_tasks_nc s jid ids n : abort_tasks s jid ids = Panic n -> nocons n.
Proof.
  unfold abort_tasks, hq_get_job. intros H. destruct ids; [discriminate|].
  psteps H; first [ nc | eapply (mark_tasks_nc JA 206); [reflexivity | eassumption] | eapply check_termination_nc; eassumption ].
Qed.
Lemma process_task_failed_nc s t ab k n : process_task_failed s t ab k = Panic n -> nocons n.
Proof.
  unfold process_task_failed, hq_get_job. intros H.
  psteps H; first [ nc | eapply abort_tasks_nc; eassumption | eapply check_termination_nc; eassumption
                  | match goal with X : csub _ _ _ = Panic _ |- _ => apply csub_nc in X; subst; nc end ].
Qed.
Lemma cancel_release_nc ids : forall s tu ru n, cancel_release s ids tu ru = Panic n -> nocons n.
Proof.
  induction ids as [|id r IH]; intros s tu ru n H; cbn [cancel_release] in H; [discriminate|].
  psteps H; first [ nc | eapply recursive_consumers_nc; eassumption | eapply get_rq_nc; eassumption | eapply get_worker_nc; eassumption
                  | eapply remove_sn_task_nc; eassumption | eapply reset_mn_all_nc; eassumption | eapply try_remove_redirection_nc; eassumption
                  | eapply nth_queue_nc; eassumption | eapply q_remove_prefilled_nc; eassumption | eapply remove_prefill_task_nc; eassumption
                  | eapply IH; eassumption ].
Qed.
Lemma on_cancel_tasks_nc s ids n : on_cancel_tasks s ids = Panic n -> nocons n.
Proof.
  unfold on_cancel_tasks. intros H.
  psteps H; first [ eapply cancel_release_nc; eassumption | eapply remove_tasks_batched_nc; eassumption | eapply send_all_nc; eassumption ].
Qed.
Lemma ctasks_of_nc c l : forall n, ctasks_of c l = Panic n -> nocons n.
Proof.
  induction l as [|[id rv] r IH]; intros n H; cbn [ctasks_of] in H; [discriminate|].
  psteps H; first [ eapply get_task_nc; eassumption | eapply IH; reflexivity ].
Qed.
Lemma send_redirected_nc gs : forall s n, send_redirected s gs = Panic n -> nocons n.
Proof.
  induction gs as [|[tg ts] r IH]; intros s n H; cbn [send_redirected] in H; [discriminate|].
  psteps H; first [ eapply ctasks_of_nc; eassumption | eapply send_worker_nc; eassumption | eapply IH; eassumption ].
Qed.
Lemma on_retract_response_nc s w ids n : on_retract_response s w ids = Panic n -> nocons n.
Proof.
  unfold on_retract_response. intros H. destruct (retract_response_states _ _ _ _) as [c' groups].
  destruct (send_redirected _ groups) as [s2| |n2] eqn:E2; cbn [bind] in H; [|discriminate|].
  - destruct (retract_wakes _ _ _ _); discriminate.
  - inversion H; subst n2. eapply send_redirected_nc; exact E2.
Qed.
Lemma request_enabled_nc s w rq rv n : request_enabled s w rq rv = Panic n -> nocons n.
Proof. unfold request_enabled. intros H. psteps H. eapply get_worker_nc; eassumption. Qed.

(** * The four functions with consistency assertions *)
Ltac sub_nc :=
  first [ nc | eapply get_rq_nc; eassumption | eapply get_worker_nc; eassumption | eapply get_task_nc; eassumption
        | eapply remove_sn_task_nc; eassumption | eapply insert_sn_task_nc; eassumption | eapply remove_prefill_task_nc; eassumption
        | eapply tfpts_nc; eassumption | eapply nth_queue_nc; eassumption | eapply q_remove_nc; eassumption
        | eapply q_remove_prefilled_nc; eassumption | eapply add_ready_task_nc; eassumption
        | eapply try_remove_redirection_nc; eassumption | eapply reset_mn_workers_nc; eassumption
        | eapply process_retracted_nc; eassumption | eapply process_task_started_nc; eassumption
        | eapply wake_consumers_nc; eassumption | eapply remove_task_nc; eassumption | eapply send_worker_nc; eassumption
        | eapply recursive_consumers_nc; eassumption | eapply remove_waiting_consumers_nc; eassumption
        | eapply process_task_failed_nc; eassumption | eapply on_cancel_tasks_nc; eassumption ].

Lemma task_running_cons s w id rv u r n :
  SP x0 s (pum_us w (u :: r)) [] -> (u = URunning id rv \/ u = URunningPrefilled id rv) ->
  task_running s w id rv = Panic n -> nocons n.
Proof.
  intros HS Hu H. unfold task_running in H. cbv zeta in H.
  destruct (find_task (c_tasks (core_of s)) id) as [t|] eqn:Ef; [|discriminate].
  destruct (pum_us_proc _ _ _ _ _ HS) as (p & Hp).
  pose proof (head_item _ _ _ _ _ _ _ _ _ HS Ef eq_refl Hp) as Hl.
  assert (Hv : exists b, lang (view_of (t_state t) w (job_running (hq_of s) id)) (IRun b rv :: uitems id (pum_us w r w ++ p_up p)) (local p id)
                              (ditems id (p_down p ++ msgs_for w [])) = true).
  { destruct Hu as [->| ->]; cbn [uitem_of] in Hl; rewrite sel_same in Hl; eexists; exact Hl. }
  destruct Hv as (b & Hv). destruct (LS_run _ _ _ _ _ _ Hv) as [Hcase _]. clear Hl Hv.
  destruct (t_state t) as [k|w1 rv1|w1|w1|w1 rv1|[|w0 ws]|] eqn:Est; cbn [view_of] in Hcase;
    try (destruct (N.eqb w1 w) eqn:Ew); try (destruct (N.eqb w0 w) eqn:Ew);
    try (exfalso; destruct Hcase as [[X _]|[[X _]|[[X _]|[X _]]]]; discriminate X).
  - (* Assigned *)
    assert (rv1 = rv) by (destruct Hcase as [[X _]|[[X _]|[[X _]|[X _]]]]; inversion X; reflexivity). subst rv1.
    cbn [negb] in H. rewrite N.eqb_refl in H. cbn [negb] in H. psteps H; sub_nc.
  - cbn [negb] in H. psteps H; sub_nc.
  - cbn [negb] in H. psteps H; sub_nc.
  - psteps H; sub_nc.
Qed.

Lemma process_task_finished_cons s id n : jv (hq_of s) id = Some (Some JR) -> process_task_finished s id = Panic n -> nocons n.
Proof.
  intros Hj H. unfold process_task_finished, hq_get_job in H. unfold jv in Hj. change (hq_of s) with (s_hq (fst s)) in Hj.
  destruct (find_job (h_jobs (s_hq (fst s))) (fst id)) as [j|]; [|discriminate]. cbn [bind] in H.
  inversion Hj as [Hj']. rewrite Hj' in H.
  psteps H; first [ nc | match goal with X : csub _ _ _ = Panic _ |- _ => apply csub_nc in X; subst; nc end | eapply check_termination_nc; eassumption ].
Qed.

Lemma task_finished_cons s w id r n :
  SP x0 s (pum_us w (UFinished id :: r)) [] -> task_finished s w id = Panic n -> nocons n.
Proof.
  intros HS H. unfold task_finished in H. cbv zeta in H.
  destruct (find_task (c_tasks (core_of s)) id) as [t|] eqn:Ef; [|discriminate].
  destruct (pum_us_proc _ _ _ _ _ HS) as (p & Hp).
  pose proof (head_item _ _ _ _ _ _ _ _ _ HS Ef eq_refl Hp) as Hl. cbn [uitem_of] in Hl. rewrite sel_same in Hl. cbn [app] in Hl.
  pose proof (LS_fin _ _ _ _ Hl) as Hcase.
  assert (Hjr : jv (hq_of s) id = Some (Some JR)).
  { pose proof (sp_jr _ _ _ _ HS _ _ Ef eq_refl) as J. pose proof (sp_act _ _ _ _ HS _ _ Ef eq_refl) as A.
    destruct (find_task_some _ _ _ Ef) as [_ Eid]. unfold jr_ok in J. rewrite Eid in J.
    assert (R : job_running (hq_of s) id = true).
    { destruct (t_state t) as [k|w1 rv1|w1|w1|w1 rv1|[|w0 ws]|]; cbn [view_of] in Hcase;
        try (destruct (N.eqb w1 w)); try (destruct (N.eqb w0 w)); try (destruct Hcase as [(rv0 & X)|X]; discriminate X); try exact J.
      destruct Hcase as [(rv0 & X)|X]; [discriminate X | injection X as Y; exact Y]. }
    rewrite job_running_jv in R. destruct A as [A|A]; rewrite A in *; [discriminate | reflexivity]. }
  destruct (t_state t) as [k|w1 rv1|w1|w1|w1 rv1|[|w0 ws]|] eqn:Est; cbn [view_of] in Hcase;
    try (destruct (N.eqb w1 w) eqn:Ew); try (destruct (N.eqb w0 w) eqn:Ew);
    try (exfalso; destruct Hcase as [(rv0 & X)|X]; discriminate X).
  - (* Running *)
    cbn [negb] in H. psteps H; first [ eapply process_task_finished_cons; [|eassumption]; exact Hjr | sub_nc ].
  - psteps H; first [ eapply process_task_finished_cons; [|eassumption]; exact Hjr | sub_nc ].
Qed.

Lemma task_reject_cons s w id rv0 r n :
  SP x0 s (pum_us w (UReject id rv0 :: r)) [] -> task_reject s w id rv0 = Panic n -> nocons n.
Proof.
  intros HS H. unfold task_reject in H. cbv zeta in H.
  destruct (find_task (c_tasks (core_of s)) id) as [t|] eqn:Ef; [|discriminate].
  destruct (pum_us_proc _ _ _ _ _ HS) as (p & Hp).
  pose proof (head_item _ _ _ _ _ _ _ _ _ HS Ef eq_refl Hp) as Hl. cbn [uitem_of] in Hl. rewrite sel_same in Hl. cbn [app] in Hl.
  destruct (LS_rej _ _ _ _ _ Hl) as (rv & Ev & -> & _). apply view_VA in Ev. rewrite Ev in H.
  psteps H; sub_nc.
Qed.

Lemma get_rq_nth rqs i r : get_rq rqs i = Ok r -> nth_error rqs (N.to_nat i) = Some r.
Proof. unfold get_rq. destruct (nth_error rqs (N.to_nat i)); intros H; inversion H; reflexivity. Qed.

Lemma task_failed_cons s w id k r n :
  SP x0 s (pum_us w (UFailed id k :: r)) [] -> task_failed s (Some w) id k = Panic n -> nocons n.
Proof.
  intros HS H. unfold task_failed in H. cbv zeta in H.
  destruct (find_task (c_tasks (core_of s)) id) as [t|] eqn:Ef; [|discriminate].
  destruct (pum_us_proc _ _ _ _ _ HS) as (p & Hp).
  pose proof (head_item _ _ _ _ _ _ _ _ _ HS Ef eq_refl Hp) as Hl. cbn [uitem_of] in Hl. rewrite sel_same in Hl. cbn [app] in Hl.
  pose proof (LS_fail _ _ _ _ _ Hl) as Hv. clear Hl.
  pose proof (sp_mnt _ _ _ _ HS _ _ Ef eq_refl) as Hm. unfold mn_task_ok in Hm.
  pose proof (sp_cs _ _ _ _ HS) as Hcs.
  destruct (get_rq (c_rqs (core_of s)) (t_rq t)) as [rq| |] eqn:Erq; cbn [bind] in H; [|discriminate | inversion H; subst; eapply get_rq_nc; exact Erq].
  rewrite (get_rq_nth _ _ _ Erq) in Hm.
  (* the first phase: the worker sets *)
  match type of H with bind ?m _ = _ => destruct m as [c1| |] eqn:E1; cbn [bind] in H; [|discriminate|] end.
  2:{ inversion H; subst. clear H.
      destruct (t_state t) as [k0|w1 rv1|w1|w1|w1 rv1|[|w0 ws]|] eqn:Est; cbn [view_of] in Hv;
        try (destruct (N.eqb w1 w) eqn:Ew); try (destruct (N.eqb w0 w) eqn:Ew); try (exfalso; apply Hv; reflexivity);
        try (apply negb_true_iff in Hm); rewrite ?Hm in E1; rewrite ?(N.eqb_sym w w1), ?Ew in E1; cbn [negb] in E1;
        psteps E1; sub_nc. }
  assert (Hplaced : match t_state t with Waiting _ | Finished => False | _ => True end).
  { destruct (t_state t) as [k0|w1 rv1|w1|w1|w1 rv1|[|w0 ws]|]; cbn [view_of] in Hv; try exact I; apply Hv; reflexivity. }
  assert (F1 : CF x0 (core_of s) c1).
  { destruct (rq_is_mn rq).
    - destruct (t_state t) as [k0|w1 rv1|w1|w1|w1 rv1|ws|]; try discriminate. destruct ws as [|w0 ws0]; [discriminate|].
      destruct (N.eqb w0 w); [|discriminate]. eapply reset_mn_workers_CF; exact E1.
    - destruct (t_state t) as [k0|w1 rv1|w1|w1|w1 rv1|ws|]; try (inversion E1; subst; apply CF_refl).
      + destruct (negb (N.eqb w w1)); [discriminate|]. apply bind_ok in E1. destruct E1 as (wk & _ & E1). apply bind_ok in E1. destruct E1 as (wk' & _ & E1).
        inversion E1; subst. apply CF_tasks_same; auto.
      + destruct (negb (N.eqb w w1)); [discriminate|]. apply bind_ok in E1. destruct E1 as (q & _ & E1). apply bind_ok in E1. destruct E1 as (q' & _ & E1).
        apply bind_ok in E1. destruct E1 as (wk & _ & E1). apply bind_ok in E1. destruct E1 as (wk' & _ & E1). inversion E1; subst. apply CF_tasks_same; auto.
      + destruct (negb (N.eqb w w1)); [discriminate|]. eapply try_remove_redirection_CF; exact E1.
      + destruct (negb (N.eqb w w1)); [discriminate|]. apply bind_ok in E1. destruct E1 as (wk & _ & E1). apply bind_ok in E1. destruct E1 as (wk' & _ & E1).
        inversion E1; subst. apply CF_tasks_same; auto. }
  destruct (recursive_consumers (c_tasks c1) t) as [csm| |] eqn:E2; cbn [bind] in H; [|discriminate | inversion H; subst; eapply recursive_consumers_nc; exact E2].
  destruct (remove_waiting_consumers c1 csm) as [c2| |] eqn:E3; cbn [bind] in H; [|discriminate | inversion H; subst; eapply remove_waiting_consumers_nc; exact E3].
  destruct (remove_task c2 id) as [[c3 stt]| |] eqn:E4; cbn [bind] in H; [|discriminate | inversion H; subst; eapply remove_task_nc; exact E4].
  destruct (remove_waiting_consumers_CF x0 _ _ _ (CF_sorted_after _ _ _ F1 Hcs) E3) as [F2 _].
  pose proof (CF_trans _ _ _ _ F1 F2) as F12.
  destruct (remove_task_CF x0 _ _ _ _ (CF_sorted_after _ _ _ F12 Hcs) E4) as (_ & _ & t2 & Ef2 & Estt).
  destruct (cf_tasks _ _ _ F12 _ _ Ef2 eq_refl) as (t0 & Ef0 & Ens & _). rewrite Ef in Ef0. inversion Ef0; subst t0.
  assert (Hstt : match stt with Waiting _ | Finished => False | _ => True end).
  { rewrite Estt. destruct (t_state t2), (t_state t); cbn [nstate] in Ens; try discriminate; try exact I; try exact Hplaced. }
  destruct stt; try destruct Hstt; cbn [bind] in H; psteps H; sub_nc.
Qed.

(** * The theorem *)
Lemma apply_one_cons s w u r n : SP x0 s (pum_us w (u :: r)) [] -> apply_one s w u = Panic n -> nocons n.
Proof.
  intros HS H. destruct u; cbn [apply_one] in H.
  - eapply task_finished_cons; eassumption.
  - destruct (task_failed s (Some w) t k) eqn:E; cbn [bind] in H; try discriminate. inversion H; subst. eapply task_failed_cons; eassumption.
  - eapply task_running_cons; [exact HS | left; reflexivity | exact H].
  - eapply task_running_cons; [exact HS | right; reflexivity | exact H].
  - eapply task_reject_cons; eassumption.
  - destruct (request_enabled s w rq rv) eqn:E; cbn [bind] in H; try discriminate. inversion H; subst. eapply request_enabled_nc; exact E.
Qed.

Lemma apply_updates_cons' us : forall s w need n, SP x0 s (pum_us w us) [] -> apply_updates s w us need = Panic n -> nocons n.
Proof.
  induction us as [|u r IH]; intros s w need n HS H; [cbn in H; discriminate|].
  rewrite apply_updates_cons in H. destruct (apply_one s w u) as [[s1 n1]| |] eqn:E; cbn [bind] in H; [|discriminate|].
  - eapply IH; [|exact H]. eapply apply_one_SP; eassumption.
  - inversion H; subst. eapply apply_one_cons; eassumption.
Qed.

Theorem worker_messages_consistent s w n :
  PROTO s -> UH s -> step s (OpDUp w) = Panic n -> nocons n.
Proof.
  intros HP HU H. cbn [step] in H.
  destruct (find_proc (s_procs s) w) as [p|] eqn:Hp; [|discriminate]. destruct (p_up p) as [|m rest] eqn:Eu; [discriminate|].
  pose proof (SP_pop s w p m rest [OUp w m] HP HU Hp Eu) as S1.
  destruct m as [us|ids].
  - unfold on_task_update in H. destruct (apply_updates _ w us false) as [[s1 need]| |] eqn:E; cbn [bind] in H; [|discriminate|].
    + destruct (need && _); discriminate.
    + inversion H; subst. eapply apply_updates_cons'; [|exact E]. exact S1.
  - eapply on_retract_response_nc; exact H.
Qed.
