(** C02, second sentence: "the set of unfinished tasks shown to the user for a job is always exactly
    the set of tasks the scheduler knows about (no phantom and no orphan tasks)".

    This file: the vocabulary.  The core's task map is viewed through its KEYS
    [(task id, consumers)]; almost every reactor / scheduler function leaves the keys untouched
    (it changes states, instance ids, queues, workers), which is what makes the invariant tractable. *)
From HQ Require Import Base.Prelude Cluster.Types Cluster.Core Cluster.Reactor Cluster.Worker Cluster.Server Cluster.Sys Cluster.ProofsJob Cluster.ProofsMore.
From Coq Require Import ZArith Lia Sorting.Sorted.
Require Import ZifyBool ZifyN.
Local Open Scope N_scope.

Arguments N.add : simpl never.
Arguments N.sub : simpl never.

(** * The order on task ids *)
Lemma tid_eqb_eq a b : tid_eqb a b = true <-> a = b.
Proof.
  unfold tid_eqb. destruct a as [a1 a2], b as [b1 b2]. cbn. rewrite andb_true_iff, !N.eqb_eq.
  split; [intros [-> ->]; reflexivity | intros H; inversion H; auto].
Qed.
Lemma tid_eqb_neq a b : tid_eqb a b = false <-> a <> b.
Proof. rewrite <- tid_eqb_eq. destruct (tid_eqb a b); split; congruence. Qed.
Lemma tid_eqb_sym a b : tid_eqb a b = tid_eqb b a.
Proof. unfold tid_eqb. rewrite (N.eqb_sym (fst a)), (N.eqb_sym (snd a)). reflexivity. Qed.

Definition tid_dec (a b : tid) : {a = b} + {a <> b}.
Proof. decide equality; apply N.eq_dec. Defined.

Definition tlt (a b : tid) : Prop := tid_ltb a b = true.
Lemma tlt_spec a b : tlt a b <-> (fst a < fst b \/ (fst a = fst b /\ snd a < snd b)).
Proof. unfold tlt, tid_ltb. rewrite orb_true_iff, andb_true_iff, !N.ltb_lt, N.eqb_eq. reflexivity. Qed.
Lemma tlt_trans a b c : tlt a b -> tlt b c -> tlt a c.
Proof. rewrite !tlt_spec. lia. Qed.
Lemma tlt_irrefl a : ~ tlt a a.
Proof. rewrite tlt_spec. lia. Qed.
Lemma tlt_total a b : tid_eqb a b = false -> tid_ltb a b = false -> tlt b a.
Proof.
  intros E L. apply tid_eqb_neq in E. rewrite tlt_spec.
  assert (~ tlt a b) as NL by (unfold tlt; congruence). rewrite tlt_spec in NL.
  destruct a as [a1 a2], b as [b1 b2]. cbn in *.
  destruct (N.eq_dec a1 b1) as [->|]; [|lia]. destruct (N.eq_dec a2 b2) as [->|]; [congruence | lia].
Qed.

(** * Keys of the task map *)
Definition key (t : task) : tid * list tid := (t_id t, t_consumers t).
Definition keys (c : core) : list (tid * list tid) := map key (c_tasks c).
Definition KS (K : list (tid * list tid)) : Prop := StronglySorted tlt (map fst K).
(** Consumers belong to the job of the task they consume. *)
Definition KD (K : list (tid * list tid)) : Prop := forall id cs x, In (id, cs) K -> In x cs -> fst x = fst id.
Definition present (K : list (tid * list tid)) (t : tid) : Prop := In t (map fst K).

Lemma map_fst_keys ts : map fst (map key ts) = map t_id ts.
Proof. rewrite map_map. reflexivity. Qed.

Lemma find_task_some ts id t : find_task ts id = Some t -> In t ts /\ t_id t = id.
Proof.
  induction ts as [|h r IH]; cbn [find_task]; [discriminate|].
  destruct (tid_eqb id (t_id h)) eqn:E.
  - intros H; inversion H; subst. apply tid_eqb_eq in E. split; [left; reflexivity | symmetry; exact E].
  - intros H. destruct (IH H) as [H1 H2]. split; [right; exact H1 | exact H2].
Qed.
Lemma find_task_none ts id : find_task ts id = None <-> ~ In id (map t_id ts).
Proof.
  induction ts as [|h r IH]; cbn [find_task map]; [split; auto|].
  destruct (tid_eqb id (t_id h)) eqn:E.
  - apply tid_eqb_eq in E. split; [discriminate | intros H; exfalso; apply H; left; auto].
  - apply tid_eqb_neq in E. rewrite IH. split; [intros H [X|X]; [congruence | auto] | intros H X; apply H; right; exact X].
Qed.
Lemma find_task_present c id : (exists t, find_task (c_tasks c) id = Some t) <-> present (keys c) id.
Proof.
  unfold present, keys. rewrite map_fst_keys. split.
  - intros (t & H). destruct (find_task_some _ _ _ H) as [Hin Hid]. rewrite <- Hid. apply in_map. exact Hin.
  - intros Hin. destruct (find_task (c_tasks c) id) eqn:E; [eauto|]. apply find_task_none in E. contradiction.
Qed.

Lemma sorted_head_lt (x : tid) l : StronglySorted tlt (x :: l) -> forall y, In y l -> tlt x y.
Proof. intros H y Hy. inversion H; subst. rewrite Forall_forall in *. auto. Qed.

(** Replacing an existing task by one with the same id and consumers keeps all keys. *)
Lemma set_task_keys ts x t :
  StronglySorted tlt (map t_id ts) -> find_task ts (t_id x) = Some t -> t_consumers x = t_consumers t ->
  map key (set_task ts x) = map key ts.
Proof.
  induction ts as [|h r IH]; cbn [find_task set_task map]; [discriminate|]. intros Hs Hf Hc.
  destruct (tid_eqb (t_id x) (t_id h)) eqn:E.
  - inversion Hf; subst. apply tid_eqb_eq in E. cbn [map]. unfold key. rewrite E, Hc. reflexivity.
  - destruct (find_task_some _ _ _ Hf) as [Hin Hid].
    assert (tlt (t_id h) (t_id x)) as Hlt.
    { rewrite <- Hid. eapply sorted_head_lt; [exact Hs|]. apply in_map. exact Hin. }
    destruct (tid_ltb (t_id x) (t_id h)) eqn:L.
    + exfalso. eapply tlt_irrefl. eapply tlt_trans; [exact Hlt | exact L].
    + cbn [map]. f_equal. apply IH; [inversion Hs; assumption | exact Hf | exact Hc].
Qed.

Lemma find_set_task ts x id : find_task (set_task ts x) id = if tid_eqb id (t_id x) then Some x else find_task ts id.
Proof.
  induction ts as [|h r IH]; cbn [set_task find_task]; [reflexivity|].
  destruct (tid_eqb (t_id x) (t_id h)) eqn:E1.
  - apply tid_eqb_eq in E1. cbn [find_task]. rewrite <- E1. destruct (tid_eqb id (t_id x)); reflexivity.
  - destruct (tid_ltb (t_id x) (t_id h)); cbn [find_task]; [reflexivity|].
    destruct (tid_eqb id (t_id h)) eqn:E2.
    + apply tid_eqb_eq in E2. subst id. rewrite tid_eqb_sym, E1. reflexivity.
    + exact IH.
Qed.

(** Inserting a new task. *)
Lemma set_task_new_sorted ts x :
  StronglySorted tlt (map t_id ts) -> find_task ts (t_id x) = None -> StronglySorted tlt (map t_id (set_task ts x)).
Proof.
  induction ts as [|h r IH]; cbn [find_task set_task map]; intros Hs Hf.
  - constructor; constructor.
  - destruct (tid_eqb (t_id x) (t_id h)) eqn:E; [discriminate|].
    destruct (tid_ltb (t_id x) (t_id h)) eqn:L; cbn [map].
    + constructor; [exact Hs|]. constructor; [exact L|].
      rewrite Forall_forall. intros y Hy. eapply tlt_trans; [exact L|]. eapply sorted_head_lt; eassumption.
    + inversion Hs as [|? ? Hs' Hall]; subst. constructor; [apply IH; assumption|].
      rewrite Forall_forall in *. intros y Hy.
      assert (In y (map t_id (set_task r x)) -> y = t_id x \/ In y (map t_id r)) as Hsplit.
      { clear. induction r as [|h' r' IH']; cbn [set_task map]; [intros [H|[]]; auto|].
        destruct (tid_eqb (t_id x) (t_id h')) eqn:E'.
        - apply tid_eqb_eq in E'. cbn [map In]. intros [H|H]; [left; auto | right; right; exact H].
        - destruct (tid_ltb (t_id x) (t_id h')); cbn [map In]; [intros [H|H]; auto|].
          intros [H|H]; [right; left; exact H|]. destruct (IH' H); auto. }
      destruct (Hsplit Hy) as [->|Hin]; [apply tlt_total; [exact E | exact L] | auto].
Qed.

Lemma set_task_new_keys ts x :
  find_task ts (t_id x) = None ->
  forall k, In k (map key (set_task ts x)) <-> key x = k \/ In k (map key ts).
Proof.
  induction ts as [|h r IH]; cbn [find_task set_task map]; intros Hf k.
  - cbn. tauto.
  - destruct (tid_eqb (t_id x) (t_id h)) eqn:E; [discriminate|].
    destruct (tid_ltb (t_id x) (t_id h)); cbn [map In]; [tauto|].
    rewrite (IH Hf). tauto.
Qed.

(** Deleting a task. *)
Lemma del_task_keys ts id :
  StronglySorted tlt (map t_id ts) ->
  StronglySorted tlt (map t_id (del_task ts id)) /\
  (forall k, In k (map key (del_task ts id)) <-> In k (map key ts) /\ fst k <> id).
Proof.
  induction ts as [|h r IH]; cbn [del_task map]; intros Hs.
  - split; [constructor|]. intros k. cbn. tauto.
  - inversion Hs as [|? ? Hs' Hall]; subst. destruct (IH Hs') as [IS IK].
    destruct (tid_eqb id (t_id h)) eqn:E.
    + apply tid_eqb_eq in E. subst id. split; [exact Hs'|]. intros k. cbn [In]. split.
      * intros Hk. split; [right; exact Hk|]. intros Heq.
        apply (in_map fst) in Hk. rewrite map_fst_keys in Hk. rewrite Forall_forall in Hall.
        specialize (Hall _ Hk). rewrite Heq in Hall. exact (tlt_irrefl _ Hall).
      * intros [[Hk|Hk] Hne]; [subst k; cbn in Hne; congruence | exact Hk].
    + apply tid_eqb_neq in E. cbn [map]. split.
      * constructor; [exact IS|]. rewrite Forall_forall in *. intros y Hy.
        apply Hall. clear -Hy. induction r as [|h' r' IH']; cbn [del_task map] in *; [exact Hy|].
        destruct (tid_eqb id (t_id h')); [right; exact Hy|]. destruct Hy as [Hy|Hy]; [left; exact Hy | right; auto].
      * intros k. cbn [In]. rewrite IK. split.
        -- intros [Hk|[Hk Hne]]; [subst k; split; [left; reflexivity | cbn; congruence] | split; [right; exact Hk | exact Hne]].
        -- intros [[Hk|Hk] Hne]; [left; exact Hk | right; split; assumption].
Qed.

(** * Relations between key sets *)

(** [shrinks K K' X]: exactly the ids in [X] disappeared, consumer lists only got shorter. *)
Record shrinks (K K' : list (tid * list tid)) (X : list tid) : Prop := mkShr {
  shr_sorted : KS K';
  shr_dom : forall t, present K' t <-> present K t /\ ~ In t X;
  shr_cons : forall id cs', In (id, cs') K' -> exists cs, In (id, cs) K /\ incl cs' cs
}.

Lemma shrinks_refl K : KS K -> shrinks K K [].
Proof. intros H. constructor; [exact H | intros t; cbn; tauto | intros id cs H1; exists cs; split; [exact H1 | apply incl_refl]]. Qed.

Lemma shrinks_eq K K' : KS K -> K' = K -> shrinks K K' [].
Proof. intros H ->. apply shrinks_refl. exact H. Qed.

Lemma shrinks_trans K1 K2 K3 X Y : shrinks K1 K2 X -> shrinks K2 K3 Y -> shrinks K1 K3 (X ++ Y).
Proof.
  intros [S1 D1 C1] [S2 D2 C2]. constructor; [exact S2 | |].
  - intros t. rewrite D2, D1, in_app_iff. tauto.
  - intros id cs3 H3. destruct (C2 _ _ H3) as (cs2 & H2 & I2). destruct (C1 _ _ H2) as (cs1 & H1 & I1).
    exists cs1. split; [exact H1 | eapply incl_tran; eassumption].
Qed.

Lemma shrinks_KD K K' X : shrinks K K' X -> KD K -> KD K'.
Proof.
  intros [_ _ C] D id cs x Hin Hx. destruct (C _ _ Hin) as (cs0 & H0 & I0). eapply D; [exact H0 | apply I0; exact Hx].
Qed.

Lemma shrinks_weaken K K' X Y : shrinks K K' X -> (forall t, present K t -> (In t X <-> In t Y)) -> shrinks K K' Y.
Proof.
  intros [S D C] H. constructor; [exact S | | exact C].
  intros t. rewrite D. split; intros [P N]; (split; [exact P|]); rewrite (H t P) in *; exact N.
Qed.

(** * The job layer's view *)
Definition jt (s : st) (id : N) : option (list (N * jstate)) := option_map j_tasks (find_job (h_jobs (hq_of s)) id).
Definition jactive (v : option jstate) : Prop := v = Some JW \/ v = Some JR.
Definition active (s : st) (t : tid) : Prop := exists l, jt s (fst t) = Some l /\ jactive (jt_find l (snd t)).

(** The invariant: the core knows exactly the tasks without outcome. *)
Definition BIJ (s : st) : Prop := forall t, present (keys (core_of s)) t <-> active s t.

Lemma jt_find_set l t v k : jt_find (jt_set l t v) k = if N.eqb k t then Some v else jt_find l k.
Proof.
  induction l as [|[k0 v0] r IH]; cbn [jt_set jt_find]; [reflexivity|].
  destruct (N.eqb t k0) eqn:E1.
  - apply N.eqb_eq in E1. subst k0. cbn [jt_find]. destruct (N.eqb k t); reflexivity.
  - destruct (N.ltb t k0); cbn [jt_find]; [reflexivity|].
    destruct (N.eqb k k0) eqn:E2.
    + apply N.eqb_eq in E2. subst k0. destruct (N.eqb k t) eqn:E3; [apply N.eqb_eq in E3; subst; rewrite N.eqb_refl in E1; discriminate | reflexivity].
    + exact IH.
Qed.

Lemma find_job_set_any js x id : find_job (set_job js x) id = if N.eqb id (j_id x) then Some x else find_job js id.
Proof.
  induction js as [|h r IH]; cbn [set_job find_job]; [reflexivity|].
  destruct (N.eqb (j_id x) (j_id h)) eqn:E1.
  - apply N.eqb_eq in E1. cbn [find_job]. rewrite <- E1. destruct (N.eqb id (j_id x)); reflexivity.
  - destruct (N.ltb (j_id x) (j_id h)); cbn [find_job]; [reflexivity|].
    destruct (N.eqb id (j_id h)) eqn:E2; [apply N.eqb_eq in E2; subst id; rewrite N.eqb_sym, E1; reflexivity | apply IH].
Qed.

Lemma jt_set_job s j id : jt (hq_set_job s j) id = if N.eqb id (j_id j) then Some (j_tasks j) else jt s id.
Proof.
  unfold jt, hq_of, hq_set_job. cbn. rewrite find_job_set_any. destruct (N.eqb id (j_id j)); reflexivity.
Qed.
Lemma jt_emit s o id : jt (emit s o) id = jt s id.
Proof. reflexivity. Qed.
Lemma jt_st_core s c id : jt (st_core s c) id = jt s id.
Proof. reflexivity. Qed.
Lemma jt_same s s' : hq_of s' = hq_of s -> forall id, jt s' id = jt s id.
Proof. intros E id. unfold jt. rewrite E. reflexivity. Qed.
Lemma active_same s s' : (forall id, jt s' id = jt s id) -> forall t, active s' t <-> active s t.
Proof. intros E t. unfold active. rewrite E. reflexivity. Qed.
