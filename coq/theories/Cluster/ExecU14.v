(** C06 "instance ids strictly increase", part 14: [EX] across the operations of the server other
    than the loss of a worker. *)
From HQ Require Import Base.Prelude Cluster.Types Cluster.Core Cluster.Reactor Cluster.Worker Cluster.Server Cluster.Sys Cluster.Monitors Cluster.RejHyp Cluster.ProofsJob Cluster.ProofsMore Cluster.ProofsTerminal Cluster.ProofsStep Cluster.ProofsFinal Cluster.ProofsOnce Cluster.BijBase Cluster.BijCore Cluster.BijHq Cluster.BijSt Cluster.BijReact Cluster.BijFinal Cluster.InvWBase Cluster.InvBundle Cluster.NoPanicL0 Cluster.NoPanicU0 Cluster.NoPanicU1 Cluster.NoPanicU2 Cluster.NoPanicU6 Cluster.NoPanicU8 Cluster.NoPanicU11 Cluster.NoPanicU12 Cluster.ExecU1 Cluster.ExecU2 Cluster.ExecU4 Cluster.ExecU5 Cluster.ExecU6 Cluster.ExecU7 Cluster.ExecU8 Cluster.ExecU9 Cluster.ExecU10 Cluster.ExecU11.
From Coq Require Import ZArith Lia Sorting.Sorted.
Local Open Scope N_scope.

Lemma step_T_given s o x : step_T s o x -> exists p, In p (s_procs s) /\ In x (gives (p_up p)).
Proof.
  destruct o; cbn [step_T]; try (intros []). destruct (find_proc (s_procs s) w) as [p|] eqn:Hp; [|intros []].
  destruct (p_up p) as [|m rest] eqn:Eu; [intros []|]. intros Hx. exists p. split; [exact (proj1 (NoPanicL0.find_proc_some _ _ _ Hp))|].
  rewrite Eu. change (m :: rest) with ([m] ++ rest). rewrite gives_app. apply in_app_iff. left. exact Hx.
Qed.

(** * The generic step: the server function ran on [s1] (= [s], or [s] with one up message taken) *)
Section Via.
Variables (s s' : sys) (pre outs : list out) (o : op) (A : wid -> dmsg -> Prop) (s1 : sys) (o1 : list out).
Hypothesis HE : EX s pre.
Hypothesis HI : INV s.
Hypothesis HI' : INV s'.
Hypothesis HP : PROTO s.
Hypothesis HP' : PROTO s'.
Hypothesis Hstep : step s o = Ok (s', outs).
Hypothesis Hhq : s_hq s1 = s_hq s.
Hypothesis Ho1 : launches o1 = [].
Hypothesis HR : PR A (s1, o1) (s', outs).
Hypothesis Hpop : forall w p1, find_proc (s_procs s1) w = Some p1 ->
  exists p, find_proc (s_procs s) w = Some p /\ p_backlog p1 = p_backlog p /\ p_down p1 = p_down p /\
            forall y, In y (gives (p_up p1)) -> In y (gives (p_up p)).
Hypothesis HC : forall w p1 p' add ct, find_proc (s_procs s1) w = Some p1 -> find_proc (s_procs s') w = Some p' ->
  p_backlog p' = p_backlog p1 -> p_running p' = p_running p1 -> p_up p' = p_up p1 -> p_down p' = p_down p1 ++ add -> Forall (A w) add -> In ct (dcts add) ->
  (exists t', find_task (c_tasks (s_core s')) (ct_id ct) = Some t' /\ ct_inst ct = t_inst t') /\
  (exists t, find_task (c_tasks (s_core s)) (ct_id ct) = Some t /\ (is_waiting t = true \/ step_T s o (ct_id ct))).

Theorem EX_via_PR : EX s' (pre ++ outs).
Proof.
  destruct HR as (L & P & S).
  apply (EX_server s s' pre outs (step_T s o) HE HP HP' (cb_s _ (inv_cb _ HI)) (cb_s _ (inv_cb _ HI'))).
  - unfold LS in L. cbn [snd] in L. rewrite L. exact Ho1.
  - intros x Hx. specialize (S x). unfold hq_of in S. cbn [fst] in S. rewrite Hhq in S. exact (S Hx).
  - intros x t' Hn Hf. exact (new_unseen s s' outs x t' HI HI' (G_step _ _ _ _ (inv_fresh _ HI) Hstep) Hn Hf).
  - exact (step_TT s o s' outs Hstep).
  - apply step_T_given.
  - intros w p' Hp'. destruct (P w p' Hp') as (p1 & add & X1 & X2 & X3 & X4 & X5 & X6). cbn [fst] in X1.
    destruct (Hpop w p1 X1) as (p & Hp & Eb & Ed & Hgs). exists p, add. split; [exact Hp|]. split; [congruence|].
    split; [intros y Hy; apply Hgs; rewrite <- X4; exact Hy|]. split; [congruence|].
    intros ct Hct. exact (HC w p1 p' add ct X1 Hp' X2 X3 X4 X5 X6 Hct).
Qed.
End Via.

Lemma pop_same s : forall w p1, find_proc (s_procs s) w = Some p1 ->
  exists p, find_proc (s_procs s) w = Some p /\ p_backlog p1 = p_backlog p /\ p_down p1 = p_down p /\ forall y, In y (gives (p_up p1)) -> In y (gives (p_up p)).
Proof. intros w p1 H. exists p1. auto. Qed.

Lemma quiet_no_ct w add ct : Forall (quietA w) add -> In ct (dcts add) -> False.
Proof.
  intros H Hin. unfold dcts in Hin. apply in_flat_map in Hin. destruct Hin as (m & Hm & Hc). rewrite Forall_forall in H. specialize (H m Hm).
  destruct m; try destruct Hc. exact H.
Qed.

(** * Client requests *)
Lemma EX_client s pre o s' outs :
  match o with OpSubmit _ _ _ _ _ _ _ _ | OpSubmitG _ _ _ _ | OpOpen _ | OpClose _ | OpCancel _ | OpForget _ => True | _ => False end ->
  EX s pre -> INV s -> INV s' -> PROTO s -> PROTO s' -> step s o = Ok (s', outs) -> EX s' (pre ++ outs).
Proof.
  intros Ho HE HI HI' HP HP' H.
  assert (HR : PR quietA (s, []) (s', outs)).
  { pose proof H as H0. destruct o; try destruct Ho; cbn [step] in H0.
    - destruct (bad_submit_lengths _ _); [inversion H0; subst; apply PR_same; try reflexivity|]. eapply handle_submit_array_PR; [|exact H0]. intros w m Hm; exact Hm.
    - destruct (bad_graph_rq _ _); [inversion H0; subst; apply PR_same; try reflexivity|]. destruct (dead_dep _ _ _); [inversion H0; subst; apply PR_same; try reflexivity|]. eapply handle_submit_graph_PR; [|exact H0]. intros w m Hm; exact Hm.
    - eapply handle_open_PR; exact H0.
    - eapply handle_close_PR; exact H0.
    - eapply handle_cancel_PR; [|exact H0]. intros w m Hm; exact Hm.
    - eapply handle_forget_PR; exact H0. }
  eapply (EX_via_PR s s' pre outs o quietA s [] HE HI HI' HP HP' H eq_refl eq_refl HR (pop_same s)).
  intros w p1 p' add ct _ _ _ _ _ _ Hq Hct. exfalso. exact (quiet_no_ct w add ct Hq Hct).
Qed.

(** * A worker message *)
Lemma pop_up s w p m rest : PROTO s -> find_proc (s_procs s) w = Some p -> p_up p = m :: rest ->
  forall w' p1, find_proc (s_procs (with_procs s (set_proc (s_procs s) (wp_up p rest)))) w' = Some p1 ->
  exists p0, find_proc (s_procs s) w' = Some p0 /\ p_backlog p1 = p_backlog p0 /\ p_down p1 = p_down p0 /\ forall y, In y (gives (p_up p1)) -> In y (gives (p_up p0)).
Proof.
  intros HP Hp Eu w' p1 H1. cbn [s_procs with_procs] in H1. rewrite find_set_proc in H1. cbn [wp_up wp_upd p_id] in H1.
  destruct (NoPanicL0.find_proc_some _ _ _ Hp) as [_ Hid]. rewrite Hid in H1.
  destruct (N.eqb w' w) eqn:E; [|exists p1; auto]. apply N.eqb_eq in E. subst w'. inversion H1; subst p1. exists p. split; [exact Hp|].
  cbn [p_backlog p_down p_up]. split; [reflexivity|]. split; [reflexivity|]. intros y Hy. rewrite Eu. change (m :: rest) with ([m] ++ rest).
  rewrite gives_app. apply in_app_iff. right. exact Hy.
Qed.

Lemma EX_dup s pre w s' outs : EX s pre -> INV s -> INV s' -> PROTO s -> PROTO s' -> step s (OpDUp w) = Ok (s', outs) -> EX s' (pre ++ outs).
Proof.
  intros HE HI HI' HP HP' H. pose proof H as H0. cbn [step] in H0.
  destruct (find_proc (s_procs s) w) as [p|] eqn:Hp; [|discriminate]. destruct (p_up p) as [|m rest] eqn:Eu; [discriminate|].
  set (s1 := with_procs s (set_proc (s_procs s) (wp_up p rest))) in *.
  pose proof (SP_pop s w p m rest [OUp w m] HP (INV_UH _ HI) Hp Eu) as S1. fold s1 in S1.
  destruct m as [us|ids].
  - assert (HR : PR quietA (s1, [OUp w (UUpdates us)]) (s', outs)) by (eapply on_task_update_PR; [intros w0 m Hm; exact Hm | exact S1 | exact H0]).
    eapply (EX_via_PR s s' pre outs (OpDUp w) quietA s1 [OUp w (UUpdates us)] HE HI HI' HP HP' H eq_refl eq_refl HR (pop_up s w p _ rest HP Hp Eu)).
    intros w0 p1 p' add ct _ _ _ _ _ _ Hq Hct. exfalso. exact (quiet_no_ct w0 add ct Hq Hct).
  - pose proof (on_retract_response_PR _ _ _ _ H0) as HR. cbn [core_of fst] in HR.
    eapply (EX_via_PR s s' pre outs (OpDUp w) _ s1 [OUp w (URetractResponse ids)] HE HI HI' HP HP' H eq_refl eq_refl HR (pop_up s w p _ rest HP Hp Eu)).
    intros w0 p1 p' add ct _ _ _ _ _ _ Hq Hct.
    unfold dcts in Hct. apply in_flat_map in Hct. destruct Hct as (m & Hm & Hc). rewrite Forall_forall in Hq. specialize (Hq m Hm).
    destruct m as [cts| | | | | |]; try destruct Hc. cbn [AC] in Hq. destruct (Hq ct Hc) as (Hin & t' & Ht' & Ei).
    assert (HT : step_T s (OpDUp w) (ct_id ct)).
    { cbn [step_T]. rewrite Hp, Eu. cbn [gives flat_map]. rewrite app_nil_r. exact Hin. }
    split; [eauto|].
    destruct (TT_find _ _ _ _ _ _ (cb_s _ (inv_cb _ HI)) (cb_s _ (inv_cb _ HI')) (step_TT s _ s' outs H) Ht') as [(t & Ht & _)|Hn].
    + exists t. split; [exact Ht | right; exact HT].
    + exfalso. pose proof (new_unseen s s' outs _ t' HI HI' (G_step _ _ _ _ (inv_fresh _ HI) H) Hn Ht') as Hns.
      assert (Hs : seen (s_hq s) (ct_id ct) = true).
      { apply (pr_seen _ HP w p _ Hp). unfold proc_tids. apply in_app_iff. right. apply in_app_iff. left. rewrite Eu. cbn [flat_map umsg_tids]. apply in_app_iff. left. exact Hin. }
      congruence.
Qed.

(** * The scheduling round *)
Lemma idc_pos_ct x add ct : In ct (dcts add) -> ct_id ct = x -> (0 < idc (ditems x add))%nat.
Proof.
  intros Hin Hid. rewrite <- dc_ditems. unfold dc. apply ccnt_pos. eauto.
Qed.

Lemma EX_sched s pre sol s' outs : EX s pre -> INV s -> INV s' -> PROTO s -> PROTO s' -> step s (OpSched sol) = Ok (s', outs) -> EX s' (pre ++ outs).
Proof.
  intros HE HI HI' HP HP' H. pose proof H as H0. cbn [step] in H0. destruct (c_flag (s_core s)); [|discriminate].
  pose proof (run_scheduling_PR _ _ _ H0) as HR. cbn [core_of fst] in HR.
  pose proof (run_scheduling_SR _ _ _ H0) as HS. cbn [core_of fst] in HS.
  pose proof (run_scheduling_same _ _ _ H0) as Hh. unfold hq_same, hq_of in Hh. cbn [fst] in Hh.
  eapply (EX_via_PR s s' pre outs (OpSched sol) _ s [] HE HI HI' HP HP' H eq_refl eq_refl HR (pop_same s)).
  intros w p1 p' add ct Hp1 Hp' Eb Er Eu Ed Hq Hct.
  assert (Hac : exists t', find_task (c_tasks (s_core s')) (ct_id ct) = Some t' /\ ct_inst ct = t_inst t').
  { unfold dcts in Hct. apply in_flat_map in Hct. destruct Hct as (m & Hm & Hc). rewrite Forall_forall in Hq. specialize (Hq m Hm).
    destruct m as [cts| | | | | |]; try destruct Hc. cbn [AC] in Hq. exact (proj2 (Hq ct Hc)). }
  split; [exact Hac|]. destruct Hac as (t' & Ht' & _). set (x := ct_id ct) in *.
  (* the task in the old core *)
  destruct (find_task_some _ _ _ Ht') as [Hin' Hid'].
  destruct (HS t' Hin') as (t & Hin & Ei & Hrel).
  assert (Ht : find_task (c_tasks (s_core s)) x = Some t).
  { rewrite <- Hid', <- Ei. apply in_find_task; [exact (CS_sorted _ (cb_s _ (inv_cb _ HI))) | exact Hin]. }
  exists t. split; [exact Ht|]. left.
  (* the words of (w, x) before and after *)
  pose proof (pr_words _ HP' w p' x t' Hp' Ht') as Hl'. rewrite Ed, ditems_app, Eu in Hl'.
  rewrite (local_eq p1 p' x Er Eb) in Hl'.
  destruct (lang_new_copy _ _ _ _ _ Hl' (idc_pos_ct x add ct Hct eq_refl)) as (HD & HU & HL & Hv').
  pose proof (pr_words _ HP w p1 x t Hp1 Ht) as Hl. rewrite HD, HU, HL in Hl.
  apply lang_empty in Hl. rewrite Hh in Hv'.
  destruct Hrel as [Es|[Hw|(w0 & Es & Es')]]; [|exact Hw|]; exfalso.
  - rewrite Es in Hv'. destruct Hl as [E|[(rv & E)|E]]; rewrite E in Hv'; destruct Hv' as [(rv' & X)|[X|[X|X]]]; discriminate.
  - rewrite Es' in Hv'. rewrite Es in Hl. cbn [view_of] in Hv', Hl. destruct (N.eqb w0 w).
    + destruct Hl as [E|[(rv & E)|E]]; discriminate.
    + destruct Hv' as [(rv' & X)|[X|[X|X]]]; discriminate.
Qed.
