(** C06 "one live execution per task", part 2: the invariant [RU] - for every task, the number of
    processes running it plus the number of its copies is at most one - in every reachable state;
    [single_execution]. *)
From HQ Require Import Base.Prelude Cluster.Types Cluster.Core Cluster.Reactor Cluster.Worker Cluster.Server Cluster.Sys Cluster.Monitors Cluster.RejHyp Cluster.ProofsJob Cluster.ProofsMore Cluster.ProofsTerminal Cluster.ProofsStep Cluster.ProofsFinal Cluster.ProofsOnce Cluster.BijBase Cluster.BijCore Cluster.BijHq Cluster.BijSt Cluster.BijReact Cluster.BijFinal Cluster.InvWBase Cluster.InvDStep Cluster.InvBundle Cluster.InvProcsDef Cluster.NoPanicL0 Cluster.NoPanicU0 Cluster.NoPanicU1 Cluster.NoPanicU2 Cluster.NoPanicU6 Cluster.NoPanicU8 Cluster.NoPanicU11 Cluster.NoPanicU12 Cluster.NoPanicU20 Cluster.ExecU1 Cluster.ExecU4 Cluster.ExecU5 Cluster.ExecU6 Cluster.ExecU7 Cluster.ExecU9 Cluster.ExecU10 Cluster.ExecU11 Cluster.ExecU13 Cluster.ExecU14 Cluster.ExecU15 Cluster.ExecU17.
From Coq Require Import ZArith Lia Sorting.Sorted.
Local Open Scope N_scope.

Definition RU (s : sys) : Prop := forall x, (psum (ex1 x) (s_procs s) <= 1)%nat.

(** * A task the server knows *)
Definition lrun (L : litem) : nat := match L with LRun _ => 1%nat | _ => O end.
Lemma lang_ex1 v U L D : lang v U L D = true -> (idc D + lcp L + lrun L <= 1)%nat /\ (v = VN -> (idc D + lcp L + lrun L = 0)%nat).
Proof. intros H. lang_auto H; cbn; split; intros; try lia; try discriminate. Qed.

Lemma local_lrun p x : local p x <> LBad -> rn x p = lrun (local p x).
Proof. unfold local, rn. destruct (run_find (p_running p) x); destruct (bl_count x (p_backlog p)) as [|[|k]]; cbn; congruence. Qed.

Lemma psum_zero f ps : (forall p, In p ps -> f p = O) -> psum f ps = O.
Proof. induction ps as [|h r IH]; intros H; [reflexivity|]. cbn [psum]. rewrite (H h (or_introl eq_refl)), IH; [reflexivity | intros p Hp; apply H; right; exact Hp]. Qed.

Lemma psum_one f ps w0 : NoPanicU1.psorted ps -> (forall p, In p ps -> (f p <= 1)%nat) -> (forall p, In p ps -> p_id p <> w0 -> f p = O) -> (psum f ps <= 1)%nat.
Proof.
  unfold NoPanicU1.psorted. induction ps as [|h r IH]; intros Hs H1 H0; [cbn; lia|]. cbn [psum].
  inversion Hs as [|? ? Hs' Hall]; subst. rewrite Forall_forall in Hall.
  destruct (N.eq_dec (p_id h) w0) as [E|E].
  - assert (Hz : psum f r = O).
    { apply psum_zero. intros p Hp. apply H0; [right; exact Hp|]. specialize (Hall _ (in_map p_id _ _ Hp)). lia. }
    specialize (H1 h (or_introl eq_refl)). lia.
  - rewrite (H0 h (or_introl eq_refl) E). apply IH; [exact Hs' | intros p Hp; apply H1; right; exact Hp | intros p Hp; apply H0; right; exact Hp].
Qed.

Lemma known_ex1_proc s x t w p : PROTO s -> find_task (c_tasks (s_core s)) x = Some t -> find_proc (s_procs s) w = Some p ->
  (ex1 x p <= 1)%nat /\ (view_of (t_state t) w (job_running (s_hq s) x) = VN -> ex1 x p = O).
Proof.
  intros HP Hf Hp. destruct (known_word s HP x t Hf w p Hp) as [Hl Epc]. destruct (lang_copies _ _ _ _ Hl) as (_ & _ & _ & _ & Hb).
  unfold ex1. rewrite Epc, (local_lrun _ _ Hb). destruct (lang_ex1 _ _ _ _ Hl) as [A B]. split; [lia | intros Ev; specialize (B Ev); lia].
Qed.

Lemma known_ex1 s x t : PROTO s -> find_task (c_tasks (s_core s)) x = Some t -> (psum (ex1 x) (s_procs s) <= 1)%nat.
Proof.
  intros HP Hf. pose proof (pr_sorted _ HP) as Hs.
  assert (Hz : forall w0, (vw (t_state t) = Some w0 \/ vw (t_state t) = None) -> forall p, In p (s_procs s) -> p_id p <> w0 -> ex1 x p = O).
  { intros w0 Hv p Hp Hn. apply (proj2 (known_ex1_proc s x t _ p HP Hf (in_find_proc _ _ Hs Hp))).
    destruct (view_of (t_state t) (p_id p) (job_running (s_hq s) x)) eqn:E; try reflexivity;
      exfalso; assert (X : vw (t_state t) = Some (p_id p)) by (eapply view_vw; rewrite E; discriminate); destruct Hv as [Hv|Hv]; congruence. }
  destruct (vw (t_state t)) as [w0|] eqn:Ev.
  - apply (psum_one _ _ w0 Hs); [intros p Hp; exact (proj1 (known_ex1_proc s x t _ p HP Hf (in_find_proc _ _ Hs Hp))) | apply Hz; left; reflexivity].
  - apply (psum_one _ _ 0 Hs); [intros p Hp; exact (proj1 (known_ex1_proc s x t _ p HP Hf (in_find_proc _ _ Hs Hp))) | apply Hz; right; reflexivity].
Qed.

(** * Worker events *)
Lemma running_sorted s w p : PROTO s -> find_proc (s_procs s) w = Some p -> StronglySorted tlt (map fst (p_running p)).
Proof. intros HP Hp. apply lok_sorted. apply local_ok_LOK. exact (pr_local _ HP _ _ Hp). Qed.

Lemma RU_set_proc s w p p' : PROTO s -> RU s -> find_proc (s_procs s) w = Some p -> p_id p' = w ->
  (forall x, (ex1 x p' <= ex1 x p)%nat) -> RU (with_procs s (set_proc (s_procs s) p')).
Proof.
  intros HP HR Hp Hid Hle x. cbn [s_procs with_procs]. pose proof (psum_set_proc (ex1 x) _ w p p' (pr_sorted _ HP) Hp Hid). specialize (HR x). specialize (Hle x). lia.
Qed.

Lemma RU_ddown s w order s' outs : PROTO s -> RU s -> step s (OpDDown w order) = Ok (s', outs) -> RU s'.
Proof.
  intros HP HR H. cbn [step] in H. destruct (find_proc (s_procs s) w) as [p|] eqn:Hp; [|discriminate].
  destruct (p_down p) as [|m rest] eqn:Ed; [discriminate|]. apply bind_ok in H. destruct H as ([p' ls] & Hm & H). inversion H; subst s' outs. clear H.
  destruct (NoPanicL0.find_proc_some _ _ _ Hp) as [_ Hid].
  assert (Hs : StronglySorted N.lt (map fst (p_backlog (wp_down p rest)))) by (cbn; exact (backlog_sorted s w p HP Hp)).
  destruct (pwm_eff _ _ _ _ _ Hm Hs) as (newg & _ & _ & (W1 & _ & _)).
  apply (RU_set_proc s w p p' HP HR Hp); [rewrite (process_worker_message_id _ _ _ _ _ Hm); exact Hid|].
  intros x. specialize (W1 x). pose proof (pwm_rn _ _ _ _ _ x Hm) as Hr. change (rn x (wp_down p rest)) with (rn x p) in Hr.
  unfold ex1. assert (E : pc x p = (dc x [m] + pc x (wp_down p rest))%nat).
  { unfold pc. rewrite Ed. cbn [p_down p_backlog wp_down wp_upd]. change (m :: rest) with ([m] ++ rest). rewrite dc_app. lia. }
  lia.
Qed.

Lemma RU_end s w t how s' outs : PROTO s -> RU s -> step s (OpEnd w t how) = Ok (s', outs) -> RU s'.
Proof.
  intros HP HR H. cbn [step] in H. destruct (find_proc (s_procs s) w) as [p|] eqn:Hp; [|discriminate].
  apply bind_ok in H. destruct H as ([p' ls] & Hm & H). inversion H; subst s' outs. clear H.
  destruct (NoPanicL0.find_proc_some _ _ _ Hp) as [_ Hid].
  destruct (task_end_eff _ _ _ _ _ Hm (backlog_sorted s w p HP Hp)) as (_ & _ & (W1 & _ & _)).
  apply (RU_set_proc s w p p' HP HR Hp); [rewrite (task_end_id _ _ _ _ _ Hm); exact Hid|].
  intros x. specialize (W1 x). pose proof (task_end_rn _ _ _ _ _ x (running_sorted s w p HP Hp) Hm). unfold ex1. lia.
Qed.

(** * Operations that keep the copies and running sets *)
Lemma RU_map s (f : wproc -> wproc) : RU s -> (forall p x, ex1 x (f p) = ex1 x p) -> RU (with_procs s (map f (s_procs s))).
Proof. intros HR Hf x. cbn [s_procs with_procs]. rewrite psum_map by (intros p; apply Hf). exact (HR x). Qed.

(** * Operations of the server (other than the loss of a worker) *)
Definition frame (s s' : sys) : Prop :=
  forall w p', find_proc (s_procs s') w = Some p' ->
    exists p add, find_proc (s_procs s) w = Some p /\ p_backlog p' = p_backlog p /\ p_running p' = p_running p /\ p_down p' = p_down p ++ add /\
      forall ct, In ct (dcts add) -> exists t', find_task (c_tasks (s_core s')) (ct_id ct) = Some t'.

Lemma frame_of_PR s s1 o1 s' outs (T : tid -> Prop) :
  PR (AC (s_core s') T) (s1, o1) (s', outs) ->
  (forall w p1, find_proc (s_procs s1) w = Some p1 -> exists p, find_proc (s_procs s) w = Some p /\ p_backlog p1 = p_backlog p /\ p_running p1 = p_running p /\ p_down p1 = p_down p) ->
  frame s s'.
Proof.
  intros (_ & P & _) Hpop w p' Hp'. destruct (P w p' Hp') as (p1 & add & X1 & X2 & X3 & X4 & X5 & X6). cbn [fst] in X1.
  destruct (Hpop w p1 X1) as (p & Hp & Eb & Er & Ed). exists p, add. split; [exact Hp|]. split; [congruence|]. split; [congruence|]. split; [congruence|].
  intros ct Hct. unfold dcts in Hct. apply in_flat_map in Hct. destruct Hct as (m & Hm & Hc). rewrite Forall_forall in X6. specialize (X6 m Hm).
  destruct m as [cts| | | | | |]; try destruct Hc. cbn [AC] in X6. destruct (X6 ct Hc) as (_ & t' & Ht' & _). eauto.
Qed.

Lemma pop_same_r s : forall w p1, find_proc (s_procs s) w = Some p1 ->
  exists p, find_proc (s_procs s) w = Some p /\ p_backlog p1 = p_backlog p /\ p_running p1 = p_running p /\ p_down p1 = p_down p.
Proof. intros w p1 H. exists p1. auto. Qed.

Lemma step_frame s o s' outs :
  match o with OpSubmit _ _ _ _ _ _ _ _ | OpSubmitG _ _ _ _ | OpOpen _ | OpClose _ | OpCancel _ | OpForget _ | OpDUp _ | OpSched _ => True | _ => False end ->
  INV s -> PROTO s -> step s o = Ok (s', outs) -> frame s s'.
Proof.
  intros Ho HI HP H. pose proof H as H0.
  assert (Hq : forall s1 o1, PR quietA (s1, o1) (s', outs) -> PR (AC (s_core s') (fun _ => True)) (s1, o1) (s', outs)).
  { intros s1 o1 HR. eapply PR_weaken; [|exact HR]. intros w m Hm. apply AC_quiet. exact Hm. }
  destruct o; try destruct Ho; cbn [step] in H0.
  - eapply (frame_of_PR s s []); [apply Hq | apply pop_same_r].
    destruct (bad_submit_lengths _ _); [inversion H0; subst; apply PR_same; reflexivity|]. eapply handle_submit_array_PR; [|exact H0]; intros w m Hm; exact Hm.
  - eapply (frame_of_PR s s []); [apply Hq | apply pop_same_r].
    destruct (bad_graph_rq _ _); [inversion H0; subst; apply PR_same; reflexivity|]. destruct (dead_dep _ _ _); [inversion H0; subst; apply PR_same; reflexivity|]. eapply handle_submit_graph_PR; [|exact H0]. intros w m Hm; exact Hm.
  - eapply (frame_of_PR s s []); [apply Hq; eapply handle_open_PR; exact H0 | apply pop_same_r].
  - eapply (frame_of_PR s s []); [apply Hq; eapply handle_close_PR; exact H0 | apply pop_same_r].
  - eapply (frame_of_PR s s []); [apply Hq; eapply handle_cancel_PR; [|exact H0]; intros w m Hm; exact Hm | apply pop_same_r].
  - eapply (frame_of_PR s s []); [apply Hq; eapply handle_forget_PR; exact H0 | apply pop_same_r].
  - destruct (find_proc (s_procs s) w) as [p|] eqn:Hp; [|discriminate]. destruct (p_up p) as [|m rest] eqn:Eu; [discriminate|].
    set (s1 := with_procs s (set_proc (s_procs s) (wp_up p rest))) in *.
    assert (Hpop : forall w0 p1, find_proc (s_procs s1) w0 = Some p1 -> exists p0, find_proc (s_procs s) w0 = Some p0 /\ p_backlog p1 = p_backlog p0 /\ p_running p1 = p_running p0 /\ p_down p1 = p_down p0).
    { intros w0 p1 H1. cbn [s1 s_procs with_procs] in H1. rewrite find_set_proc in H1. cbn [wp_up wp_upd p_id] in H1.
      destruct (NoPanicL0.find_proc_some _ _ _ Hp) as [_ Hid]. rewrite Hid in H1.
      destruct (N.eqb w0 w) eqn:E; [|exists p1; auto]. apply N.eqb_eq in E. subst w0. inversion H1; subst p1. exists p. auto. }
    pose proof (SP_pop s w p m rest [OUp w m] HP (INV_UH _ HI) Hp Eu) as S1. fold s1 in S1.
    destruct m as [us|ids].
    + eapply (frame_of_PR s s1 [OUp w (UUpdates us)]); [apply Hq; eapply on_task_update_PR; [intros w0 m Hm; exact Hm | exact S1 | exact H0] | exact Hpop].
    + eapply (frame_of_PR s s1 [OUp w (URetractResponse ids)]); [exact (on_retract_response_PR _ _ _ _ H0) | exact Hpop].
  - destruct (c_flag (s_core s)); [|discriminate]. eapply (frame_of_PR s s []); [exact (run_scheduling_PR _ _ _ H0) | apply pop_same_r].
Qed.

Lemma RU_frame s s' : PROTO s -> PROTO s' -> RU s -> frame s s' -> RU s'.
Proof.
  intros HP HP' HR HF x. destruct (find_task (c_tasks (s_core s')) x) as [t'|] eqn:Ef; [exact (known_ex1 s' x t' HP' Ef)|].
  specialize (HR x). assert (Hle : (psum (ex1 x) (s_procs s') <= psum (ex1 x) (s_procs s))%nat); [|lia].
  apply psum_le; [exact (pr_sorted _ HP') | exact (pr_sorted _ HP)|]. intros p' Hin'.
  destruct (HF _ _ (in_find_proc _ _ (pr_sorted _ HP') Hin')) as (p & add & Hf & Eb & Er & Ed & Hadd). exists p. split; [exact Hf|].
  unfold ex1, rn. rewrite Er, (pc_app_down x p p' add Eb Ed). assert (Hz : dc x add = O); [|lia].
  unfold dc. destruct (ccnt x (dcts add)) eqn:E; [reflexivity|]. exfalso.
  assert (Hpos : (0 < ccnt x (dcts add))%nat) by lia. apply ccnt_pos in Hpos. destruct Hpos as (ct & Hct & Hid).
  destruct (Hadd ct Hct) as (t' & Ht'). rewrite Hid in Ht'. congruence.
Qed.

(** * The loss of a worker *)
Lemma psum_del_placed s x t w : PROTO s -> find_task (c_tasks (s_core s)) x = Some t -> vw (t_state t) = Some w -> psum (ex1 x) (del_proc (s_procs s) w) = O.
Proof.
  intros HP Hf Hv. pose proof (pr_sorted _ HP) as Hs. apply psum_zero. intros p Hp.
  assert (Hin : In p (s_procs s) /\ p_id p <> w).
  { clear -Hs Hp. unfold NoPanicU1.psorted in Hs. induction (s_procs s) as [|h r IH]; [destruct Hp|]. cbn [del_proc] in Hp.
    inversion Hs as [|? ? Hs' Hall]; subst. rewrite Forall_forall in Hall. destruct (N.eqb w (p_id h)) eqn:E.
    - apply N.eqb_eq in E. split; [right; exact Hp|]. specialize (Hall _ (in_map p_id _ _ Hp)). lia.
    - destruct Hp as [->|Hp]; [split; [left; reflexivity | intros X; rewrite X, N.eqb_refl in E; discriminate]|].
      destruct (IH Hs' Hp) as [A B]. split; [right; exact A | exact B]. }
  destruct Hin as [Hin Hne]. apply (proj2 (known_ex1_proc s x t _ p HP Hf (in_find_proc _ _ Hs Hin))).
  destruct (view_of (t_state t) (p_id p) (job_running (s_hq s) x)) eqn:E; try reflexivity;
    exfalso; apply Hne; assert (X : vw (t_state t) = Some (p_id p)) by (eapply view_vw; rewrite E; discriminate); congruence.
Qed.

Lemma RU_lost s w reason a p t s' outs : INV s -> PROTO s -> PROTO s' -> RU s -> step s (OpLost w reason a p t) = Ok (s', outs) -> RU s'.
Proof.
  intros HI HP HP' HR H x. destruct (find_task (c_tasks (s_core s')) x) as [t'|] eqn:Ef; [exact (known_ex1 s' x t' HP' Ef)|].
  cbn [step] in H. destruct (find_proc (s_procs s) w) as [pw|] eqn:Hpw; [|discriminate].
  pose proof (pr_sorted _ HP) as Hps. pose proof (pr_sorted _ HP') as Hps'.
  destruct (on_remove_worker_EXF (s, []) w reason a p t (s', outs) (inv_cb _ HI) Hps Hps' H) as (_ & _ & PFL & CCL).
  cbn [fst core_of] in PFL, CCL.
  assert (Hrc : (rc x (s_procs s') <= rc x (del_proc (s_procs s) w))%nat).
  { assert (E : forall ps, rc x ps = psum (rn x) ps) by (induction ps as [|h r IH]; [reflexivity | cbn [rc psum]; rewrite IH; reflexivity]).
    rewrite !E. apply psum_le; [exact Hps' | apply del_proc_sorted; exact Hps|]. intros p' Hin'.
    destruct (PFL _ _ (in_find_proc _ _ Hps' Hin')) as (Hne & p0 & add & Hf0 & _ & Er & _). exists p0. split.
    - rewrite find_del_proc by exact Hps. destruct (N.eqb (p_id p') w) eqn:E2; [apply N.eqb_eq in E2; contradiction | exact Hf0].
    - unfold rn. rewrite Er. lia. }
  rewrite psum_ex1. specialize (HR x). pose proof (psum_del_le (ex1 x) (s_procs s) w) as Hd. rewrite psum_ex1 in Hd.
  destruct (CCL x) as [Hc|[Hc (t0 & Ht0 & Est0)]]; [lia|].
  pose proof (psum_del_placed s x t0 w HP Ht0 ltac:(rewrite Est0; reflexivity)) as Hz. rewrite psum_ex1 in Hz. lia.
Qed.

(** * Every operation, every history *)
Theorem step_RU s o s' outs : INV s -> PROTO s -> PROTO s' -> RU s -> step s o = Ok (s', outs) -> RU s'.
Proof.
  intros HI HP HP' HR H. destruct o.
  - (* connect *) cbn [step] in H. unfold on_new_worker in H. cbv zeta in H. inversion H; subst s' outs. clear H.
    cbn [fst snd emit ask_scheduling st_core with_core with_procs broadcast core_of s_core s_procs s_hq].
    intros x. cbn [s_procs s_core s_hq with_procs with_core core_of fst snd]. match goal with |- (psum _ (set_proc ?ps ?np) <= _)%nat => pose proof (psum_set_proc_le (ex1 x) ps np) as Hc; assert (Hz : ex1 x np = O) by reflexivity end.
    rewrite psum_map in Hc by (intros q; unfold ex1, rn; rewrite pc_push_quiet by exact I; reflexivity). specialize (HR x). lia.
  - exact (RU_lost s _ _ _ _ _ s' outs HI HP HP' HR H).
  - eapply RU_frame; [exact HP | exact HP' | exact HR | eapply step_frame; [| exact HI | exact HP | exact H]; exact I].
  - eapply RU_frame; [exact HP | exact HP' | exact HR | eapply step_frame; [| exact HI | exact HP | exact H]; exact I].
  - eapply RU_frame; [exact HP | exact HP' | exact HR | eapply step_frame; [| exact HI | exact HP | exact H]; exact I].
  - eapply RU_frame; [exact HP | exact HP' | exact HR | eapply step_frame; [| exact HI | exact HP | exact H]; exact I].
  - eapply RU_frame; [exact HP | exact HP' | exact HR | eapply step_frame; [| exact HI | exact HP | exact H]; exact I].
  - eapply RU_frame; [exact HP | exact HP' | exact HR | eapply step_frame; [| exact HI | exact HP | exact H]; exact I].
  - exact (RU_ddown s _ _ s' outs HP HR H).
  - eapply RU_frame; [exact HP | exact HP' | exact HR | eapply step_frame; [| exact HI | exact HP | exact H]; exact I].
  - eapply RU_frame; [exact HP | exact HP' | exact HR | eapply step_frame; [| exact HI | exact HP | exact H]; exact I].
  - exact (RU_end s _ _ _ s' outs HP HR H).
  - (* failnext *) cbn [step] in H. destruct (find_proc (s_procs s) w) as [p|] eqn:Hp; [|discriminate]. inversion H; subst s' outs.
    apply (RU_set_proc s w p _ HP HR Hp); [exact (proj2 (NoPanicL0.find_proc_some _ _ _ Hp)) | intros x; unfold ex1, rn, pc; cbn [p_running p_down p_backlog wp_failnext wp_upd]; lia].
  - (* timer *) cbn [step] in H. inversion H; subst s' outs. apply RU_map; [exact HR|]. intros p x.
    assert (E : forall ts q, p_running (fold_left timer_fire ts q) = p_running q).
    { induction ts as [|t0 r IH]; intros q; [reflexivity|]. cbn [fold_left]. rewrite IH. unfold timer_fire. cbn. destruct (fu_find _ t0) as [[|]|]; reflexivity. }
    destruct (timer_fold_frame (p_timers p) p) as (A & B & _). cbv zeta in A, B. unfold ex1, rn, pc. rewrite A, B, E. reflexivity.
  - (* prune *) cbn [step] in H. apply bind_ok in H. destruct H as (lj & _ & H). inversion H; subst. exact HR.
Qed.

Theorem reachable_RU ops : forall reserve maxfill s outs,
  Forall op_wf ops -> ops_ok (init_sys reserve maxfill) ops = true -> run (init_sys reserve maxfill) ops = Ok (s, outs) -> RU s.
Proof.
  induction ops as [|o pre IH] using rev_ind; intros reserve maxfill s outs Hwf Hok H.
  - cbn in H. inversion H; subst. intros x. cbn. lia.
  - pose proof (proj1 (reachable_PROTO _ _ _ _ _ Hwf Hok H)) as HP'.
    apply Forall_app in Hwf. destruct Hwf as [Hwf1 Hwf2]. destruct (ops_ok_snoc _ _ _ Hok) as [Hok1 _].
    destruct (run_app _ _ _ _ _ H) as (s1 & o1 & o2 & H1 & H2 & ->). cbn [run] in H2. apply bind_ok in H2. destruct H2 as ([s2 o3] & Hs & H2). cbn in H2. inversion H2; subst s2 o2. clear H2.
    eapply step_RU; [exact (reachable_INV_ops _ _ _ _ _ Hwf1 Hok1 H1) | exact (proj1 (reachable_PROTO _ _ _ _ _ Hwf1 Hok1 H1)) | exact HP' | exact (IH _ _ _ _ Hwf1 Hok1 H1) | exact Hs].
Qed.

(** * C06: one live execution per task *)
Lemma in_del_other ps p w : In p ps -> p_id p <> w -> In p (del_proc ps w).
Proof.
  induction ps as [|h r IH]; [intros []|]. cbn [del_proc]. intros [->|Hin] Hne.
  - destruct (N.eqb w (p_id p)) eqn:E; [apply N.eqb_eq in E; congruence | left; reflexivity].
  - destruct (N.eqb w (p_id h)); [exact Hin | right; apply IH; assumption].
Qed.

Lemma psum_two f ps p1 p2 : NoPanicU1.psorted ps -> In p1 ps -> In p2 ps -> p_id p1 <> p_id p2 -> (f p1 + f p2 <= psum f ps)%nat.
Proof.
  intros Hs H1 H2 Hne. rewrite (psum_del f ps _ _ Hs (in_find_proc _ _ Hs H1)).
  pose proof (psum_in f _ p2 (in_del_other _ _ _ H2 (fun E => Hne (eq_sym E)))). lia.
Qed.

(** In every reachable state: a task that is running on one worker process is neither running on
    another one nor held as a copy (compute entry in flight / backlog entry) by another one.
    (A multi-node task is launched by its root worker only: the other workers of its set get no
    compute message.) *)
Theorem single_execution ops reserve maxfill s outs :
  Forall op_wf ops -> ops_ok (init_sys reserve maxfill) ops = true -> run (init_sys reserve maxfill) ops = Ok (s, outs) ->
  forall p1 p2 x, In p1 (s_procs s) -> In p2 (s_procs s) -> p_id p1 <> p_id p2 ->
    run_find (p_running p1) x <> None -> run_find (p_running p2) x = None /\ pc x p2 = O.
Proof.
  intros Hwf Hok H p1 p2 x H1 H2 Hne Hr.
  pose proof (reachable_RU _ _ _ _ _ Hwf Hok H x) as HR.
  pose proof (pr_sorted _ (proj1 (reachable_PROTO _ _ _ _ _ Hwf Hok H))) as Hs.
  pose proof (psum_two (ex1 x) _ p1 p2 Hs H1 H2 Hne) as Ht. set (S := psum (ex1 x) (s_procs s)) in *. unfold ex1, rn in Ht.
  destruct (run_find (p_running p1) x); [|congruence]. destruct (run_find (p_running p2) x); [exfalso; lia|]. split; [reflexivity | lia].
Qed.

(** ... in the executable form of Monitors.v. *)
Theorem single_execution_monitor ops reserve maxfill s outs :
  Forall op_wf ops -> ops_ok (init_sys reserve maxfill) ops = true -> run (init_sys reserve maxfill) ops = Ok (s, outs) ->
  Monitors.single_execution_ok s = true.
Proof.
  intros Hwf Hok H. unfold single_execution_ok. apply forallb_forall. intros p Hp. apply forallb_forall. intros [x rv] Hr.
  apply negb_true_iff. destruct (existsb _ (s_procs s)) eqn:E; [|reflexivity]. exfalso.
  apply existsb_exists in E. destruct E as (p' & Hp' & E). apply andb_true_iff in E. destruct E as [E1 E2].
  apply negb_true_iff, N.eqb_neq in E1. cbn [fst] in E2.
  assert (Hrun : run_find (p_running p) x <> None).
  { clear -Hr. induction (p_running p) as [|[k v] r IH]; [destruct Hr|]. cbn [run_find]. destruct (tid_eqb x k) eqn:Ek; [discriminate|].
    destruct Hr as [Hr|Hr]; [inversion Hr; subst; rewrite NoPanicU1.tid_eqb_refl in Ek; discriminate | exact (IH Hr)]. }
  destruct (single_execution _ _ _ _ _ Hwf Hok H p p' x Hp Hp' (fun X => E1 (eq_sym X)) Hrun) as [Hn _]. rewrite Hn in E2. discriminate.
Qed.

Print Assumptions single_execution.
Print Assumptions single_execution_monitor.
