(** Bridge, part 4: the tako reactor, worker loss, and the client handlers against the journal machine. *)
From HQ Require Import Base.Prelude Cluster.Types Cluster.Core Cluster.Reactor Cluster.Worker Cluster.Server Cluster.Sys Cluster.ProofsJob Cluster.ProofsMore Cluster.ProofsStep Cluster.ProofsOnce Cluster.DepOrderBase Cluster.SilentBase.
From HQ Require Journal.Event Journal.Restore Journal.Gen Journal.Maps.
From HQ Require Import Cluster.Bridge Cluster.BridgeRel Cluster.BridgeEv Cluster.BridgeJob.
From Coq Require Import ZArith Lia.
Require Import ZifyBool ZifyN ZifyNat.
Local Open Scope N_scope.
Arguments N.add : simpl never.
Arguments N.sub : simpl never.
Arguments N.ltb : simpl never.
Arguments N.eqb : simpl never.

Lemma task_failed_sim specs s w id k s' : HOK (hq_of s) -> task_failed s w id k = Ok s' -> SimF specs s s'.
Proof.
  intros H Hc. unfold task_failed in Hc.
  destruct (find_task _ id) as [t|]; [|inversion Hc; subst; apply SimF_refl].
  inv_binds Hc.
  match goal with X : process_task_failed ?s0 _ _ _ = Ok (?s1, ?ids) |- _ =>
    assert (S1 : SimF specs s0 s1) by (eapply process_task_failed_sim; [|exact X]; exact H);
    destruct ids; [inversion Hc; subst; eapply SimF_trans; [|exact S1]; apply SimF_same; reflexivity|] end.
  eapply SimF_trans; [|eapply SimF_trans; [exact S1|]]; [apply SimF_same; reflexivity|].
  apply SimF_same; [eapply on_cancel_tasks_hq; exact Hc | eapply on_cancel_tasks_snd; exact Hc].
Qed.

Lemma task_finished_sim specs s w id s' b : HOK (hq_of s) -> task_finished s w id = Ok (s', b) -> SimF specs s s'.
Proof.
  intros H Hc. unfold task_finished in Hc.
  destruct (find_task _ id) as [t|]; [|inversion Hc; subst; apply SimF_refl].
  inv_binds Hc.
  match goal with X : process_task_finished ?s0 _ = Ok ?s1 |- _ =>
    assert (S1 : SimF specs s0 s1) by (eapply process_task_finished_sim; [|exact X]; exact H) end.
  match goal with X : process_retracted _ _ = Ok _ |- _ => pose proof (process_retracted_hq _ _ _ X) as Q2; pose proof (process_retracted_snd _ _ _ X) as P2 end.
  match type of Hc with match ?st with _ => _ end = _ => destruct st; try discriminate end.
  inversion Hc; subst.
  eapply SimF_trans; [apply SimF_same; reflexivity|]. eapply SimF_trans; [exact S1|].
  apply SimF_same; [exact Q2 | exact P2].
Qed.

Lemma task_running_sim specs s w id rv s' b : task_running s w id rv = Ok (s', b) -> SimF specs s s'.
Proof.
  intros Hc. unfold task_running in Hc.
  destruct (find_task _ id) as [t|]; [|inversion Hc; subst; apply SimF_refl].
  inv_binds Hc. inversion Hc; subst.
  match goal with X : process_task_started ?s1 _ _ _ _ = Ok _ |- _ =>
    eapply SimF_trans; [|eapply process_task_started_sim; exact X] end.
  match goal with X : match t_state t with _ => _ end = Ok _ |- _ => rename X into Hm end.
  destruct (t_state t); try discriminate.
  - destruct (negb (N.eqb w0 w)); [discriminate|]. destruct (negb (N.eqb rv0 rv)); [discriminate|]. inversion Hm; subst. apply SimF_same; reflexivity.
  - destruct (negb (N.eqb w0 w)); [discriminate|]. inv_binds Hm. inversion Hm; subst. apply SimF_same; reflexivity.
  - destruct (negb (N.eqb w0 w)); [discriminate|]. inv_binds Hm. inversion Hm; subst. apply SimF_same; reflexivity.
  - destruct ws; [discriminate|]. destruct (N.eqb w0 w); [|discriminate]. inversion Hm; subst. apply SimF_refl.
Qed.

Lemma apply_updates_sim specs us : forall s w need s' need',
  HOK (hq_of s) -> apply_updates s w us need = Ok (s', need') -> SimF specs s s'.
Proof.
  induction us as [|u r IH]; cbn [apply_updates]; intros s w need s' need' H Hc; [inversion Hc; subst; apply SimF_refl|].
  apply bind_ok in Hc. destruct Hc as ([s1 n1] & Hu & Hc).
  assert (H1 : HOK (hq_of s1) /\ SimF specs s s1).
  { destruct u.
    - split; [eapply task_finished_ok; eassumption | eapply task_finished_sim; eassumption].
    - inv_binds Hu. inversion Hu; subst. split; [eapply task_failed_ok; eassumption | eapply task_failed_sim; eassumption].
    - split; [eapply task_running_ok; eassumption | eapply task_running_sim; eassumption].
    - split; [eapply task_running_ok; eassumption | eapply task_running_sim; eassumption].
    - split; [eapply hq_same_ok; [eapply task_reject_same; exact Hu | exact H]|].
      apply SimF_same; [eapply task_reject_same; exact Hu | eapply task_reject_snd; exact Hu].
    - inv_binds Hu. inversion Hu; subst. split; [eapply hq_same_ok; [eapply request_enabled_same; eassumption | exact H]|].
      apply SimF_same; [eapply request_enabled_same; eassumption | eapply request_enabled_snd; eassumption]. }
  destruct H1 as [H1 S1]. eapply SimF_trans; [exact S1|]. eapply IH; eassumption.
Qed.

Lemma on_task_update_sim specs s w us s' : HOK (hq_of s) -> on_task_update s w us = Ok s' -> SimF specs s s'.
Proof.
  intros H Hc. unfold on_task_update in Hc. apply bind_ok in Hc. destruct Hc as ([s1 need] & Hu & Hc).
  pose proof (apply_updates_sim specs _ _ _ _ _ _ H Hu) as S1.
  destruct (need && _); inversion Hc; subst; [|exact S1].
  eapply SimF_trans; [exact S1|]. apply SimF_same; reflexivity.
Qed.

Lemma lost_fail_running_sim specs l : forall s reason s', HOK (hq_of s) -> lost_fail_running s reason l = Ok s' -> SimF specs s s'.
Proof.
  induction l as [|id r IH]; cbn [lost_fail_running]; intros s reason s' H Hc; [inversion Hc; subst; apply SimF_refl|].
  destruct (find_task _ id) as [t|]; [|eapply IH; eassumption].
  destruct (t_climit t).
  - inv_binds Hc. eapply SimF_trans; [eapply task_failed_sim; eassumption|]. eapply IH; [|exact Hc]. eapply task_failed_ok; eassumption.
  - destruct (reason_is_failure reason); [|eapply IH; eassumption].
    destruct (increment_crash_counter t) as [t' limit]. destruct limit.
    + inv_binds Hc.
      match goal with X : task_failed ?s1 _ _ _ = Ok _ |- _ => eapply (SimF_trans _ s s1); [apply SimF_same; reflexivity|] end.
      eapply SimF_trans; [eapply task_failed_sim; [|eassumption]; exact H|]. eapply IH; [|exact Hc]. eapply task_failed_ok; [|eassumption]. exact H.
    + match type of Hc with lost_fail_running ?s1 _ _ = _ => eapply (SimF_trans _ s s1); [apply SimF_same; reflexivity|] end.
      eapply IH; [|exact Hc]. exact H.
  - destruct (reason_is_failure reason); [|eapply IH; eassumption].
    destruct (increment_crash_counter t) as [t' limit]. destruct limit.
    + inv_binds Hc.
      match goal with X : task_failed ?s1 _ _ _ = Ok _ |- _ => eapply (SimF_trans _ s s1); [apply SimF_same; reflexivity|] end.
      eapply SimF_trans; [eapply task_failed_sim; [|eassumption]; exact H|]. eapply IH; [|exact Hc]. eapply task_failed_ok; [|eassumption]. exact H.
    + match type of Hc with lost_fail_running ?s1 _ _ = _ => eapply (SimF_trans _ s s1); [apply SimF_same; reflexivity|] end.
      eapply IH; [|exact Hc]. exact H.
Qed.

Lemma on_remove_worker_sim specs s w reason a p t s' :
  HOK (hq_of s) -> on_remove_worker s w reason a p t = Ok s' -> SimF specs s s'.
Proof.
  intros H Hc. unfold on_remove_worker in Hc.
  destruct (find_worker _ w) as [wk|]; [|discriminate].
  apply bind_ok in Hc. destruct Hc as ([[c2 running] retracted] & _ & Hc).
  destruct (negb (perm_of_set t _)); [discriminate|].
  inv_binds Hc. inversion Hc; subst.
  match goal with X : process_retracted _ _ = Ok _ |- _ => pose proof (process_retracted_hq _ _ _ X) as R1; pose proof (process_retracted_snd _ _ _ X) as P1 end.
  match goal with X : lost_retracting _ _ _ = Ok _ |- _ => pose proof (lost_retracting_same _ _ _ _ X) as R2; pose proof (lost_retracting_snd _ _ _ _ X) as P2 end.
  unfold hq_same in R2.
  match goal with X : process_worker_lost ?s5 _ _ _ = Ok ?s6 |- _ =>
    assert (S5 : SimF specs s s5) by (apply SimF_same; [change (hq_of a1 = hq_of s); rewrite R1, R2; reflexivity | change (snd a1 = snd s); rewrite P1, P2; reflexivity]);
    assert (H5 : HOK (hq_of s5)) by (change (HOK (hq_of a1)); rewrite R1, R2; exact H);
    pose proof (process_worker_lost_sim specs _ _ _ _ _ X) as S6;
    pose proof (process_worker_lost_ok _ _ _ _ _ H5 X) as H6 end.
  eapply SimF_trans; [exact S5|]. eapply SimF_trans; [exact S6|].
  eapply SimF_trans; [eapply lost_fail_running_sim; eassumption|]. apply SimF_same; reflexivity.
Qed.
