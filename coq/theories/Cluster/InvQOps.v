(** The queue invariant, part 4: the queue operations at the level of the invariant:
    [add_ready_task] (with [dispose_all]), the taking functions, single-id removals. *)
From HQ Require Import Base.Prelude Cluster.Types Cluster.Core Cluster.Reactor Cluster.Worker Cluster.Server Cluster.Sys Cluster.Monitors Cluster.ProofsJob Cluster.ProofsMore Cluster.ProofsStep Cluster.BijBase Cluster.BijCore Cluster.BijHq Cluster.BijSt Cluster.InvQBase Cluster.InvQTake Cluster.InvQInv.
From Coq Require Import ZArith Lia Sorting.Sorted.
Local Open Scope N_scope.

Arguments N.add : simpl never.
Arguments N.sub : simpl never.

(** * Exception maps *)
Lemma exL_in pl l base x : In x l -> exL pl l base x = Some pl.
Proof. intros H. unfold exL. apply tmem_in in H. rewrite H. reflexivity. Qed.
Lemma exL_notin pl l base x : ~ In x l -> exL pl l base x = base x.
Proof. intros H. unfold exL. apply tmem_notin in H. rewrite H. reflexivity. Qed.
Lemma exL_cons pl id l base x : exL pl (id :: l) base x = if tid_eqb x id then Some pl else exL pl l base x.
Proof. unfold exL. cbn [tid_mem]. destruct (tid_eqb x id); reflexivity. Qed.
Lemma exL_app pl a b base x : exL pl (a ++ b) base x = exL pl a (exL pl b base) x.
Proof. unfold exL. rewrite tmem_app. destruct (tid_mem x a); reflexivity. Qed.
Lemma exU_same base id pl : exU base id pl id = Some pl.
Proof. unfold exU. rewrite (proj2 (tid_eqb_eq id id) eq_refl). reflexivity. Qed.
Lemma exU_other base id pl x : x <> id -> exU base id pl x = base x.
Proof. intros H. unfold exU. apply tid_eqb_neq in H. rewrite H. reflexivity. Qed.
Lemma exR_same base id : exR base id id = None.
Proof. unfold exR. rewrite (proj2 (tid_eqb_eq id id) eq_refl). reflexivity. Qed.
Lemma exR_other base id x : x <> id -> exR base id x = base x.
Proof. intros H. unfold exR. apply tid_eqb_neq in H. rewrite H. reflexivity. Qed.

(** * [dispose_all] *)
Lemma dispose_all_spec p : forall qs qs1 r, Forall WFQ qs -> dispose_all qs p = (qs1, r) ->
  length qs1 = length qs /\ Forall WFQ qs1 /\
  (forall i q, nth_error qs i = Some q -> exists q1 ri, nth_error qs1 i = Some q1 /\ q_check_dispose_prefill q p = (q1, ri) /\ incl ri r) /\
  (forall x, In x r -> exists i q q1 ri, nth_error qs i = Some q /\ q_check_dispose_prefill q p = (q1, ri) /\ In x ri).
Proof.
  induction qs as [|q t IH]; cbn [dispose_all]; intros qs1 r W H.
  - inversion H; subst. split; [reflexivity | split; [constructor | split; [intros i q Hq; destruct i; discriminate | intros x []]]].
  - inversion W as [|? ? Wq Wt]; subst.
    destruct (q_check_dispose_prefill q p) as [q1 r1] eqn:E1. destruct (dispose_all t p) as [t1 r2] eqn:E2. inversion H; subst; clear H.
    destruct (IH _ _ Wt eq_refl) as (I1 & I2 & I3 & I4).
    split; [cbn; rewrite I1; reflexivity|]. split; [constructor; [apply (q_cdp_spec _ _ _ _ Wq E1) | exact I2]|]. split.
    + intros i q0 Hq. destruct i as [|k]; cbn [nth_error] in *.
      * inversion Hq; subst. exists q1, r1. split; [reflexivity | split; [exact E1 | apply incl_appl, incl_refl]].
      * destruct (I3 _ _ Hq) as (q1' & ri & A & B & C). exists q1', ri. split; [exact A | split; [exact B | apply incl_appr; exact C]].
    + intros x Hx. apply in_app_or in Hx. destruct Hx as [Hx|Hx].
      * exists O, q, q1, r1. split; [reflexivity | split; [exact E1 | exact Hx]].
      * destruct (I4 _ Hx) as (i & q0 & q1' & ri & A & B & C). exists (S i), q0, q1', ri. auto.
Qed.

Lemma QV_dispose ex Z ts qs rs rqs p qs1 r :
  QV ex Z ts qs rs rqs -> dispose_all qs p = (qs1, r) -> QV (exL Ready r ex) Z ts qs1 rs rqs.
Proof.
  intros V H. destruct (dispose_all_spec _ _ _ _ (qv_wf _ _ _ _ _ _ V) H) as (L & W & Hnth & Hr).
  (* what is known of a retracted id *)
  assert (Hret : forall x, In x r -> exists t q q1 ri pp,
            find_task ts x = Some t /\ nth_error qs (N.to_nat (t_rq t)) = Some q /\
            q_check_dispose_prefill q p = (q1, ri) /\ In x ri /\ q_prefill q = Some (pp, ri) /\
            exp_place ex rs x (t_state t) = Prefill /\ t_prio t = pp).
  { intros x Hx. destruct (Hr _ Hx) as (i & q & q1 & ri & Hq & Hc & Hin).
    pose proof (nth_error_Forall _ _ _ _ (qv_wf _ _ _ _ _ _ V) Hq) as Wq.
    destruct (q_cdp_spec _ _ _ _ Wq Hc) as [_ [[_ ->]|(pp & Ep & _ & _)]]; [destruct Hin|].
    assert (Hpf : PfAt q pp x) by (unfold PfAt; rewrite Ep; apply PAt_some; auto).
    destruct (qv_live _ _ _ _ _ _ V i q x Hq) as (t & Hf & Hi); [exists pp; right; exact Hpf|].
    exists t, q, q1, ri, pp. rewrite Hi. repeat (split; [assumption|]).
    rewrite <- Hi in Hq. pose proof (qv_task _ _ _ _ _ _ V _ _ _ Hf Hq) as Hp.
    destruct (exp_place ex rs x (t_state t)); cbn in Hp; destruct Hp as [A B].
    - exfalso. exact (B _ Hpf).
    - exfalso. exact (B _ Hpf).
    - split; [reflexivity|]. symmetry. apply A. exact Hpf. }
  eapply QV_queues; [exact V | exact L | exact W | | |].
  - intros i q q' x Hq Hq' Hm. left. destruct (Hnth _ _ Hq) as (q1 & ri & Hq1 & Hc & _). rewrite Hq' in Hq1. inversion Hq1; subst q1.
    pose proof (nth_error_Forall _ _ _ _ (qv_wf _ _ _ _ _ _ V) Hq) as Wq.
    destruct (q_cdp_spec _ _ _ _ Wq Hc) as [_ [[-> _]|(pp & Ep & En & HR)]]; [exact Hm|].
    destruct Hm as (p0 & [M|M]).
    + apply HR in M. destruct M as [M|[M ->]]; [exists p0; left; exact M|]. exists pp. right. unfold PfAt. rewrite Ep. apply PAt_some. auto.
    + unfold PfAt in M. rewrite En in M. apply PAt_none in M. destruct M.
  - intros x t q q' Hf Hq Hq' Hp. destruct (Hnth _ _ Hq) as (q1 & ri & Hq1 & Hc & Hincl). rewrite Hq' in Hq1. inversion Hq1; subst q1.
    pose proof (nth_error_Forall _ _ _ _ (qv_wf _ _ _ _ _ _ V) Hq) as Wq.
    destruct (q_cdp_spec _ _ _ _ Wq Hc) as [_ Hcase].
    unfold exp_place at 1. unfold exL. destruct (tid_mem x r) eqn:Em.
    + apply tmem_in in Em. destruct (Hret _ Em) as (t0 & q0 & q1 & ri0 & pp & Hf0 & Hq0 & Hc0 & Hin0 & Ep0 & Epl & Epr).
      rewrite Hf in Hf0. inversion Hf0; subst t0. rewrite Hq in Hq0. inversion Hq0; subst q0. rewrite Hc in Hc0. inversion Hc0; subst q1 ri0.
      rewrite Epl in Hp. cbn in Hp. destruct Hp as [A B].
      destruct Hcase as [[_ ->]|(pp' & Ep & En & HR)]; [destruct Hin0|].
      rewrite Ep0 in Ep. inversion Ep; subst pp'. cbn. split.
      * intros p0. rewrite HR. split; [intros [M|[_ M]]; [exfalso; exact (B _ M) | congruence] | intros ->; right; auto].
      * intros p0 M. unfold PfAt in M. rewrite En in M. apply PAt_none in M. exact M.
    + apply tmem_notin in Em. fold (exp_place ex rs x (t_state t)).
      destruct Hcase as [[-> _]|(pp & Ep & En & HR)]; [exact Hp|].
      assert (Hni : ~ In x ri) by (intros Hc'; apply Em; apply Hincl; exact Hc').
      destruct (exp_place ex rs x (t_state t)); cbn in Hp |- *; destruct Hp as [A B].
      * split; [intros p0 M; apply HR in M; destruct M as [M|[M _]]; [exact (A _ M) | contradiction]|].
        intros p0 M. unfold PfAt in M. rewrite En in M. apply PAt_none in M. exact M.
      * split; [|intros p0 M; unfold PfAt in M; rewrite En in M; apply PAt_none in M; exact M].
        intros p0. rewrite HR, A. split; [intros [M|[M _]]; [exact M | contradiction] | auto].
      * exfalso. apply Hni. pose proof (proj2 (A _) eq_refl) as M. unfold PfAt in M. rewrite Ep in M. apply PAt_some in M. apply M.
  - intros x v Hv. destruct (qv_red _ _ _ _ _ _ V _ _ Hv) as (En & t & w & Hf & Hst). rewrite exL_notin; [exact En|].
    intros Hx. destruct (Hret _ Hx) as (t0 & _ & _ & _ & _ & Hf0 & _ & _ & _ & _ & Epl & _).
    rewrite Hf in Hf0. inversion Hf0; subst t0. unfold exp_place in Epl. rewrite En, Hst in Epl. cbn in Epl. rewrite Hv in Epl. discriminate.
Qed.

(** * [add_ready_task] *)
Lemma placed_add q pl pr id : WFQ q -> placed q pl pr id -> pl <> Prefill -> placed (q_add q id pr) Ready pr id.
Proof.
  intros W Hp Hne. destruct (q_add_spec q id pr W) as (_ & HR & HP). destruct pl; [| |congruence]; cbn in Hp; destruct Hp as [A B]; split; intros p.
  - rewrite HR. split; [intros [M|[_ M]]; [exfalso; exact (A _ M) | exact M] | auto].
  - rewrite HP. apply B.
  - rewrite HR, A. tauto.
  - rewrite HP. apply B.
Qed.

Lemma QV_add_ready ex Z ts qs rs rqs id t t' qs' r :
  QV ex Z ts qs rs rqs -> find_task ts id = Some t ->
  t_id t' = id -> t_rq t' = t_rq t -> t_prio t' = t_prio t ->
  exp_place ex rs id (t_state t) <> Prefill -> find_redirect rs id = None ->
  add_ready_task qs t' = Ok (qs', r) ->
  QV (exU (exL Ready r ex) id Ready) Z ts qs' rs rqs.
Proof.
  intros V Hf Hid Hrq Hpr Hpl Hred H. unfold add_ready_task in H.
  destruct (dispose_all qs (t_prio t')) as [qs1 r1] eqn:Ed.
  apply bind_ok in H. destruct H as (q1 & Hq1 & H). inversion H; subst qs' r1; clear H.
  pose proof (QV_dispose _ _ _ _ _ _ _ _ _ V Ed) as V1. apply nth_queue_ok in Hq1. rewrite Hid, Hrq, Hpr in *.
  pose proof (qv_task _ _ _ _ _ _ V1 _ _ _ Hf Hq1) as Hp.
  pose proof (nth_error_Forall _ _ _ _ (qv_wf _ _ _ _ _ _ V1) Hq1) as W1.
  destruct (q_add_spec q1 id (t_prio t) W1) as (W2 & HR & HP).
  eapply QV_queue1id; [exact V1 | exact Hf | exact Hq1 | exact W2 | | | | exact Hred].
  - intros x Hne p. rewrite HR. split; [intros [M|[M _]]; [exact M | contradiction] | auto].
  - intros x _ p. apply HP.
  - eapply placed_add; [exact W1 | exact Hp|]. unfold exp_place, exL. destruct (tid_mem id r); [discriminate | exact Hpl].
Qed.

(** Re-queue an existing task: its new state puts it naturally into the ready queue. *)
Lemma QV_requeue ex Z ts qs rs rqs id t t' qs' r :
  QV ex Z ts qs rs rqs -> find_task ts id = Some t ->
  t_id t' = id -> t_rq t' = t_rq t -> t_prio t' = t_prio t ->
  exp_place ex rs id (t_state t) <> Prefill -> find_redirect rs id = None ->
  nat_place rs id (t_state t') = Ready -> t_state t' <> Finished ->
  add_ready_task qs t' = Ok (qs', r) ->
  QV (exL Ready r (exR ex id)) Z (set_task ts t') qs' rs rqs.
Proof.
  intros V Hf Hid Hrq Hpr Hpl Hred Hnat Hfin H.
  pose proof (QV_add_ready _ _ _ _ _ _ _ _ _ _ _ V Hf Hid Hrq Hpr Hpl Hred H) as V1.
  eapply QV_task0; [exact V1 | exact Hf | exact Hid | exact Hrq | exact Hpr | | | |].
  - intros x Hne. rewrite exU_other by exact Hne. unfold exL. destruct (tid_mem x r); [reflexivity | apply exR_other; exact Hne].
  - unfold exp_place at 2. rewrite exU_same. unfold exp_place, exL. destruct (tid_mem id r); [reflexivity|]. rewrite exR_same. exact Hnat.
  - intros v Hv. congruence.
  - intros Hc. contradiction.
Qed.

(** * Taking tasks out of a queue *)
Lemma QV_take ex Z ts qs rs rqs i q q' a :
  QV ex Z ts qs rs rqs -> nth_error qs i = Some q -> TakeQ q q' a ->
  QV (exL Nowhere a ex) Z ts (set_queue qs i q') rs rqs.
Proof.
  intros V Hq T.
  assert (Hrq : forall x t, In x a -> find_task ts x = Some t -> N.to_nat (t_rq t) = i).
  { intros x t Hx Hf. destruct (qv_live _ _ _ _ _ _ V i q x Hq (TakeQ_taken_member _ _ _ _ T Hx)) as (t0 & Hf0 & Hi). congruence. }
  eapply QV_queue1; [exact V | exact Hq | exact (tk_wf _ _ _ T) | | | |].
  - intros x Hm. left. eapply TakeQ_member; eassumption.
  - intros x t Hf Hi Hp. unfold exp_place at 1. unfold exL. destruct (tid_mem x a) eqn:Em.
    + apply tmem_in in Em. eapply placed_take_in; eassumption.
    + apply tmem_notin in Em. fold (exp_place ex rs x (t_state t)). eapply placed_take_other; eassumption.
  - intros x t Hf Hi. unfold exp_place. rewrite exL_notin; [reflexivity|]. intros Hx. apply Hi. eapply Hrq; eassumption.
  - intros x v Hv. destruct (qv_red _ _ _ _ _ _ V _ _ Hv) as (En & t & w & Hf & Hst). rewrite exL_notin; [exact En|].
    intros Hx. pose proof (Hrq _ _ Hx Hf) as Hi. rewrite <- Hi in Hq. pose proof (qv_task _ _ _ _ _ _ V _ _ _ Hf Hq) as Hp.
    unfold exp_place in Hp. rewrite En, Hst in Hp. cbn in Hp. rewrite Hv in Hp.
    exact (placed_member _ _ _ _ Hp (TakeQ_taken_member _ _ _ _ T Hx) eq_refl).
Qed.

(** * Moving tasks from the first ready entry to the prefill set *)
Lemma QV_move ex Z ts qs rs rqs i q q' a pe :
  QV ex Z ts qs rs rqs -> nth_error qs i = Some q -> MoveQ q q' a pe ->
  QV (exL Prefill a ex) Z ts (set_queue qs i q') rs rqs.
Proof.
  intros V Hq T.
  assert (Hmem : forall x, In x a -> member q x) by (intros x Hx; exists pe; left; apply (mv_from _ _ _ _ T _ Hx)).
  assert (Hrq : forall x t, In x a -> find_task ts x = Some t -> N.to_nat (t_rq t) = i).
  { intros x t Hx Hf. destruct (qv_live _ _ _ _ _ _ V i q x Hq (Hmem _ Hx)) as (t0 & Hf0 & Hi). congruence. }
  eapply QV_queue1; [exact V | exact Hq | exact (mv_wf _ _ _ _ T) | | | |].
  - intros x Hm. left. eapply MoveQ_member; eassumption.
  - intros x t Hf Hi Hp. unfold exp_place at 1. unfold exL. destruct (tid_mem x a) eqn:Em.
    + apply tmem_in in Em. eapply placed_move_in; eassumption.
    + apply tmem_notin in Em. fold (exp_place ex rs x (t_state t)). eapply placed_move_other; eassumption.
  - intros x t Hf Hi. unfold exp_place. rewrite exL_notin; [reflexivity|]. intros Hx. apply Hi. eapply Hrq; eassumption.
  - intros x v Hv. destruct (qv_red _ _ _ _ _ _ V _ _ Hv) as (En & t & w & Hf & Hst). rewrite exL_notin; [exact En|].
    intros Hx. pose proof (Hrq _ _ Hx Hf) as Hi. rewrite <- Hi in Hq. pose proof (qv_task _ _ _ _ _ _ V _ _ _ Hf Hq) as Hp.
    unfold exp_place in Hp. rewrite En, Hst in Hp. cbn in Hp. rewrite Hv in Hp.
    exact (placed_member _ _ _ _ Hp (Hmem _ Hx) eq_refl).
Qed.

(** * Single-id removals: the id ends up nowhere *)
Lemma QV_q_remove ex Z ts qs rs rqs id t q q' :
  QV ex Z ts qs rs rqs -> find_task ts id = Some t -> nth_error qs (N.to_nat (t_rq t)) = Some q ->
  q_remove q id (t_prio t) = Ok q' -> find_redirect rs id = None ->
  QV (exU ex id Nowhere) Z ts (set_queue qs (N.to_nat (t_rq t)) q') rs rqs.
Proof.
  intros V Hf Hq H Hred.
  pose proof (nth_error_Forall _ _ _ _ (qv_wf _ _ _ _ _ _ V) Hq) as W.
  pose proof (qv_task _ _ _ _ _ _ V _ _ _ Hf Hq) as Hp.
  destruct (q_remove_spec _ _ _ _ W H) as [W' Hcase].
  eapply QV_queue1id; [exact V | exact Hf | exact Hq | exact W' | | | | exact Hred].
  - intros x Hne p. destruct Hcase as [(_ & HR & _)|(_ & HR & _)]; rewrite HR; [reflexivity|]. split; [tauto|]. intros M. split; [exact M | intros [E _]; contradiction].
  - intros x Hne p. destruct Hcase as [(_ & _ & HP)|(_ & _ & HP)]; rewrite HP; [|reflexivity]. tauto.
  - destruct Hcase as [(Hin & HR & HP)|(Hni & HR & HP)].
    + destruct (exp_place ex rs id (t_state t)); cbn in Hp; destruct Hp as [A B]; try (exfalso; exact (B _ Hin)).
      split; intros p M; [apply HR in M; exact (B _ M) | apply HP in M; tauto].
    + destruct (exp_place ex rs id (t_state t)); cbn in Hp; destruct Hp as [A B].
      * split; intros p M; [apply HR in M; exact (A _ (proj1 M)) | apply HP in M; exact (B _ M)].
      * split; intros p M; [|apply HP in M; exact (B _ M)]. apply HR in M. destruct M as [M N]. apply N. split; [reflexivity | apply A; exact M].
      * exfalso. apply Hni. apply A. reflexivity.
Qed.

Lemma QV_q_remove_prefilled ex Z ts qs rs rqs id t q q' :
  QV ex Z ts qs rs rqs -> find_task ts id = Some t -> nth_error qs (N.to_nat (t_rq t)) = Some q ->
  q_remove_prefilled q id = Ok q' -> find_redirect rs id = None ->
  QV (exU ex id Nowhere) Z ts (set_queue qs (N.to_nat (t_rq t)) q') rs rqs.
Proof.
  intros V Hf Hq H Hred.
  pose proof (nth_error_Forall _ _ _ _ (qv_wf _ _ _ _ _ _ V) Hq) as W.
  pose proof (qv_task _ _ _ _ _ _ V _ _ _ Hf Hq) as Hp.
  destruct (q_remove_prefilled_spec _ _ _ W H) as (W' & (p0 & Hin) & HR & HP).
  eapply QV_queue1id; [exact V | exact Hf | exact Hq | exact W' | | | | exact Hred].
  - intros x _ p. apply HR.
  - intros x Hne p. rewrite HP. tauto.
  - destruct (exp_place ex rs id (t_state t)); cbn in Hp; destruct Hp as [A B]; try (exfalso; exact (B _ Hin)).
    split; intros p M; [apply HR in M; exact (B _ M) | apply HP in M; tauto].
Qed.

Lemma QV_q_move ex Z ts qs rs rqs id t q q' :
  QV ex Z ts qs rs rqs -> find_task ts id = Some t -> nth_error qs (N.to_nat (t_rq t)) = Some q ->
  q_move_prefilled_to_ready q id = Ok q' -> find_redirect rs id = None ->
  QV (exU ex id Ready) Z ts (set_queue qs (N.to_nat (t_rq t)) q') rs rqs.
Proof.
  intros V Hf Hq H Hred.
  pose proof (nth_error_Forall _ _ _ _ (qv_wf _ _ _ _ _ _ V) Hq) as W.
  pose proof (qv_task _ _ _ _ _ _ V _ _ _ Hf Hq) as Hp.
  destruct (q_move_spec _ _ _ W H) as (W' & pp & Hin & HR & HP).
  eapply QV_queue1id; [exact V | exact Hf | exact Hq | exact W' | | | | exact Hred].
  - intros x Hne p. rewrite HR. split; [intros [M|[M _]]; [exact M | contradiction] | auto].
  - intros x Hne p. rewrite HP. tauto.
  - destruct (exp_place ex rs id (t_state t)); cbn in Hp; destruct Hp as [A B]; try (exfalso; exact (B _ Hin)).
    pose proof (proj1 (A _) Hin) as E. subst pp. split; intros p.
    + rewrite HR. split; [intros [M|[_ M]]; [exfalso; exact (B _ M) | exact M] | auto].
    + rewrite HP. tauto.
Qed.
