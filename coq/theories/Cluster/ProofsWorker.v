(** C06 / C08, worker side: a worker starts a task only if the task is in its backlog or in the
    ComputeTasks message it is processing.  Consequently, after the worker has given a task back
    (RetractTasks) or processed its cancellation (CancelTasks for a task it was not running), it
    never starts that task again unless the server sends it again - for every sequence of
    messages, task ends and timers. *)
From HQ Require Import Base.Prelude Cluster.Types Cluster.Core Cluster.Reactor Cluster.Worker Cluster.ProofsMore.
From Coq Require Import ZArith Lia.
Local Open Scope N_scope.

Definition tid_dec_local (a b : tid) : {a = b} + {a <> b}.
Proof. decide equality; apply N.eq_dec. Defined.

(** Events of one worker process. *)
Inductive wev :=
| WMsg (m : dmsg) (rq_order : list N)
| WEnd (t : tid) (how : endkind)
| WTimer (t : tid).

Definition wstep (p : wproc) (e : wev) : res (wproc * list launch) :=
  match e with
  | WMsg m o => process_worker_message p m o
  | WEnd t how => task_end p t how
  | WTimer t => Ok (timer_fire p t, [])
  end.

Definition in_bl (b : list (N * list wtask)) (t : tid) : Prop :=
  exists rq ts x, In (rq, ts) b /\ In x ts /\ wt_id x = t.

Lemma in_backlog_bl p t : in_backlog p t <-> in_bl (p_backlog p) t.
Proof. reflexivity. Qed.

(** * Backlog primitives *)
Lemma bl_set_in b rq v k w : In (k, w) (bl_set b rq v) -> (k = rq /\ w = v) \/ In (k, w) b.
Proof.
  induction b as [|[k0 v0] r IH]; cbn [bl_set].
  - intros [H|[]]. inversion H; auto.
  - destruct (N.eqb rq k0) eqn:E1.
    + intros [H|H]; [inversion H; auto | right; right; exact H].
    + destruct (N.ltb rq k0); [intros [H|H]; [inversion H; auto | right; exact H]|].
      intros [H|H]; [right; left; exact H|]. destruct (IH H) as [X|X]; [left; exact X | right; right; exact X].
Qed.

Lemma bl_get_in b rq x : In x (bl_get b rq) -> In (rq, bl_get b rq) b.
Proof.
  induction b as [|[k v] r IH]; cbn [bl_get]; [intros []|].
  destruct (N.eqb rq k) eqn:E; [apply N.eqb_eq in E; subst; intros _; left; reflexivity | intros H; right; apply IH; exact H].
Qed.

Lemma in_bl_set b rq v t : in_bl (bl_set b rq v) t -> in_bl b t \/ exists x, In x v /\ wt_id x = t.
Proof.
  intros (k & ts & x & Hin & Hx & Hid). destruct (bl_set_in _ _ _ _ _ Hin) as [[-> ->]|H].
  - right. eauto.
  - left. exists k, ts, x. auto.
Qed.

Lemma pop_last_in {A} (l : list A) x r : pop_last l = Some (x, r) -> In x l /\ forall y, In y r -> In y l.
Proof.
  revert x r. induction l as [|h t IH]; cbn [pop_last]; intros x r H; [discriminate|].
  destruct t as [|h2 t2]; [inversion H; subst; split; [left; reflexivity | intros y []]|].
  destruct (pop_last (h2 :: t2)) as [[x' r']|] eqn:E; [|discriminate]. inversion H; subst.
  destruct (IH _ _ eq_refl) as [I1 I2]. split; [right; exact I1|].
  intros y [Hy|Hy]; [left; exact Hy | right; apply I2; exact Hy].
Qed.

(** * Launches come from the backlog or from the message *)
Definition launches_of (ls : list launch) : list tid := map l_t ls.
Lemma launches_app a b : launches_of (a ++ b) = launches_of a ++ launches_of b.
Proof. unfold launches_of. apply map_app. Qed.

Lemma try_start_task_spec p t rv pre alloc p1 u l st :
  try_start_task p t rv pre alloc = (p1, u, l, st) ->
  p_backlog p1 = p_backlog p /\ launches_of l = [wt_id t].
Proof.
  unfold try_start_task. destruct (tid_mem (wt_id t) (p_failnext p)); intros H; inversion H; subst; split; reflexivity.
Qed.

Lemma prefill_loop_spec fuel : forall p rq rv alloc ups ls p' ups' ls' used,
  prefill_loop fuel p rq rv alloc ups ls = (p', ups', ls', used) ->
  (forall x, In x (launches_of ls') -> In x (launches_of ls) \/ in_bl (p_backlog p) x) /\
  (forall x, in_bl (p_backlog p') x -> in_bl (p_backlog p) x).
Proof.
  induction fuel as [|k IH]; cbn [prefill_loop]; intros p rq rv alloc ups ls p' ups' ls' used H.
  - inversion H; subst. split; [auto | cbn; auto].
  - destruct (pop_last (bl_get (p_backlog p) rq)) as [[t rest]|] eqn:Ep; [|inversion H; subst; split; [auto | cbn; auto]].
    destruct (bl_has (p_backlog p) rq); [|inversion H; subst; split; [auto | cbn; auto]].
    destruct (pop_last_in _ _ _ Ep) as [Ht Hrest].
    assert (Hbt : in_bl (p_backlog p) (wt_id t)).
    { exists rq, (bl_get (p_backlog p) rq), t. split; [eapply bl_get_in; exact Ht | split; [exact Ht | reflexivity]]. }
    assert (Hsub : forall x, in_bl (bl_set (p_backlog p) rq rest) x -> in_bl (p_backlog p) x).
    { intros x Hx. destruct (in_bl_set _ _ _ _ Hx) as [H1|(y & Hy & Hid)]; [exact H1|].
      exists rq, (bl_get (p_backlog p) rq), y. split; [eapply bl_get_in; apply Hrest; exact Hy | split; [apply Hrest; exact Hy | exact Hid]]. }
    destruct (try_start_task (wp_backlog p (bl_set (p_backlog p) rq rest)) t rv true alloc) as [[[p1 u] l] st] eqn:Et.
    destruct (try_start_task_spec _ _ _ _ _ _ _ _ _ Et) as [Eb El]. cbn in Eb.
    destruct st.
    + inversion H; subst. split.
      * intros x Hx. rewrite launches_app, in_app_iff in Hx. destruct Hx as [Hx|Hx]; [left; exact Hx|].
        rewrite El in Hx. destruct Hx as [<-|[]]. right. exact Hbt.
      * intros x Hx. rewrite Eb in Hx. apply Hsub. exact Hx.
    + destruct (IH _ _ _ _ _ _ _ _ _ _ H) as [I1 I2]. rewrite Eb in I1, I2. split.
      * intros x Hx. destruct (I1 x Hx) as [Hl|Hb]; [|right; apply Hsub; exact Hb].
        rewrite launches_app, in_app_iff in Hl. destruct Hl as [Hl|Hl]; [left; exact Hl|].
        rewrite El in Hl. destruct Hl as [<-|[]]. right. exact Hbt.
      * intros x Hx. apply Hsub, I2, Hx.
Qed.

Lemma compute_loop_spec ts : forall p ups ls p' ups' ls',
  compute_loop p ts ups ls = Ok (p', ups', ls') ->
  (forall x, In x (launches_of ls') -> In x (launches_of ls) \/ in_bl (p_backlog p) x \/ In x (map ct_id ts)) /\
  (forall x, in_bl (p_backlog p') x -> in_bl (p_backlog p) x \/ In x (map ct_id ts)).
Proof.
  induction ts as [|ct r IH]; cbn [compute_loop]; intros p ups ls p' ups' ls' H.
  - inversion H; subst. split; auto.
  - destruct (ct_rv ct) as [rv|].
    + apply bind_ok in H. destruct H as (rq & _ & H).
      destruct (negb (N.eqb rv 0)); [discriminate|].
      destruct (res_fits (p_free p) (rq_res rq)).
      * set (t := mkWT (ct_id ct) (ct_inst ct) (ct_rq ct) (ct_tlim ct) (ct_nodes ct)) in *.
        destruct (try_start_task (wp_free p (res_sub (p_free p) (rq_res rq))) t rv false (rq_res rq)) as [[[p1 u] l] st] eqn:Et.
        destruct (try_start_task_spec _ _ _ _ _ _ _ _ _ Et) as [Eb El]. cbn in Eb.
        assert (Hl : forall x, In x (launches_of (ls ++ l)) -> In x (launches_of ls) \/ x = ct_id ct).
        { intros x Hx. rewrite launches_app, in_app_iff in Hx. destruct Hx as [Hx|Hx]; [left; exact Hx|].
          rewrite El in Hx. destruct Hx as [<-|[]]. right. reflexivity. }
        destruct st.
        -- destruct (IH _ _ _ _ _ _ H) as [I1 I2]. rewrite Eb in I1, I2. split.
           ++ intros x Hx. destruct (I1 x Hx) as [H1|[H1|H1]]; [|right; left; exact H1 | right; right; right; exact H1].
              destruct (Hl x H1) as [H2| ->]; [left; exact H2 | right; right; left; reflexivity].
           ++ intros x Hx. destruct (I2 x Hx) as [H1|H1]; [left; exact H1 | right; right; exact H1].
        -- destruct (prefill_loop (S (backlog_size p1)) p1 (ct_rq ct) rv (rq_res rq) (ups ++ u) (ls ++ l)) as [[[p2 u2] l2] used] eqn:Ep.
           destruct (prefill_loop_spec _ _ _ _ _ _ _ _ _ _ _ Ep) as [P1 P2]. rewrite Eb in P1, P2.
           destruct (IH _ _ _ _ _ _ H) as [I1 I2]. split.
           ++ intros x Hx. destruct (I1 x Hx) as [H1|[H1|H1]]; [|right; left; apply P2; exact H1 | right; right; right; exact H1].
              destruct (P1 x H1) as [H2|H2]; [|right; left; exact H2].
              destruct (Hl x H2) as [H3| ->]; [left; exact H3 | right; right; left; reflexivity].
           ++ intros x Hx. destruct (I2 x Hx) as [H1|H1]; [left; apply P2; exact H1 | right; right; exact H1].
      * destruct (IH _ _ _ _ _ _ H) as [I1 I2]. split.
        -- intros x Hx. destruct (I1 x Hx) as [H1|[H1|H1]]; [left; exact H1 | right; left; exact H1 | right; right; right; exact H1].
        -- intros x Hx. destruct (I2 x Hx) as [H1|H1]; [left; exact H1 | right; right; exact H1].
    + destruct (IH _ _ _ _ _ _ H) as [I1 I2]. cbn [p_backlog wp_backlog wp_upd] in I1, I2.
      assert (Hadd : forall x, in_bl (bl_set (p_backlog p) (ct_rq ct) (bl_get (p_backlog p) (ct_rq ct) ++ [mkWT (ct_id ct) (ct_inst ct) (ct_rq ct) (ct_tlim ct) (ct_nodes ct)])) x ->
                in_bl (p_backlog p) x \/ x = ct_id ct).
      { intros x Hx. destruct (in_bl_set _ _ _ _ Hx) as [H1|(y & Hy & Hid)]; [left; exact H1|].
        apply in_app_iff in Hy. destruct Hy as [Hy|[<-|[]]]; [|right; symmetry; exact Hid].
        left. exists (ct_rq ct), (bl_get (p_backlog p) (ct_rq ct)), y. split; [eapply bl_get_in; exact Hy | split; [exact Hy | exact Hid]]. }
      split.
      * intros x Hx. destruct (I1 x Hx) as [H1|[H1|H1]]; [left; exact H1 | | right; right; right; exact H1].
        destruct (Hadd x H1) as [H2| ->]; [right; left; exact H2 | right; right; left; reflexivity].
      * intros x Hx. destruct (I2 x Hx) as [H1|H1]; [|right; right; exact H1].
        destruct (Hadd x H1) as [H2| ->]; [left; exact H2 | right; left; reflexivity].
Qed.

(** * Retract and cancel clear the backlog *)
Lemma retract_from_sub order : forall b ids out b' out',
  retract_from b order ids out = (b', out') -> forall x, in_bl b' x -> in_bl b x.
Proof.
  induction order as [|rq r IH]; cbn [retract_from]; intros b ids out b' out' H x Hx; [inversion H; subst; exact Hx|].
  specialize (IH _ _ _ _ _ H x Hx). destruct (bl_has b rq); [|exact IH].
  destruct (in_bl_set _ _ _ _ IH) as [H1|(y & Hy & Hid)]; [exact H1|].
  apply filter_In in Hy. destruct Hy as [Hy _].
  exists rq, (bl_get b rq), y. split; [eapply bl_get_in; exact Hy | split; [exact Hy | exact Hid]].
Qed.

Lemma bl_get_of_in b rq ts : In (rq, ts) b -> bl_has b rq = true.
Proof.
  induction b as [|[k v] r IH]; [intros []|]. cbn [bl_has]. intros [H|H]; [inversion H; subst; rewrite N.eqb_refl; reflexivity|].
  rewrite (IH H). apply orb_true_r.
Qed.

(** * The backlog is a sorted association list *)
From Coq Require Import Sorting.Sorted.
Definition WInv (p : wproc) : Prop := StronglySorted N.lt (map fst (p_backlog p)).

Lemma bl_set_keys b rq v : forall k, In k (map fst (bl_set b rq v)) -> k = rq \/ In k (map fst b).
Proof.
  induction b as [|[k0 v0] r IH]; cbn [bl_set map]; intros k.
  - intros [H|[]]; auto.
  - destruct (N.eqb rq k0) eqn:E1; cbn [map fst In].
    + apply N.eqb_eq in E1. subst. intros [H|H]; auto.
    + destruct (N.ltb rq k0); cbn [map fst In]; [intros [H|[H|H]]; auto|].
      intros [H|H]; [auto|]. destruct (IH _ H); auto.
Qed.

Lemma bl_set_sorted b rq v : StronglySorted N.lt (map fst b) -> StronglySorted N.lt (map fst (bl_set b rq v)).
Proof.
  induction b as [|[k0 v0] r IH]; cbn [bl_set map]; intros Hs; [constructor; constructor|].
  inversion Hs as [|? ? Hs' Hall]; subst. cbn [fst] in *.
  destruct (N.eqb rq k0) eqn:E1.
  - apply N.eqb_eq in E1. subst. cbn [map fst]. constructor; assumption.
  - destruct (N.ltb rq k0) eqn:E2; cbn [map fst].
    + apply N.ltb_lt in E2. constructor; [exact Hs|]. constructor; [exact E2|].
      rewrite Forall_forall in *. intros y Hy. specialize (Hall _ Hy). lia.
    + constructor; [apply IH; exact Hs'|]. rewrite Forall_forall in *. intros y Hy.
      destruct (bl_set_keys _ _ _ _ Hy) as [->|Hy']; [|apply Hall; exact Hy'].
      apply N.eqb_neq in E1. apply N.ltb_ge in E2. lia.
Qed.

Lemma sorted_nodup l : StronglySorted N.lt l -> NoDup l.
Proof.
  induction l as [|h t IH]; intros Hs; [constructor|]. inversion Hs as [|? ? Hs' Hall]; subst.
  constructor; [|apply IH; exact Hs']. intros Hin. rewrite Forall_forall in Hall. specialize (Hall _ Hin). lia.
Qed.

Lemma bl_get_unique b rq ts : NoDup (map fst b) -> In (rq, ts) b -> bl_get b rq = ts.
Proof.
  induction b as [|[k v] r IH]; [intros _ []|]. cbn [map fst bl_get]. intros Hn [H|H].
  - inversion H; subst. rewrite N.eqb_refl. reflexivity.
  - inversion Hn as [|? ? Hni Hn']; subst. destruct (N.eqb rq k) eqn:E.
    + apply N.eqb_eq in E. subst. exfalso. apply Hni. apply (in_map fst) in H. exact H.
    + apply IH; assumption.
Qed.

Lemma retract_from_sorted order : forall b ids out b' out',
  retract_from b order ids out = (b', out') -> StronglySorted N.lt (map fst b) ->
  StronglySorted N.lt (map fst b') /\ (forall k, In k (map fst b') -> In k (map fst b)).
Proof.
  induction order as [|rq r IH]; cbn [retract_from]; intros b ids out b' out' H Hs; [inversion H; subst; auto|].
  destruct (bl_has b rq) eqn:Eh.
  - destruct (IH _ _ _ _ _ H (bl_set_sorted _ _ _ Hs)) as [I1 I2]. split; [exact I1|].
    intros k Hk. destruct (bl_set_keys _ _ _ _ (I2 _ Hk)) as [->|Hk']; [|exact Hk'].
    clear -Eh. induction b as [|[k0 v0] r0 IHb]; cbn [bl_has map fst In] in *; [discriminate|].
    destruct (N.eqb rq k0) eqn:E; [apply N.eqb_eq in E; left; auto | right; apply IHb; exact Eh].
  - eapply IH; eassumption.
Qed.

Lemma n_mem_In x l : n_mem x l = true <-> In x l.
Proof.
  induction l as [|h t IH]; cbn [n_mem In]; [split; [discriminate | intros []]|].
  rewrite orb_true_iff, N.eqb_eq, IH. split; intros [H|H]; auto.
Qed.

(** * One step of a worker *)
Definition sends (e : wev) (x : tid) : Prop := exists ts o, e = WMsg (DCompute ts) o /\ In x (map ct_id ts).

Lemma cancel_task_sub p t x : in_bl (p_backlog (cancel_task p t)) x -> in_bl (p_backlog p) x.
Proof.
  unfold cancel_task. destruct (run_find (p_running p) t).
  - destruct (fu_find (p_futures p) t) as [[|]|]; auto.
  - cbn. intros (rq & ts & y & Hin & Hy & Hid). apply in_map_iff in Hin. destruct Hin as ([rq0 ts0] & Heq & Hin0).
    cbn in Heq. injection Heq as E1 E2. rewrite <- E2 in Hy. apply filter_In in Hy.
    exists rq0, ts0, y. split; [exact Hin0 | split; [apply Hy | exact Hid]].
Qed.

Lemma cancel_fold_sub ids : forall p x, in_bl (p_backlog (fold_left cancel_task ids p)) x -> in_bl (p_backlog p) x.
Proof.
  induction ids as [|t r IH]; cbn [fold_left]; intros p x H; [exact H|]. apply cancel_task_sub with (t := t). apply IH. exact H.
Qed.

Lemma cancel_task_running p t : p_running (cancel_task p t) = p_running p.
Proof.
  unfold cancel_task. destruct (run_find (p_running p) t); [destruct (fu_find (p_futures p) t) as [[|]|]|]; reflexivity.
Qed.

Lemma wstep_source p e p' ls : wstep p e = Ok (p', ls) ->
  (forall x, In x (launches_of ls) -> in_bl (p_backlog p) x \/ sends e x) /\
  (forall x, in_bl (p_backlog p') x -> in_bl (p_backlog p) x \/ sends e x).
Proof.
  destruct e as [m o|t how|t]; cbn [wstep]; intros H.
  - destruct m; cbn [process_worker_message] in H.
    + apply bind_ok in H. destruct H as ([[p1 ups] ls1] & Hc & H).
      destruct (compute_loop_spec _ _ _ _ _ _ _ Hc) as [C1 C2].
      assert (E : p_backlog p' = p_backlog p1 /\ ls = ls1) by (destruct ups; inversion H; subst; split; reflexivity).
      destruct E as [Eb ->]. rewrite Eb. split.
      * intros x Hx. destruct (C1 x Hx) as [[]|[H1|H1]]; [left; exact H1 | right; exists ts, o; auto].
      * intros x Hx. destruct (C2 x Hx) as [H1|H1]; [left; exact H1 | right; exists ts, o; auto].
    + destruct (negb (n_perm o (map fst (p_backlog p)))); [discriminate|].
      destruct (retract_from (p_backlog p) o ids []) as [b out] eqn:Er.
      assert (E : p_backlog p' = b /\ ls = []) by (destruct ids; inversion H; subst; split; reflexivity).
      destruct E as [Eb ->]. rewrite Eb. split; [intros x []|]. intros x Hx. left. eapply retract_from_sub; eassumption.
    + inversion H; subst. split; [intros x []|]. intros x Hx. left. eapply cancel_fold_sub; exact Hx.
    + inversion H; subst. split; [intros x [] | auto].
    + inversion H; subst. split; [intros x [] | auto].
    + destruct (N.eqb rq _); inversion H; subst. split; [intros x [] | auto].
    + inversion H; subst. split; [intros x [] | auto].
  - unfold task_end in H. destruct (fu_find (p_futures p) t) as [stop|]; [|discriminate].
    destruct (run_find (p_running p) t) as [rv|]; [|discriminate].
    destruct (al_find (p_alloc p) t) as [[|rq alloc]|]; try discriminate.
    match type of H with context [prefill_loop ?f ?p0 rq rv alloc ?u []] =>
      destruct (prefill_loop f p0 rq rv alloc u []) as [[[p1 ups1] ls1] used] eqn:Ep end.
    destruct (prefill_loop_spec _ _ _ _ _ _ _ _ _ _ _ Ep) as [P1 P2]. cbn [p_backlog wp_upd] in P1, P2.
    assert (E : p_backlog p' = p_backlog p1 /\ ls = ls1).
    { destruct (negb used); cbv beta iota zeta in H.
      - match type of H with match ?l with [] => _ | _ => _ end = _ => destruct l end; inversion H; subst; split; reflexivity.
      - destruct ups1; inversion H; subst; split; reflexivity. }
    destruct E as [Eb ->]. rewrite Eb. split.
    + intros x Hx. destruct (P1 x Hx) as [[]|H1]. left. exact H1.
    + intros x Hx. left. apply P2. exact Hx.
  - inversion H; subst. split; [intros x []|]. intros x Hx. left.
    unfold timer_fire in Hx. destruct (fu_find _ t) as [[|]|]; exact Hx.
Qed.

Lemma WInv_step p e p' ls : WInv p -> wstep p e = Ok (p', ls) -> WInv p'.
Proof.
  unfold WInv. intros Hs H.
  (* every step changes the backlog only through [bl_set], filters or not at all *)
  assert (Hpl : forall fuel p rq rv alloc ups ls p' ups' ls' used,
             prefill_loop fuel p rq rv alloc ups ls = (p', ups', ls', used) ->
             StronglySorted N.lt (map fst (p_backlog p)) -> StronglySorted N.lt (map fst (p_backlog p'))).
  { clear. induction fuel as [|k IH]; cbn [prefill_loop]; intros p rq rv alloc ups ls p' ups' ls' used H Hs; [inversion H; subst; exact Hs|].
    destruct (pop_last (bl_get (p_backlog p) rq)) as [[t rest]|]; [|inversion H; subst; exact Hs].
    destruct (bl_has (p_backlog p) rq); [|inversion H; subst; exact Hs].
    destruct (try_start_task (wp_backlog p (bl_set (p_backlog p) rq rest)) t rv true alloc) as [[[p1 u] l] st] eqn:Et.
    destruct (try_start_task_spec _ _ _ _ _ _ _ _ _ Et) as [Eb _]. cbn in Eb.
    destruct st; [inversion H; subst; rewrite Eb; apply bl_set_sorted; exact Hs|].
    eapply IH; [exact H|]. rewrite Eb. apply bl_set_sorted. exact Hs. }
  assert (Hcl : forall ts p ups ls p' ups' ls', compute_loop p ts ups ls = Ok (p', ups', ls') ->
             StronglySorted N.lt (map fst (p_backlog p)) -> StronglySorted N.lt (map fst (p_backlog p'))).
  { clear -Hpl. induction ts as [|ct r IH]; cbn [compute_loop]; intros p ups ls p' ups' ls' H Hs; [inversion H; subst; exact Hs|].
    destruct (ct_rv ct) as [rv|].
    - apply bind_ok in H. destruct H as (rq & _ & H). destruct (negb (N.eqb rv 0)); [discriminate|].
      destruct (res_fits (p_free p) (rq_res rq)); [|eapply IH; [exact H | exact Hs]].
      match type of H with context [try_start_task ?p0 ?t rv false ?al] => destruct (try_start_task p0 t rv false al) as [[[p1 u] l] st] eqn:Et end.
      destruct (try_start_task_spec _ _ _ _ _ _ _ _ _ Et) as [Eb _]. cbn in Eb.
      destruct st; [eapply IH; [exact H | rewrite Eb; exact Hs]|].
      match type of H with context [prefill_loop ?f p1 ?a ?b ?c ?d ?e] => destruct (prefill_loop f p1 a b c d e) as [[[p2 u2] l2] used] eqn:Ep end.
      eapply IH; [exact H|]. eapply Hpl; [exact Ep | rewrite Eb; exact Hs].
    - eapply IH; [exact H|]. cbn. apply bl_set_sorted. exact Hs. }
  destruct e as [m o|t how|t]; cbn [wstep] in H.
  - destruct m; cbn [process_worker_message] in H.
    + apply bind_ok in H. destruct H as ([[p1 ups] ls1] & Hc & H).
      assert (E : p_backlog p' = p_backlog p1) by (destruct ups; inversion H; subst; reflexivity). rewrite E. eapply Hcl; eassumption.
    + destruct (negb (n_perm o (map fst (p_backlog p)))); [discriminate|].
      destruct (retract_from (p_backlog p) o ids []) as [b out] eqn:Er.
      assert (E : p_backlog p' = b) by (destruct ids; inversion H; subst; reflexivity). rewrite E.
      exact (proj1 (retract_from_sorted _ _ _ _ _ _ Er Hs)).
    + inversion H; subst. clear H. revert p Hs. induction ids as [|t r IH]; cbn [fold_left]; intros p Hs; [exact Hs|].
      apply IH. unfold cancel_task. destruct (run_find (p_running p) t); [destruct (fu_find (p_futures p) t) as [[|]|]; exact Hs|].
      cbn. rewrite map_map. cbn. exact Hs.
    + inversion H; subst; exact Hs.
    + inversion H; subst; exact Hs.
    + destruct (N.eqb rq _); inversion H; subst; exact Hs.
    + inversion H; subst; exact Hs.
  - unfold task_end in H. destruct (fu_find (p_futures p) t) as [stop|]; [|discriminate].
    destruct (run_find (p_running p) t) as [rv|]; [|discriminate].
    destruct (al_find (p_alloc p) t) as [[|rq alloc]|]; try discriminate.
    match type of H with context [prefill_loop ?f ?p0 rq rv alloc ?u []] =>
      destruct (prefill_loop f p0 rq rv alloc u []) as [[[p1 ups1] ls1] used] eqn:Ep end.
    pose proof (Hpl _ _ _ _ _ _ _ _ _ _ _ Ep Hs) as Hs1.
    assert (E : p_backlog p' = p_backlog p1).
    { destruct (negb used); cbv beta iota zeta in H.
      - match type of H with match ?l with [] => _ | _ => _ end = _ => destruct l end; inversion H; subst; reflexivity.
      - destruct ups1; inversion H; subst; reflexivity. }
    rewrite E. exact Hs1.
  - inversion H; subst. unfold timer_fire. destruct (fu_find _ t) as [[|]|]; exact Hs.
Qed.

(** * Giving a task back *)
Definition gives_back (p : wproc) (e : wev) (x : tid) : Prop :=
  (exists ids o, e = WMsg (DRetract ids) o /\ tid_mem x ids = true) \/
  (exists ids o, e = WMsg (DCancel ids) o /\ In x ids /\ run_find (p_running p) x = None).

Lemma gives_back_clears p e p' ls x : WInv p -> wstep p e = Ok (p', ls) -> gives_back p e x -> ~ in_bl (p_backlog p') x /\ ls = [].
Proof.
  intros Hs H [(ids & o & -> & Hm)|(ids & o & -> & Hin & Hr)]; cbn [wstep process_worker_message] in H.
  - destruct (negb (n_perm o (map fst (p_backlog p)))) eqn:Ep; [discriminate|]. apply negb_false_iff in Ep.
    destruct (retract_from (p_backlog p) o ids []) as [b out] eqn:Er.
    assert (E : p_backlog p' = b /\ ls = []) by (destruct ids; inversion H; subst; split; reflexivity).
    destruct E as [Eb ->]. split; [|reflexivity]. rewrite Eb.
    destruct (retract_from_sorted _ _ _ _ _ _ Er Hs) as [Hsb Hkeys].
    intros (rq & ts & y & Hin & Hy & Hid).
    assert (Hget : bl_get b rq = ts) by (apply bl_get_unique; [apply sorted_nodup; exact Hsb | exact Hin]).
    assert (Hord : In rq o).
    { unfold n_perm in Ep. apply andb_true_iff in Ep. destruct Ep as [_ Ep]. rewrite forallb_forall in Ep.
      apply n_mem_In. apply Ep. apply Hkeys. apply (in_map fst) in Hin. exact Hin. }
    rewrite <- Hget in Hy. pose proof (retract_removes _ _ _ _ _ _ _ _ Er Hord Hy) as Hf. rewrite Hid in Hf. congruence.
  - inversion H; subst. split; [|reflexivity]. clear H Hs.
    revert p Hr. induction ids as [|t r IH]; [destruct Hin|]. cbn [fold_left]. intros p Hr.
    destruct (tid_dec_local x t) as [->|Hne].
    + intros Hb. apply cancel_fold_sub in Hb. exact (cancel_drops_backlog p t Hr Hb).
    + destruct Hin as [E|Hin]; [congruence|]. apply IH; [exact Hin | rewrite cancel_task_running; exact Hr].
Qed.

(** * Every sequence of worker events *)
Fixpoint wrun (p : wproc) (es : list wev) : res (wproc * list launch) :=
  match es with
  | [] => Ok (p, [])
  | e :: r =>
      do (p1, l1) <- wstep p e;
      do (p2, l2) <- wrun p1 r;
      Ok (p2, l1 ++ l2)
  end.

Lemma WInv_run es : forall p p' ls, WInv p -> wrun p es = Ok (p', ls) -> WInv p'.
Proof.
  induction es as [|e r IH]; cbn [wrun]; intros p p' ls Hs H; [inversion H; subst; exact Hs|].
  apply bind_ok in H. destruct H as ([p1 l1] & H1 & H). apply bind_ok in H. destruct H as ([p2 l2] & H2 & H). inversion H; subst.
  eapply IH; [eapply WInv_step; eassumption | exact H2].
Qed.

(** As long as the server does not send the task again, a task that is not in the backlog is
    never started. *)
Lemma no_start_without_backlog es : forall p p' ls x,
  ~ in_bl (p_backlog p) x -> (forall e, In e es -> ~ sends e x) -> wrun p es = Ok (p', ls) ->
  ~ In x (launches_of ls).
Proof.
  induction es as [|e r IH]; cbn [wrun]; intros p p' ls x Hb Hs H; [inversion H; subst; intros []|].
  apply bind_ok in H. destruct H as ([p1 l1] & H1 & H). apply bind_ok in H. destruct H as ([p2 l2] & H2 & H). inversion H; subst.
  destruct (wstep_source _ _ _ _ H1) as [S1 S2].
  rewrite launches_app, in_app_iff. intros [Hx|Hx].
  - destruct (S1 x Hx) as [X|X]; [exact (Hb X) | exact (Hs e (or_introl eq_refl) X)].
  - eapply IH; [| |exact H2|exact Hx].
    + intros X. destruct (S2 x X) as [Y|Y]; [exact (Hb Y) | exact (Hs e (or_introl eq_refl) Y)].
    + intros e0 He0. apply Hs. right. exact He0.
Qed.

(** C06 / C08 on the worker: from ANY state reached by ANY sequence of events, once the worker has
    given task [x] back (a RetractTasks naming it) or processed a CancelTasks for it while not
    running it, no later event starts [x] - until a ComputeTasks message names [x] again. *)
Theorem no_start_after_giveback (p0 : wproc) es0 p e p1 l1 es p2 ls x :
  WInv p0 -> wrun p0 es0 = Ok (p, l1) ->
  wstep p e = Ok (p1, ls) -> gives_back p e x ->
  (forall e', In e' es -> ~ sends e' x) ->
  forall l2, wrun p1 es = Ok (p2, l2) -> ~ In x (launches_of (ls ++ l2)).
Proof.
  intros H0 Hr0 Hst Hg Hs l2 Hr.
  pose proof (WInv_run _ _ _ _ H0 Hr0) as Hp.
  destruct (gives_back_clears _ _ _ _ _ Hp Hst Hg) as [Hb ->]. cbn [app].
  eapply no_start_without_backlog; eassumption.
Qed.

(** The initial worker process satisfies the invariant. *)
Lemma WInv_new w rs rqs : WInv (mkWP w [] [] [] [] rs rs [] [] [] rqs [] []).
Proof. constructor. Qed.
