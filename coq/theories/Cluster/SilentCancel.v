(** C08, the executable trace monitor [Monitors.cancel_final] ("once the cancel of job j was
    answered, nothing is reported for the job's cancelled tasks any more") accepts the items of
    EVERY history of the system model (no hypothesis on the history).

    The items of a history are built from the outputs of each operation the way the driver
    (ocaml/cluster/driver.ml) builds them from the lines of the real run: an event gives [IEv],
    the answer [RCancelOk ids _] to the cancel request [OpCancel j] gives [ICancelResp j ids],
    everything else as [DepOrderJournal.item_of_out] ([ILaunch], [ISubmitted]).

    Proof: the ids of a cancel response are exactly the ids of the [EvCanceled] event emitted just
    before it in the same operation ([handle_cancel_shape]), so every task the monitor has in its
    accumulator has a terminal event earlier in the stream; by [silent_after_terminal] no later
    event names it. *)
From HQ Require Import Base.Prelude Cluster.Types Cluster.Core Cluster.Reactor Cluster.Worker Cluster.Server Cluster.Sys Cluster.Monitors Cluster.ProofsJob Cluster.ProofsTerminal Cluster.BijBase Cluster.BijFinal Cluster.ProofsOnce Cluster.DepOrderJournal Cluster.SilentStart.
From Coq Require Import ZArith Lia.
Local Open Scope N_scope.

(** * Items *)
Definition citem_of_out (o : op) (x : out) : list item :=
  match x with
  | OResp (RCancelOk ids _) => match o with OpCancel j => [ICancelResp j ids] | _ => [] end
  | _ => item_of_out o x
  end.
Definition citems_of_step (o : op) (outs : list out) : list item := flat_map (citem_of_out o) outs.

Fixpoint run_citems (s : sys) (ops : list op) : res (sys * list item) :=
  match ops with
  | [] => Ok (s, [])
  | o :: r =>
      do (s1, o1) <- step s o;
      do (s2, i2) <- run_citems s1 r;
      Ok (s2, citems_of_step o o1 ++ i2)
  end.

Lemma run_citems_run ops : forall s s' items, run_citems s ops = Ok (s', items) -> exists outs, run s ops = Ok (s', outs).
Proof.
  induction ops as [|o r IH]; cbn [run run_citems]; intros s s' items H; [inversion H; subst; eexists; reflexivity|].
  apply bind_ok in H. destruct H as ([s1 o1] & H1 & H). apply bind_ok in H. destruct H as ([s2 i2] & H2 & H). inversion H; subst.
  destruct (IH _ _ _ H2) as (o2 & Ho). rewrite H1. cbn [bind]. rewrite Ho. cbn [bind]. eexists; reflexivity.
Qed.

(** * The stream property, and what it says about the events after a prefix *)
Definition SILENT (outs : list out) : Prop :=
  forall pre e post t, outs = pre ++ OEv e :: post -> In t (tids_of (OEv e)) ->
  forall e', In (OEv e') post -> ~ In t (ev_names e').

Lemma terminal_ids_in l t : In t (terminal_ids l) -> exists p e q, l = p ++ OEv e :: q /\ In t (tids_of (OEv e)).
Proof.
  unfold terminal_ids. intros H. apply in_flat_map in H. destruct H as (o & Ho & Ht).
  apply in_split in Ho. destruct Ho as (p & q & ->).
  destruct o as [e| | | | | |]; try destruct Ht. exists p, e, q. split; [reflexivity | exact Ht].
Qed.

Lemma SILENT_later total done rest t e :
  SILENT total -> total = done ++ rest -> In t (terminal_ids done) -> In (OEv e) rest -> ~ In t (ev_names e).
Proof.
  intros HS E Ht He. destruct (terminal_ids_in _ _ Ht) as (p & e1 & q & -> & Ht1).
  apply (HS p e1 (q ++ rest) t); [rewrite E, <- app_assoc; reflexivity | exact Ht1 | apply in_or_app; right; exact He].
Qed.

(** * The monitor on the items of one operation *)
Lemma tid_mem_false t l : ~ In t l -> tid_mem t l = false.
Proof.
  induction l as [|h r IH]; cbn [tid_mem In]; [reflexivity|]. intros H.
  destruct (tid_eqb t h) eqn:E; [apply tid_eqb_eq in E; exfalso; apply H; left; auto|]. cbn. apply IH. intros Hr. apply H. right. exact Hr.
Qed.

Lemma cf_event e canceled r :
  (forall t, In t canceled -> ~ In t (ev_names e)) ->
  cancel_final canceled (IEv e :: r) = cancel_final canceled r.
Proof.
  intros H. cbn [cancel_final].
  assert (Hone : forall t, In t (ev_names e) -> negb (tid_mem t canceled) = true).
  { intros t Ht. rewrite tid_mem_false; [reflexivity|]. intros Hc. exact (H t Hc Ht). }
  destruct e; cbn [ev_names] in Hone; try reflexivity.
  - rewrite (Hone t (or_introl eq_refl)). reflexivity.
  - rewrite (Hone t (or_introl eq_refl)). reflexivity.
  - rewrite (Hone t (or_introl eq_refl)). reflexivity.
  - assert (E : existsb (fun t => tid_mem t canceled) ts = false).
    { apply not_true_is_false. intros Hx. apply existsb_exists in Hx. destruct Hx as (t & Ht & Hm).
      specialize (Hone t Ht). rewrite Hm in Hone. discriminate. }
    rewrite E. reflexivity.
Qed.

Lemma cf_other o x canceled r :
  (forall e, x <> OEv e) -> (forall ids al j, x = OResp (RCancelOk ids al) -> o <> OpCancel j) ->
  cancel_final canceled (citem_of_out o x ++ r) = cancel_final canceled r.
Proof.
  intros He Hc. destruct x as [e|l|rsp|w m|w m|w|js ws]; try reflexivity.
  - exfalso. exact (He e eq_refl).
  - destruct rsp; try reflexivity. destruct o; try reflexivity. exfalso. exact (Hc ids already j eq_refl eq_refl).
Qed.

Lemma terminal_ids_mono a b t : In t (terminal_ids a) -> In t (terminal_ids (a ++ b)).
Proof. intros H. rewrite terminal_ids_app. apply in_or_app. left. exact H. Qed.

Lemma terminal_ids_mono_r a b t : In t (terminal_ids b) -> In t (terminal_ids (a ++ b)).
Proof. intros H. rewrite terminal_ids_app. apply in_or_app. right. exact H. Qed.

Lemma cf_inner o total : SILENT total -> forall rest done canceled future tail,
  total = done ++ rest ++ future ->
  (forall t, In t canceled -> In t (terminal_ids done)) ->
  (forall a ids al b j, rest = a ++ OResp (RCancelOk ids al) :: b -> o = OpCancel j ->
     forall i, In i ids -> In (j, i) (terminal_ids (done ++ a))) ->
  (forall canceled', (forall t, In t canceled' -> In t (terminal_ids (done ++ rest))) -> cancel_final canceled' tail = true) ->
  cancel_final canceled (citems_of_step o rest ++ tail) = true.
Proof.
  intros HS. induction rest as [|x rest' IH]; intros done canceled future tail E Hc Hshape Hk.
  - cbn. apply Hk. rewrite app_nil_r. exact Hc.
  - unfold citems_of_step. cbn [flat_map]. rewrite <- app_assoc. fold (citems_of_step o rest').
    assert (Hnext : forall canceled1, (forall t, In t canceled1 -> In t (terminal_ids (done ++ [x]))) ->
              cancel_final canceled1 (citems_of_step o rest' ++ tail) = true).
    { intros canceled1 Hc1. apply (IH (done ++ [x]) canceled1 future tail).
      - rewrite E, <- app_assoc. reflexivity.
      - exact Hc1.
      - intros a ids al b j Er Eo i Hi. rewrite <- app_assoc. cbn [app].
        apply (Hshape (x :: a) ids al b j); [rewrite Er; reflexivity | exact Eo | exact Hi].
      - intros c' Hc'. apply Hk. intros t Ht. specialize (Hc' t Ht). rewrite <- app_assoc in Hc'. exact Hc'. }
    assert (Hkeep : forall t, In t canceled -> In t (terminal_ids (done ++ [x]))) by (intros t Ht; apply terminal_ids_mono; apply Hc; exact Ht).
    destruct x as [e|l|rsp|w m|w m|w|js ws];
      try (rewrite cf_other; [apply Hnext; exact Hkeep | intros e0; discriminate | intros ? ? ?; discriminate]).
    + cbn [citem_of_out item_of_out app]. rewrite cf_event; [apply Hnext; exact Hkeep|].
      intros t Ht. apply (SILENT_later total done (OEv e :: rest' ++ future) t e HS E (Hc t Ht)). left. reflexivity.
    + destruct rsp as [| | | |ids al| |];
        try (rewrite cf_other; [apply Hnext; exact Hkeep | intros e0; discriminate | intros ? ? ?; discriminate]).
      destruct o; try (rewrite cf_other; [apply Hnext; exact Hkeep | intros e0; discriminate | intros ? ? ? _; discriminate]).
      cbn [citem_of_out app cancel_final]. apply Hnext.
      intros t Ht. apply in_app_or in Ht. destruct Ht as [Ht|Ht]; [|apply Hkeep; exact Ht].
      apply in_map_iff in Ht. destruct Ht as (i & <- & Hi). apply terminal_ids_mono.
      specialize (Hshape [] ids al rest' j eq_refl eq_refl i Hi). rewrite app_nil_r in Hshape. exact Hshape.
Qed.

(** * The shape of the answer to a cancel request *)
Lemma handle_cancel_shape s j s' :
  handle_cancel s j = Ok s' ->
  (exists r, snd s' = snd s ++ [OResp r] /\ forall ids al, r = RCancelOk ids al -> ids = []) \/
  (exists ids q al, (forall t, In t ids -> fst t = j) /\
     snd s' = snd s ++ [OEv (EvJobCancel j); OEv (EvCanceled ids)] ++ q ++ [OResp (RCancelOk (map snd ids) al)] /\
     (q = [] \/ q = [OEv (EvCompleted j)])).
Proof.
  intros H. unfold handle_cancel in H. destruct (find_job (hq_jobs s) j) as [jb|] eqn:Ej.
  2: { inversion H; subst. left. exists RCancelInvalid. split; [reflexivity | intros ids al E; discriminate]. }
  destruct (non_finished_task_ids jb) as [|i0 ir] eqn:En.
  { inversion H; subst. left. eexists. split; [reflexivity|]. intros ids al E. inversion E; reflexivity. }
  rewrite <- En in H. right.
  apply bind_ok in H. destruct H as (s1 & H1 & H). apply bind_ok in H. destruct H as (al & _ & H).
  apply bind_ok in H. destruct H as (s2 & H2 & H). inversion H; subst s'. clear H.
  pose proof (on_cancel_tasks_snd _ _ _ H1) as S1.
  exists (non_finished_task_ids jb).
  assert (Hfst : forall t, In t (non_finished_task_ids jb) -> fst t = j).
  { intros t Ht. unfold non_finished_task_ids in Ht. apply in_map_iff in Ht. destruct Ht as (kv & <- & _). cbn. eapply find_job_id; exact Ej. }
  unfold set_cancel_state in H2. rewrite En in H2. rewrite <- En in H2.
  apply bind_ok in H2. destruct H2 as (j0 & _ & H2). apply bind_ok in H2. destruct H2 as (j1 & _ & H2).
  unfold check_termination in H2. apply bind_ok in H2. destruct H2 as (j2 & _ & H2). apply bind_ok in H2. destruct H2 as (na & _ & H2).
  assert (Hcase : (snd s2 = snd s ++ [OEv (EvJobCancel j); OEv (EvCanceled (non_finished_task_ids jb))] ++ []) \/
                  (snd s2 = snd s ++ [OEv (EvJobCancel j); OEv (EvCanceled (non_finished_task_ids jb))] ++ [OEv (EvCompleted j)])).
  { destruct na; [destruct (j_open j2)|]; inversion H2; subst s2; cbn [snd emit fst hq_set_job]; rewrite S1, <- ?app_assoc; cbn [app]; auto. }
  destruct Hcase as [Hs|Hs].
  - exists [], al. split; [exact Hfst|]. split; [|left; reflexivity]. cbn [snd emit]. rewrite Hs, <- !app_assoc. reflexivity.
  - exists [OEv (EvCompleted j)], al. split; [exact Hfst|]. split; [|right; reflexivity]. cbn [snd emit]. rewrite Hs, <- !app_assoc. reflexivity.
Qed.

Lemma resp_last (l : list out) : forall a x b y,
  Forall (fun o => exists e, o = OEv e) l -> a ++ OResp x :: b = l ++ [OResp y] -> a = l /\ x = y /\ b = [].
Proof.
  induction l as [|h l' IH]; intros a x b y Hl E.
  - destruct a as [|h' a']; cbn [app] in E; [inversion E; auto|]. inversion E as [[E1 E2]]. destruct a'; discriminate.
  - inversion Hl as [|? ? (e & He) Hl']; subst. destruct a as [|h' a']; cbn [app] in E; [discriminate|].
    inversion E as [[E1 E2]]. destruct (IH _ _ _ _ Hl' E2) as (-> & -> & ->). auto.
Qed.

Lemma cancel_resp_ids s o s' outs a ids al b j :
  step s o = Ok (s', outs) -> outs = a ++ OResp (RCancelOk ids al) :: b -> o = OpCancel j ->
  forall i, In i ids -> In (j, i) (terminal_ids a).
Proof.
  intros H E -> i Hi. cbn [step] in H.
  destruct (handle_cancel_shape _ _ _ H) as [(r & Es & Hr)|(ids0 & q & al0 & Hf & Es & Hq)]; cbn [snd app] in Es; rewrite Es in E; clear Es.
  - symmetry in E. destruct (resp_last [] _ _ _ _ (Forall_nil _) E) as (_ & Er & _).
    rewrite (Hr ids al (eq_sym Er)) in Hi. destruct Hi.
  - symmetry in E. change (OEv (EvJobCancel j) :: OEv (EvCanceled ids0) :: q ++ [OResp (RCancelOk (map snd ids0) al0)])
      with ((OEv (EvJobCancel j) :: OEv (EvCanceled ids0) :: q) ++ [OResp (RCancelOk (map snd ids0) al0)]) in E.
    assert (Hl : Forall (fun o => exists e, o = OEv e) (OEv (EvJobCancel j) :: OEv (EvCanceled ids0) :: q)).
    { constructor; [eexists; reflexivity|]. constructor; [eexists; reflexivity|].
      destruct Hq as [-> | ->]; [constructor | constructor; [eexists; reflexivity | constructor]]. }
    destruct (resp_last _ _ _ _ _ Hl E) as (-> & Er & _). inversion Er; subst ids.
    apply in_map_iff in Hi. destruct Hi as (t & <- & Ht).
    unfold terminal_ids. cbn [flat_map app tids_of]. apply in_or_app. left.
    replace (j, snd t) with t; [exact Ht|]. destruct t as [tj ti]. cbn. rewrite <- (Hf _ Ht). reflexivity.
Qed.

(** * Every history *)
Lemma cf_run total : SILENT total -> forall ops s done canceled s' outs items,
  total = done ++ outs -> run s ops = Ok (s', outs) -> run_citems s ops = Ok (s', items) ->
  (forall t, In t canceled -> In t (terminal_ids done)) -> cancel_final canceled items = true.
Proof.
  intros HS. induction ops as [|o r IH]; cbn [run run_citems]; intros s done canceled s' outs items E H Hi Hc.
  - inversion Hi; subst. reflexivity.
  - apply bind_ok in H. destruct H as ([s1 o1] & H1 & H). apply bind_ok in H. destruct H as ([s2 o2] & H2 & H). inversion H; subst s2 outs. clear H.
    rewrite H1 in Hi. cbn [bind] in Hi. apply bind_ok in Hi. destruct Hi as ([s3 i2] & Hi2 & Hi). inversion Hi; subst s3 items. clear Hi.
    apply (cf_inner o total HS o1 done canceled o2 i2); [exact E | exact Hc | |].
    + intros a ids al b j Eo Ej i Hin. apply terminal_ids_mono_r. eapply cancel_resp_ids; eassumption.
    + intros c' Hc'. apply (IH s1 (done ++ o1) c' s' o2 i2); [rewrite E, app_assoc; reflexivity | exact H2 | exact Hi2 | exact Hc'].
Qed.

(** C08: the monitor accepts every history. *)
Theorem cancel_final_run ops reserve maxfill s items :
  run_citems (init_sys reserve maxfill) ops = Ok (s, items) -> cancel_final [] items = true.
Proof.
  intros Hi. destruct (run_citems_run _ _ _ _ Hi) as (outs & H).
  apply (cf_run outs) with (ops := ops) (s := init_sys reserve maxfill) (done := []) (s' := s) (outs := outs);
    [ | reflexivity | exact H | exact Hi | intros t []].
  intros pre e post t E Ht e' He'. eapply silent_after_terminal; [exact H | exact E | | exact He'].
  unfold terminal_ids. cbn [flat_map]. rewrite app_nil_r. exact Ht.
Qed.

(** * Non-vacuity: a job with a running and a waiting task is cancelled; the response names both,
    the monitor accepts; and it rejects a stream that reports a cancelled task afterwards. *)
Definition cancel_ops : list op :=
  [OpConnect [10000; 0; 0] 0;
   OpSubmit None [] (Some 2) once_rq 0%Z (CMax 3) false None;
   OpSched (mkSol [(0, 0, [(1, 1)])] [] [1] []);
   OpDDown 1 []; OpDDown 1 []; OpDUp 1;
   OpCancel 1; OpDDown 1 []; OpOpen None].

Example cancel_final_example : exists s items, run_citems (init_sys 0 2) cancel_ops = Ok (s, items)
  /\ In (IEv (EvStarted (1, 0) 0 [1] 0)) items /\ In (ICancelResp 1 [0; 1]) items /\ cancel_final [] items = true.
Proof.
  eexists. eexists. split; [vm_compute; reflexivity|].
  split; [cbn; tauto|]. split; [cbn; tauto | vm_compute; reflexivity].
Qed.

Example cancel_final_rejects :
  cancel_final [] [IEv (EvCanceled [(1, 0)]); ICancelResp 1 [0]; IEv (EvStarted (1, 0) 0 [1] 0)] = false /\
  cancel_final [] [IEv (EvCanceled [(1, 0)]); ICancelResp 1 [0]; IEv (EvFinished (1, 0))] = false /\
  cancel_final [] [IEv (EvCanceled [(1, 0)]); ICancelResp 1 [0]; IEv (EvAborted [(1, 1); (1, 0)])] = false /\
  cancel_final [] [IEv (EvStarted (1, 0) 0 [1] 0); IEv (EvCanceled [(1, 0)]); ICancelResp 1 [0]; IEv (EvCompleted 1)] = true.
Proof. vm_compute. repeat split; reflexivity. Qed.

Print Assumptions cancel_final_run.
