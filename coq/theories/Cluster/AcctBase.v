(** C05, accounting conjunct, part 1: resource vectors pointwise, the ghost-indexed accounting
    predicate of one worker and what the five functions that touch a worker's free counter do to it.

    The free counter of a single-node worker is changed by [insert_sn_task] and
    [task_from_prefilled_to_started] (SATURATING subtraction [res_sub]), by [remove_sn_task]
    (addition), and reset by [reset_mn_task] / [on_new_worker].  [accw rqf w] says: the counter has
    the length of the worker's total and, at EVERY index, free + sum of the requests of the assigned
    tasks = total, where the request of a task is given by a fixed function [rqf] (the "ghost";
    it is instantiated with [request_of c0] for the core [c0] at the start of a step, so that the
    predicate mentions the worker only and is insensitive to what happens to the task map). *)
From HQ Require Import Base.Prelude Cluster.Types Cluster.Core Cluster.Reactor Cluster.Worker Cluster.Server Cluster.Sys Cluster.Monitors Cluster.BijBase Cluster.InvWBase Cluster.InvWCore Cluster.InvWX1.
From Coq Require Import ZArith Lia.
Local Open Scope N_scope.

Arguments N.add : simpl never.
Arguments N.sub : simpl never.

(** * Resource vectors, pointwise *)
Definition at_ (i : nat) (l : list N) : N := nth i l 0.

Lemma at_nil i : at_ i [] = 0.
Proof. unfold at_. destruct i; reflexivity. Qed.
Lemma at_cons_0 h t : at_ 0 (h :: t) = h.
Proof. reflexivity. Qed.
Lemma at_cons_S i h t : at_ (S i) (h :: t) = at_ i t.
Proof. reflexivity. Qed.
Lemma at_beyond i l : (length l <= i)%nat -> at_ i l = 0.
Proof. intros H. unfold at_. apply nth_overflow. exact H. Qed.

Lemma res_add_length f : forall r, length (res_add f r) = length f.
Proof. induction f as [|h ht IH]; intros [|a t]; cbn [res_add length]; try reflexivity. rewrite IH. reflexivity. Qed.
Lemma res_sub_length f : forall r, length (res_sub f r) = length f.
Proof. induction f as [|h ht IH]; intros [|a t]; cbn [res_sub length]; try reflexivity. rewrite IH. reflexivity. Qed.

Lemma at_res_add f : forall r i, at_ i (res_add f r) = if (i <? length f)%nat then at_ i f + at_ i r else 0.
Proof.
  induction f as [|h ht IH]; intros r i.
  - destruct r; cbn [res_add length]; rewrite at_nil; destruct i; reflexivity.
  - destruct r as [|a t]; cbn [res_add].
    + rewrite at_nil. destruct (i <? length (h :: ht))%nat eqn:E; [lia|].
      apply Nat.ltb_ge in E. apply at_beyond. exact E.
    + destruct i as [|i]; [rewrite !at_cons_0; reflexivity|]. rewrite !at_cons_S, IH. reflexivity.
Qed.

(** The capped add-back of [remove_sn_task] is the plain one whenever the result stays within the cap
    - in particular under the accounting invariant. *)
Lemma res_add_cap_within f : forall r cap, length f = length cap -> (forall i, at_ i f + at_ i r <= at_ i cap) ->
  res_add_cap f r cap = res_add f r.
Proof.
  induction f as [|h ht IH]; intros [|a t] cap L H; cbn [res_add res_add_cap]; try reflexivity.
  destruct cap as [|c ct]; [discriminate|]. f_equal.
  - specialize (H O). rewrite !at_cons_0 in H. lia.
  - apply IH; [cbn in L; lia|]. intros i. specialize (H (S i)). rewrite !at_cons_S in H. exact H.
Qed.

Lemma at_res_sub f : forall r i, at_ i (res_sub f r) = at_ i f - at_ i r.
Proof.
  induction f as [|h ht IH]; intros r i.
  - destruct r; cbn [res_sub]; rewrite at_nil; lia.
  - destruct r as [|a t]; cbn [res_sub]; [rewrite at_nil; lia|].
    destruct i as [|i]; [rewrite !at_cons_0; reflexivity|]. rewrite !at_cons_S, IH. reflexivity.
Qed.

Lemma res_fits_iff f : forall r, res_fits f r = true <-> forall i, at_ i r <= at_ i f.
Proof.
  induction f as [|h ht IH]; intros r.
  - induction r as [|a t IHr]; cbn [res_fits].
    + split; [intros _ i; rewrite at_nil; lia | reflexivity].
    + rewrite andb_true_iff, IHr, N.eqb_eq. split.
      * intros [-> H] [|i]; [rewrite at_cons_0, at_nil; lia | rewrite at_cons_S, at_nil; specialize (H i); rewrite at_nil in H; exact H].
      * intros H. split; [specialize (H O); rewrite at_cons_0, at_nil in H; lia|].
        intros i. specialize (H (S i)). rewrite at_cons_S in H. rewrite at_nil in *. exact H.
  - destruct r as [|a t]; cbn [res_fits].
    + split; [intros _ i; rewrite at_nil; lia | reflexivity].
    + rewrite andb_true_iff, IH, N.leb_le. split.
      * intros [L H] [|i]; [rewrite !at_cons_0; exact L | rewrite !at_cons_S; apply H].
      * intros H. split; [exact (H O) | intros i; exact (H (S i))].
Qed.

Lemma res_eqb_iff a : forall b, res_eqb a b = true <-> a = b.
Proof.
  induction a as [|x r IH]; intros [|y r']; cbn [res_eqb]; try (split; [discriminate | intros X; inversion X]); [tauto|].
  rewrite andb_true_iff, IH, N.eqb_eq. split; [intros [-> ->]; reflexivity | intros X; inversion X; auto].
Qed.

Lemma at_ext a b : length a = length b -> (forall i, at_ i a = at_ i b) -> a = b.
Proof. intros L H. apply (nth_ext a b 0 0 L). intros i _. apply H. Qed.

(** * The sum of the requests of a set of tasks, at one index *)
Definition tot (rqf : tid -> list N) (a : list tid) (i : nat) : N :=
  fold_right (fun id acc => at_ i (rqf id) + acc) 0 a.

Lemma tot_nil rqf i : tot rqf [] i = 0.
Proof. reflexivity. Qed.
Lemma tot_cons rqf x a i : tot rqf (x :: a) i = at_ i (rqf x) + tot rqf a i.
Proof. reflexivity. Qed.

Lemma tot_insert rqf id a i : tid_mem id a = false -> tot rqf (tid_insert id a) i = at_ i (rqf id) + tot rqf a i.
Proof.
  induction a as [|h t IH]; cbn [tid_mem tid_insert]; intros H; [reflexivity|].
  apply orb_false_iff in H. destruct H as [E M]. rewrite E.
  destruct (tid_ltb id h); [reflexivity|]. rewrite !tot_cons, (IH M). lia.
Qed.

Lemma tot_remove rqf id a i : tid_mem id a = true -> tot rqf a i = at_ i (rqf id) + tot rqf (tid_remove id a) i.
Proof.
  induction a as [|h t IH]; cbn [tid_mem tid_remove]; intros H; [discriminate|].
  destruct (tid_eqb id h) eqn:E.
  - apply tid_eqb_eq in E. subst h. reflexivity.
  - cbn [orb] in H. rewrite !tot_cons, (IH H). lia.
Qed.

Lemma tot_ext g h a i : (forall x, In x a -> g x = h x) -> tot g a i = tot h a i.
Proof.
  induction a as [|y r IH]; intros E; [reflexivity|]. rewrite !tot_cons, (E y (or_introl eq_refl)), IH; [reflexivity|].
  intros x Hx. apply E. right. exact Hx.
Qed.

(** [Monitors.sum_requests] is the sum truncated to three components. *)
Lemma fold_res_add_length (g : tid -> list N) a : forall acc, length (fold_left (fun x id => res_add x (g id)) a acc) = length acc.
Proof. induction a as [|y r IH]; intros acc; cbn [fold_left]; [reflexivity|]. rewrite IH, res_add_length. reflexivity. Qed.

Lemma at_fold_res_add (g : tid -> list N) a i : forall acc,
  at_ i (fold_left (fun x id => res_add x (g id)) a acc) = if (i <? length acc)%nat then at_ i acc + tot g a i else 0.
Proof.
  induction a as [|y r IH]; intros acc; cbn [fold_left].
  - rewrite tot_nil. destruct (i <? length acc)%nat eqn:E; [lia|]. apply Nat.ltb_ge in E. apply at_beyond. exact E.
  - rewrite IH, res_add_length, at_res_add, tot_cons. destruct (i <? length acc)%nat; [lia | reflexivity].
Qed.

Lemma sum_requests_length c a : length (sum_requests c a) = 3%nat.
Proof. unfold sum_requests. rewrite fold_res_add_length. reflexivity. Qed.

Lemma at_sum_requests c a i : at_ i (sum_requests c a) = if (i <? 3)%nat then tot (request_of c) a i else 0.
Proof.
  unfold sum_requests. rewrite at_fold_res_add. cbn [length].
  destruct (i <? 3)%nat eqn:E; [|reflexivity]. apply Nat.ltb_lt in E.
  destruct i as [|[|[|i]]]; try lia; reflexivity.
Qed.

(** * The accounting of one worker against a ghost request function *)
Definition accw (rqf : tid -> list N) (w : sworker) : Prop :=
  match w_assign w with
  | Sn a _ f => length f = length (w_res w) /\ forall i, at_ i f + tot rqf a i = at_ i (w_res w)
  | Mn _ _ => True
  end.

(** "the subtraction of [rq] from the free counter of [wk] does not saturate" *)
Definition wfits (wk : sworker) (rq : list N) : bool :=
  match w_assign wk with Sn _ _ f => res_fits f rq | Mn _ _ => true end.

Lemma accw_insert rqf wk id rq wk' :
  accw rqf wk -> insert_sn_task wk id rq = Ok wk' -> rq = rqf id -> wfits wk rq = true -> accw rqf wk'.
Proof.
  unfold accw, wfits, insert_sn_task. destruct (w_assign wk) as [a p f|]; [|discriminate].
  intros [L A] H -> F. destruct (tid_mem id a) eqn:M; [discriminate|]. inversion H; subst; clear H.
  cbn [w_assign w_res with_assign]. split; [rewrite res_sub_length; exact L|].
  intros i. rewrite at_res_sub, (tot_insert _ _ _ _ M). specialize (A i).
  pose proof (proj1 (res_fits_iff f (rqf id)) F i). lia.
Qed.

Lemma accw_p2s rqf wk id rq wk' :
  accw rqf wk -> task_from_prefilled_to_started wk id rq = Ok wk' -> rq = rqf id -> wfits wk rq = true -> accw rqf wk'.
Proof.
  unfold accw, wfits, task_from_prefilled_to_started. destruct (w_assign wk) as [a p f|]; [|discriminate].
  intros [L A] H -> F. destruct (negb (tid_mem id p)); [discriminate|].
  destruct (tid_mem id a) eqn:M; [discriminate|]. inversion H; subst; clear H.
  cbn [w_assign w_res with_assign]. split; [rewrite res_sub_length; exact L|].
  intros i. rewrite at_res_sub, (tot_insert _ _ _ _ M). specialize (A i).
  pose proof (proj1 (res_fits_iff f (rqf id)) F i). lia.
Qed.

(** The condition is also NECESSARY: a subtraction that saturates breaks the accounting of the worker
    (so [wfits] is exactly what separates the good histories from F23 / an ill-fitting answer). *)
Lemma accw_insert_conv rqf wk id wk' :
  accw rqf wk -> insert_sn_task wk id (rqf id) = Ok wk' -> accw rqf wk' -> wfits wk (rqf id) = true.
Proof.
  unfold accw, wfits, insert_sn_task. destruct (w_assign wk) as [a p f|]; [|discriminate].
  intros [L A] H. destruct (tid_mem id a) eqn:M; [discriminate|]. injection H as <-.
  cbn [w_assign w_res with_assign]. intros [L' A']. apply res_fits_iff. intros i.
  specialize (A i). specialize (A' i). rewrite at_res_sub, (tot_insert _ _ _ _ M) in A'. lia.
Qed.

Lemma accw_p2s_conv rqf wk id wk' :
  accw rqf wk -> task_from_prefilled_to_started wk id (rqf id) = Ok wk' -> accw rqf wk' -> wfits wk (rqf id) = true.
Proof.
  unfold accw, wfits, task_from_prefilled_to_started. destruct (w_assign wk) as [a p f|]; [|discriminate].
  intros [L A] H. destruct (negb (tid_mem id p)); [discriminate|]. destruct (tid_mem id a) eqn:M; [discriminate|]. injection H as <-.
  cbn [w_assign w_res with_assign]. intros [L' A']. apply res_fits_iff. intros i.
  specialize (A i). specialize (A' i). rewrite at_res_sub, (tot_insert _ _ _ _ M) in A'. lia.
Qed.

Lemma accw_remove rqf wk id rq wk' :
  accw rqf wk -> remove_sn_task wk id rq = Ok wk' -> rq = rqf id -> accw rqf wk'.
Proof.
  unfold accw, remove_sn_task. destruct (w_assign wk) as [a p f|]; [|discriminate].
  intros [L A] H ->. destruct (tid_mem id a) eqn:M; [|discriminate]. inversion H; subst; clear H.
  cbn [w_assign w_res with_assign].
  rewrite res_add_cap_within; [| exact L | intros i; specialize (A i); rewrite (tot_remove _ _ _ i M) in A; lia].
  split; [rewrite res_add_length; exact L|].
  intros i. rewrite at_res_add. specialize (A i). rewrite (tot_remove _ _ _ i M) in A.
  destruct (i <? length f)%nat eqn:E; [lia|].
  apply Nat.ltb_ge in E. rewrite (at_beyond i f E) in A. rewrite (at_beyond i (w_res wk)) in * by lia. lia.
Qed.

Lemma accw_remove_prefill rqf wk id wk' : accw rqf wk -> remove_prefill_task wk id = Ok wk' -> accw rqf wk'.
Proof.
  unfold accw, remove_prefill_task. destruct (w_assign wk) as [a p f|]; [|discriminate].
  intros A H. destruct (tid_mem id p); [|discriminate]. inversion H; subst. exact A.
Qed.

Lemma accw_insert_prefill rqf wk id wk' : accw rqf wk -> insert_prefill_task wk id = Ok wk' -> accw rqf wk'.
Proof.
  unfold accw, insert_prefill_task. destruct (w_assign wk) as [a p f|]; [|discriminate].
  intros A H. destruct (tid_mem id p); [discriminate|]. inversion H; subst. exact A.
Qed.

Lemma accw_reset rqf wk : accw rqf (reset_mn_task wk).
Proof. unfold accw, reset_mn_task. cbn [w_assign w_res with_assign]. split; [reflexivity|]. intros i. rewrite tot_nil. lia. Qed.

Lemma accw_set_mn rqf wk t root wk' : set_mn_task wk t root = Ok wk' -> accw rqf wk'.
Proof. unfold set_mn_task. destruct (worker_is_free wk); [|discriminate]. intros H; inversion H; subst. exact I. Qed.

Lemma accw_blocked rqf wk b : accw rqf wk -> accw rqf (with_blocked wk b).
Proof. unfold accw. cbn [w_assign w_res with_blocked]. auto. Qed.

Lemma accw_new rqf w rs g : accw rqf (mkSW w (Sn [] [] rs) rs [] g false).
Proof. unfold accw. cbn [w_assign w_res]. split; [reflexivity|]. intros i. rewrite tot_nil. lia. Qed.

(** The ghost may be changed outside the assigned set. *)
Lemma accw_ext g h wk : (forall a p f x, w_assign wk = Sn a p f -> In x a -> g x = h x) -> accw g wk -> accw h wk.
Proof.
  unfold accw. destruct (w_assign wk) as [a p f|]; [|auto]. intros E [L A]. split; [exact L|].
  intros i. rewrite <- (tot_ext g h a i); [apply A|]. intros x Hx. eapply E; [reflexivity | exact Hx].
Qed.

(** * All workers; the request table of the tasks *)
Definition ACCW (rqf : tid -> list N) (ws : list sworker) : Prop := forall wk, In wk ws -> accw rqf wk.

Lemma set_worker_in ws x y : In y (set_worker ws x) -> y = x \/ In y ws.
Proof.
  induction ws as [|h r IH]; cbn [set_worker In]; [intros [H|[]]; auto|].
  destruct (N.eqb (w_id x) (w_id h)); cbn [In]; [intros [H|H]; auto|].
  destruct (N.ltb (w_id x) (w_id h)); cbn [In]; [intros [H|[H|H]]; auto|].
  intros [H|H]; [auto|]. destruct (IH H); auto.
Qed.
Lemma del_worker_in ws w y : In y (del_worker ws w) -> In y ws.
Proof.
  induction ws as [|h r IH]; cbn [del_worker In]; [auto|].
  destruct (N.eqb w (w_id h)); [auto|]. cbn [In]. intros [H|H]; auto.
Qed.

Lemma ACCW_set rqf ws x : ACCW rqf ws -> accw rqf x -> ACCW rqf (set_worker ws x).
Proof. intros A X y H. destruct (set_worker_in _ _ _ H) as [->|H']; [exact X | apply A; exact H']. Qed.
Lemma ACCW_del rqf ws w : ACCW rqf ws -> ACCW rqf (del_worker ws w).
Proof. intros A y H. apply A. eapply del_worker_in. exact H. Qed.
Lemma ACCW_find rqf ws w wk : ACCW rqf ws -> find_worker ws w = Some wk -> accw rqf wk.
Proof. intros A H. apply A. apply (find_worker_some _ _ _ H). Qed.
Lemma ACCW_get rqf ws w wk : ACCW rqf ws -> get_worker ws w = Ok wk -> accw rqf wk.
Proof. intros A H. eapply ACCW_find; [exact A | apply get_worker_find; exact H]. Qed.

(** The amounts of request class [n]. *)
Definition lk (rqs : list rqdef) (n : N) : list N :=
  match nth_error rqs (N.to_nat n) with Some r => rq_res r | None => [] end.

Lemma get_rq_lk rqs n r : get_rq rqs n = Ok r -> lk rqs n = rq_res r.
Proof. unfold get_rq, lk. destruct (nth_error rqs (N.to_nat n)); intros H; inversion H; reflexivity. Qed.

Lemma request_of_lk c id t : find_task (c_tasks c) id = Some t -> request_of c id = lk (c_rqs c) (t_rq t).
Proof. intros H. unfold request_of, lk. rewrite H. reflexivity. Qed.

Lemma request_of_get_rq c id t rq :
  find_task (c_tasks c) id = Some t -> get_rq (c_rqs c) (t_rq t) = Ok rq -> request_of c id = rq_res rq.
Proof. intros Hf Hr. rewrite (request_of_lk _ _ _ Hf). apply get_rq_lk. exact Hr. Qed.

(** Every task's request is what the ghost says ([rqs] = the request table, which no step other
    than a submit changes). *)
Definition TL (rqf : tid -> list N) (rqs : list rqdef) (ts : list task) : Prop :=
  forall t, In t ts -> lk rqs (t_rq t) = rqf (t_id t).

Definition AI (rqf : tid -> list N) (rqs : list rqdef) (c : core) : Prop :=
  ACCW rqf (c_workers c) /\ c_rqs c = rqs /\ TL rqf rqs (c_tasks c).

Lemma TL_set rqf rqs ts x : TL rqf rqs ts -> lk rqs (t_rq x) = rqf (t_id x) -> TL rqf rqs (set_task ts x).
Proof. intros H X t Hin. destruct (set_task_in _ _ _ Hin) as [->|Hin']; [exact X | apply H; exact Hin']. Qed.
Lemma TL_del rqf rqs ts id : TL rqf rqs ts -> TL rqf rqs (del_task ts id).
Proof. intros H t Hin. apply H. eapply del_task_in. exact Hin. Qed.

Lemma AI_workers rqf rqs c : AI rqf rqs c -> ACCW rqf (c_workers c).
Proof. intros H. exact (proj1 H). Qed.
Lemma AI_rqs rqf rqs c : AI rqf rqs c -> c_rqs c = rqs.
Proof. intros H. exact (proj1 (proj2 H)). Qed.

Lemma AI_find rqf rqs c id t : AI rqf rqs c -> find_task (c_tasks c) id = Some t -> lk rqs (t_rq t) = rqf (t_id t) /\ t_id t = id.
Proof. intros (_ & _ & H) Hf. destruct (find_task_some _ _ _ Hf) as [Hin Hid]. split; [apply H; exact Hin | exact Hid]. Qed.

Lemma AI_get_rq rqf rqs c id t rq : AI rqf rqs c -> find_task (c_tasks c) id = Some t -> get_rq (c_rqs c) (t_rq t) = Ok rq -> rq_res rq = rqf id.
Proof.
  intros HA Hf Hr. destruct (AI_find _ _ _ _ _ HA Hf) as [E <-]. rewrite <- E, <- (AI_rqs _ _ _ HA). symmetry. apply get_rq_lk. exact Hr.
Qed.

(** Frames of [AI]. *)
Lemma AI_frame rqf rqs c c' : c_workers c' = c_workers c -> c_tasks c' = c_tasks c -> c_rqs c' = c_rqs c -> AI rqf rqs c -> AI rqf rqs c'.
Proof. intros Ew Et Er (A & R & T). split; [rewrite Ew; exact A | split; [rewrite Er; exact R | rewrite Et; exact T]]. Qed.

Lemma AI_upd_worker rqf rqs c x : AI rqf rqs c -> accw rqf x -> AI rqf rqs (upd_worker c x).
Proof. intros (A & R & T) X. split; [apply ACCW_set; assumption | split; [exact R | exact T]]. Qed.

Lemma AI_upd_task rqf rqs c x : AI rqf rqs c -> lk rqs (t_rq x) = rqf (t_id x) -> AI rqf rqs (upd_task c x).
Proof. intros (A & R & T) X. split; [exact A | split; [exact R | apply TL_set; assumption]]. Qed.

(** Updating a task found in the map without touching its id and request class. *)
Lemma AI_upd_same rqf rqs c id t x : AI rqf rqs c -> find_task (c_tasks c) id = Some t -> t_id x = t_id t -> t_rq x = t_rq t -> AI rqf rqs (upd_task c x).
Proof.
  intros H Hf Ei Er. apply AI_upd_task; [exact H|]. rewrite Ei, Er. apply (AI_find _ _ _ _ _ H Hf).
Qed.
